/-
C20 — Display and Debug render every element once, row by row, for any matrix.

`Model/Fmt.lean` is the source's algorithm over `List Char` with the element renderings as an input
function `render`.  `= .ok …` means: no `cache[index]` out of range, no arithmetic overflow.
-/
import Matreex.Model.Fmt
import Matreex.Lemmas.Bridge
import Matreex.Lemmas.Matrix
import Matreex.Lemmas.Fmt

namespace Matreex.C20
open Matreex Matreex.Fmt
variable {α : Type}

/-- a rendering without a line break -/
def SingleLine (s : List Char) : Prop := '\n' ∉ s

/-- what one cell shows for a single-line rendering: the text padded to the common width, or a
run of spaces for an empty rendering; always `max w 1` characters when the text fits `w` -/
def cellText (w : Nat) (s : List Char) : List Char := if s = [] then spaceW w else padRight s w

/-- the common element width: the longest rendering, over the logical positions -/
def widthOf (render : α → List Char) (m : Matrix α) : Nat :=
  maxOf ((List.range m.nrows).flatMap fun r => (List.range m.ncols).map fun c =>
    ((m.at? r c).map fun x => (render x).length).getD 0)

/-- one bracketed line per logical row, elements in column order -/
def rowText (render : α → List Char) (m : Matrix α) (w r : Nat) : List Char :=
  spaceW TAB_SIZE ++ ['['] ++
    (List.intercalate (spaceW INTER_GAP)
      ((List.range m.ncols).map fun c => ((m.at? r c).map fun x => cellText w (render x)).getD [])) ++
    [']', '\n']

/-- the Display text the property describes, for single-line renderings -/
def displaySpec (render : α → List Char) (m : Matrix α) : List Char :=
  ['[', '\n'] ++ ((List.range m.nrows).flatMap fun r => rowText render m (widthOf render m) r) ++ [']']

/-- Display never panics: every `cache[index]` is in range and no index computation overflows,
for every matrix (any shape, either order) and every family of renderings (multi-line included) -/
theorem display_no_panic (render : α → List Char) (m : Matrix α) (h : m.Coh)
    (hfit : m.data.size ≤ usizeMax) : ∃ s, display render m = .ok s := by
  unfold display
  split
  · exact ⟨_, rfl⟩
  · obtain ⟨body, hb⟩ := rowsLoop_ok m h hfit
      (maxOf ((m.data.toList.map fun e => lines (render e)).toArray.toList.map fun ls =>
        maxOf (ls.map List.length)))
      (maxOf ((m.data.toList.map fun e => lines (render e)).toArray.toList.map List.length))
      (fun _ => spaceW TAB_SIZE) (spaceW TAB_SIZE ++ [' ']) (fun _ => []) (fun _ => [])
      m.nrows 0 (m.data.toList.map fun e => lines (render e)).toArray [] (by omega) (by simp)
    simp only [hb, bind, Except.bind, pure, Except.pure]
    exact ⟨_, rfl⟩

/-- Debug never panics either -/
theorem debug_no_panic (render : α → List Char) (m : Matrix α) (h : m.Coh)
    (hfit : m.data.size ≤ usizeMax) : ∃ s, debug render m = .ok s := by
  unfold debug
  split
  · exact ⟨_, rfl⟩
  · obtain ⟨body, hb⟩ := rowsLoop_ok m h hfit
      (maxOf ((m.data.toList.map fun e => lines (render e)).toArray.toList.map fun ls =>
        maxOf (ls.map List.length)))
      (maxOf ((m.data.toList.map fun e => lines (render e)).toArray.toList.map List.length))
      (fun row => spaceW TAB_SIZE ++ padLeftNat row (toString m.data.size).length ++ spaceW OUTER_GAP)
      (spaceW TAB_SIZE ++ spaceW (toString m.data.size).length ++ spaceW OUTER_GAP ++ [' '])
      (fun index => padLeftNat index (toString m.data.size).length ++ spaceW INNER_GAP)
      (fun _ => spaceW (toString m.data.size).length ++ spaceW INNER_GAP)
      m.nrows 0 (m.data.toList.map fun e => lines (render e)).toArray [] (by omega) (by simp)
    simp only [hb, bind, Except.bind, pure, Except.pure]
    exact ⟨_, rfl⟩

/-- an element-less matrix prints as `[]` (both impls) -/
theorem empty_text (render : α → List Char) (m : Matrix α) (h0 : m.data.size = 0) :
    display render m = .ok ['[', ']'] ∧ debug render m = .ok ['[', ']'] := by
  simp [display, debug, h0]

/-- C20 headline for single-line renderings: the text is `[`, then exactly one bracketed line per
logical row holding that row's elements in column order, then `]` — a function of the *logical*
matrix only, hence identical for equal matrices stored in different orders -/
theorem display_single_line (render : α → List Char) (m : Matrix α) (h : m.Coh)
    (hfit : m.data.size ≤ usizeMax) (hne : m.data.size ≠ 0)
    (hs : ∀ x ∈ m.data.toList, SingleLine (render x)) :
    display render m = .ok (displaySpec render m) := by
  have hs' : ∀ x ∈ m.data.toList, '\n' ∉ render x := hs
  rw [display_unfold render m hne,
    rowsLoop_spec render m h hfit hs' (dispW render m) (dispH render m) (dispH_le_one render m hs')
      (spaceW TAB_SIZE ++ [' ']) (fun _ => []) m.nrows 0 (cache0 render m) [] (by omega)
      (cache0_size render m)
      (fun r c _ hr hc => by
        obtain ⟨x, hx⟩ := at?_some m h hr hc
        exact ⟨x, hx, cache0_at render m hx⟩)]
  simp only [bind, Except.bind, pure, Except.pure, displaySpec, widthOf, ← dispW_eq render m h hs',
    List.nil_append, ← List.range_eq_range']
  have hrow : (fun r => rowTxt render m (dispW render m) r) =
      fun r => rowText render m (dispW render m) r := by
    funext r
    simp only [rowTxt, rowText, rowSpec_eq_intercalate]
    rfl
  rw [hrow]

/-- every cell is `max w 1` characters wide when the text fits the width -/
theorem cellText_length (w : Nat) (s : List Char) (h : s.length ≤ w) : (cellText w s).length = max w 1 := by
  exact cellTxt_length w s h

/-- all row lines are equally wide in characters -/
theorem row_lines_equal_width (render : α → List Char) (m : Matrix α) (h : m.Coh) (r r' : Nat)
    (hr : r < m.nrows) (hr' : r' < m.nrows) :
    (rowText render m (widthOf render m) r).length = (rowText render m (widthOf render m) r').length := by
  have key : ∀ r, r < m.nrows →
      ((spaceW INTER_GAP).intercalate ((List.range m.ncols).map fun c =>
        ((m.at? r c).map fun x => cellText (widthOf render m) (render x)).getD [])).length =
      m.ncols * max (widthOf render m) 1 + (m.ncols - 1) * (spaceW INTER_GAP).length := by
    intro r hr
    rw [intercalate_length_const (spaceW INTER_GAP) (max (widthOf render m) 1)]
    · simp
    · intro t ht
      simp only [List.mem_map, List.mem_range] at ht
      obtain ⟨c, hc, rfl⟩ := ht
      obtain ⟨x, hx⟩ := at?_some m h hr hc
      rw [hx]
      apply cellText_length
      apply le_maxOf
      simp only [List.mem_flatMap, List.mem_map, List.mem_range]
      exact ⟨r, hr, c, hc, by simp [hx]⟩
  simp only [rowText, List.length_append, key r hr, key r' hr']

/-- Display output is identical for equal matrices stored in different orders (single-line renderings) -/
theorem display_order_transparent (render : α → List Char) (m m' : Matrix α) (h : m.Coh) (h' : m'.Coh)
    (hfit : m.data.size ≤ usizeMax) (hfit' : m'.data.size ≤ usizeMax)
    (hr : m.nrows = m'.nrows) (hc : m.ncols = m'.ncols) (hat : ∀ i j, m.at? i j = m'.at? i j)
    (hs : ∀ x ∈ m.data.toList, SingleLine (render x)) (hs' : ∀ x ∈ m'.data.toList, SingleLine (render x)) :
    display render m = display render m' := by
  have hsz : m.data.size = m'.data.size := by
    rw [← m.nrows_mul_ncols h, ← m'.nrows_mul_ncols h', hr, hc]
  by_cases h0 : m.data.size = 0
  · rw [(empty_text render m h0).1, (empty_text render m' (hsz ▸ h0)).1]
  · rw [display_single_line render m h hfit h0 hs,
      display_single_line render m' h' hfit' (hsz ▸ h0) hs']
    simp only [displaySpec, widthOf, rowText, hr, hc, hat]

/-! ### Debug: labels -/

/-- Debug's header line: the column numbers, right-aligned to the label width, each followed by
the blank space that stands over its column's cells -/
def debugHeaderSpec (ncols iw w : Nat) : List Char :=
  spaceW TAB_SIZE ++ spaceW iw ++ spaceW OUTER_GAP ++ [' '] ++
    List.intercalate (spaceW INTER_GAP)
      ((List.range ncols).map fun c => padLeftNat c iw ++ spaceW INNER_GAP ++ spaceW w)

/-- one Debug line per logical row: the row number, then for each column (in column order) the
element's position in MEMORY order (`m.idx r c`) as its label and the element's text -/
def debugRowText (render : α → List Char) (m : Matrix α) (w iw r : Nat) : List Char :=
  spaceW TAB_SIZE ++ padLeftNat r iw ++ spaceW OUTER_GAP ++ ['['] ++
    (List.intercalate (spaceW INTER_GAP)
      ((List.range m.ncols).map fun c =>
        padLeftNat (m.idx r c) iw ++ spaceW INNER_GAP ++
          ((m.at? r c).map fun x => cellText w (render x)).getD [])) ++
    [']', '\n']

/-- the Debug text the property describes, for single-line renderings; the label width is the
number of digits of the size -/
def debugSpec (render : α → List Char) (m : Matrix α) : List Char :=
  ['[', '\n'] ++ debugHeaderSpec m.ncols (toString m.data.size).length (widthOf render m) ++ ['\n'] ++
    ((List.range m.nrows).flatMap fun r =>
      debugRowText render m (widthOf render m) (toString m.data.size).length r) ++ [']']

/-- C20, Debug clause: for single-line renderings Debug prints a header with the column numbers
and one bracketed line per logical row, labelled with the row number, in which every element is
labelled with its position in memory order -/
theorem debug_single_line (render : α → List Char) (m : Matrix α) (h : m.Coh)
    (hfit : m.data.size ≤ usizeMax) (hne : m.data.size ≠ 0)
    (hs : ∀ x ∈ m.data.toList, SingleLine (render x)) :
    debug render m = .ok (debugSpec render m) := by
  have hs' : ∀ x ∈ m.data.toList, '\n' ∉ render x := hs
  rw [debug_unfold render m hne,
    rowsLoop_spec_gen render m h hfit hs' (dispW render m) (dispH render m) (dispH_le_one render m hs')
      (fun row => spaceW TAB_SIZE ++ padLeftNat row (toString m.data.size).length ++ spaceW OUTER_GAP)
      (spaceW TAB_SIZE ++ spaceW (toString m.data.size).length ++ spaceW OUTER_GAP ++ [' '])
      (fun index => padLeftNat index (toString m.data.size).length ++ spaceW INNER_GAP)
      (fun _ => spaceW (toString m.data.size).length ++ spaceW INNER_GAP)
      m.nrows 0 (cache0 render m) [] (by omega)
      (cache0_size render m)
      (fun r c _ hr hc => by
        obtain ⟨x, hx⟩ := at?_some m h hr hc
        exact ⟨x, hx, cache0_at render m hx⟩),
    debugHeader_spec]
  simp only [bind, Except.bind, pure, Except.pure, debugSpec, debugHeaderSpec, widthOf,
    ← dispW_eq render m h hs', List.nil_append, ← List.range_eq_range', rowSpec_eq_intercalate]
  have hrow : (fun r => rowTxtGen render m (dispW render m)
        (fun row => spaceW TAB_SIZE ++ padLeftNat row (toString m.data.size).length ++ spaceW OUTER_GAP)
        (fun index => padLeftNat index (toString m.data.size).length ++ spaceW INNER_GAP) r) =
      fun r => debugRowText render m (dispW render m) (toString m.data.size).length r := by
    funext r
    simp only [rowTxtGen, debugRowText, rowSpec_eq_intercalate, List.append_assoc]
    rfl
  rw [hrow]

/-! ### non-vacuity (explicit character lists: string literals do not reduce in the kernel) -/
def m23 : Matrix (List Char) := ⟨.colMajor, ⟨3, 2⟩, #[['1'], ['4', '0'], ['2'], ['5'], ['ä', 'ö', 'ü'], []]⟩  -- logical 2×3
def m23r : Matrix (List Char) := ⟨.rowMajor, ⟨2, 3⟩, #[['1'], ['2'], ['ä', 'ö', 'ü'], ['4', '0'], ['5'], []]⟩
example : m23.Coh ∧ m23r.Coh := ⟨⟨rfl⟩, ⟨rfl⟩⟩
example : display id m23 = .ok
    (['[', '\n'] ++ [' ', ' ', ' ', ' ', '[', '1', ' ', ' ', ' ', ' ', '2', ' ', ' ', ' ', ' ', 'ä', 'ö', 'ü', ']', '\n'] ++
     [' ', ' ', ' ', ' ', '[', '4', '0', ' ', ' ', ' ', '5', ' ', ' ', ' ', ' ', ' ', ' ', ' ', ']', '\n'] ++ [']']) := by rfl
example : display id m23 = display id m23r := by rfl
example : display id m23 = .ok (displaySpec id m23) := by rfl
example : debug id m23 = .ok (debugSpec id m23) := by rfl
example : debug id m23r = .ok (debugSpec id m23r) := by rfl

end Matreex.C20
