/-
C05 — transpose is the exact transpose; order changes preserve logical contents.

The model (`Model/Transpose.lean`) is the source's loop with the regenerated index functions as
successor; `= .ok …` includes: no out-of-range `visited` access, no out-of-buffer `ptr::swap`, no
arithmetic overflow or division by zero in the successor, fuel never exhausted.
-/
import Matreex.Lemmas.Transpose
import Matreex.Lemmas.Matrix
import Matreex.Lemmas.BridgeTranspose

namespace Matreex.C05
open Matreex
variable {α : Type}

theorem ite_congr_opt {A B : Prop} [Decidable A] [Decidable B] (h : A ↔ B) {x y : Option α}
    (hxy : B → x = y) : (if A then x else none) = (if B then y else none) := by
  by_cases hb : B
  · rw [if_pos hb, if_pos (h.mpr hb)]; exact hxy hb
  · rw [if_neg hb, if_neg (fun a => hb (h.mp a))]

/-- data level, sized elements: with the regenerated successor, the loop returns
`new[j * major + i] = old[i * minor + j]` -/
theorem transpose_data (sh : AxisShape) (d : Array α) (hsz : d.size = sh.major * sh.minor)
    (hfit : d.size ≤ usizeMax) :
    ∃ d', permuteInPlaceM (transposeSucc sh sh.transpose) d = .ok d' ∧ d'.size = sh.major * sh.minor ∧
      ∀ i j, i < sh.major → j < sh.minor → d'[j * sh.major + i]? = d[i * sh.minor + j]? := by
  rw [permuteInPlaceM_eq _ (tperm sh.major sh.minor) d
    (fun x hx => transposeSucc_eq sh x (by omega) (by omega))]
  exact transpose_data_spec sh.major sh.minor d hsz

/-- C05: `transpose` never faults, keeps the order tag, swaps the logical extents, stays
coherent, and `result[j][i] = original[i][j]` for every coordinate — sized element types. -/
theorem transpose_spec (m : Matrix α) (h : m.Coh) (hfit : m.data.size ≤ usizeMax) :
    ∃ m', m.transpose false = .ok m' ∧ m'.Coh ∧ m'.order = m.order ∧ m'.nrows = m.ncols ∧
      m'.ncols = m.nrows ∧ ∀ i j, m'.at? j i = m.at? i j := by
  obtain ⟨o, ⟨M, mn⟩, d⟩ := m
  have hsz : d.size = M * mn := h.size_eq.symm
  obtain ⟨d', h1, h2, h3⟩ := transpose_data ⟨M, mn⟩ d hsz hfit
  refine ⟨{ order := o, shape := ⟨mn, M⟩, data := d' }, ?_, ⟨?_⟩, rfl, ?_, ?_, ?_⟩
  · simp only [Matrix.transpose, AxisShape.transpose] at h1 ⊢
    simp [h1]
  · simp only; rw [h2, Nat.mul_comm]
  · cases o <;> rfl
  · cases o <;> rfl
  · intro i j
    cases o <;>
      simp only [Matrix.at?, Matrix.nrows, Matrix.ncols, Matrix.idx, Index.flat, AxisIndex.flat,
        AxisIndex.ofIndex, AxisShape.nrows, AxisShape.ncols]
    · exact ite_congr_opt ⟨fun x => ⟨x.2, x.1⟩, fun x => ⟨x.2, x.1⟩⟩ (fun hb => h3 i j hb.1 hb.2)
    · exact ite_congr_opt ⟨fun x => ⟨x.2, x.1⟩, fun x => ⟨x.2, x.1⟩⟩ (fun hb => h3 j i hb.2 hb.1)

/-- C05, zero-sized element types (the early-return branch: only the shape is transposed). All
values of a zero-sized type are equal, which is what `Subsingleton` says. -/
theorem transpose_spec_zst [Subsingleton α] (m : Matrix α) (h : m.Coh) :
    ∃ m', m.transpose true = .ok m' ∧ m'.Coh ∧ m'.order = m.order ∧ m'.nrows = m.ncols ∧
      m'.ncols = m.nrows ∧ m'.data = m.data ∧ ∀ i j, m'.at? j i = m.at? i j := by
  obtain ⟨o, ⟨M, mn⟩, d⟩ := m
  have hsz : M * mn = d.size := h.size_eq
  refine ⟨{ order := o, shape := ⟨mn, M⟩, data := d }, rfl, ⟨by simp only; rw [Nat.mul_comm]; exact hsz⟩,
    rfl, ?_, ?_, rfl, ?_⟩
  · cases o <;> rfl
  · cases o <;> rfl
  · intro i j
    have key : ∀ a b : Nat, a < d.size → b < d.size → d[a]? = d[b]? := by
      intro a b ha hb
      rw [Array.getElem?_eq_getElem ha, Array.getElem?_eq_getElem hb]
      exact congrArg some (Subsingleton.elim _ _)
    cases o <;>
      simp only [Matrix.at?, Matrix.nrows, Matrix.ncols, Matrix.idx, Index.flat, AxisIndex.flat,
        AxisIndex.ofIndex, AxisShape.nrows, AxisShape.ncols]
    · refine ite_congr_opt ⟨fun x => ⟨x.2, x.1⟩, fun x => ⟨x.2, x.1⟩⟩ (fun hb => key _ _ ?_ ?_)
      · have h1 := flat_lt (M := mn) (m := M) hb.2 hb.1
        rw [Nat.mul_comm mn M, hsz] at h1; exact h1
      · rw [← hsz]; exact flat_lt hb.1 hb.2
    · refine ite_congr_opt ⟨fun x => ⟨x.2, x.1⟩, fun x => ⟨x.2, x.1⟩⟩ (fun hb => key _ _ ?_ ?_)
      · have h1 := flat_lt (M := mn) (m := M) hb.1 hb.2
        rw [Nat.mul_comm mn M, hsz] at h1; exact h1
      · rw [← hsz]; exact flat_lt hb.2 hb.1

/-- the loop only ever swaps: the result is a permutation of the input (elements are moved,
never cloned or dropped) -/
theorem cycle_perm (p : Nat → Nat) (s : Nat) : ∀ (fuel c : Nat) (d : Array α) (v : Array Bool) d' v',
    cycle p s fuel c d v = .ok (d', v') → d'.Perm d := by
  intro fuel
  induction fuel with
  | zero => intro c d v d' v' h; simp [cycle] at h
  | succ fuel ih =>
    intro c d v d' v' h
    unfold cycle at h
    by_cases hc : c < v.size
    · simp only [hc, ↓reduceDIte] at h
      by_cases hv : v[c] = true
      · simp only [hv, ↓reduceIte, Except.ok.injEq, Prod.mk.injEq] at h; rw [← h.1]
      · simp only [hv] at h
        cases hsw : ptrSwap d s (p c) with
        | error e => simp [hsw] at h
        | ok d1 =>
          simp only [hsw] at h
          have h1 := ih _ _ _ _ _ h
          have h2 : d1.Perm d := by
            unfold ptrSwap at hsw
            split at hsw
            · simp only [Except.ok.injEq] at hsw; rw [← hsw]; exact Array.swap_perm _ _
            · cases hsw
          exact h1.trans h2
    · simp [hc] at h

theorem outer_perm (p : Nat → Nat) (n : Nat) : ∀ (todo : Nat) (d : Array α) (v : Array Bool) d' v',
    outer p n todo d v = .ok (d', v') → d'.Perm d := by
  intro todo
  induction todo with
  | zero => intro d v d' v' h; simp only [outer, Except.ok.injEq, Prod.mk.injEq] at h; rw [← h.1]
  | succ todo ih =>
    intro d v d' v' h
    unfold outer at h
    cases hcy : cycle p (n - (todo + 1)) (n + 1) (n - (todo + 1)) d v with
    | error e => simp [hcy] at h
    | ok r =>
      obtain ⟨d1, v1⟩ := r
      simp only [hcy] at h
      exact (ih _ _ _ _ h).trans (cycle_perm p _ _ _ _ _ _ _ hcy)

/-- C05: `transpose` moves the elements — the new memory sequence is a permutation of the old -/
theorem transpose_perm (zst : Bool) (m m' : Matrix α) (h : m.Coh) (hfit : m.data.size ≤ usizeMax)
    (ht : m.transpose zst = .ok m') : m'.data.Perm m.data := by
  cases zst
  · unfold Matrix.transpose at ht
    simp only [Bool.false_eq_true, ↓reduceIte] at ht
    rw [permuteInPlaceM_eq _ (tperm m.shape.major m.shape.minor) m.data
      (fun x hx => transposeSucc_eq m.shape x (by rw [h.size_eq]; exact hx) (by rw [h.size_eq]; exact hfit))] at ht
    unfold permuteInPlace at ht
    cases ho : outer (tperm m.shape.major m.shape.minor) m.data.size m.data.size m.data
        (Array.replicate m.data.size false) with
    | error e => simp [ho] at ht
    | ok r =>
      obtain ⟨d1, v1⟩ := r
      simp only [ho, Except.ok.injEq] at ht
      rw [← ht]
      exact outer_perm _ _ _ _ _ _ _ ho
  · simp only [Matrix.transpose, ↓reduceIte, Except.ok.injEq] at ht
    rw [← ht]

/-- C05: applied twice, `transpose` restores the original triple — order, shape and the very
same memory-order sequence. -/
theorem transpose_involutive (m : Matrix α) (h : m.Coh) (hfit : m.data.size ≤ usizeMax) :
    ∃ m', m.transpose false = .ok m' ∧ m'.transpose false = .ok m := by
  obtain ⟨o, ⟨M, mn⟩, d⟩ := m
  have hsz : d.size = M * mn := h.size_eq.symm
  obtain ⟨d', h1, h2, h3⟩ := transpose_data ⟨M, mn⟩ d hsz hfit
  obtain ⟨d'', k1, k2, k3⟩ := transpose_data ⟨mn, M⟩ d' (by rw [h2, Nat.mul_comm])
    (by rw [h2]; show M * mn ≤ usizeMax; have : d.size ≤ usizeMax := hfit; omega)
  refine ⟨{ order := o, shape := ⟨mn, M⟩, data := d' }, ?_, ?_⟩
  · simp only [Matrix.transpose, AxisShape.transpose] at h1 ⊢; simp [h1]
  have hdd : d'' = d := by
    apply Array.ext_getElem?
    intro k
    by_cases hk : k < M * mn
    · have hmn : 0 < mn := pos_of_lt_mul hk
      have hi : k / mn < M := Nat.div_lt_of_lt_mul (by rw [Nat.mul_comm]; exact hk)
      have hj : k % mn < mn := Nat.mod_lt _ hmn
      have e : k / mn * mn + k % mn = k := by rw [Nat.mul_comm]; exact Nat.div_add_mod k mn
      have := k3 (k % mn) (k / mn) hj hi
      simp only at this
      rw [e, h3 (k / mn) (k % mn) hi hj] at this
      simp only at this
      rw [e] at this
      exact this
    · rw [Array.getElem?_eq_none (by rw [k2]; simp only; rw [Nat.mul_comm]; omega),
        Array.getElem?_eq_none (by omega)]
  simp only [Matrix.transpose, AxisShape.transpose] at k1 ⊢
  simp [k1, hdd]

/-- C05: `switch_order` flips the tag and leaves shape and every logical element unchanged. -/
theorem switchOrder_spec (m : Matrix α) (h : m.Coh) (hfit : m.data.size ≤ usizeMax) :
    ∃ m', m.switchOrder false = .ok m' ∧ m'.Coh ∧ m'.order = m.order.switch ∧ m'.nrows = m.nrows ∧
      m'.ncols = m.ncols ∧ ∀ i j, m'.at? i j = m.at? i j := by
  obtain ⟨m1, ht, hcoh, hord, hr, hc, hat⟩ := transpose_spec m h hfit
  refine ⟨{ m1 with order := m1.order.switch }, by simp [Matrix.switchOrder, ht], ⟨hcoh.size_eq⟩,
    by simp [hord], ?_, ?_, ?_⟩
  · rw [← hc]; obtain ⟨o, sh, d⟩ := m1; cases o <;> rfl
  · rw [← hr]; obtain ⟨o, sh, d⟩ := m1; cases o <;> rfl
  · intro i j
    rw [← hat i j]
    obtain ⟨o, sh, d⟩ := m1
    cases o <;>
      simp only [Matrix.at?, Matrix.nrows, Matrix.ncols, Matrix.idx, Index.flat, AxisIndex.flat,
        AxisIndex.ofIndex, AxisShape.nrows, AxisShape.ncols, Order.switch]
    · exact ite_congr_opt ⟨fun x => ⟨x.2, x.1⟩, fun x => ⟨x.2, x.1⟩⟩ (fun _ => rfl)
    · exact ite_congr_opt ⟨fun x => ⟨x.2, x.1⟩, fun x => ⟨x.2, x.1⟩⟩ (fun _ => rfl)

/-- C05: the `_without_rearrangement` variant leaves the memory-order sequence alone and presents
the transposed matrix. -/
theorem switchOrderWithoutRearrangement_spec (m : Matrix α) :
    (m.switchOrderWithoutRearrangement).data = m.data ∧
    (m.switchOrderWithoutRearrangement).order = m.order.switch ∧
    (m.switchOrderWithoutRearrangement).nrows = m.ncols ∧
    (m.switchOrderWithoutRearrangement).ncols = m.nrows ∧
      ∀ i j, (m.switchOrderWithoutRearrangement).at? j i = m.at? i j := by
  obtain ⟨o, ⟨M, mn⟩, d⟩ := m
  refine ⟨rfl, rfl, ?_, ?_, ?_⟩
  · cases o <;> rfl
  · cases o <;> rfl
  · intro i j
    cases o <;>
      simp only [Matrix.switchOrderWithoutRearrangement, Matrix.at?, Matrix.nrows, Matrix.ncols,
        Matrix.idx, Index.flat, AxisIndex.flat, AxisIndex.ofIndex, AxisShape.nrows, AxisShape.ncols,
        Order.switch]
    · exact ite_congr_opt ⟨fun x => ⟨x.2, x.1⟩, fun x => ⟨x.2, x.1⟩⟩ (fun _ => rfl)
    · exact ite_congr_opt ⟨fun x => ⟨x.2, x.1⟩, fun x => ⟨x.2, x.1⟩⟩ (fun _ => rfl)

/-- C05: `set_order` reaches the requested order and never changes shape or logical contents;
`set_order_without_rearrangement` never changes the memory sequence. -/
theorem setOrder_spec (m : Matrix α) (h : m.Coh) (hfit : m.data.size ≤ usizeMax) (o : Order) :
    ∃ m', m.setOrder false o = .ok m' ∧ m'.Coh ∧ m'.order = o ∧ m'.nrows = m.nrows ∧
      m'.ncols = m.ncols ∧ ∀ i j, m'.at? i j = m.at? i j := by
  unfold Matrix.setOrder
  by_cases ho : o = m.order
  · exact ⟨m, by simp [ho], h, ho.symm, rfl, rfl, fun _ _ => rfl⟩
  · obtain ⟨m', h1, h2, h3, h4, h5, h6⟩ := switchOrder_spec m h hfit
    refine ⟨m', by simp [ho, h1], h2, ?_, h4, h5, h6⟩
    rw [h3]; cases o <;> cases hm : m.order <;> simp_all [Order.switch]

theorem setOrderWithoutRearrangement_spec (m : Matrix α) (o : Order) :
    (m.setOrderWithoutRearrangement o).data = m.data ∧ (m.setOrderWithoutRearrangement o).order = o := by
  unfold Matrix.setOrderWithoutRearrangement
  by_cases ho : o = m.order
  · simp [ho]
  · simp only [ne_eq, ho, not_false_eq_true, ↓reduceIte, Matrix.switchOrderWithoutRearrangement, true_and]
    cases o <;> cases hm : m.order <;> simp_all [Order.switch]

/-! ### arbitrary compositions of the five operations -/

inductive OrderOp where
  | transpose | switchOrder | switchOrderWR | setOrder (o : Order) | setOrderWR (o : Order)
  deriving Repr, DecidableEq

def applyOp (m : Matrix α) : OrderOp → M (Matrix α)
  | .transpose => m.transpose false
  | .switchOrder => m.switchOrder false
  | .switchOrderWR => .ok m.switchOrderWithoutRearrangement
  | .setOrder o => m.setOrder false o
  | .setOrderWR o => .ok (m.setOrderWithoutRearrangement o)

def runOps (m : Matrix α) : List OrderOp → M (Matrix α)
  | [] => .ok m
  | op :: ops => match applyOp m op with
    | .error e => .error e
    | .ok m' => runOps m' ops

/-- does the operation present the transposed matrix (true) or the same matrix (false)? -/
def OrderOp.flips (cur : Order) : OrderOp → Bool
  | .transpose => true
  | .switchOrder => false
  | .switchOrderWR => true
  | .setOrder _ => false
  | .setOrderWR o => decide (o ≠ cur)

/-- For every finite composition of the five operations on a coherent matrix: no fault; the
result is coherent, has the same number of elements, its memory sequence is a permutation of the
original one, and its logical view is the original or its transpose according to the parity of
view-flipping steps. -/
theorem runOps_spec (ops : List OrderOp) : ∀ (m : Matrix α), m.Coh → m.data.size ≤ usizeMax →
    ∃ m' flipped, runOps m ops = .ok m' ∧ m'.Coh ∧ m'.data.Perm m.data ∧
      (if flipped = true then m'.nrows = m.ncols ∧ m'.ncols = m.nrows ∧ ∀ i j, m'.at? j i = m.at? i j
       else m'.nrows = m.nrows ∧ m'.ncols = m.ncols ∧ ∀ i j, m'.at? i j = m.at? i j) := by
  induction ops with
  | nil => intro m h _; exact ⟨m, false, rfl, h, Array.Perm.refl _, by simp⟩
  | cons op ops ih =>
    intro m h hfit
    -- one step: m1, coherent, perm, view flipped or not
    have step : ∃ m1 f1, applyOp m op = .ok m1 ∧ m1.Coh ∧ m1.data.Perm m.data ∧
        (if f1 = true then m1.nrows = m.ncols ∧ m1.ncols = m.nrows ∧ ∀ i j, m1.at? j i = m.at? i j
         else m1.nrows = m.nrows ∧ m1.ncols = m.ncols ∧ ∀ i j, m1.at? i j = m.at? i j) := by
      cases op with
      | transpose =>
        obtain ⟨m1, h1, h2, _, h4, h5, h6⟩ := transpose_spec m h hfit
        exact ⟨m1, true, h1, h2, transpose_perm false m m1 h hfit h1, by simp [h4, h5, h6]⟩
      | switchOrder =>
        obtain ⟨m1, h1, h2, _, h4, h5, h6⟩ := switchOrder_spec m h hfit
        refine ⟨m1, false, h1, h2, ?_, by simp [h4, h5, h6]⟩
        simp only [Matrix.switchOrder] at h1
        cases ht : m.transpose false with
        | error e => simp [ht] at h1
        | ok mt =>
          simp only [ht, Except.ok.injEq] at h1
          rw [← h1]; exact transpose_perm false m mt h hfit ht
      | switchOrderWR =>
        obtain ⟨h1, _, h3, h4, h5⟩ := switchOrderWithoutRearrangement_spec m
        exact ⟨_, true, rfl, ⟨by rw [h1]; exact h.size_eq⟩, by rw [h1],
          by simp [h3, h4, h5]⟩
      | setOrder o =>
        obtain ⟨m1, h1, h2, _, h4, h5, h6⟩ := setOrder_spec m h hfit o
        refine ⟨m1, false, h1, h2, ?_, by simp [h4, h5, h6]⟩
        simp only [Matrix.setOrder] at h1
        by_cases ho : o = m.order
        · simp only [ho, ne_eq, not_true_eq_false, ↓reduceIte, Except.ok.injEq] at h1
          rw [← h1]
        · simp only [ne_eq, ho, not_false_eq_true, ↓reduceIte, Matrix.switchOrder] at h1
          cases ht : m.transpose false with
          | error e => simp [ht] at h1
          | ok mt =>
            simp only [ht, Except.ok.injEq] at h1
            rw [← h1]; exact transpose_perm false m mt h hfit ht
      | setOrderWR o =>
        by_cases ho : o = m.order
        · exact ⟨m, false, by simp [applyOp, Matrix.setOrderWithoutRearrangement, ho], h,
            Array.Perm.refl _, by simp⟩
        · obtain ⟨h1, _, h3, h4, h5⟩ := switchOrderWithoutRearrangement_spec m
          have e : m.setOrderWithoutRearrangement o = m.switchOrderWithoutRearrangement := by
            simp [Matrix.setOrderWithoutRearrangement, ho]
          refine ⟨m.switchOrderWithoutRearrangement, true, by simp [applyOp, e],
            ⟨by rw [h1]; exact h.size_eq⟩, by rw [h1], by simp [h3, h4, h5]⟩
    obtain ⟨m1, f1, hs1, hc1, hp1, hv1⟩ := step
    have hfit1 : m1.data.size ≤ usizeMax := by rw [hp1.size_eq]; exact hfit
    obtain ⟨m2, f2, hr, hc2, hp2, hv2⟩ := ih m1 hc1 hfit1
    refine ⟨m2, xor f1 f2, by simp [runOps, hs1, hr], hc2, hp2.trans hp1, ?_⟩
    cases f1 <;> cases f2 <;> simp only [Bool.false_eq_true, ↓reduceIte, Bool.xor_false, Bool.xor_true,
      Bool.not_false, Bool.not_true] at hv1 hv2 ⊢
    · exact ⟨hv2.1.trans hv1.1, hv2.2.1.trans hv1.2.1, fun i j => (hv2.2.2 i j).trans (hv1.2.2 i j)⟩
    · exact ⟨hv2.1.trans hv1.2.1, hv2.2.1.trans hv1.1, fun i j => (hv2.2.2 i j).trans (hv1.2.2 i j)⟩
    · exact ⟨hv2.1.trans hv1.1, hv2.2.1.trans hv1.2.1, fun i j => (hv2.2.2 j i).trans (hv1.2.2 i j)⟩
    · exact ⟨hv2.1.trans hv1.2.1, hv2.2.1.trans hv1.1, fun i j => (hv2.2.2 j i).trans (hv1.2.2 i j)⟩

/-! ### non-vacuity -/

def ex23 : Matrix Nat := ⟨.rowMajor, ⟨2, 3⟩, #[1, 2, 3, 4, 5, 6]⟩
example : ex23.Coh ∧ ex23.data.size ≤ usizeMax := ⟨⟨rfl⟩, by simp [ex23, usizeMax]⟩
example : (ex23.transpose false).map (·.data.toList) = .ok [1, 4, 2, 5, 3, 6] := by rfl
example : (runOps ex23 [.transpose, .switchOrder, .setOrderWR .rowMajor, .transpose]).map
    (fun m => (m.order, m.shape, m.data.toList)) = .ok (.rowMajor, ⟨3, 2⟩, [1, 4, 2, 5, 3, 6]) := by rfl

/-- the `transpose` the theorems of this file are about IS the source's function: the definition
regenerated from `src/lib.rs` on every run (`Gen/TransposeGen.lean`, translator T5 — the zero-sized
early return, where the old and the new shape are read, the `visited` vector and the variable that
indexes it, the break condition, the successor expression, the two offsets handed to `ptr::swap`,
`current = next`, the loop bound: all taken from the Rust statements) returns the same header and
the same buffer, with the same faults, as the model's `Matrix.transpose` — for every matrix, with
no hypothesis -/
theorem transpose_is_the_source (zst : Bool) (m : Matrix α) :
    Gen.Matrix.transpose zst m.hdr m.data = (m.transpose zst).map fun r => (r.hdr, r.data) :=
  BridgeTranspose.transpose_bridge zst m

end Matreex.C05
