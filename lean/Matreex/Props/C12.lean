/-
C12 — elementwise operations combine equal positions, once each, iff shapes agree.
-/
import Matreex.Model.Elementwise
import Matreex.Lemmas.Bridge
import Matreex.Lemmas.Matrix
import Matreex.Lemmas.Except
import Matreex.Lemmas.Elementwise
import Matreex.Gen.ElementwiseForms
import Matreex.Gen.EnsureForms

namespace Matreex.C12
open Matreex
variable {α β γ : Type}

/-- the logical combination of two optional elements -/
def comb (op : α → β → γ) : Option α → Option β → Option γ
  | some x, some y => some (op x y)
  | _, _ => none

/-- Two matrices are conformable for elementwise operations exactly when their logical shapes
are equal, whatever their storage orders (both branches of the source predicate). -/
theorem conformable_iff (a b : Hdr) :
    a.ewConformable b = true ↔ a.nrows = b.nrows ∧ a.ncols = b.ncols := by
  obtain ⟨oa, ⟨Ma, ma⟩⟩ := a
  obtain ⟨ob, ⟨Mb, mb⟩⟩ := b
  cases oa <;> cases ob <;>
    simp [Hdr.ewConformable, Hdr.nrows, Hdr.ncols, AxisShape.nrows, AxisShape.ncols] <;>
    omega

/-- Data path: for conformable coherent operands no fault occurs (cross-order reads through
`get_unchecked` stay in bounds, no overflow, no division by zero); the result has one element
per position of `a`, and the element at the offset of logical `(r, c)` in `a`'s layout is
`op a[r][c] b[r][c]`. -/
theorem ewData_spec (a : Matrix α) (b : Matrix β) (op : α → β → γ) (ha : a.Coh) (hb : b.Coh)
    (hfit : a.data.size ≤ usizeMax) (hfitb : b.data.size ≤ usizeMax)
    (hr : a.nrows = b.nrows) (hc : a.ncols = b.ncols) :
    ∃ d, ewData a b op = .ok d ∧ d.size = a.data.size ∧
      ∀ r c, r < a.nrows → c < a.ncols →
        d[a.idx r c]? = comb op a.data[a.idx r c]? b.data[b.idx r c]? := by
  have _ := hfit  -- not needed: offsets into `a` are bounded by `a.data.size` itself
  obtain ⟨d, h1, h2, h3⟩ := ewData_pos_aux a b op ha hb hfitb hr hc
  refine ⟨d, h1, h2, ?_⟩
  intro r c hr' hc'
  have hla := a.idx_lt ha hr' hc'
  have hlb := b.idx_lt hb (hr ▸ hr') (hc ▸ hc')
  rw [h3 r c hr' hc' _ _ (Array.getElem?_eq_getElem hla) (Array.getElem?_eq_getElem hlb),
    Array.getElem?_eq_getElem hla, Array.getElem?_eq_getElem hlb]
  rfl

/-- helper: from the data-level statement (offsets in `a`'s layout) to the logical view -/
theorem at?_of_data_aux (a : Matrix α) (b : Matrix β) (op : α → β → γ) (m : Matrix γ)
    (ho : m.order = a.order) (hs : m.shape = a.shape)
    (hr : a.nrows = b.nrows) (hc : a.ncols = b.ncols)
    (h : ∀ r c, r < a.nrows → c < a.ncols →
      m.data[a.idx r c]? = comb op a.data[a.idx r c]? b.data[b.idx r c]?) :
    ∀ r c, m.at? r c = comb op (a.at? r c) (b.at? r c) := by
  intro r c
  have hmr : m.nrows = a.nrows := by simp only [Matrix.nrows, ho, hs]
  have hmc : m.ncols = a.ncols := by simp only [Matrix.ncols, ho, hs]
  have hidx : m.idx r c = a.idx r c := by simp only [Matrix.idx, ho, hs]
  simp only [Matrix.at?, hmr, hmc, hidx, ← hr, ← hc]
  by_cases hb : r < a.nrows ∧ c < a.ncols
  · rw [if_pos hb, if_pos hb, if_pos hb]; exact h r c hb.1 hb.2
  · rw [if_neg hb, if_neg hb, if_neg hb]; rfl

/-- C12 headline (by-reference and consuming variants): conformable operands whose output fits
⇒ `Ok` with `a`'s order and shape, coherent, and `result[r][c] = op a[r][c] b[r][c]` for every
coordinate. -/
theorem elementwise_spec (esOut : Nat) (a : Matrix α) (b : Matrix β) (op : α → β → γ)
    (ha : a.Coh) (hb : b.Coh) (hfit : a.data.size ≤ usizeMax) (hfitb : b.data.size ≤ usizeMax)
    (hr : a.nrows = b.nrows) (hc : a.ncols = b.ncols) (hcap : esOut * a.data.size ≤ isizeMax) :
    ∃ m, a.elementwiseOperation esOut b op = .ok (.ok m) ∧ m.order = a.order ∧ m.shape = a.shape ∧
      m.Coh ∧ ∀ r c, m.at? r c = comb op (a.at? r c) (b.at? r c) := by
  obtain ⟨d, h1, h2, h3⟩ := ewData_spec a b op ha hb hfit hfitb hr hc
  have hconf : a.hdr.ewConformable b.hdr = true := (conformable_iff a.hdr b.hdr).mpr ⟨hr, hc⟩
  refine ⟨⟨a.order, a.shape, d⟩, ?_, rfl, rfl, ⟨by rw [h2]; exact ha.size_eq⟩,
    at?_of_data_aux a b op ⟨a.order, a.shape, d⟩ rfl rfl hr hc h3⟩
  have hcap' : ¬ esOut * a.data.size > isizeMax := by omega
  simp [Matrix.elementwiseOperation, Bridge.ew_conformable, hconf, Bridge.check_size, checkSize,
    hcap', bindErr, Vec.reserveExact, h1, bind, Except.bind, pure, Except.pure]

/-- non-conformable operands ⇒ `ShapeNotConformable` (checked before the capacity check) -/
theorem elementwise_not_conformable (esOut : Nat) (a : Matrix α) (b : Matrix β) (op : α → β → γ)
    (h : ¬ (a.nrows = b.nrows ∧ a.ncols = b.ncols)) :
    a.elementwiseOperation esOut b op = .ok (.error .shapeNotConformable) := by
  have hconf : a.hdr.ewConformable b.hdr = false := by
    cases hx : a.hdr.ewConformable b.hdr with
    | false => rfl
    | true => exact absurd ((conformable_iff a.hdr b.hdr).mp hx) h
  simp [Matrix.elementwiseOperation, Bridge.ew_conformable, hconf, bind, Except.bind, pure,
    Except.pure]

/-- conformable but too large an output ⇒ `CapacityOverflow` (C08), nothing allocated -/
theorem elementwise_capacity (esOut : Nat) (a : Matrix α) (b : Matrix β) (op : α → β → γ)
    (hr : a.nrows = b.nrows) (hc : a.ncols = b.ncols) (hcap : esOut * a.data.size > isizeMax) :
    a.elementwiseOperation esOut b op = .ok (.error .capacityOverflow) := by
  have hconf : a.hdr.ewConformable b.hdr = true := (conformable_iff a.hdr b.hdr).mpr ⟨hr, hc⟩
  simp [Matrix.elementwiseOperation, Bridge.ew_conformable, hconf, Bridge.check_size, checkSize,
    hcap, bindErr, bind, Except.bind]

/-- assigning variant: conformable ⇒ `Ok`, shape and order of `a` kept, each position combined -/
theorem elementwiseAssign_spec (a : Matrix α) (b : Matrix β) (op : α → β → α)
    (ha : a.Coh) (hb : b.Coh) (hfit : a.data.size ≤ usizeMax) (hfitb : b.data.size ≤ usizeMax)
    (hr : a.nrows = b.nrows) (hc : a.ncols = b.ncols) :
    ∃ m, a.elementwiseAssign b op = .ok (.ok (), m) ∧ m.order = a.order ∧ m.shape = a.shape ∧
      m.Coh ∧ ∀ r c, m.at? r c = comb op (a.at? r c) (b.at? r c) := by
  obtain ⟨d, h1, h2, h3⟩ := ewData_spec a b op ha hb hfit hfitb hr hc
  have hconf : a.hdr.ewConformable b.hdr = true := (conformable_iff a.hdr b.hdr).mpr ⟨hr, hc⟩
  refine ⟨{ a with data := d }, ?_, rfl, rfl, ⟨by rw [h2]; exact ha.size_eq⟩,
    at?_of_data_aux a b op { a with data := d } rfl rfl hr hc h3⟩
  simp [Matrix.elementwiseAssign, Bridge.ew_conformable, hconf, h1, bind, Except.bind, pure,
    Except.pure]

/-- assigning variant on non-conformable operands: error, and the left operand is unchanged
(C09) — the closure is never called -/
theorem elementwiseAssign_not_conformable (a : Matrix α) (b : Matrix β) (op : α → β → α)
    (h : ¬ (a.nrows = b.nrows ∧ a.ncols = b.ncols)) :
    a.elementwiseAssign b op = .ok (.error .shapeNotConformable, a) := by
  have hconf : a.hdr.ewConformable b.hdr = false := by
    cases hx : a.hdr.ewConformable b.hdr with
    | false => rfl
    | true => exact absurd ((conformable_iff a.hdr b.hdr).mp hx) h
  simp [Matrix.elementwiseAssign, Bridge.ew_conformable, hconf, bind, Except.bind, pure,
    Except.pure]

/-- with `op := Prod.mk` the result is the call log: in `a`'s memory order, position `k` holds
the pair the closure was applied to — exactly one call per position -/
theorem call_log_once (a : Matrix α) (b : Matrix β) (ha : a.Coh) (hb : b.Coh)
    (hfit : a.data.size ≤ usizeMax) (hfitb : b.data.size ≤ usizeMax)
    (hr : a.nrows = b.nrows) (hc : a.ncols = b.ncols) :
    ∃ log : Array (α × β), ewData a b Prod.mk = .ok log ∧ log.size = a.data.size ∧
      ∀ k (hk : k < a.data.size), ∃ y, log[k]? = some (a.data[k], y) := by
  obtain ⟨d, h1, h2, h3⟩ := ewData_spec a b Prod.mk ha hb hfit hfitb hr hc
  refine ⟨d, h1, h2, ?_⟩
  intro k hk
  obtain ⟨r, c, hr', hc', hi⟩ := a.idx_surj_aux ha k hk
  subst hi
  have hlb := b.idx_lt hb (hr ▸ hr') (hc ▸ hc')
  refine ⟨b.data[b.idx r c], ?_⟩
  rw [h3 r c hr' hc', Array.getElem?_eq_getElem hk, Array.getElem?_eq_getElem hlb]
  rfl

/-! ### T1: the named methods and the operators (table re-extracted from the source) -/

/-- every named `elementwise_<op>[_consume_self|_assign]` method delegates to the generic
operation of the same ownership variant with the closure `left <op> right` (lhs on the left) -/
theorem named_methods_correct :
    ∀ f ∈ Gen.elementwiseMethods,
      f.lhs = .left ∧ f.rhs = .right ∧
      (f.module, f.op) ∈ [("add", "+"), ("sub", "-"), ("mul", "*"), ("div", "/"), ("rem", "%")] ∧
      f.delegate = (if f.variant = "ref" then "elementwise_operation"
        else if f.variant = "consume_self" then "elementwise_operation_consume_self"
        else "elementwise_operation_assign") ∧
      f.assign = decide (f.variant = "assign") ∧
      f.name = "elementwise_" ++ f.module ++ (if f.variant = "ref" then "" else "_" ++ f.variant) := by
  decide

theorem named_methods_complete :
    (Gen.elementwiseMethods.map fun f => (f.module, f.variant)) =
      (["add", "sub", "mul", "div", "rem"].flatMap fun m => [(m, "ref"), (m, "consume_self"), (m, "assign")]) := by
  decide

/-- every `+`, `-`, `+=`, `-=` operator impl on matrices either forwards to the form with a
borrowed right operand (same operator, same left operand), or calls the named method of the
matching ownership variant and panics exactly when that method returns `Err` -/
theorem operators_correct :
    ∀ o ∈ Gen.matrixOperators,
      (o.module, o.op) ∈ [("add", "+"), ("sub", "-")] ∧
      (o.rhsOwned = true → o.kind = .forwardToBorrowedRhs) ∧
      (o.rhsOwned = false → o.kind = .callPanicOnErr ∧
        o.method = "elementwise_" ++ o.module ++
          (if o.trait = "AddAssign" ∨ o.trait = "SubAssign" then "_assign" else if o.selfOwned then "_consume_self" else "")) := by
  decide

theorem operators_complete :
    (Gen.matrixOperators.map fun o => (o.trait, o.selfOwned, o.rhsOwned)) =
      [("Add", true, true), ("Add", true, false), ("Add", false, true), ("Add", false, false),
       ("AddAssign", true, true), ("AddAssign", true, false),
       ("Sub", true, true), ("Sub", true, false), ("Sub", false, true), ("Sub", false, false),
       ("SubAssign", true, true), ("SubAssign", true, false)] := by
  decide

/-- the header-level decision is the one the operation takes: whenever `ewDecision` reports an
error, `elementwise_operation` returns exactly that error (and nothing is computed) -/
theorem elementwise_decision_err (esOut : Nat) (a : Matrix α) (b : Matrix β) (op : α → β → γ) (e : Error)
    (h : ewDecision esOut a.hdr b.hdr a.data.size = .ok (.error e)) :
    a.elementwiseOperation esOut b op = .ok (.error e) := by
  unfold ewDecision at h
  unfold Matrix.elementwiseOperation
  cases hc : Gen.Matrix.is_elementwise_operation_conformable a.hdr b.hdr with
  | error f => simp [hc, bind, Except.bind] at h
  | ok ok =>
    simp only [hc, bind, Except.bind] at h ⊢
    cases ok with
    | false => simpa [pure, Except.pure] using h
    | true =>
      simp only [Bool.not_true, Bool.false_eq_true, ↓reduceIte] at h ⊢
      rw [h]
      rfl
/-- the conformability guards (re-read from src/arithmetic.rs on every run) are exactly "the
predicate, else the documented error": `ShapeNotConformable` for both operand-shape guards (the
decision itself is the regenerated `Gen.Matrix.is_*_conformable`, see `conformable_iff` and
`C11.multiply_not_conformable`), `SquareMatrixRequired` for `ensure_square` -/
theorem ensure_forms_correct : Gen.ensureForms =
    [("ensure_square", "is_square()", "SquareMatrixRequired"),
     ("ensure_elementwise_operation_conformable", "is_elementwise_operation_conformable(rhs)", "ShapeNotConformable"),
     ("ensure_multiplication_like_operation_conformable", "is_multiplication_like_operation_conformable(rhs)", "ShapeNotConformable")] := by decide
-- (the text of `is_square` is no longer compared literally: `C12.square_guards_are_the_source`, T17, proves the
-- regenerated `is_square` / `ensure_square` equal to the model's)

/-! ### non-vacuity -/

def a23 : Matrix Nat := ⟨.rowMajor, ⟨2, 3⟩, #[1, 2, 3, 4, 5, 6]⟩
def b23 : Matrix Nat := ⟨.colMajor, ⟨3, 2⟩, #[10, 40, 20, 50, 30, 60]⟩   -- logical 2×3: [[10,20,30],[40,50,60]]
example : a23.Coh ∧ b23.Coh ∧ a23.nrows = b23.nrows ∧ a23.ncols = b23.ncols := ⟨⟨rfl⟩, ⟨rfl⟩, rfl, rfl⟩
example : (a23.elementwiseOperation 8 b23 (fun x y => y - x)).map (·.map (·.data.toList)) =
    .ok (.ok [9, 18, 27, 36, 45, 54]) := by rfl

end Matreex.C12
