/-
C12 about the source text: through the T9 bridge (`Lemmas/BridgeT9.lean`) the C12 theorems about the
hand-written model are theorems about the functions regenerated from src/arithmetic.rs on every run
(`Gen/T9Gen.lean`): `elementwise_operation`, `elementwise_operation_consume_self`,
`elementwise_operation_assign`, and the guard `ensure_elementwise_operation_conformable` they call.
-/
import Matreex.Props.C12
import Matreex.Lemmas.BridgeT9

namespace Matreex.C12
open Matreex
variable {α β γ : Type}

/-- the three generic operations as regenerated from the source are the model functions (results and
faults), whatever the element sizes of the operands -/
theorem elementwise_is_the_source (esL esR esOut : Nat) (a : Matrix α) (b : Matrix β) :
    (∀ op : α → β → γ, Gen.Matrix.elementwise_operation esL esR esOut a.hdr a.data b.hdr b.data op =
        a.elementwiseOperation esOut b op) ∧
    (∀ op : α → β → γ, Gen.Matrix.elementwise_operation_consume_self esL esR esOut a.hdr a.data b.hdr b.data op =
        a.elementwiseOperation esOut b op) ∧
    (a.Coh → b.Coh → ∀ op : α → β → α,
      Gen.Matrix.elementwise_operation_assign esL esR a.hdr a.data b.hdr b.data op = a.elementwiseAssign b op) :=
  ⟨BridgeT9.elementwise_operation_bridge esL esR esOut a b,
   BridgeT9.elementwise_operation_consume_self_bridge esL esR esOut a b,
   fun ha hb op => BridgeT9.elementwise_operation_assign_bridge esL esR a b op ha hb⟩

/-- C12 headline, about the regenerated `elementwise_operation` -/
theorem elementwise_spec_source (esL esR esOut : Nat) (a : Matrix α) (b : Matrix β) (op : α → β → γ)
    (ha : a.Coh) (hb : b.Coh) (hfit : a.data.size ≤ usizeMax) (hfitb : b.data.size ≤ usizeMax)
    (hr : a.nrows = b.nrows) (hc : a.ncols = b.ncols) (hcap : esOut * a.data.size ≤ isizeMax) :
    ∃ m, Gen.Matrix.elementwise_operation esL esR esOut a.hdr a.data b.hdr b.data op = .ok (.ok m) ∧
      m.order = a.order ∧ m.shape = a.shape ∧ m.Coh ∧ ∀ r c, m.at? r c = comb op (a.at? r c) (b.at? r c) := by
  rw [BridgeT9.elementwise_operation_bridge]
  exact elementwise_spec esOut a b op ha hb hfit hfitb hr hc hcap

/-- non-conformable operands: `ShapeNotConformable`, before the capacity check — regenerated function -/
theorem elementwise_not_conformable_source (esL esR esOut : Nat) (a : Matrix α) (b : Matrix β) (op : α → β → γ)
    (h : ¬ (a.nrows = b.nrows ∧ a.ncols = b.ncols)) :
    Gen.Matrix.elementwise_operation esL esR esOut a.hdr a.data b.hdr b.data op =
      .ok (.error .shapeNotConformable) := by
  rw [BridgeT9.elementwise_operation_bridge]
  exact elementwise_not_conformable esOut a b op h

/-- the in-place variant on non-conformable operands: error, left operand unchanged — regenerated function -/
theorem elementwiseAssign_not_conformable_source (esL esR : Nat) (a : Matrix α) (b : Matrix β) (op : α → β → α)
    (ha : a.Coh) (hb : b.Coh) (h : ¬ (a.nrows = b.nrows ∧ a.ncols = b.ncols)) :
    Gen.Matrix.elementwise_operation_assign esL esR a.hdr a.data b.hdr b.data op =
      .ok (.error .shapeNotConformable, a) := by
  rw [BridgeT9.elementwise_operation_assign_bridge esL esR a b op ha hb]
  exact elementwiseAssign_not_conformable a b op h

/-- the in-place variant on conformable operands — regenerated function -/
theorem elementwiseAssign_spec_source (esL esR : Nat) (a : Matrix α) (b : Matrix β) (op : α → β → α)
    (ha : a.Coh) (hb : b.Coh) (hfit : a.data.size ≤ usizeMax) (hfitb : b.data.size ≤ usizeMax)
    (hr : a.nrows = b.nrows) (hc : a.ncols = b.ncols) :
    ∃ m, Gen.Matrix.elementwise_operation_assign esL esR a.hdr a.data b.hdr b.data op = .ok (.ok (), m) ∧
      m.order = a.order ∧ m.shape = a.shape ∧ m.Coh ∧ ∀ r c, m.at? r c = comb op (a.at? r c) (b.at? r c) := by
  rw [BridgeT9.elementwise_operation_assign_bridge esL esR a b op ha hb]
  exact elementwiseAssign_spec a b op ha hb hfit hfitb hr hc

/-- non-vacuity: the regenerated function computes on a concrete cross-order pair -/
example : (Gen.Matrix.elementwise_operation 8 8 8 a23.hdr a23.data b23.hdr b23.data (fun x y => y - x)).map
    (·.map (·.data.toList)) = .ok (.ok [9, 18, 27, 36, 45, 54]) := by rfl

end Matreex.C12
