/-
C07 — storage order is transparent: equality and results do not depend on it.

`LEq a b` says two matrices present the same logical matrix (same extents, same element at every
coordinate), whatever their storage orders.  The congruence theorems say that every
order-agnostic operation maps `LEq` operands to `LEq` results (same errors included); they are
corollaries of the operations' specifications (C04, C05, C10, C11, C12, C14, C20), each of which
expresses the result's logical view through the operands' logical views only.
-/
import Matreex.Model.Eq
import Matreex.Lemmas.Eq
import Matreex.Lemmas.BridgeT7
import Matreex.Props.C04
import Matreex.Props.C05
import Matreex.Props.C10
import Matreex.Props.C11
import Matreex.Props.C12
import Matreex.Props.C14

namespace Matreex.C07
open Matreex
variable {α β γ : Type}

/-- same logical matrix -/
def LEq (a b : Matrix α) : Prop :=
  a.nrows = b.nrows ∧ a.ncols = b.ncols ∧ ∀ i j, a.at? i j = b.at? i j

/-- logical equality as a decision: same shape and pairwise-equal elements -/
def logicalEq (eqα : α → α → Bool) (a b : Matrix α) : Bool :=
  decide (a.nrows = b.nrows) && decide (a.ncols = b.ncols) &&
    (List.range a.nrows).all fun i => (List.range a.ncols).all fun j =>
      match a.at? i j, b.at? i j with
      | some x, some y => eqα x y
      | _, _ => false

/-! ### helpers -/

theorem match_eq_true_iff_aux (eqα : α → α → Bool) (p q : Option α) :
    (match p, q with
      | some x, some y => eqα x y
      | _, _ => false) = true ↔ ∃ x y, p = some x ∧ q = some y ∧ eqα x y = true := by
  cases p <;> cases q <;> simp

/-- the decision `logicalEq` decides the pointwise relation -/
theorem logicalEq_iff_aux (eqα : α → α → Bool) (a b : Matrix α) :
    logicalEq eqα a b = true ↔ a.PEq eqα b := by
  simp only [logicalEq, Bool.and_eq_true, decide_eq_true_eq, List.all_eq_true, List.mem_range,
    match_eq_true_iff_aux, Matrix.PEq, and_assoc]

theorem PEq_refl_aux (eqα : α → α → Bool) (hr : ∀ x, eqα x x = true) (a : Matrix α) (ha : a.Coh) :
    a.PEq eqα a := by
  refine ⟨rfl, rfl, ?_⟩
  intro i hi j hj
  exact ⟨_, _, a.at?_eq_some ha hi hj, a.at?_eq_some ha hi hj, hr _⟩

theorem PEq_symm_aux (eqα : α → α → Bool) (hs : ∀ x y, eqα x y = eqα y x) (a b : Matrix α)
    (h : a.PEq eqα b) : b.PEq eqα a := by
  obtain ⟨hr, hc, hp⟩ := h
  refine ⟨hr.symm, hc.symm, ?_⟩
  intro i hi j hj
  obtain ⟨x, y, hx, hy, hxy⟩ := hp i (hr ▸ hi) j (hc ▸ hj)
  exact ⟨y, x, hy, hx, by rw [hs]; exact hxy⟩

theorem PEq_trans_aux (eqα : α → α → Bool)
    (ht : ∀ x y z, eqα x y = true → eqα y z = true → eqα x z = true) (a b c : Matrix α)
    (h1 : a.PEq eqα b) (h2 : b.PEq eqα c) : a.PEq eqα c := by
  obtain ⟨hr, hc, hp⟩ := h1
  obtain ⟨hr', hc', hp'⟩ := h2
  refine ⟨hr.trans hr', hc.trans hc', ?_⟩
  intro i hi j hj
  obtain ⟨x, y, hx, hy, hxy⟩ := hp i hi j hj
  obtain ⟨y', z, hy', hz, hyz⟩ := hp' i (hr ▸ hi) j (hc ▸ hj)
  rw [hy] at hy'
  cases hy'
  exact ⟨x, z, hx, hz, ht _ _ _ hxy hyz⟩

theorem PEq_congr_aux (eqα : α → α → Bool) (a a' b b' : Matrix α) (ea : LEq a a') (eb : LEq b b') :
    a.PEq eqα b ↔ a'.PEq eqα b' := by
  obtain ⟨ar, ac, ae⟩ := ea
  obtain ⟨br, bc, be⟩ := eb
  simp only [Matrix.PEq, ar, ac, br, bc, ae, be]

theorem LEq_size_aux (a a' : Matrix α) (ha : a.Coh) (ha' : a'.Coh) (e : LEq a a') :
    a.data.size = a'.data.size := by
  rw [← a.nrows_mul_ncols ha, ← a'.nrows_mul_ncols ha', e.1, e.2.1]


/-- C07: `==` on matrices is exactly logical equality — same logical shape and pairwise-equal
elements — whatever the two storage orders; never a fault (the cross-order reads through
`get_unchecked` are in bounds). -/
theorem beq_spec (eqα : α → α → Bool) (a b : Matrix α) (ha : a.Coh) (hb : b.Coh)
    (hfa : a.data.size ≤ usizeMax) (hfb : b.data.size ≤ usizeMax) :
    a.beq eqα b = .ok (logicalEq eqα a b) := by
  have _ := hfa  -- not needed: offsets into `a` are bounded by `a.data.size` itself
  obtain ⟨v, hv, hiff⟩ := beq_ok_iff_aux eqα a b ha hb hfb
  rw [hv]
  congr 1
  exact Bool.eq_iff_iff.mpr (hiff.trans (logicalEq_iff_aux eqα a b).symm)

/-- hence `==` is reflexive / symmetric / transitive whenever the element relation is -/
theorem beq_refl (eqα : α → α → Bool) (hr : ∀ x, eqα x x = true) (a : Matrix α) (ha : a.Coh)
    (hfa : a.data.size ≤ usizeMax) : a.beq eqα a = .ok true := by
  rw [beq_spec eqα a a ha ha hfa hfa]
  congr 1
  exact (logicalEq_iff_aux eqα a a).mpr (PEq_refl_aux eqα hr a ha)

/-- ... and not otherwise: if the matrix holds an element that is not equal to itself (a NaN),
`a == a` is `false` — a pointer-identity shortcut would be wrong -/
theorem beq_self_false_of_irreflexive (eqα : α → α → Bool) (a : Matrix α) (ha : a.Coh)
    (hfa : a.data.size ≤ usizeMax) (i j : Nat) (hi : i < a.nrows) (hj : j < a.ncols) (x : α)
    (hx : a.at? i j = some x) (hirr : eqα x x = false) : a.beq eqα a = .ok false := by
  rw [beq_spec eqα a a ha ha hfa hfa]
  congr 1
  apply Bool.eq_false_iff.mpr
  intro h
  obtain ⟨_, _, hall⟩ := (logicalEq_iff_aux eqα a a).mp h
  obtain ⟨y, z, hy, hz, hyz⟩ := hall i hi j hj
  rw [hx] at hy hz
  cases hy; cases hz
  rw [hirr] at hyz
  exact Bool.noConfusion hyz

theorem beq_symm (eqα : α → α → Bool) (hs : ∀ x y, eqα x y = eqα y x) (a b : Matrix α)
    (ha : a.Coh) (hb : b.Coh) (hfa : a.data.size ≤ usizeMax) (hfb : b.data.size ≤ usizeMax) :
    a.beq eqα b = b.beq eqα a := by
  rw [beq_spec eqα a b ha hb hfa hfb, beq_spec eqα b a hb ha hfb hfa]
  congr 1
  apply Bool.eq_iff_iff.mpr
  rw [logicalEq_iff_aux, logicalEq_iff_aux]
  exact ⟨PEq_symm_aux eqα hs a b, PEq_symm_aux eqα hs b a⟩

theorem beq_trans (eqα : α → α → Bool) (ht : ∀ x y z, eqα x y = true → eqα y z = true → eqα x z = true)
    (a b c : Matrix α) (ha : a.Coh) (hb : b.Coh) (hc : c.Coh)
    (hfa : a.data.size ≤ usizeMax) (hfb : b.data.size ≤ usizeMax) (hfc : c.data.size ≤ usizeMax)
    (h1 : a.beq eqα b = .ok true) (h2 : b.beq eqα c = .ok true) : a.beq eqα c = .ok true := by
  rw [beq_spec eqα a b ha hb hfa hfb] at h1
  rw [beq_spec eqα b c hb hc hfb hfc] at h2
  rw [beq_spec eqα a c ha hc hfa hfc]
  congr 1
  have p1 := (logicalEq_iff_aux eqα a b).mp (Except.ok.inj h1)
  have p2 := (logicalEq_iff_aux eqα b c).mp (Except.ok.inj h2)
  exact (logicalEq_iff_aux eqα a c).mpr (PEq_trans_aux eqα ht a b c p1 p2)

/-- `==` does not depend on the storage order of either operand -/
theorem beq_congr (eqα : α → α → Bool) (a a' b b' : Matrix α)
    (ha : a.Coh) (ha' : a'.Coh) (hb : b.Coh) (hb' : b'.Coh)
    (hfa : a.data.size ≤ usizeMax) (hfa' : a'.data.size ≤ usizeMax)
    (hfb : b.data.size ≤ usizeMax) (hfb' : b'.data.size ≤ usizeMax)
    (ea : LEq a a') (eb : LEq b b') : a.beq eqα b = a'.beq eqα b' := by
  rw [beq_spec eqα a b ha hb hfa hfb, beq_spec eqα a' b' ha' hb' hfa' hfb']
  congr 1
  apply Bool.eq_iff_iff.mpr
  rw [logicalEq_iff_aux, logicalEq_iff_aux]
  exact PEq_congr_aux eqα a a' b b' ea eb

/-! ### congruence of the order-agnostic operations -/

/-- checked indexing -/
theorem get_congr (a a' : Matrix α) (ha : a.Coh) (ha' : a'.Coh)
    (hfa : a.data.size ≤ usizeMax) (hfa' : a'.data.size ≤ usizeMax) (e : LEq a a') (r c : Nat) :
    (a.getIdx r c).map (·.map fun k => a.data[k]?) = (a'.getIdx r c).map (·.map fun k => a'.data[k]?) := by
  obtain ⟨er, ec, ee⟩ := e
  rw [C04.get_exact a ha hfa, C04.get_exact a' ha' hfa', ← er, ← ec]
  by_cases hb : r < a.nrows ∧ c < a.ncols
  · have h := ee r c
    have hb' : r < a'.nrows ∧ c < a'.ncols := ⟨er ▸ hb.1, ec ▸ hb.2⟩
    simp only [Matrix.at?, hb, hb', and_self, ↓reduceIte] at h
    simp only [hb, and_self, ↓reduceIte, Except.map, h]
  · simp only [hb, ↓reduceIte, Except.map]

/-- transpose -/
theorem transpose_congr (a a' : Matrix α) (ha : a.Coh) (ha' : a'.Coh)
    (hfa : a.data.size ≤ usizeMax) (hfa' : a'.data.size ≤ usizeMax) (e : LEq a a') :
    ∃ t t', a.transpose false = .ok t ∧ a'.transpose false = .ok t' ∧ LEq t t' ∧
      t.order = a.order ∧ t'.order = a'.order := by
  obtain ⟨er, ec, ee⟩ := e
  obtain ⟨t, h1, _, h3, h4, h5, h6⟩ := C05.transpose_spec a ha hfa
  obtain ⟨t', h1', _, h3', h4', h5', h6'⟩ := C05.transpose_spec a' ha' hfa'
  refine ⟨t, t', h1, h1', ⟨by rw [h4, h4', ec], by rw [h5, h5', er], ?_⟩, h3, h3'⟩
  intro i j
  rw [h6, h6', ee]

/-- swap_rows (swap_cols is symmetric): same outcome, `LEq` results -/
theorem swapRows_congr (es : Nat) (a a' : Matrix α) (ha : a.Coh) (ha' : a'.Coh)
    (hfa : a.data.size ≤ usizeMax) (hfa' : a'.data.size ≤ usizeMax) (e : LEq a a') (x y : Nat)
    (hx : x ≤ usizeMax) (hy : y ≤ usizeMax) :
    ∃ r m m', a.swapRows es x y = .ok (r, m) ∧ a'.swapRows es x y = .ok (r, m') ∧ LEq m m' := by
  obtain ⟨er, ec, ee⟩ := e
  obtain ⟨s1, s2⟩ := C10.swapRows_spec es a ha hfa x y hx hy
  obtain ⟨s1', s2'⟩ := C10.swapRows_spec es a' ha' hfa' x y hx hy
  by_cases hb : x < a.nrows ∧ y < a.nrows
  · have hb' : x < a'.nrows ∧ y < a'.nrows := ⟨er ▸ hb.1, er ▸ hb.2⟩
    obtain ⟨m, h1, h2, h3, _, h5⟩ := s1 hb
    obtain ⟨m', h1', h2', h3', _, h5'⟩ := s1' hb'
    refine ⟨.ok (), m, m', h1, h1', ?_, ?_, ?_⟩
    · simp only [Matrix.nrows, h2, h3, h2', h3']; exact er
    · simp only [Matrix.ncols, h2, h3, h2', h3']; exact ec
    · intro i j; rw [h5, h5', ee]
  · have hb' : ¬ (x < a'.nrows ∧ y < a'.nrows) := by rw [← er]; exact hb
    exact ⟨_, a, a', s2 hb, s2' hb', er, ec, ee⟩

/-- elementwise operations: same error or `LEq` results; the result takes the left operand's order -/
theorem elementwise_congr (esOut : Nat) (a a' : Matrix α) (b b' : Matrix β) (op : α → β → γ)
    (ha : a.Coh) (ha' : a'.Coh) (hb : b.Coh) (hb' : b'.Coh)
    (hfa : a.data.size ≤ usizeMax) (hfa' : a'.data.size ≤ usizeMax)
    (hfb : b.data.size ≤ usizeMax) (hfb' : b'.data.size ≤ usizeMax)
    (ea : LEq a a') (eb : b.nrows = b'.nrows ∧ b.ncols = b'.ncols ∧ ∀ i j, b.at? i j = b'.at? i j) :
    (∃ e, a.elementwiseOperation esOut b op = .ok (.error e) ∧ a'.elementwiseOperation esOut b' op = .ok (.error e)) ∨
    (∃ c c', a.elementwiseOperation esOut b op = .ok (.ok c) ∧ a'.elementwiseOperation esOut b' op = .ok (.ok c') ∧
      c.nrows = c'.nrows ∧ c.ncols = c'.ncols ∧ (∀ i j, c.at? i j = c'.at? i j) ∧
      c.order = a.order ∧ c'.order = a'.order) := by
  obtain ⟨ar, ac, ae⟩ := ea
  obtain ⟨br, bc, be⟩ := eb
  have hsz : a.data.size = a'.data.size := LEq_size_aux a a' ha ha' ⟨ar, ac, ae⟩
  by_cases hconf : a.nrows = b.nrows ∧ a.ncols = b.ncols
  · have hconf' : a'.nrows = b'.nrows ∧ a'.ncols = b'.ncols := by
      rw [← ar, ← ac, ← br, ← bc]; exact hconf
    by_cases hcap : esOut * a.data.size > isizeMax
    · left
      exact ⟨_, C12.elementwise_capacity esOut a b op hconf.1 hconf.2 hcap,
        C12.elementwise_capacity esOut a' b' op hconf'.1 hconf'.2 (hsz ▸ hcap)⟩
    · right
      have hcap1 : esOut * a.data.size ≤ isizeMax := by omega
      have hcap2 : esOut * a'.data.size ≤ isizeMax := hsz ▸ hcap1
      obtain ⟨m, h1, h2, h3, _, h5⟩ :=
        C12.elementwise_spec esOut a b op ha hb hfa hfb hconf.1 hconf.2 hcap1
      obtain ⟨m', h1', h2', h3', _, h5'⟩ :=
        C12.elementwise_spec esOut a' b' op ha' hb' hfa' hfb' hconf'.1 hconf'.2 hcap2
      refine ⟨m, m', h1, h1', ?_, ?_, ?_, h2, h2'⟩
      · simp only [Matrix.nrows, h2, h3, h2', h3']; exact ar
      · simp only [Matrix.ncols, h2, h3, h2', h3']; exact ac
      · intro i j; rw [h5, h5', ae, be]
  · have hconf' : ¬ (a'.nrows = b'.nrows ∧ a'.ncols = b'.ncols) := by
      rw [← ar, ← ac, ← br, ← bc]; exact hconf
    left
    exact ⟨_, C12.elementwise_not_conformable esOut a b op hconf,
      C12.elementwise_not_conformable esOut a' b' op hconf'⟩

/-- overwrite -/
theorem overwrite_congr (clone : α → α) (d d' s s' : Matrix α)
    (hd : d.Coh) (hd' : d'.Coh) (hs : s.Coh) (hs' : s'.Coh) (ed : LEq d d') (es : LEq s s') :
    ∃ m m', d.overwrite clone s = .ok m ∧ d'.overwrite clone s' = .ok m' ∧ LEq m m' ∧
      m.order = d.order ∧ m'.order = d'.order := by
  obtain ⟨dr, dc, de⟩ := ed
  obtain ⟨sr, sc, se⟩ := es
  obtain ⟨m, h1, h2, h3, _, h5⟩ := C14.overwrite_spec clone d s hd hs
  obtain ⟨m', h1', h2', h3', _, h5'⟩ := C14.overwrite_spec clone d' s' hd' hs'
  refine ⟨m, m', h1, h1', ⟨?_, ?_, ?_⟩, h2, h2'⟩
  · simp only [Matrix.nrows, h2, h3, h2', h3']; exact dr
  · simp only [Matrix.ncols, h2, h3, h2', h3']; exact dc
  · intro i j; rw [h5, h5', dr, dc, sr, sc, de, se]

/-- the matrix product -/
theorem multiply_congr {L R U : Type} (esOut : Nat) (a a' : Matrix L) (b b' : Matrix R)
    (mul : L → R → U) (add : U → U → U) (dflt : U)
    (ha : a.Coh) (ha' : a'.Coh) (hb : b.Coh) (hb' : b'.Coh)
    (hfa : a.data.size ≤ usizeMax) (hfa' : a'.data.size ≤ usizeMax)
    (hfb : b.data.size ≤ usizeMax) (hfb' : b'.data.size ≤ usizeMax)
    (ea : a.nrows = a'.nrows ∧ a.ncols = a'.ncols ∧ ∀ i j, a.at? i j = a'.at? i j)
    (eb : b.nrows = b'.nrows ∧ b.ncols = b'.ncols ∧ ∀ i j, b.at? i j = b'.at? i j)
    (hconf : a.ncols = b.nrows)
    (hsz : a.nrows * b.ncols ≤ usizeMax) (hcap : esOut * (a.nrows * b.ncols) ≤ isizeMax) :
    ∃ c c', a.multiply false false esOut b mul add dflt = .ok (.ok c) ∧
      a'.multiply false false esOut b' mul add dflt = .ok (.ok c') ∧
      c.nrows = c'.nrows ∧ c.ncols = c'.ncols ∧
      (∀ i j, i < c.nrows → j < c.ncols → c.at? i j = c'.at? i j) ∧
      c.order = a.order ∧ c'.order = a'.order := by
  obtain ⟨ar, ac, ae⟩ := ea
  obtain ⟨br, bc, be⟩ := eb
  have hconf' : a'.ncols = b'.nrows := by rw [← ac, ← br]; exact hconf
  have hsz' : a'.nrows * b'.ncols ≤ usizeMax := by rw [← ar, ← bc]; exact hsz
  have hcap' : esOut * (a'.nrows * b'.ncols) ≤ isizeMax := by rw [← ar, ← bc]; exact hcap
  obtain ⟨c, h1, h2, h3, h4, _, h6⟩ :=
    C11.multiply_spec esOut a b mul add dflt ha hb hfa hfb hconf hsz hcap
  obtain ⟨c', h1', h2', h3', h4', _, h6'⟩ :=
    C11.multiply_spec esOut a' b' mul add dflt ha' hb' hfa' hfb' hconf' hsz' hcap'
  refine ⟨c, c', h1, h1', by rw [h3, h3', ar], by rw [h4, h4', bc], ?_, h2, h2'⟩
  intro i j hi hj
  have fa : a.at? = a'.at? := funext fun i => funext fun j => ae i j
  have fb : b.at? = b'.at? := funext fun i => funext fun j => be i j
  rw [h6 i j (h3 ▸ hi) (h4 ▸ hj), h6' i j (ar ▸ h3 ▸ hi) (bc ▸ h4 ▸ hj), ← ac, fa, fb]

/-! ### non-vacuity -/
def r23 : Matrix Nat := ⟨.rowMajor, ⟨2, 3⟩, #[1, 2, 3, 4, 5, 6]⟩
def c23 : Matrix Nat := ⟨.colMajor, ⟨3, 2⟩, #[1, 4, 2, 5, 3, 6]⟩
def c23' : Matrix Nat := ⟨.colMajor, ⟨3, 2⟩, #[1, 4, 2, 5, 3, 7]⟩
example : r23.Coh ∧ c23.Coh := ⟨⟨rfl⟩, ⟨rfl⟩⟩
example : r23.beq (· == ·) c23 = .ok true ∧ c23.beq (· == ·) r23 = .ok true := ⟨by rfl, by rfl⟩
example : r23.beq (· == ·) c23' = .ok false := by rfl
example : logicalEq (· == ·) r23 c23 = true := by rfl


/-- the `==` the theorems of this file are about IS the source's `PartialEq::eq`: the definition
regenerated from `src/eq.rs` on every run (`Gen/T7Gen.lean`, translator T7 — the branch structure,
every condition with its operands, the crosswise extent test, the arguments of `from_flattened` /
`.swap()` / `to_flattened` / `get_unchecked`, the operands of the element comparison) equals the
model's `Matrix.beq`, faults included, for coherent operands; without any hypothesis it returns
whatever the model returns whenever the model does not fault (`Iterator::all` stops at the first
`false`, the model evaluates every position) -/
theorem eq_is_the_source (eqα : α → α → Bool) (a b : Matrix α) :
    (∀ v, a.beq eqα b = .ok v → Gen.Matrix.eq eqα a.hdr a.data b.hdr b.data = .ok v) ∧
    (a.Coh → b.Coh → b.data.size ≤ usizeMax →
      Gen.Matrix.eq eqα a.hdr a.data b.hdr b.data = a.beq eqα b) :=
  ⟨fun v h => BridgeT7.eq_refines eqα a b v h, fun ha hb hfb => BridgeT7.eq_bridge eqα a b ha hb hfb⟩

end Matreex.C07
