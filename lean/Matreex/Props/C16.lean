/-
C16 — parallel helpers equal their sequential counterparts on every schedule (PARTIAL: rayon's
real scheduler and its unsafe collect are outside the model; the theorems assume rayon honours the
indexed-producer contract that `Model/Par.lean` states).
-/
import Matreex.Model.Par
import Matreex.Model.Threads
import Matreex.Lemmas.Threads
import Matreex.Model.Construct
import Matreex.Model.Iter
import Matreex.Props.C08
import Matreex.Gen.ParForms

namespace Matreex.C16
open Matreex Matreex.Par Matreex.Threads
variable {α β : Type}

theorem seqMapIdx_append (f : Nat → α → β) (base : Nat) (xs ys : List α) :
    seqMapIdx f base (xs ++ ys) = seqMapIdx f base xs ++ seqMapIdx f (base + xs.length) ys := by
  induction xs generalizing base with
  | nil => simp [seqMapIdx]
  | cons x xs ih => simp [seqMapIdx, ih, Nat.add_assoc, Nat.add_comm 1]

/-- Whatever the split tree (any thread-pool size, any work-stealing outcome), the collected
result — the values and the indices passed to the closure — is the sequential one. -/
theorem parMapIdx_eq_seq (f : Nat → α → β) : ∀ (t : Split) (base : Nat) (xs : List α),
    parMapIdx f t base xs = seqMapIdx f base xs := by
  intro t
  induction t with
  | leaf => intro base xs; rfl
  | node mid l r ihl ihr =>
    intro base xs
    simp only [parMapIdx, ihl, ihr]
    rw [← seqMapIdx_append, List.take_append_drop]

theorem seqMapIdx_eq_map (f : α → β) (base : Nat) (xs : List α) :
    seqMapIdx (fun _ x => f x) base xs = xs.map f := by
  induction xs generalizing base with
  | nil => rfl
  | cons x xs ih => simp [seqMapIdx, ih]

/-- `par_map` / `par_map_ref` along any split tree -/
def parMapMatrix (esOut : Nat) (t : Split) (m : Matrix α) (f : α → β) : M (Except Error (Matrix β)) := do
  let c ← mapDecision esOut m.data.size
  bindErr c fun _ => do
    Vec.reserveExact esOut m.data.size
    pure (.ok ⟨m.order, m.shape, (parMapIdx (fun _ x => f x) t 0 m.data.toList).toArray⟩)

/-- C16: `par_map` (any tree) returns exactly what `map` returns — same `CapacityOverflow` cases,
same shape, order and contents -/
theorem par_map_eq_map (esOut : Nat) (t : Split) (m : Matrix α) (f : α → β) :
    parMapMatrix esOut t m f = m.map esOut f := by
  unfold parMapMatrix Matrix.map
  rw [parMapIdx_eq_seq, seqMapIdx_eq_map]
  have : (m.data.toList.map f).toArray = m.data.map f := by
    apply Array.ext'
    simp
  rw [this]

theorem seqMapIdx_eq_zip (f : Nat → α → β) (base : Nat) (xs : List α) :
    seqMapIdx f base xs = ((List.range' base xs.length).zip xs).map (fun p => f p.1 p.2) := by
  induction xs generalizing base with
  | nil => simp [seqMapIdx]
  | cons x xs ih => simp [seqMapIdx, ih, List.range'_succ]

theorem seqMapIdx_fst (base : Nat) (xs : List α) :
    (seqMapIdx (fun i x => (i, x)) base xs).map Prod.fst = List.range' base xs.length := by
  induction xs generalizing base with
  | nil => simp [seqMapIdx]
  | cons x xs ih => simp [seqMapIdx, ih, List.range'_succ]

theorem disjointThreads_of_nodup {V : Type} : ∀ (ts : List (List (Step V))),
    ((ts.flatten).map (·.addr)).Nodup → DisjointThreads ts
  | [], _ => trivial
  | t :: ts, h => by
    simp only [List.flatten_cons, List.map_append] at h
    rw [List.nodup_append] at h
    obtain ⟨_, h2, h3⟩ := h
    refine ⟨?_, disjointThreads_of_nodup ts h2⟩
    intro s hs u hu
    exact h3 _ (List.mem_map_of_mem hs) _ (List.mem_map_of_mem hu)

/-- the `par_iter_elements*_with_index` family along any split tree reports, for the element at
memory position `k`, the index computed from the *global* position `k` — the same pairs as the
sequential `*_with_index` iterators -/
theorem par_with_index_eq_seq (idx : Nat → β) (t : Split) (xs : List α) :
    parMapIdx (fun i x => (idx i, x)) t 0 xs = ((List.range xs.length).zip xs).map (fun p => (idx p.1, p.2)) := by
  rw [parMapIdx_eq_seq, seqMapIdx_eq_zip, List.range_eq_range']

/-- the leaves partition the work: concatenated in tree order they are the sequential
enumeration -/
theorem leaves_flatten (t : Split) (base : Nat) (xs : List α) :
    (leaves t base xs).flatten = seqMapIdx (fun i x => (i, x)) base xs := by
  induction t generalizing base xs with
  | leaf => simp [leaves]
  | node mid l r ihl ihr =>
    simp only [leaves, List.flatten_append, ihl, ihr]
    rw [← seqMapIdx_append, List.take_append_drop]

/-- exactly once per element on every schedule: any interleaving of the leaves' work lists is a
permutation of the sequential list of (index, element) calls -/
theorem par_calls_perm (t : Split) (xs : List α) (log : List (Nat × α))
    (h : Interleave (leaves t 0 xs) log) :
    log.Perm (seqMapIdx (fun i x => (i, x)) 0 xs) := by
  rw [← leaves_flatten t]
  exact h.perm

/-- `par_apply`: each element is updated by exactly one leaf, so for every split tree and every
interleaving of the leaves the final memory equals that of the sequential `apply` -/
theorem par_apply_any_schedule {V : Type} (g : V → V) (t : Split) (xs : List V)
    (log : List (Step V))
    (h : Interleave ((leaves t 0 xs).map fun leaf => leaf.map fun p => (⟨p.1, g⟩ : Step V)) log)
    (mem : Mem V) :
    runAll log mem = runAll ((seqMapIdx (fun i x => (i, x)) 0 xs).map fun p => (⟨p.1, g⟩ : Step V)) mem := by
  have hflat : ((leaves t 0 xs).map fun leaf => leaf.map fun p => (⟨p.1, g⟩ : Step V)).flatten
      = (seqMapIdx (fun i x => (i, x)) 0 xs).map fun p => (⟨p.1, g⟩ : Step V) := by
    rw [← List.map_flatten, leaves_flatten]
  rw [← hflat]
  apply interleave_eq_seq h
  apply disjointThreads_of_nodup
  rw [hflat, List.map_map]
  have : ((fun s : Step V => s.addr) ∘ fun p : Nat × V => (⟨p.1, g⟩ : Step V)) = Prod.fst := rfl
  rw [this, seqMapIdx_fst]
  exact List.nodup_range'

/-! ### non-vacuity -/
/-- the indexed parallel iterators along any split tree: every item's index is rebuilt from its
global position by the regenerated `Index::from_flattened` -/
def parIterWithIndex (t : Split) (m : Matrix α) : M (List (Index × α)) :=
  (parMapIdx (fun k x => (k, x)) t 0 m.data.toList).mapM fun p => do
    let i ← Gen.Index.from_flattened p.1 m.order m.shape
    pure (i, p.2)

theorem zip_mapM_aux (ff : Nat → M Index) : ∀ (xs pre : List α),
    ((List.range' pre.length xs.length).zip xs).mapM (fun p => do let i ← ff p.1; pure (i, p.2))
    = (List.range' pre.length xs.length).mapM (fun k => do
        let i ← ff k
        match (pre ++ xs)[k]? with
        | some x => pure (i, x)
        | none => (.error (.ub "enumerate yielded a position outside the vector") : M (Index × α))) := by
  intro xs
  induction xs with
  | nil => intro pre; rfl
  | cons x xs ih =>
    intro pre
    have h := ih (pre ++ [x])
    simp only [List.length_append, List.length_cons, List.length_nil, List.append_assoc, List.cons_append, List.nil_append] at h
    simp only [List.length_cons, List.range'_succ, List.zip_cons_cons, List.mapM_cons]
    rw [h]
    have : (pre ++ x :: xs)[pre.length]? = some x := by simp
    rw [this]

/-- C16: `par_iter_elements_with_index` and its `_mut` / `into_` forms yield, for every split tree,
exactly the (index, element) items of the sequential iterator — including the same faults of the
index arithmetic on element-less shapes -/
theorem par_iter_with_index_eq_seq (t : Split) (m : Matrix α) :
    parIterWithIndex t m = m.iterWithIndex := by
  unfold parIterWithIndex Matrix.iterWithIndex
  rw [parMapIdx_eq_seq, seqMapIdx_eq_zip]
  have h := zip_mapM_aux (fun k => Gen.Index.from_flattened k m.order m.shape) m.data.toList []
  simp only [List.length_nil, List.nil_append, Array.length_toList] at h
  simp only [Array.length_toList]
  rw [List.range_eq_range']
  simp only [Array.getElem?_toList] at h
  have hid : (fun p : Nat × α => (p.fst, p.snd)) = id := by funext p; rfl
  rw [hid, List.map_id]
  exact h

/-! ### Tie T1: the shape of every public function of `src/parallel.rs`, re-extracted on every run

The split-tree model above applies to a function only if it is a thin wrapper over the element
vector's indexed rayon iterator.  The table `Gen.parForms` is regenerated from the source on every
run; these theorems are statements about what the source says now. -/

/- The string-comparing table theorems `parForms_wrappers`, `parForms_indexed` and `parForms_mapping` (T1) were retired in the
fourth session: `C16.parallel_is_the_source` (T16, `Lemmas/BridgeT16.lean`) proves each of the nine regenerated wrappers equal,
for every split tree, to its regenerated sequential twin — source iterator, `enumerate`, the index expression, the argument and
element type of the capacity check and the copied fields included —, and the tables alarmed on harmless rewrites (renamed locals,
`let size = self.size();`, explicit struct fields).  The list of wrappers is still checked: -/
theorem parForms_names : Gen.parForms.map (·.name) =
    ["par_apply", "par_map", "par_map_ref", "par_iter_elements", "par_iter_elements_mut",
     "into_par_iter_elements", "par_iter_elements_with_index", "par_iter_elements_mut_with_index",
     "into_par_iter_elements_with_index"] := by decide

example : parMapIdx (fun i (x : Nat) => (i, x * 10)) (.node 1 .leaf (.node 2 .leaf .leaf)) 0 [7, 8, 9, 10]
    = [(0, 70), (1, 80), (2, 90), (3, 100)] := by rfl
example : leaves (.node 1 .leaf (.node 2 .leaf .leaf)) 0 [7, 8, 9, 10] = [[(0, 7)], [(1, 8), (2, 9)], [(3, 10)]] := by rfl
example : Interleave (leaves (.node 1 .leaf .leaf) 0 [7, 8, 9]) [(1, 8), (0, 7), (2, 9)] :=
  .cons (.cons .nil (.left (.left .nil))) (.right (.left (.right .nil)))

end Matreex.C16
