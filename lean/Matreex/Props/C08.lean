/-
C08 — size and capacity overflow are reported as errors, never acted upon.

All statements are over unbounded naturals: `r * c` and `es * (r * c)` below are mathematical
products, compared with `usizeMax = 2^64 - 1` and `isizeMax = 2^63 - 1`.  The functions are those
of `Model/Construct.lean`, whose arithmetic is regenerated from the source.
-/
import Matreex.Model.Construct
import Matreex.Lemmas.Bridge
import Matreex.Lemmas.BridgeT8
import Matreex.Lemmas.Except
import Matreex.Gen.AllocOrder

namespace Matreex.C08
open Matreex
variable {α β : Type}

/-- The decision every shape-taking operation makes, for every `(r, c)` and element size:
`SizeOverflow` iff `r*c > usize::MAX`; otherwise `CapacityOverflow` iff `es*r*c > isize::MAX`;
otherwise the exact axis shape and element count — never a panic (the unchecked
`AxisShape::size` multiplication cannot overflow once `try_to_axis_shape` has succeeded). -/
theorem sizeDecision_spec (es r c : Nat) (o : Order) :
    sizeDecision es ⟨r, c⟩ o = .ok (
      if r * c > usizeMax then .error .sizeOverflow
      else if es * (r * c) > isizeMax then .error .capacityOverflow
      else .ok ((Shape.mk r c).toAxis o, r * c)) := by
  simp only [sizeDecision, Bridge.try_to_axis_shape, Shape.tryToAxis, bind, Except.bind]
  by_cases h1 : r * c ≤ usizeMax
  · have hsz : ((Shape.mk r c).toAxis o).major * ((Shape.mk r c).toAxis o).minor = r * c := by
      cases o <;> simp [Shape.toAxis, Nat.mul_comm]
    have hb := Bridge.axis_size ((Shape.mk r c).toAxis o) (by rw [hsz]; exact h1)
    simp only [h1, ↓reduceIte, bindErr, hb, AxisShape.size, hsz, Bridge.check_size, checkSize,
      Nat.not_lt.mpr h1]
    by_cases h2 : es * (r * c) > isizeMax <;> simp [h2, pure, Except.pure]
  · simp [h1, bindErr, Nat.lt_of_not_le h1]

/-- `with_value` (and `with_default`, which differs only in how the fill value is obtained):
the three-way decision, and on success exactly the requested shape, coherent. -/
theorem withValue_spec (es r c : Nat) (v : α) :
    Matrix.withValue es ⟨r, c⟩ v = .ok (
      if r * c > usizeMax then .error .sizeOverflow
      else if es * (r * c) > isizeMax then .error .capacityOverflow
      else .ok ⟨.rowMajor, ⟨r, c⟩, Array.replicate (r * c) v⟩) := by
  simp only [Matrix.withValue, sizeDecision_spec, bind, Except.bind]
  by_cases h1 : r * c > usizeMax
  · simp [h1, bindErr]
  · by_cases h2 : es * (r * c) > isizeMax
    · simp [h1, h2, bindErr]
    · simp [h1, h2, bindErr, Vec.reserveExact, Shape.toAxis, pure, Except.pure]

theorem withDefault_spec (es r c : Nat) (v : α) :
    Matrix.withDefault es ⟨r, c⟩ v = Matrix.withValue es ⟨r, c⟩ v := rfl

/-- every successful construction is coherent and has exactly the requested logical shape -/
theorem withValue_ok_coh (es r c : Nat) (v : α) (m : Matrix α)
    (h : Matrix.withValue es ⟨r, c⟩ v = .ok (.ok m)) :
    m.Coh ∧ m.nrows = r ∧ m.ncols = c ∧ m.data.size = r * c := by
  rw [withValue_spec] at h
  by_cases h1 : r * c > usizeMax
  · simp [h1] at h
  · by_cases h2 : es * (r * c) > isizeMax
    · simp [h1, h2] at h
    · simp only [h1, h2, ↓reduceIte, Except.ok.injEq] at h
      subst h
      exact ⟨⟨by simp⟩, rfl, rfl, by simp⟩

/-- `with_initializer`: same decision; on success no panic inside the loop (`from_flattened`
never divides by zero: a zero minor extent means zero iterations). -/
theorem withInitializer_decision (es r c : Nat) (f : Index → α) :
    ∃ d, Matrix.withInitializer es ⟨r, c⟩ f = .ok (
      if r * c > usizeMax then .error .sizeOverflow
      else if es * (r * c) > isizeMax then .error .capacityOverflow
      else .ok ⟨.rowMajor, ⟨r, c⟩, d⟩) ∧
      (r * c ≤ usizeMax → es * (r * c) ≤ isizeMax → d.size = r * c) := by
  simp only [Matrix.withInitializer, sizeDecision_spec, bind, Except.bind]
  by_cases h1 : r * c > usizeMax
  · exact ⟨#[], by simp [h1, bindErr], by omega⟩
  · by_cases h2 : es * (r * c) > isizeMax
    · exact ⟨#[], by simp [h1, h2, bindErr], by omega⟩
    · have hg : ∀ k ∈ List.range (r * c),
          (do let i ← Gen.Index.from_flattened k .rowMajor ((Shape.mk r c).toAxis .rowMajor)
              pure (f i) : M α) = .ok (f (Index.ofFlat k .rowMajor ⟨r, c⟩)) := by
        intro k hk
        have hc : c ≠ 0 := by
          have := List.mem_range.mp hk
          intro h0; subst h0; simp at this
        have hb := Bridge.index_from_flattened k .rowMajor ⟨r, c⟩ hc
        simp only [Shape.toAxis]
        simp [hb, bind, Except.bind, pure, Except.pure]
      have := mapM_ok _ _ _ hg
      simp only [bind, Except.bind, pure, Except.pure, Shape.toAxis] at this
      refine ⟨((List.range (r * c)).map fun k => f (Index.ofFlat k .rowMajor ⟨r, c⟩)).toArray, ?_, ?_⟩
      · simp only [h1, h2, ↓reduceIte, bindErr, Vec.reserveExact, this, Shape.toAxis, pure,
          Except.pure]
      · intro _ _; simp

/-- `reshape` succeeds exactly when the requested size equals the current one; every other
request — including shapes whose size overflows `usize` — is `SizeMismatch`, never a panic, and
the matrix is returned unchanged. -/
theorem reshape_decision (m : Matrix α) (hfit : m.data.size ≤ usizeMax) (r c : Nat) :
    m.reshape ⟨r, c⟩ = .ok (
      if r * c = m.data.size then (.ok (), { m with shape := (Shape.mk r c).toAxis m.order })
      else (.error .sizeMismatch, m)) := by
  simp only [Matrix.reshape, Bridge.try_to_axis_shape, Shape.tryToAxis, bind, Except.bind]
  by_cases h1 : r * c ≤ usizeMax
  · have hsz : ((Shape.mk r c).toAxis m.order).major * ((Shape.mk r c).toAxis m.order).minor = r * c := by
      cases m.order <;> simp [Shape.toAxis, Nat.mul_comm]
    have hb := Bridge.axis_size ((Shape.mk r c).toAxis m.order) (by rw [hsz]; exact h1)
    simp only [h1, ↓reduceIte, hb, AxisShape.size, hsz]
    by_cases h2 : r * c = m.data.size
    · simp [h2, pure, Except.pure]
    · have : ¬ m.data.size = r * c := fun h => h2 h.symm
      simp [h2, this, pure, Except.pure]
  · have : r * c ≠ m.data.size := by omega
    simp [h1, this, pure, Except.pure]

/-- `resize`: the three-way decision; a failing call returns the matrix unchanged; a successful
one has exactly the requested shape and is coherent. -/
theorem resize_decision (es : Nat) (m : Matrix α) (r c : Nat) (dflt : α) :
    m.resize es ⟨r, c⟩ dflt = .ok (
      if r * c > usizeMax then (.error .sizeOverflow, m)
      else if es * (r * c) > isizeMax then (.error .capacityOverflow, m)
      else (.ok (), { m with shape := (Shape.mk r c).toAxis m.order,
                              data := resizeData m.data (r * c) dflt })) := by
  simp only [Matrix.resize, sizeDecision_spec, bind, Except.bind]
  by_cases h1 : r * c > usizeMax
  · simp [h1, pure, Except.pure]
  · by_cases h2 : es * (r * c) > isizeMax
    · simp [h1, h2, pure, Except.pure]
    · simp only [h1, h2, ↓reduceIte, Vec.reserveExact]
      split <;> simp [pure, Except.pure]

theorem resizeData_size (d : Array α) (n : Nat) (dflt : α) : (resizeData d n dflt).size = n := by
  unfold resizeData; split <;> simp <;> omega

theorem resize_ok_coh (es : Nat) (m m' : Matrix α) (r c : Nat) (dflt : α)
    (h : m.resize es ⟨r, c⟩ dflt = .ok (.ok (), m')) :
    m'.Coh ∧ m'.nrows = r ∧ m'.ncols = c ∧ m'.order = m.order := by
  rw [resize_decision] at h
  by_cases h1 : r * c > usizeMax
  · simp [h1] at h
  · by_cases h2 : es * (r * c) > isizeMax
    · simp [h1, h2] at h
    · simp only [h1, h2, ↓reduceIte, Except.ok.injEq, Prod.mk.injEq, true_and] at h
      subst h
      refine ⟨⟨?_⟩, ?_, ?_, rfl⟩
      · simp only [resizeData_size]; cases m.order <;> simp [Shape.toAxis, Nat.mul_comm]
      · cases ho : m.order <;> simp [Matrix.nrows, Shape.toAxis, AxisShape.nrows, ho]
      · cases ho : m.order <;> simp [Matrix.ncols, Shape.toAxis, AxisShape.ncols, ho]

/-- Mapping-style operations fail with `CapacityOverflow` exactly when the *output* byte size
exceeds `isize::MAX` (source and target element sizes are independent), never panic, and on
success copy order and shape. -/
theorem map_decision (esOut : Nat) (m : Matrix α) (f : α → β) :
    m.map esOut f = .ok (
      if esOut * m.data.size > isizeMax then .error .capacityOverflow
      else .ok ⟨m.order, m.shape, m.data.map f⟩) := by
  simp only [Matrix.map, mapDecision, Bridge.check_size, checkSize, bind, Except.bind]
  by_cases h : esOut * m.data.size > isizeMax
  · simp [h, bindErr]
  · simp [h, bindErr, Vec.reserveExact, pure, Except.pure]

/-- The matrix product's prefix: `ShapeNotConformable` first, then the size decision for the
`nrows(lhs) × ncols(rhs)` result; the allocation is only reached with a byte size that fits. -/
theorem mulDecision_spec (esOut : Nat) (a b : Hdr) :
    mulDecision esOut a b = .ok (
      if a.ncols ≠ b.nrows then .error .shapeNotConformable
      else if a.nrows * b.ncols > usizeMax then .error .sizeOverflow
      else if esOut * (a.nrows * b.ncols) > isizeMax then .error .capacityOverflow
      else .ok ((Shape.mk a.nrows b.ncols).toAxis a.order, a.nrows * b.ncols)) := by
  simp only [mulDecision, Bridge.mul_conformable, Hdr.mulConformable, Bridge.nrows, Bridge.ncols,
    sizeDecision_spec, bind, Except.bind]
  by_cases h0 : a.ncols = b.nrows
  · by_cases h1 : a.nrows * b.ncols > usizeMax
    · simp [h0, h1, bindErr]
    · by_cases h2 : esOut * (a.nrows * b.ncols) > isizeMax
      · simp [h0, h1, h2, bindErr]
      · simp [h0, h1, h2, bindErr, Vec.reserveExact, pure, Except.pure]
  · simp [h0, pure, Except.pure]

/-- No path of any of the above reaches `Vec`'s own "capacity overflow" panic: whenever the
model's allocation step runs, the byte size fits `isize`. (Each `_spec` above has the form
`= .ok …`; a reachable allocation panic would make the left-hand side `.error (.panic …)`.) -/
theorem never_capacity_panic (es r c : Nat) (v : α) :
    ∀ msg, Matrix.withValue es ⟨r, c⟩ v ≠ .error (.panic msg) := by
  intro msg h; rw [withValue_spec] at h; cases h

/-! ### T1: every allocating function of the crate checks before it allocates

`Gen/AllocOrder.lean` is re-extracted from the source on every run: for each function named in
the property's anchors, the order of its size check(s), capacity check and first
vector-producing call.  The conversions from rows with sized elements cannot be driven into
`CapacityOverflow` by any physically existing input, so for them this table theorem — not a
run — is what pins the presence and position of the checks. -/

def checksBeforeAlloc (events : List Gen.AllocEvent) : Bool :=
  let upto := events.takeWhile (· != .alloc)
  upto.contains .capacityCheck && (events.contains .alloc)

/-- every shape-taking function: size check and capacity check both precede the allocation -/
theorem alloc_order_shape_taking :
    ∀ f ∈ Gen.allocFns, f.kind = .shapeTaking →
      ((f.events.takeWhile (· != .alloc)).contains .sizeCheck &&
       (f.events.takeWhile (· != .alloc)).contains .capacityCheck && f.events.contains .alloc) = true := by
  decide

/-- every mapping-style function: capacity check precedes the collection -/
theorem alloc_order_mapping :
    ∀ f ∈ Gen.allocFns, f.kind = .mapping → checksBeforeAlloc f.events = true := by
  decide

/-- the product functions: conformability, then size check, then capacity check, then allocation -/
theorem alloc_order_product :
    ∀ f ∈ Gen.allocFns, f.kind = .product →
      f.events.take 4 = [.conformable, .sizeCheck, .capacityCheck, .alloc] := by
  decide

/-- `reshape` is its header-level decision: the outcome depends on the matrix only through its
order and element count, and a failing call returns the matrix as it was -/
theorem reshape_by_decision (m : Matrix α) (s : Shape) :
    m.reshape s = (reshapeDecision m.data.size s m.order).map fun d =>
      match d with
      | .error e => (.error e, m)
      | .ok sh => (.ok (), { m with shape := sh }) := by
  unfold Matrix.reshape reshapeDecision
  cases h1 : Gen.Shape.try_to_axis_shape s m.order with
  | error f => simp [bind, Except.bind, Except.map]
  | ok sh =>
    cases sh with
    | error e => simp [bind, Except.bind, Except.map, pure, Except.pure]
    | ok sh =>
      simp only [bind, Except.bind]
      cases h2 : Gen.AxisShape.size sh with
      | error f => simp [Except.map]
      | ok n =>
        by_cases hn : m.data.size = n <;> simp [hn, Except.map, pure, Except.pure]
/-- every capacity check uses the element size of the matrix being BUILT and the full element
count of the result: `Self` and the requested shape's size in the shape-taking functions (the
receiver is the result there), `Matrix::<U>` (the output element type) with the source's size in
the mapping functions and with the result shape's size in the products; one check per function -/
theorem capacity_checks_on_output :
    Gen.allocCapacityChecks.map (·.1) = Gen.allocFns.map (·.name) ∧
    ∀ c ∈ Gen.allocCapacityChecks, ∀ f ∈ Gen.allocFns, f.name = c.1 →
      (f.kind = .shapeTaking → c.2.1 = "Self" ∧ c.2.2 = "shape.size()") ∧
      (f.kind = .mapping → c.2.1 = "Matrix::<U>" ∧ c.2.2 = "self.size()") ∧
      (f.kind = .product → c.2.1 = "Matrix::<U>" ∧ c.2.2 = "shape.size()") := by
  decide

/-- the table covers every function the property names -/
theorem alloc_fns_complete :
    Gen.expectedAllocFns.all (fun n => Gen.allocFns.any (fun f => f.name == n)) = true := by
  decide

/-! ### non-vacuity -/

example : sizeDecision 4 ⟨2 ^ 32, 2 ^ 32⟩ .rowMajor = .ok (.error .sizeOverflow) := by
  rw [sizeDecision_spec]; simp [usizeMax]
example : sizeDecision 4 ⟨2 ^ 31, 2 ^ 30⟩ .colMajor = .ok (.error .capacityOverflow) := by
  rw [sizeDecision_spec]; simp [usizeMax, isizeMax]
example : sizeDecision 4 ⟨2 ^ 31, 2 ^ 29⟩ .colMajor = .ok (.ok (⟨2 ^ 29, 2 ^ 31⟩, 2 ^ 60)) := by
  rw [sizeDecision_spec]; simp [usizeMax, isizeMax, Shape.toAxis]
example : sizeDecision 0 ⟨2 ^ 64 - 1, 1⟩ .rowMajor = .ok (.ok (⟨2 ^ 64 - 1, 1⟩, 2 ^ 64 - 1)) := by
  rw [sizeDecision_spec]; simp [usizeMax, isizeMax, Shape.toAxis]


/-- the constructors and `reshape` the theorems of this file are about ARE the source's functions:
the definitions regenerated from `src/construct.rs` / `src/lib.rs` on every run (`Gen/T8Gen.lean`,
translator T8 — which conversion is applied to which operand, what `check_size` measures, the
order of checks and allocation, the allocation's operands, loop bound and `Index::from_flattened`
operands, every early exit with its error and what was assigned before it, `Order::default()`
read from `src/order.rs`) equal the model's, faults included, with no hypothesis; `reshape` also
on the element count alone (huge zero-sized matrices) -/
theorem constructors_are_the_source (es : Nat) (s : Shape) (v : α) (g : Index → α) :
    Gen.Matrix.with_value es s v = Matrix.withValue es s v ∧
    Gen.Matrix.with_default es s v = Matrix.withDefault es s v ∧
    Gen.Matrix.with_initializer es s g = Matrix.withInitializer es s g :=
  ⟨BridgeT8.with_value_bridge es s v, BridgeT8.with_default_bridge es s v, BridgeT8.with_initializer_bridge es s g⟩

theorem reshape_is_the_source (m : Matrix α) (s : Shape) (o : Order) (sh0 : AxisShape) (size : Nat) :
    Gen.Matrix.reshape m.hdr m.data.size s = (m.reshape s).map (fun p => (p.1, p.2.hdr)) ∧
    (Gen.Matrix.reshape ⟨o, sh0⟩ size s).map (fun r => r.1.map fun _ => r.2.shape) = reshapeDecision size s o :=
  ⟨BridgeT8.reshape_bridge m s, BridgeT8.reshape_decision_bridge o sh0 size s⟩

end Matreex.C08
