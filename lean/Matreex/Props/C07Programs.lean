/-
C07 over whole programs — storage order is transparent for every program of order-agnostic
operations: run a program on one world, and run it again on a world whose matrices are logically
equal but stored in arbitrary (different) orders, with `switch_order` / `set_order` calls inserted
at arbitrary points; the two final worlds are logically equal again (same registers live, same
extents, same element at every coordinate), and exactly the same calls failed.

Proved on the logical reference model (`Spec`, where it is a short case analysis) and carried to
the concrete machine by the refinement theorem `C01.run_refines`.
-/
import Matreex.Props.C01Refine

namespace Matreex.C07P
open Matreex Matreex.History Matreex.Spec
variable {α : Type}

/-- logical equality of two logical matrices: everything but the order tag -/
def LEq (a b : LMat α) : Prop := a.nrows = b.nrows ∧ a.ncols = b.ncols ∧ a.el = b.el

/-- two worlds hold logically equal matrices in the same registers -/
def WEq (w₁ w₂ : LWorld α) : Prop :=
  ∀ r, match getReg w₁ r, getReg w₂ r with
    | some a, some b => LEq a b
    | none, none => True
    | _, _ => False

/-- the operations whose meaning does not mention the memory order (everything except `reshape`,
`resize` and the two `*_without_rearrangement` variants, which are *defined* on the memory-order
sequence); in particular the element writes `setAt` / `updAt` are order-agnostic: they address a
LOGICAL position -/
def OrderAgnostic : Op α → Prop
  | .reshape .. => False
  | .resize .. => False
  | .switchOrderWR .. => False
  | .setOrderWR .. => False
  | _ => True

/-- `p₂` is `p₁` with `switch_order` / `set_order` calls inserted at arbitrary points -/
inductive WithSwitches : List (Op α) → List (Op α) → Prop
  | nil : WithSwitches [] []
  | same (op : Op α) {p₁ p₂} : WithSwitches p₁ p₂ → WithSwitches (op :: p₁) (op :: p₂)
  | switch (r : Nat) {p₁ p₂} : WithSwitches p₁ p₂ → WithSwitches p₁ (.switchOrder r :: p₂)
  | set (r : Nat) (o : Order) {p₁ p₂} : WithSwitches p₁ p₂ → WithSwitches p₁ (.setOrder r o :: p₂)

/-! ### helper lemmas -/

/-- helper: the relation on register contents -/
def OEq (a b : Option (LMat α)) : Prop :=
  match a, b with
  | some a, some b => LEq a b
  | none, none => True
  | _, _ => False

theorem WEq_iff (w₁ w₂ : LWorld α) : WEq w₁ w₂ ↔ ∀ r, OEq (getReg w₁ r) (getReg w₂ r) := Iff.rfl

theorem LEq.rfl' (a : LMat α) : LEq a a := ⟨rfl, rfl, rfl⟩

theorem OEq.rfl' (a : Option (LMat α)) : OEq a a := by
  cases a <;> simp [OEq, LEq]

theorem getReg_setReg (w : LWorld α) (r r' : Nat) (m : Option (LMat α)) :
    getReg (setReg w r m) r' = if r' = r then m else getReg w r' := by
  unfold getReg setReg
  rw [List.getElem?_set]
  by_cases h : r = r'
  · subst h
    have : r < w.length + (r + 1 - w.length) := by omega
    simp [this]
  · have h' : ¬ r' = r := fun e => h e.symm
    rw [if_neg h, if_neg h', List.getElem?_append]
    split
    · rfl
    · rename_i hlt
      rw [List.getElem?_eq_none (Nat.le_of_not_lt hlt), List.getElem?_replicate]
      split <;> rfl

theorem WEq_setReg {w₁ w₂ : LWorld α} (hw : WEq w₁ w₂) (r : Nat) {m₁ m₂ : Option (LMat α)}
    (hm : OEq m₁ m₂) : WEq (setReg w₁ r m₁) (setReg w₂ r m₂) := by
  rw [WEq_iff] at hw ⊢
  intro r'
  rw [getReg_setReg, getReg_setReg]
  by_cases h : r' = r
  · rw [if_pos h, if_pos h]; exact hm
  · rw [if_neg h, if_neg h]; exact hw r'

theorem WEq_put {w₁ w₂ : LWorld α} (hw : WEq w₁ w₂) (r : Nat) {m₁ m₂ : Option (LMat α)}
    (hm : OEq m₁ m₂) : WEq (put w₁ r m₁) (put w₂ r m₂) := by
  cases m₁ <;> cases m₂ <;> simp only [OEq] at hm
  · exact hw
  · exact WEq_setReg hw r hm

theorem WEq_upd? {w₁ w₂ : LWorld α} (hw : WEq w₁ w₂) (r : Nat) {f g : LMat α → Option (LMat α)}
    (hfg : ∀ a b, LEq a b → OEq (f a) (g b)) : WEq (upd? w₁ r f) (upd? w₂ r g) := by
  have hr := (WEq_iff _ _).mp hw r
  unfold upd?
  cases h1 : getReg w₁ r <;> cases h2 : getReg w₂ r <;> rw [h1, h2] at hr <;> simp only [OEq] at hr
  · exact hw
  · rename_i a b
    have := hfg a b hr
    cases h3 : f a <;> cases h4 : g b <;> rw [h3, h4] at this <;> simp only [OEq] at this <;>
      simp only [h3, h4]
    · exact hw
    · exact WEq_setReg hw r (by simpa only [OEq] using this)

theorem WEq_upd {w₁ w₂ : LWorld α} (hw : WEq w₁ w₂) (r : Nat) {f g : LMat α → LMat α}
    (hfg : ∀ a b, LEq a b → LEq (f a) (g b)) : WEq (upd w₁ r f) (upd w₂ r g) := by
  have hr := (WEq_iff _ _).mp hw r
  unfold upd
  cases h1 : getReg w₁ r <;> cases h2 : getReg w₂ r <;> rw [h1, h2] at hr <;> simp only [OEq] at hr
  · exact hw
  · exact WEq_setReg hw r (hfg _ _ hr)

theorem WEq_upd_right {w₁ w₂ : LWorld α} (hw : WEq w₁ w₂) (r : Nat) {g : LMat α → LMat α}
    (hg : ∀ b, LEq b (g b)) : WEq w₁ (upd w₂ r g) := by
  rw [WEq_iff] at hw ⊢
  intro r'
  unfold upd
  cases h2 : getReg w₂ r
  · exact hw r'
  · rename_i b
    simp only
    rw [getReg_setReg]
    by_cases h : r' = r
    · subst h
      rw [if_pos rfl]
      have := hw r'
      rw [h2] at this
      cases h1 : getReg w₁ r' <;> rw [h1] at this <;> simp only [OEq] at this ⊢
      exact ⟨this.1.trans (hg b).1, this.2.1.trans (hg b).2.1, this.2.2.trans (hg b).2.2⟩
    · rw [if_neg h]; exact hw r'


/-! per-operation transparency -/

theorem LEq_transpose {a b : LMat α} (h : LEq a b) : LEq (transpose a) (transpose b) := by
  obtain ⟨h1, h2, h3⟩ := h
  exact ⟨h2, h1, by simp only [transpose, h3]⟩

theorem LEq_switchOrder {a b : LMat α} (h : LEq a b) : LEq (switchOrder a) (switchOrder b) := h
theorem LEq_setOrder {a b : LMat α} (o : Order) (h : LEq a b) : LEq (setOrder a o) (setOrder b o) := h
theorem LEq_clear {a b : LMat α} (_h : LEq a b) : LEq (clear a) (clear b) := ⟨rfl, rfl, rfl⟩

theorem LEq_overwrite {a b s t : LMat α} (clone : α → α) (h : LEq a b) (hs : LEq s t) :
    LEq (overwrite a s clone) (overwrite b t clone) := by
  obtain ⟨h1, h2, h3⟩ := h
  obtain ⟨k1, k2, k3⟩ := hs
  refine ⟨h1, h2, ?_⟩
  simp only [overwrite, h1, h2, h3, k1, k2, k3]

theorem OEq_ite {P Q : Prop} [Decidable P] [Decidable Q] (hpq : P ↔ Q) {x y : LMat α}
    (h : LEq x y) : OEq (if P then some x else none) (if Q then some y else none) := by
  by_cases hp : P
  · rw [if_pos hp, if_pos (hpq.mp hp)]; exact h
  · rw [if_neg hp, if_neg (fun hq => hp (hpq.mpr hq))]; exact True.intro

theorem OEq_swapRows {a b : LMat α} (x y : Nat) (h : LEq a b) :
    OEq (swapRows a x y) (swapRows b x y) := by
  obtain ⟨h1, h2, h3⟩ := h
  unfold swapRows
  exact OEq_ite (by rw [h1]) ⟨h1, h2, by simp only [h3]⟩

theorem OEq_swapCols {a b : LMat α} (x y : Nat) (h : LEq a b) :
    OEq (swapCols a x y) (swapCols b x y) := by
  obtain ⟨h1, h2, h3⟩ := h
  unfold swapCols
  exact OEq_ite (by rw [h2]) ⟨h1, h2, by simp only [h3]⟩

theorem OEq_swapElems {a b : LMat α} (i1 j1 i2 j2 : Nat) (h : LEq a b) :
    OEq (swapElems a i1 j1 i2 j2) (swapElems b i1 j1 i2 j2) := by
  obtain ⟨h1, h2, h3⟩ := h
  unfold swapElems
  exact OEq_ite (by rw [h1, h2]) ⟨h1, h2, by simp only [h3]⟩

theorem OEq_setAt {a b : LMat α} (i j : Nat) (v : α) (h : LEq a b) :
    OEq (setAt a i j v) (setAt b i j v) := by
  obtain ⟨h1, h2, h3⟩ := h
  unfold setAt
  exact OEq_ite (by rw [h1, h2]) ⟨h1, h2, by simp only [h3]⟩

theorem OEq_updAt {a b : LMat α} (i j : Nat) (f : α → α) (h : LEq a b) :
    OEq (updAt a i j f) (updAt b i j f) := by
  obtain ⟨h1, h2, h3⟩ := h
  unfold updAt
  exact OEq_ite (by rw [h1, h2]) ⟨h1, h2, by simp only [h3]⟩

theorem OEq_map {a b : LMat α} (es : Nat) (f : α → α) (h : LEq a b) :
    OEq (map es a f) (map es b f) := by
  obtain ⟨h1, h2, h3⟩ := h
  unfold map LMat.size
  exact OEq_ite (by rw [h1, h2]) ⟨h1, h2, by simp only [h3]⟩

theorem OEq_elementwise {a b s t : LMat α} (es : Nat) (op : α → α → α) (h : LEq a b) (hs : LEq s t) :
    OEq (elementwise es a s op) (elementwise es b t op) := by
  obtain ⟨h1, h2, h3⟩ := h
  obtain ⟨k1, k2, k3⟩ := hs
  unfold elementwise LMat.size
  exact OEq_ite (by rw [h1, h2, k1, k2]) ⟨h1, h2, by simp only [h3, k3]⟩

theorem OEq_elementwiseAssign {a b s t : LMat α} (op : α → α → α) (h : LEq a b) (hs : LEq s t) :
    OEq (elementwiseAssign a s op) (elementwiseAssign b t op) := by
  obtain ⟨h1, h2, h3⟩ := h
  obtain ⟨k1, k2, k3⟩ := hs
  unfold elementwiseAssign
  exact OEq_ite (by rw [h1, h2, k1, k2]) ⟨h1, h2, by simp only [h3, k3]⟩

theorem OEq_multiply {a b s t : LMat α} (es : Nat) (mul add : α → α → α) (dflt : α)
    (h : LEq a b) (hs : LEq s t) :
    OEq (multiply es a s mul add dflt) (multiply es b t mul add dflt) := by
  obtain ⟨h1, h2, h3⟩ := h
  obtain ⟨k1, k2, k3⟩ := hs
  unfold multiply
  exact OEq_ite (by rw [h1, h2, k1, k2]) ⟨h1, k2, by simp only [fill, h1, h2, h3, k2, k3]⟩

theorem WithSwitches.wf {p₁ p₂ : List (Op α)} (hp : WithSwitches p₁ p₂)
    (hwf : ∀ op ∈ p₁, op.WF) : ∀ op ∈ p₂, op.WF := by
  induction hp with
  | nil => exact hwf
  | same op _ ih =>
    intro o ho
    rcases List.mem_cons.mp ho with rfl | ho
    · exact hwf _ (List.mem_cons_self ..)
    · exact ih (fun o ho => hwf o (List.mem_cons_of_mem _ ho)) o ho
  | switch r _ ih =>
    intro o ho
    rcases List.mem_cons.mp ho with rfl | ho
    · exact True.intro
    · exact ih hwf o ho
  | set r o' _ ih =>
    intro o ho
    rcases List.mem_cons.mp ho with rfl | ho
    · exact True.intro
    · exact ih hwf o ho

/-! ### the theorems -/

/-- one order-agnostic operation maps logically equal worlds to logically equal worlds -/
theorem spec_step_transparent (es : Nat) (op : Op α) (h : OrderAgnostic op) (w₁ w₂ : LWorld α)
    (hw : WEq w₁ w₂) : WEq (Spec.step es w₁ op) (Spec.step es w₂ op) := by
  cases op with
  | withValue dst r c v => exact WEq_put hw dst (OEq.rfl' _)
  | withInitializer dst r c f => exact WEq_put hw dst (OEq.rfl' _)
  | fromRows dst rows => exact WEq_put hw dst (OEq.rfl' _)
  | fromIter dst rows => exact WEq_setReg hw dst (OEq.rfl' _)
  | transpose r => exact WEq_upd hw r (fun _ _ => LEq_transpose)
  | switchOrder r => exact WEq_upd hw r (fun _ _ => LEq_switchOrder)
  | switchOrderWR r => exact h.elim
  | setOrder r o => exact WEq_upd hw r (fun _ _ => LEq_setOrder o)
  | setOrderWR r o => exact h.elim
  | reshape r nr nc => exact h.elim
  | resize r nr nc dflt => exact h.elim
  | swapRows r a b => exact WEq_upd? hw r (fun _ _ => OEq_swapRows a b)
  | swapCols r a b => exact WEq_upd? hw r (fun _ _ => OEq_swapCols a b)
  | swapElems r i1 j1 i2 j2 => exact WEq_upd? hw r (fun _ _ => OEq_swapElems i1 j1 i2 j2)
  | overwrite dst src clone =>
    have hs := (WEq_iff _ _).mp hw src
    simp only [Spec.step]
    cases h1 : getReg w₁ src <;> cases h2 : getReg w₂ src <;> rw [h1, h2] at hs <;>
      simp only [OEq] at hs <;> simp only []
    · exact hw
    · exact WEq_upd hw dst (fun _ _ hab => LEq_overwrite clone hab hs)
  | map dst src f =>
    have hs := (WEq_iff _ _).mp hw src
    simp only [Spec.step]
    cases h1 : getReg w₁ src <;> cases h2 : getReg w₂ src <;> rw [h1, h2] at hs <;>
      simp only [OEq] at hs <;> simp only []
    · exact hw
    · exact WEq_put hw dst (OEq_map es f hs)
  | elementwise dst a b op =>
    have ha := (WEq_iff _ _).mp hw a
    have hb := (WEq_iff _ _).mp hw b
    simp only [Spec.step]
    cases h1 : getReg w₁ a <;> cases h2 : getReg w₂ a <;> rw [h1, h2] at ha <;>
      simp only [OEq] at ha <;>
      cases h3 : getReg w₁ b <;> cases h4 : getReg w₂ b <;> rw [h3, h4] at hb <;>
      simp only [OEq] at hb <;> simp only []
    · exact hw
    · exact hw
    · exact hw
    · exact WEq_put hw dst (OEq_elementwise es op ha hb)
  | elementwiseAssign a b op =>
    have hb := (WEq_iff _ _).mp hw b
    simp only [Spec.step]
    cases h1 : getReg w₁ b <;> cases h2 : getReg w₂ b <;> rw [h1, h2] at hb <;>
      simp only [OEq] at hb <;> simp only []
    · exact hw
    · exact WEq_upd? hw a (fun _ _ hab => OEq_elementwiseAssign op hab hb)
  | multiply dst a b mul add dflt =>
    have ha := (WEq_iff _ _).mp hw a
    have hb := (WEq_iff _ _).mp hw b
    simp only [Spec.step]
    cases h1 : getReg w₁ a <;> cases h2 : getReg w₂ a <;> rw [h1, h2] at ha <;>
      simp only [OEq] at ha <;>
      cases h3 : getReg w₁ b <;> cases h4 : getReg w₂ b <;> rw [h3, h4] at hb <;>
      simp only [OEq] at hb <;> simp only []
    · exact hw
    · exact hw
    · exact hw
    · exact WEq_put hw dst (OEq_multiply es mul add dflt ha hb)
  | clear r => exact WEq_upd hw r (fun _ _ => LEq_clear)
  | drop r => exact WEq_setReg hw r (OEq.rfl' _)
  | setAt r i j v => exact WEq_upd? hw r (fun _ _ => OEq_setAt i j v)
  | updAt r i j f => exact WEq_upd? hw r (fun _ _ => OEq_updAt i j f)

/-- an inserted `switch_order` / `set_order` changes nothing logically -/
theorem spec_switch_invisible (es : Nat) (w₁ w₂ : LWorld α) (hw : WEq w₁ w₂) (r : Nat) (o : Order) :
    WEq w₁ (Spec.step es w₂ (.switchOrder r)) ∧ WEq w₁ (Spec.step es w₂ (.setOrder r o)) := by
  exact ⟨WEq_upd_right hw r (fun _ => ⟨rfl, rfl, rfl⟩), WEq_upd_right hw r (fun _ => ⟨rfl, rfl, rfl⟩)⟩

/-- whole programs, on the reference model -/
theorem spec_programs_transparent (es : Nat) {p₁ p₂ : List (Op α)} (hp : WithSwitches p₁ p₂)
    (hag : ∀ op ∈ p₁, OrderAgnostic op) : ∀ (w₁ w₂ : LWorld α), WEq w₁ w₂ →
    WEq (Spec.run es w₁ p₁) (Spec.run es w₂ p₂) := by
  induction hp with
  | nil => intro w₁ w₂ hw; exact hw
  | same op _ ih =>
    intro w₁ w₂ hw
    exact ih (fun o ho => hag o (List.mem_cons_of_mem _ ho)) _ _
      (spec_step_transparent es op (hag op (List.mem_cons_self ..)) w₁ w₂ hw)
  | switch r _ ih =>
    intro w₁ w₂ hw
    exact ih hag _ _ (spec_switch_invisible es w₁ w₂ hw r .rowMajor).1
  | set r o _ ih =>
    intro w₁ w₂ hw
    exact ih hag _ _ (spec_switch_invisible es w₁ w₂ hw r o).2

/-- C07 for whole programs, on the concrete machine: two worlds satisfying the invariant whose
logical views are equal up to storage orders; a program of well-formed order-agnostic operations
and the same program with order switches inserted anywhere; both runs complete without fault and
the final worlds are again logically equal up to storage orders -/
theorem programs_order_transparent (es : Nat) {p₁ p₂ : List (Op α)} (hp : WithSwitches p₁ p₂)
    (hag : ∀ op ∈ p₁, OrderAgnostic op) (hwf : ∀ op ∈ p₁, op.WF)
    (w₁ w₂ : World α) (h₁ : Inv w₁) (h₂ : Inv w₂) (hw : WEq (absW w₁) (absW w₂)) :
    ∃ w₁' w₂', History.run es w₁ p₁ = .ok w₁' ∧ History.run es w₂ p₂ = .ok w₂' ∧
      WEq (absW w₁') (absW w₂') := by
  obtain ⟨w₁', r1, a1⟩ := C01.run_refines es p₁ w₁ h₁ hwf
  obtain ⟨w₂', r2, a2⟩ := C01.run_refines es p₂ w₂ h₂ (hp.wf hwf)
  refine ⟨w₁', w₂', r1, r2, ?_⟩
  rw [a1, a2]
  exact spec_programs_transparent es hp hag _ _ hw

/-- the element writes are in the scope of `programs_order_transparent` -/
example (r i j : Nat) (v : α) (f : α → α) :
    OrderAgnostic (.setAt r i j v : Op α) ∧ OrderAgnostic (.updAt r i j f : Op α) :=
  ⟨True.intro, True.intro⟩

/-- non-vacuity: the same two writes on the row-major and the column-major form of one 2×2 matrix,
with a `switch_order` inserted in the second run: logically equal results -/
example : WithSwitches [Op.setAt 0 0 1 (7 : Nat), .updAt 0 1 0 (· + 1)]
    [.setAt 0 0 1 7, .switchOrder 0, .updAt 0 1 0 (· + 1)] :=
  .same _ (.switch 0 (.same _ .nil))

end Matreex.C07P
