/-
C04 — checked indexing is exact and total for every index value and index type.

Statements are about `Matrix.getAcc` / `Matrix.getIdx` / `AxisIndex.resolve` of `Model/Index.lean`,
whose integer arithmetic is the code regenerated from `/repo/src/index.rs` (`Gen/Core.lean`).
`= .ok …` at the outer level means: no panic (no arithmetic overflow) and no undefined behaviour
(`get_unchecked` inside the buffer) on that path.
-/
import Matreex.Model.Index
import Matreex.Lemmas.Bridge
import Matreex.Lemmas.Matrix

namespace Matreex.C04
open Matreex
variable {α : Type}

/-- The checked access on an axis index: exactly the in-bounds indices resolve, to their flat
offset, which lies inside the element buffer; every other index is `IndexOutOfBounds`; no fault
for any pair of values. -/
theorem resolve_exact (m : Matrix α) (h : m.Coh) (hfit : m.data.size ≤ usizeMax) (i : AxisIndex) :
    i.resolve m = .ok (if i.major < m.shape.major ∧ i.minor < m.shape.minor
      then .ok (i.flat m.shape) else .error .indexOutOfBounds) ∧
    (i.major < m.shape.major → i.minor < m.shape.minor → i.flat m.shape < m.data.size) := by
  have hlt : i.major < m.shape.major → i.minor < m.shape.minor → i.flat m.shape < m.data.size := by
    intro h1 h2; rw [← h.size_eq]; exact flat_lt h1 h2
  refine ⟨?_, hlt⟩
  simp only [AxisIndex.resolve, AxisIndex.resolveH, Bridge.is_out_of_bounds, AxisIndex.oob, Matrix.hdr, bind,
    Except.bind, pure, Except.pure]
  by_cases h1 : i.major < m.shape.major <;> by_cases h2 : i.minor < m.shape.minor
  · have hk := hlt h1 h2
    have hb := Bridge.to_flattened i m.shape (by unfold AxisIndex.flat at hk; omega)
    simp [h1, h2, Nat.not_le.mpr h1, Nat.not_le.mpr h2, AxisIndex.resolveUncheckedH, hb, refUnchecked,
      hk, bind, Except.bind, pure, Except.pure]
  · simp [h1, h2, Nat.not_lt.mp h2]
  · simp [h1, h2, Nat.not_lt.mp h1]
  · simp [h1, h2, Nat.not_lt.mp h1]

/-- For *every* accessor state machine (including ones that answer differently on successive
calls) `get`/`get_mut` call `row()` exactly once and `col()` exactly once, and the outcome is the
exact checked access at those two answers. -/
theorem get_accessor_once {σ : Type} (m : Matrix α) (h : m.Coh) (hfit : m.data.size ≤ usizeMax)
    (acc : Accessor σ) (s : σ) :
    let (i, s', calls) := AxisIndex.readAccessor acc s m.order
    m.getAcc acc s = .ok (
      (if i.major < m.shape.major ∧ i.minor < m.shape.minor
        then .ok (i.flat m.shape) else .error .indexOutOfBounds), s', calls) ∧
    calls.count .row = 1 ∧ calls.count .col = 1 := by
  have hc : ∀ o, ((AxisIndex.readAccessor acc s o).2.2).count .row = 1 ∧
      ((AxisIndex.readAccessor acc s o).2.2).count .col = 1 := by
    intro o; cases o <;> simp [AxisIndex.readAccessor]
  generalize hra : AxisIndex.readAccessor acc s m.order = ra
  obtain ⟨i, s', calls⟩ := ra
  have := hc m.order
  rw [hra] at this
  refine ⟨?_, this⟩
  have hre := (resolve_exact m h hfit i).1
  simp only [AxisIndex.resolve, Matrix.hdr] at hre
  simp only [Matrix.getAcc, Hdr.getAcc, Matrix.hdr] at hra ⊢
  simp only [hra, hre, Matrix.hdr, bind, Except.bind, pure, Except.pure]

/-- C04 headline: with a plain index `(r, c)` — any two naturals, in particular any two `usize`
values — `get`/`get_mut` return the element at flat offset `idx r c` exactly when
`r < nrows ∧ c < ncols`, and `IndexOutOfBounds` otherwise; never a fault. -/
theorem get_exact (m : Matrix α) (h : m.Coh) (hfit : m.data.size ≤ usizeMax) (r c : Nat) :
    m.getIdx r c = .ok (if r < m.nrows ∧ c < m.ncols then .ok (m.idx r c)
      else .error .indexOutOfBounds) := by
  have := get_accessor_once m h hfit (Accessor.plain r c) ()
  obtain ⟨o, sh, d⟩ := m
  cases o <;>
    simp only [AxisIndex.readAccessor, Accessor.plain, Matrix.getIdx, Hdr.getIdx, Matrix.getAcc, Matrix.hdr, Matrix.nrows, Matrix.ncols,
      AxisShape.nrows, AxisShape.ncols, Matrix.idx, Index.flat, AxisIndex.ofIndex] at this ⊢
  · simp only [this.1, bind, Except.bind, pure, Except.pure]
    rfl
  · simp only [this.1, bind, Except.bind, pure, Except.pure]
    by_cases h1 : r < sh.minor <;> by_cases h2 : c < sh.major <;> simp [h1, h2]

/-- the offset handed out for an in-bounds coordinate is inside the buffer, and distinct
coordinates get distinct offsets -/
theorem get_in_buffer (m : Matrix α) (h : m.Coh) {r c : Nat} (hr : r < m.nrows) (hc : c < m.ncols) :
    m.idx r c < m.data.size := m.idx_lt h hr hc

/-- distinct in-bounds coordinates are handed distinct offsets: `get` / `get_mut` never alias two
logical positions onto one stored element -/
theorem get_distinct (m : Matrix α) {r c r' c' : Nat} (hr : r < m.nrows) (hc : c < m.ncols)
    (hr' : r' < m.nrows) (hc' : c' < m.ncols) (hne : ¬ (r = r' ∧ c = c')) :
    m.idx r c ≠ m.idx r' c' := fun e => hne (m.idx_inj hr hc hr' hc' e)

/-- two checked lookups answer alike exactly when they name the same position or are both out of
bounds: the answer of `get` determines the in-bounds coordinate -/
theorem get_eq_iff (m : Matrix α) (h : m.Coh) (hfit : m.data.size ≤ usizeMax) (r c r' c' : Nat)
    (hb : r < m.nrows ∧ c < m.ncols) :
    m.getIdx r c = m.getIdx r' c' ↔ (r = r' ∧ c = c') := by
  rw [get_exact m h hfit, get_exact m h hfit, if_pos hb]
  constructor
  · intro e
    by_cases hb' : r' < m.nrows ∧ c' < m.ncols
    · rw [if_pos hb'] at e
      injection e with e; injection e with e
      exact m.idx_inj hb.1 hb.2 hb'.1 hb'.2 e
    · rw [if_neg hb'] at e
      injection e with e; cases e
  · rintro ⟨rfl, rfl⟩; rw [if_pos hb]

/-- `m[(r, c)]`: the same element when in bounds, a panic (and no memory access) otherwise -/
theorem index_exact (m : Matrix α) (h : m.Coh) (hfit : m.data.size ≤ usizeMax) (r c : Nat) :
    indexOp (m.getIdx r c) =
      if r < m.nrows ∧ c < m.ncols then .ok (m.idx r c)
      else .error (.panic Error.indexOutOfBounds.name) := by
  rw [get_exact m h hfit]
  by_cases hb : r < m.nrows ∧ c < m.ncols <;>
    simp [indexOp, hb, bind, Except.bind, pure, Except.pure, throw, throwThe, MonadExceptOf.throw]

/-! ### non-vacuity -/

def ex23 : Matrix Nat := ⟨.colMajor, ⟨3, 2⟩, #[1, 4, 2, 5, 3, 6]⟩   -- logical 2×3, column-major

example : ex23.Coh ∧ ex23.data.size ≤ usizeMax := ⟨⟨rfl⟩, by simp [ex23, usizeMax]⟩
example : ex23.getIdx 1 2 = .ok (.ok 5) := by rfl
example : ex23.getIdx 2 0 = .ok (.error .indexOutOfBounds) := by rfl
example : ex23.getIdx 0 (2 ^ 64 - 1) = .ok (.error .indexOutOfBounds) := by rfl
/-- an accessor whose `row()` answers 1 on its first call and 99 afterwards -/
def flaky : Accessor Nat := ⟨fun n => (if n = 0 then 1 else 99, n + 1), fun n => (2, n)⟩
example : (ex23.getAcc flaky 0) = .ok (.ok 5, 1, [.col, .row]) := by rfl
example : (ex23.getAcc flaky 1) = .ok (.error .indexOutOfBounds, 2, [.col, .row]) := by rfl

end Matreex.C04
