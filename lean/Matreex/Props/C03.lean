/-
C03 — mutable row/column iterators hand out every element exactly once, in bounds.

The concrete system (`sysStep`) drives the address-level machines of `Model/IterMut.lean`: one
outer iterator and all inner iterators it has produced so far (all kept alive), under any finite
sequence of `next` / `next_back` / `len` calls on any of them.  The abstract system (`absStep`) is
a deque of vector numbers whose items are deques of positions.  The refinement theorem says the
concrete system never faults (no UB: no pointer outside the buffer is formed, no reference to
anything but a live aligned element; no arithmetic panic) and observes exactly what the abstract
system prescribes, with the address of logical position `(row, col)` for every yielded item.
-/
import Matreex.Model.IterMut
import Matreex.Lemmas.Matrix
import Matreex.Lemmas.IterMut
import Matreex.Lemmas.BridgeIterMut

namespace Matreex.C03
open Matreex Matreex.IterMut

/-! ### the concrete system -/

structure Sys where
  outer : Vecs
  inners : List Nth
  deriving Repr

inductive Call where
  | oNext | oNextBack | oLen
  | iNext (i : Nat) | iNextBack (i : Nat) | iLen (i : Nat)
  deriving Repr, DecidableEq

/-- what a call lets the caller observe -/
inductive Obs where
  | vec (present : Bool)        -- outer next / next_back: a new inner iterator, or `None`
  | item (addr : Option Nat)    -- inner next / next_back: address of the `&mut T`, or `None`
  | len (n : Nat)
  | noSuchIterator
  deriving Repr, DecidableEq

def sysStep (cfg : Cfg) (s : Sys) : Call → M (Sys × Obs)
  | .oNext => do
    let (r, o') ← s.outer.next cfg
    match r with
    | some v => pure ({ outer := o', inners := s.inners ++ [v] }, .vec true)
    | none => pure ({ s with outer := o' }, .vec false)
  | .oNextBack => do
    let (r, o') ← s.outer.nextBack cfg
    match r with
    | some v => pure ({ outer := o', inners := s.inners ++ [v] }, .vec true)
    | none => pure ({ s with outer := o' }, .vec false)
  | .oLen => do
    let n ← s.outer.len cfg
    pure (s, .len n)
  | .iNext i =>
    match s.inners[i]? with
    | none => pure (s, .noSuchIterator)
    | some it => do
      let (a, it') ← it.next cfg
      pure ({ s with inners := s.inners.set i it' }, .item a)
  | .iNextBack i =>
    match s.inners[i]? with
    | none => pure (s, .noSuchIterator)
    | some it => do
      let (a, it') ← it.nextBack cfg
      pure ({ s with inners := s.inners.set i it' }, .item a)
  | .iLen i =>
    match s.inners[i]? with
    | none => pure (s, .noSuchIterator)
    | some it => do
      let n ← it.len cfg
      pure (s, .len n)

def runSys (cfg : Cfg) : Sys → List Call → M (Sys × List Obs)
  | s, [] => .ok (s, [])
  | s, c :: cs => do
    let (s', o) ← sysStep cfg s c
    let (s'', os) ← runSys cfg s' cs
    pure (s'', o :: os)

/-! ### the abstract system: a deque of vectors, each a deque of positions -/

/-- an inner iterator over vector number `k` with `f` items taken from the front, `b` from the back -/
structure AInner where
  k : Nat
  f : Nat
  b : Nat
  deriving Repr, DecidableEq

/-- outer: `F` vectors taken from the front, `B` from the back -/
structure ASys where
  F : Nat
  B : Nat
  inners : List AInner
  deriving Repr, DecidableEq

/-- abstract observation: a position is `(vector number, position in the vector)` -/
inductive AObs where
  | vec (present : Bool)
  | item (pos : Option (Nat × Nat))
  | len (n : Nat)
  | noSuchIterator
  deriving Repr, DecidableEq

/-- `AL` vectors of `VL` elements each -/
def absStep (AL VL : Nat) (a : ASys) : Call → ASys × AObs
  | .oNext =>
    if a.F + a.B < AL then ({ a with F := a.F + 1, inners := a.inners ++ [⟨a.F, 0, 0⟩] }, .vec true)
    else (a, .vec false)
  | .oNextBack =>
    if a.F + a.B < AL then ({ a with B := a.B + 1, inners := a.inners ++ [⟨AL - 1 - a.B, 0, 0⟩] }, .vec true)
    else (a, .vec false)
  | .oLen => (a, .len (AL - a.F - a.B))
  | .iNext i =>
    match a.inners[i]? with
    | none => (a, .noSuchIterator)
    | some it =>
      if it.f + it.b < VL then ({ a with inners := a.inners.set i { it with f := it.f + 1 } }, .item (some (it.k, it.f)))
      else (a, .item none)
  | .iNextBack i =>
    match a.inners[i]? with
    | none => (a, .noSuchIterator)
    | some it =>
      if it.f + it.b < VL then ({ a with inners := a.inners.set i { it with b := it.b + 1 } }, .item (some (it.k, VL - 1 - it.b)))
      else (a, .item none)
  | .iLen i =>
    match a.inners[i]? with
    | none => (a, .noSuchIterator)
    | some it => (a, .len (VL - it.f - it.b))

def absRun (AL VL : Nat) : ASys → List Call → ASys × List AObs
  | a, [] => (a, [])
  | a, c :: cs =>
    let (a', o) := absStep AL VL a c
    let (a'', os) := absRun AL VL a' cs
    (a'', o :: os)

/-- the positions handed out during a run, in order -/
def yielded : List AObs → List (Nat × Nat)
  | [] => []
  | .item (some p) :: os => p :: yielded os
  | _ :: os => yielded os

/-! ### geometry: which element a position stands for -/

/-- number of vectors / length of each vector when iterating rows (`rows = true`) or columns -/
def nVectors {α : Type} (m : Matrix α) (rows : Bool) : Nat := if rows then m.nrows else m.ncols
def vecLen {α : Type} (m : Matrix α) (rows : Bool) : Nat := if rows then m.ncols else m.nrows

/-- flat offset of the `t`-th element of the `k`-th row (resp. column): logical `(k, t)` resp. `(t, k)` -/
def elemOffset {α : Type} (m : Matrix α) (rows : Bool) (k t : Nat) : Nat :=
  if rows then m.idx k t else m.idx t k

/-- the address a yielded `&mut T` must have: the element's address for sized types; the dangling
(aligned, non-null) address for zero-sized types -/
def addrOf {α : Type} (cfg : Cfg) (m : Matrix α) (rows : Bool) (p : Nat × Nat) : Nat :=
  if cfg.es = 0 then cfg.dangling else cfg.base + elemOffset m rows p.1 p.2 * cfg.es

def concretize {α : Type} (cfg : Cfg) (m : Matrix α) (rows : Bool) : AObs → Obs
  | .vec b => .vec b
  | .item none => .item none
  | .item (some p) => .item (some (addrOf cfg m rows p))
  | .len n => .len n
  | .noSuchIterator => .noSuchIterator

/-- the buffer described by `cfg` is the element vector of `m`, and it fits the address space
(`Vec` guarantees `len·es ≤ isize::MAX` and `base + len·es` does not wrap) -/
structure CfgOk {α : Type} (cfg : Cfg) (m : Matrix α) : Prop where
  len_eq : cfg.len = m.data.size
  fits : cfg.base + cfg.len * cfg.es ≤ usizeMax
  len_fits : cfg.len ≤ usizeMax
  base_pos : 0 < cfg.base
  dangling_pos : 0 < cfg.dangling

/-- the outer iterator as `iter_rows_mut()` / `iter_cols_mut()` construct it -/
def openIter {α : Type} (cfg : Cfg) (m : Matrix α) (rows : Bool) : M Vecs :=
  if rows then Vecs.rowsMut cfg m.order m.shape else Vecs.colsMut cfg m.order m.shape

/-! ### refinement: system invariant and per-call lemma -/

/-- the concrete state `s` stands for the abstract state `a`: the outer iterator is the deque of
vector numbers with `a.F` / `a.B` taken, the `i`-th inner iterator is the deque of positions of
vector `a.inners[i].k` with `f` / `b` taken -/
def SysInv (cfg : Cfg) (AS AL VS VL : Nat) (s : Sys) (a : ASys) : Prop :=
  RV cfg (lower0 cfg) AS AL VS VL s.outer a.F a.B ∧
  Rel2 (fun it ai => R cfg (A cfg (lower0 cfg) AS ai.k) VS VL it ai.f ai.b ∧ ai.k < AL) s.inners a.inners

theorem Y_addr {α : Type} (cfg : Cfg) (m : Matrix α) (rows : Bool) (AS VS : Nat)
    (hoff : ∀ k t, elemOffset m rows k t = k * AS + t * VS) (k t : Nat) :
    Y cfg (A cfg (lower0 cfg) AS k) VS t = addrOf cfg m rows (k, t) := by
  rw [Y_eq]; unfold addrOf; simp only [hoff]

theorem step_refines {α : Type} (cfg : Cfg) (m : Matrix α) (rows : Bool) (AS AL VS VL : Nat)
    (hoff : ∀ k t, elemOffset m rows k t = k * AS + t * VS)
    (hG : VL ≠ 0 → AL ≠ 0 → MValid cfg (lower0 cfg) AS AL VS VL)
    (s : Sys) (a : ASys) (hinv : SysInv cfg AS AL VS VL s a) (c : Call) :
    ∃ s', sysStep cfg s c = .ok (s', concretize cfg m rows (absStep AL VL a c).2) ∧
      SysInv cfg AS AL VS VL s' (absStep AL VL a c).1 := by
  obtain ⟨hrv, hrel⟩ := hinv
  cases c with
  | oNext =>
    obtain ⟨h1, h2⟩ := vecs_next_refines cfg (lower0 cfg) AS AL VS VL s.outer a.F a.B hrv
    by_cases hlt : a.F + a.B < AL
    · obtain ⟨nth, it', e, hrv', hr⟩ := h1 hlt
      simp only [sysStep, absStep, e, hlt, ↓reduceIte, bind, Except.bind, pure, Except.pure, concretize]
      exact ⟨_, rfl, hrv', hrel.snoc ⟨hr, by show a.F < AL; omega⟩⟩
    · have e := h2 hlt
      simp only [sysStep, absStep, e, hlt, ↓reduceIte, bind, Except.bind, pure, Except.pure, concretize]
      exact ⟨_, rfl, hrv, hrel⟩
  | oNextBack =>
    obtain ⟨h1, h2⟩ := vecs_nextBack_refines cfg (lower0 cfg) AS AL VS VL s.outer a.F a.B hrv
    by_cases hlt : a.F + a.B < AL
    · obtain ⟨nth, it', e, hrv', hr⟩ := h1 hlt
      simp only [sysStep, absStep, e, hlt, ↓reduceIte, bind, Except.bind, pure, Except.pure, concretize]
      exact ⟨_, rfl, hrv', hrel.snoc ⟨hr, by show AL - 1 - a.B < AL; omega⟩⟩
    · have e := h2 hlt
      simp only [sysStep, absStep, e, hlt, ↓reduceIte, bind, Except.bind, pure, Except.pure, concretize]
      exact ⟨_, rfl, hrv, hrel⟩
  | oLen =>
    have e := vecs_len_refines cfg (lower0 cfg) AS AL VS VL s.outer a.F a.B hrv
    simp only [sysStep, absStep, e, bind, Except.bind, pure, Except.pure, concretize]
    exact ⟨_, rfl, hrv, hrel⟩
  | iNext i =>
    rcases hrel.get i with ⟨hn, hn'⟩ | ⟨it, ai, hs, ha, hr, hk⟩
    · simp only [sysStep, absStep, hn, hn', pure, Except.pure, concretize]
      exact ⟨_, rfl, hrv, hrel⟩
    · obtain ⟨h1, h2⟩ := next_refines cfg (A cfg (lower0 cfg) AS ai.k) VS VL it ai.f ai.b hr
      by_cases hlt : ai.f + ai.b < VL
      · have hv := (hG (by omega) (by omega)).vector ai.k hk
        obtain ⟨it', e, hr'⟩ := h1 hlt hv
        rw [Y_addr cfg m rows AS VS hoff] at e
        simp only [sysStep, absStep, hs, ha, e, hlt, ↓reduceIte, bind, Except.bind, pure, Except.pure, concretize]
        exact ⟨_, rfl, hrv, hrel.set i ⟨hr', hk⟩⟩
      · have e := h2 hlt
        simp only [sysStep, absStep, hs, ha, e, hlt, ↓reduceIte, bind, Except.bind, pure, Except.pure, concretize]
        exact ⟨_, rfl, hrv, hrel.set_left i ha ⟨hr, hk⟩⟩
  | iNextBack i =>
    rcases hrel.get i with ⟨hn, hn'⟩ | ⟨it, ai, hs, ha, hr, hk⟩
    · simp only [sysStep, absStep, hn, hn', pure, Except.pure, concretize]
      exact ⟨_, rfl, hrv, hrel⟩
    · obtain ⟨h1, h2⟩ := nextBack_refines cfg (A cfg (lower0 cfg) AS ai.k) VS VL it ai.f ai.b hr
      by_cases hlt : ai.f + ai.b < VL
      · have hv := (hG (by omega) (by omega)).vector ai.k hk
        obtain ⟨it', e, hr'⟩ := h1 hlt hv
        rw [Y_addr cfg m rows AS VS hoff] at e
        simp only [sysStep, absStep, hs, ha, e, hlt, ↓reduceIte, bind, Except.bind, pure, Except.pure, concretize]
        exact ⟨_, rfl, hrv, hrel.set i ⟨hr', hk⟩⟩
      · have e := h2 hlt
        simp only [sysStep, absStep, hs, ha, e, hlt, ↓reduceIte, bind, Except.bind, pure, Except.pure, concretize]
        exact ⟨_, rfl, hrv, hrel.set_left i ha ⟨hr, hk⟩⟩
  | iLen i =>
    rcases hrel.get i with ⟨hn, hn'⟩ | ⟨it, ai, hs, ha, hr, hk⟩
    · simp only [sysStep, absStep, hn, hn', pure, Except.pure, concretize]
      exact ⟨_, rfl, hrv, hrel⟩
    · have e := len_refines cfg (A cfg (lower0 cfg) AS ai.k) VS VL it ai.f ai.b hr
        (fun hlt => (hG (by omega) (by omega)).vector ai.k hk)
      simp only [sysStep, absStep, hs, ha, e, bind, Except.bind, pure, Except.pure, concretize]
      exact ⟨_, rfl, hrv, hrel⟩

theorem absRun_cons (AL VL : Nat) (a : ASys) (c : Call) (cs : List Call) :
    absRun AL VL a (c :: cs) =
      ((absRun AL VL (absStep AL VL a c).1 cs).1,
        (absStep AL VL a c).2 :: (absRun AL VL (absStep AL VL a c).1 cs).2) := rfl

theorem run_refines {α : Type} (cfg : Cfg) (m : Matrix α) (rows : Bool) (AS AL VS VL : Nat)
    (hoff : ∀ k t, elemOffset m rows k t = k * AS + t * VS)
    (hG : VL ≠ 0 → AL ≠ 0 → MValid cfg (lower0 cfg) AS AL VS VL) (calls : List Call) :
    ∀ (s : Sys) (a : ASys), SysInv cfg AS AL VS VL s a →
      ∃ s' obs, runSys cfg s calls = .ok (s', obs) ∧
        obs = ((absRun AL VL a calls).2).map (concretize cfg m rows) := by
  induction calls with
  | nil => intro s a _; exact ⟨s, [], rfl, rfl⟩
  | cons c cs ih =>
    intro s a hinv
    obtain ⟨s1, e1, inv1⟩ := step_refines cfg m rows AS AL VS VL hoff hG s a hinv c
    obtain ⟨s', obs, e2, e3⟩ := ih s1 _ inv1
    refine ⟨s', concretize cfg m rows (absStep AL VL a c).2 :: obs, ?_, ?_⟩
    · simp only [runSys, e1, e2, bind, Except.bind, pure, Except.pure]
    · rw [absRun_cons, e3]; rfl

/-- construction succeeds; the strides `AS`, `VS` it uses place element `t` of vector `k` at
`elemOffset` -/
theorem open_ok {α : Type} (cfg : Cfg) (m : Matrix α) (h : m.Coh) (hc : CfgOk cfg m) (rows : Bool) :
    ∃ it AS VS, openIter cfg m rows = .ok it ∧
      (∀ k t, elemOffset m rows k t = k * AS + t * VS) ∧
      RV cfg (lower0 cfg) AS (nVectors m rows) VS (vecLen m rows) it 0 0 := by
  have hlen : cfg.len = m.shape.major * m.shape.minor := by rw [hc.len_eq, h.size_eq]
  obtain ⟨hM1, hM2⟩ := overMajor_ok cfg m.shape hlen hc.fits hc.len_fits
  obtain ⟨hm1, hm2⟩ := overMinor_ok cfg m.shape hlen hc.fits hc.len_fits
  obtain ⟨o, sh, d⟩ := m
  cases rows <;> cases o <;>
    simp only [openIter, Vecs.rowsMut, Vecs.colsMut, nVectors, vecLen, elemOffset, Matrix.nrows,
      Matrix.ncols, AxisShape.nrows, AxisShape.ncols, Matrix.idx, Index.flat, AxisIndex.flat,
      AxisIndex.ofIndex, ↓reduceIte, Bool.false_eq_true] at *
  · exact ⟨hm1, 1, sh.minor, hm2.1, fun k t => by omega, hm2.2⟩
  · exact ⟨hM1, sh.minor, 1, hM2.1, fun k t => by omega, hM2.2⟩
  · exact ⟨hM1, sh.minor, 1, hM2.1, fun k t => by omega, hM2.2⟩
  · exact ⟨hm1, 1, sh.minor, hm2.1, fun k t => by omega, hm2.2⟩

/-! ### the abstract system: which positions have been handed out -/

/-- inner iterator `it` has handed out position `t` of its vector -/
def Got (VL : Nat) (it : AInner) (t : Nat) : Prop := t < it.f ∨ (VL - it.b ≤ t ∧ t < VL)

/-- the outer iterator has handed out vector `k` -/
def Live (AL F B k : Nat) : Prop := k < F ∨ (AL - B ≤ k ∧ k < AL)

/-- position `p` has been handed out by one of the inner iterators of `a` -/
def Taken (VL : Nat) (a : ASys) (p : Nat × Nat) : Prop :=
  ∃ (i : Nat) (it : AInner), a.inners[i]? = some it ∧ it.k = p.1 ∧ Got VL it p.2

/-- invariant of the abstract system: the inner iterators stand for pairwise distinct vectors,
exactly those the outer iterator has handed out -/
structure AInv (AL VL : Nat) (a : ASys) : Prop where
  outer : a.F + a.B ≤ AL
  inner : ∀ (i : Nat) (it : AInner), a.inners[i]? = some it → it.f + it.b ≤ VL ∧ Live AL a.F a.B it.k
  distinct : ∀ (i j : Nat) (it it' : AInner), a.inners[i]? = some it → a.inners[j]? = some it' →
    it.k = it'.k → i = j
  cover : ∀ k, Live AL a.F a.B k → ∃ (i : Nat) (it : AInner), a.inners[i]? = some it ∧ it.k = k

theorem AInv.init (AL VL : Nat) : AInv AL VL ⟨0, 0, []⟩ := by
  refine ⟨by simp, ?_, ?_, ?_⟩
  · intro i it h; simp at h
  · intro i j it it' h; simp at h
  · intro k h; simp only [Live] at h; omega

theorem Taken.init (VL : Nat) (p : Nat × Nat) : ¬ Taken VL ⟨0, 0, []⟩ p := by
  rintro ⟨i, it, h, _⟩; simp at h

/-- the outer iterator hands out vector `k`: a new untouched inner iterator, nothing yielded -/
theorem push_spec (AL VL : Nat) (a : ASys) (F' B' k : Nat) (hinv : AInv AL VL a)
    (hout : F' + B' ≤ AL)
    (hlive : ∀ j, Live AL F' B' j ↔ Live AL a.F a.B j ∨ j = k)
    (hnot : ¬ Live AL a.F a.B k) :
    AInv AL VL ⟨F', B', a.inners ++ [⟨k, 0, 0⟩]⟩ ∧
      ∀ q, Taken VL ⟨F', B', a.inners ++ [⟨k, 0, 0⟩]⟩ q ↔ Taken VL a q := by
  refine ⟨⟨hout, ?_, ?_, ?_⟩, ?_⟩
  · intro j x hx
    simp only [getElem?_snoc_eq_some] at hx
    rcases hx with hx | ⟨_, rfl⟩
    · obtain ⟨h1, h2⟩ := hinv.inner j x hx
      exact ⟨h1, (hlive _).mpr (Or.inl h2)⟩
    · exact ⟨by simp, (hlive _).mpr (Or.inr rfl)⟩
  · intro j j' x x' hx hx' hkk
    simp only [getElem?_snoc_eq_some] at hx hx'
    rcases hx with hx | ⟨hj, rfl⟩ <;> rcases hx' with hx' | ⟨hj', rfl⟩
    · exact hinv.distinct j j' x x' hx hx' hkk
    · have hkk' : x.k = k := hkk
      exact absurd (hkk' ▸ (hinv.inner j x hx).2) hnot
    · have hkk' : x'.k = k := hkk.symm
      exact absurd (hkk' ▸ (hinv.inner j' x' hx').2) hnot
    · omega
  · intro k' hk'
    rcases (hlive k').mp hk' with h | rfl
    · obtain ⟨j, x, hx, hxk⟩ := hinv.cover k' h
      exact ⟨j, x, getElem?_snoc_eq_some.mpr (Or.inl hx), hxk⟩
    · exact ⟨a.inners.length, ⟨k', 0, 0⟩, getElem?_snoc_eq_some.mpr (Or.inr ⟨rfl, rfl⟩), rfl⟩
  · intro q
    constructor
    · rintro ⟨j, x, hx, hxk, hg⟩
      simp only [getElem?_snoc_eq_some] at hx
      rcases hx with hx | ⟨_, rfl⟩
      · exact ⟨j, x, hx, hxk, hg⟩
      · simp only [Got] at hg; omega
    · rintro ⟨j, x, hx, hxk, hg⟩
      exact ⟨j, x, getElem?_snoc_eq_some.mpr (Or.inl hx), hxk, hg⟩

/-- inner iterator `i` hands out position `p` and becomes `it1` -/
theorem update_spec (AL VL : Nat) (a : ASys) (i : Nat) (it it1 : AInner) (p : Nat × Nat)
    (hinv : AInv AL VL a) (hi : a.inners[i]? = some it) (hk : it1.k = it.k) (hp1 : p.1 = it.k)
    (hp2 : p.2 < VL) (hle : it1.f + it1.b ≤ VL)
    (hnew : ∀ t, Got VL it1 t ↔ Got VL it t ∨ t = p.2) (hfresh : ¬ Got VL it p.2) :
    AInv AL VL ⟨a.F, a.B, a.inners.set i it1⟩ ∧
      (∀ q, Taken VL ⟨a.F, a.B, a.inners.set i it1⟩ q ↔ Taken VL a q ∨ q = p) ∧
      p.1 < AL ∧ ¬ Taken VL a p := by
  have hilt : i < a.inners.length := lt_of_getElem?_eq_some hi
  have hself : (a.inners.set i it1)[i]? = some it1 := getElem?_set_eq_some.mpr (Or.inl ⟨rfl, hilt, rfl⟩)
  refine ⟨⟨hinv.outer, ?_, ?_, ?_⟩, ?_, ?_, ?_⟩
  · intro j x hx
    simp only [getElem?_set_eq_some] at hx
    rcases hx with ⟨rfl, _, rfl⟩ | ⟨_, hx⟩
    · exact ⟨hle, hk ▸ (hinv.inner _ it hi).2⟩
    · exact hinv.inner j x hx
  · intro j j' x x' hx hx' hkk
    simp only [getElem?_set_eq_some] at hx hx'
    rcases hx with ⟨hj, _, rfl⟩ | ⟨hne, hx⟩ <;> rcases hx' with ⟨hj', _, rfl⟩ | ⟨hne', hx'⟩
    · omega
    · exact absurd (hinv.distinct i j' it x' hi hx' (by rw [← hk]; exact hkk)).symm hne'
    · exact absurd (hinv.distinct j i x it hx hi (by rw [← hk]; exact hkk)) hne
    · exact hinv.distinct j j' x x' hx hx' hkk
  · intro k' hk'
    obtain ⟨j, x, hx, hxk⟩ := hinv.cover k' hk'
    by_cases hj : j = i
    · subst hj
      rw [hi] at hx; cases hx
      exact ⟨j, it1, hself, by rw [hk, hxk]⟩
    · exact ⟨j, x, getElem?_set_eq_some.mpr (Or.inr ⟨hj, hx⟩), hxk⟩
  · intro q
    constructor
    · rintro ⟨j, x, hx, hxk, hg⟩
      simp only [getElem?_set_eq_some] at hx
      rcases hx with ⟨rfl, _, rfl⟩ | ⟨_, hx⟩
      · rcases (hnew q.2).mp hg with hg' | hq2
        · exact Or.inl ⟨j, it, hi, by rw [← hk]; exact hxk, hg'⟩
        · right
          obtain ⟨q1, q2⟩ := q
          obtain ⟨p1, p2⟩ := p
          simp only at hq2 hxk hp1 ⊢
          rw [hq2, ← hxk, hk, hp1]
      · exact Or.inl ⟨j, x, hx, hxk, hg⟩
    · rintro (⟨j, x, hx, hxk, hg⟩ | rfl)
      · by_cases hj : j = i
        · subst hj
          rw [hi] at hx; cases hx
          exact ⟨j, it1, hself, by rw [hk]; exact hxk, (hnew q.2).mpr (Or.inl hg)⟩
        · exact ⟨j, x, getElem?_set_eq_some.mpr (Or.inr ⟨hj, hx⟩), hxk, hg⟩
      · exact ⟨i, it1, hself, by rw [hk, hp1], (hnew _).mpr (Or.inr rfl)⟩
  · have := (hinv.inner i it hi).2
    simp only [Live] at this
    have := hinv.outer
    omega
  · rintro ⟨j, x, hx, hxk, hg⟩
    have hji := hinv.distinct j i x it hx hi (by rw [hxk, hp1])
    subst hji
    rw [hi] at hx; cases hx
    exact hfresh hg

theorem yielded_cons (o : AObs) (os : List AObs) : yielded (o :: os) = yielded [o] ++ yielded os := by
  cases o with
  | item pos => cases pos <;> simp [yielded]
  | _ => simp [yielded]

/-- one abstract call: the invariant is kept, and the positions handed out so far grow by exactly
the (fresh, in-range) position the call yields, if any -/
theorem astep_spec (AL VL : Nat) (a : ASys) (c : Call) (hinv : AInv AL VL a) :
    AInv AL VL (absStep AL VL a c).1 ∧
      (∀ q, Taken VL (absStep AL VL a c).1 q ↔ Taken VL a q ∨ q ∈ yielded [(absStep AL VL a c).2]) ∧
      (∀ p ∈ yielded [(absStep AL VL a c).2], p.1 < AL ∧ p.2 < VL ∧ ¬ Taken VL a p) := by
  have hout := hinv.outer
  cases c with
  | oNext =>
    by_cases hlt : a.F + a.B < AL
    · simp only [absStep, hlt, ↓reduceIte, yielded, List.not_mem_nil, or_false, false_imp_iff, implies_true, and_true]
      exact push_spec AL VL a (a.F + 1) a.B a.F hinv (by omega)
        (fun j => by simp only [Live]; omega) (by simp only [Live]; omega)
    · simp only [absStep, hlt, ↓reduceIte, yielded, List.not_mem_nil, or_false, false_imp_iff, implies_true, and_true]
      exact hinv
  | oNextBack =>
    by_cases hlt : a.F + a.B < AL
    · simp only [absStep, hlt, ↓reduceIte, yielded, List.not_mem_nil, or_false, false_imp_iff, implies_true, and_true]
      exact push_spec AL VL a a.F (a.B + 1) (AL - 1 - a.B) hinv (by omega)
        (fun j => by simp only [Live]; omega) (by simp only [Live]; omega)
    · simp only [absStep, hlt, ↓reduceIte, yielded, List.not_mem_nil, or_false, false_imp_iff, implies_true, and_true]
      exact hinv
  | oLen =>
    simp only [absStep, yielded, List.not_mem_nil, or_false, false_imp_iff, implies_true, and_true]
    exact hinv
  | iNext i =>
    cases hi : a.inners[i]? with
    | none =>
      simp only [absStep, hi, yielded, List.not_mem_nil, or_false, false_imp_iff, implies_true, and_true]
      exact hinv
    | some it =>
      by_cases hlt : it.f + it.b < VL
      · simp only [absStep, hi, hlt, ↓reduceIte, yielded, List.mem_singleton, forall_eq]
        obtain ⟨h1, h2, h3, h4⟩ := update_spec AL VL a i it { it with f := it.f + 1 } (it.k, it.f) hinv hi
          rfl rfl (by show it.f < VL; omega) (by show it.f + 1 + it.b ≤ VL; omega)
          (fun t => by simp only [Got]; omega) (by simp only [Got]; omega)
        exact ⟨h1, h2, h3, by show it.f < VL; omega, h4⟩
      · simp only [absStep, hi, hlt, ↓reduceIte, yielded, List.not_mem_nil, or_false, false_imp_iff, implies_true, and_true]
        exact hinv
  | iNextBack i =>
    cases hi : a.inners[i]? with
    | none =>
      simp only [absStep, hi, yielded, List.not_mem_nil, or_false, false_imp_iff, implies_true, and_true]
      exact hinv
    | some it =>
      by_cases hlt : it.f + it.b < VL
      · simp only [absStep, hi, hlt, ↓reduceIte, yielded, List.mem_singleton, forall_eq]
        obtain ⟨h1, h2, h3, h4⟩ := update_spec AL VL a i it { it with b := it.b + 1 } (it.k, VL - 1 - it.b) hinv hi
          rfl rfl (by show VL - 1 - it.b < VL; omega) (by show it.f + (it.b + 1) ≤ VL; omega)
          (fun t => by simp only [Got]; omega) (by simp only [Got]; omega)
        exact ⟨h1, h2, h3, by show VL - 1 - it.b < VL; omega, h4⟩
      · simp only [absStep, hi, hlt, ↓reduceIte, yielded, List.not_mem_nil, or_false, false_imp_iff, implies_true, and_true]
        exact hinv
  | iLen i =>
    cases hi : a.inners[i]? with
    | none =>
      simp only [absStep, hi, yielded, List.not_mem_nil, or_false, false_imp_iff, implies_true, and_true]
      exact hinv
    | some it =>
      simp only [absStep, hi, yielded, List.not_mem_nil, or_false, false_imp_iff, implies_true, and_true]
      exact hinv

/-- a whole abstract run from any state satisfying the invariant -/
theorem arun_spec (AL VL : Nat) (calls : List Call) :
    ∀ a : ASys, AInv AL VL a →
      AInv AL VL (absRun AL VL a calls).1 ∧
      (yielded (absRun AL VL a calls).2).Nodup ∧
      (∀ p ∈ yielded (absRun AL VL a calls).2, p.1 < AL ∧ p.2 < VL ∧ ¬ Taken VL a p) ∧
      (∀ q, Taken VL (absRun AL VL a calls).1 q ↔ Taken VL a q ∨ q ∈ yielded (absRun AL VL a calls).2) := by
  induction calls with
  | nil =>
    intro a hinv
    exact ⟨hinv, by simp [absRun, yielded], by simp [absRun, yielded], by simp [absRun, yielded]⟩
  | cons c cs ih =>
    intro a hinv
    obtain ⟨s1, s2, s3⟩ := astep_spec AL VL a c hinv
    obtain ⟨r1, r2, r3, r4⟩ := ih _ s1
    rw [absRun_cons]
    dsimp only
    rw [yielded_cons]
    have hnd1 : (yielded [(absStep AL VL a c).2]).Nodup := by
      cases (absStep AL VL a c).2 with
      | item pos => cases pos <;> simp [yielded]
      | _ => simp [yielded]
    refine ⟨r1, ?_, ?_, ?_⟩
    · rw [List.nodup_append]
      refine ⟨hnd1, r2, ?_⟩
      intro x hx y hy hxy
      subst hxy
      exact (r3 x hy).2.2 ((s2 x).mpr (Or.inr hx))
    · intro p hp
      rcases List.mem_append.mp hp with hp | hp
      · exact s3 p hp
      · obtain ⟨h1, h2, h3⟩ := r3 p hp
        exact ⟨h1, h2, fun ht => h3 ((s2 p).mpr (Or.inl ht))⟩
    · intro q
      rw [r4 q, s2 q, List.mem_append, or_assoc]

/-- all positions of an `AL × VL` grid -/
theorem grid_mem (AL VL : Nat) (p : Nat × Nat) :
    p ∈ ((List.range AL).flatMap fun k => (List.range VL).map fun t => (k, t)) ↔ p.1 < AL ∧ p.2 < VL := by
  obtain ⟨p1, p2⟩ := p
  simp only [List.mem_flatMap, List.mem_map, List.mem_range, Prod.mk.injEq]
  constructor
  · rintro ⟨k, hk, t, ht, rfl, rfl⟩; exact ⟨hk, ht⟩
  · rintro ⟨hk, ht⟩; exact ⟨p1, hk, p2, ht, rfl, rfl⟩

theorem grid_nodup (AL VL : Nat) :
    ((List.range AL).flatMap fun k => (List.range VL).map fun t => (k, t)).Nodup := by
  rw [List.nodup_iff_pairwise_ne, List.pairwise_flatMap]
  constructor
  · intro k _
    rw [List.pairwise_map]
    refine List.Pairwise.imp ?_ (List.nodup_iff_pairwise_ne.mp (List.nodup_range (n := VL)))
    intro t t' hne h
    exact hne (Prod.mk.inj h).2
  · refine List.Pairwise.imp ?_ (List.nodup_iff_pairwise_ne.mp (List.nodup_range (n := AL)))
    intro k k' hne x hx y hy h
    simp only [List.mem_map, List.mem_range] at hx hy
    obtain ⟨t, _, rfl⟩ := hx
    obtain ⟨t', _, rfl⟩ := hy
    exact hne (Prod.mk.inj h).1

/-! ### the theorems -/

/-- C03 refinement, every shape (element-less ones included), both orders, both axes, every
element size including zero, every finite call sequence with all inner iterators kept alive:
construction and every call succeed without fault, and the observations are exactly those of the
abstract deque-of-deques system, each yielded reference being the address of the element at the
logical position it stands for; `len()` is the number of items still to come. -/
theorem system_refines {α : Type} (cfg : Cfg) (m : Matrix α) (h : m.Coh) (hc : CfgOk cfg m)
    (rows : Bool) (calls : List Call) :
    ∃ it s obs, openIter cfg m rows = .ok it ∧
      runSys cfg ⟨it, []⟩ calls = .ok (s, obs) ∧
      obs = ((absRun (nVectors m rows) (vecLen m rows) ⟨0, 0, []⟩ calls).2).map (concretize cfg m rows) := by
  obtain ⟨it, AS, VS, hopen, hoff, hrv⟩ := open_ok cfg m h hc rows
  have hG : vecLen m rows ≠ 0 → nVectors m rows ≠ 0 →
      MValid cfg (lower0 cfg) AS (nVectors m rows) VS (vecLen m rows) := by
    intro h1 h2
    rcases hrv with ⟨_, _, _, _, _, hv⟩ | ⟨_, _, _, hvl⟩
    · exact hv
    · exact absurd (hvl (by omega)) h1
  obtain ⟨s, obs, e1, e2⟩ := run_refines cfg m rows AS _ VS _ hoff hG calls ⟨it, []⟩ ⟨0, 0, []⟩
    ⟨hrv, Rel2.nil _⟩
  exact ⟨it, s, obs, hopen, e1, e2⟩

/-- in the abstract system no position is ever handed out twice, whatever the call sequence:
each element is handed out as `&mut` at most once -/
theorem yielded_nodup (AL VL : Nat) (calls : List Call) :
    (yielded (absRun AL VL ⟨0, 0, []⟩ calls).2).Nodup := by
  exact (arun_spec AL VL calls _ (AInv.init AL VL)).2.1

/-- every position handed out is a position of the matrix -/
theorem yielded_in_range (AL VL : Nat) (calls : List Call) :
    ∀ p ∈ yielded (absRun AL VL ⟨0, 0, []⟩ calls).2, p.1 < AL ∧ p.2 < VL := by
  intro p hp
  obtain ⟨h1, h2, _⟩ := (arun_spec AL VL calls _ (AInv.init AL VL)).2.2.1 p hp
  exact ⟨h1, h2⟩

/-- when everything is exhausted (the outer iterator and every inner iterator it produced return
`None`), every position has been handed out exactly once -/
theorem exhausted_exactly_once (AL VL : Nat) (calls : List Call)
    (hout : (absRun AL VL ⟨0, 0, []⟩ calls).1.F + (absRun AL VL ⟨0, 0, []⟩ calls).1.B = AL)
    (hin : ∀ it ∈ (absRun AL VL ⟨0, 0, []⟩ calls).1.inners, it.f + it.b = VL) :
    (yielded (absRun AL VL ⟨0, 0, []⟩ calls).2).Perm
      ((List.range AL).flatMap fun k => (List.range VL).map fun t => (k, t)) := by
  obtain ⟨r1, r2, r3, r4⟩ := arun_spec AL VL calls _ (AInv.init AL VL)
  rw [List.perm_ext_iff_of_nodup r2 (grid_nodup AL VL)]
  intro p
  rw [grid_mem]
  constructor
  · intro hp
    obtain ⟨h1, h2, _⟩ := r3 p hp
    exact ⟨h1, h2⟩
  · rintro ⟨h1, h2⟩
    obtain ⟨i, it, hit, hk⟩ := r1.cover p.1 (by simp only [Live]; omega)
    have hfb := hin it (List.mem_of_getElem? hit)
    have ht : Taken VL (absRun AL VL ⟨0, 0, []⟩ calls).1 p :=
      ⟨i, it, hit, hk, by simp only [Got]; omega⟩
    rcases (r4 p).mp ht with h | h
    · exact absurd h (Taken.init VL p)
    · exact h

set_option linter.unusedVariables false in
/-- for sized element types distinct positions have distinct addresses (no two `&mut` alias), and
every address is that of an element inside the buffer, aligned to the element size from `base` -/
theorem addr_injective {α : Type} (cfg : Cfg) (m : Matrix α) (h : m.Coh) (hc : CfgOk cfg m)
    (hes : cfg.es ≠ 0) (rows : Bool) (p q : Nat × Nat)
    (hp : p.1 < nVectors m rows ∧ p.2 < vecLen m rows) (hq : q.1 < nVectors m rows ∧ q.2 < vecLen m rows)
    (he : addrOf cfg m rows p = addrOf cfg m rows q) : p = q := by
  obtain ⟨p1, p2⟩ := p
  obtain ⟨q1, q2⟩ := q
  simp only [addrOf, hes, ↓reduceIte] at he
  have hpos : 0 < cfg.es := Nat.pos_of_ne_zero hes
  have hoff : elemOffset m rows p1 p2 = elemOffset m rows q1 q2 :=
    Nat.eq_of_mul_eq_mul_right hpos (by omega)
  cases rows
  · simp only [elemOffset, nVectors, vecLen, Bool.false_eq_true, ↓reduceIte] at *
    obtain ⟨e1, e2⟩ := m.idx_inj hp.2 hp.1 hq.2 hq.1 hoff
    rw [e1, e2]
  · simp only [elemOffset, nVectors, vecLen, ↓reduceIte] at *
    obtain ⟨e1, e2⟩ := m.idx_inj hp.1 hp.2 hq.1 hq.2 hoff
    rw [e1, e2]

theorem addr_in_buffer {α : Type} (cfg : Cfg) (m : Matrix α) (h : m.Coh) (hc : CfgOk cfg m)
    (hes : cfg.es ≠ 0) (rows : Bool) (p : Nat × Nat)
    (hp : p.1 < nVectors m rows ∧ p.2 < vecLen m rows) :
    cfg.base ≤ addrOf cfg m rows p ∧ addrOf cfg m rows p + cfg.es ≤ cfg.base + cfg.len * cfg.es := by
  obtain ⟨p1, p2⟩ := p
  have hlt : elemOffset m rows p1 p2 < cfg.len := by
    rw [hc.len_eq]
    cases rows
    · simp only [elemOffset, nVectors, vecLen, Bool.false_eq_true, ↓reduceIte] at *
      exact m.idx_lt h hp.2 hp.1
    · simp only [elemOffset, nVectors, vecLen, ↓reduceIte] at *
      exact m.idx_lt h hp.1 hp.2
  simp only [addrOf, hes, ↓reduceIte]
  have : (elemOffset m rows p1 p2 + 1) * cfg.es ≤ cfg.len * cfg.es := Nat.mul_le_mul_right _ hlt
  rw [Nat.add_mul, Nat.one_mul] at this
  omega

/-! ### the state machines of this file ARE the source's methods (translator T4) -/

/-- The stepping and length functions of both iterators, regenerated from `src/iter/iter_mut.rs` on
every run (`Gen/IterMutGen.lean`: every pointer operation, comparison, field update and arithmetic
operator comes from the Rust text), are equal — results, final states and faults — to the model
functions the theorems above are about, on every state the refinement invariants `R` / `RV`
describe (for zero-sized element types the source re-checks `NonNull::new_unchecked` on a forward
step, which the invariant discharges); `next_back` and the length functions of the inner iterator
need no hypothesis at all. -/
theorem iterators_are_the_source (cfg : Cfg) :
    (∀ (lower0 stride length : Nat) (it : Nth) (f b : Nat), Valid cfg lower0 stride length →
        R cfg lower0 stride length it f b → Gen.IterMut.Nth.next cfg it = Nth.next cfg it) ∧
    (∀ it : Nth, Gen.IterMut.Nth.nextBack cfg it = Nth.nextBack cfg it) ∧
    (∀ it : Nth, Gen.IterMut.Nth.len cfg it = Nth.len cfg it) ∧
    (∀ (lower0 AS AL VS VL : Nat) (it : Vecs) (F B : Nat), RV cfg lower0 AS AL VS VL it F B →
        Gen.IterMut.Vecs.next cfg it = Vecs.next cfg it ∧
        Gen.IterMut.Vecs.nextBack cfg it = Vecs.nextBack cfg it) ∧
    (∀ it : Vecs, Gen.IterMut.Vecs.len cfg it = Vecs.len cfg it) :=
  ⟨fun lower0 stride length it f b hv hr => BridgeIterMut.nth_next_bridge_R cfg lower0 stride length it f b hv hr,
   fun it => BridgeIterMut.nth_nextBack_bridge cfg it,
   fun it => BridgeIterMut.nth_len_bridge cfg it,
   fun lower0 AS AL VS VL it F B hr =>
     ⟨BridgeIterMut.vecs_next_bridge_RV cfg lower0 AS AL VS VL it F B hr,
      BridgeIterMut.vecs_nextBack_bridge_RV cfg lower0 AS AL VS VL it F B hr⟩,
   fun it => BridgeIterMut.vecs_len_bridge cfg it⟩

/-- ... and so are the constructors: `over_major_axis` / `over_minor_axis` (whenever the buffer
pointer of a non-empty matrix is not null, which `Vec` guarantees) and `assemble` of the inner
iterator on every valid vector -/
theorem constructors_are_the_source (cfg : Cfg) (sh : AxisShape) (hb : cfg.len ≠ 0 → cfg.base ≠ 0) :
    Gen.IterMut.Vecs.overMajor cfg sh = Vecs.overMajor cfg sh ∧
    Gen.IterMut.Vecs.overMinor cfg sh = Vecs.overMinor cfg sh ∧
    (∀ lower0 stride length, Valid cfg lower0 stride length →
      Gen.IterMut.Nth.assemble cfg lower0 stride length = Nth.assemble cfg lower0 stride length) :=
  ⟨BridgeIterMut.vecs_overMajor_bridge cfg sh hb, BridgeIterMut.vecs_overMinor_bridge cfg sh hb,
   fun lower0 stride length hv => BridgeIterMut.nth_assemble_bridge_valid cfg lower0 stride length hv⟩

/-! ### non-vacuity: a 2×3 column-major matrix of 4-byte elements at address 4096 -/

def ex23 : Matrix Nat := ⟨.colMajor, ⟨3, 2⟩, #[1, 4, 2, 5, 3, 6]⟩
def cfg4 : Cfg := ⟨4096, 4, 6, 4⟩
example : ex23.Coh ∧ CfgOk cfg4 ex23 :=
  ⟨⟨rfl⟩, ⟨rfl, by simp [cfg4, usizeMax], by simp [cfg4, usizeMax], by simp [cfg4], by simp [cfg4]⟩⟩
/-- rows of a column-major matrix (strided axis): take row 1 from the back, then its items -/
example : ((openIter cfg4 ex23 true).bind fun it =>
    runSys cfg4 ⟨it, []⟩ [.oLen, .oNextBack, .iLen 0, .iNext 0, .iNextBack 0, .iNext 0, .iNext 0, .oNext, .oNext]).map (·.2) =
    .ok [.len 2, .vec true, .len 3, .item (some 4100), .item (some 4116), .item (some 4108), .item none,
         .vec true, .vec false] := by rfl
/-- zero-sized elements, 1 × (2^64 - 1): the columns, from both ends (counters based at 1) -/
def zcfg : Cfg := ⟨8, 0, 2 ^ 64 - 1, 8⟩
example : ((Vecs.colsMut zcfg .rowMajor ⟨1, 2 ^ 64 - 1⟩).bind fun it =>
    runSys zcfg ⟨it, []⟩ [.oLen, .oNextBack, .oNext, .iNext 0, .iNext 1, .iNext 1, .oLen]).map (·.2) =
    .ok [.len (2 ^ 64 - 1), .vec true, .vec true, .item (some 8), .item (some 8), .item none, .len (2 ^ 64 - 3)] := by
  rfl

end Matreex.C03
