/-
C03 — mutable row/column iterators hand out every element exactly once, in bounds.

The concrete system (`sysStep`) drives the address-level machines of `Model/IterMut.lean`: one
outer iterator and all inner iterators it has produced so far (all kept alive), under any finite
sequence of `next` / `next_back` / `len` calls on any of them.  The abstract system (`absStep`) is
a deque of vector numbers whose items are deques of positions.  The refinement theorem says the
concrete system never faults (no UB: no pointer outside the buffer is formed, no reference to
anything but a live aligned element; no arithmetic panic) and observes exactly what the abstract
system prescribes, with the address of logical position `(row, col)` for every yielded item.
-/
import Matreex.Model.IterMut
import Matreex.Lemmas.Matrix

namespace Matreex.C03
open Matreex Matreex.IterMut

/-! ### the concrete system -/

structure Sys where
  outer : Vecs
  inners : List Nth
  deriving Repr

inductive Call where
  | oNext | oNextBack | oLen
  | iNext (i : Nat) | iNextBack (i : Nat) | iLen (i : Nat)
  deriving Repr, DecidableEq

/-- what a call lets the caller observe -/
inductive Obs where
  | vec (present : Bool)        -- outer next / next_back: a new inner iterator, or `None`
  | item (addr : Option Nat)    -- inner next / next_back: address of the `&mut T`, or `None`
  | len (n : Nat)
  | noSuchIterator
  deriving Repr, DecidableEq

def sysStep (cfg : Cfg) (s : Sys) : Call → M (Sys × Obs)
  | .oNext => do
    let (r, o') ← s.outer.next cfg
    match r with
    | some v => pure ({ outer := o', inners := s.inners ++ [v] }, .vec true)
    | none => pure ({ s with outer := o' }, .vec false)
  | .oNextBack => do
    let (r, o') ← s.outer.nextBack cfg
    match r with
    | some v => pure ({ outer := o', inners := s.inners ++ [v] }, .vec true)
    | none => pure ({ s with outer := o' }, .vec false)
  | .oLen => do
    let n ← s.outer.len cfg
    pure (s, .len n)
  | .iNext i =>
    match s.inners[i]? with
    | none => pure (s, .noSuchIterator)
    | some it => do
      let (a, it') ← it.next cfg
      pure ({ s with inners := s.inners.set i it' }, .item a)
  | .iNextBack i =>
    match s.inners[i]? with
    | none => pure (s, .noSuchIterator)
    | some it => do
      let (a, it') ← it.nextBack cfg
      pure ({ s with inners := s.inners.set i it' }, .item a)
  | .iLen i =>
    match s.inners[i]? with
    | none => pure (s, .noSuchIterator)
    | some it => do
      let n ← it.len cfg
      pure (s, .len n)

def runSys (cfg : Cfg) : Sys → List Call → M (Sys × List Obs)
  | s, [] => .ok (s, [])
  | s, c :: cs => do
    let (s', o) ← sysStep cfg s c
    let (s'', os) ← runSys cfg s' cs
    pure (s'', o :: os)

/-! ### the abstract system: a deque of vectors, each a deque of positions -/

/-- an inner iterator over vector number `k` with `f` items taken from the front, `b` from the back -/
structure AInner where
  k : Nat
  f : Nat
  b : Nat
  deriving Repr, DecidableEq

/-- outer: `F` vectors taken from the front, `B` from the back -/
structure ASys where
  F : Nat
  B : Nat
  inners : List AInner
  deriving Repr, DecidableEq

/-- abstract observation: a position is `(vector number, position in the vector)` -/
inductive AObs where
  | vec (present : Bool)
  | item (pos : Option (Nat × Nat))
  | len (n : Nat)
  | noSuchIterator
  deriving Repr, DecidableEq

/-- `AL` vectors of `VL` elements each -/
def absStep (AL VL : Nat) (a : ASys) : Call → ASys × AObs
  | .oNext =>
    if a.F + a.B < AL then ({ a with F := a.F + 1, inners := a.inners ++ [⟨a.F, 0, 0⟩] }, .vec true)
    else (a, .vec false)
  | .oNextBack =>
    if a.F + a.B < AL then ({ a with B := a.B + 1, inners := a.inners ++ [⟨AL - 1 - a.B, 0, 0⟩] }, .vec true)
    else (a, .vec false)
  | .oLen => (a, .len (AL - a.F - a.B))
  | .iNext i =>
    match a.inners[i]? with
    | none => (a, .noSuchIterator)
    | some it =>
      if it.f + it.b < VL then ({ a with inners := a.inners.set i { it with f := it.f + 1 } }, .item (some (it.k, it.f)))
      else (a, .item none)
  | .iNextBack i =>
    match a.inners[i]? with
    | none => (a, .noSuchIterator)
    | some it =>
      if it.f + it.b < VL then ({ a with inners := a.inners.set i { it with b := it.b + 1 } }, .item (some (it.k, VL - 1 - it.b)))
      else (a, .item none)
  | .iLen i =>
    match a.inners[i]? with
    | none => (a, .noSuchIterator)
    | some it => (a, .len (VL - it.f - it.b))

def absRun (AL VL : Nat) : ASys → List Call → ASys × List AObs
  | a, [] => (a, [])
  | a, c :: cs =>
    let (a', o) := absStep AL VL a c
    let (a'', os) := absRun AL VL a' cs
    (a'', o :: os)

/-- the positions handed out during a run, in order -/
def yielded : List AObs → List (Nat × Nat)
  | [] => []
  | .item (some p) :: os => p :: yielded os
  | _ :: os => yielded os

/-! ### geometry: which element a position stands for -/

/-- number of vectors / length of each vector when iterating rows (`rows = true`) or columns -/
def nVectors {α : Type} (m : Matrix α) (rows : Bool) : Nat := if rows then m.nrows else m.ncols
def vecLen {α : Type} (m : Matrix α) (rows : Bool) : Nat := if rows then m.ncols else m.nrows

/-- flat offset of the `t`-th element of the `k`-th row (resp. column): logical `(k, t)` resp. `(t, k)` -/
def elemOffset {α : Type} (m : Matrix α) (rows : Bool) (k t : Nat) : Nat :=
  if rows then m.idx k t else m.idx t k

/-- the address a yielded `&mut T` must have: the element's address for sized types; the dangling
(aligned, non-null) address for zero-sized types -/
def addrOf {α : Type} (cfg : Cfg) (m : Matrix α) (rows : Bool) (p : Nat × Nat) : Nat :=
  if cfg.es = 0 then cfg.dangling else cfg.base + elemOffset m rows p.1 p.2 * cfg.es

def concretize {α : Type} (cfg : Cfg) (m : Matrix α) (rows : Bool) : AObs → Obs
  | .vec b => .vec b
  | .item none => .item none
  | .item (some p) => .item (some (addrOf cfg m rows p))
  | .len n => .len n
  | .noSuchIterator => .noSuchIterator

/-- the buffer described by `cfg` is the element vector of `m`, and it fits the address space
(`Vec` guarantees `len·es ≤ isize::MAX` and `base + len·es` does not wrap) -/
structure CfgOk {α : Type} (cfg : Cfg) (m : Matrix α) : Prop where
  len_eq : cfg.len = m.data.size
  fits : cfg.base + cfg.len * cfg.es ≤ usizeMax
  len_fits : cfg.len ≤ usizeMax
  base_pos : 0 < cfg.base
  dangling_pos : 0 < cfg.dangling

/-- the outer iterator as `iter_rows_mut()` / `iter_cols_mut()` construct it -/
def openIter {α : Type} (cfg : Cfg) (m : Matrix α) (rows : Bool) : M Vecs :=
  if rows then Vecs.rowsMut cfg m.order m.shape else Vecs.colsMut cfg m.order m.shape

/-! ### the theorems -/

/-- C03 refinement, every shape (element-less ones included), both orders, both axes, every
element size including zero, every finite call sequence with all inner iterators kept alive:
construction and every call succeed without fault, and the observations are exactly those of the
abstract deque-of-deques system, each yielded reference being the address of the element at the
logical position it stands for; `len()` is the number of items still to come. -/
theorem system_refines {α : Type} (cfg : Cfg) (m : Matrix α) (h : m.Coh) (hc : CfgOk cfg m)
    (rows : Bool) (calls : List Call) :
    ∃ it s obs, openIter cfg m rows = .ok it ∧
      runSys cfg ⟨it, []⟩ calls = .ok (s, obs) ∧
      obs = ((absRun (nVectors m rows) (vecLen m rows) ⟨0, 0, []⟩ calls).2).map (concretize cfg m rows) := by
  sorry

/-- in the abstract system no position is ever handed out twice, whatever the call sequence:
each element is handed out as `&mut` at most once -/
theorem yielded_nodup (AL VL : Nat) (calls : List Call) :
    (yielded (absRun AL VL ⟨0, 0, []⟩ calls).2).Nodup := by
  sorry

/-- every position handed out is a position of the matrix -/
theorem yielded_in_range (AL VL : Nat) (calls : List Call) :
    ∀ p ∈ yielded (absRun AL VL ⟨0, 0, []⟩ calls).2, p.1 < AL ∧ p.2 < VL := by
  sorry

/-- when everything is exhausted (the outer iterator and every inner iterator it produced return
`None`), every position has been handed out exactly once -/
theorem exhausted_exactly_once (AL VL : Nat) (calls : List Call)
    (hout : (absRun AL VL ⟨0, 0, []⟩ calls).1.F + (absRun AL VL ⟨0, 0, []⟩ calls).1.B = AL)
    (hin : ∀ it ∈ (absRun AL VL ⟨0, 0, []⟩ calls).1.inners, it.f + it.b = VL) :
    (yielded (absRun AL VL ⟨0, 0, []⟩ calls).2).Perm
      ((List.range AL).flatMap fun k => (List.range VL).map fun t => (k, t)) := by
  sorry

/-- for sized element types distinct positions have distinct addresses (no two `&mut` alias), and
every address is that of an element inside the buffer, aligned to the element size from `base` -/
theorem addr_injective {α : Type} (cfg : Cfg) (m : Matrix α) (h : m.Coh) (hc : CfgOk cfg m)
    (hes : cfg.es ≠ 0) (rows : Bool) (p q : Nat × Nat)
    (hp : p.1 < nVectors m rows ∧ p.2 < vecLen m rows) (hq : q.1 < nVectors m rows ∧ q.2 < vecLen m rows)
    (he : addrOf cfg m rows p = addrOf cfg m rows q) : p = q := by
  sorry

theorem addr_in_buffer {α : Type} (cfg : Cfg) (m : Matrix α) (h : m.Coh) (hc : CfgOk cfg m)
    (hes : cfg.es ≠ 0) (rows : Bool) (p : Nat × Nat)
    (hp : p.1 < nVectors m rows ∧ p.2 < vecLen m rows) :
    cfg.base ≤ addrOf cfg m rows p ∧ addrOf cfg m rows p + cfg.es ≤ cfg.base + cfg.len * cfg.es := by
  sorry

/-! ### non-vacuity: a 2×3 column-major matrix of 4-byte elements at address 4096 -/

def ex23 : Matrix Nat := ⟨.colMajor, ⟨3, 2⟩, #[1, 4, 2, 5, 3, 6]⟩
def cfg4 : Cfg := ⟨4096, 4, 6, 4⟩
example : ex23.Coh ∧ CfgOk cfg4 ex23 :=
  ⟨⟨rfl⟩, ⟨rfl, by simp [cfg4, usizeMax], by simp [cfg4, usizeMax], by simp [cfg4], by simp [cfg4]⟩⟩
/-- rows of a column-major matrix (strided axis): take row 1 from the back, then its items -/
example : ((openIter cfg4 ex23 true).bind fun it =>
    runSys cfg4 ⟨it, []⟩ [.oLen, .oNextBack, .iLen 0, .iNext 0, .iNextBack 0, .iNext 0, .iNext 0, .oNext, .oNext]).map (·.2) =
    .ok [.len 2, .vec true, .len 3, .item (some 4100), .item (some 4116), .item (some 4108), .item none,
         .vec true, .vec false] := by rfl
/-- zero-sized elements, 1 × (2^64 - 1): the columns, from both ends (counters based at 1) -/
def zcfg : Cfg := ⟨8, 0, 2 ^ 64 - 1, 8⟩
example : ((Vecs.colsMut zcfg .rowMajor ⟨1, 2 ^ 64 - 1⟩).bind fun it =>
    runSys zcfg ⟨it, []⟩ [.oLen, .oNextBack, .oNext, .iNext 0, .iNext 1, .iNext 1, .oLen]).map (·.2) =
    .ok [.len (2 ^ 64 - 1), .vec true, .vec true, .item (some 8), .item (some 8), .item none, .len (2 ^ 64 - 3)] := by
  rfl

end Matreex.C03
