/-
Algebraic laws of the API, proved on the logical reference model `Spec` (`Props/C01Refine.lean`)
and carried to the concrete machine by the refinement theorem: since for every history the
logical view of the concrete world EQUALS the reference world (`C01.run_refines`), two histories
with equal reference worlds end in concrete worlds with equal logical views
(`histories_equal_of_spec_equal`).  The laws are the ones the properties quote informally:
transposing twice restores the matrix (C05), a swap is its own inverse and equal indices are a
no-op (C10), reshape to the current shape and an order round trip change nothing (C05, C09),
overwrite is idempotent (C14), failed calls are no-ops (C09).
-/
import Matreex.Props.C01Refine

namespace Matreex.Laws
open Matreex Matreex.History Matreex.Spec
variable {α : Type}

/-- a logical matrix in normal form: nothing outside the shape -/
def LMat.WF (l : LMat α) : Prop := ∀ r c, ¬ (r < l.nrows ∧ c < l.ncols) → l.el r c = none

theorem abs_wf (m : Matrix α) : LMat.WF (abs m) := by
  intro r c h
  exact C01.at?_oob m h

/-! ### laws of single logical matrices -/

theorem transpose_transpose (l : LMat α) : Spec.transpose (Spec.transpose l) = l := by
  cases l; rfl

theorem switchOrder_switchOrder (l : LMat α) : Spec.switchOrder (Spec.switchOrder l) = l := by
  obtain ⟨o, nr, nc, f⟩ := l
  cases o <;> rfl

/-- `switch_order_without_rearrangement` twice is the identity; once, it is `transpose` followed
by `switch_order` -/
theorem switchOrderWR_switchOrderWR (l : LMat α) : Spec.switchOrderWR (Spec.switchOrderWR l) = l := by
  obtain ⟨o, nr, nc, f⟩ := l
  cases o <;> rfl

theorem switchOrderWR_eq (l : LMat α) : Spec.switchOrderWR l = Spec.switchOrder (Spec.transpose l) := by
  cases l; rfl

theorem sw_sw (a b x : Nat) : C10.sw a b (C10.sw a b x) = x := by
  unfold C10.sw
  split <;> split <;> (try split) <;> (try split) <;> omega

theorem sw_self (a x : Nat) : C10.sw a a x = x := by
  unfold C10.sw
  split <;> (try split) <;> omega

/-- a row swap is its own inverse -/
theorem swapRows_swapRows (l : LMat α) (a b : Nat) (l' : LMat α) (h : Spec.swapRows l a b = some l') :
    Spec.swapRows l' a b = some l := by
  unfold Spec.swapRows at h ⊢
  by_cases hc : a < l.nrows ∧ b < l.nrows
  · rw [if_pos hc] at h
    cases h
    rw [if_pos hc]
    congr 1
    refine C01.LMat.ext' (by rfl) (by rfl) (by rfl) ?_
    intro i j
    simp only [sw_sw]
  · rw [if_neg hc] at h
    cases h

theorem swapCols_swapCols (l : LMat α) (a b : Nat) (l' : LMat α) (h : Spec.swapCols l a b = some l') :
    Spec.swapCols l' a b = some l := by
  unfold Spec.swapCols at h ⊢
  by_cases hc : a < l.ncols ∧ b < l.ncols
  · rw [if_pos hc] at h
    cases h
    rw [if_pos hc]
    congr 1
    refine C01.LMat.ext' (by rfl) (by rfl) (by rfl) ?_
    intro i j
    simp only [sw_sw]
  · rw [if_neg hc] at h
    cases h

/-- swapping a row with itself changes nothing (valid index) -/
theorem swapRows_self (l : LMat α) (a : Nat) (h : a < l.nrows) : Spec.swapRows l a a = some l := by
  unfold Spec.swapRows
  rw [if_pos ⟨h, h⟩]
  congr 1
  refine C01.LMat.ext' (by rfl) (by rfl) (by rfl) ?_
  intro i j
  simp only [sw_self]

theorem swapElems_self (l : LMat α) (i j : Nat) (h : i < l.nrows ∧ j < l.ncols) :
    Spec.swapElems l i j i j = some l := by
  unfold Spec.swapElems
  rw [if_pos ⟨h.1, h.2, h.1, h.2⟩]
  congr 1
  refine C01.LMat.ext' (by rfl) (by rfl) (by rfl) ?_
  intro r c
  simp only
  by_cases hc : r = i ∧ c = j
  · rw [if_pos hc, hc.1, hc.2]
  · rw [if_neg hc, if_neg hc]

/-- swapping rows commutes with transposition: rows of the transpose are the columns -/
theorem swapRows_transpose (l : LMat α) (a b : Nat) :
    (Spec.swapRows (Spec.transpose l) a b) = (Spec.swapCols l a b).map Spec.transpose := by
  unfold Spec.swapRows Spec.swapCols
  by_cases hc : a < l.ncols ∧ b < l.ncols
  · have hc' : a < (Spec.transpose l).nrows ∧ b < (Spec.transpose l).nrows := hc
    rw [if_pos hc, if_pos hc']
    rfl
  · have hc' : ¬ (a < (Spec.transpose l).nrows ∧ b < (Spec.transpose l).nrows) := hc
    rw [if_neg hc, if_neg hc']
    rfl

theorem flatMap_range_getElem? {β : Type} (m : Nat) (f : Nat → Nat → β) (n i j : Nat)
    (hi : i < n) (hj : j < m) :
    ((List.range n).flatMap fun i => (List.range m).map fun j => f i j)[i * m + j]? = some (f i j) := by
  have hm : 0 < m := by omega
  have hdiv : ∀ r c, c < m → (r * m + c) / m = r := by
    intro r c hc
    rw [Nat.add_comm, Nat.add_mul_div_right _ _ hm, Nat.div_eq_of_lt hc, Nat.zero_add]
  have hmod : ∀ r c, c < m → (r * m + c) % m = c := by
    intro r c hc
    rw [Nat.add_comm, Nat.add_mul_mod_self_right, Nat.mod_eq_of_lt hc]
  have hlt : i * m + j < n * m := by
    calc i * m + j < i * m + m := by omega
      _ = (i + 1) * m := by rw [Nat.succ_mul]
      _ ≤ n * m := Nat.mul_le_mul_right m hi
  have := C01.flatMap_range_eq m (fun i j => f i j) (fun k => f (k / m) (k % m)) n
    (fun r c _ hc => by simp only [hdiv r c hc, hmod r c hc])
  rw [this, List.getElem?_map, List.getElem?_range hlt, Option.map_some, hdiv i j hj, hmod i j hj]

/-- reshape to the current shape is the identity (on matrices in normal form) -/
theorem reshape_same (l : LMat α) (h : LMat.WF l) : Spec.reshape l l.nrows l.ncols = some l := by
  obtain ⟨o, nr, nc, f⟩ := l
  unfold Spec.reshape
  rw [if_pos (show nr * nc = (LMat.mk o nr nc f).size from rfl)]
  congr 1
  refine C01.LMat.ext' (by rfl) (by rfl) (by rfl) ?_
  intro i j
  simp only [ofMem]
  by_cases hb : i < nr ∧ j < nc
  · rw [if_pos hb]
    cases o
    · simp only [LMat.mem]
      rw [flatMap_range_getElem? nc (fun r c => f r c) nr i j hb.1 hb.2]
      rfl
    · simp only [LMat.mem]
      rw [flatMap_range_getElem? nr (fun c r => f r c) nc j i hb.2 hb.1]
      rfl
  · rw [if_neg hb]
    exact (h i j hb).symm

/-- overwriting twice with the same source is overwriting once -/
theorem overwrite_idempotent (dst src : LMat α) (clone : α → α) :
    Spec.overwrite (Spec.overwrite dst src clone) src clone = Spec.overwrite dst src clone := by
  unfold Spec.overwrite
  refine C01.LMat.ext' (by rfl) (by rfl) (by rfl) ?_
  intro r c
  simp only
  by_cases hc : r < min dst.nrows src.nrows ∧ c < min dst.ncols src.ncols
  · rw [if_pos hc, if_pos hc]
  · rw [if_neg hc, if_neg hc]

/-- an elementwise operation with a commutative closure is commutative up to the result's order tag -/
theorem elementwise_comm (es : Nat) (a b : LMat α) (op : α → α → α) (hop : ∀ x y, op x y = op y x) :
    (Spec.elementwise es a b op).map (fun l => (l.nrows, l.ncols, l.el)) =
    (Spec.elementwise es b a op).map (fun l => (l.nrows, l.ncols, l.el)) := by
  have hcomb : ∀ x y : Option α, C12.comb op x y = C12.comb op y x := by
    intro x y
    cases x <;> cases y <;> first | rfl | exact congrArg some (hop _ _)
  unfold Spec.elementwise
  by_cases h : a.nrows = b.nrows ∧ a.ncols = b.ncols ∧ es * a.size ≤ isizeMax
  · have h' : b.nrows = a.nrows ∧ b.ncols = a.ncols ∧ es * b.size ≤ isizeMax := by
      refine ⟨h.1.symm, h.2.1.symm, ?_⟩
      have := h.2.2
      simp only [LMat.size] at this ⊢
      rw [← h.1, ← h.2.1]; exact this
    rw [if_pos h, if_pos h']
    simp only [Option.map_some, Option.some.injEq, Prod.mk.injEq]
    refine ⟨h.1, h.2.1, ?_⟩
    funext r c
    exact hcomb _ _
  · have h' : ¬ (b.nrows = a.nrows ∧ b.ncols = a.ncols ∧ es * b.size ≤ isizeMax) := by
      intro h'
      apply h
      refine ⟨h'.1.symm, h'.2.1.symm, ?_⟩
      have := h'.2.2
      simp only [LMat.size] at this ⊢
      rw [← h'.1, ← h'.2.1]; exact this
    rw [if_neg h, if_neg h']

/-- the product of transposes is the transpose of the product with the factors exchanged, for a
commutative multiplication and any addition: `(bᵀ aᵀ)[i][j] = (a b)[j][i]` -/
theorem multiply_transpose (es : Nat) (a b : LMat α) (mul add : α → α → α) (dflt : α)
    (hm : ∀ x y, mul x y = mul y x) (ha : LMat.WF a) (hb : LMat.WF b) :
    (Spec.multiply es (Spec.transpose b) (Spec.transpose a) mul add dflt).map
        (fun l => (l.nrows, l.ncols, l.el)) =
    (Spec.multiply es a b mul add dflt).map
        (fun l => ((Spec.transpose l).nrows, (Spec.transpose l).ncols, (Spec.transpose l).el)) := by
  have he : ∀ K i j, C11.entry mul add (fun r c => b.el c r) (fun r c => a.el c r) K i j =
      C11.entry mul add a.el b.el K j i := by
    intro K i j
    unfold C11.entry
    congr 2
    funext k
    show ((b.el k i).bind fun x => (a.el j k).map fun y => mul x y) =
      (a.el j k).bind fun x => (b.el k i).map fun y => mul x y
    cases a.el j k <;> cases b.el k i <;> first | rfl | exact congrArg some (hm _ _)
  unfold Spec.multiply
  by_cases h : a.ncols = b.nrows ∧ a.nrows * b.ncols ≤ usizeMax ∧ es * (a.nrows * b.ncols) ≤ isizeMax
  · have h' : (Spec.transpose b).ncols = (Spec.transpose a).nrows ∧
        (Spec.transpose b).nrows * (Spec.transpose a).ncols ≤ usizeMax ∧
        es * ((Spec.transpose b).nrows * (Spec.transpose a).ncols) ≤ isizeMax := by
      show b.nrows = a.ncols ∧ b.ncols * a.nrows ≤ usizeMax ∧ es * (b.ncols * a.nrows) ≤ isizeMax
      rw [Nat.mul_comm b.ncols]
      exact ⟨h.1.symm, h.2⟩
    rw [if_pos h, if_pos h']
    simp only [Option.map_some, Option.some.injEq, Prod.mk.injEq]
    refine ⟨rfl, rfl, ?_⟩
    funext r c
    show (if r < b.ncols ∧ c < a.nrows then
        (if b.nrows = 0 then some dflt else
          C11.entry mul add (fun r c => b.el c r) (fun r c => a.el c r) b.nrows r c) else none) =
      (if c < a.nrows ∧ r < b.ncols then
        (if a.ncols = 0 then some dflt else C11.entry mul add a.el b.el a.ncols c r) else none)
    rw [he, h.1]
    by_cases hb : r < b.ncols ∧ c < a.nrows
    · rw [if_pos hb, if_pos (show c < a.nrows ∧ r < b.ncols from ⟨hb.2, hb.1⟩)]
    · rw [if_neg hb, if_neg (show ¬ (c < a.nrows ∧ r < b.ncols) from fun hx => hb ⟨hx.2, hx.1⟩)]
  · have h' : ¬ ((Spec.transpose b).ncols = (Spec.transpose a).nrows ∧
        (Spec.transpose b).nrows * (Spec.transpose a).ncols ≤ usizeMax ∧
        es * ((Spec.transpose b).nrows * (Spec.transpose a).ncols) ≤ isizeMax) := by
      show ¬ (b.nrows = a.ncols ∧ b.ncols * a.nrows ≤ usizeMax ∧ es * (b.ncols * a.nrows) ≤ isizeMax)
      rw [Nat.mul_comm b.ncols]
      exact fun hx => h ⟨hx.1.symm, hx.2⟩
    rw [if_neg h, if_neg h']
    rfl

/-! ### element writes -/

/-- a write keeps the extents: a second write at any position is in range iff it was before -/
theorem setAt_dims (l l' : LMat α) (i j : Nat) (v : α) (h : Spec.setAt l i j v = some l') :
    l'.order = l.order ∧ l'.nrows = l.nrows ∧ l'.ncols = l.ncols := by
  unfold Spec.setAt at h
  by_cases hc : i < l.nrows ∧ j < l.ncols
  · rw [if_pos hc] at h; cases h; exact ⟨rfl, rfl, rfl⟩
  · rw [if_neg hc] at h; cases h

theorem setAt_inb (l l' : LMat α) (i j : Nat) (v : α) (h : Spec.setAt l i j v = some l') :
    i < l.nrows ∧ j < l.ncols := by
  unfold Spec.setAt at h
  by_cases hc : i < l.nrows ∧ j < l.ncols
  · exact hc
  · rw [if_neg hc] at h; cases h

theorem setAt_ok (l : LMat α) (i j : Nat) (v : α) (hc : i < l.nrows ∧ j < l.ncols) :
    ∃ l', Spec.setAt l i j v = some l' := by
  unfold Spec.setAt; rw [if_pos hc]; exact ⟨_, rfl⟩

/-- two writes at the same position: the second one wins -/
theorem setAt_setAt_same (l : LMat α) (i j : Nat) (v v' : α) :
    (Spec.setAt l i j v).bind (Spec.setAt · i j v') = Spec.setAt l i j v' := by
  unfold Spec.setAt
  by_cases hc : i < l.nrows ∧ j < l.ncols
  · rw [if_pos hc, if_pos hc, Option.bind_some]
    simp only
    rw [if_pos hc]
    congr 1
    refine C01.LMat.ext' (by rfl) (by rfl) (by rfl) ?_
    intro r c
    simp only
    by_cases h1 : r = i ∧ c = j
    · rw [if_pos h1, if_pos h1]
    · rw [if_neg h1, if_neg h1, if_neg h1]
  · rw [if_neg hc, if_neg hc]; rfl

/-- writes at different positions commute (including which of them fail) -/
theorem setAt_comm (l : LMat α) (i j i' j' : Nat) (v v' : α) (hne : ¬ (i = i' ∧ j = j')) :
    (Spec.setAt l i j v).bind (Spec.setAt · i' j' v') =
    (Spec.setAt l i' j' v').bind (Spec.setAt · i j v) := by
  unfold Spec.setAt
  by_cases hc : i < l.nrows ∧ j < l.ncols
  · by_cases hc' : i' < l.nrows ∧ j' < l.ncols
    · rw [if_pos hc, if_pos hc', Option.bind_some, Option.bind_some]
      simp only
      rw [if_pos hc, if_pos hc']
      congr 1
      refine C01.LMat.ext' (by rfl) (by rfl) (by rfl) ?_
      intro r c
      simp only
      by_cases h1 : r = i ∧ c = j
      · have h2 : ¬ (r = i' ∧ c = j') := fun e => hne ⟨h1.1 ▸ e.1, h1.2 ▸ e.2⟩
        simp only [if_pos h1, if_neg h2]
      · by_cases h2 : r = i' ∧ c = j'
        · simp only [if_pos h2, if_neg h1]
        · simp only [if_neg h2, if_neg h1]
    · rw [if_pos hc, if_neg hc', Option.bind_some]
      simp only
      rw [if_neg hc']; rfl
  · by_cases hc' : i' < l.nrows ∧ j' < l.ncols
    · rw [if_neg hc, if_pos hc', Option.bind_some]
      simp only
      rw [if_neg hc]; rfl
    · rw [if_neg hc, if_neg hc']; rfl

/-- writing `(i, j)` then transposing = transposing then writing `(j, i)` (same failures) -/
theorem transpose_setAt (l : LMat α) (i j : Nat) (v : α) :
    (Spec.setAt l i j v).map Spec.transpose = Spec.setAt (Spec.transpose l) j i v := by
  unfold Spec.setAt
  by_cases hc : i < l.nrows ∧ j < l.ncols
  · have hc' : j < (Spec.transpose l).nrows ∧ i < (Spec.transpose l).ncols := ⟨hc.2, hc.1⟩
    rw [if_pos hc, if_pos hc', Option.map_some]
    congr 1
    refine C01.LMat.ext' (by rfl) (by rfl) (by rfl) ?_
    intro r c
    show (if c = i ∧ r = j then some v else l.el c r) = (if r = j ∧ c = i then some v else l.el c r)
    by_cases h1 : r = j ∧ c = i
    · rw [if_pos h1, if_pos ⟨h1.2, h1.1⟩]
    · rw [if_neg h1, if_neg (fun e => h1 ⟨e.2, e.1⟩)]
  · have hc' : ¬ (j < (Spec.transpose l).nrows ∧ i < (Spec.transpose l).ncols) :=
      fun e => hc ⟨e.2, e.1⟩
    rw [if_neg hc, if_neg hc']; rfl

/-- an in-place update is the write of the updated old value -/
theorem updAt_eq_setAt (l : LMat α) (i j : Nat) (f : α → α) (x : α) (hx : l.el i j = some x) :
    Spec.updAt l i j f = Spec.setAt l i j (f x) := by
  unfold Spec.updAt Spec.setAt
  rw [hx]; rfl

/-! ### from the reference model to the concrete machine -/

/-- two histories whose reference worlds coincide end, on the concrete machine, in worlds with the
same logical view -/
theorem histories_equal_of_spec_equal (es : Nat) (p q : List (Op α)) (w : World α) (hw : Inv w)
    (hp : ∀ op ∈ p, op.WF) (hq : ∀ op ∈ q, op.WF)
    (h : Spec.run es (absW w) p = Spec.run es (absW w) q) :
    ∃ wp wq, History.run es w p = .ok wp ∧ History.run es w q = .ok wq ∧ absW wp = absW wq := by
  obtain ⟨wp, h1, h2⟩ := C01.run_refines es p w hw hp
  obtain ⟨wq, h3, h4⟩ := C01.run_refines es q w hw hq
  exact ⟨wp, wq, h1, h3, by rw [h2, h4, h]⟩

theorem run_append (es : Nat) (p q : List (Op α)) : ∀ (w : LWorld α),
    Spec.run es w (p ++ q) = Spec.run es (Spec.run es w p) q := by
  induction p with
  | nil => intro w; rfl
  | cons op p ih => intro w; exact ih _

theorem setReg_setReg (w : LWorld α) (r : Nat) (a b : Option (LMat α)) :
    setReg (setReg w r a) r b = setReg w r b := by
  unfold setReg
  have : r + 1 - ((w ++ List.replicate (r + 1 - w.length) none).set r a).length = 0 := by
    simp only [List.length_set, List.length_append, List.length_replicate]; omega
  rw [this, List.replicate_zero, List.append_nil, List.set_set]

theorem getReg_setReg (w : LWorld α) (r : Nat) (a : Option (LMat α)) :
    getReg (setReg w r a) r = a := by
  unfold getReg setReg
  rw [List.getElem?_set_self (by simp only [List.length_append, List.length_replicate]; omega)]
  rfl

theorem upd_transpose_twice (w : LWorld α) (r : Nat) :
    upd (upd w r Spec.transpose) r Spec.transpose = w := by
  cases hg : getReg w r with
  | none =>
    have h1 : upd w r Spec.transpose = w := by unfold upd; rw [hg]
    rw [h1, h1]
  | some l =>
    have h1 : upd w r Spec.transpose = setReg w r (some (Spec.transpose l)) := by unfold upd; rw [hg]
    rw [h1]
    unfold upd
    rw [getReg_setReg]
    simp only [setReg_setReg, transpose_transpose]
    exact C01.setReg_self _ _ _ hg

/-! the register-level forms of the write laws -/

/-- two fallible in-place operations on one register, as one: a failed call changes nothing -/
def thenOp (f g : LMat α → Option (LMat α)) (l : LMat α) : Option (LMat α) :=
  match f l with
  | none => g l
  | some l' => some ((g l').getD l')

theorem upd?_upd? (w : LWorld α) (r : Nat) (f g : LMat α → Option (LMat α)) :
    upd? (upd? w r f) r g = upd? w r (thenOp f g) := by
  cases hg : getReg w r with
  | none =>
    have h1 : ∀ h : LMat α → Option (LMat α), upd? w r h = w := by intro h; unfold upd?; rw [hg]
    rw [h1, h1, h1]
  | some l =>
    cases hf : f l with
    | none =>
      have h1 : upd? w r f = w := by unfold upd?; rw [hg]; simp only [hf]
      rw [h1]
      unfold upd?
      rw [hg]
      simp only [thenOp, hf]
    | some l' =>
      have h1 : upd? w r f = setReg w r (some l') := by unfold upd?; rw [hg]; simp only [hf]
      rw [h1]
      unfold upd?
      rw [getReg_setReg, hg]
      simp only [thenOp, hf]
      cases g l' with
      | none => rfl
      | some l'' => simp only [Option.getD_some, setReg_setReg]

theorem upd_eq_upd? (w : LWorld α) (r : Nat) (t : LMat α → LMat α) :
    upd w r t = upd? w r (fun l => some (t l)) := by
  unfold upd upd?
  cases getReg w r <;> rfl

theorem upd?_congr (w : LWorld α) (r : Nat) {f g : LMat α → Option (LMat α)} (h : ∀ l, f l = g l) :
    upd? w r f = upd? w r g := by
  have : f = g := funext h
  rw [this]

/-- register level: the second of two writes at one position wins -/
theorem step_setAt_setAt_same (es : Nat) (w : LWorld α) (r i j : Nat) (v v' : α) :
    Spec.run es w [.setAt r i j v, .setAt r i j v'] = Spec.run es w [.setAt r i j v'] := by
  show upd? (upd? w r (Spec.setAt · i j v)) r (Spec.setAt · i j v') = upd? w r (Spec.setAt · i j v')
  rw [upd?_upd?]
  apply upd?_congr
  intro l
  have h := setAt_setAt_same l i j v v'
  simp only [thenOp]
  cases h1 : Spec.setAt l i j v with
  | none => rfl
  | some l' =>
    rw [h1, Option.bind_some] at h
    simp only
    rw [h]
    have hc := setAt_inb l l' i j v h1
    obtain ⟨l'', h5⟩ := setAt_ok l i j v' hc
    rw [h5]; rfl

/-- register level: writes at different positions of one register commute -/
theorem step_setAt_comm (es : Nat) (w : LWorld α) (r i j i' j' : Nat) (v v' : α)
    (hne : ¬ (i = i' ∧ j = j')) :
    Spec.run es w [.setAt r i j v, .setAt r i' j' v'] = Spec.run es w [.setAt r i' j' v', .setAt r i j v] := by
  show upd? (upd? w r (Spec.setAt · i j v)) r (Spec.setAt · i' j' v') =
    upd? (upd? w r (Spec.setAt · i' j' v')) r (Spec.setAt · i j v)
  rw [upd?_upd?, upd?_upd?]
  apply upd?_congr
  intro l
  have h := setAt_comm l i j i' j' v v' hne
  simp only [thenOp]
  cases h1 : Spec.setAt l i j v with
  | none =>
    cases h2 : Spec.setAt l i' j' v' with
    | none => rfl
    | some l2 =>
      rw [h1, h2, Option.bind_none, Option.bind_some] at h
      simp only
      rw [← h]; rfl
  | some l1 =>
    cases h2 : Spec.setAt l i' j' v' with
    | none =>
      rw [h1, h2, Option.bind_none, Option.bind_some] at h
      simp only
      rw [h]; rfl
    | some l2 =>
      rw [h1, h2, Option.bind_some, Option.bind_some] at h
      simp only
      rw [h]
      -- both second writes succeed: the extents are those of `l`
      obtain ⟨_, a1, a2⟩ := setAt_dims l l2 i' j' v' h2
      have hc : i < l2.nrows ∧ j < l2.ncols := by rw [a1, a2]; exact setAt_inb l l1 i j v h1
      obtain ⟨l'', h5⟩ := setAt_ok l2 i j v hc
      rw [h5]; rfl

/-- register level: write `(i, j)` then transpose = transpose then write `(j, i)` -/
theorem step_transpose_setAt (es : Nat) (w : LWorld α) (r i j : Nat) (v : α) :
    Spec.run es w [.setAt r i j v, .transpose r] = Spec.run es w [.transpose r, .setAt r j i v] := by
  show upd (upd? w r (Spec.setAt · i j v)) r Spec.transpose =
    upd? (upd w r Spec.transpose) r (Spec.setAt · j i v)
  rw [upd_eq_upd?, upd_eq_upd?, upd?_upd?, upd?_upd?]
  apply upd?_congr
  intro l
  have h := transpose_setAt l i j v
  simp only [thenOp]
  rw [← h]
  cases Spec.setAt l i j v <;> rfl

/-- histories that differ in a suffix whose two forms agree on the reference model (from every
reference world) end, on the concrete machine, in worlds with the same logical view -/
theorem suffix_equal (es : Nat) (p s t : List (Op α)) (w : World α) (hw : Inv w)
    (hp : ∀ op ∈ p, op.WF) (hs : ∀ op ∈ s, op.WF) (ht : ∀ op ∈ t, op.WF)
    (h : ∀ lw : LWorld α, Spec.run es lw s = Spec.run es lw t) :
    ∃ w₁ w₂, History.run es w (p ++ s) = .ok w₁ ∧ History.run es w (p ++ t) = .ok w₂ ∧
      absW w₁ = absW w₂ := by
  apply histories_equal_of_spec_equal es _ _ w hw
  · intro op hop
    rcases List.mem_append.mp hop with h | h
    · exact hp op h
    · exact hs op h
  · intro op hop
    rcases List.mem_append.mp hop with h | h
    · exact hp op h
    · exact ht op h
  · rw [run_append, run_append, h]

/-- on the concrete machine, at any point of any history: of two writes at one position the second
wins (the history with both and the history with only the second end logically equal) -/
theorem setAt_setAt_same_concrete (es : Nat) (p : List (Op α)) (r i j : Nat) (v v' : α)
    (w : World α) (hw : Inv w) (hp : ∀ op ∈ p, op.WF) (hi : i ≤ usizeMax) (hj : j ≤ usizeMax) :
    ∃ w₁ w₂, History.run es w (p ++ [.setAt r i j v, .setAt r i j v']) = .ok w₁ ∧
      History.run es w (p ++ [.setAt r i j v']) = .ok w₂ ∧ absW w₁ = absW w₂ := by
  apply suffix_equal es p _ _ w hw hp
  · intro op hop
    simp only [List.mem_cons, List.mem_nil_iff, or_false] at hop
    rcases hop with rfl | rfl <;> exact ⟨hi, hj⟩
  · intro op hop
    simp only [List.mem_cons, List.mem_nil_iff, or_false] at hop
    subst hop; exact ⟨hi, hj⟩
  · intro lw; exact step_setAt_setAt_same es lw r i j v v'

/-- on the concrete machine: writes at different positions commute -/
theorem setAt_comm_concrete (es : Nat) (p : List (Op α)) (r i j i' j' : Nat) (v v' : α)
    (hne : ¬ (i = i' ∧ j = j'))
    (w : World α) (hw : Inv w) (hp : ∀ op ∈ p, op.WF) (hi : i ≤ usizeMax) (hj : j ≤ usizeMax)
    (hi' : i' ≤ usizeMax) (hj' : j' ≤ usizeMax) :
    ∃ w₁ w₂, History.run es w (p ++ [.setAt r i j v, .setAt r i' j' v']) = .ok w₁ ∧
      History.run es w (p ++ [.setAt r i' j' v', .setAt r i j v]) = .ok w₂ ∧ absW w₁ = absW w₂ := by
  apply suffix_equal es p _ _ w hw hp
  · intro op hop
    simp only [List.mem_cons, List.mem_nil_iff, or_false] at hop
    rcases hop with rfl | rfl
    · exact ⟨hi, hj⟩
    · exact ⟨hi', hj'⟩
  · intro op hop
    simp only [List.mem_cons, List.mem_nil_iff, or_false] at hop
    rcases hop with rfl | rfl
    · exact ⟨hi', hj'⟩
    · exact ⟨hi, hj⟩
  · intro lw; exact step_setAt_comm es lw r i j i' j' v v' hne

/-- on the concrete machine: writing `(i, j)` then transposing = transposing then writing `(j, i)` -/
theorem transpose_setAt_concrete (es : Nat) (p : List (Op α)) (r i j : Nat) (v : α)
    (w : World α) (hw : Inv w) (hp : ∀ op ∈ p, op.WF) (hi : i ≤ usizeMax) (hj : j ≤ usizeMax) :
    ∃ w₁ w₂, History.run es w (p ++ [.setAt r i j v, .transpose r]) = .ok w₁ ∧
      History.run es w (p ++ [.transpose r, .setAt r j i v]) = .ok w₂ ∧ absW w₁ = absW w₂ := by
  apply suffix_equal es p _ _ w hw hp
  · intro op hop
    simp only [List.mem_cons, List.mem_nil_iff, or_false] at hop
    rcases hop with rfl | rfl
    · exact ⟨hi, hj⟩
    · trivial
  · intro op hop
    simp only [List.mem_cons, List.mem_nil_iff, or_false] at hop
    rcases hop with rfl | rfl
    · trivial
    · exact ⟨hj, hi⟩
  · intro lw; exact step_transpose_setAt es lw r i j v

/-- C05 on the concrete machine: at any point of any history, transposing a register twice leaves
the logical view of the whole world unchanged -/
theorem transpose_twice_invisible (es : Nat) (p : List (Op α)) (r : Nat) (w : World α) (hw : Inv w)
    (hp : ∀ op ∈ p, op.WF) :
    ∃ w₁ w₂, History.run es w p = .ok w₁ ∧ History.run es w (p ++ [.transpose r, .transpose r]) = .ok w₂ ∧
      absW w₂ = absW w₁ := by
  obtain ⟨w₁, h1, h2⟩ := C01.run_refines es p w hw hp
  have hpq : ∀ op ∈ p ++ [Op.transpose r, Op.transpose r], op.WF := by
    intro op hop
    rcases List.mem_append.mp hop with h | h
    · exact hp op h
    · simp only [List.mem_cons, List.mem_nil_iff, or_false, or_self] at h
      subst h
      trivial
  obtain ⟨w₂, h3, h4⟩ := C01.run_refines es _ w hw hpq
  refine ⟨w₁, w₂, h1, h3, ?_⟩
  rw [h4, run_append, ← h2]
  exact upd_transpose_twice _ _

end Matreex.Laws
