/-
C02 — a panic in caller-supplied code leaves every reachable matrix coherent, and no element is
dropped twice.

Statements are about the fault-schedule model of `Model/Effects.lean`: every theorem holds for an
ARBITRARY schedule `φ : Nat → Bool` ("callback number `n` panics"), i.e. for a panic at any
point, in any combination.
-/
import Matreex.Model.Effects
import Matreex.Gen.EffectsOrder

namespace Matreex.C02
open Matreex Matreex.Effects
variable {α : Type}

/-! ### `truncate`, `growWith` -/

/-- `truncate` in projection form -/
theorem truncate_eq (φ : Nat → Bool) (n : Nat) (w : World α) :
    truncate φ n w =
      ({ tick := (dropTail φ (w.mat.data.drop n) w.tick w.dropped false).1,
         mat := { w.mat with data := w.mat.data.take n },
         dropped := (dropTail φ (w.mat.data.drop n) w.tick w.dropped false).2.1 },
       (dropTail φ (w.mat.data.drop n) w.tick w.dropped false).2.2) := rfl

theorem dropTail_out (φ : Nat → Bool) (xs : List α) (t : Nat) (d : List α) (p : Bool) :
    (dropTail φ xs t d p).2.2 = .done → p = false := by
  induction xs generalizing t d p with
  | nil => simp only [dropTail]; cases p <;> simp
  | cons x xs ih =>
    simp only [dropTail]
    split
    · split
      · simp
      · intro h; have := ih _ _ _ h; simp at this
    · exact ih _ _ _

/-- The drop log grows by a prefix of the list handed to `dropTail`, in order; by the whole list
unless the process aborted. -/
theorem dropTail_dropped (φ : Nat → Bool) (xs : List α) (t : Nat) (d : List α) (p : Bool) :
    ∃ j, j ≤ xs.length ∧ (dropTail φ xs t d p).2.1 = d ++ xs.take j ∧
      ((dropTail φ xs t d p).2.2 ≠ .aborted → j = xs.length) := by
  induction xs generalizing t d p with
  | nil => exact ⟨0, by simp [dropTail]⟩
  | cons x xs ih =>
    simp only [dropTail]
    split
    · split
      · exact ⟨1, by simp⟩
      · obtain ⟨j, hj, h1, h2⟩ := ih (t + 1) (d ++ [x]) true
        refine ⟨j + 1, by simp; omega, by simp [h1], ?_⟩
        intro h; simp [h2 h]
    · obtain ⟨j, hj, h1, h2⟩ := ih (t + 1) (d ++ [x]) p
      refine ⟨j + 1, by simp; omega, by simp [h1], ?_⟩
      intro h; simp [h2 h]

/-- Drop accounting for `truncate`: the survivors are exactly the kept prefix and the drop log
grew by a prefix of the removed tail — no survivor is dropped, no element is dropped twice; and
unless the process aborted the whole tail was dropped — nothing leaks either. -/
theorem truncate_dropped (φ : Nat → Bool) (n : Nat) (w : World α) :
    ∃ j, j ≤ (w.mat.data.drop n).length ∧
      (truncate φ n w).1.dropped = w.dropped ++ (w.mat.data.drop n).take j ∧
      (truncate φ n w).1.mat.data = w.mat.data.take n ∧
      ((truncate φ n w).2 ≠ .aborted → j = (w.mat.data.drop n).length) := by
  obtain ⟨j, hj, h1, h2⟩ := dropTail_dropped φ (w.mat.data.drop n) w.tick w.dropped false
  exact ⟨j, hj, by rw [truncate_eq]; exact h1, by rw [truncate_eq], by rw [truncate_eq]; exact h2⟩

/-- `truncate` never touches the shape. -/
theorem truncate_shape (φ : Nat → Bool) (n : Nat) (w : World α) :
    (truncate φ n w).1.mat.shape = w.mat.shape := by rw [truncate_eq]

theorem growWith_len (φ : Nat → Bool) (mk : Nat → α) (k : Nat) (w : World α) :
    (growWith φ mk k w).1.mat.shape = w.mat.shape ∧
    ((growWith φ mk k w).2 = .done →
      (growWith φ mk k w).1.mat.data.length = w.mat.data.length + k) ∧
    (growWith φ mk k w).2 ≠ .aborted ∧
    (∃ ys, (growWith φ mk k w).1.mat.data = w.mat.data ++ ys) ∧
    (growWith φ mk k w).1.dropped = w.dropped := by
  induction k generalizing w with
  | zero => simp [growWith]
  | succ k ih =>
    simp only [growWith]
    split
    · simp
    · obtain ⟨h1, h2, h3, ⟨ys, h4⟩, h5⟩ :=
        ih ⟨w.tick + 1, ⟨w.mat.shape, w.mat.data ++ [mk w.tick]⟩, w.dropped⟩
      refine ⟨by simpa using h1, ?_, h3, ⟨mk w.tick :: ys, by simpa using h4⟩, by simpa using h5⟩
      intro h; have := h2 h; simp at this; omega

/-- `resize_with` growing: the old elements are a prefix of the new data (none is moved out,
replaced or dropped) and the drop log is unchanged. -/
theorem growWith_keeps (φ : Nat → Bool) (mk : Nat → α) (k : Nat) (w : World α) :
    w.mat.data <+: (growWith φ mk k w).1.mat.data ∧
    (growWith φ mk k w).1.dropped = w.dropped := by
  obtain ⟨_, _, _, ⟨ys, h4⟩, h5⟩ := growWith_len φ mk k w
  exact ⟨⟨ys, h4.symm⟩, h5⟩

/-! ### `resize` -/

/-- C02 for `resize`, repaired ordering: whatever callback panics (any schedule `φ`), the
surviving matrix is coherent. -/
theorem resizeFixed_coh (φ : Nat → Bool) (mk : Nat → α) (shape : AxisShape) (w : World α)
    (h : w.mat.Coh) :
    (resizeFixed φ mk shape w).2 ≠ .aborted → (resizeFixed φ mk shape w).1.mat.Coh := by
  unfold resizeFixed
  simp only
  split
  · -- shrink
    rename_i hle
    intro _
    rw [truncate_eq]
    simp [Mat.Coh, List.length_take, Nat.min_eq_left hle]
  · rename_i hgt
    obtain ⟨h1, h2, h3, ⟨ys, h4⟩, _⟩ :=
      growWith_len φ mk (shape.major * shape.minor - w.mat.data.length) w
    split
    next w' heq =>
      intro _
      have e1 : (growWith φ mk (shape.major * shape.minor - w.mat.data.length) w).2 = .done := by
        rw [heq]
      have e2 := h2 e1
      rw [heq] at e2
      simp only [Mat.Coh]; simp at e2 ⊢; omega
    next w' o hne heq =>
      have e4 : w'.mat.data = w.mat.data ++ ys := by rw [heq] at h4; exact h4
      have e1 : w'.mat.shape = w.mat.shape := by rw [heq] at h1; exact h1
      split
      next w'' heq2 =>
        intro _
        have : w''.mat = { w'.mat with data := w'.mat.data.take w.mat.data.length } := by
          have := congrArg Prod.fst heq2
          simp only [truncate_eq] at this
          rw [← this]
        rw [this]
        simp only [Mat.Coh, e1, e4, List.take_left']
        exact h
      next => intro hab; exact absurd rfl hab

/-- The pinned ordering is *not* safe: witness 1×1 → 2×2 with the first `default()` panicking.
The survivor claims four elements and stores one. This is why the `fix:` commit was needed. -/
theorem resizePinned_incoherent :
    let w0 : World Nat := { tick := 0, mat := { shape := ⟨1, 1⟩, data := [7] }, dropped := [] }
    let r := resizePinned (fun k => k == 0) (fun _ => 0) ⟨2, 2⟩ w0
    w0.mat.Coh ∧ r.2 = .unwound ∧ ¬ r.1.mat.Coh ∧
      r.1.mat.shape.major * r.1.mat.shape.minor > r.1.mat.data.length := by
  intro w0 r
  decide

/-! ### `clear` -/

/-- `clear`: the survivor is the empty 0×0 matrix for every schedule, even when the process is
about to abort; no hypothesis on the matrix before the call. -/
theorem clearF_coh (φ : Nat → Bool) (w : World α) : (clearF φ w).1.mat.Coh := by
  unfold clearF
  rw [truncate_eq]
  simp [Mat.Coh]

/-- `clear` drops a prefix of the elements, in order, each once; all of them unless the process
aborted. -/
theorem clearF_dropped (φ : Nat → Bool) (w : World α) :
    ∃ j, j ≤ w.mat.data.length ∧ (clearF φ w).1.dropped = w.dropped ++ w.mat.data.take j ∧
      (clearF φ w).1.mat.data = [] ∧
      ((clearF φ w).2 ≠ .aborted → j = w.mat.data.length) := by
  have := truncate_dropped φ 0 { w with mat := { w.mat with shape := ⟨0, 0⟩ } }
  simpa [clearF] using this

/-! ### in-place element loops -/

theorem forEachGo_spec (φ : Nat → Bool) (upd : Nat → α → α) (xs : List α) (t : Nat) :
    (forEachGo φ upd xs t).1.length = xs.length ∧ (forEachGo φ upd xs t).2.2 ≠ .aborted := by
  induction xs generalizing t with
  | nil => simp [forEachGo]
  | cons x xs ih =>
    simp only [forEachGo]
    split
    · simp
    · simpa using ih (t + 1)

/-- The element loops never touch the shape or the length, whatever panics. -/
theorem forEachF_shape_len (φ : Nat → Bool) (upd : Nat → α → α) (w : World α) :
    (forEachF φ upd w).1.mat.shape = w.mat.shape ∧
    (forEachF φ upd w).1.mat.data.length = w.mat.data.length :=
  ⟨rfl, (forEachGo_spec φ upd w.mat.data w.tick).1⟩

theorem forEachF_coh (φ : Nat → Bool) (upd : Nat → α → α) (w : World α) (h : w.mat.Coh) :
    (forEachF φ upd w).1.mat.Coh := by
  obtain ⟨h1, h2⟩ := forEachF_shape_len φ upd w
  simp only [Mat.Coh, h1, h2]; exact h

/-- One callback per element and a panic stops the loop: there is never a second panic. -/
theorem forEachF_not_aborted (φ : Nat → Bool) (upd : Nat → α → α) (w : World α) :
    (forEachF φ upd w).2 ≠ .aborted :=
  (forEachGo_spec φ upd w.mat.data w.tick).2

/-- The loop itself drops nothing. -/
theorem forEachF_dropped (φ : Nat → Bool) (upd : Nat → α → α) (w : World α) :
    (forEachF φ upd w).1.dropped = w.dropped := rfl

theorem overwriteGo_spec (φ : Nat → Bool) (clone : Nat → α → α) (xs : List α) (k : Nat)
    (src : List α) (t : Nat) (d : List α) :
    (overwriteGo φ clone xs k src t d).1.length = xs.length ∧
    (overwriteGo φ clone xs k src t d).2.2.2 ≠ .aborted ∧
    ∃ j, j ≤ xs.length ∧ (overwriteGo φ clone xs k src t d).2.2.1 = d ++ xs.take j := by
  induction xs generalizing k src t d with
  | nil => exact ⟨by simp [overwriteGo], by simp [overwriteGo], 0, by simp [overwriteGo]⟩
  | cons x xs ih =>
    simp only [overwriteGo]
    split
    · split
      · exact ⟨by simp, by simp, 0, by simp⟩
      · split
        · exact ⟨by simp, by simp, 1, by simp⟩
        · rename_i k s ss _ _
          obtain ⟨h1, h2, j, hj, h3⟩ := ih k ss (t + 2) (d ++ [x])
          exact ⟨by simpa using h1, h2, j + 1, by simp; omega, by simp [h3]⟩
    · exact ⟨by simp, by simp, 0, by simp⟩

/-- `overwrite` never touches the shape or the length, whatever panics. -/
theorem overwriteF_shape_len (φ : Nat → Bool) (clone : Nat → α → α) (k : Nat) (src : List α)
    (w : World α) :
    (overwriteF φ clone k src w).1.mat.shape = w.mat.shape ∧
    (overwriteF φ clone k src w).1.mat.data.length = w.mat.data.length :=
  ⟨rfl, (overwriteGo_spec φ clone w.mat.data k src w.tick w.dropped).1⟩

theorem overwriteF_coh (φ : Nat → Bool) (clone : Nat → α → α) (k : Nat) (src : List α)
    (w : World α) (h : w.mat.Coh) : (overwriteF φ clone k src w).1.mat.Coh := by
  obtain ⟨h1, h2⟩ := overwriteF_shape_len φ clone k src w
  simp only [Mat.Coh, h1, h2]; exact h

/-- A panicking clone stops the loop, a panicking drop stops it too: never a second panic. -/
theorem overwriteF_not_aborted (φ : Nat → Bool) (clone : Nat → α → α) (k : Nat) (src : List α)
    (w : World α) : (overwriteF φ clone k src w).2 ≠ .aborted :=
  (overwriteGo_spec φ clone w.mat.data k src w.tick w.dropped).2.1

/-- `overwrite` drops a prefix of the OLD elements, in order, each once (the replaced ones). -/
theorem overwriteF_dropped (φ : Nat → Bool) (clone : Nat → α → α) (k : Nat) (src : List α)
    (w : World α) :
    ∃ j, j ≤ w.mat.data.length ∧
      (overwriteF φ clone k src w).1.dropped = w.dropped ++ w.mat.data.take j :=
  (overwriteGo_spec φ clone w.mat.data k src w.tick w.dropped).2.2

/-! ### consuming / constructing operations -/

theorem mapGo_spec (φ : Nat → Bool) (f : Nat → α → α) (xs : List α) (t : Nat) (c b : List α) :
    ((mapGo φ f xs t c b).2.2 = none →
      (mapGo φ f xs t c b).2.1.length = b.length + xs.length) ∧
    (∀ log, (mapGo φ f xs t c b).2.2 = some log →
      ∃ i, i < xs.length ∧ (mapGo φ f xs t c b).2.1.length = b.length + i ∧
        log = c ++ xs.take (i + 1) ++ (mapGo φ f xs t c b).2.1 ++ xs.drop (i + 1)) := by
  induction xs generalizing t c b with
  | nil => simp [mapGo]
  | cons x xs ih =>
    simp only [mapGo]
    split
    · refine ⟨by simp, ?_⟩
      intro log hlog
      exact ⟨0, by simp, by simp, by simpa using hlog.symm⟩
    · obtain ⟨h1, h2⟩ := ih (t + 1) (c ++ [x]) (b ++ [f t x])
      refine ⟨fun h => by
        have := h1 h
        simp only [List.length_append, List.length_cons, List.length_nil] at this ⊢
        omega, ?_⟩
      intro log hlog
      obtain ⟨i, hi, h3, h4⟩ := h2 log hlog
      refine ⟨i + 1, by simp; omega, ?_, ?_⟩
      · simp at h3; omega
      · simpa using h4

/-- Consuming operations: either the mapped matrix of the same shape, or nothing at all. -/
theorem mapConsumeF_coh (φ : Nat → Bool) (f : Nat → α → α) (w : World α) (h : w.mat.Coh) :
    (mapConsumeF φ f w).1.mat.Coh := by
  unfold mapConsumeF
  split
  next tick built heq =>
    have := (mapGo_spec φ f w.mat.data w.tick [] []).1 (by rw [heq])
    rw [heq] at this
    simp only [Mat.Coh] at h ⊢
    simp at this
    omega
  next => simp [Mat.Coh]

theorem mapConsumeF_not_aborted (φ : Nat → Bool) (f : Nat → α → α) (w : World α) :
    (mapConsumeF φ f w).2 ≠ .aborted := by
  unfold mapConsumeF
  split <;> simp

/-- Drop accounting for a consuming operation that unwinds at element `i`: the drop log grew by
the elements handed to the closure (`0..=i`), the `i` results built, and the unvisited elements
(`i+1..`): every source element exactly once, every result exactly once. Without a panic the
drop log is unchanged. -/
theorem mapConsumeF_dropped (φ : Nat → Bool) (f : Nat → α → α) (w : World α) :
    ((mapConsumeF φ f w).2 = .done → (mapConsumeF φ f w).1.dropped = w.dropped) ∧
    ((mapConsumeF φ f w).2 = .unwound →
      ∃ i built, i < w.mat.data.length ∧ built.length = i ∧
        (mapConsumeF φ f w).1.dropped =
          w.dropped ++ (w.mat.data.take (i + 1) ++ built ++ w.mat.data.drop (i + 1))) := by
  unfold mapConsumeF
  split
  next => simp
  next tick built log heq =>
    refine ⟨by simp, fun _ => ?_⟩
    obtain ⟨i, hi, h3, h4⟩ := (mapGo_spec φ f w.mat.data w.tick [] []).2 log (by rw [heq])
    rw [heq] at h3 h4
    exact ⟨i, built, hi, by simpa using h3, by simp [h4]⟩

/-! ### non-vacuity: concrete schedules -/

/-! ### Tie T1: the order of effects in the source of `resize` and `clear`, re-extracted on every run -/

/- The table theorem `effects_order_is_the_modelled_one` (T1: the order of the effects of `resize` / `clear`, read by
regular expressions) was retired in the fourth session: `BridgeT14.resize_fx_bridge` / `clear_fx_bridge` prove the
regenerated statement sequences, run under every fault schedule, equal to the functions the theorems above are about,
which is strictly stronger, and the table alarmed on harmless rewrites (a renamed guard local). -/

section Examples

/-- the world with `data` stored under `shape`, no callback made, nothing dropped -/
private def w0 (shape : AxisShape) (data : List Nat) : World Nat :=
  { tick := 0, mat := ⟨shape, data⟩, dropped := [] }

/-- growing resize 1×1 → 2×2, repaired code, the 2nd `default()` panics: the guard truncates
back; the survivor is the original 1×1 matrix, the one element already pushed is dropped. -/
example :
    resizeFixed (fun k => k == 1) (fun t => 100 + t) ⟨2, 2⟩ (w0 ⟨1, 1⟩ [7]) =
      ({ tick := 3, mat := ⟨⟨1, 1⟩, [7]⟩, dropped := [100] }, .unwound) := by decide

/-- the same call without a panic -/
example :
    resizeFixed (fun _ => false) (fun t => 100 + t) ⟨2, 2⟩ (w0 ⟨1, 1⟩ [7]) =
      ({ tick := 3, mat := ⟨⟨2, 2⟩, [7, 100, 101, 102]⟩, dropped := [] }, .done) := by decide

/-- growing resize whose 2nd `default()` panics and whose guard's `Drop` panics too: abort -/
example :
    (resizeFixed (fun k => k == 1 || k == 2) (fun t => 100 + t) ⟨2, 2⟩ (w0 ⟨1, 1⟩ [7])).2 =
      .aborted := by decide

/-- shrinking resize 2×3 → 1×2 whose 2nd drop panics: the survivor is 1×2 and coherent, all four
tail elements are in the drop log (the drops after the panicking one still run). -/
example :
    resizeFixed (fun k => k == 1) (fun _ => 0) ⟨1, 2⟩ (w0 ⟨2, 3⟩ [1, 2, 3, 4, 5, 6]) =
      ({ tick := 4, mat := ⟨⟨1, 2⟩, [1, 2]⟩, dropped := [3, 4, 5, 6] }, .unwound) := by decide

/-- `clear` with a panicking drop: the survivor is the empty 0×0 matrix, everything dropped. -/
example :
    clearF (fun k => k == 0) (w0 ⟨2, 1⟩ [1, 2]) =
      ({ tick := 2, mat := ⟨⟨0, 0⟩, []⟩, dropped := [1, 2] }, .unwound) := by decide

/-- `clear` with two panicking drops: abort; the third element is leaked, none dropped twice. -/
example :
    clearF (fun k => k == 0 || k == 1) (w0 ⟨3, 1⟩ [1, 2, 3]) =
      ({ tick := 2, mat := ⟨⟨0, 0⟩, []⟩, dropped := [1, 2] }, .aborted) := by decide

/-- element loop over a 2×2 with a panic at the 3rd element: two updated, two untouched. -/
example :
    forEachF (fun k => k == 2) (fun _ x => x * 10) (w0 ⟨2, 2⟩ [1, 2, 3, 4]) =
      ({ tick := 3, mat := ⟨⟨2, 2⟩, [10, 20, 3, 4]⟩, dropped := [] }, .unwound) := by decide

/-- `overwrite` with a panicking clone (callback 2 = the clone for position 1): position 0
replaced (old value dropped), the rest untouched. -/
example :
    overwriteF (fun k => k == 2) (fun _ s => s) 4 [9, 8, 7, 6] (w0 ⟨2, 2⟩ [1, 2, 3, 4]) =
      ({ tick := 3, mat := ⟨⟨2, 2⟩, [9, 2, 3, 4]⟩, dropped := [1] }, .unwound) := by decide

/-- `overwrite` with a panicking drop (callback 3 = the drop of the old value at position 1):
the slot already holds the new value, the old one is in the drop log. -/
example :
    overwriteF (fun k => k == 3) (fun _ s => s) 4 [9, 8, 7, 6] (w0 ⟨2, 2⟩ [1, 2, 3, 4]) =
      ({ tick := 4, mat := ⟨⟨2, 2⟩, [9, 8, 3, 4]⟩, dropped := [1, 2] }, .unwound) := by decide

/-- `overwrite` without a panic, source shorter than the destination -/
example :
    overwriteF (fun _ => false) (fun _ s => s) 4 [9, 8] (w0 ⟨2, 2⟩ [1, 2, 3, 4]) =
      ({ tick := 4, mat := ⟨⟨2, 2⟩, [9, 8, 3, 4]⟩, dropped := [1, 2] }, .done) := by decide

/-- consuming map with a panic at the 3rd element: nothing survives; the three elements handed
to the closure, the two results and the unvisited element are each in the drop log once. -/
example :
    mapConsumeF (fun k => k == 2) (fun _ x => x * 10) (w0 ⟨2, 2⟩ [1, 2, 3, 4]) =
      ({ tick := 3, mat := ⟨⟨0, 0⟩, []⟩, dropped := [1, 2, 3, 10, 20, 4] }, .unwound) := by
  decide

/-- consuming map without a panic -/
example :
    mapConsumeF (fun _ => false) (fun _ x => x * 10) (w0 ⟨2, 2⟩ [1, 2, 3, 4]) =
      ({ tick := 4, mat := ⟨⟨2, 2⟩, [10, 20, 30, 40]⟩, dropped := [] }, .done) := by decide

end Examples

end Matreex.C02
