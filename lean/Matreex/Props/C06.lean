/-
C06 — all row and column views agree with each other and with the logical matrix.

Immutable views and the `iter_nth_*_mut` forms are `iter().skip(a).step_by(s).take(t)`
(`Model/Iter.lean`: list functions, `step_by(0)` = panic); `iter_rows_mut` / `iter_cols_mut` are the
address-level machines of C03, whose item `(k, t)` is the element at flat offset
`C03.elemOffset m rows k t`.  The theorems show that every family presents the same positions:
the `k`-th row view is `(k, 0), (k, 1), …` and the `k`-th column view `(0, k), (1, k), …`.
-/
import Matreex.Model.Iter
import Matreex.Lemmas.Matrix
import Matreex.Lemmas.Views
import Matreex.Props.C03
import Matreex.Gen.OrderDispatch
import Matreex.Lemmas.BridgeViews

namespace Matreex.C06
open Matreex
variable {α : Type}

/-- `iter_nth_row(n)` / `iter_nth_row_mut(n)`: for a valid row number the view yields exactly the
`ncols` elements `(n, 0), (n, 1), …` in order (so, consumed as a list from either end, with exact
lengths); for any other `n` — in particular `n = nrows`, `usize::MAX` — it is `IndexOutOfBounds`;
no `step_by(0)` and no overflow in `n * stride` is reachable. Both storage orders. -/
theorem iterNthRow_spec (m : Matrix α) (h : m.Coh) (hfit : m.data.size ≤ usizeMax) (n : Nat)
    (hn : n ≤ usizeMax) :
    (n < m.nrows → ∃ l, m.iterNthRow n = .ok (.ok l) ∧ l.length = m.ncols ∧
        ∀ c, c < m.ncols → l[c]? = m.at? n c) ∧
    (¬ n < m.nrows → m.iterNthRow n = .ok (.error .indexOutOfBounds)) := by
  rw [Matrix.iterNthRow_eq]
  refine ⟨fun hlt => ?_, fun hnlt => by simp [hnlt]⟩
  obtain ⟨l, h1, h2, h3⟩ := m.rowView_spec h hfit n hlt hn
  refine ⟨l, by simp [hlt, h1, bind, Except.bind, pure, Except.pure], h2, ?_⟩
  intro c hc
  rw [h3 c hc, Matrix.at?_eq_data m hlt hc]

theorem iterNthCol_spec (m : Matrix α) (h : m.Coh) (hfit : m.data.size ≤ usizeMax) (n : Nat)
    (hn : n ≤ usizeMax) :
    (n < m.ncols → ∃ l, m.iterNthCol n = .ok (.ok l) ∧ l.length = m.nrows ∧
        ∀ r, r < m.nrows → l[r]? = m.at? r n) ∧
    (¬ n < m.ncols → m.iterNthCol n = .ok (.error .indexOutOfBounds)) := by
  rw [Matrix.iterNthCol_eq]
  refine ⟨fun hlt => ?_, fun hnlt => by simp [hnlt]⟩
  obtain ⟨l, h1, h2, h3⟩ := m.colView_spec h hfit n hlt hn
  refine ⟨l, by simp [hlt, h1, bind, Except.bind, pure, Except.pure], h2, ?_⟩
  intro r hr
  rw [h3 r hr, Matrix.at?_eq_data m hr hlt]

/-- `iter_rows()` yields exactly `nrows` views (also when `ncols = 0`: `nrows` empty rows), the
`r`-th being row `r` -/
theorem iterRows_spec (m : Matrix α) (h : m.Coh) (hfit : m.data.size ≤ usizeMax)
    (hext : m.shape.major ≤ usizeMax ∧ m.shape.minor ≤ usizeMax) :
    ∃ rows, m.iterRows = .ok rows ∧ rows.length = m.nrows ∧
      ∀ r, r < m.nrows → ∃ l, rows[r]? = some l ∧ l.length = m.ncols ∧
        ∀ c, c < m.ncols → l[c]? = m.at? r c := by
  have hle := m.nrows_le hext
  have hstep : ∀ k, k < m.nrows → ∃ y, m.rowView k = .ok y ∧
      (match m.rowView k with | .ok y => some y | .error _ => none) = some y := by
    intro k hk
    obtain ⟨l, h1, _, _⟩ := m.rowView_spec h hfit k hk (by omega)
    exact ⟨l, h1, by rw [h1]⟩
  obtain ⟨rows, h1, h2, h3⟩ := mapM_range_ok_aux m.nrows m.rowView _ hstep
  refine ⟨rows, by rw [Matrix.iterRows_eq]; exact h1, h2, ?_⟩
  intro r hr
  obtain ⟨l, g1, g2, g3⟩ := m.rowView_spec h hfit r hr (by omega)
  refine ⟨l, by rw [h3 r hr, g1], g2, ?_⟩
  intro c hc
  rw [g3 c hc, Matrix.at?_eq_data m hr hc]

theorem iterCols_spec (m : Matrix α) (h : m.Coh) (hfit : m.data.size ≤ usizeMax)
    (hext : m.shape.major ≤ usizeMax ∧ m.shape.minor ≤ usizeMax) :
    ∃ cols, m.iterCols = .ok cols ∧ cols.length = m.ncols ∧
      ∀ c, c < m.ncols → ∃ l, cols[c]? = some l ∧ l.length = m.nrows ∧
        ∀ r, r < m.nrows → l[r]? = m.at? r c := by
  have hle := m.ncols_le hext
  have hstep : ∀ k, k < m.ncols → ∃ y, m.colView k = .ok y ∧
      (match m.colView k with | .ok y => some y | .error _ => none) = some y := by
    intro k hk
    obtain ⟨l, h1, _, _⟩ := m.colView_spec h hfit k hk (by omega)
    exact ⟨l, h1, by rw [h1]⟩
  obtain ⟨cols, h1, h2, h3⟩ := mapM_range_ok_aux m.ncols m.colView _ hstep
  refine ⟨cols, by rw [Matrix.iterCols_eq]; exact h1, h2, ?_⟩
  intro c hc
  obtain ⟨l, g1, g2, g3⟩ := m.colView_spec h hfit c hc (by omega)
  refine ⟨l, by rw [h3 c hc, g1], g2, ?_⟩
  intro r hr
  rw [g3 r hr, Matrix.at?_eq_data m hr hc]

/-- the matrix of flat offsets with the header of `m`: what a view yields on it are the positions
the view visits -/
def positions (m : Matrix α) : Matrix Nat := ⟨m.order, m.shape, Array.range m.data.size⟩

/-- Agreement of the families on *positions*: the immutable `k`-th row (column) view visits the
flat offsets `C03.elemOffset m true k 0, …` (resp. `false`), which are by `C03.system_refines`
exactly the offsets of the items the `k`-th inner iterator of `iter_rows_mut` (`iter_cols_mut`)
hands out, in the same order; and both outer families have `nrows` (`ncols`) items
(`C03.nVectors`), element-less matrices included. -/
theorem row_positions_agree (m : Matrix α) (h : m.Coh) (hfit : m.data.size ≤ usizeMax) (k : Nat)
    (hk : k < m.nrows) (hku : k ≤ usizeMax) :
    (positions m).iterNthRow k = .ok (.ok ((List.range (C03.vecLen m true)).map fun t => C03.elemOffset m true k t)) := by
  have hc : (positions m).Coh := ⟨by simpa [positions] using h.size_eq⟩
  have hfit' : (positions m).data.size ≤ usizeMax := by simpa [positions] using hfit
  have hk' : k < (positions m).nrows := hk
  obtain ⟨l, h1, h2, h3⟩ := (positions m).rowView_spec hc hfit' k hk' hku
  rw [Matrix.iterNthRow_eq]
  simp only [hk', ↓reduceIte, h1, bind, Except.bind, pure, Except.pure]
  congr 2
  apply List.ext_getElem?
  intro t
  simp only [C03.vecLen, C03.elemOffset, ↓reduceIte]
  by_cases ht : t < m.ncols
  · have hlt := m.idx_lt h hk ht
    have e1 : (positions m).idx k t = m.idx k t := rfl
    have e2 : (positions m).data = Array.range m.data.size := rfl
    rw [h3 t ht, e1, e2]
    simp [hlt, ht]
  · have : l.length ≤ t := by rw [h2]; exact Nat.le_of_not_lt ht
    rw [List.getElem?_eq_none_iff.mpr this]
    simp [ht]

theorem col_positions_agree (m : Matrix α) (h : m.Coh) (hfit : m.data.size ≤ usizeMax) (k : Nat)
    (hk : k < m.ncols) (hku : k ≤ usizeMax) :
    (positions m).iterNthCol k = .ok (.ok ((List.range (C03.vecLen m false)).map fun t => C03.elemOffset m false k t)) := by
  have hc : (positions m).Coh := ⟨by simpa [positions] using h.size_eq⟩
  have hfit' : (positions m).data.size ≤ usizeMax := by simpa [positions] using hfit
  have hk' : k < (positions m).ncols := hk
  obtain ⟨l, h1, h2, h3⟩ := (positions m).colView_spec hc hfit' k hk' hku
  rw [Matrix.iterNthCol_eq]
  simp only [hk', ↓reduceIte, h1, bind, Except.bind, pure, Except.pure]
  congr 2
  apply List.ext_getElem?
  intro t
  simp only [C03.vecLen, C03.elemOffset]
  by_cases ht : t < m.nrows
  · have hlt := m.idx_lt h ht hk
    have e1 : (positions m).idx t k = m.idx t k := rfl
    have e2 : (positions m).data = Array.range m.data.size := rfl
    rw [h3 t ht, e1, e2]
    simp [hlt, ht]
  · have : l.length ≤ t := by rw [h2]; exact Nat.le_of_not_lt ht
    rw [List.getElem?_eq_none_iff.mpr this]
    simp [ht]

theorem outer_counts_agree (m : Matrix α) (h : m.Coh) (hfit : m.data.size ≤ usizeMax)
    (hext : m.shape.major ≤ usizeMax ∧ m.shape.minor ≤ usizeMax) :
    (∃ rows, m.iterRows = .ok rows ∧ rows.length = C03.nVectors m true) ∧
    (∃ cols, m.iterCols = .ok cols ∧ cols.length = C03.nVectors m false) := by
  obtain ⟨rows, r1, r2, _⟩ := iterRows_spec m h hfit hext
  obtain ⟨cols, c1, c2, _⟩ := iterCols_spec m h hfit hext
  exact ⟨⟨rows, r1, by simpa [C03.nVectors] using r2⟩, ⟨cols, c1, by simpa [C03.nVectors] using c2⟩⟩

/-- Tie T2 (regenerated from src/iter.rs on every run): the model's row / column views ARE the
source's `iter().skip(skip).step_by(step).take(take)` chains — the parameters (`n · major_stride`,
`minor_stride`, `minor` along the major axis; `n · minor_stride`, `major_stride`, `major` along the
minor axis), the `IndexOutOfBounds` guards `n >= extent` of the checked wrappers, and the `_mut`
functions using the same parameters and guards as the shared ones -/
theorem views_are_the_source_chains (m : Matrix α) (n : Nat) :
    m.nthMajorUnchecked n = BridgeViews.viaParams m.data.toList (Gen.Matrix.iter_nth_major_axis_vector_unchecked m.hdr n) ∧
    m.nthMinorUnchecked n = BridgeViews.viaParams m.data.toList (Gen.Matrix.iter_nth_minor_axis_vector_unchecked m.hdr n) ∧
    Gen.Matrix.iter_nth_major_axis_vector_unchecked_mut m.hdr n = Gen.Matrix.iter_nth_major_axis_vector_unchecked m.hdr n ∧
    Gen.Matrix.iter_nth_minor_axis_vector_unchecked_mut m.hdr n = Gen.Matrix.iter_nth_minor_axis_vector_unchecked m.hdr n ∧
    Gen.Matrix.iter_nth_major_axis_vector_mut m.hdr n = Gen.Matrix.iter_nth_major_axis_vector m.hdr n ∧
    Gen.Matrix.iter_nth_minor_axis_vector_mut m.hdr n = Gen.Matrix.iter_nth_minor_axis_vector m.hdr n ∧
    (Gen.Matrix.iter_nth_major_axis_vector m.hdr n =
      if n ≥ m.shape.major then .ok (.error .indexOutOfBounds)
      else (Gen.Matrix.iter_nth_major_axis_vector_unchecked m.hdr n).map .ok) ∧
    (Gen.Matrix.iter_nth_minor_axis_vector m.hdr n =
      if n ≥ m.shape.minor then .ok (.error .indexOutOfBounds)
      else (Gen.Matrix.iter_nth_minor_axis_vector_unchecked m.hdr n).map .ok) :=
  ⟨BridgeViews.nthMajorUnchecked_params m n, BridgeViews.nthMinorUnchecked_params m n,
    (BridgeViews.mut_params_agree m.hdr n).1, (BridgeViews.mut_params_agree m.hdr n).2,
    (BridgeViews.guarded_mut_agree m.hdr n).1, (BridgeViews.guarded_mut_agree m.hdr n).2,
    BridgeViews.guarded_major m.hdr n, BridgeViews.guarded_minor m.hdr n⟩

/- The table theorem `view_dispatch_duality` (T1) was retired in the fourth session: `BridgeT12.iter_rows_is_the_source`
… `iter_nth_col_mut_is_the_source` and `C06.mut_entry_points_are_the_source` (T17) prove every regenerated dispatch equal to
the model's, which is strictly stronger, and the table alarmed on harmless rewrites (renamed closure parameters, `if
self.order == ..` instead of `match`). -/

/-! ### non-vacuity -/
def ex23 : Matrix Nat := ⟨.colMajor, ⟨3, 2⟩, #[1, 4, 2, 5, 3, 6]⟩   -- logical 2×3
def ex30 : Matrix Nat := ⟨.rowMajor, ⟨3, 0⟩, #[]⟩                   -- 3×0
example : ex23.Coh ∧ ex30.Coh := ⟨⟨rfl⟩, ⟨rfl⟩⟩
example : ex23.iterNthRow 1 = .ok (.ok [4, 5, 6]) := by rfl
example : ex23.iterNthCol 2 = .ok (.ok [3, 6]) := by rfl
example : ex23.iterNthRow 2 = .ok (.error .indexOutOfBounds) := by rfl
example : ex23.iterRows = .ok [[1, 2, 3], [4, 5, 6]] := by rfl
example : ex30.iterRows = .ok [[], [], []] ∧ ex30.iterCols = .ok [] := ⟨by rfl, by rfl⟩
example : (positions ex23).iterNthRow 1 = .ok (.ok [1, 3, 5]) := by rfl

end Matreex.C06
