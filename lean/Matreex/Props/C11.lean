/-
C11 — the matrix product is the textbook product for all shapes, orders and element types.
-/
import Matreex.Model.Mul
import Matreex.Props.C05
import Matreex.Props.C08
import Matreex.Lemmas.Mul
import Matreex.Lemmas.BridgeT10

namespace Matreex.C11
open Matreex
variable {L R U : Type}

/-- left-nested sum of a list of terms, `none` for the empty list -/
def sumLeft (add : U → U → U) : List U → Option U
  | [] => none
  | p :: ps => some (ps.foldl add p)

/-- textbook entry `(i, j)`: the terms `lhs[i][k] * rhs[k][j]` for `k = 0, 1, …, K-1` in this
order, lhs factor on the left, each `k` once, summed left to right -/
def entry (mul : L → R → U) (add : U → U → U) (a : Nat → Nat → Option L) (b : Nat → Nat → Option R)
    (K i j : Nat) : Option U :=
  sumLeft add ((List.range K).filterMap fun k => (a i k).bind fun x => (b k j).map fun y => mul x y)

/-- row `i` of a logical view, as the list of its `K` entries -/
def rowOf {α : Type} (a : Nat → Nat → Option α) (K i : Nat) : List (Option α) := (List.range K).map (a i)
/-- column `j` of a logical view -/
def colOf {α : Type} (b : Nat → Nat → Option α) (K j : Nat) : List (Option α) := (List.range K).map (fun k => b k j)

/-- the body shared by both products, for any `cell` that does not fault on two slices of the
inner length: no fault, result in lhs's order with shape `nrows(lhs) × ncols(rhs)`, coherent, and
each position holds `U::default()` (zero inner dimension) or the value `cell` returned on row `i`
of lhs and column `j` of rhs -/
theorem mulLike_spec (esOut : Nat) (a : Matrix L) (b : Matrix R) (cell : List L → List R → M U)
    (dflt : U)
    (ha : a.Coh) (hb : b.Coh) (hfa : a.data.size ≤ usizeMax) (hfb : b.data.size ≤ usizeMax)
    (hconf : a.ncols = b.nrows)
    (hsz : a.nrows * b.ncols ≤ usizeMax) (hcap : esOut * (a.nrows * b.ncols) ≤ isizeMax)
    (hcell : a.ncols ≠ 0 → ∀ ls rs, ls.length = a.ncols → rs.length = a.ncols →
      ∃ u, cell ls rs = .ok u) :
    ∃ c, mulLike false false esOut a b cell dflt = .ok (.ok c) ∧ c.order = a.order ∧
      c.nrows = a.nrows ∧ c.ncols = b.ncols ∧ c.Coh ∧
      ∀ i j, i < a.nrows → j < b.ncols →
        if a.ncols = 0 then c.at? i j = some dflt
        else ∃ ls rs u, cell ls rs = .ok u ∧ c.at? i j = some u ∧
          ls.length = a.ncols ∧ rs.length = a.ncols ∧
          (∀ k, k < a.ncols → ls[k]? = a.at? i k) ∧ (∀ k, k < a.ncols → rs[k]? = b.at? k j) := by
  have e1 : a.hdr.ncols = a.ncols := rfl
  have e2 : a.hdr.nrows = a.nrows := rfl
  have e3 : b.hdr.ncols = b.ncols := rfl
  have e4 : b.hdr.nrows = b.nrows := rfl
  have e5 : a.hdr.order = a.order := rfl
  have hdec : mulDecision esOut a.hdr b.hdr =
      .ok (.ok ((Shape.mk a.nrows b.ncols).toAxis a.order, a.nrows * b.ncols)) := by
    rw [C08.mulDecision_spec, e1, e2, e3, e4, e5]
    simp [hconf, Nat.not_lt.mpr hsz, Nat.not_lt.mpr hcap]
  simp only [mulLike, hdec, Bridge.ncols, Bridge.nrows, e1, e2, e3, bind, Except.bind, bindErr, pure,
    Except.pure]
  by_cases hK : a.ncols = 0
  · simp only [hK, ↓reduceIte]
    obtain ⟨r1, r2, r3⟩ := result_shape a.order a.nrows b.ncols
      (Array.replicate (a.nrows * b.ncols) dflt) (by simp)
    refine ⟨_, rfl, rfl, r1, r2, r3, ?_⟩
    intro i j hi hj
    generalize a.order = o
    cases o
    · rw [result_at?_rowMajor _ _ _ _ _ hi hj, Array.getElem?_replicate]
      simp [flat_lt hi hj]
    · rw [result_at?_colMajor _ _ _ _ _ hi hj, Array.getElem?_replicate]
      have := flat_lt hj hi
      rw [Nat.mul_comm b.ncols] at this
      simp [this]
  · obtain ⟨a', a1, a2, a3, a4, a5, a6⟩ := C05.setOrder_spec a ha hfa .rowMajor
    obtain ⟨b', b1, b2, b3, b4, b5, b6⟩ := C05.setOrder_spec b hb hfb .colMajor
    have hsa : a'.data.size = a.data.size := by
      rw [← a'.nrows_mul_ncols a2, ← a.nrows_mul_ncols ha, a4, a5]
    have hsb : b'.data.size = b.data.size := by
      rw [← b'.nrows_mul_ncols b2, ← b.nrows_mul_ncols hb, b4, b5]
    have hc : ∀ i j, i < a.nrows → j < b.ncols → _ := fun i j hi hj =>
      cellAt_spec a' b' cell a.ncols a2 b2 (by omega) (by omega) a3 b3 a5 (by omega) (hcell hK)
        i j (by omega) (by omega)
    simp only [bind, Except.bind, a6, b6] at hc
    simp only [hK, ↓reduceIte, a1, b1]
    cases ho : a.order
    · obtain ⟨d', h1, h2, h3⟩ := nestLoop_rel _ _ b.ncols a.nrows hc
      simp only [h1]
      obtain ⟨r1, r2, r3⟩ := result_shape .rowMajor a.nrows b.ncols d' h2
      refine ⟨_, rfl, rfl, r1, r2, r3, ?_⟩
      intro i j hi hj
      obtain ⟨u, hu, ls, rs, hp⟩ := h3 i j hi hj
      rw [result_at?_rowMajor _ _ _ _ _ hi hj]
      exact ⟨ls, rs, u, hp.1, hu, hp.2⟩
    · obtain ⟨d', h1, h2, h3⟩ := nestLoop_rel _ _ a.nrows b.ncols (fun j i hj hi => hc i j hi hj)
      simp only [h1]
      obtain ⟨r1, r2, r3⟩ := result_shape .colMajor a.nrows b.ncols d' (by rw [h2, Nat.mul_comm])
      refine ⟨_, rfl, rfl, r1, r2, r3, ?_⟩
      intro i j hi hj
      obtain ⟨u, hu, ls, rs, hp⟩ := h3 j i hj hi
      rw [result_at?_colMajor _ _ _ _ _ hi hj]
      exact ⟨ls, rs, u, hp.1, hu, hp.2⟩

/-- non-conformable operands ⇒ `ShapeNotConformable`, before any size error (C08) -/
theorem multiply_not_conformable (zL zR : Bool) (esOut : Nat) (a : Matrix L) (b : Matrix R)
    (mul : L → R → U) (add : U → U → U) (dflt : U) (h : a.ncols ≠ b.nrows) :
    a.multiply zL zR esOut b mul add dflt = .ok (.error .shapeNotConformable) := by
  have e1 : a.hdr.ncols = a.ncols := rfl
  have e4 : b.hdr.nrows = b.nrows := rfl
  simp only [Matrix.multiply, mulLike, C08.mulDecision_spec, e1, e4, bind, Except.bind]
  simp [h, bindErr]

/-- C11 headline for sized element types: conformable coherent operands whose result fits ⇒
no fault anywhere (every unchecked slice in range, `unwrap_unchecked` never applied to `None`,
no overflow in the offset arithmetic, the `set_order` transposes terminate), the result has
lhs's order and shape `nrows(lhs) × ncols(rhs)`, is coherent, and its `(i, j)` element is
`U::default()` when the inner dimension is zero and the textbook entry otherwise. -/
theorem multiply_spec (esOut : Nat) (a : Matrix L) (b : Matrix R)
    (mul : L → R → U) (add : U → U → U) (dflt : U)
    (ha : a.Coh) (hb : b.Coh) (hfa : a.data.size ≤ usizeMax) (hfb : b.data.size ≤ usizeMax)
    (hconf : a.ncols = b.nrows)
    (hsz : a.nrows * b.ncols ≤ usizeMax) (hcap : esOut * (a.nrows * b.ncols) ≤ isizeMax) :
    ∃ c, a.multiply false false esOut b mul add dflt = .ok (.ok c) ∧ c.order = a.order ∧
      c.nrows = a.nrows ∧ c.ncols = b.ncols ∧ c.Coh ∧
      ∀ i j, i < a.nrows → j < b.ncols →
        c.at? i j = if a.ncols = 0 then some dflt else entry mul add a.at? b.at? a.ncols i j := by
  obtain ⟨c, h1, h2, h3, h4, h5, h6⟩ := mulLike_spec esOut a b
    (fun ls rs => unwrapUnchecked (dotProduct mul add ls rs)) dflt ha hb hfa hfb hconf hsz hcap
    (fun hK ls rs hl hr => by
      obtain ⟨u, hu, _⟩ := dotProduct_ok mul add ls rs a.ncols hK hl hr; exact ⟨u, hu⟩)
  refine ⟨c, h1, h2, h3, h4, h5, ?_⟩
  intro i j hi hj
  have h7 := h6 i j hi hj
  by_cases hK : a.ncols = 0
  · simpa [hK] using h7
  · simp only [hK, ↓reduceIte] at h7 ⊢
    obtain ⟨ls, rs, u, hu, hat, hl, hr, hla, hrb⟩ := h7
    obtain ⟨u', hu1, hu2⟩ := dotProduct_ok mul add ls rs a.ncols hK hl hr
    rw [hu1] at hu
    cases hu
    have hp := products_spec mul ls rs a.ncols (fun k => a.at? i k) (fun k => b.at? k j) hl hr hla hrb
    have hd : dotProduct mul add ls rs = sumLeft add (List.zipWith mul ls rs) := by
      unfold dotProduct
      cases List.zipWith mul ls rs <;> rfl
    rw [hat, ← hu2, hd, hp]
    rfl

/-- `multiplication_like_operation`: for each `(i, j)` the closure receives row `i` of lhs and
column `j` of rhs — two slices of equal length `K ≥ 1` whose `k`-th entries are `lhs[i][k]` and
`rhs[k][j]` — exactly once (the result holds one closure value per position); with `K = 0` the
closure is never called and every element is `U::default()`. -/
theorem multiplicationLike_spec (esOut : Nat) (a : Matrix L) (b : Matrix R)
    (op : List L → List R → U) (dflt : U)
    (ha : a.Coh) (hb : b.Coh) (hfa : a.data.size ≤ usizeMax) (hfb : b.data.size ≤ usizeMax)
    (hconf : a.ncols = b.nrows)
    (hsz : a.nrows * b.ncols ≤ usizeMax) (hcap : esOut * (a.nrows * b.ncols) ≤ isizeMax) :
    ∃ c, a.multiplicationLike false false esOut b op dflt = .ok (.ok c) ∧ c.order = a.order ∧
      c.nrows = a.nrows ∧ c.ncols = b.ncols ∧ c.Coh ∧
      ∀ i j, i < a.nrows → j < b.ncols →
        if a.ncols = 0 then c.at? i j = some dflt
        else ∃ ls rs, c.at? i j = some (op ls rs) ∧ ls.length = a.ncols ∧ rs.length = a.ncols ∧
          ls.map some = rowOf a.at? a.ncols i ∧ rs.map some = colOf b.at? a.ncols j := by
  obtain ⟨c, h1, h2, h3, h4, h5, h6⟩ := mulLike_spec esOut a b
    (fun ls rs => .ok (op ls rs)) dflt ha hb hfa hfb hconf hsz hcap
    (fun _ ls rs _ _ => ⟨_, rfl⟩)
  refine ⟨c, h1, h2, h3, h4, h5, ?_⟩
  intro i j hi hj
  have h7 := h6 i j hi hj
  by_cases hK : a.ncols = 0
  · simpa [hK] using h7
  · simp only [hK, ↓reduceIte] at h7 ⊢
    obtain ⟨ls, rs, u, hu, hat, hl, hr, hla, hrb⟩ := h7
    cases hu
    exact ⟨ls, rs, hat, hl, hr, map_some_eq_range ls a.ncols _ hl hla,
      map_some_eq_range rs a.ncols _ hr hrb⟩

/-! ### non-vacuity: free terms (no law identifies `x*y` with `y*x` or re-associates sums) -/

inductive T where
  | var (n : Nat)
  | mul (a b : T)
  | add (a b : T)
  | dflt
  deriving DecidableEq, Repr

def a12 : Matrix T := ⟨.colMajor, ⟨2, 1⟩, #[.var 0, .var 1]⟩           -- logical 1×2, column-major
def b21 : Matrix T := ⟨.rowMajor, ⟨2, 1⟩, #[.var 2, .var 3]⟩           -- logical 2×1, row-major
example : a12.Coh ∧ b21.Coh ∧ a12.ncols = b21.nrows := ⟨⟨rfl⟩, ⟨rfl⟩, rfl⟩
example : (a12.multiply false false 8 b21 T.mul T.add T.dflt).map (·.map (fun c => (c.order, c.data.toList))) =
    .ok (.ok (.colMajor, [T.add (T.mul (.var 0) (.var 2)) (T.mul (.var 1) (.var 3))])) := by rfl


/-- the products the theorems of this file are about ARE the source's functions: `multiply`
(`src/arithmetic/mul.rs`), `multiplication_like_operation`, `get_nth_major_axis_vector` and the
conformability guard (`src/arithmetic.rs`) and `dot_product`, regenerated on every run
(`Gen/T10Gen.lean`, translator T10 — the position of every `?`, every condition, receiver and
argument, operand order of `*` and `+`, loop bounds and nesting, the `match` on the order, the
early return for a zero inner dimension, which element type each capacity check measures) equal
the model's functions, `Error` results and faults included, with no hypothesis -/
theorem products_are_the_source (zstL zstR : Bool) (esL esR esOut : Nat) (a : Matrix L) (b : Matrix R)
    (mul : L → R → U) (add : U → U → U) (op : List L → List R → U) (dflt : U) :
    Gen.Matrix.multiply zstL zstR esL esR esOut a b mul add dflt = a.multiply zstL zstR esOut b mul add dflt ∧
    Gen.Matrix.multiplication_like_operation zstL zstR esL esR esOut a b op dflt =
      a.multiplicationLike zstL zstR esOut b op dflt :=
  ⟨BridgeT10.multiply_is_the_source zstL zstR esL esR esOut a b mul add dflt,
   BridgeT10.multiplication_like_is_the_source zstL zstR esL esR esOut a b op dflt⟩

end Matreex.C11
