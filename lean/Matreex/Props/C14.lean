/-
C14 — overwrite copies exactly the overlapping top-left block.
-/
import Matreex.Lemmas.OverwriteCross
import Matreex.Lemmas.Matrix
import Matreex.Lemmas.BridgeOverwrite

namespace Matreex.C14
open Matreex
variable {α : Type}

/-- same-order branch, data level: no unchecked slice is out of range, no length-mismatch panic,
the top-left `min × min` block is cloned from the source, everything else is untouched -/
theorem overwriteSame_spec (clone : α → α) (dsh : AxisShape) (d : Array α) (ssh : AxisShape) (s : Array α)
    (hd : dsh.major * dsh.minor = d.size) (hs : ssh.major * ssh.minor = s.size) :
    ∃ d', rowsLoop clone dsh ssh (min dsh.minor ssh.minor) s (min dsh.major ssh.major) 0 d = .ok d' ∧
      d'.size = d.size ∧
      ∀ r c, r < dsh.major → c < dsh.minor →
        d'[r * dsh.minor + c]? =
          if r < min dsh.major ssh.major ∧ c < min dsh.minor ssh.minor
          then (s[r * ssh.minor + c]?).map clone else d[r * dsh.minor + c]? := by
  obtain ⟨d', h1, h2, h3⟩ := rowsLoop_spec clone dsh ssh (min dsh.minor ssh.minor) s
    (Nat.min_le_left _ _) (Nat.min_le_right _ _) hs (min dsh.major ssh.major) 0 d hd
    (by simp; exact Nat.min_le_left _ _) (by simp; exact Nat.min_le_right _ _)
  refine ⟨d', h1, h2, ?_⟩
  intro r c hr hc
  rw [h3 r c hr hc]
  simp

/-- cross-order branch, data level: destination vector `r`, position `c` receives the clone of
source vector `c`, position `r`; no `step_by(0)`, no slice out of range -/
theorem overwriteCross_spec (clone : α → α) (dsh : AxisShape) (d : Array α) (ssh : AxisShape) (s : Array α)
    (hd : dsh.major * dsh.minor = d.size) (hs : ssh.major * ssh.minor = s.size) :
    ∃ d', crossLoop clone dsh ssh (min dsh.minor ssh.major) s (min dsh.major ssh.minor) 0 d = .ok d' ∧
      d'.size = d.size ∧
      ∀ r c, r < dsh.major → c < dsh.minor →
        d'[r * dsh.minor + c]? =
          if r < min dsh.major ssh.minor ∧ c < min dsh.minor ssh.major
          then (s[c * ssh.minor + r]?).map clone else d[r * dsh.minor + c]? := by
  obtain ⟨d', h1, h2, h3⟩ := crossLoop_spec clone dsh ssh (min dsh.minor ssh.major) s
    (Nat.min_le_left _ _) (Nat.min_le_right _ _) hs (min dsh.major ssh.minor) 0 d hd
    (by simp; exact Nat.min_le_left _ _) (by simp; exact Nat.min_le_right _ _)
  refine ⟨d', h1, h2, ?_⟩
  intro r c hr hc
  rw [h3 r c hr hc]
  simp

/-- C14 headline, all four storage-order combinations: `dest.overwrite(&src)` never faults; the
result keeps dest's order and shape; `result[r][c]` is the clone of `src[r][c]` inside the
`min(nrows) × min(ncols)` block and `dest[r][c]` elsewhere. (The source is an immutable
argument of the model: it cannot change.) -/
theorem overwrite_spec (clone : α → α) (dst src : Matrix α) (hd : dst.Coh) (hs : src.Coh) :
    ∃ m', dst.overwrite clone src = .ok m' ∧ m'.order = dst.order ∧ m'.shape = dst.shape ∧ m'.Coh ∧
      ∀ r c, m'.at? r c =
        if r < min dst.nrows src.nrows ∧ c < min dst.ncols src.ncols
        then (src.at? r c).map clone else dst.at? r c := by
  obtain ⟨od, dsh, d⟩ := dst
  obtain ⟨os, ssh, s⟩ := src
  have hd' : dsh.major * dsh.minor = d.size := hd.size_eq
  have hs' : ssh.major * ssh.minor = s.size := hs.size_eq
  have same := overwriteSame_spec clone dsh d ssh s hd' hs'
  have cross := overwriteCross_spec clone dsh d ssh s hd' hs'
  cases od <;> cases os
  all_goals
    simp only [Matrix.overwrite, reduceCtorEq, ↓reduceIte]
  -- the four combinations: R/R and C/C use `same`, R/C and C/R use `cross`
  · obtain ⟨d', h1, h2, h3⟩ := same
    refine ⟨_, by rw [h1], rfl, rfl, ⟨by rw [h2]; exact hd'⟩, ?_⟩
    intro r c
    simp only [Matrix.at?, Matrix.nrows, Matrix.ncols, AxisShape.nrows, AxisShape.ncols, Matrix.idx,
      Index.flat, AxisIndex.flat, AxisIndex.ofIndex]
    by_cases hr : r < dsh.major <;> by_cases hc : c < dsh.minor
    · simp only [hr, hc, and_self, ↓reduceIte, h3 r c hr hc]
      by_cases hb : r < min dsh.major ssh.major ∧ c < min dsh.minor ssh.minor
      · have : r < ssh.major ∧ c < ssh.minor := by omega
        simp [hb, this]
      · simp [hb]
    · have : ¬ (r < min dsh.major ssh.major ∧ c < min dsh.minor ssh.minor) := by omega
      simp [hc, this]
    · have : ¬ (r < min dsh.major ssh.major ∧ c < min dsh.minor ssh.minor) := by omega
      simp [hr, this]
    · have : ¬ (r < min dsh.major ssh.major ∧ c < min dsh.minor ssh.minor) := by omega
      simp [hr, this]
  · obtain ⟨d', h1, h2, h3⟩ := cross
    refine ⟨_, by rw [h1], rfl, rfl, ⟨by rw [h2]; exact hd'⟩, ?_⟩
    intro r c
    simp only [Matrix.at?, Matrix.nrows, Matrix.ncols, AxisShape.nrows, AxisShape.ncols, Matrix.idx,
      Index.flat, AxisIndex.flat, AxisIndex.ofIndex]
    by_cases hr : r < dsh.major <;> by_cases hc : c < dsh.minor
    · simp only [hr, hc, and_self, ↓reduceIte, h3 r c hr hc]
      by_cases hb : r < min dsh.major ssh.minor ∧ c < min dsh.minor ssh.major
      · have : r < ssh.minor ∧ c < ssh.major := by omega
        simp [hb, this]
      · simp [hb]
    · have : ¬ (r < min dsh.major ssh.minor ∧ c < min dsh.minor ssh.major) := by omega
      simp [hc, this]
    · have : ¬ (r < min dsh.major ssh.minor ∧ c < min dsh.minor ssh.major) := by omega
      simp [hr, this]
    · have : ¬ (r < min dsh.major ssh.minor ∧ c < min dsh.minor ssh.major) := by omega
      simp [hr, this]
  · obtain ⟨d', h1, h2, h3⟩ := cross
    refine ⟨_, by rw [h1], rfl, rfl, ⟨by rw [h2]; exact hd'⟩, ?_⟩
    intro r c
    simp only [Matrix.at?, Matrix.nrows, Matrix.ncols, AxisShape.nrows, AxisShape.ncols, Matrix.idx,
      Index.flat, AxisIndex.flat, AxisIndex.ofIndex]
    by_cases hr : r < dsh.minor <;> by_cases hc : c < dsh.major
    · simp only [hr, hc, and_self, ↓reduceIte, h3 c r hc hr]
      by_cases hb : c < min dsh.major ssh.minor ∧ r < min dsh.minor ssh.major
      · have : r < ssh.major ∧ c < ssh.minor := by omega
        have hb' : r < min dsh.minor ssh.major ∧ c < min dsh.major ssh.minor := ⟨hb.2, hb.1⟩
        simp [hb, hb', this]
      · have hb' : ¬ (r < min dsh.minor ssh.major ∧ c < min dsh.major ssh.minor) := fun h => hb ⟨h.2, h.1⟩
        simp [hb, hb']
    · have : ¬ (r < min dsh.minor ssh.major ∧ c < min dsh.major ssh.minor) := by omega
      simp [hc, this]
    · have : ¬ (r < min dsh.minor ssh.major ∧ c < min dsh.major ssh.minor) := by omega
      simp [hr, this]
    · have : ¬ (r < min dsh.minor ssh.major ∧ c < min dsh.major ssh.minor) := by omega
      simp [hr, this]
  · obtain ⟨d', h1, h2, h3⟩ := same
    refine ⟨_, by rw [h1], rfl, rfl, ⟨by rw [h2]; exact hd'⟩, ?_⟩
    intro r c
    simp only [Matrix.at?, Matrix.nrows, Matrix.ncols, AxisShape.nrows, AxisShape.ncols, Matrix.idx,
      Index.flat, AxisIndex.flat, AxisIndex.ofIndex]
    by_cases hr : r < dsh.minor <;> by_cases hc : c < dsh.major
    · simp only [hr, hc, and_self, ↓reduceIte, h3 c r hc hr]
      by_cases hb : c < min dsh.major ssh.major ∧ r < min dsh.minor ssh.minor
      · have : r < ssh.minor ∧ c < ssh.major := by omega
        have hb' : r < min dsh.minor ssh.minor ∧ c < min dsh.major ssh.major := ⟨hb.2, hb.1⟩
        simp [hb, hb', this]
      · have hb' : ¬ (r < min dsh.minor ssh.minor ∧ c < min dsh.major ssh.major) := fun h => hb ⟨h.2, h.1⟩
        simp [hb, hb']
    · have : ¬ (r < min dsh.minor ssh.minor ∧ c < min dsh.major ssh.major) := by omega
      simp [hc, this]
    · have : ¬ (r < min dsh.minor ssh.minor ∧ c < min dsh.major ssh.major) := by omega
      simp [hr, this]
    · have : ¬ (r < min dsh.minor ssh.minor ∧ c < min dsh.major ssh.major) := by omega
      simp [hr, this]

/-! ### non-vacuity -/

def dst : Matrix String := ⟨.rowMajor, ⟨2, 3⟩, #["a", "b", "c", "d", "e", "f"]⟩
def src : Matrix String := ⟨.colMajor, ⟨2, 3⟩, #["1", "2", "3", "4", "5", "6"]⟩   -- logical 3×2
example : dst.Coh ∧ src.Coh := ⟨⟨rfl⟩, ⟨rfl⟩⟩
example : (dst.overwrite (· ++ "'") src).map (·.data.toList) = .ok ["1'", "4'", "c", "2'", "5'", "f"] := by rfl

/-- the `overwrite` the theorems of this file are about IS the source's function: the definition
regenerated from `src/lib.rs` on every run (`Gen/OverwriteGen.lean`, translator T6 — the branch
condition, the operands of each `min`, the loop bounds, every offset expression with checked
arithmetic, the ranges handed to `get_unchecked_mut` / `get_unchecked`, the `skip` / `step_by`
arguments: all taken from the Rust statements) leaves the same destination buffer, with the same
faults, as the model's `Matrix.overwrite`, for all coherent matrices of representable size -/
theorem overwrite_is_the_source (clone : α → α) (dst src : Matrix α)
    (hd : dst.Coh) (hs : src.Coh) (hfd : dst.data.size ≤ usizeMax) (hfs : src.data.size ≤ usizeMax) :
    Gen.Matrix.overwrite clone dst.hdr dst.data src.hdr src.data = (dst.overwrite clone src).map (·.data) :=
  BridgeOverwrite.overwrite_bridge clone dst src hd hs hfd hfs

end Matreex.C14
