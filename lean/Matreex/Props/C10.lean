/-
C10 — swaps exchange exactly the named elements, rows or columns for every index pair.
-/
import Matreex.Model.Swap
import Matreex.Lemmas.Bridge
import Matreex.Lemmas.Matrix
import Matreex.Props.C04
import Matreex.Gen.OrderDispatch
import Matreex.Lemmas.BridgeKernels

namespace Matreex.C10
open Matreex
variable {α : Type}

/-- which window `[i*m, i*m + m)` does position `r*m + c` (with `c < m`) fall into? -/
theorem win {m r c : Nat} (hc : c < m) (i : Nat) :
    (i * m ≤ r * m + c ∧ r * m + c < i * m + m) ↔ r = i := by
  constructor
  · rintro ⟨h1, h2⟩
    rcases Nat.lt_trichotomy r i with h | h | h
    · have : (r + 1) * m ≤ i * m := Nat.mul_le_mul_right _ h
      rw [Nat.add_mul] at this; omega
    · exact h
    · have : (i + 1) * m ≤ r * m := Nat.mul_le_mul_right _ h
      rw [Nat.add_mul] at this; omega
  · rintro rfl; omega

theorem getElem?_swap' (xs : Array α) (i j k : Nat) (hi : i < xs.size) (hj : j < xs.size) :
    (xs.swap i j hi hj)[k]? = if k = i then xs[j]? else if k = j then xs[i]? else xs[k]? := by
  rw [Array.getElem?_swap]
  by_cases h1 : k = i
  · subst h1
    by_cases h2 : j = k
    · subst h2; simp
    · simp [h2, Array.getElem?_eq_getElem hj]
  · by_cases h2 : k = j
    · subst h2; simp [h1, Array.getElem?_eq_getElem hi]
    · have h1' : ¬ i = k := fun e => h1 e.symm
      have h2' : ¬ j = k := fun e => h2 e.symm
      simp [h1, h2, h1', h2']

/-- Contiguous axis, data level: for every valid pair — equal or not — no UB; the two vectors are
exchanged element by element and everything else stays; an invalid index is `IndexOutOfBounds`
with the matrix unchanged. -/
theorem swapMajor_spec (es : Nat) (m : Matrix α) (h : m.Coh) (hfit : m.data.size ≤ usizeMax) (a b : Nat) :
    (a < m.shape.major ∧ b < m.shape.major →
      ∃ d', m.swapMajor es a b = .ok (.ok (), { m with data := d' }) ∧ d'.size = m.data.size ∧
        ∀ r c, r < m.shape.major → c < m.shape.minor →
          d'[r * m.shape.minor + c]? =
            m.data[(if r = a then b else if r = b then a else r) * m.shape.minor + c]?) ∧
    (¬ (a < m.shape.major ∧ b < m.shape.major) →
      m.swapMajor es a b = .ok (.error .indexOutOfBounds, m)) := by
  obtain ⟨o, sh, d⟩ := m
  have hd : sh.major * sh.minor = d.size := h.size_eq
  simp only at hfit ⊢
  constructor
  · rintro ⟨hm, hn⟩
    have hb : ¬ (a ≥ sh.major ∨ b ≥ sh.major) := by omega
    by_cases hmn : a = b
    · subst hmn
      refine ⟨d, by simp [Matrix.swapMajor, hm], rfl, ?_⟩
      intro r c _ _
      by_cases hr : r = a <;> simp [hr]
    · have hmU := row_le (m := sh.minor) hm
      have hnU := row_le (m := sh.minor) hn
      have hin : a * sh.minor + sh.minor ≤ d.size ∧ b * sh.minor + sh.minor ≤ d.size := by omega
      have hdis : ¬ (a * sh.minor < b * sh.minor + sh.minor ∧ b * sh.minor < a * sh.minor + sh.minor) := by
        rintro ⟨h1, h2⟩
        rcases Nat.lt_or_gt_of_ne hmn with h | h
        · have : (a + 1) * sh.minor ≤ b * sh.minor := Nat.mul_le_mul_right _ h
          rw [Nat.add_mul] at this; omega
        · have : (b + 1) * sh.minor ≤ a * sh.minor := Nat.mul_le_mul_right _ h
          rw [Nat.add_mul] at this; omega
      have ha' : a * sh.minor ≤ usizeMax := by omega
      have hb' : b * sh.minor ≤ usizeMax := by omega
      refine ⟨_, by
        unfold Matrix.swapMajor swapNonoverlapping
        simp only [bind, Except.bind, pure, Except.pure]
        rw [if_neg hb, if_neg hmn, umul_ok ha', umul_ok hb']
        simp only
        rw [if_neg (fun h => h hin), if_neg (fun h => hdis h.2)], by simp, ?_⟩
      intro r c hr hc
      have hk : r * sh.minor + c < d.size := by rw [← hd]; exact flat_lt hr hc
      rw [Array.getElem?_ofFn]
      simp only [hk, ↓reduceDIte]
      by_cases h1 : r = a
      · subst h1
        have w := (win hc r).mpr rfl
        simp only [w, and_self, ↓reduceIte]
        have e : b * sh.minor + (r * sh.minor + c - r * sh.minor) = b * sh.minor + c := by omega
        have hlt : b * sh.minor + c < d.size := by omega
        rw [e, Array.getElem?_eq_getElem hlt]; simp
      · have w1 : ¬ (a * sh.minor ≤ r * sh.minor + c ∧ r * sh.minor + c < a * sh.minor + sh.minor) :=
          fun h => h1 ((win hc a).mp h)
        simp only [w1, ↓reduceIte, h1]
        by_cases h2 : r = b
        · subst h2
          have w := (win hc r).mpr rfl
          simp only [w, and_self, ↓reduceIte]
          have e : a * sh.minor + (r * sh.minor + c - r * sh.minor) = a * sh.minor + c := by omega
          have hlt : a * sh.minor + c < d.size := by omega
          rw [e, Array.getElem?_eq_getElem hlt]; simp
        · have w2 : ¬ (b * sh.minor ≤ r * sh.minor + c ∧ r * sh.minor + c < b * sh.minor + sh.minor) :=
            fun h => h2 ((win hc b).mp h)
          simp only [w2, ↓reduceIte, h2]
          rw [Array.getElem?_eq_getElem hk]
          rfl
  · intro h
    have : a ≥ sh.major ∨ b ≥ sh.major := by omega
    simp [Matrix.swapMajor, this]

/-- The code as it stood before the repair (`fix:` commit, see known_findings.json) is UB for
`m = n` on a non-empty vector of sized elements: witness 2×3, 4-byte elements, `swap_rows(1, 1)`. -/
theorem pinned_self_swap_ub :
    swapNonoverlapping 4 #[1, 2, 3, 4, 5, 6] 3 3 3 =
      .error (.ub "ptr::swap_nonoverlapping: ranges overlap") := by rfl

/-- Strided axis, loop invariant: after the iterations `0 .. major - todo - 1` the first
`major - todo` vectors have positions `a`, `b` exchanged and the rest is untouched. -/
theorem swapMinorLoop_spec (sh : AxisShape) (a b : Nat) (ha : a < sh.minor) (hb : b < sh.minor)
    (d0 : Array α) (hd0 : sh.major * sh.minor = d0.size) (hfit : d0.size ≤ usizeMax) :
    ∀ (todo : Nat) (d : Array α), todo ≤ sh.major → d.size = d0.size →
      (∀ r c, r < sh.major → c < sh.minor → d[r * sh.minor + c]? =
        d0[r * sh.minor + (if r < sh.major - todo then (if c = a then b else if c = b then a else c) else c)]?) →
      ∃ d', swapMinorLoop sh a b todo d = .ok d' ∧ d'.size = d0.size ∧
        ∀ r c, r < sh.major → c < sh.minor → d'[r * sh.minor + c]? =
          d0[r * sh.minor + (if c = a then b else if c = b then a else c)]? := by
  intro todo
  induction todo with
  | zero =>
    intro d _ hsz hinv
    refine ⟨d, rfl, hsz, ?_⟩
    intro r c hr hc
    have := hinv r c hr hc
    simpa [hr] using this
  | succ todo ih =>
    intro d hle hsz hinv
    have hi : sh.major - (todo + 1) < sh.major := by omega
    have hx : (sh.major - (todo + 1)) * sh.minor + a < d0.size := by rw [← hd0]; exact flat_lt hi ha
    have hy : (sh.major - (todo + 1)) * sh.minor + b < d0.size := by rw [← hd0]; exact flat_lt hi hb
    have h1 : (sh.major - (todo + 1)) * sh.minor ≤ usizeMax := by omega
    unfold swapMinorLoop
    simp only [bind, Except.bind, umul_ok h1, uadd_ok (by omega : (sh.major - (todo + 1)) * sh.minor + a ≤ usizeMax),
      uadd_ok (by omega : (sh.major - (todo + 1)) * sh.minor + b ≤ usizeMax)]
    have hsw : (sh.major - (todo + 1)) * sh.minor + a < d.size ∧ (sh.major - (todo + 1)) * sh.minor + b < d.size := by
      omega
    simp only [ptrSwap, hsw, and_self, ↓reduceDIte]
    apply ih _ (by omega) (by simp [hsz])
    intro r c hr hc
    rw [getElem?_swap']
    have hrc := hinv r c hr hc
    have hra := hinv (sh.major - (todo + 1)) a hi ha
    have hrb := hinv (sh.major - (todo + 1)) b hi hb
    simp only [Nat.lt_irrefl, ↓reduceIte] at hra hrb
    by_cases hri : r = sh.major - (todo + 1)
    · subst hri
      have hlt : sh.major - (todo + 1) < sh.major - todo := by omega
      simp only [hlt, ↓reduceIte]
      simp only [Nat.lt_irrefl, ↓reduceIte] at hrc
      by_cases hca : c = a
      · subst hca
        simp only [↓reduceIte]
        exact hrb
      · by_cases hcb : c = b
        · subst hcb
          have e1 : ¬ ((sh.major - (todo + 1)) * sh.minor + c = (sh.major - (todo + 1)) * sh.minor + a) := by omega
          simp only [e1, ↓reduceIte, hca]
          exact hra
        · have e1 : ¬ ((sh.major - (todo + 1)) * sh.minor + c = (sh.major - (todo + 1)) * sh.minor + a) := by omega
          have e2 : ¬ ((sh.major - (todo + 1)) * sh.minor + c = (sh.major - (todo + 1)) * sh.minor + b) := by omega
          simp only [e1, e2, ↓reduceIte, hca, hcb]
          exact hrc
    · have e1 : ¬ (r * sh.minor + c = (sh.major - (todo + 1)) * sh.minor + a) := by
        intro e; exact hri (flat_inj hc ha e).1
      have e2 : ¬ (r * sh.minor + c = (sh.major - (todo + 1)) * sh.minor + b) := by
        intro e; exact hri (flat_inj hc hb e).1
      simp only [e1, e2, ↓reduceIte]
      rw [hrc]
      by_cases hlt : r < sh.major - (todo + 1)
      · have : r < sh.major - todo := by omega
        simp only [hlt, this, ↓reduceIte]
      · have : ¬ r < sh.major - todo := by omega
        simp only [hlt, this, ↓reduceIte]

/-- Strided axis, data level. -/
theorem swapMinor_spec (m : Matrix α) (h : m.Coh) (hfit : m.data.size ≤ usizeMax) (a b : Nat)
    (hau : a ≤ usizeMax) (hbu : b ≤ usizeMax) :
    (a < m.shape.minor ∧ b < m.shape.minor →
      ∃ d', m.swapMinor a b = .ok (.ok (), { m with data := d' }) ∧ d'.size = m.data.size ∧
        ∀ r c, r < m.shape.major → c < m.shape.minor →
          d'[r * m.shape.minor + c]? =
            m.data[r * m.shape.minor + (if c = a then b else if c = b then a else c)]?) ∧
    (¬ (a < m.shape.minor ∧ b < m.shape.minor) →
      m.swapMinor a b = .ok (.error .indexOutOfBounds, m)) := by
  constructor
  · rintro ⟨ha, hb⟩
    have hnb : ¬ (a ≥ m.shape.minor ∨ b ≥ m.shape.minor) := by omega
    obtain ⟨d', h1, h2, h3⟩ := swapMinorLoop_spec m.shape a b ha hb m.data h.size_eq hfit m.shape.major m.data
      (Nat.le_refl _) rfl (by intro r c hr hc; simp)
    refine ⟨d', ?_, h2, h3⟩
    unfold Matrix.swapMinor
    rw [if_neg hnb]
    simp only [bind, Except.bind, umul_ok (by omega : a * 1 ≤ usizeMax), umul_ok (by omega : b * 1 ≤ usizeMax),
      Nat.mul_one, h1, pure, Except.pure]
  · intro hne
    have : a ≥ m.shape.minor ∨ b ≥ m.shape.minor := by omega
    simp [Matrix.swapMinor, this]

/-- the row permutation `swap_rows(a, b)` stands for -/
def sw (a b x : Nat) : Nat := if x = a then b else if x = b then a else x

/-- C10, logical level: `swap_rows(a, b)` on a coherent matrix, both storage orders. Valid pair
(equal or not): `result[r][c] = original[sw a b r][c]`, shape and order unchanged, no fault.
Invalid index: `IndexOutOfBounds` and the matrix is returned unchanged. -/
theorem swapRows_spec (es : Nat) (m : Matrix α) (h : m.Coh) (hfit : m.data.size ≤ usizeMax) (a b : Nat)
    (hau : a ≤ usizeMax) (hbu : b ≤ usizeMax) :
    (a < m.nrows ∧ b < m.nrows →
      ∃ m', m.swapRows es a b = .ok (.ok (), m') ∧ m'.order = m.order ∧ m'.shape = m.shape ∧
        m'.data.size = m.data.size ∧ ∀ r c, m'.at? r c = m.at? (sw a b r) c) ∧
    (¬ (a < m.nrows ∧ b < m.nrows) → m.swapRows es a b = .ok (.error .indexOutOfBounds, m)) := by
  obtain ⟨o, sh, d⟩ := m
  cases o
  · -- row-major: rows are the contiguous axis
    have hs := swapMajor_spec es ⟨.rowMajor, sh, d⟩ h hfit a b
    simp only [Matrix.swapRows, Matrix.nrows, AxisShape.nrows] at hs ⊢
    refine ⟨fun hab => ?_, hs.2⟩
    obtain ⟨d', h1, h2, h3⟩ := hs.1 hab
    refine ⟨_, h1, rfl, rfl, h2, ?_⟩
    intro r c
    simp only [Matrix.at?, Matrix.nrows, Matrix.ncols, AxisShape.nrows, AxisShape.ncols, Matrix.idx,
      Index.flat, AxisIndex.flat, AxisIndex.ofIndex]
    have hsw : sw a b r < sh.major ↔ r < sh.major := by
      unfold sw; split
      · rename_i e; subst e; simp [hab.1, hab.2]
      · split
        · rename_i e; subst e; simp [hab.1, hab.2]
        · rfl
    by_cases hr : r < sh.major <;> by_cases hc : c < sh.minor
    · simp only [hr, hc, and_self, ↓reduceIte, hsw.mpr hr]
      exact h3 r c hr hc
    · simp [hc]
    · simp [hr, hsw]
    · simp [hc]
  · -- column-major: rows are the strided axis
    have hs := swapMinor_spec ⟨.colMajor, sh, d⟩ h hfit a b hau hbu
    simp only [Matrix.swapRows, Matrix.nrows, AxisShape.nrows] at hs ⊢
    refine ⟨fun hab => ?_, hs.2⟩
    obtain ⟨d', h1, h2, h3⟩ := hs.1 hab
    refine ⟨_, h1, rfl, rfl, h2, ?_⟩
    intro r c
    simp only [Matrix.at?, Matrix.nrows, Matrix.ncols, AxisShape.nrows, AxisShape.ncols, Matrix.idx,
      Index.flat, AxisIndex.flat, AxisIndex.ofIndex]
    have hsw : sw a b r < sh.minor ↔ r < sh.minor := by
      unfold sw; split
      · rename_i e; subst e; simp [hab.1, hab.2]
      · split
        · rename_i e; subst e; simp [hab.1, hab.2]
        · rfl
    by_cases hr : r < sh.minor <;> by_cases hc : c < sh.major
    · simp only [hr, hc, and_self, ↓reduceIte, hsw.mpr hr]
      exact h3 c r hc hr
    · simp [hc]
    · simp [hr, hsw]
    · simp [hc]

/-- C10, logical level: `swap_cols(a, b)`, both storage orders. -/
theorem swapCols_spec (es : Nat) (m : Matrix α) (h : m.Coh) (hfit : m.data.size ≤ usizeMax) (a b : Nat)
    (hau : a ≤ usizeMax) (hbu : b ≤ usizeMax) :
    (a < m.ncols ∧ b < m.ncols →
      ∃ m', m.swapCols es a b = .ok (.ok (), m') ∧ m'.order = m.order ∧ m'.shape = m.shape ∧
        m'.data.size = m.data.size ∧ ∀ r c, m'.at? r c = m.at? r (sw a b c)) ∧
    (¬ (a < m.ncols ∧ b < m.ncols) → m.swapCols es a b = .ok (.error .indexOutOfBounds, m)) := by
  obtain ⟨o, sh, d⟩ := m
  cases o
  · have hs := swapMinor_spec ⟨.rowMajor, sh, d⟩ h hfit a b hau hbu
    simp only [Matrix.swapCols, Matrix.ncols, AxisShape.ncols] at hs ⊢
    refine ⟨fun hab => ?_, hs.2⟩
    obtain ⟨d', h1, h2, h3⟩ := hs.1 hab
    refine ⟨_, h1, rfl, rfl, h2, ?_⟩
    intro r c
    simp only [Matrix.at?, Matrix.nrows, Matrix.ncols, AxisShape.nrows, AxisShape.ncols, Matrix.idx,
      Index.flat, AxisIndex.flat, AxisIndex.ofIndex]
    have hsw : sw a b c < sh.minor ↔ c < sh.minor := by
      unfold sw; split
      · rename_i e; subst e; simp [hab.1, hab.2]
      · split
        · rename_i e; subst e; simp [hab.1, hab.2]
        · rfl
    by_cases hr : r < sh.major <;> by_cases hc : c < sh.minor
    · simp only [hr, hc, and_self, ↓reduceIte, hsw.mpr hc]
      exact h3 r c hr hc
    · simp [hc, hsw]
    · simp [hr]
    · simp [hr]
  · have hs := swapMajor_spec es ⟨.colMajor, sh, d⟩ h hfit a b
    simp only [Matrix.swapCols, Matrix.ncols, AxisShape.ncols] at hs ⊢
    refine ⟨fun hab => ?_, hs.2⟩
    obtain ⟨d', h1, h2, h3⟩ := hs.1 hab
    refine ⟨_, h1, rfl, rfl, h2, ?_⟩
    intro r c
    simp only [Matrix.at?, Matrix.nrows, Matrix.ncols, AxisShape.nrows, AxisShape.ncols, Matrix.idx,
      Index.flat, AxisIndex.flat, AxisIndex.ofIndex]
    have hsw : sw a b c < sh.major ↔ c < sh.major := by
      unfold sw; split
      · rename_i e; subst e; simp [hab.1, hab.2]
      · split
        · rename_i e; subst e; simp [hab.1, hab.2]
        · rfl
    by_cases hr : r < sh.minor <;> by_cases hc : c < sh.major
    · simp only [hr, hc, and_self, ↓reduceIte, hsw.mpr hc]
      exact h3 c r hc hr
    · simp [hc, hsw]
    · simp [hr]
    · simp [hr]

/-- C10: `swap(i, j)` with two already-resolved indices (any index kinds; resolution is C04/C13):
if both resolve to offsets inside the buffer the two elements — possibly the same one — are
exchanged and nothing else moves; if either fails, the error is returned and nothing changes. -/
theorem swapElems_spec (m : Matrix α) (x y : Nat) (hx : x < m.data.size) (hy : y < m.data.size) :
    ∃ d', m.swapElems (.ok (.ok x)) (.ok (.ok y)) = .ok (.ok (), { m with data := d' }) ∧
      d'.size = m.data.size ∧ d'[x]? = m.data[y]? ∧ d'[y]? = m.data[x]? ∧
      (∀ k, k ≠ x → k ≠ y → d'[k]? = m.data[k]?) ∧ d'.Perm m.data := by
  refine ⟨m.data.swap x y hx hy, ?_, by simp, ?_, ?_, ?_, Array.swap_perm _ _⟩
  · simp [Matrix.swapElems, ptrSwap, hx, hy, bind, Except.bind, pure, Except.pure]
  · rw [getElem?_swap']; simp
  · rw [getElem?_swap']; by_cases e : y = x
    · subst e; simp
    · simp [e]
  · intro k h1 h2; rw [getElem?_swap']; simp [h1, h2]

theorem swapElems_err_first (m : Matrix α) (e : Error) (rj : M (Except Error Nat)) :
    m.swapElems (.ok (.error e)) rj = .ok (.error e, m) := by
  simp [Matrix.swapElems, bind, Except.bind, pure, Except.pure]

theorem swapElems_err_second (m : Matrix α) (x : Nat) (e : Error) :
    m.swapElems (.ok (.ok x)) (.ok (.error e)) = .ok (.error e, m) := by
  simp [Matrix.swapElems, bind, Except.bind, pure, Except.pure]

/-- the two indices of an element swap play symmetric roles -/
theorem swapElems_symm (m : Matrix α) (x y : Nat) (hx : x < m.data.size) (hy : y < m.data.size) :
    m.swapElems (.ok (.ok x)) (.ok (.ok y)) = m.swapElems (.ok (.ok y)) (.ok (.ok x)) := by
  simp [Matrix.swapElems, ptrSwap, hx, hy, bind, Except.bind, pure, Except.pure, Array.swap_comm]

theorem swap_self' (d : Array α) (x : Nat) (h : x < d.size) : d.swap x x h h = d := by
  apply Array.ext
  · simp
  · intro i h1 h2; simp only [Array.getElem_swap]; split
    · next e => subst e; rfl
    · rfl

/-- swapping an element with itself leaves the matrix exactly as it was -/
theorem swapElems_self (m : Matrix α) (x : Nat) (hx : x < m.data.size) :
    m.swapElems (.ok (.ok x)) (.ok (.ok x)) = .ok (.ok (), m) := by
  simp [Matrix.swapElems, ptrSwap, hx, bind, Except.bind, pure, Except.pure, swap_self']

/-- an element swap is its own inverse: doing it twice gives back exactly the matrix one started
from -/
theorem swapElems_involutive (m : Matrix α) (x y : Nat) (hx : x < m.data.size) (hy : y < m.data.size) :
    ∃ m', m.swapElems (.ok (.ok x)) (.ok (.ok y)) = .ok (.ok (), m') ∧
      m'.swapElems (.ok (.ok x)) (.ok (.ok y)) = .ok (.ok (), m) := by
  refine ⟨{ m with data := m.data.swap x y hx hy }, ?_, ?_⟩
  · simp [Matrix.swapElems, ptrSwap, hx, hy, bind, Except.bind, pure, Except.pure]
  · simp [Matrix.swapElems, ptrSwap, hx, hy, bind, Except.bind, pure, Except.pure]

/- The table theorem `swap_dispatch_duality` (T1: which axis `swap_rows` / `swap_cols` use per order, read by a regular
expression) was retired in the fourth session: `BridgeT11.swap_rows_bridge` / `swap_cols_bridge` prove the regenerated
dispatch equal to the model's, which is strictly stronger, and the table alarmed on harmless rewrites (`let order =
self.order; match order`). -/

/-! ### non-vacuity -/

def ex23 : Matrix Nat := ⟨.rowMajor, ⟨2, 3⟩, #[1, 2, 3, 4, 5, 6]⟩
example : ex23.Coh ∧ ex23.data.size ≤ usizeMax := ⟨⟨rfl⟩, by simp [ex23, usizeMax]⟩
example : (ex23.swapRows 4 1 1).map (fun p => p.2.data.toList) = .ok [1, 2, 3, 4, 5, 6] := by rfl
example : (ex23.swapRows 4 0 1).map (fun p => p.2.data.toList) = .ok [4, 5, 6, 1, 2, 3] := by rfl
example : (ex23.swapCols 4 0 2).map (fun p => p.2.data.toList) = .ok [3, 2, 1, 6, 5, 4] := by rfl
example : (ex23.swapCols 4 0 3).map (fun p => p.1) = .ok (.error .indexOutOfBounds) := by rfl

/-- the vector-swap functions the theorems of this file are about ARE the source's kernels: the
functions regenerated from `src/swap.rs` on every run (`Gen/Kernels.lean`: guards, early exit,
offset arithmetic, the loop, the `ptr::swap` / `ptr::swap_nonoverlapping` calls) return the same
result and the same buffer, with the same faults, as `swapMajor` / `swapMinor` -/
theorem swap_kernels_are_the_source (es : Nat) (m : Matrix α) (a b : Nat) :
    Gen.Matrix.swap_major_axis_vectors es m.hdr m.data a b = BridgeKernels.view (m.swapMajor es a b) ∧
    Gen.Matrix.swap_minor_axis_vectors es m.hdr m.data a b = BridgeKernels.view (m.swapMinor a b) :=
  ⟨BridgeKernels.swap_major_kernel es m a b, BridgeKernels.swap_minor_kernel es m a b⟩

end Matreex.C10
