/-
C13 — wrapping indices address the Euclidean-remainder position for every isize pair.

`WrappingIndex.resolve` uses the regenerated `from_wrapping_index` (`Gen/Core.lean`); the
statements hold for every pair of integers, hence for every `isize` pair including `isize::MIN`
(whose `unsigned_abs` is `2^63`) and `isize::MAX`.
-/
import Matreex.Model.Index
import Matreex.Lemmas.Bridge
import Matreex.Lemmas.Matrix

namespace Matreex.C13
open Matreex
variable {α : Type}

theorem wrap_lt (x : Int) (n : Nat) (hn : 0 < n) : wrap x n < n := by
  unfold wrap
  have h1 : 0 ≤ x % (n : Int) := Int.emod_nonneg _ (by omega)
  have h2 : x % (n : Int) < (n : Int) := Int.emod_lt_of_pos _ (by omega)
  omega

/-- `wrap` is the mathematical remainder: `x = q * n + wrap x n` for some integer `q`, and
`0 ≤ wrap x n < n`. -/
theorem wrap_spec (x : Int) (n : Nat) (hn : 0 < n) :
    ∃ q : Int, x = q * (n : Int) + (wrap x n : Int) ∧ wrap x n < n := by
  refine ⟨x / (n : Int), ?_, wrap_lt x n hn⟩
  unfold wrap
  have h1 : 0 ≤ x % (n : Int) := Int.emod_nonneg _ (by omega)
  have := Int.mul_ediv_add_emod x (n : Int)
  rw [Int.toNat_of_nonneg h1, Int.mul_comm]; omega

/-- On a non-empty matrix a wrapping index resolves, without panic or UB, to the element at
`(row mod nrows, col mod ncols)`. -/
theorem wrapping_get (m : Matrix α) (h : m.Coh) (hfit : m.data.size ≤ usizeMax)
    (hne : m.data.size ≠ 0) (i : WrappingIndex) :
    i.resolve m = .ok (.ok (m.idx (wrap i.row m.nrows) (wrap i.col m.ncols))) ∧
    wrap i.row m.nrows < m.nrows ∧ wrap i.col m.ncols < m.ncols ∧
    m.idx (wrap i.row m.nrows) (wrap i.col m.ncols) < m.data.size := by
  have hsz := h.size_eq
  have hM : 0 < m.shape.major := by
    rcases Nat.eq_zero_or_pos m.shape.major with h0 | h0
    · rw [h0] at hsz; simp at hsz; omega
    · exact h0
  have hm : 0 < m.shape.minor := by
    rcases Nat.eq_zero_or_pos m.shape.minor with h0 | h0
    · rw [h0] at hsz; simp at hsz; omega
    · exact h0
  have hb := Bridge.from_wrapping_index i m.order m.shape hM hm
  obtain ⟨o, sh, d⟩ := m
  cases o
  all_goals
    simp only [Matrix.nrows, Matrix.ncols, AxisShape.nrows, AxisShape.ncols, Matrix.idx, Index.flat,
      AxisIndex.ofIndex, AxisIndex.ofWrapping] at *
  · have l1 := wrap_lt i.row sh.major hM
    have l2 := wrap_lt i.col sh.minor hm
    have hk : (AxisIndex.mk (wrap i.row sh.major) (wrap i.col sh.minor)).flat sh < d.size := by
      rw [← hsz]; exact flat_lt l1 l2
    have hf := Bridge.to_flattened ⟨wrap i.row sh.major, wrap i.col sh.minor⟩ sh
      (by unfold AxisIndex.flat at hk; simp only at hk ⊢; omega)
    refine ⟨?_, l1, l2, hk⟩
    simp [WrappingIndex.resolve, WrappingIndex.resolveH, Matrix.hdr, hne, WrappingIndex.resolveUncheckedH, hb,
      AxisIndex.resolveUncheckedH, hf, refUnchecked, hk, bind, Except.bind, pure, Except.pure]
  · have l1 := wrap_lt i.col sh.major hM
    have l2 := wrap_lt i.row sh.minor hm
    have hk : (AxisIndex.mk (wrap i.col sh.major) (wrap i.row sh.minor)).flat sh < d.size := by
      rw [← hsz]; exact flat_lt l1 l2
    have hf := Bridge.to_flattened ⟨wrap i.col sh.major, wrap i.row sh.minor⟩ sh
      (by unfold AxisIndex.flat at hk; simp only at hk ⊢; omega)
    refine ⟨?_, l2, l1, hk⟩
    simp [WrappingIndex.resolve, WrappingIndex.resolveH, Matrix.hdr, hne, WrappingIndex.resolveUncheckedH, hb,
      AxisIndex.resolveUncheckedH, hf, refUnchecked, hk, bind, Except.bind, pure, Except.pure]

/-- On a matrix with no elements the checked forms fail with `IndexOutOfBounds`; the model makes
no call to the unchecked path, hence touches no memory. -/
theorem wrapping_empty_checked (m : Matrix α) (h0 : m.data.size = 0) (i : WrappingIndex) :
    i.resolve m = .ok (.error .indexOutOfBounds) := by
  simp [WrappingIndex.resolve, WrappingIndex.resolveH, h0, pure, Except.pure]

/-- On a matrix with no elements the unchecked forms panic (remainder by zero) before any
element access. -/
theorem wrapping_empty_unchecked (m : Matrix α) (h : m.Coh) (h0 : m.data.size = 0)
    (i : WrappingIndex) : ∃ msg, i.resolveUnchecked m = .error (.panic msg) := by
  have hz : m.shape.major = 0 ∨ m.shape.minor = 0 := by
    have := h.size_eq; rw [h0] at this; exact Nat.mul_eq_zero.mp this
  obtain ⟨msg, hmsg⟩ := Bridge.from_wrapping_index_zero i m.order m.shape hz
  exact ⟨msg, by simp [WrappingIndex.resolveUnchecked, WrappingIndex.resolveUncheckedH, Matrix.hdr, hmsg, bind, Except.bind]⟩

/-! ### laws of wrapping that follow (every integer, hence every `isize`) -/

/-- Wrapping is periodic in the axis length: adding any integer multiple of `n` to the index
addresses the same position. -/
theorem wrap_periodic (x k : Int) (n : Nat) : wrap (x + k * (n : Int)) n = wrap x n := by
  unfold wrap; rw [Int.add_mul_emod_self_right]

/-- An index that is already in range is left alone: wrapping extends checked indexing. -/
theorem wrap_of_lt (x n : Nat) (h : x < n) : wrap (x : Int) n = x := by
  unfold wrap
  rw [Int.emod_eq_of_lt (by omega) (by omega)]; simp

/-- `-1` addresses the last position of a non-empty axis (the idiom the documentation shows). -/
theorem wrap_neg_one (n : Nat) (hn : 0 < n) : wrap (-1) n = n - 1 := by
  have h := wrap_periodic (-1) 1 n
  have h2 : (-1 : Int) + 1 * (n : Int) = ((n - 1 : Nat) : Int) := by omega
  rw [h2, wrap_of_lt (n - 1) n (by omega)] at h
  exact h.symm

/-- Two wrapping indices that differ by whole multiples of the logical shape resolve to the same
element position of a non-empty matrix, for any integers `k`, `l`. -/
theorem wrapping_get_periodic (m : Matrix α) (h : m.Coh) (hfit : m.data.size ≤ usizeMax)
    (hne : m.data.size ≠ 0) (i : WrappingIndex) (k l : Int) :
    (WrappingIndex.mk (i.row + k * (m.nrows : Int)) (i.col + l * (m.ncols : Int))).resolve m
      = i.resolve m := by
  rw [(wrapping_get m h hfit hne i).1, (wrapping_get m h hfit hne _).1]
  simp only [wrap_periodic]

/-- A wrapping index whose components are already in range resolves to the same position as the
checked index `(r, c)`: the storage offset `m.idx r c`. -/
theorem wrapping_get_in_range (m : Matrix α) (h : m.Coh) (hfit : m.data.size ≤ usizeMax)
    (hne : m.data.size ≠ 0) (r c : Nat) (hr : r < m.nrows) (hc : c < m.ncols) :
    (WrappingIndex.mk (r : Int) (c : Int)).resolve m = .ok (.ok (m.idx r c)) := by
  rw [(wrapping_get m h hfit hne _).1]
  simp only [wrap_of_lt r _ hr, wrap_of_lt c _ hc]

/-! ### non-vacuity -/

def ex23 : Matrix Nat := ⟨.colMajor, ⟨3, 2⟩, #[1, 4, 2, 5, 3, 6]⟩   -- logical 2×3, column-major
example : ex23.Coh ∧ ex23.data.size ≤ usizeMax ∧ ex23.data.size ≠ 0 :=
  ⟨⟨rfl⟩, by simp [ex23, usizeMax], by simp [ex23]⟩
example : (WrappingIndex.mk (-1) (-4)).resolve ex23 = .ok (.ok 5) := by rfl   -- (1, 2)
example : (WrappingIndex.mk (-(2 ^ 63)) (2 ^ 63 - 1)).resolve ex23 = .ok (.ok 2) := by rfl -- (0, 1)
example : wrap (-(2 ^ 63)) 2 = 0 ∧ wrap (2 ^ 63 - 1) 3 = 1 := by decide
example : (WrappingIndex.mk (-1 + 7 * 2) (-4 + (-5) * 3)).resolve ex23 = (WrappingIndex.mk (-1) (-4)).resolve ex23 := by rfl

end Matreex.C13
