/-
C20 on the SOURCE's formatting functions (`Gen/T15Gen.lean`, regenerated from `src/fmt.rs` on every run
by translator T15), and the one place where the source does NOT satisfy "formatting never panics".

`fmt` allocates its cache of per-element line queues with `Vec::with_capacity(self.size())`; the queue type
`Lines = VecDeque<String>` is 32 bytes, so for a matrix of more than `isize::MAX / 32` elements — only a
zero-sized element type can have that many — the allocation request itself panics with "capacity overflow"
before a character is written.  The full-strength statement "for every coherent matrix, no panic" is therefore
FALSE of the source (`fmt_source_panics_on_huge_zst`, replayed on the implementation by the harness case
`zfmt`, listed in known_findings.json as F-C20-huge-zst-capacity); what holds, and is proved, is the
statement for every matrix whose cache is allocatable (`*_source_no_panic_partial`) together with the exact
characterisation of the panic (`fmt_source_panic_iff`).
-/
import Matreex.Props.C20
import Matreex.Lemmas.BridgeT15

namespace Matreex.C20
open Matreex Matreex.Fmt

variable {α : Type}

/-- PARTIAL (the cache must be allocatable): the regenerated `Display::fmt` returns a text, for every
coherent matrix, both orders, every shape and every element rendering -/
theorem display_source_no_panic_partial (render : α → List Char) (m : Matrix α) (h : m.Coh)
    (hfit : m.data.size ≤ usizeMax) (hcap : linesSize * m.data.size ≤ isizeMax) :
    ∃ s, Gen.Fmt.Display.fmt linesSize render m.hdr m.data = .ok s := by
  rw [BridgeT15.display_is_the_source linesSize render m hcap]
  exact display_no_panic render m h hfit

/-- PARTIAL (the cache must be allocatable): the same for the regenerated `Debug::fmt` -/
theorem debug_source_no_panic_partial (render : α → List Char) (m : Matrix α) (h : m.Coh)
    (hfit : m.data.size ≤ usizeMax) (hcap : linesSize * m.data.size ≤ isizeMax) :
    ∃ s, Gen.Fmt.Debug.fmt linesSize render m.hdr m.data = .ok s := by
  rw [BridgeT15.debug_is_the_source linesSize render m hcap]
  exact debug_no_panic render m h hfit

/-- exactly when the source's formatting functions panic on a coherent matrix: the cache request exceeds
`isize::MAX` bytes; and then both panic with "capacity overflow" -/
theorem fmt_source_panic_iff (render : α → List Char) (m : Matrix α) (h : m.Coh)
    (hfit : m.data.size ≤ usizeMax) :
    ((∃ f, Gen.Fmt.Display.fmt linesSize render m.hdr m.data = .error f) ↔
        (m.data.size ≠ 0 ∧ linesSize * m.data.size > isizeMax)) ∧
    ((∃ f, Gen.Fmt.Debug.fmt linesSize render m.hdr m.data = .error f) ↔
        (m.data.size ≠ 0 ∧ linesSize * m.data.size > isizeMax)) := by
  rw [BridgeT15.display_source_full, BridgeT15.debug_source_full]
  obtain ⟨s1, h1⟩ := display_no_panic render m h hfit
  obtain ⟨s2, h2⟩ := debug_no_panic render m h hfit
  by_cases hc : m.data.size ≠ 0 ∧ linesSize * m.data.size > isizeMax
  · rw [if_pos hc, if_pos hc]
    exact ⟨⟨fun _ => hc, fun _ => ⟨_, rfl⟩⟩, ⟨fun _ => hc, fun _ => ⟨_, rfl⟩⟩⟩
  · rw [if_neg hc, if_neg hc, h1, h2]
    refine ⟨⟨?_, fun h' => absurd h' hc⟩, ⟨?_, fun h' => absurd h' hc⟩⟩ <;>
      (rintro ⟨f, hf⟩; cases hf)

/-- a 1 × n row-major matrix of the unit type -/
def unitRow (n : Nat) : Matrix Unit := ⟨.rowMajor, ⟨1, n⟩, Array.replicate n ()⟩

theorem unitRow_size (n : Nat) : (unitRow n).data.size = n := by simp [unitRow]
theorem unitRow_coh (n : Nat) : (unitRow n).Coh := ⟨by simp [unitRow]⟩

/-- the witness: a coherent 1 × 2^58 row-major matrix of the unit type -/
def hugeUnit : Matrix Unit := unitRow (2 ^ 58)

theorem hugeUnit_coh : hugeUnit.Coh ∧ hugeUnit.data.size ≤ usizeMax := by
  refine ⟨unitRow_coh _, ?_⟩
  rw [hugeUnit, unitRow_size]; decide

/-- NEGATION of the full-strength no-panic statement for the source: formatting the coherent matrix
`hugeUnit` with `Display` or `Debug` panics (replayed on the implementation: `Matrix::from_row` of a
`Vec<()>` of length 2^58, `format!("{:?}", m)` — "capacity overflow") -/
theorem fmt_source_panics_on_huge_zst (render : Unit → List Char) :
    Gen.Fmt.Display.fmt linesSize render hugeUnit.hdr hugeUnit.data = .error (.panic "capacity overflow") ∧
    Gen.Fmt.Debug.fmt linesSize render hugeUnit.hdr hugeUnit.data = .error (.panic "capacity overflow") := by
  apply BridgeT15.capacity_overflow_is_not_in_the_model
  · rw [hugeUnit, unitRow_size]; decide
  · rw [hugeUnit, unitRow_size]; decide

/-- non-vacuity of the partial theorems: an ordinary 2 × 2 matrix meets the hypotheses -/
example : m22.Coh ∧ m22.data.size ≤ usizeMax ∧ linesSize * m22.data.size ≤ isizeMax := by
  refine ⟨⟨by rfl⟩, ?_, ?_⟩ <;> simp [m22, usizeMax, isizeMax, linesSize]

end Matreex.C20
