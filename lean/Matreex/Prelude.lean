/-
Vocabulary shared by the generated code (`Gen/`), the hand-written model (`Model/`) and the
theorems: machine-integer bounds, the fault type, checked arithmetic (debug-build semantics of
`+ - * / %` on `usize`), the library helpers the source calls (`checked_mul`, `saturating_mul`,
`unsigned_abs`, `as usize`), and the plain data types of the crate.

Core Lean only: the driver links against this file.
-/
namespace Matreex

def usizeMax : Nat := 2 ^ 64 - 1
def isizeMax : Nat := 2 ^ 63 - 1

/-- Everything that is not a normal return. `ub` = a documented `unsafe` precondition was
violated (the model never totalises these); `panic` = a Rust panic (message kept for the reader,
never compared); `fuel` = a loop ran out of the fuel the model gave it. -/
inductive Fault where
  | ub (what : String)
  | panic (what : String)
  | fuel
  deriving Repr, DecidableEq, Inhabited

/-- The crate's `Error` enum (`src/error.rs`). -/
inductive Error where
  | sizeOverflow
  | sizeMismatch
  | capacityOverflow
  | lengthInconsistent
  | indexOutOfBounds
  | squareMatrixRequired
  | shapeNotConformable
  deriving Repr, DecidableEq, Inhabited

def Error.name : Error → String
  | .sizeOverflow => "SizeOverflow"
  | .sizeMismatch => "SizeMismatch"
  | .capacityOverflow => "CapacityOverflow"
  | .lengthInconsistent => "LengthInconsistent"
  | .indexOutOfBounds => "IndexOutOfBounds"
  | .squareMatrixRequired => "SquareMatrixRequired"
  | .shapeNotConformable => "ShapeNotConformable"

/-- the monad of generated code: a fault, or a value -/
abbrev M := Except Fault

def uadd (a b : Nat) : M Nat :=
  if a + b ≤ usizeMax then .ok (a + b) else .error (.panic "attempt to add with overflow")
def usub (a b : Nat) : M Nat :=
  if b ≤ a then .ok (a - b) else .error (.panic "attempt to subtract with overflow")
def umul (a b : Nat) : M Nat :=
  if a * b ≤ usizeMax then .ok (a * b) else .error (.panic "attempt to multiply with overflow")
def udiv (a b : Nat) : M Nat :=
  if b = 0 then .error (.panic "attempt to divide by zero") else .ok (a / b)
def urem (a b : Nat) : M Nat :=
  if b = 0 then .error (.panic "attempt to calculate the remainder with a divisor of zero")
  else .ok (a % b)

def checkedMul (a b : Nat) : Option Nat := if a * b ≤ usizeMax then some (a * b) else none
def saturatingMul (a b : Nat) : Nat := min (a * b) usizeMax
def wrappingMul (a b : Nat) : Nat := (a * b) % 2 ^ 64
def okOr {α : Type} (o : Option α) (e : Error) : Except Error α :=
  match o with | some a => .ok a | none => .error e

/-- `x as usize` for `x : isize` (two's complement reinterpretation) -/
def castUsize (x : Int) : Nat := if x < 0 then (x + 2 ^ 64).toNat else x.toNat

/-- `expr?` inside a function returning `Result<_, Error>`, as seen from the fault monad: the
function's value is itself an `Except Error _`. Generated code threads it with `bindErr`. -/
def bindErr {α β : Type} (x : Except Error α) (f : α → M (Except Error β)) : M (Except Error β) :=
  match x with
  | .ok a => f a
  | .error e => .ok (.error e)

inductive Order where
  | rowMajor
  | colMajor
  deriving Repr, DecidableEq, Inhabited

structure Shape where
  nrows : Nat
  ncols : Nat
  deriving Repr, DecidableEq, Inhabited

structure AxisShape where
  major : Nat
  minor : Nat
  deriving Repr, DecidableEq, Inhabited

structure Index where
  row : Nat
  col : Nat
  deriving Repr, DecidableEq, Inhabited

structure WrappingIndex where
  row : Int
  col : Int
  deriving Repr, DecidableEq, Inhabited

structure AxisIndex where
  major : Nat
  minor : Nat
  deriving Repr, DecidableEq, Inhabited

/-- What the integer functions can see of a matrix: its order and its axis shape. -/
structure Hdr where
  order : Order
  shape : AxisShape
  deriving Repr, DecidableEq, Inhabited

def Hdr.major (h : Hdr) : Nat := h.shape.major
def Hdr.minor (h : Hdr) : Nat := h.shape.minor

/-! ### checked operations reduce when their side condition holds -/

theorem umul_ok {a b : Nat} (h : a * b ≤ usizeMax) : umul a b = .ok (a * b) := by simp [umul, h]
theorem uadd_ok {a b : Nat} (h : a + b ≤ usizeMax) : uadd a b = .ok (a + b) := by simp [uadd, h]
theorem udiv_ok {a b : Nat} (h : b ≠ 0) : udiv a b = .ok (a / b) := by simp [udiv, h]
theorem urem_ok {a b : Nat} (h : b ≠ 0) : urem a b = .ok (a % b) := by simp [urem, h]
theorem usub_ok {a b : Nat} (h : b ≤ a) : usub a b = .ok (a - b) := by simp [usub, h]

end Matreex
