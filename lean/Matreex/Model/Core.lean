/-
The clean model of the crate's integer core (`shape.rs`, `index.rs`, `lib.rs::check_size`, the
conformability predicates of `arithmetic.rs`): total functions over unbounded `Nat`/`Int`.
`Lemmas/Bridge.lean` proves that the code regenerated from the Rust source (`Gen/Core.lean`,
checked machine arithmetic) returns exactly these values, without fault, under the stated
preconditions. All property theorems speak about the functions below.
-/
import Matreex.Prelude

namespace Matreex

/-! ### shapes -/

def AxisShape.size (s : AxisShape) : Nat := s.major * s.minor

def AxisShape.nrows (s : AxisShape) : Order → Nat
  | .rowMajor => s.major
  | .colMajor => s.minor

def AxisShape.ncols (s : AxisShape) : Order → Nat
  | .rowMajor => s.minor
  | .colMajor => s.major

def AxisShape.toShape (s : AxisShape) (o : Order) : Shape := ⟨s.nrows o, s.ncols o⟩

def AxisShape.transpose (s : AxisShape) : AxisShape := ⟨s.minor, s.major⟩

def Order.switch : Order → Order
  | .rowMajor => .colMajor
  | .colMajor => .rowMajor

/-- `Shape::size`: the element count, or `SizeOverflow` when it does not fit `usize`. -/
def Shape.size? (s : Shape) : Except Error Nat :=
  if s.nrows * s.ncols ≤ usizeMax then .ok (s.nrows * s.ncols) else .error .sizeOverflow

def Shape.toAxis (s : Shape) : Order → AxisShape
  | .rowMajor => ⟨s.nrows, s.ncols⟩
  | .colMajor => ⟨s.ncols, s.nrows⟩

def Shape.tryToAxis (s : Shape) (o : Order) : Except Error AxisShape :=
  if s.nrows * s.ncols ≤ usizeMax then .ok (s.toAxis o) else .error .sizeOverflow

/-- `Matrix::<T>::check_size` with `es = size_of::<T>()`. -/
def checkSize (es size : Nat) : Except Error Nat :=
  if es * size > isizeMax then .error .capacityOverflow else .ok size

/-! ### indices -/

def AxisIndex.ofIndex (i : Index) : Order → AxisIndex
  | .rowMajor => ⟨i.row, i.col⟩
  | .colMajor => ⟨i.col, i.row⟩

def AxisIndex.toIndex (i : AxisIndex) : Order → Index
  | .rowMajor => ⟨i.major, i.minor⟩
  | .colMajor => ⟨i.minor, i.major⟩

def AxisIndex.swap (i : AxisIndex) : AxisIndex := ⟨i.minor, i.major⟩

def AxisIndex.ofFlat (k : Nat) (s : AxisShape) : AxisIndex := ⟨k / s.minor, k % s.minor⟩

def AxisIndex.flat (i : AxisIndex) (s : AxisShape) : Nat := i.major * s.minor + i.minor

def AxisIndex.oob (i : AxisIndex) (s : AxisShape) : Bool :=
  decide (i.major ≥ s.major) || decide (i.minor ≥ s.minor)

def Index.ofFlat (k : Nat) (o : Order) (s : AxisShape) : Index := (AxisIndex.ofFlat k s).toIndex o

def Index.flat (i : Index) (o : Order) (s : AxisShape) : Nat := (AxisIndex.ofIndex i o).flat s

/-- mathematical non-negative remainder -/
def wrap (x : Int) (n : Nat) : Nat := (x % (n : Int)).toNat

def AxisIndex.ofWrapping (i : WrappingIndex) (o : Order) (s : AxisShape) : AxisIndex :=
  match o with
  | .rowMajor => ⟨wrap i.row s.major, wrap i.col s.minor⟩
  | .colMajor => ⟨wrap i.col s.major, wrap i.row s.minor⟩

/-! ### headers -/

def Hdr.nrows (h : Hdr) : Nat := h.shape.nrows h.order
def Hdr.ncols (h : Hdr) : Nat := h.shape.ncols h.order

/-- `is_elementwise_operation_conformable`, as the source computes it -/
def Hdr.ewConformable (a b : Hdr) : Bool :=
  if a.order = b.order then decide (a.shape = b.shape)
  else decide (a.shape.major = b.shape.minor) && decide (a.shape.minor = b.shape.major)

def Hdr.mulConformable (a b : Hdr) : Bool := decide (a.ncols = b.nrows)

end Matreex
