/-
Unchecked memory primitives as *partial* operations: each fails with `Fault.ub` outside its
documented precondition and is never totalised. A theorem `op … = .ok …` about a model built
from these therefore also states that no undefined behaviour was reachable on that path.
-/
import Matreex.Prelude

namespace Matreex
variable {α : Type}

/-- `slice::get_unchecked(i)` / `get_unchecked_mut(i)`: precondition `i < len`. Returns the
offset, i.e. "a reference to element `i`". -/
def refUnchecked (len i : Nat) : M Nat :=
  if i < len then .ok i else .error (.ub "slice::get_unchecked: index out of bounds")

/-- read through `get_unchecked` -/
def getUnchecked (d : Array α) (i : Nat) : M α :=
  if h : i < d.size then .ok d[i] else .error (.ub "slice::get_unchecked: index out of bounds")

/-- `slice::get_unchecked(lo..hi)`: precondition `lo ≤ hi ≤ len`. -/
def sliceUnchecked (d : Array α) (lo hi : Nat) : M (Array α) :=
  if lo ≤ hi ∧ hi ≤ d.size then .ok (d.extract lo hi)
  else .error (.ub "slice::get_unchecked: range out of bounds")

/-- `ptr::swap(base.add(i), base.add(j))`: both pointers must be in bounds of the allocation and
point at live elements; the two locations may be equal. -/
def ptrSwap (d : Array α) (i j : Nat) : M (Array α) :=
  if h : i < d.size ∧ j < d.size then .ok (d.swap i j h.1 h.2)
  else .error (.ub "ptr::swap: pointer out of bounds")

/-- `ptr::swap_nonoverlapping(base.add i, base.add j, n)` for elements of `es` bytes: UB if either
range leaves the buffer, or if the ranges overlap while `n * es > 0`.  In the `ok` branch every
index read below is in range by the first check (`getD`'s default is never used; see
`C10.swapNonoverlapping_get`). -/
def swapNonoverlapping (es : Nat) (d : Array α) (i j n : Nat) : M (Array α) :=
  if ¬ (i + n ≤ d.size ∧ j + n ≤ d.size) then .error (.ub "ptr::swap_nonoverlapping: range out of bounds")
  else if n * es ≠ 0 ∧ (i < j + n ∧ j < i + n) then
    .error (.ub "ptr::swap_nonoverlapping: ranges overlap")
  else .ok (Array.ofFn fun (k : Fin d.size) =>
    if i ≤ k.val ∧ k.val < i + n then d[j + (k.val - i)]?.getD d[k]
    else if j ≤ k.val ∧ k.val < j + n then d[i + (k.val - j)]?.getD d[k] else d[k])

/-- `Option::unwrap_unchecked` -/
def unwrapUnchecked (o : Option α) : M α :=
  match o with
  | some a => .ok a
  | none => .error (.ub "Option::unwrap_unchecked on None")

end Matreex
