/-
Vocabulary for the code regenerated from the three `macro_rules!` definitions of `src/macros.rs` (translator T19,
`Gen/T19Gen.lean`), and the model's meaning of every macro form (what `Lemmas/BridgeT19.lean` compares the regenerated
arms with).  New definitions only; nothing here changes an existing model function.

* `vecFromElem clone x n` is the CONTENT of `vec![x; n]` (`alloc::vec::from_elem` → `Vec::extend_with`): `n - 1` clones of
  `x`, in order, then `x` itself in the last slot (`n = 0`: `x` is dropped, the vector is empty) — what
  `Driver/Hist.lean` computes for the protocol ops `ctor with_value` and `macro` (`if k + 1 < n then clone x else x`).
  `Vec.fromElem es clone x n` is the whole macro call: the allocation of `n` elements of `es` bytes first
  (`Vec.reserveExact`: the capacity-overflow panic), then the content.
* `MatrixInput` / `VecInput`: what a caller can write between the brackets of `matrix!` / of `row_vec!`, `col_vec!`.
  The metavariable expressions are VALUES (effect-free expressions, as everywhere in the model); a row written as an
  array `[a, b, c]` is the list of its elements; `C` is the row length the Rust TYPE `[T; C]` fixes.
* `Matrix.ofMatrixMacro`, `Matrix.ofVecMacro`: the meaning of every form in terms of the model's constructors and
  conversions (`Matrix.empty`, `Matrix.withValue`, `Matrix.fromArrays`, `Matrix.fromRow`, `Matrix.fromCol`).
-/
import Matreex.Model.Construct
import Matreex.Model.Convert
import Matreex.Model.Small

namespace Matreex
variable {α : Type}

/-- the content of `vec![x; n]`: `n - 1` clones, then the original -/
def vecFromElem {β : Type} (clone : β → β) (x : β) (n : Nat) : List β :=
  (List.range n).map fun k => if k + 1 < n then clone x else x

/-- `vec![x; n]` for elements of `es` bytes: allocate (capacity-overflow panic), then fill -/
def Vec.fromElem {β : Type} (es : Nat) (clone : β → β) (x : β) (n : Nat) : M (List β) := do
  Vec.reserveExact es n
  pure (vecFromElem clone x n)

/-- what can stand between the brackets of `matrix!` -/
inductive MatrixInput (α : Type) where
  /-- `matrix![]` -/
  | empty
  /-- `matrix![[elem; ncols]; nrows]` -/
  | fill (elem : α) (ncols nrows : Nat)
  /-- `matrix![[e₁, …, eₖ]; nrows]` (`k ≥ 1`, optional trailing comma) -/
  | repeatRow (elems : List α) (nrows : Nat)
  /-- `matrix![row₁, …, rowₖ]` (`k ≥ 1`, optional trailing comma), every `rowᵢ : [T; C]` -/
  | rows (C : Nat) (rows : List (List α))

/-- what can stand between the brackets of `row_vec!` / `col_vec!` -/
inductive VecInput (α : Type) where
  /-- `row_vec![]` -/
  | empty
  /-- `row_vec![elem; n]` -/
  | repeat (elem : α) (n : Nat)
  /-- `row_vec![e₁, …, eₖ]` (`k ≥ 1`, optional trailing comma) -/
  | list (elems : List α)

/-- the meaning of `matrix![…]`: `es` is `size_of::<T>()`, `clone` is `T::clone`.
`fill`: `with_value((nrows, ncols), elem)`, an `Err` is a panic displaying the error.
`repeatRow`: `nrows` copies of the row (the first `nrows - 1` are clones, element by element; the vector of `nrows` arrays
of `es * k` bytes is allocated first).  `rows`: the rows in order. -/
def Matrix.ofMatrixMacro (es : Nat) (clone : α → α) : MatrixInput α → M (Matrix α)
  | .empty => .ok Matrix.empty
  | .fill elem ncols nrows => unwrapOrPanic (Matrix.withValue es ⟨nrows, ncols⟩ elem)
  | .repeatRow elems nrows => do
    Vec.reserveExact (es * elems.length) nrows
    pure (Matrix.fromArrays elems.length (vecFromElem (List.map clone) elems nrows))
  | .rows C rows => .ok (Matrix.fromArrays C rows)

/-- the meaning of `row_vec![…]` (`mk = Matrix.fromRow`) and `col_vec![…]` (`mk = Matrix.fromCol`) -/
def Matrix.ofVecMacro (es : Nat) (clone : α → α) (mk : List α → Matrix α) : VecInput α → M (Matrix α)
  | .empty => .ok (mk [])
  | .repeat elem n => do
    Vec.reserveExact es n
    pure (mk (vecFromElem clone elem n))
  | .list elems => .ok (mk elems)

end Matreex
