/-
`PartialEq for Matrix<T>` (`src/eq.rs`): same order ⇒ shapes equal and data equal elementwise;
different orders ⇒ the axis extents must match crosswise, then every element of `self` is compared
with the element of `other` at the re-mapped offset (`from_flattened(..).swap().to_flattened(..)`,
read with `get_unchecked`); otherwise `false`.  `eqα` stands for the element type's `PartialEq::eq`.
-/
import Matreex.Gen.Core
import Matreex.Model.Matrix
import Matreex.Model.Mem

namespace Matreex
variable {α : Type}

/-- `Vec<T> == Vec<T>`: equal lengths and pairwise equal elements -/
def vecEq (eqα : α → α → Bool) (a b : Array α) : Bool :=
  decide (a.size = b.size) && (List.zipWith eqα a.toList b.toList).all id

/-- `self == other` -/
def Matrix.beq (eqα : α → α → Bool) (a b : Matrix α) : M Bool :=
  if a.order = b.order then .ok (decide (a.shape = b.shape) && vecEq eqα a.data b.data)
  else if a.shape.major = b.shape.minor ∧ a.shape.minor = b.shape.major then do
    let rs ← (List.range a.data.size).mapM fun k => do
      let i ← Gen.AxisIndex.from_flattened k a.shape
      let j ← Gen.AxisIndex.to_flattened i.swap b.shape
      let right ← getUnchecked b.data j
      let left ← getUnchecked a.data k
      pure (eqα left right)
    pure (rs.all id)
  else .ok false

end Matreex
