/-
Parallel helpers (`src/parallel.rs`): an indexed parallel iterator over the element vector is
executed by an ARBITRARY split tree (each node splits its range at an arbitrary point; a leaf is
processed sequentially, its `enumerate` offset being the global start of the leaf — rayon's
`Producer::split_at` contract) and an arbitrary schedule (an interleaving of the leaves' step
lists).  Results of `collect` are concatenated in index order.
-/
namespace Matreex.Par

variable {α β : Type}

/-- how the scheduler happened to split the index range -/
inductive Split where
  | leaf
  | node (mid : Nat) (l r : Split)
  deriving Repr

/-- sequential `iter().enumerate().map(f)` starting at global position `base` -/
def seqMapIdx (f : Nat → α → β) (base : Nat) : List α → List β
  | [] => []
  | x :: xs => f base x :: seqMapIdx f (base + 1) xs

/-- parallel execution along a split tree; results are concatenated in index order (`collect`) -/
def parMapIdx (f : Nat → α → β) : Split → Nat → List α → List β
  | .leaf, base, xs => seqMapIdx f base xs
  | .node mid l r, base, xs =>
    parMapIdx f l base (xs.take mid) ++ parMapIdx f r (base + (xs.take mid).length) (xs.drop mid)

/-- the work items of each leaf, in tree order: (global index, element) -/
def leaves : Split → Nat → List α → List (List (Nat × α))
  | .leaf, base, xs => [seqMapIdx (fun i x => (i, x)) base xs]
  | .node mid l r, base, xs =>
    leaves l base (xs.take mid) ++ leaves r (base + (xs.take mid).length) (xs.drop mid)

end Matreex.Par
