/-
Elementwise and scalar operations (`src/arithmetic.rs`): conformability (regenerated predicate),
capacity check, then either the same-order `zip` or the cross-order walk that re-maps every
position through `from_flattened(..).swap().to_flattened(..)` and reads the right operand with
`get_unchecked`.  Closures are effect-free functions here; with `op := Prod.mk` the result *is*
the call log (which pairs the closure was applied to, in which order, each once).
-/
import Matreex.Gen.Core
import Matreex.Model.Matrix
import Matreex.Model.Mem
import Matreex.Model.Construct

namespace Matreex
variable {α β γ : Type}

/-- the data path shared by the three ownership variants -/
def ewData (a : Matrix α) (b : Matrix β) (op : α → β → γ) : M (Array γ) :=
  if a.order = b.order then .ok (Array.zipWith op a.data b.data)
  else do
    let l ← (List.range a.data.size).mapM fun k => do
      let i ← Gen.AxisIndex.from_flattened k a.shape
      let j ← Gen.AxisIndex.to_flattened i.swap b.shape
      let right ← getUnchecked b.data j
      let left ← getUnchecked a.data k
      pure (op left right)
    pure l.toArray

/-- the guard prefix of `elementwise_operation` / `elementwise_operation_consume_self` on headers
only (usable for extents no allocation can reach): conformability first, then the capacity check
for `n` outputs of `esOut` bytes -/
def ewDecision (esOut : Nat) (a b : Hdr) (n : Nat) : M (Except Error Nat) := do
  let ok ← Gen.Matrix.is_elementwise_operation_conformable a b
  if !ok then pure (.error .shapeNotConformable)
  else Gen.Matrix.check_size esOut n

/-- `elementwise_operation` and `elementwise_operation_consume_self` -/
def Matrix.elementwiseOperation (esOut : Nat) (a : Matrix α) (b : Matrix β) (op : α → β → γ) :
    M (Except Error (Matrix γ)) := do
  let ok ← Gen.Matrix.is_elementwise_operation_conformable a.hdr b.hdr
  if !ok then pure (.error .shapeNotConformable)
  else do
    let c ← Gen.Matrix.check_size esOut a.data.size
    bindErr c fun _ => do
      Vec.reserveExact esOut a.data.size
      let data ← ewData a b op
      pure (.ok ⟨a.order, a.shape, data⟩)

/-- `elementwise_operation_assign` (in place; the state is returned in both outcomes) -/
def Matrix.elementwiseAssign (a : Matrix α) (b : Matrix β) (op : α → β → α) :
    M (Except Error Unit × Matrix α) := do
  let ok ← Gen.Matrix.is_elementwise_operation_conformable a.hdr b.hdr
  if !ok then pure (.error .shapeNotConformable, a)
  else do
    let data ← ewData a b op
    pure (.ok (), { a with data := data })

/-- `scalar_operation` and `scalar_operation_consume_self`: scalar as *second* argument -/
def Matrix.scalarOperation {σ : Type} (esOut : Nat) (m : Matrix α) (s : σ) (op : α → σ → γ) :
    M (Except Error (Matrix γ)) := do
  let c ← Gen.Matrix.check_size esOut m.data.size
  bindErr c fun _ => do
    Vec.reserveExact esOut m.data.size
    pure (.ok ⟨m.order, m.shape, m.data.map (fun x => op x s)⟩)

/-- `scalar_operation_assign` -/
def Matrix.scalarAssign {σ : Type} (m : Matrix α) (s : σ) (op : α → σ → α) : Matrix α :=
  { m with data := m.data.map (fun x => op x s) }

end Matreex
