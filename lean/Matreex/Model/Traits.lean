/-
A miniature of rustc's auto-trait rule, applied to the tables that translator T1 re-reads from
src/iter/iter_mut.rs and src/iter.rs on every run (C17, type-level half).

What is modelled: whether a struct is `Send` / `Sync` given what is known about the element type
`T`: an explicit (`unsafe`) impl applies under its bounds; without any explicit impl the struct has
the auto trait iff every field has it.  What is trusted: that this is rustc's rule (validated on
every run by the compile probes and the in-process probes, whose verdicts must equal `has`).
-/
import Matreex.Gen.AutoTraits

namespace Matreex.Traits
open Matreex.Gen

/-- what is known about the element type `T` -/
structure Caps where
  send : Bool
  sync : Bool
  deriving DecidableEq, Repr

/-- auto-trait status of one field: `NonNull<T>` and raw pointers are neither `Send` nor `Sync`;
`&mut T` (and `PhantomData` of it) is `Send` iff `T: Send` and `Sync` iff `T: Sync`; `&T` is `Send`
iff `T: Sync` and `Sync` iff `T: Sync`; integers and options of integers always are -/
def fieldHas (T : Caps) : TraitName → FieldKind → Bool
  | .send, .phantomMutRef => T.send
  | .sync, .phantomMutRef => T.sync
  | .send, .mutRef => T.send
  | .sync, .mutRef => T.sync
  | .send, .phantomRef => T.sync
  | .sync, .phantomRef => T.sync
  | .send, .plain => true
  | .sync, .plain => true
  | _, _ => false

def implsOf (tr : TraitName) (name : String) : List ImplRow :=
  traitImpls.filter fun r => r.ty == name && r.trait == tr

/-- does the struct `name` implement the auto trait `tr` when the element type has `T`'s traits? -/
def has (T : Caps) (tr : TraitName) (name : String) : Bool :=
  match implsOf tr name with
  | [] => match iterStructs.find? (·.name == name) with
          | some s => s.fields.all (fieldHas T tr)
          | none => false
  | rows => rows.any fun r => !r.outsideModel && (!r.needsSend || T.send) && (!r.needsSync || T.sync)

/-- can a value of the struct be duplicated (derive or hand-written impl of Clone / Copy)? -/
def duplicable (name : String) : Bool :=
  (match iterStructs.find? (·.name == name) with
   | some s => s.derives.contains "Clone" || s.derives.contains "Copy"
   | none => true) ||
  !(implsOf .clone name).isEmpty || !(implsOf .copy name).isEmpty

/-- does a value of the struct keep the matrix mutably borrowed for its whole lifetime `'a`?  (a
`&'a mut` field or the `PhantomData<&'a mut T>` marker; raw pointers alone carry no lifetime) -/
def holdsMutBorrow (name : String) : Bool :=
  match iterStructs.find? (·.name == name) with
  | some s => s.fields.contains .phantomMutRef || s.fields.contains .mutRef
  | none => false

/-- the struct behind the opaque type returned by `iter_rows_mut` / `iter_cols_mut`: the common
constructor type of all four (entry point, order) arms -/
def outerType : Option String :=
  match iterMutEntries.map (fun e => e.2.2.1) with
  | [] => none
  | t :: ts => if ts.all (· == t) then some t else none

/-- the struct yielded by the outer iterator (head of its `Iterator::Item`) -/
def innerType : Option String :=
  outerType.bind fun o => (iterItems.find? (·.1 == o)).map fun p => p.2.1

end Matreex.Traits
