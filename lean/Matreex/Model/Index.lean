/-
Indexing (`src/index.rs`): the three index kinds, resolved to the *offset* of the element a
returned reference points at.  Integer arithmetic is the regenerated code of `Gen/Core.lean`
(checked machine arithmetic), memory access is `refUnchecked` (UB outside the buffer).

`AsIndex` implementors are caller code: an accessor is a state machine whose `row`/`col` may
answer differently on every call; the model reads it exactly where the source does, in the
source's evaluation order (row-major: `row()` then `col()`; column-major: `col()` then `row()`).
-/
import Matreex.Gen.Core
import Matreex.Model.Matrix
import Matreex.Model.Mem

namespace Matreex
variable {α : Type}

/-! The functions below see a matrix as its header `h` (order, axis shape) and the length `len`
of its element vector: indexing never looks at element values. The `Matrix`-level wrappers at the
end pass `m.hdr` and `m.data.size`. (The driver uses the header-level forms directly for
zero-sized-element matrices whose `usize::MAX`-long vectors cannot be materialised.) -/

/-- `AxisIndex::get_unchecked(_mut)`: flatten, then `data.get_unchecked(index)` -/
def AxisIndex.resolveUncheckedH (i : AxisIndex) (h : Hdr) (len : Nat) : M Nat := do
  let k ← Gen.AxisIndex.to_flattened i h.shape
  refUnchecked len k

/-- `MatrixIndex::get(_mut)` default body, at `AxisIndex`: `ensure_in_bounds` then unchecked -/
def AxisIndex.resolveH (i : AxisIndex) (h : Hdr) (len : Nat) : M (Except Error Nat) := do
  let oob ← Gen.AxisIndex.is_out_of_bounds i h
  if oob then pure (.error .indexOutOfBounds)
  else do
    let k ← i.resolveUncheckedH h len
    pure (.ok k)

def AxisIndex.resolveUnchecked (i : AxisIndex) (m : Matrix α) : M Nat :=
  i.resolveUncheckedH m.hdr m.data.size
def AxisIndex.resolve (i : AxisIndex) (m : Matrix α) : M (Except Error Nat) :=
  i.resolveH m.hdr m.data.size

/-- caller-defined index type: `row(&self)` / `col(&self)` with interior state `σ` -/
structure Accessor (σ : Type) where
  row : σ → Nat × σ
  col : σ → Nat × σ

inductive AccCall | row | col deriving Repr, DecidableEq

/-- `AxisIndex::from_index(&index, order)` reading an accessor: returns the axis index, the
accessor's state afterwards and the calls made, in order -/
def AxisIndex.readAccessor {σ : Type} (acc : Accessor σ) (s : σ) (o : Order) :
    AxisIndex × σ × List AccCall :=
  match o with
  | .rowMajor =>
    let (r, s1) := acc.row s
    let (c, s2) := acc.col s1
    (⟨r, c⟩, s2, [.row, .col])
  | .colMajor =>
    let (c, s1) := acc.col s
    let (r, s2) := acc.row s1
    (⟨c, r⟩, s2, [.col, .row])

/-- `get` / `get_mut` for any `I: AsIndex` (the blanket impl's overrides): read the accessor
once into an `AxisIndex`, then the checked access on that snapshot -/
def Hdr.getAcc {σ : Type} (h : Hdr) (len : Nat) (acc : Accessor σ) (s : σ) :
    M (Except Error Nat × σ × List AccCall) := do
  let (i, s', calls) := AxisIndex.readAccessor acc s h.order
  let r ← i.resolveH h len
  pure (r, s', calls)

def Matrix.getAcc {σ : Type} (m : Matrix α) (acc : Accessor σ) (s : σ) :
    M (Except Error Nat × σ × List AccCall) := m.hdr.getAcc m.data.size acc s

/-- the plain accessor of `Index`, `(usize, usize)`, `[usize; 2]` -/
def Accessor.plain (r c : Nat) : Accessor Unit := ⟨fun _ => (r, ()), fun _ => (c, ())⟩

/-- `get((r, c))` with a plain index: the offset of the element, or the error -/
def Hdr.getIdx (h : Hdr) (len : Nat) (r c : Nat) : M (Except Error Nat) := do
  let (res, _, _) ← h.getAcc len (Accessor.plain r c) ()
  pure res

def Matrix.getIdx (m : Matrix α) (r c : Nat) : M (Except Error Nat) := m.hdr.getIdx m.data.size r c

/-- `WrappingIndex::get_unchecked(_mut)` -/
def WrappingIndex.resolveUncheckedH (i : WrappingIndex) (h : Hdr) (len : Nat) : M Nat := do
  let a ← Gen.AxisIndex.from_wrapping_index i h.order h.shape
  a.resolveUncheckedH h len

def WrappingIndex.resolveUnchecked (i : WrappingIndex) (m : Matrix α) : M Nat :=
  i.resolveUncheckedH m.hdr m.data.size

/-- `get` / `get_mut` with a `WrappingIndex` (trait default): out of bounds iff the matrix is
empty; otherwise the unchecked path -/
def WrappingIndex.resolveH (i : WrappingIndex) (h : Hdr) (len : Nat) : M (Except Error Nat) :=
  if len = 0 then pure (.error .indexOutOfBounds)
  else do
    let k ← i.resolveUncheckedH h len
    pure (.ok k)

def WrappingIndex.resolve (i : WrappingIndex) (m : Matrix α) : M (Except Error Nat) :=
  i.resolveH m.hdr m.data.size

/-- the `[]` operators: `match get { Err(e) => panic!, Ok(x) => x }` -/
def indexOp (r : M (Except Error Nat)) : M Nat := do
  match (← r) with
  | .ok k => pure k
  | .error e => throw (.panic e.name)

end Matreex
