/-
Primitives for the code regenerated from `Matrix::transpose` (translator T5, `Gen/TransposeGen.lean`):

* `loopFuel`: Rust's unbounded `loop { … break … }` as a recursive function with a fuel argument.
  The body maps the loop-carried state to `next s'` (fall through to the next iteration) or
  `done r` (`break`); when the fuel is used up the loop faults with `.fuel` (as the hand-written
  model does; the theorems show it never happens).
* a `Vec<bool>` read and written through `get_unchecked_mut`: the reference is the offset of the
  element; creating it outside the vector is undefined behaviour (never totalised).  Reading and
  writing through the offset re-check the bound, so that nothing depends on the vector keeping its
  length.
-/
import Matreex.Prelude

namespace Matreex

/-- what one run of a loop body ends in: the next iteration, or `break` -/
inductive LoopStep (σ ρ : Type) where
  | next (s : σ)
  | done (r : ρ)

/-- `loop { body }` with fuel -/
def loopFuel {σ ρ : Type} (body : σ → M (LoopStep σ ρ)) : (fuel : Nat) → σ → M ρ
  | 0, _ => .error .fuel
  | fuel + 1, s =>
    match body s with
    | .error e => .error e
    | .ok (.done r) => .ok r
    | .ok (.next s') => loopFuel body fuel s'

/-- `v.get_unchecked_mut(i)`: precondition `i < v.len()`.  The reference is the offset. -/
def vecRefUncheckedMut (v : Array Bool) (i : Nat) : M Nat :=
  if i < v.size then .ok i else .error (.ub "visited.get_unchecked_mut: index out of bounds")

/-- `*r` for a reference obtained from `get_unchecked_mut` -/
def refRead (v : Array Bool) (r : Nat) : M Bool :=
  if h : r < v.size then .ok v[r] else .error (.ub "visited.get_unchecked_mut: index out of bounds")

/-- `*r = b` for a reference obtained from `get_unchecked_mut` -/
def refWrite (v : Array Bool) (r : Nat) (b : Bool) : M (Array Bool) :=
  if h : r < v.size then .ok (v.set r b) else .error (.ub "visited.get_unchecked_mut: index out of bounds")

end Matreex
