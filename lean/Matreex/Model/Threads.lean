/-
Threads writing to memory (`Addr → V`): steps, program-order-preserving interleavings of several
threads' step lists, and the "no address is written by two threads" condition (C16, C17).
-/
namespace Matreex.Threads

abbrev Addr := Nat

structure Step (V : Type) where
  addr : Addr
  f : V → V

abbrev Mem (V : Type) := Addr → V

def Step.run {V : Type} (s : Step V) (m : Mem V) : Mem V :=
  fun a => if a = s.addr then s.f (m a) else m a

def runAll {V : Type} (ss : List (Step V)) (m : Mem V) : Mem V := ss.foldl (fun m s => s.run m) m

/-- `l` is a shuffle of `xs` and `ys` preserving the order inside each -/
inductive Shuffle {S : Type} : List S → List S → List S → Prop
  | nil : Shuffle [] [] []
  | left {x xs ys l} : Shuffle xs ys l → Shuffle (x :: xs) ys (x :: l)
  | right {y xs ys l} : Shuffle xs ys l → Shuffle xs (y :: ys) (y :: l)

/-- `l` is an interleaving of all the threads in `ts`, preserving each thread's program order -/
inductive Interleave {S : Type} : List (List S) → List S → Prop
  | nil : Interleave [] []
  | cons {t ts l' l} : Interleave ts l' → Shuffle t l' l → Interleave (t :: ts) l

/-- no address is written by two different threads -/
def DisjointThreads {V : Type} : List (List (Step V)) → Prop
  | [] => True
  | t :: ts => (∀ s ∈ t, ∀ u ∈ ts.flatten, s.addr ≠ u.addr) ∧ DisjointThreads ts


end Matreex.Threads
