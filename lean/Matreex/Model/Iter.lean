/-
Iteration (`src/iter.rs`): element iterators (`data.iter()` and its `enumerate().map(from_flattened)`
wrappers) and the immutable row/column views `data.iter().skip(a).step_by(s).take(t)` as list
functions with std's documented semantics (`step_by(0)` panics).  Double-ended / exact-size
consumption of any of them is consumption of the resulting list from either end.
-/
import Matreex.Gen.Core
import Matreex.Model.Matrix

namespace Matreex
variable {α : Type}

/-- `iter_elements` / `iter_elements_mut` / `into_iter_elements`: the memory-order sequence -/
def Matrix.iterElements (m : Matrix α) : List α := m.data.toList

/-- the `*_with_index` variants: `enumerate().map(|(k, e)| (Index::from_flattened(k, order, shape), e))`;
the index computation is the regenerated function (it divides by the minor extent) -/
def Matrix.iterWithIndex (m : Matrix α) : M (List (Index × α)) :=
  (List.range m.data.size).mapM fun k => do
    let i ← Gen.Index.from_flattened k m.order m.shape
    match m.data[k]? with
    | some x => pure (i, x)
    | none => .error (.ub "enumerate yielded a position outside the vector")

/-- `Iterator::step_by(s)` on a list: first item, then every `s`-th -/
def stepByAux (s : Nat) : Nat → List α → List α
  | 0, _ => []
  | _ + 1, [] => []
  | fuel + 1, x :: xs => x :: stepByAux s fuel (xs.drop (s - 1))

def stepBy (s : Nat) (l : List α) : M (List α) :=
  if s = 0 then .error (.panic "assertion failed: step != 0") else .ok (stepByAux s l.length l)

/-- `iter().skip(a).step_by(s).take(t)` collected -/
def view (l : List α) (a s t : Nat) : M (List α) :=
  match stepBy s (l.drop a) with
  | .error e => .error e
  | .ok xs => .ok (xs.take t)

/-- `iter_nth_major_axis_vector_unchecked(n)`: `skip = n * major_stride` (unchecked multiply in
the source, checked here), `step = minor_stride = 1`, `take = minor` -/
def Matrix.nthMajorUnchecked (m : Matrix α) (n : Nat) : M (List α) := do
  let skip ← umul n m.shape.minor
  view m.data.toList skip 1 m.shape.minor

/-- `iter_nth_minor_axis_vector_unchecked(n)`: `skip = n * 1`, `step = major_stride`, `take = major` -/
def Matrix.nthMinorUnchecked (m : Matrix α) (n : Nat) : M (List α) := do
  let skip ← umul n 1
  view m.data.toList skip m.shape.minor m.shape.major

def Matrix.nthMajor (m : Matrix α) (n : Nat) : M (Except Error (List α)) :=
  if n ≥ m.shape.major then .ok (.error .indexOutOfBounds)
  else do let v ← m.nthMajorUnchecked n; pure (.ok v)

def Matrix.nthMinor (m : Matrix α) (n : Nat) : M (Except Error (List α)) :=
  if n ≥ m.shape.minor then .ok (.error .indexOutOfBounds)
  else do let v ← m.nthMinorUnchecked n; pure (.ok v)

/-- `iter_nth_row(n)` / `iter_nth_row_mut(n)` -/
def Matrix.iterNthRow (m : Matrix α) (n : Nat) : M (Except Error (List α)) :=
  match m.order with
  | .rowMajor => m.nthMajor n
  | .colMajor => m.nthMinor n

/-- `iter_nth_col(n)` / `iter_nth_col_mut(n)` -/
def Matrix.iterNthCol (m : Matrix α) (n : Nat) : M (Except Error (List α)) :=
  match m.order with
  | .rowMajor => m.nthMinor n
  | .colMajor => m.nthMajor n

/-- `iter_rows()`: `(0..nrows).map(|n| unchecked view)` -/
def Matrix.iterRows (m : Matrix α) : M (List (List α)) :=
  (List.range m.nrows).mapM fun n =>
    match m.order with
    | .rowMajor => m.nthMajorUnchecked n
    | .colMajor => m.nthMinorUnchecked n

/-- `iter_cols()` -/
def Matrix.iterCols (m : Matrix α) : M (List (List α)) :=
  (List.range m.ncols).mapM fun n =>
    match m.order with
    | .rowMajor => m.nthMinorUnchecked n
    | .colMajor => m.nthMajorUnchecked n

end Matreex
