/-
`Matrix α` = the crate's triple `(order, shape, data)`; the coherence relation; the flat offset of
a logical coordinate; the logical view `at?` / `abs` that every specification is phrased in.
-/
import Matreex.Model.Core

namespace Matreex

structure Matrix (α : Type) where
  order : Order
  shape : AxisShape
  data : Array α
  deriving Repr, DecidableEq

variable {α : Type}

def Matrix.hdr (m : Matrix α) : Hdr := ⟨m.order, m.shape⟩
def Matrix.nrows (m : Matrix α) : Nat := m.shape.nrows m.order
def Matrix.ncols (m : Matrix α) : Nat := m.shape.ncols m.order
def Matrix.size (m : Matrix α) : Nat := m.data.size

/-- flat offset of logical `(r, c)`: `Index::to_flattened` -/
def Matrix.idx (m : Matrix α) (r c : Nat) : Nat := (Index.mk r c).flat m.order m.shape

/-- the logical element at `(r, c)`, if the coordinate is in bounds and the element exists -/
def Matrix.at? (m : Matrix α) (r c : Nat) : Option α :=
  if r < m.nrows ∧ c < m.ncols then m.data[m.idx r c]? else none

/-- The coherence relation COH: the extents multiply to the element count (which therefore fits
`usize`), and the byte size fits `isize` (`es` = element size). -/
structure Matrix.Coh (m : Matrix α) : Prop where
  size_eq : m.shape.major * m.shape.minor = m.data.size

/-- what `Vec` guarantees about any live vector of elements of size `es` -/
def Matrix.Fits (es : Nat) (m : Matrix α) : Prop :=
  m.data.size ≤ usizeMax ∧ es * m.data.size ≤ isizeMax

/-- logical view: extents and rows of elements -/
structure Rows (β : Type) where
  nrows : Nat
  ncols : Nat
  rows : List (List β)
  deriving Repr, DecidableEq

def Matrix.abs (m : Matrix α) : Rows (Option α) :=
  { nrows := m.nrows, ncols := m.ncols,
    rows := (List.range m.nrows).map fun r => (List.range m.ncols).map fun c => m.at? r c }

/-- memory-order element sequence -/
def Matrix.mem (m : Matrix α) : List α := m.data.toList

end Matreex
