/-
The small public functions that have no other home in the model (`src/lib.rs`, `src/construct.rs`,
`src/arithmetic.rs`, the operator impls of `src/arithmetic/{add,sub}.rs`): `contains`, `new` / `default`,
`with_capacity`, `is_square`, `ensure_square`, and the `match r { Err(e) => panic!("{e}"), Ok(x) => x }` idiom of
the operator impls.  New definitions only (translator T17 / `Lemmas/BridgeT17.lean`); nothing here changes an
existing model function.
-/
import Matreex.Model.Matrix
import Matreex.Model.Construct

namespace Matreex
variable {α β : Type}

/-- `<[T]>::contains(&x)` = `self.iter().any(|e| *e == *x)`: the ELEMENT is the left operand of the element
type's `PartialEq::eq` (`eqα`, as in `Model/Eq.lean`), the searched value the right one -/
def vecContains (eqα : α → α → Bool) (d : Array α) (x : α) : Bool :=
  d.toList.any (fun e => eqα e x)

/-- `Matrix::contains` -/
def Matrix.contains (eqα : α → α → Bool) (m : Matrix α) (x : α) : Bool := vecContains eqα m.data x

/-- `Matrix::new()` and `Matrix::default()`: default order, zero shape, no elements -/
def Matrix.empty : Matrix α := ⟨.rowMajor, ⟨0, 0⟩, #[]⟩

/-- `Matrix::with_capacity(n)`: `Vec::with_capacity(n)` panics with "capacity overflow" when the byte size
exceeds `isize::MAX`; the capacity itself is not part of the model's state -/
def Matrix.withCapacity (es n : Nat) : M (Matrix α) := do
  Vec.reserveExact es n
  pure Matrix.empty

/-- `Matrix::is_square` -/
def Hdr.isSquare (h : Hdr) : Bool := decide (h.nrows = h.ncols)

/-- `Matrix::ensure_square` (`Result<&Self>`: the header stands for `self`) -/
def Hdr.ensureSquare (h : Hdr) : Except Error Hdr :=
  if h.isSquare then .ok h else .error .squareMatrixRequired

/-- the operator impls: `match r { Err(error) => panic!("{error}"), Ok(output) => output }` -/
def unwrapOrPanic (r : M (Except Error β)) : M β := do
  match (← r) with
  | .ok x => pure x
  | .error e => throw (.panic e.name)

/-- the compound-assignment operator impls: `if let Err(error) = r { panic!("{error}"); }` on an in-place
operation, which leaves the matrix it returns -/
def assignOrPanic (r : M (Except Error Unit × Matrix α)) : M (Matrix α) := do
  let x ← r
  match x.1 with
  | .ok _ => pure x.2
  | .error e => throw (.panic e.name)

end Matreex
