/-
`Display` and `Debug` for matrices (`src/fmt.rs`) as functions to `List Char`.

An element's rendering (what its own `Display` / `Debug` writes) is an input: `render : α → List Char`.
`str::lines()` splits at `\n`, stripping the `\n` and one preceding `\r`; the final line ending is
optional.  `{line:<w$}` pads on the right to at least `w` characters, `{n:>w$}` on the left, and
`{SPACE:w$}` is a run of `max w 1` spaces (a width is a minimum).  Widths count characters.
`cache[index]` is checked indexing (a panic out of range); the flat index is the regenerated
`Index::to_flattened` (checked arithmetic).
-/
import Matreex.Gen.Core
import Matreex.Model.Matrix

namespace Matreex.Fmt
open Matreex

/-- pieces of `split_inclusive('\n')`: every piece but possibly the last ends with `\n`; no piece is empty -/
def splitInclusive : List Char → List Char → List (List Char)
  | [], [] => []
  | [], cur => [cur.reverse]
  | c :: cs, cur => if c = '\n' then (c :: cur).reverse :: splitInclusive cs [] else splitInclusive cs (c :: cur)

/-- strip a final `\n`, and then one `\r` before it -/
def stripEnding (l : List Char) : List Char :=
  match l.reverse with
  | '\n' :: '\r' :: rest => rest.reverse
  | '\n' :: rest => rest.reverse
  | _ => l

/-- `str::lines()` -/
def lines (s : List Char) : List (List Char) := (splitInclusive s []).map stripEnding

def spaces (n : Nat) : List Char := List.replicate n ' '

/-- `{SPACE:w$}` -/
def spaceW (w : Nat) : List Char := spaces (max w 1)
/-- `{line:<w$}` -/
def padRight (l : List Char) (w : Nat) : List Char := l ++ spaces (w - l.length)
/-- `{n:>w$}` for a number -/
def padLeftNat (n w : Nat) : List Char := spaces (w - (toString n).length) ++ (toString n).toList

/-- maximum over a list of naturals, `0` for the empty list (`.max().unwrap_or(0)` / the running maxima) -/
def maxOf (l : List Nat) : Nat := l.foldl max 0

def TAB_SIZE : Nat := 4
def OUTER_GAP : Nat := 2
def INTER_GAP : Nat := 2
def INNER_GAP : Nat := 1

/-- `cache[index].next()` then the cell text: `None` ⇒ `{SPACE:w$}`, `Some(line)` ⇒ `{line:<w$}`;
returns the cell and the cache with that line popped -/
def cell (cache : Array (List (List Char))) (index w : Nat) : M (List Char × Array (List (List Char))) :=
  match cache[index]? with
  | none => .error (.panic "index out of bounds: cache[index]")
  | some [] => .ok (spaceW w, cache)
  | some (l :: rest) => .ok (padRight l w, cache.set! index rest)

/-- one output line of a row: `prefix`, then for each column: gap (not before the first), `label col`,
the cell -/
def rowLine (o : Order) (sh : AxisShape) (row ncols w : Nat) (label : Nat → List Char) :
    (col : Nat) → (todo : Nat) → Array (List (List Char)) → List Char → M (List Char × Array (List (List Char)))
  | _, 0, cache, acc => .ok (acc, cache)
  | col, todo + 1, cache, acc => do
    let index ← Gen.Index.to_flattened ⟨row, col⟩ o sh
    let (c, cache') ← cell cache index w
    let gap := if col ≠ 0 then spaceW INTER_GAP else []
    rowLine o sh row ncols w label (col + 1) todo cache' (acc ++ gap ++ label index ++ c)

/-- the remaining `height - 1` lines of a row -/
def moreLines (o : Order) (sh : AxisShape) (row ncols w : Nat) (pre : List Char) (label : Nat → List Char) :
    (todo : Nat) → Array (List (List Char)) → List Char → M (List Char × Array (List (List Char)))
  | 0, cache, acc => .ok (acc, cache)
  | todo + 1, cache, acc => do
    let (l, cache') ← rowLine o sh row ncols w label 0 ncols cache pre
    moreLines o sh row ncols w pre label todo cache' (acc ++ l ++ ['\n'])

/-- all rows -/
def rowsLoop (o : Order) (sh : AxisShape) (ncols w h : Nat)
    (firstPre : Nat → List Char) (morePre : List Char) (firstLabel moreLabel : Nat → List Char) :
    (row : Nat) → (todo : Nat) → Array (List (List Char)) → List Char → M (List Char)
  | _, 0, _, acc => .ok acc
  | row, todo + 1, cache, acc => do
    let (l, cache1) ← rowLine o sh row ncols w firstLabel 0 ncols cache (firstPre row ++ ['['])
    let (ls, cache2) ← moreLines o sh row ncols w morePre moreLabel (h - 1) cache1 []
    rowsLoop o sh ncols w h firstPre morePre firstLabel moreLabel (row + 1) todo cache2 (acc ++ l ++ [']', '\n'] ++ ls)

variable {α : Type}

/-- `impl Display for Matrix<T>` -/
def display (render : α → List Char) (m : Matrix α) : M (List Char) :=
  if m.data.size = 0 then .ok ['[', ']']
  else
    let cache := (m.data.toList.map fun e => lines (render e)).toArray
    let w := maxOf (cache.toList.map fun ls => maxOf (ls.map List.length))
    let h := maxOf (cache.toList.map List.length)
    do
      let body ← rowsLoop m.order m.shape m.ncols w h (fun _ => spaceW TAB_SIZE) (spaceW TAB_SIZE ++ [' '])
        (fun _ => []) (fun _ => []) 0 m.nrows cache []
      pure (['[', '\n'] ++ body ++ [']'])

/-- header line of `Debug`: the column numbers -/
def debugHeader (ncols iw w : Nat) : (col : Nat) → (todo : Nat) → List Char → List Char
  | _, 0, acc => acc
  | col, todo + 1, acc =>
    let gap := if col ≠ 0 then spaceW INTER_GAP else []
    debugHeader ncols iw w (col + 1) todo (acc ++ gap ++ padLeftNat col iw ++ spaceW INNER_GAP ++ spaceW w)

/-- `impl Debug for Matrix<T>` (colour support off: the index labels are plain text) -/
def debug (render : α → List Char) (m : Matrix α) : M (List Char) :=
  if m.data.size = 0 then .ok ['[', ']']
  else
    let cache := (m.data.toList.map fun e => lines (render e)).toArray
    let w := maxOf (cache.toList.map fun ls => maxOf (ls.map List.length))
    let h := maxOf (cache.toList.map List.length)
    let iw := (toString m.data.size).length
    let header := debugHeader m.ncols iw w 0 m.ncols
      (spaceW TAB_SIZE ++ spaceW iw ++ spaceW OUTER_GAP ++ [' '])
    do
      let body ← rowsLoop m.order m.shape m.ncols w h
        (fun row => spaceW TAB_SIZE ++ padLeftNat row iw ++ spaceW OUTER_GAP)
        (spaceW TAB_SIZE ++ spaceW iw ++ spaceW OUTER_GAP ++ [' '])
        (fun index => padLeftNat index iw ++ spaceW INNER_GAP)
        (fun _ => spaceW iw ++ spaceW INNER_GAP) 0 m.nrows cache []
      pure (['[', '\n'] ++ header ++ ['\n'] ++ body ++ [']'])

end Matreex.Fmt
