/-
`swap`, `swap_rows`, `swap_cols` (`src/swap.rs`).  `ptr::swap_nonoverlapping` carries its
precondition (both ranges inside the buffer; disjoint unless zero bytes are swapped) as part of
the model; the strided-axis loop computes every offset from the loop counter (checked
arithmetic), as the source does.
-/
import Matreex.Model.Index

namespace Matreex
variable {α : Type}

/-- `swap_major_axis_vectors(m, n)`: rows of a row-major / columns of a column-major matrix -/
def Matrix.swapMajor (es : Nat) (m : Matrix α) (a b : Nat) : M (Except Error Unit × Matrix α) :=
  if a ≥ m.shape.major ∨ b ≥ m.shape.major then .ok (.error .indexOutOfBounds, m)
  else if a = b then .ok (.ok (), m)
  else do
    let i ← umul a m.shape.minor
    let j ← umul b m.shape.minor
    let d ← swapNonoverlapping es m.data i j m.shape.minor
    pure (.ok (), { m with data := d })

/-- the loop of `swap_minor_axis_vectors`; iteration `i = major - todo` -/
def swapMinorLoop (sh : AxisShape) (a b : Nat) : (todo : Nat) → Array α → M (Array α)
  | 0, d => .ok d
  | todo + 1, d => do
    let offset ← umul (sh.major - (todo + 1)) sh.minor
    let x ← uadd offset a
    let y ← uadd offset b
    let d' ← ptrSwap d x y
    swapMinorLoop sh a b todo d'

/-- `swap_minor_axis_vectors(m, n)`: the strided axis -/
def Matrix.swapMinor (m : Matrix α) (a b : Nat) : M (Except Error Unit × Matrix α) :=
  if a ≥ m.shape.minor ∨ b ≥ m.shape.minor then .ok (.error .indexOutOfBounds, m)
  else do
    let i ← umul a 1
    let j ← umul b 1
    let d ← swapMinorLoop m.shape i j m.shape.major m.data
    pure (.ok (), { m with data := d })

def Matrix.swapRows (es : Nat) (m : Matrix α) (a b : Nat) : M (Except Error Unit × Matrix α) :=
  match m.order with
  | .rowMajor => m.swapMajor es a b
  | .colMajor => m.swapMinor a b

def Matrix.swapCols (es : Nat) (m : Matrix α) (a b : Nat) : M (Except Error Unit × Matrix α) :=
  match m.order with
  | .rowMajor => m.swapMinor a b
  | .colMajor => m.swapMajor es a b

/-- `swap(i, j)`: two successive checked `get_mut`s (each may be any index kind, already resolved
to `M (Except Error Nat)` by `Model/Index.lean`), then `ptr::swap` -/
def Matrix.swapElems (m : Matrix α) (ri rj : M (Except Error Nat)) :
    M (Except Error Unit × Matrix α) := do
  match (← ri) with
  | .error e => pure (.error e, m)
  | .ok x =>
    match (← rj) with
    | .error e => pure (.error e, m)
    | .ok y => do
      let d ← ptrSwap m.data x y
      pure (.ok (), { m with data := d })

end Matreex
