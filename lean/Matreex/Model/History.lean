/-
Operation histories (C01): a register file of matrices and an operation language covering the
public safe operations whose models exist in `Model/`; `step` applies one operation with the
crate's semantics (a `Result::Err` leaves the registers as they were; a fault — which the
theorems exclude — aborts the run).  Closures, `Clone`, `Default` are effect-free functions carried
by the operations.
-/
import Matreex.Model.Construct
import Matreex.Model.Transpose
import Matreex.Model.Swap
import Matreex.Model.Overwrite
import Matreex.Model.Elementwise
import Matreex.Model.Mul
import Matreex.Model.Convert
import Matreex.Model.Index

namespace Matreex
variable {α : Type}

/-- `*m.get_mut((i, j))? = v`: the checked mutable access of `Model/Index.lean` (`Matrix.getIdx`, the
function T11's bridge ties to `src/index.rs`); on `Ok` the element the returned reference points at is
overwritten (the old one is dropped), on `Err(IndexOutOfBounds)` the matrix is untouched.  By C03 /
C06 / C15 the same write is what a mutable row / column view or `iter_elements_mut` performs at that
logical position. -/
def Matrix.setAt (m : Matrix α) (i j : Nat) (v : α) : M (Except Error Unit × Matrix α) :=
  match m.getIdx i j with
  | .error e => .error e
  | .ok (.error e) => .ok (.error e, m)
  | .ok (.ok k) => .ok (.ok (), { m with data := m.data.setIfInBounds k v })

/-- `let e = m.get_mut((i, j))?; *e = f(*e)`: in-place read-modify-write of one element, same
failure behaviour as `setAt` -/
def Matrix.updAt (m : Matrix α) (i j : Nat) (f : α → α) : M (Except Error Unit × Matrix α) :=
  match m.getIdx i j with
  | .error e => .error e
  | .ok (.error e) => .ok (.error e, m)
  | .ok (.ok k) => .ok (.ok (), { m with data := m.data.modify k f })

end Matreex

namespace Matreex.History
open Matreex

inductive Op (α : Type) where
  | withValue (dst r c : Nat) (v : α)
  | withInitializer (dst r c : Nat) (f : Index → α)
  | fromRows (dst : Nat) (rows : List (List α))          -- TryFrom<Vec<Vec<T>>>
  | fromIter (dst : Nat) (rows : List (List α))          -- FromIterator (a ragged input panics: excluded by `WF`)
  | transpose (r : Nat)
  | switchOrder (r : Nat)
  | switchOrderWR (r : Nat)
  | setOrder (r : Nat) (o : Order)
  | setOrderWR (r : Nat) (o : Order)
  | reshape (r nr nc : Nat)
  | resize (r nr nc : Nat) (dflt : α)
  | swapRows (r a b : Nat)
  | swapCols (r a b : Nat)
  | swapElems (r i1 j1 i2 j2 : Nat)
  | overwrite (dst src : Nat) (clone : α → α)
  | map (dst src : Nat) (f : α → α)                      -- apply / map / map_ref / clone / scalar ops / neg
  | elementwise (dst a b : Nat) (op : α → α → α)
  | elementwiseAssign (a b : Nat) (op : α → α → α)
  | multiply (dst a b : Nat) (mul add : α → α → α) (dflt : α)
  | clear (r : Nat)
  | drop (r : Nat)
  | setAt (r i j : Nat) (v : α)                          -- `*m.get_mut((i, j))? = v` / `m[(i, j)] = v` / a write through a mutable view
  | updAt (r i j : Nat) (f : α → α)                      -- `let e = m.get_mut((i, j))?; *e = f(*e)`

structure World (α : Type) where
  regs : List (Option (Matrix α))

variable {α : Type}

def World.get (w : World α) (r : Nat) : Option (Matrix α) := (w.regs[r]?).join

/-- write register `r` (extending the file with empty slots if needed) -/
def World.set (w : World α) (r : Nat) (m : Option (Matrix α)) : World α :=
  ⟨(w.regs ++ List.replicate (r + 1 - w.regs.length) none).set r m⟩

/-- arguments are `usize` values; ragged `FromIterator` input (a documented panic) is excluded -/
def Op.WF : Op α → Prop
  | .withValue _ r c _ => r ≤ usizeMax ∧ c ≤ usizeMax
  | .withInitializer _ r c _ => r ≤ usizeMax ∧ c ≤ usizeMax
  | .fromRows _ rows => rows.length ≤ usizeMax ∧ ∀ row ∈ rows, row.length ≤ usizeMax
  | .fromIter _ rows => rows.length ≤ usizeMax ∧ (∀ row ∈ rows, row.length = (rows.head?.map List.length).getD 0) ∧
      rows.flatten.length ≤ usizeMax
  | .swapRows _ a b => a ≤ usizeMax ∧ b ≤ usizeMax
  | .swapCols _ a b => a ≤ usizeMax ∧ b ≤ usizeMax
  | .swapElems _ i1 j1 i2 j2 => i1 ≤ usizeMax ∧ j1 ≤ usizeMax ∧ i2 ≤ usizeMax ∧ j2 ≤ usizeMax
  | .setAt _ i j _ => i ≤ usizeMax ∧ j ≤ usizeMax
  | .updAt _ i j _ => i ≤ usizeMax ∧ j ≤ usizeMax
  | _ => True

/-- run an operation on one register in place; a `Result::Err` keeps the old matrix -/
def inPlace (w : World α) (r : Nat) (f : Matrix α → M (Except Error Unit × Matrix α)) : M (World α) :=
  match w.get r with
  | none => .ok w
  | some m =>
    match f m with
    | .error e => .error e
    | .ok (_, m') => .ok (w.set r (some m'))

/-- run an infallible in-place operation -/
def inPlace' (w : World α) (r : Nat) (f : Matrix α → M (Matrix α)) : M (World α) :=
  match w.get r with
  | none => .ok w
  | some m =>
    match f m with
    | .error e => .error e
    | .ok m' => .ok (w.set r (some m'))

/-- store the result of a constructing operation; on `Err` nothing is stored -/
def store (w : World α) (dst : Nat) (res : M (Except Error (Matrix α))) : M (World α) :=
  match res with
  | .error e => .error e
  | .ok (.error _) => .ok w
  | .ok (.ok m) => .ok (w.set dst (some m))

/-- one operation; `es` = `size_of::<T>()` (sized element type: the `zst` flags are `false`) -/
def step (es : Nat) (w : World α) : Op α → M (World α)
  | .withValue dst r c v => store w dst (Matrix.withValue es ⟨r, c⟩ v)
  | .withInitializer dst r c f => store w dst (Matrix.withInitializer es ⟨r, c⟩ f)
  | .fromRows dst rows => store w dst (Matrix.tryFromRows es rows)
  | .fromIter dst rows =>
    match Matrix.fromIter rows with
    | .error e => .error e
    | .ok m => .ok (w.set dst (some m))
  | .transpose r => inPlace' w r (·.transpose false)
  | .switchOrder r => inPlace' w r (·.switchOrder false)
  | .switchOrderWR r => inPlace' w r (fun m => .ok m.switchOrderWithoutRearrangement)
  | .setOrder r o => inPlace' w r (·.setOrder false o)
  | .setOrderWR r o => inPlace' w r (fun m => .ok (m.setOrderWithoutRearrangement o))
  | .reshape r nr nc => inPlace w r (·.reshape ⟨nr, nc⟩)
  | .resize r nr nc dflt => inPlace w r (fun m => m.resize es ⟨nr, nc⟩ dflt)
  | .swapRows r a b => inPlace w r (·.swapRows es a b)
  | .swapCols r a b => inPlace w r (·.swapCols es a b)
  | .swapElems r i1 j1 i2 j2 => inPlace w r (fun m => m.swapElems (m.getIdx i1 j1) (m.getIdx i2 j2))
  | .overwrite dst src clone =>
    match w.get src with
    | none => .ok w
    | some s => inPlace' w dst (fun d => d.overwrite clone s)
  | .map dst src f =>
    match w.get src with
    | none => .ok w
    | some s => store w dst (s.map es f)
  | .elementwise dst a b op =>
    match w.get a, w.get b with
    | some ma, some mb => store w dst (ma.elementwiseOperation es mb op)
    | _, _ => .ok w
  | .elementwiseAssign a b op =>
    match w.get b with
    | none => .ok w
    | some mb => inPlace w a (fun ma => ma.elementwiseAssign mb op)
  | .multiply dst a b mul add dflt =>
    match w.get a, w.get b with
    | some ma, some mb => store w dst (ma.multiply false false es mb mul add dflt)
    | _, _ => .ok w
  | .clear r => inPlace' w r (fun m => .ok { m with shape := ⟨0, 0⟩, data := #[] })
  | .drop r => .ok (w.set r none)
  | .setAt r i j v => inPlace w r (·.setAt i j v)
  | .updAt r i j f => inPlace w r (·.updAt i j f)

def run (es : Nat) : World α → List (Op α) → M (World α)
  | w, [] => .ok w
  | w, op :: ops =>
    match step es w op with
    | .error e => .error e
    | .ok w' => run es w' ops

/-- the invariant: every live matrix is coherent and its element count fits `usize` -/
def Inv (w : World α) : Prop :=
  ∀ m, some m ∈ w.regs → m.Coh ∧ m.data.size ≤ usizeMax

end Matreex.History
