/-
`multiply` / `multiplication_like_operation` (`src/arithmetic/mul.rs`, `src/arithmetic.rs`):
conformability and size decision (`mulDecision`, C08), the zero-inner-dimension branch
(`resize_with(size, U::default)`), `set_order` on both operands (C05's transpose loop), the two
loop nests, `get_nth_major_axis_vector` as an unchecked sub-slice with checked offset arithmetic,
`dot_product` = `zip · map · reduce`, `unwrap_unchecked`.  `mul`, `add`, `dflt` are abstract (no
algebraic laws), so operand order and association are pinned.
-/
import Matreex.Model.Construct
import Matreex.Model.Transpose

namespace Matreex
variable {L R U : Type}

/-- `lhs.iter().zip(rhs).map(|(l, r)| l.clone() * r.clone()).reduce(|acc, p| acc + p)` -/
def dotProduct (mul : L → R → U) (add : U → U → U) (ls : List L) (rs : List R) : Option U :=
  match List.zipWith mul ls rs with
  | [] => none
  | p :: ps => some (ps.foldl add p)

/-- `get_nth_major_axis_vector(n)`: `lower = n * major_stride; upper = lower + major_stride;
data.get_unchecked(lower..upper)` -/
def nthMajorVector {α : Type} (m : Matrix α) (n : Nat) : M (List α) := do
  let lower ← umul n m.shape.minor
  let upper ← uadd lower m.shape.minor
  let s ← sliceUnchecked m.data lower upper
  pure s.toList

/-- `for x in lo..lo+todo { data.push(f x) }` -/
def pushLoop {α : Type} (f : Nat → M α) : (todo lo : Nat) → Array α → M (Array α)
  | 0, _, d => .ok d
  | todo + 1, lo, d =>
    match f lo with
    | .error e => .error e
    | .ok x => pushLoop f todo (lo + 1) (d.push x)

/-- outer loop: `for o in lo..lo+todo { for i in 0..inner { data.push(f o i) } }` -/
def nestLoop {α : Type} (f : Nat → Nat → M α) (inner : Nat) : (todo lo : Nat) → Array α → M (Array α)
  | 0, _, d => .ok d
  | todo + 1, lo, d =>
    match pushLoop (f lo) inner 0 d with
    | .error e => .error e
    | .ok d' => nestLoop f inner todo (lo + 1) d'

/-- the body shared by `multiply` and `multiplication_like_operation`; `cell ls rs` computes one
output element from row `ls` of lhs and column `rs` of rhs -/
def mulLike (zstL zstR : Bool) (esOut : Nat) (a : Matrix L) (b : Matrix R)
    (cell : List L → List R → M U) (dflt : U) : M (Except Error (Matrix U)) := do
  let d ← mulDecision esOut a.hdr b.hdr
  bindErr d fun (sh, size) => do
    let order := a.order
    let inner ← Gen.Matrix.ncols a.hdr
    if inner = 0 then pure (.ok ⟨order, sh, Array.replicate size dflt⟩)
    else do
      let nrows ← Gen.Matrix.nrows a.hdr
      let ncols ← Gen.Matrix.ncols b.hdr
      let a' ← a.setOrder zstL .rowMajor
      let b' ← b.setOrder zstR .colMajor
      let cellAt := fun (row col : Nat) => do
        let ls ← nthMajorVector a' row
        let rs ← nthMajorVector b' col
        cell ls rs
      let data ← match order with
        | .rowMajor => nestLoop (fun row col => cellAt row col) ncols nrows 0 #[]
        | .colMajor => nestLoop (fun col row => cellAt row col) nrows ncols 0 #[]
      pure (.ok ⟨order, sh, data⟩)

/-- `multiply`: each cell is `dot_product(..).unwrap_unchecked()` -/
def Matrix.multiply (zstL zstR : Bool) (esOut : Nat) (a : Matrix L) (b : Matrix R)
    (mul : L → R → U) (add : U → U → U) (dflt : U) : M (Except Error (Matrix U)) :=
  mulLike zstL zstR esOut a b (fun ls rs => unwrapUnchecked (dotProduct mul add ls rs)) dflt

/-- `multiplication_like_operation`: each cell is the caller's closure on the two slices -/
def Matrix.multiplicationLike (zstL zstR : Bool) (esOut : Nat) (a : Matrix L) (b : Matrix R)
    (op : List L → List R → U) (dflt : U) : M (Except Error (Matrix U)) :=
  mulLike zstL zstR esOut a b (fun ls rs => .ok (op ls rs)) dflt

end Matreex
