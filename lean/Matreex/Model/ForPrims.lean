/-
Primitive for the code regenerated from the row-wise conversions of `src/convert.rs` (translator T13,
`Gen/T13Gen.lean`): Rust's `for x in xs { body }` over a finite sequence, where the body may leave the
enclosing function (`return r`) or panic.

The body maps the loop-carried state (the `let mut` locals the body assigns) and the current item to
`next s'` (fall through to the next item), `done r` (`return r`: the remaining items are not looked at) or a
fault (a panic: likewise).  The loop ends in `next s` with the final state when the items are used up.
`LoopStep` is the type of `Model/LoopPrims.lean`.  No fuel: the recursion is on the list.
-/
import Matreex.Model.LoopPrims

namespace Matreex

/-- `for x in xs { body }` with early `return` -/
def forEachM {σ ρ β : Type} (body : σ → β → M (LoopStep σ ρ)) : List β → σ → M (LoopStep σ ρ)
  | [], s => .ok (.next s)
  | x :: xs, s =>
    match body s x with
    | .error e => .error e
    | .ok (.done r) => .ok (.done r)
    | .ok (.next s') => forEachM body xs s'

end Matreex
