/-
Fault schedules and unwinding (property C02).

A world is what survives a caught unwind: the number of caller-supplied callbacks made so far
(`tick`), the matrix (axis shape + elements in memory order) and the drop log. A fault schedule
`φ : Nat → Bool` says which callbacks panic ("callback number `n` panics"); every theorem in
`Props/C02.lean` is for an arbitrary schedule.

Modelled: `Vec::truncate`, the growing part of `Vec::resize_with`, `Matrix::resize` in both
orderings (`resizePinned` = the old, defective one; `resizeFixed` = the repaired one),
`Matrix::clear`, the in-place element loops (`forEachF`), `overwrite` (`overwriteF`) and the
consuming/constructing operations (`mapConsumeF`).

Core Lean only.
-/
import Matreex.Prelude

namespace Matreex.Effects
open Matreex

structure Mat (α : Type) where
  shape : AxisShape
  data : List α          -- memory order
  deriving Repr, DecidableEq

/-- the coherence relation: shape product = number of stored elements -/
def Mat.Coh (m : Mat α) : Prop := m.shape.major * m.shape.minor = m.data.length

instance (m : Mat α) : Decidable m.Coh := by unfold Mat.Coh; infer_instance

/-- the part of the world that survives an unwind -/
structure World (α : Type) where
  tick : Nat             -- number of user callbacks made so far
  mat : Mat α
  dropped : List α       -- drop log
  deriving Repr, DecidableEq

inductive Outcome where
  | done
  | unwound            -- a user callback panicked; the unwind was caught by the client
  | aborted            -- panic while panicking
  deriving Repr, DecidableEq

/-! ### `Vec::truncate`, `Vec::resize_with` -/

/-- The dropping half of `Vec::truncate(n)`: the tail is dropped in order; a panicking `Drop`
does not stop the remaining drops (second panic = abort). `φ k` says whether the callback
number `k` (here a `Drop::drop` call) panics. The element goes to the drop log whether or not
its `Drop` panics. -/
def dropTail (φ : Nat → Bool) : List α → Nat → List α → Bool → (Nat × List α × Outcome)
  | [], tick, dropped, panicked => (tick, dropped, if panicked then .unwound else .done)
  | x :: xs, tick, dropped, panicked =>
    if φ tick then
      if panicked then (tick + 1, dropped ++ [x], .aborted)
      else dropTail φ xs (tick + 1) (dropped ++ [x]) true
    else dropTail φ xs (tick + 1) (dropped ++ [x]) panicked

/-- `Vec::truncate(n)`: the length is set first, then the tail is dropped. -/
def truncate (φ : Nat → Bool) (n : Nat) (w : World α) : World α × Outcome :=
  let keep := w.mat.data.take n
  let tail := w.mat.data.drop n
  let (tick, dropped, out) := dropTail φ tail w.tick w.dropped false
  ({ tick := tick, mat := { w.mat with data := keep }, dropped := dropped }, out)

/-- `Vec::resize_with(n, f)` growing part: push `f()` until `k` more elements are stored; if `f`
panics the length reflects the pushes completed so far (`SetLenOnDrop`). -/
def growWith (φ : Nat → Bool) (mk : Nat → α) : Nat → World α → World α × Outcome
  | 0, w => (w, .done)
  | k + 1, w =>
    if φ w.tick then ({ w with tick := w.tick + 1 }, .unwound)
    else growWith φ mk k
      { w with tick := w.tick + 1, mat := { w.mat with data := w.mat.data ++ [mk w.tick] } }

/-! ### `Matrix::resize` -/

/-- `resize` as on the pinned tree: shape first, then `resize_with`. -/
def resizePinned (φ : Nat → Bool) (mk : Nat → α) (shape : AxisShape) (w : World α) :
    World α × Outcome :=
  let size := shape.major * shape.minor
  let w := { w with mat := { w.mat with shape := shape } }
  if size ≤ w.mat.data.length then truncate φ size w
  else growWith φ mk (size - w.mat.data.length) w

/-- `resize` as repaired: shrink = shape then truncate; grow = fill, then shape; on unwind the
guard truncates back to the old length (which may itself run `Drop`s). -/
def resizeFixed (φ : Nat → Bool) (mk : Nat → α) (shape : AxisShape) (w : World α) :
    World α × Outcome :=
  let size := shape.major * shape.minor
  let old := w.mat.data.length
  if size ≤ old then truncate φ size { w with mat := { w.mat with shape := shape } }
  else
    match growWith φ mk (size - old) w with
    | (w', .done) => ({ w' with mat := { w'.mat with shape := shape } }, .done)
    | (w', _) =>
      -- Guard::drop during unwinding: truncate(old); a panic in there is a second panic
      match truncate φ old w' with
      | (w'', .done) => (w'', .unwound)
      | (w'', _) => (w'', .aborted)

/-! ### `Matrix::clear` -/

/-- `clear()`: `self.shape = AxisShape::default()` first, then `self.data.clear()`
(= `truncate(0)`: every element's `Drop` is a callback that may panic; the remaining elements
are still dropped; a second panic aborts). -/
def clearF (φ : Nat → Bool) (w : World α) : World α × Outcome :=
  truncate φ 0 { w with mat := { w.mat with shape := ⟨0, 0⟩ } }

/-! ### in-place element loops -/

/-- The loop of `forEachF` on the element list: `(new elements, tick, outcome)`. Element number
`i` gets one callback: if it panics, elements `< i` are already updated, element `i` and the
later ones are untouched. -/
def forEachGo (φ : Nat → Bool) (upd : Nat → α → α) : List α → Nat → (List α × Nat × Outcome)
  | [], tick => ([], tick, .done)
  | x :: xs, tick =>
    if φ tick then (x :: xs, tick + 1, .unwound)
    else
      let r := forEachGo φ upd xs (tick + 1)
      (upd tick x :: r.1, r.2.1, r.2.2)

/-- `apply`, `elementwise_operation_assign`, `scalar_operation_assign`, mutation through
`iter_elements_mut`: visit the elements in memory order, one callback each (the callback sees
its own number, so `upd` may depend on it). Shape and length are never touched; nothing is
dropped by the loop itself. -/
def forEachF (φ : Nat → Bool) (upd : Nat → α → α) (w : World α) : World α × Outcome :=
  let r := forEachGo φ upd w.mat.data w.tick
  ({ w with tick := r.2.1, mat := { w.mat with data := r.1 } }, r.2.2)

/-- The loop of `overwriteF`: `(new elements, tick, drop log, outcome)`. One step per position
while the budget `k`, the destination and the source all last:
* callback `tick`: `Clone::clone` of the source element; a panic leaves the position untouched;
* callback `tick + 1`: `*x = clone`, which drops the old value (its `Drop` is the callback); the
  old value goes to the drop log either way, and the slot already holds the new value when the
  `Drop` panics (drop-and-replace writes the new value on the unwind path too). -/
def overwriteGo (φ : Nat → Bool) (clone : Nat → α → α) :
    List α → Nat → List α → Nat → List α → (List α × Nat × List α × Outcome)
  | [], _, _, tick, dropped => ([], tick, dropped, .done)
  | x :: xs, k, src, tick, dropped =>
    match k, src with
    | k + 1, s :: ss =>
      if φ tick then (x :: xs, tick + 1, dropped, .unwound)
      else if φ (tick + 1) then (clone tick s :: xs, tick + 2, dropped ++ [x], .unwound)
      else
        let r := overwriteGo φ clone xs k ss (tick + 2) (dropped ++ [x])
        (clone tick s :: r.1, r.2.1, r.2.2.1, r.2.2.2)
    | _, _ => (x :: xs, tick, dropped, .done)

/-- `overwrite`: the first `min k (min data.length src.length)` positions, in memory order, are
assigned clones of the source elements. Shape and length are never touched. -/
def overwriteF (φ : Nat → Bool) (clone : Nat → α → α) (k : Nat) (src : List α) (w : World α) :
    World α × Outcome :=
  let r := overwriteGo φ clone w.mat.data k src w.tick w.dropped
  ({ tick := r.2.1, mat := { w.mat with data := r.1 }, dropped := r.2.2.1 }, r.2.2.2)

/-! ### consuming / constructing operations -/

/-- The loop of `mapConsumeF`: `(tick, results built, what the unwind drops)`. `none` = every
callback returned. `some log` = a callback panicked: `log` lists, in the order of the drops, the
elements handed to the closure so far (the panicking call's argument included: the closure owns
and drops it), then the results built so far, then the source elements not yet visited. -/
def mapGo (φ : Nat → Bool) (f : Nat → α → α) :
    List α → Nat → List α → List α → (Nat × List α × Option (List α))
  | [], tick, _, built => (tick, built, none)
  | x :: xs, tick, consumed, built =>
    if φ tick then (tick + 1, built, some (consumed ++ [x] ++ built ++ xs))
    else mapGo φ f xs (tick + 1) (consumed ++ [x]) (built ++ [f tick x])

/-- `map`, `with_*`, conversions, products: the result is built in a fresh vector from the
elements in order, one callback each. If a callback panics nothing of the operation survives:
the consumed matrix is gone (modelled as the empty 0×0 matrix), and all its elements and all
results built so far are in the drop log, each exactly once. Otherwise the mapped matrix has the
same shape and the drop log is unchanged (the elements were moved into the closure, which turned
them into the results). -/
def mapConsumeF (φ : Nat → Bool) (f : Nat → α → α) (w : World α) : World α × Outcome :=
  match mapGo φ f w.mat.data w.tick [] [] with
  | (tick, built, none) =>
    ({ tick := tick, mat := { w.mat with data := built }, dropped := w.dropped }, .done)
  | (tick, _, some log) =>
    ({ tick := tick, mat := ⟨⟨0, 0⟩, []⟩, dropped := w.dropped ++ log }, .unwound)

end Matreex.Effects
