/-
Primitives for the code regenerated from `src/fmt.rs` (translator T15, `Gen/T15Gen.lean`).  Trusted vocabulary: the
translator maps the std names on the left to the definitions below (and to `lines`, `padRight`, `padLeftNat` of
`Model/Fmt.lean`), with every argument taken from the Rust text.

    struct Lines(VecDeque<String>)            `Lines`: the lines of one element not yet printed, front first
    VecDeque::pop_front                       `popFront`: the front line (if any) and the remaining deque
    lo..hi  (in `for x in lo..hi`)            `range lo hi`: lo, lo+1, …, hi-1 (empty if hi ≤ lo)
    v[i]  on a `Vec` (Index / IndexMut)       `vecIndex v i`: the element; out of range is a panic
    n.to_string() / `{n}` for n: usize        `natText n`: the decimal digits
    {s:>w$} for a string s                    `padLeft s w`: spaces on the left up to `w` characters (a width is a minimum)
                                              (`{s:<w$}` / `{s:w$}` is `padRight` and `{n:>w$}` / `{n:w$}` is `padLeftNat` of Model/Fmt.lean)

A `for` loop over a finite sequence with no `break` / `return` in its body is core's `List.foldlM` over the items,
carrying the variables the body assigns.  Core Lean only.
-/
import Matreex.Model.Fmt

namespace Matreex.Fmt
open Matreex

/-- `struct Lines(VecDeque<String>)` -/
abbrev Lines := List (List Char)

/-- `VecDeque::pop_front` -/
def popFront (q : Lines) : Option (List Char) × Lines :=
  match q with
  | [] => (none, [])
  | l :: rest => (some l, rest)

/-- the items of `lo..hi` -/
def range (lo hi : Nat) : List Nat := List.range' lo (hi - lo)

/-- `v[i]` (checked indexing of a `Vec`; the message is the model's) -/
def vecIndex (v : Array Lines) (i : Nat) : M Lines :=
  match v[i]? with
  | none => .error (.panic "index out of bounds: cache[index]")
  | some x => .ok x

/-- decimal digits of a `usize` -/
def natText (n : Nat) : List Char := (toString n).toList

/-- `{s:>w$}` for a string -/
def padLeft (l : List Char) (w : Nat) : List Char := spaces (w - l.length) ++ l

/-- `size_of::<Lines>()` = `size_of::<VecDeque<String>>()` on a 64-bit target: the one fact about `Lines` that is not
in the text of `src/fmt.rs` (measured by the harness on every run and sent with the operation `zfmt`) -/
def linesSize : Nat := 32

end Matreex.Fmt
