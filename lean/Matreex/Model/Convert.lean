/-
Conversions (`src/convert.rs`): `from_row` / `from_col`, `From` for nested arrays (row lengths
equal by type), the three `TryFrom` conversions from vectors of vectors (shape from row count and
first row length, size decision, then every row length compared *before* extending), and
`FromIterator` (rows appended one by one; a row of a different length panics).
-/
import Matreex.Model.Construct

namespace Matreex
variable {α : Type}

/-- `Matrix::from_row(row)` -/
def Matrix.fromRow (row : List α) : Matrix α := ⟨.rowMajor, (Shape.mk 1 row.length).toAxis .rowMajor, row.toArray⟩

/-- `Matrix::from_col(col)` -/
def Matrix.fromCol (col : List α) : Matrix α := ⟨.rowMajor, (Shape.mk col.length 1).toAxis .rowMajor, col.toArray⟩

/-- `From<[[T; C]; R]>`, `From<Vec<[T; C]>>`, `From<&[[T; C]]>`: `C` is a type-level constant, the
rows are arrays of exactly `C` elements; no size check (the input already exists in memory) -/
def Matrix.fromArrays (c : Nat) (rows : List (List α)) : Matrix α :=
  ⟨.rowMajor, (Shape.mk rows.length c).toAxis .rowMajor, rows.flatten.toArray⟩

/-- the `for row in value { if row.len() != ncols { return Err(LengthInconsistent) } data.extend(row) }` loop -/
def extendRows (ncols : Nat) : List (List α) → List α → Except Error (List α)
  | [], acc => .ok acc
  | row :: rest, acc =>
    if row.length ≠ ncols then .error .lengthInconsistent else extendRows ncols rest (acc ++ row)

/-- `TryFrom<Vec<Vec<T>>>`, `TryFrom<[Vec<T>; C]>`, `TryFrom<&[Vec<T>]>` -/
def Matrix.tryFromRows (es : Nat) (rows : List (List α)) : M (Except Error (Matrix α)) := do
  let nrows := rows.length
  let ncols := (rows.head?.map List.length).getD 0      -- `value.first().map_or(0, |row| row.len())`
  let d ← sizeDecision es ⟨nrows, ncols⟩ .rowMajor
  bindErr d fun (sh, size) => do
    Vec.reserveExact es size
    match extendRows ncols rows [] with
    | .error e => pure (.error e)
    | .ok data => pure (.ok ⟨.rowMajor, sh, data.toArray⟩)

/-- the loop of `FromIterator::from_iter` after the first row: `data.extend(row); if data.len() -
size != ncols { panic!(LengthInconsistent) }; nrows += 1; size = data.len()` -/
def iterRowsLoop (ncols : Nat) : List (List α) → (data : List α) → (nrows size : Nat) → M (List α × Nat)
  | [], data, nrows, _ => .ok (data, nrows)
  | row :: rest, data, nrows, size => do
    let data' := data ++ row
    let d ← usub data'.length size
    if d ≠ ncols then .error (.panic Error.lengthInconsistent.name)
    else do
      let n ← uadd nrows 1
      iterRowsLoop ncols rest data' n data'.length

/-- `FromIterator<V> for Matrix<T>` -/
def Matrix.fromIter (rows : List (List α)) : M (Matrix α) :=
  match rows with
  | [] => .ok ⟨.rowMajor, ⟨0, 0⟩, #[]⟩
  | first :: rest => do
    let (data, nrows) ← iterRowsLoop first.length rest first 1 first.length
    pure ⟨.rowMajor, (Shape.mk nrows first.length).toAxis .rowMajor, data.toArray⟩

end Matreex
