/-
The mutable row/column iterators (`src/iter/iter_mut.rs`) as address-level state machines.

`IterVectorsMut` (outer) and `IterNthVectorMut` (inner) hold raw `lower`/`upper` pointers.  For
sized element types they move by `NonNull::add/sub` (UB when the result leaves the allocation
`[base, base + len·es]`); for zero-sized types the addresses are mere counters advanced with
checked integer arithmetic (`NonNull::new_unchecked(0)` = UB), based at address `1`.
`NonZero::new_unchecked(0)` is UB.  `size_hint` is written with unchecked `-`, `*`, `/`, `+`.
Element-less matrices yield `extent` empty vectors through a counter.

A configuration `Cfg` fixes the buffer: base address, element size, vector length, and the
dangling address (= alignment) used for references to zero-sized values.
-/
import Matreex.Model.Matrix

namespace Matreex.IterMut
open Matreex

structure Cfg where
  base : Nat      -- address of `data.as_mut_ptr()`
  es : Nat        -- size_of::<T>()
  len : Nat       -- data.len()
  dangling : Nat  -- NonNull::dangling() = align_of::<T>()
  deriving Repr

/-- `NonZero::new_unchecked(x)` -/
def nonZero (x : Nat) : M Nat :=
  if x = 0 then .error (.ub "NonZero::new_unchecked(0)") else .ok x

/-- `NonNull::add(n)` (sized) / `without_provenance_mut(addr + n)` + `new_unchecked` (zero-sized) -/
def advance (cfg : Cfg) (addr n : Nat) : M Nat :=
  if cfg.es = 0 then
    if addr + n ≤ usizeMax then .ok (addr + n) else .error (.panic "attempt to add with overflow")
  else if addr + n * cfg.es ≤ cfg.base + cfg.len * cfg.es then .ok (addr + n * cfg.es)
  else .error (.ub "NonNull::add leaves the allocation")

/-- `NonNull::sub(n)` (sized) / `addr - n` + `new_unchecked` (zero-sized) -/
def retreat (cfg : Cfg) (addr n : Nat) : M Nat :=
  if cfg.es = 0 then
    if n < addr then .ok (addr - n)
    else if n = addr then .error (.ub "NonNull::new_unchecked(null)")
    else .error (.panic "attempt to subtract with overflow")
  else if cfg.base + n * cfg.es ≤ addr then .ok (addr - n * cfg.es)
  else .error (.ub "NonNull::sub leaves the allocation")

/-- `lower.as_mut()`: must point at a live, aligned element of the buffer; for zero-sized types
the code hands out `NonNull::dangling().as_mut()` -/
def deref (cfg : Cfg) (addr : Nat) : M Nat :=
  if cfg.es = 0 then .ok cfg.dangling
  else if cfg.base ≤ addr ∧ addr + cfg.es ≤ cfg.base + cfg.len * cfg.es ∧ (addr - cfg.base) % cfg.es = 0
  then .ok addr else .error (.ub "reference to memory outside the buffer")

/-- `size_hint` of both iterators: `1 + (upper - lower) / (stride * max es 1)`, unchecked ops -/
def lenOf (cfg : Cfg) (lower upper stride : Nat) : M Nat := do
  let d ← usub upper lower
  let q ← umul stride (if cfg.es = 0 then 1 else cfg.es)
  let n ← udiv d q
  uadd 1 n

/-! ### inner iterator: one row / column -/

structure Nth where
  lower : Nat
  upper : Nat
  stride : Option Nat
  deriving Repr, DecidableEq

def Nth.empty (cfg : Cfg) : Nth := ⟨cfg.dangling, cfg.dangling, none⟩

/-- `IterNthVectorMut::assemble(lower, stride, length)`: `offset = (length - 1) * stride` -/
def Nth.assemble (cfg : Cfg) (lower stride length : Nat) : M Nth := do
  let l1 ← usub length 1
  let offset ← umul l1 stride
  let upper ← advance cfg lower offset
  pure ⟨lower, upper, some stride⟩

def Nth.next (cfg : Cfg) (it : Nth) : M (Option Nat × Nth) :=
  match it.stride with
  | none => .ok (none, it)
  | some stride => do
    let r ← deref cfg it.lower
    if it.lower = it.upper then pure (some r, { it with stride := none })
    else do
      let l ← advance cfg it.lower stride
      pure (some r, { it with lower := l })

def Nth.nextBack (cfg : Cfg) (it : Nth) : M (Option Nat × Nth) :=
  match it.stride with
  | none => .ok (none, it)
  | some stride => do
    let r ← deref cfg it.upper
    if it.lower = it.upper then pure (some r, { it with stride := none })
    else do
      let u ← retreat cfg it.upper stride
      pure (some r, { it with upper := u })

def Nth.len (cfg : Cfg) (it : Nth) : M Nat :=
  match it.stride with
  | none => .ok 0
  | some stride => lenOf cfg it.lower it.upper stride

/-! ### outer iterator: the rows / columns -/

structure Layout where
  axisStride : Nat
  vectorStride : Nat
  vectorLength : Nat
  deriving Repr, DecidableEq

structure Vecs where
  lower : Nat
  upper : Nat
  layout : Option Layout
  emptyVectors : Nat
  deriving Repr, DecidableEq

def Vecs.empty (cfg : Cfg) (emptyVectors : Nat) : Vecs := ⟨cfg.dangling, cfg.dangling, none, emptyVectors⟩

/-- `IterVectorsMut::assemble`: zero-sized types count from address 1; `offset = axis_stride *
(axis_length - 1)` -/
def Vecs.assemble (cfg : Cfg) (axisStride axisLength vectorStride vectorLength : Nat) : M Vecs := do
  let lower := if cfg.es = 0 then 1 else cfg.base
  let l1 ← usub axisLength 1
  let offset ← umul axisStride l1
  let upper ← advance cfg lower offset
  pure ⟨lower, upper, some ⟨axisStride, vectorStride, vectorLength⟩, 0⟩

/-- `over_major_axis(matrix)` -/
def Vecs.overMajor (cfg : Cfg) (sh : AxisShape) : M Vecs :=
  if cfg.len = 0 then .ok (Vecs.empty cfg sh.major)
  else do
    let axisStride ← nonZero sh.minor
    let axisLength ← nonZero sh.major
    let vectorStride ← nonZero 1
    let vectorLength ← nonZero sh.minor
    Vecs.assemble cfg axisStride axisLength vectorStride vectorLength

/-- `over_minor_axis(matrix)` -/
def Vecs.overMinor (cfg : Cfg) (sh : AxisShape) : M Vecs :=
  if cfg.len = 0 then .ok (Vecs.empty cfg sh.minor)
  else do
    let axisStride ← nonZero 1
    let axisLength ← nonZero sh.minor
    let vectorStride ← nonZero sh.minor
    let vectorLength ← nonZero sh.major
    Vecs.assemble cfg axisStride axisLength vectorStride vectorLength

/-- `iter_rows_mut()` -/
def Vecs.rowsMut (cfg : Cfg) (o : Order) (sh : AxisShape) : M Vecs :=
  match o with
  | .rowMajor => Vecs.overMajor cfg sh
  | .colMajor => Vecs.overMinor cfg sh

/-- `iter_cols_mut()` -/
def Vecs.colsMut (cfg : Cfg) (o : Order) (sh : AxisShape) : M Vecs :=
  match o with
  | .rowMajor => Vecs.overMinor cfg sh
  | .colMajor => Vecs.overMajor cfg sh

/-- `next_empty_vector`: `empty_vectors.checked_sub(1)?` -/
def Vecs.nextEmpty (cfg : Cfg) (it : Vecs) : Option Nth × Vecs :=
  if it.emptyVectors = 0 then (none, it)
  else (some (Nth.empty cfg), { it with emptyVectors := it.emptyVectors - 1 })

def Vecs.next (cfg : Cfg) (it : Vecs) : M (Option Nth × Vecs) :=
  match it.layout with
  | none => .ok (it.nextEmpty cfg)
  | some L => do
    let r ← Nth.assemble cfg it.lower L.vectorStride L.vectorLength
    if it.lower = it.upper then pure (some r, { it with layout := none })
    else do
      let l ← advance cfg it.lower L.axisStride
      pure (some r, { it with lower := l })

def Vecs.nextBack (cfg : Cfg) (it : Vecs) : M (Option Nth × Vecs) :=
  match it.layout with
  | none => .ok (it.nextEmpty cfg)
  | some L => do
    let r ← Nth.assemble cfg it.upper L.vectorStride L.vectorLength
    if it.lower = it.upper then pure (some r, { it with layout := none })
    else do
      let u ← retreat cfg it.upper L.axisStride
      pure (some r, { it with upper := u })

def Vecs.len (cfg : Cfg) (it : Vecs) : M Nat :=
  match it.layout with
  | none => .ok it.emptyVectors
  | some L => lenOf cfg it.lower it.upper L.axisStride

end Matreex.IterMut
