/-
Shape-taking constructors and size-changing operations (`construct.rs`, `lib.rs`): every one of
them starts with the same *size decision* — `try_to_axis_shape(order)?`, then
`check_size(shape.size())?` — before the first allocation.  The integer functions are the
regenerated ones (`Gen/Core.lean`); `AxisShape::size` is an unchecked multiplication in the
source, i.e. a panic on overflow in the checked semantics used here.
-/
import Matreex.Gen.Core
import Matreex.Model.Matrix
import Matreex.Model.Mem

namespace Matreex
variable {α β : Type}

/-- `Vec::with_capacity(n)` / `vec![v; n]` / `resize_with` growing to `n` for elements of `es`
bytes: panics with "capacity overflow" when the byte size exceeds `isize::MAX` (and otherwise
asks the allocator, which the model does not represent). -/
def Vec.reserveExact (es n : Nat) : M Unit :=
  if es * n > isizeMax then .error (.panic "capacity overflow") else .ok ()

/-- the prefix shared by `with_default`, `with_value`, `with_initializer`, `resize`, the `TryFrom`
conversions and the matrix product: returns the axis shape and element count to allocate for -/
def sizeDecision (es : Nat) (s : Shape) (o : Order) : M (Except Error (AxisShape × Nat)) := do
  let sh ← Gen.Shape.try_to_axis_shape s o
  bindErr sh fun sh => do
    let n ← Gen.AxisShape.size sh
    let cs ← Gen.Matrix.check_size es n
    bindErr cs fun size => pure (.ok (sh, size))

/-- `Matrix::with_value(shape, value)` -/
def Matrix.withValue (es : Nat) (s : Shape) (v : α) : M (Except Error (Matrix α)) := do
  let d ← sizeDecision es s .rowMajor
  bindErr d fun (sh, size) => do
    Vec.reserveExact es size
    pure (.ok ⟨.rowMajor, sh, Array.replicate size v⟩)

/-- `Matrix::with_default(shape)` with an effect-free `Default` (fault schedules: `Effects`) -/
def Matrix.withDefault (es : Nat) (s : Shape) (dflt : α) : M (Except Error (Matrix α)) := do
  let d ← sizeDecision es s .rowMajor
  bindErr d fun (sh, size) => do
    Vec.reserveExact es size
    pure (.ok ⟨.rowMajor, sh, Array.replicate size dflt⟩)

/-- `Matrix::with_initializer(shape, f)`: `f` is called with `Index::from_flattened(k, …)` for
`k = 0, 1, …` and its result pushed -/
def Matrix.withInitializer (es : Nat) (s : Shape) (f : Index → α) : M (Except Error (Matrix α)) := do
  let d ← sizeDecision es s .rowMajor
  bindErr d fun (sh, size) => do
    Vec.reserveExact es size
    let data ← (List.range size).mapM fun k => do
      let i ← Gen.Index.from_flattened k .rowMajor sh
      pure (f i)
    pure (.ok ⟨.rowMajor, sh, data.toArray⟩)

/-- `reshape`: any shape whose size overflows or differs is `SizeMismatch`; the state is returned
also on failure (it is an in-place operation) -/
def Matrix.reshape (m : Matrix α) (s : Shape) : M (Except Error Unit × Matrix α) := do
  let sh ← Gen.Shape.try_to_axis_shape s m.order
  match sh with
  | .error _ => pure (.error .sizeMismatch, m)
  | .ok sh => do
    let n ← Gen.AxisShape.size sh
    if m.data.size ≠ n then pure (.error .sizeMismatch, m)
    else pure (.ok (), { m with shape := sh })

/-- the decision `reshape` takes, on the element count alone (usable for matrices of zero-sized
elements whose count no array can reach): the new axis shape, or `SizeMismatch` -/
def reshapeDecision (size : Nat) (s : Shape) (o : Order) : M (Except Error AxisShape) := do
  let sh ← Gen.Shape.try_to_axis_shape s o
  match sh with
  | .error _ => pure (.error .sizeMismatch)
  | .ok sh => do
    let n ← Gen.AxisShape.size sh
    if size ≠ n then pure (.error .sizeMismatch) else pure (.ok sh)

/-- `Vec::resize_with(n, default)` on the data (effect-free default) -/
def resizeData (d : Array α) (n : Nat) (dflt : α) : Array α :=
  if n ≤ d.size then d.extract 0 n else d ++ Array.replicate (n - d.size) dflt

/-- `resize` (repaired order: the shape is published only with a vector of matching length) -/
def Matrix.resize (es : Nat) (m : Matrix α) (s : Shape) (dflt : α) :
    M (Except Error Unit × Matrix α) := do
  let d ← sizeDecision es s m.order
  match d with
  | .error e => pure (.error e, m)
  | .ok (sh, size) => do
    if size > m.data.size then Vec.reserveExact es size
    pure (.ok (), { m with shape := sh, data := resizeData m.data size dflt })

/-- the check every mapping-style operation (`map`, `map_ref`, `scalar_operation*`,
`elementwise_operation*`, `par_map*`) performs before collecting `n` outputs of `esOut` bytes -/
def mapDecision (esOut n : Nat) : M (Except Error Nat) := Gen.Matrix.check_size esOut n

/-- `map` / `map_ref` / `par_map` / `par_map_ref` (sequential semantics; effect-free closure) -/
def Matrix.map (esOut : Nat) (m : Matrix α) (f : α → β) : M (Except Error (Matrix β)) := do
  let c ← mapDecision esOut m.data.size
  bindErr c fun _ => do
    Vec.reserveExact esOut m.data.size
    pure (.ok ⟨m.order, m.shape, m.data.map f⟩)

/-- the shape/size prefix of `multiply` and `multiplication_like_operation`: conformability,
then the size decision for the `nrows(lhs) × ncols(rhs)` result in lhs's order -/
def mulDecision (esOut : Nat) (a b : Hdr) : M (Except Error (AxisShape × Nat)) := do
  let ok ← Gen.Matrix.is_multiplication_like_operation_conformable a b
  if !ok then pure (.error .shapeNotConformable)
  else do
    let nrows ← Gen.Matrix.nrows a
    let ncols ← Gen.Matrix.ncols b
    let d ← sizeDecision esOut ⟨nrows, ncols⟩ a.order
    bindErr d fun (sh, size) => do
      Vec.reserveExact esOut size
      pure (.ok (sh, size))

end Matreex
