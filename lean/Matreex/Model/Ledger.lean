/-
The ownership ledger (C01, part 2): a register file of matrices of *tokens* (an element with a
unique id), an operation language of ownership flows, and ONE invariant:

    live ids ++ dropped ids ++ moved-out ids   is a permutation of   [0, nextId).

It says at once: no token is duplicated, none is dropped twice, none is lost.  The functional
matrix model (`Model/Matrix.lean`, `Model/History.lean`) treats elements as opaque values; this
model carries the "dropped exactly once, never duplicated" clause.  Each constructor of `Op` is the
ownership flow of a class of library operations (positions and values do not matter for ownership,
only which tokens are created, kept, dropped, handed to the caller).

Core Lean only.
-/
namespace Matreex.Ledger

/-- an element: a unique identity and an (irrelevant for ownership) value -/
structure Tok where
  id : Nat
  val : Int
  deriving DecidableEq, Repr

structure Mat where
  major : Nat
  minor : Nat
  data : List Tok
  deriving DecidableEq, Repr

def Mat.ids (m : Mat) : List Nat := m.data.map (·.id)
def Mat.Coh (m : Mat) : Prop := m.major * m.minor = m.data.length

/-- register file + id supply + drop log + moved-out log -/
structure World where
  regs : List Mat
  nextId : Nat
  dropped : List Nat
  out : List Nat
  deriving DecidableEq, Repr

def liveIds (regs : List Mat) : List Nat := (regs.map Mat.ids).flatten
def World.ledger (w : World) : List Nat := liveIds w.regs ++ w.dropped ++ w.out

structure Inv (w : World) : Prop where
  coh : ∀ m ∈ w.regs, m.Coh
  led : w.ledger.Perm (List.range w.nextId)

/-- `k` fresh tokens with ids `n, n+1, …` (what `T::default()` / `Clone::clone` / a closure produce) -/
def fresh (n k : Nat) (val : Nat → Int) : List Tok := (List.range' n k).map fun i => ⟨i, val i⟩

/-- the ownership flows of the library's operations -/
inductive Op where
  | resize (r R C : Nat)
  | clear (r : Nat)
  | clone (r : Nat)                -- pushes the clone as a new register
  | mapFresh (r : Nat)             -- consuming map: closure drops its argument, returns a fresh token
  | swapElems (r i j : Nat)
  | intoIter (r : Nat)             -- consuming iteration: every element is moved out to the caller
  | dropReg (r : Nat)
  /-- in-place rearrangement that only moves elements (transpose, order changes, swap_rows/cols,
  reshape): new data is `p.filterMap (data[·]?)`, new shape `(R, C)`; ledger untouched -/
  | permute (r : Nat) (p : List Nat) (R C : Nat)
  /-- `dest.overwrite(&src)`: `k` elements of `dst` are dropped and replaced by fresh clones of
  elements of `src`; `src` unchanged -/
  | overwriteBlock (dst src k : Nat)
  /-- by-reference elementwise / scalar / product operations: a new register with `n` fresh
  tokens is pushed; `c` clones are made and dropped inside the operation; operands unchanged -/
  | binaryFresh (a b n c : Nat)
  /-- consuming forms: as `binaryFresh`, and register `a` is emptied, its tokens dropped -/
  | consumeBinaryFresh (a b n c : Nat)
  /-- `*_assign` forms: register `a` keeps its tokens (values change in place), `c` temporaries
  are created and dropped -/
  | assignInPlace (a c : Nat)
  /-- constructors: a new register with `R * C` fresh tokens -/
  | newMatrix (R C : Nat)
  /-- `*m.get_mut(index)? = value` (and a write through a mutable view / `iter_elements_mut`): the
  token at offset `k` is dropped and replaced by one fresh token; nothing happens when `k` is not
  an offset of the matrix (the call returned `IndexOutOfBounds`) -/
  | setElem (r k : Nat)
  /-- `let e = m.get_mut(index)?; *e = f(*e)` with `f` taking its argument by value: the old token is
  consumed by the closure (dropped) and the one it returns (fresh, value computed from the old
  one) takes its place -/
  | updElem (r k : Nat)
  deriving Repr

def swapList (l : List Tok) (i j : Nat) : List Tok :=
  if h : i < l.length ∧ j < l.length then
    (l.toArray.swap i j (by simpa using h.1) (by simpa using h.2)).toList
  else l

/-- fresh clones of the tokens of `l`: ids `n, n+1, …`, values `f` of the originals' values -/
def cloneToks (l : List Tok) (n k : Nat) (f : Int → Int) : List Tok :=
  (l.zip (List.range' n k)).map fun (t, i) => ⟨i, f t.val⟩

/-- the rearrangement of `data` described by the index list `p` -/
def permuteList (data : List Tok) (p : List Nat) : List Tok := p.filterMap (data[·]?)

def step (w : World) : Op → World
  | .resize r R C =>
    match w.regs[r]? with
    | none => w
    | some m =>
      let n := R * C
      if n ≤ m.data.length then
        { w with regs := w.regs.set r { major := R, minor := C, data := m.data.take n },
                 dropped := w.dropped ++ (m.data.drop n).map (·.id) }
      else
        let k := n - m.data.length
        { w with regs := w.regs.set r { major := R, minor := C, data := m.data ++ fresh w.nextId k (fun _ => 0) },
                 nextId := w.nextId + k }
  | .clear r =>
    match w.regs[r]? with
    | none => w
    | some m => { w with regs := w.regs.set r { major := 0, minor := 0, data := [] },
                         dropped := w.dropped ++ m.ids }
  | .clone r =>
    match w.regs[r]? with
    | none => w
    | some m =>
      let k := m.data.length
      { w with regs := w.regs ++ [{ m with data := (m.data.zip (List.range' w.nextId k)).map fun (t, i) => ⟨i, t.val⟩ }],
               nextId := w.nextId + k }
  | .mapFresh r =>
    match w.regs[r]? with
    | none => w
    | some m =>
      let k := m.data.length
      { w with regs := w.regs.set r { m with data := (m.data.zip (List.range' w.nextId k)).map fun (t, i) => ⟨i, t.val + 1⟩ },
               nextId := w.nextId + k, dropped := w.dropped ++ m.ids }
  | .swapElems r i j =>
    match w.regs[r]? with
    | none => w
    | some m => { w with regs := w.regs.set r { m with data := swapList m.data i j } }
  | .intoIter r =>
    match w.regs[r]? with
    | none => w
    | some m => { w with regs := w.regs.set r { major := 0, minor := 0, data := [] }, out := w.out ++ m.ids }
  | .dropReg r =>
    match w.regs[r]? with
    | none => w
    | some m => { w with regs := w.regs.set r { major := 0, minor := 0, data := [] }, dropped := w.dropped ++ m.ids }
  | .permute r p R C =>
    match w.regs[r]? with
    | none => w
    | some m =>
      if (permuteList m.data p).Perm m.data ∧ R * C = m.data.length then
        { w with regs := w.regs.set r { major := R, minor := C, data := permuteList m.data p } }
      else w
  | .overwriteBlock dst src k =>
    match w.regs[dst]?, w.regs[src]? with
    | some d, some s =>
      if k ≤ d.data.length ∧ k ≤ s.data.length then
        { w with regs := w.regs.set dst { d with data := cloneToks (s.data.take k) w.nextId k id ++ d.data.drop k },
                 nextId := w.nextId + k,
                 dropped := w.dropped ++ (d.data.take k).map (·.id) }
      else w
    | _, _ => w
  | .binaryFresh a b n c =>
    match w.regs[a]?, w.regs[b]? with
    | some _, some _ =>
      { w with regs := w.regs ++ [{ major := 1, minor := n, data := fresh w.nextId n (fun _ => 0) }],
               nextId := w.nextId + n + c,
               dropped := w.dropped ++ List.range' (w.nextId + n) c }
    | _, _ => w
  | .consumeBinaryFresh a b n c =>
    match w.regs[a]?, w.regs[b]? with
    | some ma, some _ =>
      { w with regs := w.regs.set a { major := 0, minor := 0, data := [] }
                         ++ [{ major := 1, minor := n, data := fresh w.nextId n (fun _ => 0) }],
               nextId := w.nextId + n + c,
               dropped := w.dropped ++ ma.ids ++ List.range' (w.nextId + n) c }
    | _, _ => w
  | .assignInPlace a c =>
    match w.regs[a]? with
    | none => w
    | some m =>
      { w with regs := w.regs.set a { m with data := m.data.map fun t => ⟨t.id, t.val + 1⟩ },
               nextId := w.nextId + c,
               dropped := w.dropped ++ List.range' w.nextId c }
  | .newMatrix R C =>
    { w with regs := w.regs ++ [{ major := R, minor := C, data := fresh w.nextId (R * C) (fun _ => 0) }],
             nextId := w.nextId + R * C }
  | .setElem r k =>
    match w.regs[r]? with
    | none => w
    | some m =>
      match m.data[k]? with
      | none => w
      | some t =>
        { w with regs := w.regs.set r { m with data := m.data.set k ⟨w.nextId, 0⟩ },
                 nextId := w.nextId + 1,
                 dropped := w.dropped ++ [t.id] }
  | .updElem r k =>
    match w.regs[r]? with
    | none => w
    | some m =>
      match m.data[k]? with
      | none => w
      | some t =>
        { w with regs := w.regs.set r { m with data := m.data.set k ⟨w.nextId, t.val + 1⟩ },
                 nextId := w.nextId + 1,
                 dropped := w.dropped ++ [t.id] }

def run (w : World) (ops : List Op) : World := ops.foldl step w

/-- what `step w op` adds to the ledger, as a closed formula:
(number of fresh ids, number of ids newly dropped, number of ids newly moved out) -/
def delta (w : World) : Op → Nat × Nat × Nat
  | .resize r R C =>
    match w.regs[r]? with
    | none => (0, 0, 0)
    | some m => (R * C - m.data.length, m.data.length - R * C, 0)
  | .clear r =>
    match w.regs[r]? with
    | none => (0, 0, 0)
    | some m => (0, m.data.length, 0)
  | .clone r =>
    match w.regs[r]? with
    | none => (0, 0, 0)
    | some m => (m.data.length, 0, 0)
  | .mapFresh r =>
    match w.regs[r]? with
    | none => (0, 0, 0)
    | some m => (m.data.length, m.data.length, 0)
  | .swapElems _ _ _ => (0, 0, 0)
  | .intoIter r =>
    match w.regs[r]? with
    | none => (0, 0, 0)
    | some m => (0, 0, m.data.length)
  | .dropReg r =>
    match w.regs[r]? with
    | none => (0, 0, 0)
    | some m => (0, m.data.length, 0)
  | .permute _ _ _ _ => (0, 0, 0)
  | .overwriteBlock dst src k =>
    match w.regs[dst]?, w.regs[src]? with
    | some d, some s => if k ≤ d.data.length ∧ k ≤ s.data.length then (k, k, 0) else (0, 0, 0)
    | _, _ => (0, 0, 0)
  | .binaryFresh a b n c =>
    match w.regs[a]?, w.regs[b]? with
    | some _, some _ => (n + c, c, 0)
    | _, _ => (0, 0, 0)
  | .consumeBinaryFresh a b n c =>
    match w.regs[a]?, w.regs[b]? with
    | some ma, some _ => (n + c, ma.data.length + c, 0)
    | _, _ => (0, 0, 0)
  | .assignInPlace a c =>
    match w.regs[a]? with
    | none => (0, 0, 0)
    | some _ => (c, c, 0)
  | .newMatrix R C => (R * C, 0, 0)
  | .setElem r k =>
    match w.regs[r]? with
    | none => (0, 0, 0)
    | some m => if k < m.data.length then (1, 1, 0) else (0, 0, 0)
  | .updElem r k =>
    match w.regs[r]? with
    | none => (0, 0, 0)
    | some m => if k < m.data.length then (1, 1, 0) else (0, 0, 0)

end Matreex.Ledger
