/-
`Matrix::transpose` and the order operations (`src/lib.rs`): the cycle-following in-place
permutation with its `visited` bitmap (read through `get_unchecked_mut`) and `ptr::swap`, with the
successor computed by the regenerated index functions.  The one unbounded loop takes fuel
`size + 1` per cycle; the theorems show it never runs out.
-/
import Matreex.Gen.Core
import Matreex.Model.Matrix
import Matreex.Model.Mem

namespace Matreex
variable {α : Type}

/-- inner `loop { … }` of `transpose`, started from `index`; `succ` computes `next` -/
def cycleM (succ : Nat → M Nat) (index : Nat) :
    (fuel : Nat) → (current : Nat) → Array α → Array Bool → M (Array α × Array Bool)
  | 0, _, _, _ => .error .fuel
  | fuel + 1, current, d, v =>
    if h : current < v.size then
      if v[current] then .ok (d, v)
      else
        let v' := v.set current true
        match succ current with
        | .error e => .error e
        | .ok next =>
          match ptrSwap d index next with
          | .error e => .error e
          | .ok d' => cycleM succ index fuel next d' v'
    else .error (.ub "visited.get_unchecked_mut: index out of bounds")

/-- outer `for index in 0..size` -/
def outerM (succ : Nat → M Nat) (n : Nat) :
    (todo : Nat) → Array α → Array Bool → M (Array α × Array Bool)
  | 0, d, v => .ok (d, v)
  | todo + 1, d, v =>
    match cycleM succ (n - (todo + 1)) (n + 1) (n - (todo + 1)) d v with
    | .error e => .error e
    | .ok (d', v') => outerM succ n todo d' v'

def permuteInPlaceM (succ : Nat → M Nat) (d : Array α) : M (Array α) :=
  match outerM succ d.size d.size d (Array.replicate d.size false) with
  | .error e => .error e
  | .ok (d', _) => .ok d'

/-- `AxisIndex::from_flattened(current, old_shape).swap().to_flattened(new_shape)` -/
def transposeSucc (old new : AxisShape) (current : Nat) : M Nat := do
  let i ← Gen.AxisIndex.from_flattened current old
  Gen.AxisIndex.to_flattened i.swap new

/-- `Matrix::transpose`; `zst` = `size_of::<T>() == 0` -/
def Matrix.transpose (zst : Bool) (m : Matrix α) : M (Matrix α) :=
  if zst then .ok { m with shape := m.shape.transpose }
  else
    match permuteInPlaceM (transposeSucc m.shape m.shape.transpose) m.data with
    | .error e => .error e
    | .ok d => .ok { m with shape := m.shape.transpose, data := d }

def Matrix.switchOrder (zst : Bool) (m : Matrix α) : M (Matrix α) :=
  match m.transpose zst with
  | .error e => .error e
  | .ok m' => .ok { m' with order := m'.order.switch }

def Matrix.switchOrderWithoutRearrangement (m : Matrix α) : Matrix α :=
  { m with order := m.order.switch }

def Matrix.setOrder (zst : Bool) (m : Matrix α) (o : Order) : M (Matrix α) :=
  if o ≠ m.order then m.switchOrder zst else .ok m

def Matrix.setOrderWithoutRearrangement (m : Matrix α) (o : Order) : Matrix α :=
  if o ≠ m.order then m.switchOrderWithoutRearrangement else m

end Matreex
