/-
`Matrix::overwrite` (`src/lib.rs`): both branches as written.  Same order: per major-axis vector
`dest[lo..hi].clone_from_slice(src[lo'..hi'])` on unchecked sub-slices (note: the source computes
`source_upper` with the *destination's* minor stride — also 1).  Different orders: per destination
vector, `zip` of the unchecked destination sub-slice with `source.iter().skip(i).step_by(stride)`,
assigning clones.  `clone : α → α` stands for `Clone::clone` (effect-free here; fault schedules
are in `Effects`).
-/
import Matreex.Model.Matrix
import Matreex.Model.Mem

namespace Matreex
variable {α : Type}

/-- element-by-element `clone_from` of `n` items; callers have already checked both ranges -/
def copyRange (clone : α → α) (d : Array α) (dl : Nat) (s : Array α) (sl : Nat) : Nat → Array α
  | 0 => d
  | n + 1 =>
    match s[sl]? with
    | some x => copyRange clone (d.setIfInBounds dl (clone x)) (dl + 1) s (sl + 1) n
    | none => d

/-- `d.get_unchecked_mut(dl..du).clone_from_slice(s.get_unchecked(sl..su))` -/
def cloneFromSlice (clone : α → α) (d : Array α) (dl du : Nat) (s : Array α) (sl su : Nat) :
    M (Array α) :=
  if ¬ (dl ≤ du ∧ du ≤ d.size) then .error (.ub "slice::get_unchecked_mut: range out of bounds")
  else if ¬ (sl ≤ su ∧ su ≤ s.size) then .error (.ub "slice::get_unchecked: range out of bounds")
  else if du - dl ≠ su - sl then .error (.panic "clone_from_slice: length mismatch")
  else .ok (copyRange clone d dl s sl (du - dl))

/-- the `for i in 0..major` loop of the same-order branch, counting up from `i` -/
def rowsLoop (clone : α → α) (dsh ssh : AxisShape) (minor : Nat) (s : Array α) :
    (todo i : Nat) → Array α → M (Array α)
  | 0, _, d => .ok d
  | todo + 1, i, d =>
    let selfLower := i * dsh.minor
    let selfUpper := selfLower + minor * 1
    let sourceLower := i * ssh.minor
    let sourceUpper := sourceLower + minor * 1
    match cloneFromSlice clone d selfLower selfUpper s sourceLower sourceUpper with
    | .error e => .error e
    | .ok d' => rowsLoop clone dsh ssh minor s todo (i + 1) d'

/-- `dest_slice.iter_mut().zip(src.iter().skip(sk).step_by(stride)).for_each(|(x, y)| *x = y.clone())`
over a destination window of `n` elements starting at `dl`; the `t`-th source item is
`s[sk + t * stride]`, and `zip` stops at the shorter side -/
def zipStrided (clone : α → α) (s : Array α) (sk stride : Nat) :
    (n t dl : Nat) → Array α → Array α
  | 0, _, _, d => d
  | n + 1, t, dl, d =>
    match s[sk + t * stride]? with
    | some x => zipStrided clone s sk stride n (t + 1) (dl + 1) (d.setIfInBounds dl (clone x))
    | none => d

/-- one destination vector of the cross-order branch -/
def crossRow (clone : α → α) (d : Array α) (dl du : Nat) (s : Array α) (sk stride : Nat) :
    M (Array α) :=
  if ¬ (dl ≤ du ∧ du ≤ d.size) then .error (.ub "slice::get_unchecked_mut: range out of bounds")
  else if stride = 0 then .error (.panic "assertion failed: step != 0")
  else .ok (zipStrided clone s sk stride (du - dl) 0 dl d)

def crossLoop (clone : α → α) (dsh ssh : AxisShape) (minor : Nat) (s : Array α) :
    (todo i : Nat) → Array α → M (Array α)
  | 0, _, d => .ok d
  | todo + 1, i, d =>
    let selfLower := i * dsh.minor
    let selfUpper := selfLower + minor * 1
    match crossRow clone d selfLower selfUpper s i ssh.minor with
    | .error e => .error e
    | .ok d' => crossLoop clone dsh ssh minor s todo (i + 1) d'

/-- `dest.overwrite(&src)` -/
def Matrix.overwrite (clone : α → α) (dst src : Matrix α) : M (Matrix α) :=
  if dst.order = src.order then
    match rowsLoop clone dst.shape src.shape (min dst.shape.minor src.shape.minor) src.data
        (min dst.shape.major src.shape.major) 0 dst.data with
    | .error e => .error e
    | .ok d => .ok { dst with data := d }
  else
    match crossLoop clone dst.shape src.shape (min dst.shape.minor src.shape.major) src.data
        (min dst.shape.major src.shape.minor) 0 dst.data with
    | .error e => .error e
    | .ok d => .ok { dst with data := d }

end Matreex
