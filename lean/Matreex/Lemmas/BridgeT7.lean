/-
Bridge for `impl PartialEq for Matrix<T>` (src/eq.rs): the function regenerated from the source on every run
(`Gen/T7Gen.lean`, translator T7) against the hand-written model `Matrix.beq` of `Model/Eq.lean`.

The Rust text walks the elements with `Iterator::all`, which stops at the first `false`; the model evaluates
every element (`mapM`) and then takes the conjunction.  The two differ in exactly one situation — the source
has already answered `false` when a LATER element's index computation or `get_unchecked` read would fault —
so the bridge comes in layers:

* `eq_gen`      (no hypotheses): `Gen.Matrix.eq … = beqSC …`, where `beqSC` is the model with the
                short-circuiting walk; equality including faults.  This is the theorem that depends on the
                source text: any change of a condition, an operand, a shape, a buffer, an index, the
                orientation of a comparison makes it fail.
* `eq_exact`    (no hypotheses): the regenerated function equals `Matrix.beq`, or it answers `false` where
                `Matrix.beq` faults.
* `eq_refines`  (no hypotheses): whenever `Matrix.beq` answers, the regenerated function gives the same answer.
* `eq_bridge`   (coherent operands, `other`'s buffer a live vector): equality with `Matrix.beq`, faults
                included (there are none: C07.beq_spec).  The C07 theorems are about `Matrix.beq`; through
                this equation they are about the source text of `eq`.

The proof of `eq_gen` does not mention generated temporaries: the conditions are decided by case analysis on
the four atoms (orders equal, shapes equal, the two crosswise extent equations — each in both orientations),
the walk over `enumerate()` is turned into a walk over the positions (`allM_enum`), and the two closure bodies
are compared after normalising with the monad laws.  It survives renamed locals / parameters, inlined or
introduced `let`s, commuted operands of the header comparisons, `!=` / `!` / `||` spellings and early returns.
-/
import Matreex.Gen.T7Gen
import Matreex.Model.Eq
import Matreex.Lemmas.Eq
import Matreex.Lemmas.BridgeSimple

namespace Matreex.BridgeT7
open Matreex
set_option linter.unusedSimpArgs false
variable {α : Type}

/-- the model `Matrix.beq` with Rust's short-circuiting `Iterator::all` in place of "evaluate all, then
conjoin" -/
def beqSC (eqα : α → α → Bool) (a b : Matrix α) : M Bool :=
  if a.order = b.order then .ok (decide (a.shape = b.shape) && vecEq eqα a.data b.data)
  else if a.shape.major = b.shape.minor ∧ a.shape.minor = b.shape.major then
    (List.range a.data.size).allM fun k => do
      let i ← Gen.AxisIndex.from_flattened k a.shape
      let j ← Gen.AxisIndex.to_flattened i.swap b.shape
      let right ← getUnchecked b.data j
      let left ← getUnchecked a.data k
      pure (eqα left right)
  else .ok false

theorem ok_bind {β γ : Type} (a : β) (f : β → M γ) : (Except.ok a >>= f) = f a := rfl

theorem allM_map {β γ : Type} (f : β → γ) (G : γ → M Bool) (l : List β) :
    (l.map f).allM G = l.allM (fun x => G (f x)) := by
  induction l with
  | nil => rfl
  | cons x l ih => simp only [List.map_cons, List.allM_cons, ih]

theorem allM_congr {β : Type} (F F' : β → M Bool) (l : List β) (h : ∀ x, x ∈ l → F x = F' x) :
    l.allM F = l.allM F' := by
  induction l with
  | nil => rfl
  | cons x l ih =>
    simp only [List.allM_cons, h x List.mem_cons_self, ih (fun y hy => h y (List.mem_cons_of_mem _ hy))]

theorem enum_mem (d : Array α) (k : Nat) (x : α) (h : (k, x) ∈ (List.range d.size).zip d.toList) :
    getUnchecked d k = .ok x := by
  obtain ⟨i, hi, he⟩ := List.getElem_of_mem h
  rw [List.getElem_zip] at he
  simp only [List.length_zip, List.length_range, Array.length_toList, Nat.min_self] at hi
  simp only [List.getElem_range, Array.getElem_toList, Prod.mk.injEq] at he
  obtain ⟨rfl, rfl⟩ := he
  simp [getUnchecked, hi]

theorem allM_enum (d : Array α) (F : Nat × α → M Bool) (G : Nat → M Bool)
    (h : ∀ k x, getUnchecked d k = .ok x → F (k, x) = G k) :
    ((List.range d.size).zip d.toList).allM F = (List.range d.size).allM G := by
  rw [allM_congr F (fun p => G p.1) _ (fun p hp => h p.1 p.2 (enum_mem d p.1 p.2 hp)), ← allM_map Prod.fst G,
    List.map_fst_zip (by simp)]

theorem allM_of_mapM {β : Type} (f : β → M Bool) (l : List β) :
    ∀ rs, l.mapM f = .ok rs → l.allM f = .ok (rs.all id) := by
  induction l with
  | nil => intro rs h; simp only [List.mapM_nil, pure, Except.pure] at h; cases h; rfl
  | cons x l ih =>
    intro rs h
    simp only [List.mapM_cons, List.allM_cons, bind, Except.bind] at h ⊢
    cases hx : f x with
    | error e => rw [hx] at h; cases h
    | ok y =>
      rw [hx] at h
      simp only [] at h ⊢
      cases hl : l.mapM f with
      | error e => rw [hl] at h; cases h
      | ok ys =>
        rw [hl] at h
        simp only [pure, Except.pure] at h
        cases h
        cases y
        · simp
          rfl
        · simpa using ih ys hl

/-- both orientations of a decided atom, as rewrite rules -/
theorem both {β : Type} {x y : β} (p : Prop) (h : (x = y) = p) : (x = y) = p ∧ (y = x) = p :=
  ⟨h, by rw [← h]; exact propext ⟨Eq.symm, Eq.symm⟩⟩

macro "cond_norm" a:ident b:ident c:ident d:ident : tactic => `(tactic|
  simp only [($a:ident).1, ($a:ident).2, ($b:ident).1, ($b:ident).2, ($c:ident).1, ($c:ident).2, ($d:ident).1,
    ($d:ident).2, ne_eq, not_true_eq_false, not_false_eq_true, decide_true, decide_false, decide_not,
    Bool.not_true, Bool.not_false, Bool.false_eq_true, Bool.and_true, Bool.true_and, Bool.and_false,
    Bool.false_and, Bool.or_true, Bool.true_or, Bool.or_false, Bool.false_or, Bool.and_self, and_self,
    and_true, true_and, and_false, false_and, if_true, if_false, pure, Except.pure])

/-- the regenerated function is the short-circuiting model, including faults (no hypotheses) -/
theorem eq_gen (eqα : α → α → Bool) (a b : Matrix α) :
    Gen.Matrix.eq eqα a.hdr a.data b.hdr b.data = beqSC eqα a b := by
  obtain ⟨oa, sa, da⟩ := a
  obtain ⟨ob, sb, db⟩ := b
  simp only [Gen.Matrix.eq, beqSC, Matrix.hdr, bind_pure, pure_bind]
  by_cases ho : oa = ob <;> by_cases hs : sa = sb <;>
  by_cases hM : sa.major = sb.minor <;> by_cases hm : sa.minor = sb.major <;>
  (first | have ho := both _ (eq_true ho) | have ho := both _ (eq_false ho)) <;>
  (first | have hs := both _ (eq_true hs) | have hs := both _ (eq_false hs)) <;>
  (first | have hM := both _ (eq_true hM) | have hM := both _ (eq_false hM)) <;>
  (first | have hm := both _ (eq_true hm) | have hm := both _ (eq_false hm)) <;>
  cond_norm ho hs hM hm <;>
  (try (refine allM_enum _ _ _ (fun k x hx => ?_)
        simp only [hx, ok_bind, BridgeSimple.axisIndex_swap, bind_assoc, pure_bind, bind_pure]))

/-- whenever the model answers, the short-circuiting walk gives the same answer -/
theorem beqSC_of_beq (eqα : α → α → Bool) (a b : Matrix α) (v : Bool) (h : a.beq eqα b = .ok v) :
    beqSC eqα a b = .ok v := by
  unfold Matrix.beq at h
  unfold beqSC
  split
  · rw [if_pos (by assumption)] at h; exact h
  · rw [if_neg (by assumption)] at h
    split
    · rw [if_pos (by assumption)] at h
      simp only [bind, Except.bind] at h
      split at h
      · cases h
      · rename_i rs hrs
        simp only [pure, Except.pure] at h
        cases h
        exact allM_of_mapM _ _ rs hrs
    · rw [if_neg (by assumption)] at h; exact h

/-- whenever the model answers, the regenerated function gives the same answer (no hypotheses) -/
theorem eq_refines (eqα : α → α → Bool) (a b : Matrix α) (v : Bool) (h : a.beq eqα b = .ok v) :
    Gen.Matrix.eq eqα a.hdr a.data b.hdr b.data = .ok v := by
  rw [eq_gen]; exact beqSC_of_beq eqα a b v h

/-- `Gen.Matrix.eq` (regenerated from src/eq.rs) = the model's `Matrix.beq`, including faults, for coherent
operands (`a`'s buffer size is not needed: offsets into `a` are bounded by `a.data.size` itself) -/
theorem eq_bridge (eqα : α → α → Bool) (a b : Matrix α) (ha : a.Coh) (hb : b.Coh)
    (hfb : b.data.size ≤ usizeMax) :
    Gen.Matrix.eq eqα a.hdr a.data b.hdr b.data = a.beq eqα b := by
  obtain ⟨v, hv, _⟩ := beq_ok_iff_aux eqα a b ha hb hfb
  rw [hv]; exact eq_refines eqα a b v hv

/-- the only way the two walks can differ: the short-circuiting one has already answered `false`
when the exhaustive one runs into a fault further on -/
theorem allM_vs_mapM {β : Type} (f : β → M Bool) (l : List β) :
    l.allM f = (l.mapM f).map (·.all id) ∨ (l.allM f = .ok false ∧ ∃ e, l.mapM f = .error e) := by
  induction l with
  | nil => left; rfl
  | cons x l ih =>
    simp only [List.mapM_cons, List.allM_cons, bind, Except.bind]
    cases hx : f x with
    | error e => left; rfl
    | ok y =>
      cases y
      · cases hl : l.mapM f with
        | error e => right; exact ⟨rfl, e, rfl⟩
        | ok ys => left; simp [pure, Except.pure, Except.map]
      · rcases ih with h | ⟨h1, e, h2⟩
        · left
          simp only [h, if_true]
          cases l.mapM f with
          | error e => rfl
          | ok ys => simp [pure, Except.pure, Except.map]
        · right
          simp only [h1, h2, if_true]
          exact ⟨trivial, e, rfl⟩

theorem map_eq_bind (r : M (List Bool)) :
    Except.map (fun rs => rs.all id) r = (r >>= fun rs => pure (rs.all id)) := by
  cases r <;> rfl

/-- exact relation between the regenerated function and the model, without hypotheses -/
theorem eq_exact (eqα : α → α → Bool) (a b : Matrix α) :
    Gen.Matrix.eq eqα a.hdr a.data b.hdr b.data = a.beq eqα b ∨
      (Gen.Matrix.eq eqα a.hdr a.data b.hdr b.data = .ok false ∧ ∃ e, a.beq eqα b = .error e) := by
  rw [eq_gen]
  unfold Matrix.beq beqSC
  split
  · left; rfl
  · split
    · rcases allM_vs_mapM (fun k => do
          let i ← Gen.AxisIndex.from_flattened k a.shape
          let j ← Gen.AxisIndex.to_flattened i.swap b.shape
          let right ← getUnchecked b.data j
          let left ← getUnchecked a.data k
          pure (eqα left right)) (List.range a.data.size) with h | ⟨h1, e, h2⟩
      · left
        rw [h]
        exact map_eq_bind _
      · right
        exact ⟨h1, e, by rw [h2]; rfl⟩
    · left; rfl

/-! ### why `eq_bridge` has hypotheses: on an incoherent operand the source has already answered
`false` where the model reports the out-of-bounds read of a later element -/
def x12 : Matrix Nat := ⟨.rowMajor, ⟨1, 2⟩, #[1, 2]⟩
def y21bad : Matrix Nat := ⟨.colMajor, ⟨2, 1⟩, #[5]⟩
example : Gen.Matrix.eq (· == ·) x12.hdr x12.data y21bad.hdr y21bad.data = .ok false := by rfl
example : ∃ w, x12.beq (· == ·) y21bad = .error (.ub w) := ⟨_, by rfl⟩

end Matreex.BridgeT7
