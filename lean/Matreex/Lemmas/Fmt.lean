/-
Helper lemmas for C20 (`Display` / `Debug`): running maxima, text widths, `str::lines()` of a
rendering without a line break, the loop invariants of `rowLine` / `moreLines` / `rowsLoop`
(no panic for any cache; exact output for single-line renderings).
-/
import Matreex.Model.Fmt
import Matreex.Lemmas.Bridge
import Matreex.Lemmas.Matrix
import Matreex.Lemmas.Arith

namespace Matreex.Fmt
open Matreex
variable {α : Type}

/-! ### `maxOf` -/

theorem foldl_max_ge (l : List Nat) (a : Nat) : a ≤ l.foldl max a ∧ ∀ x ∈ l, x ≤ l.foldl max a := by
  induction l generalizing a with
  | nil => simp
  | cons y ys ih =>
    obtain ⟨h1, h2⟩ := ih (max a y)
    simp only [List.foldl_cons]
    refine ⟨by omega, ?_⟩
    intro x hx
    rcases List.mem_cons.mp hx with rfl | hx
    · omega
    · exact h2 x hx

theorem le_maxOf {l : List Nat} {x : Nat} (h : x ∈ l) : x ≤ maxOf l := (foldl_max_ge l 0).2 x h

theorem foldl_max_le (l : List Nat) (a b : Nat) (ha : a ≤ b) (h : ∀ x ∈ l, x ≤ b) :
    l.foldl max a ≤ b := by
  induction l generalizing a with
  | nil => simpa using ha
  | cons y ys ih =>
    simp only [List.foldl_cons]
    apply ih
    · have := h y (by simp); omega
    · intro x hx; exact h x (by simp [hx])

theorem maxOf_le {l : List Nat} {b : Nat} (h : ∀ x ∈ l, x ≤ b) : maxOf l ≤ b :=
  foldl_max_le l 0 b (Nat.zero_le _) h

/-- `maxOf` depends only on the set of values -/
theorem maxOf_congr {l l' : List Nat} (h1 : ∀ x ∈ l, ∃ y ∈ l', x ≤ y) (h2 : ∀ y ∈ l', ∃ x ∈ l, y ≤ x) :
    maxOf l = maxOf l' := by
  apply Nat.le_antisymm
  · apply maxOf_le; intro x hx
    obtain ⟨y, hy, hxy⟩ := h1 x hx
    exact Nat.le_trans hxy (le_maxOf hy)
  · apply maxOf_le; intro y hy
    obtain ⟨x, hx, hyx⟩ := h2 y hy
    exact Nat.le_trans hyx (le_maxOf hx)

/-! ### widths -/

theorem spaces_length (n : Nat) : (spaces n).length = n := by simp [spaces]
theorem spaceW_length (w : Nat) : (spaceW w).length = max w 1 := by simp [spaceW, spaces]
theorem padRight_length (l : List Char) (w : Nat) : (padRight l w).length = max l.length w := by
  simp [padRight, spaces]; omega

/-- the text of one cell for a single-line rendering (`C20.cellText`) -/
def cellTxt (w : Nat) (s : List Char) : List Char := if s = [] then spaceW w else padRight s w

theorem cellTxt_length (w : Nat) (s : List Char) (h : s.length ≤ w) : (cellTxt w s).length = max w 1 := by
  unfold cellTxt
  split
  · exact spaceW_length w
  · rename_i hne
    have : 0 < s.length := List.length_pos_iff.mpr hne
    rw [padRight_length]; omega

theorem intercalate_length_const (sep : List Char) (n : Nat) (l : List (List Char))
    (h : ∀ x ∈ l, x.length = n) :
    (sep.intercalate l).length = l.length * n + (l.length - 1) * sep.length := by
  induction l with
  | nil => simp
  | cons c cs ih =>
    cases cs with
    | nil => simp [h c (by simp)]
    | cons c' cs' =>
      have ih' := ih (fun x hx => h x (List.mem_cons_of_mem _ hx))
      rw [List.intercalate_cons_cons]
      simp only [List.length_append, ih', h c (by simp), List.length_cons]
      simp only [Nat.add_sub_cancel, Nat.add_mul, Nat.one_mul]
      omega

/-! ### `str::lines()` without a line break -/

theorem splitInclusive_noNL (s cur : List Char) (h : '\n' ∉ s) :
    splitInclusive s cur = if s = [] ∧ cur = [] then [] else [cur.reverse ++ s] := by
  induction s generalizing cur with
  | nil => cases cur <;> simp [splitInclusive]
  | cons c cs ih =>
    have hc : c ≠ '\n' := fun e => h (by simp [e])
    have hcs : '\n' ∉ cs := fun e => h (by simp [e])
    rw [splitInclusive, if_neg hc, ih _ hcs]
    simp

theorem stripEnding_noNL (l : List Char) (h : '\n' ∉ l) : stripEnding l = l := by
  unfold stripEnding
  split
  · rename_i rest heq
    exfalso; apply h
    have : '\n' ∈ l.reverse := by rw [heq]; simp
    simpa using this
  · rename_i rest heq
    exfalso; apply h
    have : '\n' ∈ l.reverse := by rw [heq]; simp
    simpa using this
  · rfl

theorem lines_noNL (s : List Char) (h : '\n' ∉ s) : lines s = if s = [] then [] else [s] := by
  unfold lines
  rw [splitInclusive_noNL s [] h]
  by_cases hs : s = [] <;> simp [hs, stripEnding_noNL s h]

/-! ### no panic: the cache keeps its size, every index is in range -/

theorem to_flattened_idx (m : Matrix α) (h : m.Coh) (hfit : m.data.size ≤ usizeMax) {r c : Nat}
    (hr : r < m.nrows) (hc : c < m.ncols) :
    Gen.Index.to_flattened ⟨r, c⟩ m.order m.shape = .ok (m.idx r c) := by
  have hlt := m.idx_lt h hr hc
  have hle : m.idx r c ≤ usizeMax := by omega
  exact Bridge.index_to_flattened ⟨r, c⟩ m.order m.shape hle

theorem cell_ok (cache : Array (List (List Char))) (index w : Nat) (h : index < cache.size) :
    ∃ r, cell cache index w = .ok r ∧ r.2.size = cache.size := by
  cases hc : cache[index]? with
  | none => simp at hc; omega
  | some v =>
    cases v with
    | nil => simp only [cell, hc]; exact ⟨_, rfl, rfl⟩
    | cons l rest => simp only [cell, hc]; exact ⟨_, rfl, by simp⟩

theorem rowLine_ok (m : Matrix α) (h : m.Coh) (hfit : m.data.size ≤ usizeMax) (w : Nat)
    (label : Nat → List Char) {row : Nat} (hr : row < m.nrows) :
    ∀ (todo col : Nat) (cache : Array (List (List Char))) (acc : List Char),
      col + todo ≤ m.ncols → cache.size = m.data.size →
      ∃ r, rowLine m.order m.shape row m.ncols w label col todo cache acc = .ok r ∧
        r.2.size = m.data.size := by
  intro todo
  induction todo with
  | zero => intro col cache acc _ hs; exact ⟨_, rfl, hs⟩
  | succ n ih =>
    intro col cache acc hcol hs
    have hc : col < m.ncols := by omega
    have hidx := m.idx_lt h hr hc
    obtain ⟨⟨c, cache'⟩, hcell, hsize⟩ := cell_ok cache (m.idx row col) w (by omega)
    simp only [rowLine, to_flattened_idx m h hfit hr hc, hcell, bind, Except.bind]
    exact ih _ _ _ (by omega) (by simp only at hsize; omega)

theorem moreLines_ok (m : Matrix α) (h : m.Coh) (hfit : m.data.size ≤ usizeMax) (w : Nat)
    (pre : List Char) (label : Nat → List Char) {row : Nat} (hr : row < m.nrows) :
    ∀ (todo : Nat) (cache : Array (List (List Char))) (acc : List Char),
      cache.size = m.data.size →
      ∃ r, moreLines m.order m.shape row m.ncols w pre label todo cache acc = .ok r ∧
        r.2.size = m.data.size := by
  intro todo
  induction todo with
  | zero => intro cache acc hs; exact ⟨_, rfl, hs⟩
  | succ n ih =>
    intro cache acc hs
    obtain ⟨⟨l, cache'⟩, hl, hsize⟩ := rowLine_ok m h hfit w label hr m.ncols 0 cache pre (by omega) hs
    simp only [moreLines, hl, bind, Except.bind]
    exact ih _ _ hsize

theorem rowsLoop_ok (m : Matrix α) (h : m.Coh) (hfit : m.data.size ≤ usizeMax) (w ht : Nat)
    (firstPre : Nat → List Char) (morePre : List Char) (firstLabel moreLabel : Nat → List Char) :
    ∀ (todo row : Nat) (cache : Array (List (List Char))) (acc : List Char),
      row + todo ≤ m.nrows → cache.size = m.data.size →
      ∃ s, rowsLoop m.order m.shape m.ncols w ht firstPre morePre firstLabel moreLabel row todo cache acc
        = .ok s := by
  intro todo
  induction todo with
  | zero => intro row cache acc _ _; exact ⟨_, rfl⟩
  | succ n ih =>
    intro row cache acc hrow hs
    have hr : row < m.nrows := by omega
    obtain ⟨⟨l, cache1⟩, hl, hsize1⟩ :=
      rowLine_ok m h hfit w firstLabel hr m.ncols 0 cache (firstPre row ++ ['[']) (by omega) hs
    obtain ⟨⟨ls, cache2⟩, hls, hsize2⟩ :=
      moreLines_ok m h hfit w morePre moreLabel hr (ht - 1) cache1 [] hsize1
    simp only [rowsLoop, hl, hls, bind, Except.bind]
    exact ih _ _ _ (by omega) hsize2

/-! ### every offset is the offset of an in-bounds coordinate -/

theorem idx_surj (m : Matrix α) (h : m.Coh) (k : Nat) (hk : k < m.data.size) :
    ∃ r c, r < m.nrows ∧ c < m.ncols ∧ m.idx r c = k := by
  rw [← h.size_eq] at hk
  obtain ⟨h1, h2⟩ := unflat_lt hk
  have hfu := flat_unflat m.shape.minor k
  obtain ⟨o, sh, d⟩ := m
  cases o
  · refine ⟨k / sh.minor, k % sh.minor, ?_⟩
    simp only [Matrix.nrows, Matrix.ncols, Matrix.idx, Index.flat, AxisIndex.flat, AxisIndex.ofIndex,
      AxisShape.nrows, AxisShape.ncols] at *
    exact ⟨h1, h2, hfu⟩
  · refine ⟨k % sh.minor, k / sh.minor, ?_⟩
    simp only [Matrix.nrows, Matrix.ncols, Matrix.idx, Index.flat, AxisIndex.flat, AxisIndex.ofIndex,
      AxisShape.nrows, AxisShape.ncols] at *
    exact ⟨h2, h1, hfu⟩

theorem at?_data (m : Matrix α) {r c : Nat} {x : α} (hx : m.at? r c = some x) :
    m.data[m.idx r c]? = some x := by
  unfold Matrix.at? at hx
  split at hx
  · exact hx
  · cases hx

theorem at?_mem (m : Matrix α) {r c : Nat} {x : α} (hx : m.at? r c = some x) : x ∈ m.data.toList := by
  have := at?_data m hx
  rw [← Array.getElem?_toList] at this
  exact List.mem_of_getElem? this

theorem at?_some (m : Matrix α) (h : m.Coh) {r c : Nat} (hr : r < m.nrows) (hc : c < m.ncols) :
    ∃ x, m.at? r c = some x := ⟨_, m.at?_eq_some h hr hc⟩

/-! ### the row text as the loop builds it, and as `intercalate` -/

/-- the cells of one line from column `col` on, as `rowLine` (empty labels) appends them -/
def rowSpec (f : Nat → List Char) : Nat → Nat → List Char
  | _, 0 => []
  | col, todo + 1 => (if col ≠ 0 then spaceW INTER_GAP else []) ++ f col ++ rowSpec f (col + 1) todo

theorem intercalate_cons_eq (sep x : List Char) (xs : List (List Char)) :
    sep.intercalate (x :: xs) = x ++ (xs.map fun y => sep ++ y).flatten := by
  induction xs generalizing x with
  | nil => simp
  | cons y ys ih => rw [List.intercalate_cons_cons, ih y]; simp

theorem rowSpec_pos (f : Nat → List Char) (todo col : Nat) (hcol : col ≠ 0) :
    rowSpec f col todo = (((List.range' col todo).map f).map fun y => spaceW INTER_GAP ++ y).flatten := by
  induction todo generalizing col with
  | zero => simp [rowSpec]
  | succ n ih =>
    rw [rowSpec, ih (col + 1) (by omega), List.range'_succ]
    simp [hcol]

theorem rowSpec_eq_intercalate (f : Nat → List Char) (n : Nat) :
    rowSpec f 0 n = (spaceW INTER_GAP).intercalate ((List.range n).map f) := by
  cases n with
  | zero => simp [rowSpec]
  | succ n =>
    rw [List.range_eq_range', List.range'_succ, List.map_cons, intercalate_cons_eq, rowSpec,
      rowSpec_pos f n 1 (by omega)]
    simp

/-! ### exact output for single-line renderings -/

/-- one line of `Display` for logical row `r` -/
def rowTxt (render : α → List Char) (m : Matrix α) (w r : Nat) : List Char :=
  spaceW TAB_SIZE ++ ['['] ++
    rowSpec (fun c => ((m.at? r c).map fun x => cellTxt w (render x)).getD []) 0 m.ncols ++ [']', '\n']

theorem rowLine_spec (render : α → List Char) (m : Matrix α) (h : m.Coh) (hfit : m.data.size ≤ usizeMax)
    (hs : ∀ x ∈ m.data.toList, '\n' ∉ render x) (w : Nat) {row : Nat} (hr : row < m.nrows) :
    ∀ (todo col : Nat) (cache : Array (List (List Char))) (acc : List Char),
      col + todo = m.ncols → cache.size = m.data.size →
      (∀ c, col ≤ c → c < m.ncols →
        ∃ x, m.at? row c = some x ∧ cache[m.idx row c]? = some (lines (render x))) →
      ∃ cache', rowLine m.order m.shape row m.ncols w (fun _ => []) col todo cache acc =
          .ok (acc ++ rowSpec (fun c => ((m.at? row c).map fun x => cellTxt w (render x)).getD []) col todo,
            cache') ∧
        cache'.size = m.data.size ∧
        ∀ k, (∀ c, c < m.ncols → k ≠ m.idx row c) → cache'[k]? = cache[k]? := by
  intro todo
  induction todo with
  | zero =>
    intro col cache acc _ hsz _
    exact ⟨cache, by simp [rowLine, rowSpec], hsz, fun _ _ => rfl⟩
  | succ n ih =>
    intro col cache acc hcol hsz hinv
    have hc : col < m.ncols := by omega
    obtain ⟨x, hx, hcx⟩ := hinv col (Nat.le_refl _) hc
    have hnl := hs x (at?_mem m hx)
    rw [lines_noNL _ hnl] at hcx
    by_cases he : render x = []
    · rw [if_pos he] at hcx
      obtain ⟨cache', h1, h2, h3⟩ := ih (col + 1) cache
        (acc ++ (if col ≠ 0 then spaceW INTER_GAP else []) ++ [] ++ spaceW w) (by omega) hsz
        (fun c hc1 hc2 => hinv c (by omega) hc2)
      refine ⟨cache', ?_, h2, h3⟩
      simp only [rowLine, to_flattened_idx m h hfit hr hc, cell, hcx, bind, Except.bind]
      rw [h1]
      simp [rowSpec, hx, he, cellTxt]
    · rw [if_neg he] at hcx
      have hinv' : ∀ c, col + 1 ≤ c → c < m.ncols →
          ∃ x, m.at? row c = some x ∧
            (cache.set! (m.idx row col) [])[m.idx row c]? = some (lines (render x)) := by
        intro c hc1 hc2
        obtain ⟨y, hy1, hy2⟩ := hinv c (by omega) hc2
        refine ⟨y, hy1, ?_⟩
        have hne : m.idx row col ≠ m.idx row c := by
          intro e
          have := (m.idx_inj hr hc hr hc2 e).2
          omega
        rw [Array.set!_eq_setIfInBounds, Array.getElem?_setIfInBounds_ne hne]
        exact hy2
      obtain ⟨cache', h1, h2, h3⟩ := ih (col + 1) (cache.set! (m.idx row col) [])
        (acc ++ (if col ≠ 0 then spaceW INTER_GAP else []) ++ [] ++ padRight (render x) w) (by omega)
        (by simp [hsz]) hinv'
      refine ⟨cache', ?_, h2, ?_⟩
      · simp only [rowLine, to_flattened_idx m h hfit hr hc, cell, hcx, bind, Except.bind]
        rw [h1]
        simp [rowSpec, hx, he, cellTxt]
      · intro k hk
        rw [h3 k hk, Array.set!_eq_setIfInBounds, Array.getElem?_setIfInBounds_ne (Ne.symm (hk col hc))]

theorem rowsLoop_spec (render : α → List Char) (m : Matrix α) (h : m.Coh) (hfit : m.data.size ≤ usizeMax)
    (hs : ∀ x ∈ m.data.toList, '\n' ∉ render x) (w ht : Nat) (hht : ht ≤ 1)
    (morePre : List Char) (moreLabel : Nat → List Char) :
    ∀ (todo row : Nat) (cache : Array (List (List Char))) (acc : List Char),
      row + todo = m.nrows → cache.size = m.data.size →
      (∀ r c, row ≤ r → r < m.nrows → c < m.ncols →
        ∃ x, m.at? r c = some x ∧ cache[m.idx r c]? = some (lines (render x))) →
      rowsLoop m.order m.shape m.ncols w ht (fun _ => spaceW TAB_SIZE) morePre (fun _ => []) moreLabel
          row todo cache acc =
        .ok (acc ++ (List.range' row todo).flatMap fun r => rowTxt render m w r) := by
  intro todo
  induction todo with
  | zero => intro row cache acc _ _ _; simp [rowsLoop]
  | succ n ih =>
    intro row cache acc hrow hsz hinv
    have hr : row < m.nrows := by omega
    have hz : ht - 1 = 0 := by omega
    obtain ⟨cache1, h1, h2, h3⟩ := rowLine_spec render m h hfit hs w hr m.ncols 0 cache
      (spaceW TAB_SIZE ++ ['[']) (by omega) hsz (fun c _ hc => hinv row c (Nat.le_refl _) hr hc)
    simp only [rowsLoop, h1, hz, moreLines, bind, Except.bind]
    rw [ih (row + 1) cache1 _ (by omega) h2]
    · simp [List.range'_succ, rowTxt]
    · intro r c hr1 hr2 hc
      obtain ⟨y, hy1, hy2⟩ := hinv r c (by omega) hr2 hc
      refine ⟨y, hy1, ?_⟩
      rw [h3 _ ?_]
      · exact hy2
      · intro c' hc' e
        have := (m.idx_inj hr2 hc hr hc' e).1
        omega

/-! ### the quantities `display` computes first -/

def cache0 (render : α → List Char) (m : Matrix α) : Array (List (List Char)) :=
  (m.data.toList.map fun e => lines (render e)).toArray
def dispW (render : α → List Char) (m : Matrix α) : Nat :=
  maxOf ((cache0 render m).toList.map fun ls => maxOf (ls.map List.length))
def dispH (render : α → List Char) (m : Matrix α) : Nat :=
  maxOf ((cache0 render m).toList.map List.length)

theorem display_unfold (render : α → List Char) (m : Matrix α) (hne : m.data.size ≠ 0) :
    display render m =
      (do
        let body ← rowsLoop m.order m.shape m.ncols (dispW render m) (dispH render m)
          (fun _ => spaceW TAB_SIZE) (spaceW TAB_SIZE ++ [' ']) (fun _ => []) (fun _ => []) 0 m.nrows
          (cache0 render m) []
        pure (['[', '\n'] ++ body ++ [']'])) := by
  unfold display
  rw [if_neg hne]
  rfl

theorem cache0_size (render : α → List Char) (m : Matrix α) : (cache0 render m).size = m.data.size := by
  simp [cache0]

theorem cache0_at (render : α → List Char) (m : Matrix α) {r c : Nat} {x : α} (hx : m.at? r c = some x) :
    (cache0 render m)[m.idx r c]? = some (lines (render x)) := by
  have := at?_data m hx
  simp [cache0, this]

theorem dispH_le_one (render : α → List Char) (m : Matrix α)
    (hs : ∀ x ∈ m.data.toList, '\n' ∉ render x) : dispH render m ≤ 1 := by
  unfold dispH cache0
  apply maxOf_le
  intro n hn
  simp only [List.mem_map] at hn
  obtain ⟨ls, ⟨e, he, rfl⟩, rfl⟩ := hn
  rw [lines_noNL _ (hs e he)]
  split <;> simp

theorem maxOf_lines_noNL (s : List Char) (h : '\n' ∉ s) : maxOf ((lines s).map List.length) = s.length := by
  rw [lines_noNL s h]
  by_cases hs : s = []
  · simp [hs, maxOf]
  · simp [hs, maxOf]

/-- the width over the data in memory order is the width over the logical positions -/
theorem dispW_eq (render : α → List Char) (m : Matrix α) (h : m.Coh)
    (hs : ∀ x ∈ m.data.toList, '\n' ∉ render x) :
    dispW render m =
      maxOf ((List.range m.nrows).flatMap fun r => (List.range m.ncols).map fun c =>
        ((m.at? r c).map fun x => (render x).length).getD 0) := by
  unfold dispW cache0
  apply maxOf_congr
  · intro n hn
    simp only [List.mem_map] at hn
    obtain ⟨ls, ⟨e, he, rfl⟩, rfl⟩ := hn
    rw [maxOf_lines_noNL _ (hs e he)]
    obtain ⟨k, hk, rfl⟩ := List.mem_iff_getElem.mp he
    have hk' : k < m.data.size := by simpa using hk
    obtain ⟨r, c, hr, hc, hidx⟩ := idx_surj m h k hk'
    refine ⟨(render m.data.toList[k]).length, ?_, Nat.le_refl _⟩
    simp only [List.mem_flatMap, List.mem_map, List.mem_range]
    refine ⟨r, hr, c, hc, ?_⟩
    rw [m.at?_eq_some h hr hc]
    simp [hidx]
  · intro n hn
    simp only [List.mem_flatMap, List.mem_map, List.mem_range] at hn
    obtain ⟨r, hr, c, hc, rfl⟩ := hn
    obtain ⟨x, hx⟩ := at?_some m h hr hc
    have hmem := at?_mem m hx
    refine ⟨(render x).length, ?_, by simp [hx]⟩
    simp only [List.mem_map]
    exact ⟨lines (render x), ⟨x, hmem, rfl⟩, maxOf_lines_noNL _ (hs x hmem)⟩

/-! ### the same with arbitrary first-line prefix and labels (`Debug`) -/

theorem rowLine_spec_gen (render : α → List Char) (m : Matrix α) (h : m.Coh) (hfit : m.data.size ≤ usizeMax)
    (hs : ∀ x ∈ m.data.toList, '\n' ∉ render x) (w : Nat) (label : Nat → List Char)
    {row : Nat} (hr : row < m.nrows) :
    ∀ (todo col : Nat) (cache : Array (List (List Char))) (acc : List Char),
      col + todo = m.ncols → cache.size = m.data.size →
      (∀ c, col ≤ c → c < m.ncols →
        ∃ x, m.at? row c = some x ∧ cache[m.idx row c]? = some (lines (render x))) →
      ∃ cache', rowLine m.order m.shape row m.ncols w label col todo cache acc =
          .ok (acc ++ rowSpec (fun c => label (m.idx row c) ++
              ((m.at? row c).map fun x => cellTxt w (render x)).getD []) col todo,
            cache') ∧
        cache'.size = m.data.size ∧
        ∀ k, (∀ c, c < m.ncols → k ≠ m.idx row c) → cache'[k]? = cache[k]? := by
  intro todo
  induction todo with
  | zero =>
    intro col cache acc _ hsz _
    exact ⟨cache, by simp [rowLine, rowSpec], hsz, fun _ _ => rfl⟩
  | succ n ih =>
    intro col cache acc hcol hsz hinv
    have hc : col < m.ncols := by omega
    obtain ⟨x, hx, hcx⟩ := hinv col (Nat.le_refl _) hc
    have hnl := hs x (at?_mem m hx)
    rw [lines_noNL _ hnl] at hcx
    by_cases he : render x = []
    · rw [if_pos he] at hcx
      obtain ⟨cache', h1, h2, h3⟩ := ih (col + 1) cache
        (acc ++ (if col ≠ 0 then spaceW INTER_GAP else []) ++ label (m.idx row col) ++ spaceW w)
        (by omega) hsz (fun c hc1 hc2 => hinv c (by omega) hc2)
      refine ⟨cache', ?_, h2, h3⟩
      simp only [rowLine, to_flattened_idx m h hfit hr hc, cell, hcx, bind, Except.bind]
      rw [h1]
      simp [rowSpec, hx, he, cellTxt]
    · rw [if_neg he] at hcx
      have hinv' : ∀ c, col + 1 ≤ c → c < m.ncols →
          ∃ x, m.at? row c = some x ∧
            (cache.set! (m.idx row col) [])[m.idx row c]? = some (lines (render x)) := by
        intro c hc1 hc2
        obtain ⟨y, hy1, hy2⟩ := hinv c (by omega) hc2
        refine ⟨y, hy1, ?_⟩
        have hne : m.idx row col ≠ m.idx row c := by
          intro e
          have := (m.idx_inj hr hc hr hc2 e).2
          omega
        rw [Array.set!_eq_setIfInBounds, Array.getElem?_setIfInBounds_ne hne]
        exact hy2
      obtain ⟨cache', h1, h2, h3⟩ := ih (col + 1) (cache.set! (m.idx row col) [])
        (acc ++ (if col ≠ 0 then spaceW INTER_GAP else []) ++ label (m.idx row col) ++
          padRight (render x) w) (by omega)
        (by simp [hsz]) hinv'
      refine ⟨cache', ?_, h2, ?_⟩
      · simp only [rowLine, to_flattened_idx m h hfit hr hc, cell, hcx, bind, Except.bind]
        rw [h1]
        simp [rowSpec, hx, he, cellTxt]
      · intro k hk
        rw [h3 k hk, Array.set!_eq_setIfInBounds, Array.getElem?_setIfInBounds_ne (Ne.symm (hk col hc))]

/-- one first line of a row with prefix `firstPre r` and per-cell label `firstLabel (m.idx r c)` -/
def rowTxtGen (render : α → List Char) (m : Matrix α) (w : Nat)
    (firstPre firstLabel : Nat → List Char) (r : Nat) : List Char :=
  firstPre r ++ ['['] ++
    rowSpec (fun c => firstLabel (m.idx r c) ++
      ((m.at? r c).map fun x => cellTxt w (render x)).getD []) 0 m.ncols ++ [']', '\n']

theorem rowsLoop_spec_gen (render : α → List Char) (m : Matrix α) (h : m.Coh) (hfit : m.data.size ≤ usizeMax)
    (hs : ∀ x ∈ m.data.toList, '\n' ∉ render x) (w ht : Nat) (hht : ht ≤ 1)
    (firstPre : Nat → List Char) (morePre : List Char) (firstLabel moreLabel : Nat → List Char) :
    ∀ (todo row : Nat) (cache : Array (List (List Char))) (acc : List Char),
      row + todo = m.nrows → cache.size = m.data.size →
      (∀ r c, row ≤ r → r < m.nrows → c < m.ncols →
        ∃ x, m.at? r c = some x ∧ cache[m.idx r c]? = some (lines (render x))) →
      rowsLoop m.order m.shape m.ncols w ht firstPre morePre firstLabel moreLabel
          row todo cache acc =
        .ok (acc ++ (List.range' row todo).flatMap fun r =>
          rowTxtGen render m w firstPre firstLabel r) := by
  intro todo
  induction todo with
  | zero => intro row cache acc _ _ _; simp [rowsLoop]
  | succ n ih =>
    intro row cache acc hrow hsz hinv
    have hr : row < m.nrows := by omega
    have hz : ht - 1 = 0 := by omega
    obtain ⟨cache1, h1, h2, h3⟩ := rowLine_spec_gen render m h hfit hs w firstLabel hr m.ncols 0 cache
      (firstPre row ++ ['[']) (by omega) hsz (fun c _ hc => hinv row c (Nat.le_refl _) hr hc)
    simp only [rowsLoop, h1, hz, moreLines, bind, Except.bind]
    rw [ih (row + 1) cache1 _ (by omega) h2]
    · simp [List.range'_succ, rowTxtGen]
    · intro r c hr1 hr2 hc
      obtain ⟨y, hy1, hy2⟩ := hinv r c (by omega) hr2 hc
      refine ⟨y, hy1, ?_⟩
      rw [h3 _ ?_]
      · exact hy2
      · intro c' hc' e
        have := (m.idx_inj hr2 hc hr hc' e).1
        omega

theorem debugHeader_spec (ncols iw w : Nat) :
    ∀ (todo col : Nat) (acc : List Char),
      debugHeader ncols iw w col todo acc =
        acc ++ rowSpec (fun c => padLeftNat c iw ++ spaceW INNER_GAP ++ spaceW w) col todo := by
  intro todo
  induction todo with
  | zero => intro col acc; simp [debugHeader, rowSpec]
  | succ n ih =>
    intro col acc
    rw [debugHeader, ih, rowSpec]
    simp [List.append_assoc]

theorem debug_unfold (render : α → List Char) (m : Matrix α) (hne : m.data.size ≠ 0) :
    debug render m =
      (do
        let body ← rowsLoop m.order m.shape m.ncols (dispW render m) (dispH render m)
          (fun row => spaceW TAB_SIZE ++ padLeftNat row (toString m.data.size).length ++ spaceW OUTER_GAP)
          (spaceW TAB_SIZE ++ spaceW (toString m.data.size).length ++ spaceW OUTER_GAP ++ [' '])
          (fun index => padLeftNat index (toString m.data.size).length ++ spaceW INNER_GAP)
          (fun _ => spaceW (toString m.data.size).length ++ spaceW INNER_GAP) 0 m.nrows
          (cache0 render m) []
        pure (['[', '\n'] ++
          debugHeader m.ncols (toString m.data.size).length (dispW render m) 0 m.ncols
            (spaceW TAB_SIZE ++ spaceW (toString m.data.size).length ++ spaceW OUTER_GAP ++ [' ']) ++
          ['\n'] ++ body ++ [']'])) := by
  unfold debug
  rw [if_neg hne]
  rfl

end Matreex.Fmt
