/-
Per-machine lemmas about the address-level iterators of `Model/IterMut.lean`: the inner iterator
`Nth` refines a deque of positions `f, f+1, …, length-1-b` of a valid vector; the outer iterator
`Vecs` refines a deque of vector numbers, each handed-out inner iterator being a fresh deque over
its own vector.
-/
import Matreex.Model.IterMut

namespace Matreex.IterMut
open Matreex

/-- address the iterator holds for the `t`-th element of its vector -/
def A (cfg : Cfg) (lower0 stride t : Nat) : Nat :=
  lower0 + t * stride * (if cfg.es = 0 then 1 else cfg.es)

/-- what `next` hands to the caller for position `t` -/
def Y (cfg : Cfg) (lower0 stride t : Nat) : Nat :=
  if cfg.es = 0 then cfg.dangling else A cfg lower0 stride t

/-- the vector lies inside the buffer (sized) / inside the address space (zero-sized), and the
quantities `size_hint` computes fit `usize` -/
structure Valid (cfg : Cfg) (lower0 stride length : Nat) : Prop where
  hstride : 0 < stride
  hlength : 0 < length
  nz : cfg.es ≠ 0 → ∃ off0, lower0 = cfg.base + off0 * cfg.es ∧ off0 + (length - 1) * stride < cfg.len
  z : cfg.es = 0 → 0 < lower0 ∧ lower0 + (length - 1) * stride ≤ usizeMax
  hoff : (length - 1) * stride ≤ usizeMax
  hq : stride * (if cfg.es = 0 then 1 else cfg.es) ≤ usizeMax
  hlen : length ≤ usizeMax

/-- refinement relation: `f` taken from the front, `b` from the back -/
def R (cfg : Cfg) (lower0 stride length : Nat) (it : Nth) (f b : Nat) : Prop :=
  (f + b < length ∧ it.stride = some stride ∧ it.lower = A cfg lower0 stride f ∧
      it.upper = A cfg lower0 stride (length - 1 - b)) ∨
  (f + b = length ∧ it.stride = none)

theorem unit_pos (cfg : Cfg) : 0 < (if cfg.es = 0 then 1 else cfg.es) := by
  split <;> omega

theorem A_mono (cfg : Cfg) (lower0 stride : Nat) (hs : 0 < stride) (t u : Nat) :
    A cfg lower0 stride t = A cfg lower0 stride u ↔ t = u := by
  unfold A
  have hu : 0 < stride * (if cfg.es = 0 then 1 else cfg.es) := Nat.mul_pos hs (unit_pos cfg)
  constructor
  · intro h
    have : t * (stride * if cfg.es = 0 then 1 else cfg.es) = u * (stride * if cfg.es = 0 then 1 else cfg.es) := by
      rw [← Nat.mul_assoc, ← Nat.mul_assoc]; omega
    exact Nat.eq_of_mul_eq_mul_right hu this
  · intro h; rw [h]

theorem A_zero (cfg : Cfg) (lower0 stride : Nat) : A cfg lower0 stride 0 = lower0 := by
  simp [A]

theorem A_add (cfg : Cfg) (lower0 stride t n : Nat) :
    A cfg lower0 stride (t + n) = A cfg lower0 stride t + n * stride * (if cfg.es = 0 then 1 else cfg.es) := by
  unfold A; rw [Nat.add_mul, Nat.add_mul, Nat.add_assoc]

theorem A_succ (cfg : Cfg) (lower0 stride t : Nat) :
    A cfg lower0 stride (t + 1) = A cfg lower0 stride t + stride * (if cfg.es = 0 then 1 else cfg.es) := by
  rw [A_add, Nat.one_mul]

theorem A_le (cfg : Cfg) (lower0 stride t u : Nat) (h : t ≤ u) :
    A cfg lower0 stride t ≤ A cfg lower0 stride u := by
  unfold A
  apply Nat.add_le_add_left
  apply Nat.mul_le_mul_right
  exact Nat.mul_le_mul_right _ h

/-- sized: every position of a valid vector is a live aligned element of the buffer -/
theorem A_in_buf (cfg : Cfg) (lower0 stride length : Nat) (hv : Valid cfg lower0 stride length)
    (hz : cfg.es ≠ 0) (t : Nat) (ht : t < length) :
    cfg.base ≤ A cfg lower0 stride t ∧ A cfg lower0 stride t + cfg.es ≤ cfg.base + cfg.len * cfg.es ∧
      (A cfg lower0 stride t - cfg.base) % cfg.es = 0 := by
  obtain ⟨off0, h1, h2⟩ := hv.nz hz
  have hA : A cfg lower0 stride t = cfg.base + (off0 + t * stride) * cfg.es := by
    simp [A, hz, h1, Nat.add_mul, Nat.add_assoc]
  have hle : off0 + t * stride + 1 ≤ cfg.len := by
    have : t * stride ≤ (length - 1) * stride := Nat.mul_le_mul_right _ (by omega)
    omega
  have hb : A cfg lower0 stride t + cfg.es ≤ cfg.base + cfg.len * cfg.es := by
    rw [hA, Nat.add_assoc]
    apply Nat.add_le_add_left
    calc (off0 + t * stride) * cfg.es + cfg.es = (off0 + t * stride + 1) * cfg.es := by
          rw [Nat.add_mul (off0 + t * stride) 1]; simp
      _ ≤ cfg.len * cfg.es := Nat.mul_le_mul_right _ hle
  have hmod : (A cfg lower0 stride t - cfg.base) % cfg.es = 0 := by
    rw [hA]; simp
  have hge : cfg.base ≤ A cfg lower0 stride t := by rw [hA]; omega
  exact ⟨hge, hb, hmod⟩

/-- zero-sized: every counter value of a valid vector is a non-null address that fits `usize` -/
theorem A_in_space (cfg : Cfg) (lower0 stride length : Nat) (hv : Valid cfg lower0 stride length)
    (hz : cfg.es = 0) (t : Nat) (ht : t < length) :
    0 < A cfg lower0 stride t ∧ A cfg lower0 stride t ≤ usizeMax := by
  obtain ⟨h1, h2⟩ := hv.z hz
  have : t * stride ≤ (length - 1) * stride := Nat.mul_le_mul_right _ (by omega)
  simp only [A, hz, ↓reduceIte, Nat.mul_one]
  omega

/-- every position of a valid vector dereferences fine and gives the expected address -/
theorem deref_A (cfg : Cfg) (lower0 stride length : Nat) (hv : Valid cfg lower0 stride length)
    (t : Nat) (ht : t < length) : deref cfg (A cfg lower0 stride t) = .ok (Y cfg lower0 stride t) := by
  unfold deref Y
  by_cases hz : cfg.es = 0
  · simp [hz]
  · obtain ⟨hge, hb, hmod⟩ := A_in_buf cfg lower0 stride length hv hz t ht
    simp [hz, hge, hb, hmod]

/-- moving a cursor `n` positions forward inside a valid vector is a legal `add` -/
theorem advance_A_add (cfg : Cfg) (lower0 stride length : Nat) (hv : Valid cfg lower0 stride length)
    (t n : Nat) (ht : t + n < length) :
    advance cfg (A cfg lower0 stride t) (n * stride) = .ok (A cfg lower0 stride (t + n)) := by
  unfold advance
  have e := A_add cfg lower0 stride t n
  by_cases hz : cfg.es = 0
  · have := (A_in_space cfg lower0 stride length hv hz (t + n) ht).2
    simp only [hz, ↓reduceIte, Nat.mul_one] at e ⊢
    have h' : A cfg lower0 stride t + n * stride ≤ usizeMax := by omega
    simp [h', e]
  · have := (A_in_buf cfg lower0 stride length hv hz (t + n) ht).2.1
    simp only [hz, ↓reduceIte] at e ⊢
    have h' : A cfg lower0 stride t + n * stride * cfg.es ≤ cfg.base + cfg.len * cfg.es := by omega
    simp [h', e]

theorem advance_A (cfg : Cfg) (lower0 stride length : Nat) (hv : Valid cfg lower0 stride length)
    (t : Nat) (ht : t + 1 < length) :
    advance cfg (A cfg lower0 stride t) stride = .ok (A cfg lower0 stride (t + 1)) := by
  have := advance_A_add cfg lower0 stride length hv t 1 ht
  rwa [Nat.one_mul] at this

/-- moving a cursor one position back inside a valid vector is a legal `sub` -/
theorem retreat_A (cfg : Cfg) (lower0 stride length : Nat) (hv : Valid cfg lower0 stride length)
    (t : Nat) (ht : t + 1 < length) :
    retreat cfg (A cfg lower0 stride (t + 1)) stride = .ok (A cfg lower0 stride t) := by
  unfold retreat
  have e := A_succ cfg lower0 stride t
  by_cases hz : cfg.es = 0
  · have := (A_in_space cfg lower0 stride length hv hz t (by omega)).1
    simp only [hz, ↓reduceIte, Nat.mul_one] at e ⊢
    have h' : stride < A cfg lower0 stride (t + 1) := by omega
    have h'' : A cfg lower0 stride (t + 1) - stride = A cfg lower0 stride t := by omega
    simp [h', h'']
  · have := (A_in_buf cfg lower0 stride length hv hz t (by omega)).1
    simp only [hz, ↓reduceIte] at e ⊢
    have h' : cfg.base + stride * cfg.es ≤ A cfg lower0 stride (t + 1) := by omega
    have h'' : A cfg lower0 stride (t + 1) - stride * cfg.es = A cfg lower0 stride t := by omega
    simp [h', h'']

theorem assemble_R (cfg : Cfg) (lower0 stride length : Nat) (hv : Valid cfg lower0 stride length) :
    ∃ it, Nth.assemble cfg lower0 stride length = .ok it ∧ R cfg lower0 stride length it 0 0 := by
  have h1 : usub length 1 = .ok (length - 1) := usub_ok hv.hlength
  have h2 : umul (length - 1) stride = .ok ((length - 1) * stride) := umul_ok hv.hoff
  have h3 := advance_A_add cfg lower0 stride length hv 0 (length - 1) (by have := hv.hlength; omega)
  rw [A_zero, Nat.zero_add] at h3
  unfold Nth.assemble
  simp only [h1, h2, h3, bind, Except.bind, pure, Except.pure]
  exact ⟨_, rfl, Or.inl ⟨hv.hlength, rfl, (A_zero ..).symm, rfl⟩⟩

theorem next_refines (cfg : Cfg) (lower0 stride length : Nat)
    (it : Nth) (f b : Nat) (hR : R cfg lower0 stride length it f b) :
    (f + b < length → Valid cfg lower0 stride length →
        ∃ it', Nth.next cfg it = .ok (some (Y cfg lower0 stride f), it') ∧
        R cfg lower0 stride length it' (f + 1) b) ∧
    (¬ f + b < length → Nth.next cfg it = .ok (none, it)) := by
  constructor
  · intro hlt hv
    rcases hR with ⟨_, hst, hlo, hup⟩ | ⟨h, _⟩
    · unfold Nth.next
      simp only [hst, hlo, deref_A cfg lower0 stride length hv f (by omega), hup,
        A_mono cfg lower0 stride hv.hstride, bind, Except.bind, pure, Except.pure]
      by_cases hlast : f = length - 1 - b
      · simp only [hlast, ↓reduceIte]
        exact ⟨_, rfl, Or.inr ⟨by omega, rfl⟩⟩
      · simp only [hlast, ↓reduceIte, advance_A cfg lower0 stride length hv f (by omega)]
        exact ⟨_, rfl, Or.inl ⟨by omega, rfl, rfl, rfl⟩⟩
    · omega
  · intro heq
    rcases hR with ⟨h, _⟩ | ⟨_, hst⟩
    · omega
    · unfold Nth.next; simp [hst]

theorem nextBack_refines (cfg : Cfg) (lower0 stride length : Nat)
    (it : Nth) (f b : Nat) (hR : R cfg lower0 stride length it f b) :
    (f + b < length → Valid cfg lower0 stride length →
        ∃ it', Nth.nextBack cfg it = .ok (some (Y cfg lower0 stride (length - 1 - b)), it') ∧
        R cfg lower0 stride length it' f (b + 1)) ∧
    (¬ f + b < length → Nth.nextBack cfg it = .ok (none, it)) := by
  constructor
  · intro hlt hv
    rcases hR with ⟨_, hst, hlo, hup⟩ | ⟨h, _⟩
    · unfold Nth.nextBack
      simp only [hst, hlo, deref_A cfg lower0 stride length hv (length - 1 - b) (by omega), hup,
        A_mono cfg lower0 stride hv.hstride, bind, Except.bind, pure, Except.pure]
      by_cases hlast : f = length - 1 - b
      · simp only [hlast, ↓reduceIte]
        exact ⟨_, rfl, Or.inr ⟨by omega, rfl⟩⟩
      · have hr := retreat_A cfg lower0 stride length hv (length - 1 - (b + 1)) (by omega)
        have e : length - 1 - (b + 1) + 1 = length - 1 - b := by omega
        rw [e] at hr
        simp only [hlast, ↓reduceIte, hr]
        exact ⟨_, rfl, Or.inl ⟨by omega, rfl, rfl, rfl⟩⟩
    · omega
  · intro heq
    rcases hR with ⟨h, _⟩ | ⟨_, hst⟩
    · omega
    · unfold Nth.nextBack; simp [hst]

/-- `size_hint` between two cursors of a valid vector: no fault, the number of positions left -/
theorem lenOf_A (cfg : Cfg) (lower0 stride length : Nat) (hv : Valid cfg lower0 stride length)
    (f b : Nat) (h : f + b < length) :
    lenOf cfg (A cfg lower0 stride f) (A cfg lower0 stride (length - 1 - b)) stride = .ok (length - f - b) := by
  have hu : 0 < stride * (if cfg.es = 0 then 1 else cfg.es) := Nat.mul_pos hv.hstride (unit_pos cfg)
  have hd : A cfg lower0 stride (length - 1 - b) - A cfg lower0 stride f
      = (length - 1 - b - f) * (stride * (if cfg.es = 0 then 1 else cfg.es)) := by
    unfold A
    rw [Nat.mul_assoc, Nat.mul_assoc, Nat.add_sub_add_left, ← Nat.sub_mul]
  have h1 : usub (A cfg lower0 stride (length - 1 - b)) (A cfg lower0 stride f)
      = .ok ((length - 1 - b - f) * (stride * (if cfg.es = 0 then 1 else cfg.es))) := by
    rw [usub_ok (A_le cfg lower0 stride _ _ (by omega)), hd]
  have h2 := umul_ok hv.hq
  have h3 : udiv ((length - 1 - b - f) * (stride * (if cfg.es = 0 then 1 else cfg.es)))
      (stride * (if cfg.es = 0 then 1 else cfg.es)) = .ok (length - 1 - b - f) := by
    rw [udiv_ok (by omega), Nat.mul_div_cancel _ hu]
  have h4 : uadd 1 (length - 1 - b - f) = .ok (length - f - b) := by
    rw [uadd_ok (by have := hv.hlen; omega)]
    congr 1; omega
  unfold lenOf
  simp only [h1, h2, h3, h4, bind, Except.bind]

theorem len_refines (cfg : Cfg) (lower0 stride length : Nat)
    (it : Nth) (f b : Nat) (hR : R cfg lower0 stride length it f b)
    (hv : f + b < length → Valid cfg lower0 stride length) :
    Nth.len cfg it = .ok (length - f - b) := by
  rcases hR with ⟨h, hst, hlo, hup⟩ | ⟨h, hst⟩
  · unfold Nth.len
    simp only [hst, hlo, hup]
    exact lenOf_A cfg lower0 stride length (hv h) f b h
  · unfold Nth.len; simp only [hst]; congr 1; omega

/-! ### the outer iterator -/

/-- the whole matrix lies inside the buffer (sized) / the address space (zero-sized) -/
structure MValid (cfg : Cfg) (lower0 AS AL VS VL : Nat) : Prop where
  hAS : 0 < AS
  hAL : 0 < AL
  hVS : 0 < VS
  hVL : 0 < VL
  nz : cfg.es ≠ 0 → ∃ off0, lower0 = cfg.base + off0 * cfg.es ∧ off0 + (AL - 1) * AS + (VL - 1) * VS < cfg.len
  z : cfg.es = 0 → 0 < lower0 ∧ lower0 + (AL - 1) * AS + (VL - 1) * VS ≤ usizeMax
  hAoff : (AL - 1) * AS ≤ usizeMax
  hVoff : (VL - 1) * VS ≤ usizeMax
  hAq : AS * (if cfg.es = 0 then 1 else cfg.es) ≤ usizeMax
  hVq : VS * (if cfg.es = 0 then 1 else cfg.es) ≤ usizeMax
  hALen : AL ≤ usizeMax
  hVLen : VL ≤ usizeMax

/-- the heads of the vectors form a valid "vector" of stride `AS` and length `AL` -/
theorem MValid.heads {cfg : Cfg} {lower0 AS AL VS VL : Nat} (h : MValid cfg lower0 AS AL VS VL) :
    Valid cfg lower0 AS AL := by
  refine ⟨h.hAS, h.hAL, ?_, ?_, h.hAoff, h.hAq, h.hALen⟩
  · intro hz; obtain ⟨off0, h1, h2⟩ := h.nz hz; exact ⟨off0, h1, by omega⟩
  · intro hz; obtain ⟨h1, h2⟩ := h.z hz; exact ⟨h1, by omega⟩

/-- vector `k` is a valid vector starting at the `k`-th head -/
theorem MValid.vector {cfg : Cfg} {lower0 AS AL VS VL : Nat} (h : MValid cfg lower0 AS AL VS VL)
    (k : Nat) (hk : k < AL) : Valid cfg (A cfg lower0 AS k) VS VL := by
  have hle : k * AS ≤ (AL - 1) * AS := Nat.mul_le_mul_right _ (by omega)
  refine ⟨h.hVS, h.hVL, ?_, ?_, h.hVoff, h.hVq, h.hVLen⟩
  · intro hz
    obtain ⟨off0, h1, h2⟩ := h.nz hz
    refine ⟨off0 + k * AS, ?_, by omega⟩
    simp [A, hz, h1, Nat.add_mul, Nat.add_assoc]
  · intro hz
    obtain ⟨h1, h2⟩ := h.z hz
    simp only [A, hz, ↓reduceIte, Nat.mul_one]
    exact ⟨by omega, by omega⟩

/-- refinement relation of the outer iterator: `F` vectors taken from the front, `B` from the
back.  Second case: nothing but (possibly zero) empty vectors left — an exhausted iterator, or an
element-less matrix, whose vectors all have length `0`. -/
def RV (cfg : Cfg) (lower0 AS AL VS VL : Nat) (it : Vecs) (F B : Nat) : Prop :=
  (F + B < AL ∧ it.layout = some ⟨AS, VS, VL⟩ ∧ it.lower = A cfg lower0 AS F ∧
      it.upper = A cfg lower0 AS (AL - 1 - B) ∧ it.emptyVectors = 0 ∧ MValid cfg lower0 AS AL VS VL) ∨
  (it.layout = none ∧ F + B ≤ AL ∧ it.emptyVectors = AL - F - B ∧ (F + B < AL → VL = 0))

/-- where the outer iterator starts: address of the buffer, or the counter value `1` -/
def lower0 (cfg : Cfg) : Nat := if cfg.es = 0 then 1 else cfg.base

theorem vecs_assemble_RV (cfg : Cfg) (AS AL VS VL : Nat) (hv : MValid cfg (lower0 cfg) AS AL VS VL) :
    ∃ it, Vecs.assemble cfg AS AL VS VL = .ok it ∧ RV cfg (lower0 cfg) AS AL VS VL it 0 0 := by
  have hh := hv.heads
  have h1 : usub AL 1 = .ok (AL - 1) := usub_ok hv.hAL
  have h2 : umul AS (AL - 1) = .ok ((AL - 1) * AS) := by
    rw [Nat.mul_comm]; exact umul_ok (by rw [Nat.mul_comm]; exact hv.hAoff)
  have h3 := advance_A_add cfg (lower0 cfg) AS AL hh 0 (AL - 1) (by have := hv.hAL; omega)
  rw [A_zero, Nat.zero_add] at h3
  unfold lower0 at h3
  unfold Vecs.assemble
  simp only [h1, h2, h3, bind, Except.bind, pure, Except.pure]
  exact ⟨_, rfl, Or.inl ⟨hv.hAL, rfl, (A_zero ..).symm, rfl, rfl, hv⟩⟩

theorem empty_R (cfg : Cfg) (l s : Nat) : R cfg l s 0 (Nth.empty cfg) 0 0 := Or.inr ⟨rfl, rfl⟩

/-- one `next()` of the outer iterator: hands out a fresh inner iterator that is an untouched
deque over vector `F`, and moves on to `F + 1`; no fault. -/
theorem vecs_next_refines (cfg : Cfg) (lower0 AS AL VS VL : Nat)
    (it : Vecs) (F B : Nat) (hR : RV cfg lower0 AS AL VS VL it F B) :
    (F + B < AL → ∃ nth it', Vecs.next cfg it = .ok (some nth, it') ∧
        RV cfg lower0 AS AL VS VL it' (F + 1) B ∧
        R cfg (A cfg lower0 AS F) VS VL nth 0 0) ∧
    (¬ F + B < AL → Vecs.next cfg it = .ok (none, it)) := by
  constructor
  · intro hlt
    rcases hR with ⟨_, hlay, hlo, hup, hev, hv⟩ | ⟨hlay, hle, hev, hvl⟩
    · obtain ⟨nth, hn1, hn2⟩ := assemble_R cfg (A cfg lower0 AS F) VS VL (hv.vector F (by omega))
      unfold Vecs.next
      simp only [hlay, hlo, hn1, hup, A_mono cfg lower0 AS hv.hAS, bind, Except.bind, pure, Except.pure]
      by_cases hlast : F = AL - 1 - B
      · simp only [hlast, ↓reduceIte]
        refine ⟨nth, _, rfl, Or.inr ⟨rfl, by omega, ?_, by omega⟩, ?_⟩
        · simp only [hev]; omega
        · rw [← hlast]; exact hn2
      · simp only [hlast, ↓reduceIte, advance_A cfg lower0 AS AL hv.heads F (by omega)]
        exact ⟨nth, _, rfl, Or.inl ⟨by omega, rfl, rfl, rfl, hev, hv⟩, hn2⟩
    · have hne : it.emptyVectors ≠ 0 := by omega
      have hvl0 := hvl hlt
      subst hvl0
      unfold Vecs.next Vecs.nextEmpty
      simp only [hlay, hne, ↓reduceIte]
      exact ⟨_, _, rfl, Or.inr ⟨rfl, by omega, by simp only [hev]; omega, fun _ => rfl⟩, empty_R ..⟩
  · intro heq
    rcases hR with ⟨h, _⟩ | ⟨hlay, hle, hev, hvl⟩
    · omega
    · have he : it.emptyVectors = 0 := by omega
      unfold Vecs.next Vecs.nextEmpty; simp [hlay, he]

theorem vecs_nextBack_refines (cfg : Cfg) (lower0 AS AL VS VL : Nat)
    (it : Vecs) (F B : Nat) (hR : RV cfg lower0 AS AL VS VL it F B) :
    (F + B < AL → ∃ nth it', Vecs.nextBack cfg it = .ok (some nth, it') ∧
        RV cfg lower0 AS AL VS VL it' F (B + 1) ∧
        R cfg (A cfg lower0 AS (AL - 1 - B)) VS VL nth 0 0) ∧
    (¬ F + B < AL → Vecs.nextBack cfg it = .ok (none, it)) := by
  constructor
  · intro hlt
    rcases hR with ⟨_, hlay, hlo, hup, hev, hv⟩ | ⟨hlay, hle, hev, hvl⟩
    · obtain ⟨nth, hn1, hn2⟩ := assemble_R cfg (A cfg lower0 AS (AL - 1 - B)) VS VL
        (hv.vector (AL - 1 - B) (by omega))
      unfold Vecs.nextBack
      simp only [hlay, hlo, hn1, hup, A_mono cfg lower0 AS hv.hAS, bind, Except.bind, pure, Except.pure]
      by_cases hlast : F = AL - 1 - B
      · simp only [hlast, ↓reduceIte]
        refine ⟨nth, _, rfl, Or.inr ⟨rfl, by omega, ?_, by omega⟩, hn2⟩
        simp only [hev]; omega
      · have hr := retreat_A cfg lower0 AS AL hv.heads (AL - 1 - (B + 1)) (by omega)
        have e : AL - 1 - (B + 1) + 1 = AL - 1 - B := by omega
        rw [e] at hr
        simp only [hlast, ↓reduceIte, hr]
        exact ⟨nth, _, rfl, Or.inl ⟨by omega, rfl, rfl, rfl, hev, hv⟩, hn2⟩
    · have hne : it.emptyVectors ≠ 0 := by omega
      have hvl0 := hvl hlt
      subst hvl0
      unfold Vecs.nextBack Vecs.nextEmpty
      simp only [hlay, hne, ↓reduceIte]
      exact ⟨_, _, rfl, Or.inr ⟨rfl, by omega, by simp only [hev]; omega, fun _ => rfl⟩, empty_R ..⟩
  · intro heq
    rcases hR with ⟨h, _⟩ | ⟨hlay, hle, hev, hvl⟩
    · omega
    · have he : it.emptyVectors = 0 := by omega
      unfold Vecs.nextBack Vecs.nextEmpty; simp [hlay, he]

theorem vecs_len_refines (cfg : Cfg) (lower0 AS AL VS VL : Nat)
    (it : Vecs) (F B : Nat) (hR : RV cfg lower0 AS AL VS VL it F B) :
    Vecs.len cfg it = .ok (AL - F - B) := by
  rcases hR with ⟨h, hlay, hlo, hup, _, hv⟩ | ⟨hlay, _, hev, _⟩
  · unfold Vecs.len
    simp only [hlay, hlo, hup]
    exact lenOf_A cfg lower0 AS AL hv.heads F B h
  · unfold Vecs.len; simp only [hlay, hev]

/-! ### the two layouts the crate instantiates -/

theorem unit_bound (cfg : Cfg) (hfits : cfg.base + cfg.len * cfg.es ≤ usizeMax) (hlf : cfg.len ≤ usizeMax)
    (x : Nat) (hx : x ≤ cfg.len) : x * (if cfg.es = 0 then 1 else cfg.es) ≤ usizeMax := by
  split
  · omega
  · have : x * cfg.es ≤ cfg.len * cfg.es := Nat.mul_le_mul_right _ hx
    omega

/-- over the major axis: `M` vectors of `m` contiguous elements -/
theorem mvalid_major (cfg : Cfg) (M m : Nat) (hlen : cfg.len = M * m) (h0 : cfg.len ≠ 0)
    (hfits : cfg.base + cfg.len * cfg.es ≤ usizeMax) (hlf : cfg.len ≤ usizeMax) :
    MValid cfg (lower0 cfg) m M 1 m := by
  have hM : M ≠ 0 := by intro h; subst h; simp at hlen; exact h0 hlen
  have hm : m ≠ 0 := by intro h; subst h; simp at hlen; exact h0 hlen
  obtain ⟨M', rfl⟩ := Nat.exists_eq_succ_of_ne_zero hM
  obtain ⟨m', rfl⟩ := Nat.exists_eq_succ_of_ne_zero hm
  simp only [Nat.succ_eq_add_one] at *
  have hexp : cfg.len = M' * (m' + 1) + (m' + 1) := by rw [hlen, Nat.add_mul]; simp
  have hMle : M' ≤ M' * (m' + 1) := Nat.le_mul_of_pos_right _ (by omega)
  refine ⟨by omega, by omega, by omega, by omega, ?_, ?_, ?_, ?_, ?_, ?_, by omega, by omega⟩
  · intro hz
    refine ⟨0, by simp [lower0, hz], ?_⟩
    simp only [Nat.add_sub_cancel, Nat.mul_one]; omega
  · intro hz
    simp only [lower0, hz, ↓reduceIte, Nat.add_sub_cancel, Nat.mul_one]; omega
  · simp only [Nat.add_sub_cancel]; omega
  · simp only [Nat.add_sub_cancel, Nat.mul_one]; omega
  · exact unit_bound cfg hfits hlf _ (by omega)
  · exact unit_bound cfg hfits hlf _ (by omega)

/-- over the minor axis: `m` vectors of `M` elements, `m` apart -/
theorem mvalid_minor (cfg : Cfg) (M m : Nat) (hlen : cfg.len = M * m) (h0 : cfg.len ≠ 0)
    (hfits : cfg.base + cfg.len * cfg.es ≤ usizeMax) (hlf : cfg.len ≤ usizeMax) :
    MValid cfg (lower0 cfg) 1 m m M := by
  have hM : M ≠ 0 := by intro h; subst h; simp at hlen; exact h0 hlen
  have hm : m ≠ 0 := by intro h; subst h; simp at hlen; exact h0 hlen
  obtain ⟨M', rfl⟩ := Nat.exists_eq_succ_of_ne_zero hM
  obtain ⟨m', rfl⟩ := Nat.exists_eq_succ_of_ne_zero hm
  simp only [Nat.succ_eq_add_one] at *
  have hexp : cfg.len = M' * (m' + 1) + (m' + 1) := by rw [hlen, Nat.add_mul]; simp
  have hMle : M' ≤ M' * (m' + 1) := Nat.le_mul_of_pos_right _ (by omega)
  refine ⟨by omega, by omega, by omega, by omega, ?_, ?_, ?_, ?_, ?_, ?_, by omega, by omega⟩
  · intro hz
    refine ⟨0, by simp [lower0, hz], ?_⟩
    simp only [Nat.add_sub_cancel, Nat.mul_one]; omega
  · intro hz
    simp only [lower0, hz, ↓reduceIte, Nat.add_sub_cancel, Nat.mul_one]; omega
  · simp only [Nat.add_sub_cancel, Nat.mul_one]; omega
  · simp only [Nat.add_sub_cancel]; omega
  · exact unit_bound cfg hfits hlf _ (by omega)
  · exact unit_bound cfg hfits hlf _ (by omega)

theorem nonZero_ok {x : Nat} (h : x ≠ 0) : nonZero x = .ok x := by simp [nonZero, h]

theorem overMajor_ok (cfg : Cfg) (sh : AxisShape) (hlen : cfg.len = sh.major * sh.minor)
    (hfits : cfg.base + cfg.len * cfg.es ≤ usizeMax) (hlf : cfg.len ≤ usizeMax) :
    ∃ it, Vecs.overMajor cfg sh = .ok it ∧ RV cfg (lower0 cfg) sh.minor sh.major 1 sh.minor it 0 0 := by
  unfold Vecs.overMajor
  by_cases h0 : cfg.len = 0
  · simp only [h0, ↓reduceIte]
    refine ⟨_, rfl, Or.inr ⟨rfl, by omega, rfl, ?_⟩⟩
    intro hpos
    rw [h0] at hlen
    rcases Nat.mul_eq_zero.mp hlen.symm with h | h <;> omega
  · have hv := mvalid_major cfg sh.major sh.minor hlen h0 hfits hlf
    obtain ⟨it, h1, h2⟩ := vecs_assemble_RV cfg _ _ _ _ hv
    have n1 : nonZero sh.minor = .ok sh.minor := nonZero_ok (by have := hv.hAS; omega)
    have n2 : nonZero sh.major = .ok sh.major := nonZero_ok (by have := hv.hAL; omega)
    have n3 : nonZero 1 = .ok 1 := nonZero_ok (by omega)
    simp only [h0, ↓reduceIte, n1, n2, n3, bind, Except.bind]
    exact ⟨it, h1, h2⟩

theorem overMinor_ok (cfg : Cfg) (sh : AxisShape) (hlen : cfg.len = sh.major * sh.minor)
    (hfits : cfg.base + cfg.len * cfg.es ≤ usizeMax) (hlf : cfg.len ≤ usizeMax) :
    ∃ it, Vecs.overMinor cfg sh = .ok it ∧ RV cfg (lower0 cfg) 1 sh.minor sh.minor sh.major it 0 0 := by
  unfold Vecs.overMinor
  by_cases h0 : cfg.len = 0
  · simp only [h0, ↓reduceIte]
    refine ⟨_, rfl, Or.inr ⟨rfl, by omega, rfl, ?_⟩⟩
    intro hpos
    rw [h0] at hlen
    rcases Nat.mul_eq_zero.mp hlen.symm with h | h <;> omega
  · have hv := mvalid_minor cfg sh.major sh.minor hlen h0 hfits hlf
    obtain ⟨it, h1, h2⟩ := vecs_assemble_RV cfg _ _ _ _ hv
    have n1 : nonZero sh.minor = .ok sh.minor := nonZero_ok (by have := hv.hAL; omega)
    have n2 : nonZero sh.major = .ok sh.major := nonZero_ok (by have := hv.hVL; omega)
    have n3 : nonZero 1 = .ok 1 := nonZero_ok (by omega)
    simp only [h0, ↓reduceIte, n1, n2, n3, bind, Except.bind]
    exact ⟨it, h1, h2⟩

/-- the reference handed out for position `t` of vector `k` -/
theorem Y_eq (cfg : Cfg) (AS VS k t : Nat) :
    Y cfg (A cfg (lower0 cfg) AS k) VS t =
      if cfg.es = 0 then cfg.dangling else cfg.base + (k * AS + t * VS) * cfg.es := by
  unfold Y
  split
  · rfl
  · rename_i hz
    simp [A, lower0, hz, Nat.add_mul, Nat.add_assoc]

/-! ### lists related index by index -/

def Rel2 {α β : Type} (P : α → β → Prop) (xs : List α) (ys : List β) : Prop :=
  xs.length = ys.length ∧ ∀ (i : Nat) x y, xs[i]? = some x → ys[i]? = some y → P x y

theorem Rel2.nil {α β : Type} (P : α → β → Prop) : Rel2 P [] [] := ⟨rfl, by simp⟩

theorem Rel2.snoc {α β : Type} {P : α → β → Prop} {xs : List α} {ys : List β} (h : Rel2 P xs ys)
    {x : α} {y : β} (hxy : P x y) : Rel2 P (xs ++ [x]) (ys ++ [y]) := by
  obtain ⟨hl, hp⟩ := h
  refine ⟨by simp [hl], ?_⟩
  intro i a b ha hb
  rw [List.getElem?_append] at ha hb
  by_cases hi : i < xs.length
  · have hi' : i < ys.length := by omega
    simp only [hi, hi', ↓reduceIte] at ha hb
    exact hp i a b ha hb
  · have hi' : ¬ i < ys.length := by omega
    simp only [hi, hi', ↓reduceIte] at ha hb
    by_cases h0 : i - xs.length = 0
    · have h0' : i - ys.length = 0 := by omega
      simp only [h0, h0', List.getElem?_cons_zero, Option.some.injEq] at ha hb
      subst ha; subst hb; exact hxy
    · obtain ⟨j, hj⟩ := Nat.exists_eq_succ_of_ne_zero h0
      simp [hj] at ha

theorem Rel2.set {α β : Type} {P : α → β → Prop} {xs : List α} {ys : List β} (h : Rel2 P xs ys)
    (i : Nat) {x : α} {y : β} (hxy : P x y) : Rel2 P (xs.set i x) (ys.set i y) := by
  obtain ⟨hl, hp⟩ := h
  refine ⟨by simp [hl], ?_⟩
  intro j a b ha hb
  rw [List.getElem?_set] at ha hb
  by_cases hij : i = j
  · subst hij
    simp only [↓reduceIte] at ha hb
    split at ha
    · split at hb
      · cases ha; cases hb; exact hxy
      · cases hb
    · cases ha
  · simp only [hij, ↓reduceIte] at ha hb
    exact hp j a b ha hb

theorem set_self_of_getElem? {α : Type} {l : List α} {i : Nat} {y : α} (h : l[i]? = some y) :
    l.set i y = l := by
  apply List.ext_getElem?
  intro j
  rw [List.getElem?_set]
  by_cases hij : i = j
  · subst hij
    have : i < l.length := by
      rcases Nat.lt_or_ge i l.length with h' | h'
      · exact h'
      · rw [List.getElem?_eq_none h'] at h; cases h
    simp only [↓reduceIte, this, h]
  · simp [hij]

theorem Rel2.set_left {α β : Type} {P : α → β → Prop} {xs : List α} {ys : List β} (h : Rel2 P xs ys)
    (i : Nat) {x : α} {y : β} (hy : ys[i]? = some y) (hxy : P x y) : Rel2 P (xs.set i x) ys := by
  have := h.set i hxy
  rwa [set_self_of_getElem? hy] at this

theorem Rel2.get {α β : Type} {P : α → β → Prop} {xs : List α} {ys : List β} (h : Rel2 P xs ys)
    (i : Nat) : (xs[i]? = none ∧ ys[i]? = none) ∨ ∃ x y, xs[i]? = some x ∧ ys[i]? = some y ∧ P x y := by
  obtain ⟨hl, hp⟩ := h
  by_cases hi : i < xs.length
  · have hi' : i < ys.length := by omega
    right
    refine ⟨xs[i], ys[i], List.getElem?_eq_getElem hi, List.getElem?_eq_getElem hi', ?_⟩
    exact hp i _ _ (List.getElem?_eq_getElem hi) (List.getElem?_eq_getElem hi')
  · have hi' : ¬ i < ys.length := by omega
    left
    exact ⟨List.getElem?_eq_none (by omega), List.getElem?_eq_none (by omega)⟩

theorem lt_of_getElem?_eq_some {α : Type} {l : List α} {i : Nat} {y : α} (h : l[i]? = some y) :
    i < l.length := by
  rcases Nat.lt_or_ge i l.length with h' | h'
  · exact h'
  · rw [List.getElem?_eq_none h'] at h; cases h

theorem getElem?_set_eq_some {α : Type} {l : List α} {i j : Nat} {x y : α} :
    (l.set i x)[j]? = some y ↔ (j = i ∧ i < l.length ∧ y = x) ∨ (j ≠ i ∧ l[j]? = some y) := by
  rw [List.getElem?_set]
  grind

theorem getElem?_snoc_eq_some {α : Type} {l : List α} {j : Nat} {x y : α} :
    (l ++ [x])[j]? = some y ↔ l[j]? = some y ∨ (j = l.length ∧ y = x) := by
  grind

end Matreex.IterMut
