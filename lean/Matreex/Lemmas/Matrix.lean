/-
Basic facts about `Matrix`: in-bounds coordinates resolve to in-range, pairwise distinct offsets
(C01's "every in-bounds (row, col) resolves to its own distinct live element"), extensionality of
the logical view, and the cross-order remap used by `eq.rs` / `arithmetic.rs`.
-/
import Matreex.Model.Matrix
import Matreex.Lemmas.Arith

namespace Matreex
variable {α : Type}

theorem Matrix.idx_rowMajor (m : Matrix α) (h : m.order = .rowMajor) (r c : Nat) :
    m.idx r c = r * m.shape.minor + c := by
  simp [Matrix.idx, Index.flat, AxisIndex.flat, AxisIndex.ofIndex, h]

theorem Matrix.idx_colMajor (m : Matrix α) (h : m.order = .colMajor) (r c : Nat) :
    m.idx r c = c * m.shape.minor + r := by
  simp [Matrix.idx, Index.flat, AxisIndex.flat, AxisIndex.ofIndex, h]

theorem Matrix.idx_lt (m : Matrix α) (h : m.Coh) {r c : Nat} (hr : r < m.nrows) (hc : c < m.ncols) :
    m.idx r c < m.data.size := by
  rw [← h.size_eq]
  obtain ⟨o, sh, d⟩ := m
  cases o <;>
    simp only [Matrix.idx, Index.flat, AxisIndex.flat, AxisIndex.ofIndex, Matrix.nrows, Matrix.ncols,
      AxisShape.nrows, AxisShape.ncols] at *
  · exact flat_lt hr hc
  · exact flat_lt hc hr

theorem Matrix.idx_inj (m : Matrix α) {r c r' c' : Nat} (hr : r < m.nrows) (hc : c < m.ncols)
    (hr' : r' < m.nrows) (hc' : c' < m.ncols) (h : m.idx r c = m.idx r' c') : r = r' ∧ c = c' := by
  obtain ⟨o, sh, d⟩ := m
  cases o <;>
    simp only [Matrix.idx, Index.flat, AxisIndex.flat, AxisIndex.ofIndex, Matrix.nrows, Matrix.ncols,
      AxisShape.nrows, AxisShape.ncols] at *
  · exact flat_inj hc hc' h
  · have := flat_inj hr hr' h; exact ⟨this.2, this.1⟩

theorem Matrix.at?_eq_some (m : Matrix α) (h : m.Coh) {r c : Nat} (hr : r < m.nrows)
    (hc : c < m.ncols) : m.at? r c = some (m.data[m.idx r c]'(m.idx_lt h hr hc)) := by
  have := m.idx_lt h hr hc
  simp [Matrix.at?, hr, hc, this]

theorem Matrix.nrows_mul_ncols (m : Matrix α) (h : m.Coh) : m.nrows * m.ncols = m.data.size := by
  rw [← h.size_eq]
  obtain ⟨o, sh, d⟩ := m
  cases o <;> simp [Matrix.nrows, Matrix.ncols, AxisShape.nrows, AxisShape.ncols, Nat.mul_comm]

theorem Matrix.abs_ext (m m' : Matrix α) (hr : m.nrows = m'.nrows) (hc : m.ncols = m'.ncols)
    (h : ∀ r c, r < m.nrows → c < m.ncols → m.at? r c = m'.at? r c) : m.abs = m'.abs := by
  unfold Matrix.abs
  rw [← hr, ← hc]
  congr 1
  apply List.map_congr_left
  intro r hr'
  apply List.map_congr_left
  intro c hc'
  exact h r c (List.mem_range.mp hr') (List.mem_range.mp hc')

/-- `AxisIndex::from_flattened(k, self.shape).swap().to_flattened(other.shape)` -/
def remap (selfShape otherShape : AxisShape) (k : Nat) : Nat :=
  ((AxisIndex.ofFlat k selfShape).swap).flat otherShape

theorem remap_eq (a b : AxisShape) (k : Nat) : remap a b k = (k % a.minor) * b.minor + k / a.minor := rfl

/-- For operands of different orders with equal logical shapes, position `k` of `a` and position
`remap k` of `b` are the same logical coordinate, and `remap k` is in bounds. -/
theorem remap_spec (a b : Matrix α) (ha : a.Coh) (hb : b.Coh) (ho : a.order ≠ b.order)
    (hM : a.shape.major = b.shape.minor) (hm : a.shape.minor = b.shape.major)
    (k : Nat) (hk : k < a.data.size) :
    ∃ r c, r < a.nrows ∧ c < a.ncols ∧ r < b.nrows ∧ c < b.ncols ∧
      a.idx r c = k ∧ b.idx r c = remap a.shape b.shape k ∧ remap a.shape b.shape k < b.data.size := by
  rw [← ha.size_eq] at hk
  obtain ⟨h1, h2⟩ := unflat_lt hk
  have hfu := flat_unflat a.shape.minor k
  have hb' : remap a.shape b.shape k < b.data.size := by
    rw [← hb.size_eq, remap_eq]
    exact flat_lt (by omega) (by omega)
  obtain ⟨oa, sa, da⟩ := a
  obtain ⟨ob, sb, db⟩ := b
  cases oa <;> cases ob
  · exact absurd rfl ho
  · refine ⟨k / sa.minor, k % sa.minor, ?_⟩
    simp only [Matrix.nrows, Matrix.ncols, Matrix.idx, Index.flat, AxisIndex.flat, AxisIndex.ofIndex,
      AxisShape.nrows, AxisShape.ncols, remap_eq] at *
    exact ⟨h1, h2, by omega, by omega, hfu, trivial, hb'⟩
  · refine ⟨k % sa.minor, k / sa.minor, ?_⟩
    simp only [Matrix.nrows, Matrix.ncols, Matrix.idx, Index.flat, AxisIndex.flat, AxisIndex.ofIndex,
      AxisShape.nrows, AxisShape.ncols, remap_eq] at *
    exact ⟨h2, h1, by omega, by omega, hfu, trivial, hb'⟩
  · exact absurd rfl ho

end Matreex
