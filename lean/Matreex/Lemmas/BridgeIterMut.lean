/-
Bridge for the mutable iterators of src/iter/iter_mut.rs: the functions regenerated from the source
on every run (`Gen/IterMutGen.lean`, translator T4; written with the pointer primitives of
`Model/PtrPrims.lean`) compute exactly what the hand-written state machines of `Model/IterMut.lean`
compute — same result, same final state, same faults.  The C03 theorems are about the model
functions; through these equations they are about the source text of the methods.

Side conditions (stated as hypotheses, nothing else is assumed):
* zero-sized element types: the source re-checks `NonNull::new_unchecked(addr + n) ≠ null` after a
  forward step, the model's `advance` does not.  The two agree when the pointer that is moved
  forward is not the null address: `cfg.es = 0 → 0 < lower` (only asked for when the iterator is
  not exhausted).  The model's reachable states satisfy it (`*_bridge_R` / `*_bridge_RV` below):
  counters of zero-sized types start at address 1.
* `over_major_axis` / `over_minor_axis`: `NonNull::new_unchecked(matrix.data.as_mut_ptr())` is
  undefined behaviour for a null buffer pointer; the model does not look at it.  Hypothesis:
  `cfg.len ≠ 0 → cfg.base ≠ 0` (a `Vec`'s pointer is never null).

The proofs do not mention generated temporaries: each one unfolds the two definitions, splits on
the facts the source tests (`size_of::<T>() == 0`, `lower == upper`, the `Option` discriminant) and
normalises both sides with the monad laws (`norm_m`), after which they are syntactically equal.
-/
import Matreex.Gen.IterMutGen
import Matreex.Model.PtrPrims
import Matreex.Lemmas.IterMut

set_option linter.unusedSimpArgs false

namespace Matreex.BridgeIterMut
open Matreex Matreex.IterMut

variable {α β : Type}

theorem ok_eq_pure (a : α) : (Except.ok a : M α) = pure a := rfl

/-- `0 == size_of::<T>()` is `size_of::<T>() == 0` -/
theorem zero_eq_es (cfg : Cfg) : (0 = cfg.es) = (cfg.es = 0) := propext eq_comm

theorem advance_zst (cfg : Cfg) (p n : Nat) (hes : cfg.es = 0) (h : p + n ≠ 0) :
    advance cfg p n = uadd p n >>= newUnchecked := by
  by_cases hle : p + n ≤ usizeMax
  · simp only [uadd, newUnchecked, advance, hes, hle, if_true, bind, Except.bind, if_neg h]
  · simp only [uadd, advance, hes, hle, if_true, if_false, bind, Except.bind]

theorem advance_sized (cfg : Cfg) (p n : Nat) (hes : cfg.es ≠ 0) : advance cfg p n = ptrAdd cfg p n := by
  simp [ptrAdd, advance, hes]

theorem retreat_zst (cfg : Cfg) (p n : Nat) (hes : cfg.es = 0) :
    retreat cfg p n = usub p n >>= newUnchecked := by
  simp only [usub, newUnchecked, retreat, hes, if_true, bind, Except.bind]
  by_cases h1 : n < p
  · have : n ≤ p := by omega
    have : p - n ≠ 0 := by omega
    simp [*]
  · by_cases h2 : n = p
    · subst h2; simp
    · have : ¬ n ≤ p := by omega
      simp [*]

theorem retreat_sized (cfg : Cfg) (p n : Nat) (hes : cfg.es ≠ 0) : retreat cfg p n = ptrSub cfg p n := by
  simp [ptrSub, retreat, hes]

theorem deref_zst (cfg : Cfg) (p : Nat) (hes : cfg.es = 0) : deref cfg p = danglingAsMut cfg := by
  simp [danglingAsMut, deref, hes]

theorem deref_sized (cfg : Cfg) (p : Nat) (hes : cfg.es ≠ 0) : deref cfg p = asMut cfg p := by
  simp [asMut, deref, hes]

open Lean.Parser.Tactic in
/-- normal form of a term of the monad `M`: `let`s inlined, binds right-nested, `pure` eliminated,
conditions decided by the given facts -/
macro "norm_m" "[" xs:simpLemma,* "]" : tactic =>
  `(tactic| simp only [ok_eq_pure, zero_eq_es, bind_assoc, pure_bind, bind_pure, decide_eq_true_eq, ne_eq, if_true, if_false,
      not_true_eq_false, not_false_eq_true, Bool.and_eq_true, Bool.or_eq_true, Bool.not_eq_true',
      decide_eq_false_iff_not, and_true, true_and, and_false, false_and, or_true, true_or, or_false, false_or,
      $xs,*])

/-! ### inner iterator `IterNthVectorMut` -/

theorem nth_empty_bridge (cfg : Cfg) : Gen.IterMut.Nth.empty cfg = pure (Nth.empty cfg) := by
  unfold Gen.IterMut.Nth.empty Nth.empty
  norm_m []

theorem nth_assemble_bridge (cfg : Cfg) (lower stride length : Nat) (hz : cfg.es = 0 → 0 < lower) :
    Gen.IterMut.Nth.assemble cfg lower stride length = Nth.assemble cfg lower stride length := by
  unfold Gen.IterMut.Nth.assemble Nth.assemble
  by_cases hes : cfg.es = 0
  · have h0 : ∀ n, lower + n ≠ 0 := fun n => by have := hz hes; omega
    norm_m [eq_true hes, advance_zst cfg lower _ hes (h0 _)]
  · norm_m [eq_false hes, advance_sized cfg _ _ hes]

theorem nth_next_bridge (cfg : Cfg) (it : Nth) (hz : cfg.es = 0 → it.stride ≠ none → 0 < it.lower) :
    Gen.IterMut.Nth.next cfg it = Nth.next cfg it := by
  unfold Gen.IterMut.Nth.next Nth.next
  have hsym : (it.upper = it.lower) = (it.lower = it.upper) := propext eq_comm
  cases hs : it.stride with
  | none => rfl
  | some s =>
    by_cases hes : cfg.es = 0
    · have h0 : ∀ n, it.lower + n ≠ 0 := fun n => by have := hz hes (by simp [hs]); omega
      by_cases heq : it.lower = it.upper
      · norm_m [hsym, eq_true heq, eq_true hes, deref_zst cfg _ hes, advance_zst cfg it.lower _ hes (h0 _)]
      · norm_m [hsym, eq_false heq, eq_true hes, deref_zst cfg _ hes, advance_zst cfg it.lower _ hes (h0 _)]
    · by_cases heq : it.lower = it.upper
      · norm_m [hsym, eq_true heq, eq_false hes, deref_sized cfg _ hes, advance_sized cfg _ _ hes]
      · norm_m [hsym, eq_false heq, eq_false hes, deref_sized cfg _ hes, advance_sized cfg _ _ hes]

theorem nth_nextBack_bridge (cfg : Cfg) (it : Nth) :
    Gen.IterMut.Nth.nextBack cfg it = Nth.nextBack cfg it := by
  unfold Gen.IterMut.Nth.nextBack Nth.nextBack
  have hsym : (it.upper = it.lower) = (it.lower = it.upper) := propext eq_comm
  cases it.stride with
  | none => rfl
  | some s =>
    by_cases hes : cfg.es = 0
    · by_cases heq : it.lower = it.upper
      · norm_m [hsym, eq_true heq, eq_true hes, deref_zst cfg _ hes, retreat_zst cfg _ _ hes]
      · norm_m [hsym, eq_false heq, eq_true hes, deref_zst cfg _ hes, retreat_zst cfg _ _ hes]
    · by_cases heq : it.lower = it.upper
      · norm_m [hsym, eq_true heq, eq_false hes, deref_sized cfg _ hes, retreat_sized cfg _ _ hes]
      · norm_m [hsym, eq_false heq, eq_false hes, deref_sized cfg _ hes, retreat_sized cfg _ _ hes]

/-- `size_hint()` is `(len, Some(len))` for the model's `len` -/
theorem nth_sizeHint_bridge (cfg : Cfg) (it : Nth) :
    Gen.IterMut.Nth.sizeHint cfg it = Nth.len cfg it >>= fun n => pure (n, some n) := by
  unfold Gen.IterMut.Nth.sizeHint Nth.len lenOf
  cases it.stride with
  | none => norm_m []
  | some s =>
    by_cases hes : cfg.es = 0
    · norm_m [eq_true hes]
    · norm_m [eq_false hes]

theorem nth_len_bridge (cfg : Cfg) (it : Nth) : Gen.IterMut.Nth.len cfg it = Nth.len cfg it := by
  unfold Gen.IterMut.Nth.len
  norm_m [nth_sizeHint_bridge]

/-! ### outer iterator `IterVectorsMut` -/

theorem vecs_empty_bridge (cfg : Cfg) (n : Nat) : Gen.IterMut.Vecs.empty cfg n = pure (Vecs.empty cfg n) := by
  unfold Gen.IterMut.Vecs.empty Vecs.empty
  norm_m []

theorem vecs_nextEmpty_bridge (cfg : Cfg) (it : Vecs) :
    Gen.IterMut.Vecs.nextEmpty cfg it = pure (it.nextEmpty cfg) := by
  unfold Gen.IterMut.Vecs.nextEmpty Vecs.nextEmpty checkedSub
  by_cases h : it.emptyVectors = 0
  · have h1 : ¬ 1 ≤ it.emptyVectors := by omega
    norm_m [eq_true h, eq_false h1]
  · have h1 : 1 ≤ it.emptyVectors := by omega
    norm_m [eq_false h, eq_true h1, nth_empty_bridge]

/-- `buffer` is the buffer of the configuration (it is not looked at for zero-sized types) -/
theorem vecs_assemble_bridge (cfg : Cfg) (buffer axisStride axisLength vectorStride vectorLength : Nat)
    (hb : cfg.es ≠ 0 → buffer = cfg.base) :
    Gen.IterMut.Vecs.assemble cfg buffer axisStride axisLength vectorStride vectorLength =
      Vecs.assemble cfg axisStride axisLength vectorStride vectorLength := by
  unfold Gen.IterMut.Vecs.assemble Vecs.assemble
  by_cases hes : cfg.es = 0
  · have h0 : ∀ n, 1 + n ≠ 0 := fun n => by omega
    have h1 : newUnchecked 1 = pure 1 := rfl
    norm_m [eq_true hes, h1, advance_zst cfg 1 _ hes (h0 _)]
  · norm_m [eq_false hes, hb hes, advance_sized cfg _ _ hes]

theorem vecs_overMajor_bridge (cfg : Cfg) (sh : AxisShape) (hb : cfg.len ≠ 0 → cfg.base ≠ 0) :
    Gen.IterMut.Vecs.overMajor cfg sh = Vecs.overMajor cfg sh := by
  unfold Gen.IterMut.Vecs.overMajor Vecs.overMajor Gen.AxisShape.major_stride Gen.AxisShape.minor_stride
  by_cases hl : cfg.len = 0
  · norm_m [eq_true hl, vecs_empty_bridge]
  · have h1 : newUnchecked cfg.base = pure cfg.base := by simp only [newUnchecked, if_neg (hb hl)]; rfl
    norm_m [eq_false hl, h1, vecs_assemble_bridge cfg cfg.base _ _ _ _ (fun _ => rfl)]

theorem vecs_overMinor_bridge (cfg : Cfg) (sh : AxisShape) (hb : cfg.len ≠ 0 → cfg.base ≠ 0) :
    Gen.IterMut.Vecs.overMinor cfg sh = Vecs.overMinor cfg sh := by
  unfold Gen.IterMut.Vecs.overMinor Vecs.overMinor Gen.AxisShape.major_stride Gen.AxisShape.minor_stride
  by_cases hl : cfg.len = 0
  · norm_m [eq_true hl, vecs_empty_bridge]
  · have h1 : newUnchecked cfg.base = pure cfg.base := by simp only [newUnchecked, if_neg (hb hl)]; rfl
    norm_m [eq_false hl, h1, vecs_assemble_bridge cfg cfg.base _ _ _ _ (fun _ => rfl)]

theorem vecs_next_bridge (cfg : Cfg) (it : Vecs) (hz : cfg.es = 0 → it.layout ≠ none → 0 < it.lower) :
    Gen.IterMut.Vecs.next cfg it = Vecs.next cfg it := by
  unfold Gen.IterMut.Vecs.next Vecs.next
  have hsym : (it.upper = it.lower) = (it.lower = it.upper) := propext eq_comm
  cases hL : it.layout with
  | none => norm_m [vecs_nextEmpty_bridge]
  | some L =>
    have hz' : cfg.es = 0 → 0 < it.lower := fun h => hz h (by simp [hL])
    by_cases hes : cfg.es = 0
    · have h0 : ∀ n, it.lower + n ≠ 0 := fun n => by have := hz' hes; omega
      by_cases heq : it.lower = it.upper
      · norm_m [hsym, eq_true heq, eq_true hes, nth_assemble_bridge cfg it.lower _ _ hz',
          advance_zst cfg it.lower _ hes (h0 _)]
      · norm_m [hsym, eq_false heq, eq_true hes, nth_assemble_bridge cfg it.lower _ _ hz',
          advance_zst cfg it.lower _ hes (h0 _)]
    · by_cases heq : it.lower = it.upper
      · norm_m [hsym, eq_true heq, eq_false hes, nth_assemble_bridge cfg it.lower _ _ hz', advance_sized cfg _ _ hes]
      · norm_m [hsym, eq_false heq, eq_false hes, nth_assemble_bridge cfg it.lower _ _ hz', advance_sized cfg _ _ hes]

theorem vecs_nextBack_bridge (cfg : Cfg) (it : Vecs) (hz : cfg.es = 0 → it.layout ≠ none → 0 < it.upper) :
    Gen.IterMut.Vecs.nextBack cfg it = Vecs.nextBack cfg it := by
  unfold Gen.IterMut.Vecs.nextBack Vecs.nextBack
  have hsym : (it.upper = it.lower) = (it.lower = it.upper) := propext eq_comm
  cases hL : it.layout with
  | none => norm_m [vecs_nextEmpty_bridge]
  | some L =>
    have hz' : cfg.es = 0 → 0 < it.upper := fun h => hz h (by simp [hL])
    by_cases hes : cfg.es = 0
    · by_cases heq : it.lower = it.upper
      · norm_m [hsym, eq_true heq, eq_true hes, nth_assemble_bridge cfg it.upper _ _ hz', retreat_zst cfg _ _ hes]
      · norm_m [hsym, eq_false heq, eq_true hes, nth_assemble_bridge cfg it.upper _ _ hz', retreat_zst cfg _ _ hes]
    · by_cases heq : it.lower = it.upper
      · norm_m [hsym, eq_true heq, eq_false hes, nth_assemble_bridge cfg it.upper _ _ hz', retreat_sized cfg _ _ hes]
      · norm_m [hsym, eq_false heq, eq_false hes, nth_assemble_bridge cfg it.upper _ _ hz', retreat_sized cfg _ _ hes]

/-- `size_hint()` is `(len, Some(len))` for the model's `len` -/
theorem vecs_sizeHint_bridge (cfg : Cfg) (it : Vecs) :
    Gen.IterMut.Vecs.sizeHint cfg it = Vecs.len cfg it >>= fun n => pure (n, some n) := by
  unfold Gen.IterMut.Vecs.sizeHint Vecs.len lenOf
  cases it.layout with
  | none => norm_m []
  | some L =>
    by_cases hes : cfg.es = 0
    · norm_m [eq_true hes]
    · norm_m [eq_false hes]

theorem vecs_len_bridge (cfg : Cfg) (it : Vecs) : Gen.IterMut.Vecs.len cfg it = Vecs.len cfg it := by
  unfold Gen.IterMut.Vecs.len
  norm_m [vecs_sizeHint_bridge]

/-! ### the side conditions hold on the model's reachable states

`R` / `RV` (Lemmas/IterMut.lean) are the refinement relations every state of the model's iterators
satisfies (`assemble_R`, `next_refines`, `vecs_assemble_RV`, `vecs_next_refines`, …). -/

theorem A_pos (cfg : Cfg) (lower0 stride t : Nat) (h : 0 < lower0) : 0 < A cfg lower0 stride t :=
  Nat.lt_of_lt_of_le h (Nat.le_add_right _ _)

theorem nth_assemble_bridge_valid (cfg : Cfg) (lower0 stride length : Nat) (hv : Valid cfg lower0 stride length) :
    Gen.IterMut.Nth.assemble cfg lower0 stride length = Nth.assemble cfg lower0 stride length :=
  nth_assemble_bridge cfg lower0 stride length fun hes => (hv.z hes).1

theorem nth_next_bridge_R (cfg : Cfg) (lower0 stride length : Nat) (it : Nth) (f b : Nat)
    (hv : Valid cfg lower0 stride length) (hr : R cfg lower0 stride length it f b) :
    Gen.IterMut.Nth.next cfg it = Nth.next cfg it := by
  refine nth_next_bridge cfg it fun hes hs => ?_
  rcases hr with ⟨_, _, hl, _⟩ | ⟨_, hn⟩
  · rw [hl]; exact A_pos _ _ _ _ (hv.z hes).1
  · exact absurd hn hs

theorem vecs_next_bridge_RV (cfg : Cfg) (lower0 AS AL VS VL : Nat) (it : Vecs) (F B : Nat)
    (hr : RV cfg lower0 AS AL VS VL it F B) : Gen.IterMut.Vecs.next cfg it = Vecs.next cfg it := by
  refine vecs_next_bridge cfg it fun hes hs => ?_
  rcases hr with ⟨_, _, hl, _, _, hv⟩ | ⟨hn, _⟩
  · rw [hl]; exact A_pos _ _ _ _ (hv.z hes).1
  · exact absurd hn hs

theorem vecs_nextBack_bridge_RV (cfg : Cfg) (lower0 AS AL VS VL : Nat) (it : Vecs) (F B : Nat)
    (hr : RV cfg lower0 AS AL VS VL it F B) : Gen.IterMut.Vecs.nextBack cfg it = Vecs.nextBack cfg it := by
  refine vecs_nextBack_bridge cfg it fun hes hs => ?_
  rcases hr with ⟨_, _, _, hu, _, hv⟩ | ⟨hn, _⟩
  · rw [hu]; exact A_pos _ _ _ _ (hv.z hes).1
  · exact absurd hn hs

end Matreex.BridgeIterMut
