/-
C14, cross-order branch of `overwrite`: loop over destination vectors, each filled by a strided
zip over the source.  
-/
import Matreex.Lemmas.Overwrite

namespace Matreex
variable {α : Type}

theorem zipStrided_size (clone : α → α) (s : Array α) (sk stride n t dl : Nat) (d : Array α) :
    (zipStrided clone s sk stride n t dl d).size = d.size := by
  induction n generalizing t dl d with
  | zero => rfl
  | succ n ih =>
    simp only [zipStrided]
    split
    · rw [ih]; simp
    · rfl

theorem zipStrided_get (clone : α → α) (s : Array α) (sk stride n t dl : Nat) (d : Array α)
    (hd : dl + n ≤ d.size) (hs : ∀ u, u < n → sk + (t + u) * stride < s.size) (k : Nat) :
    (zipStrided clone s sk stride n t dl d)[k]? =
      if dl ≤ k ∧ k < dl + n then (s[sk + (t + (k - dl)) * stride]?).map clone else d[k]? := by
  induction n generalizing t dl d with
  | zero => simp [zipStrided]; intro h; omega
  | succ n ih =>
    simp only [zipStrided]
    have hsl : sk + t * stride < s.size := by
      have := hs 0 (by omega)
      simpa using this
    rw [Array.getElem?_eq_getElem hsl]
    simp only
    have hs' : ∀ u, u < n → sk + (t + 1 + u) * stride < s.size := by
      intro u hu
      have := hs (u + 1) (by omega)
      rw [show t + 1 + u = t + (u + 1) by omega]
      exact this
    rw [ih _ _ _ (by simp; omega) hs']
    rw [Array.getElem?_setIfInBounds]
    by_cases h1 : dl + 1 ≤ k ∧ k < dl + 1 + n
    · have h2 : dl ≤ k ∧ k < dl + (n + 1) := by omega
      simp only [h1, h2, and_self, ↓reduceIte]
      have e : t + 1 + (k - (dl + 1)) = t + (k - dl) := by omega
      rw [e]
    · simp only [h1, ↓reduceIte]
      by_cases h3 : dl = k
      · subst h3
        have : dl < d.size := by omega
        simp [this, Array.getElem?_eq_getElem hsl]
      · have h2 : ¬ (dl ≤ k ∧ k < dl + (n + 1)) := by omega
        simp [h3, h2]

/-- Cross-order loop: rows `i .. i+todo` of the destination get their first `minor` entries from
the *columns* of the source: `d'[r * dm + c] = clone s[c * sm + r]`; no unchecked slice is out of
range, `step_by(0)` is never reached; everything else is untouched. -/
theorem crossLoop_spec (clone : α → α) (dsh ssh : AxisShape) (minor : Nat) (s : Array α)
    (hmd : minor ≤ dsh.minor) (hms : minor ≤ ssh.major) (hs : ssh.major * ssh.minor = s.size) :
    ∀ (todo i : Nat) (d : Array α), dsh.major * dsh.minor = d.size →
      i + todo ≤ dsh.major → i + todo ≤ ssh.minor →
      ∃ d', crossLoop clone dsh ssh minor s todo i d = .ok d' ∧ d'.size = d.size ∧
        ∀ r c, r < dsh.major → c < dsh.minor →
          d'[r * dsh.minor + c]? =
            if i ≤ r ∧ r < i + todo ∧ c < minor then (s[c * ssh.minor + r]?).map clone
            else d[r * dsh.minor + c]? := by
  intro todo
  induction todo with
  | zero =>
    intro i d _ _ _
    refine ⟨d, rfl, rfl, ?_⟩
    intro r c _ _
    have : ¬ (i ≤ r ∧ r < i + 0 ∧ c < minor) := by omega
    rw [if_neg this]
  | succ todo ih =>
    intro i d hd h1 h2
    simp only [crossLoop, Nat.mul_one]
    have hi1 : i < dsh.major := by omega
    have hi2 : i < ssh.minor := by omega
    have hdU : i * dsh.minor + minor ≤ d.size := by rw [← hd]; exact row_le' hi1 _ hmd
    have hsrc : ∀ u, u < minor → i + (0 + u) * ssh.minor < s.size := by
      intro u hu
      rw [← hs, Nat.zero_add, Nat.add_comm]
      exact flat_lt (by omega) hi2
    have hcr : crossRow clone d (i * dsh.minor) (i * dsh.minor + minor) s i ssh.minor
        = .ok (zipStrided clone s i ssh.minor minor 0 (i * dsh.minor) d) := by
      unfold crossRow
      have a1 : i * dsh.minor ≤ i * dsh.minor + minor ∧ i * dsh.minor + minor ≤ d.size := ⟨by omega, hdU⟩
      have a2 : ssh.minor ≠ 0 := by omega
      simp [a1, a2]
    simp only [hcr]
    obtain ⟨d', hrun, hsz, hget⟩ := ih (i + 1) (zipStrided clone s i ssh.minor minor 0 (i * dsh.minor) d)
      (by rw [zipStrided_size]; exact hd) (by omega) (by omega)
    refine ⟨d', hrun, by rw [hsz, zipStrided_size], ?_⟩
    intro r c hr hc
    rw [hget r c hr hc, zipStrided_get clone s i ssh.minor minor 0 _ d hdU hsrc]
    have hwin := in_row_window (m := dsh.minor) (r := r) (c := c) (i := i) (w := minor) hc hmd
    by_cases hrow : r = i ∧ c < minor
    · obtain ⟨rfl, hcm⟩ := hrow
      have w1 : r * dsh.minor ≤ r * dsh.minor + c ∧ r * dsh.minor + c < r * dsh.minor + minor := hwin.mpr ⟨rfl, hcm⟩
      have n1 : ¬ (r + 1 ≤ r ∧ r < r + 1 + todo ∧ c < minor) := by omega
      have n2 : r ≤ r ∧ r < r + (todo + 1) ∧ c < minor := by omega
      have e0 : r * dsh.minor + c - r * dsh.minor = c := by omega
      have e : r + (0 + (r * dsh.minor + c - r * dsh.minor)) * ssh.minor = c * ssh.minor + r := by
        rw [e0, Nat.zero_add, Nat.add_comm]
      rw [if_neg n1, if_pos w1, if_pos n2, e]
    · have w1 : ¬ (i * dsh.minor ≤ r * dsh.minor + c ∧ r * dsh.minor + c < i * dsh.minor + minor) :=
        fun h => hrow (hwin.mp h)
      simp only [w1, ↓reduceIte]
      by_cases hlater : i + 1 ≤ r ∧ r < i + 1 + todo ∧ c < minor
      · have : i ≤ r ∧ r < i + (todo + 1) ∧ c < minor := by omega
        simp [hlater, this]
      · have : ¬ (i ≤ r ∧ r < i + (todo + 1) ∧ c < minor) := by
          intro h; apply hlater
          refine ⟨?_, by omega, h.2.2⟩
          rcases Nat.lt_or_ge i r with h' | h'
          · omega
          · exact absurd ⟨by omega, h.2.2⟩ hrow
        simp [hlater, this]

end Matreex
