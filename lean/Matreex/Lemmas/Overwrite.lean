/-
Lemmas for C14: the same-order branch of `overwrite` (loop over unchecked sub-slices) and the
cross-order branch (strided zip).
-/
import Matreex.Model.Overwrite
import Matreex.Lemmas.Arith

namespace Matreex
variable {α : Type}

theorem row_le' {M m i : Nat} (hi : i < M) (w : Nat) (hw : w ≤ m) : i * m + w ≤ M * m := by
  calc i * m + w ≤ i * m + m := by omega
    _ = (i + 1) * m := by rw [Nat.add_mul]; simp
    _ ≤ M * m := Nat.mul_le_mul_right _ hi

theorem copyRange_size (clone : α → α) (d : Array α) (dl : Nat) (s : Array α) (sl n : Nat) :
    (copyRange clone d dl s sl n).size = d.size := by
  induction n generalizing d dl sl with
  | zero => rfl
  | succ n ih =>
    simp only [copyRange]
    split
    · rw [ih]; simp
    · rfl

theorem copyRange_get (clone : α → α) (d : Array α) (dl : Nat) (s : Array α) (sl n : Nat)
    (hd : dl + n ≤ d.size) (hs : sl + n ≤ s.size) (k : Nat) :
    (copyRange clone d dl s sl n)[k]? =
      if dl ≤ k ∧ k < dl + n then (s[sl + (k - dl)]?).map clone else d[k]? := by
  induction n generalizing d dl sl with
  | zero => simp [copyRange]; intro h; omega
  | succ n ih =>
    simp only [copyRange]
    have hsl : sl < s.size := by omega
    rw [Array.getElem?_eq_getElem hsl]
    simp only
    rw [ih _ _ _ (by simp; omega) (by omega)]
    rw [Array.getElem?_setIfInBounds]
    by_cases h1 : dl + 1 ≤ k ∧ k < dl + 1 + n
    · have h2 : dl ≤ k ∧ k < dl + (n + 1) := by omega
      simp only [h1, h2, and_self, ↓reduceIte]
      congr 2; omega
    · simp only [h1, ↓reduceIte]
      by_cases h3 : dl = k
      · subst h3
        have : dl < d.size := by omega
        simp [this, Array.getElem?_eq_getElem hsl]
      · have h2 : ¬ (dl ≤ k ∧ k < dl + (n + 1)) := by omega
        simp [h3, h2]

/-- position `r*m + c` lies in the window `[i*m, i*m + w)` of row `i` iff `r = i ∧ c < w` -/
theorem in_row_window {m r c i w : Nat} (hc : c < m) (hw : w ≤ m) :
    (i * m ≤ r * m + c ∧ r * m + c < i * m + w) ↔ (r = i ∧ c < w) := by
  constructor
  · rintro ⟨h1, h2⟩
    have hr : r = i := by
      rcases Nat.lt_trichotomy r i with h | h | h
      · have : (r + 1) * m ≤ i * m := Nat.mul_le_mul_right _ h
        rw [Nat.add_mul] at this; omega
      · exact h
      · have : (i + 1) * m ≤ r * m := Nat.mul_le_mul_right _ h
        rw [Nat.add_mul] at this; omega
    subst hr
    exact ⟨rfl, by omega⟩
  · rintro ⟨rfl, h⟩
    omega

/-- loop invariant ⇒ result: rows `i .. i+todo` get their first `minor` entries from the source -/
theorem rowsLoop_spec (clone : α → α) (dsh ssh : AxisShape) (minor : Nat) (s : Array α)
    (hmd : minor ≤ dsh.minor) (hms : minor ≤ ssh.minor) (hs : ssh.major * ssh.minor = s.size) :
    ∀ (todo i : Nat) (d : Array α), dsh.major * dsh.minor = d.size →
      i + todo ≤ dsh.major → i + todo ≤ ssh.major →
      ∃ d', rowsLoop clone dsh ssh minor s todo i d = .ok d' ∧ d'.size = d.size ∧
        ∀ r c, r < dsh.major → c < dsh.minor →
          d'[r * dsh.minor + c]? =
            if i ≤ r ∧ r < i + todo ∧ c < minor then (s[r * ssh.minor + c]?).map clone
            else d[r * dsh.minor + c]? := by
  intro todo
  induction todo with
  | zero =>
    intro i d _ _ _
    refine ⟨d, rfl, rfl, ?_⟩
    intro r c _ _
    have : ¬ (i ≤ r ∧ r < i + 0 ∧ c < minor) := by omega
    rw [if_neg this]
  | succ todo ih =>
    intro i d hd h1 h2
    simp only [rowsLoop, Nat.mul_one]
    have hi1 : i < dsh.major := by omega
    have hi2 : i < ssh.major := by omega
    have hdU : i * dsh.minor + minor ≤ d.size := by rw [← hd]; exact row_le' hi1 _ hmd
    have hsU : i * ssh.minor + minor ≤ s.size := by rw [← hs]; exact row_le' hi2 _ hms
    have hcf : cloneFromSlice clone d (i * dsh.minor) (i * dsh.minor + minor) s (i * ssh.minor) (i * ssh.minor + minor)
        = .ok (copyRange clone d (i * dsh.minor) s (i * ssh.minor) minor) := by
      unfold cloneFromSlice
      have a1 : i * dsh.minor ≤ i * dsh.minor + minor ∧ i * dsh.minor + minor ≤ d.size := ⟨by omega, hdU⟩
      have a2 : i * ssh.minor ≤ i * ssh.minor + minor ∧ i * ssh.minor + minor ≤ s.size := ⟨by omega, hsU⟩
      simp [a1, a2]
    simp only [hcf]
    obtain ⟨d', hrun, hsz, hget⟩ := ih (i + 1) (copyRange clone d (i * dsh.minor) s (i * ssh.minor) minor)
      (by rw [copyRange_size]; exact hd) (by omega) (by omega)
    refine ⟨d', hrun, by rw [hsz, copyRange_size], ?_⟩
    intro r c hr hc
    rw [hget r c hr hc, copyRange_get clone d _ s _ minor hdU hsU]
    have hwin := in_row_window (m := dsh.minor) (r := r) (c := c) (i := i) (w := minor) hc hmd
    by_cases hrow : r = i ∧ c < minor
    · obtain ⟨rfl, hcm⟩ := hrow
      have w1 : r * dsh.minor ≤ r * dsh.minor + c ∧ r * dsh.minor + c < r * dsh.minor + minor := hwin.mpr ⟨rfl, hcm⟩
      have n1 : ¬ (r + 1 ≤ r ∧ r < r + 1 + todo ∧ c < minor) := by omega
      have n2 : r ≤ r ∧ r < r + (todo + 1) ∧ c < minor := by omega
      have e : r * ssh.minor + (r * dsh.minor + c - r * dsh.minor) = r * ssh.minor + c := by omega
      rw [if_neg n1, if_pos w1, if_pos n2, e]
    · have w1 : ¬ (i * dsh.minor ≤ r * dsh.minor + c ∧ r * dsh.minor + c < i * dsh.minor + minor) :=
        fun h => hrow (hwin.mp h)
      simp only [w1, ↓reduceIte]
      by_cases hlater : i + 1 ≤ r ∧ r < i + 1 + todo ∧ c < minor
      · have : i ≤ r ∧ r < i + (todo + 1) ∧ c < minor := by omega
        simp [hlater, this]
      · have : ¬ (i ≤ r ∧ r < i + (todo + 1) ∧ c < minor) := by
          intro h; apply hlater
          refine ⟨?_, by omega, h.2.2⟩
          rcases Nat.lt_or_ge i r with h' | h'
          · omega
          · exact absurd ⟨by omega, h.2.2⟩ hrow
        simp [hlater, this]


end Matreex
