/-
The C08 / C09 statements about the constructors and `reshape`, transported through the T8 bridge
(`Lemmas/BridgeT8.lean`) to the functions regenerated from the source text (`Gen/T8Gen.lean`).
-/
import Matreex.Lemmas.BridgeT8
import Matreex.Props.C08
import Matreex.Props.C09

namespace Matreex.BridgeT8
open Matreex
variable {α : Type}

/-- C08 for the source text of `with_value`: the three-way decision, never a panic -/
theorem with_value_source (es r c : Nat) (v : α) :
    Gen.Matrix.with_value es ⟨r, c⟩ v = .ok (
      if r * c > usizeMax then .error .sizeOverflow
      else if es * (r * c) > isizeMax then .error .capacityOverflow
      else .ok ⟨.rowMajor, ⟨r, c⟩, Array.replicate (r * c) v⟩) := by
  rw [with_value_bridge]; exact C08.withValue_spec es r c v

/-- C08 for the source text of `with_default` -/
theorem with_default_source (es r c : Nat) (dflt : α) :
    Gen.Matrix.with_default es ⟨r, c⟩ dflt = .ok (
      if r * c > usizeMax then .error .sizeOverflow
      else if es * (r * c) > isizeMax then .error .capacityOverflow
      else .ok ⟨.rowMajor, ⟨r, c⟩, Array.replicate (r * c) dflt⟩) := by
  rw [with_default_bridge, C08.withDefault_spec]; exact C08.withValue_spec es r c dflt

/-- C08 for the source text of `with_initializer`: same decision, no panic inside the loop -/
theorem with_initializer_source (es r c : Nat) (f : Index → α) :
    ∃ d, Gen.Matrix.with_initializer es ⟨r, c⟩ f = .ok (
      if r * c > usizeMax then .error .sizeOverflow
      else if es * (r * c) > isizeMax then .error .capacityOverflow
      else .ok ⟨.rowMajor, ⟨r, c⟩, d⟩) ∧
      (r * c ≤ usizeMax → es * (r * c) ≤ isizeMax → d.size = r * c) := by
  rw [with_initializer_bridge]; exact C08.withInitializer_decision es r c f

/-- C08 / C09 for the source text of `reshape`: success exactly on equal size; otherwise
`SizeMismatch` with the header as it was; never a panic -/
theorem reshape_source (m : Matrix α) (hfit : m.data.size ≤ usizeMax) (r c : Nat) :
    Gen.Matrix.reshape m.hdr m.data.size ⟨r, c⟩ = .ok (
      if r * c = m.data.size then (.ok (), ⟨m.order, (Shape.mk r c).toAxis m.order⟩)
      else (.error .sizeMismatch, m.hdr)) := by
  rw [reshape_bridge, C08.reshape_decision m hfit]
  by_cases h : r * c = m.data.size <;> simp [h, Except.map, Matrix.hdr]

end Matreex.BridgeT8
