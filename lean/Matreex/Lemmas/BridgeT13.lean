/-
Bridge for the row-wise conversions of src/convert.rs: `Matrix::from_row` / `from_col`, the infallible
`From<[[T; C]; R]>` / `From<Vec<[T; C]>>` / `From<&[[T; C]]>`, the three `TryFrom` conversions from sequences
of vectors, `FromIterator`, and `Matrix::new` of src/construct.rs (which `from_iter` returns for zero rows).
The functions regenerated from the source on every run (`Gen/T13Gen.lean`, translator T13) compute exactly
what the hand-written model functions of `Model/Convert.lean` compute — same matrix, same `Err`, same fault
(the capacity-overflow panic of the allocation, the `LengthInconsistent` panic of `from_iter`, the overflow
panic of its checked `-` / `+=`).  The C19 theorems (`tryFromRows_spec`, `fromIter_spec`, `fromArrays_spec`,
`fromRow_spec`, …) are about the model functions; through these equations they are about the source text.

Hypotheses: none, except for the two conversions whose number of rows is a const generic of the ARRAY type
(`[[T; C]; R]`, `[Vec<T>; C]`): there the list that stands for the array has that many rows
(`rows.length = R` / `rows.length = C`) — what the Rust type says.  Nothing is assumed about the rows themselves
(the model does not assume that a `[T; C]` row has `C` elements either; C19.fromArrays_spec does).

The proofs do not mention generated temporaries: both sides are unfolded, the results of the calls they share
are case-split in the order the calls occur, and the loops (`forEachM` of Model/ForPrims.lean) are compared
with the model's recursive functions `extendRows` / `iterRowsLoop` through two lemmas whose premise — what ONE
run of the loop body does — is checked pointwise by case-splitting the body's tests and checked operations.
-/
import Matreex.Gen.T13Gen
import Matreex.Model.Convert

namespace Matreex.BridgeT13
open Matreex
-- the simp sets below are meant for every harmless rewrite of the source, not only for today's text
set_option linter.unusedSimpArgs false
set_option linter.unusedVariables false
variable {α β : Type}

/-! ### small facts -/

theorem ok_bind {β γ : Type} (a : β) (f : β → M γ) : (Except.ok a >>= f) = f a := rfl
theorem error_bind {β γ : Type} (e : Fault) (f : β → M γ) : ((Except.error e : M β) >>= f) = Except.error e := rfl

/-! ### the loops -/

/-- a loop whose body rejects a row of the wrong length BEFORE appending it = the model's `extendRows` -/
theorem forEachM_extendRows {ρ : Type} (ncols : Nat) (mk : Error → ρ)
    (F : Array α → List α → M (LoopStep (Array α) ρ))
    (hF : ∀ d row, F d row =
      if row.length ≠ ncols then .ok (.done (mk .lengthInconsistent)) else .ok (.next (d ++ row.toArray))) :
    ∀ (rows : List (List α)) (d : Array α), forEachM F rows d =
      .ok (match extendRows ncols rows d.toList with
           | .error e => .done (mk e)
           | .ok l => .next l.toArray) := by
  intro rows
  induction rows with
  | nil => intro d; simp [forEachM, extendRows]
  | cons row rows ih =>
    intro d
    simp only [forEachM, hF, extendRows]
    by_cases h : row.length = ncols
    · simp [h, ih]
    · simp [h]

/-- a loop whose body appends the row, panics unless the length grew by `ncols` (checked subtraction), counts
the row (checked addition) and remembers the new length = the model's `iterRowsLoop` -/
theorem forEachM_iterRows {ρ : Type} (ncols : Nat)
    (F : Array α × Nat × Nat → List α → M (LoopStep (Array α × Nat × Nat) ρ))
    (hF : ∀ d n sz row, F (d, n, sz) row =
      (usub (d.size + row.length) sz >>= fun k =>
        if k ≠ ncols then .error (.panic Error.lengthInconsistent.name)
        else uadd n 1 >>= fun n' => .ok (.next (d ++ row.toArray, n', d.size + row.length)))) :
    ∀ (rest : List (List α)) (d : Array α) (n sz : Nat),
      forEachM F rest (d, n, sz) =
        (iterRowsLoop ncols rest d.toList n sz).map
          fun p => .next (p.1.toArray, p.2, if rest = [] then sz else p.1.length) := by
  intro rest
  induction rest with
  | nil => intro d n sz; simp [forEachM, iterRowsLoop, Except.map]
  | cons row rest ih =>
    intro d n sz
    simp only [forEachM, hF, iterRowsLoop, List.length_append, Array.length_toList]
    rcases usub (d.size + row.length) sz with f | k
    · rfl
    · simp only [ok_bind]
      by_cases h : k = ncols
      · simp only [h, ne_eq, not_true_eq_false, ↓reduceIte]
        rcases uadd n 1 with f | n'
        · rfl
        · simp only [ok_bind, ih, Array.toList_append, List.toList_toArray]
          cases rest with
          | nil => simp [iterRowsLoop, Except.map]
          | cons r rs => simp
      · simp [h]; rfl

/-! ### `new`, `from_row`, `from_col`, the `From` conversions -/

/-- `Matrix::new()` (regenerated from src/construct.rs): the empty row-major matrix -/
theorem new_bridge : (Gen.Matrix.new : M (Matrix α)) = .ok ⟨.rowMajor, ⟨0, 0⟩, #[]⟩ := by
  first | rfl | simp [Gen.Matrix.new, pure, Except.pure]

-- the straight-line conversions: unfold, evaluate the conversion of the shape, compare the three fields
macro "straight" : tactic => `(tactic| (
  simp only [Gen.Shape.new, Gen.Shape.to_axis_shape_unchecked, Shape.toAxis, bind_assoc, pure_bind, bind_pure,
    ok_bind, pure, Except.pure, bind, Except.bind, List.size_toArray]
  try rfl))

theorem from_row_bridge (row : List α) : Gen.Matrix.from_row row = .ok (Matrix.fromRow row) := by
  unfold Gen.Matrix.from_row Matrix.fromRow
  straight

theorem from_col_bridge (col : List α) : Gen.Matrix.from_col col = .ok (Matrix.fromCol col) := by
  unfold Gen.Matrix.from_col Matrix.fromCol
  straight

/-- `From<[[T; C]; R]>`: the array has `R` rows -/
theorem from_array_of_arrays_bridge (R C : Nat) (rows : List (List α)) (hR : rows.length = R) :
    Gen.Matrix.from_array_of_arrays R C rows = .ok (Matrix.fromArrays C rows) := by
  subst hR
  unfold Gen.Matrix.from_array_of_arrays Matrix.fromArrays
  straight

theorem from_vec_of_arrays_bridge (C : Nat) (rows : List (List α)) :
    Gen.Matrix.from_vec_of_arrays C rows = .ok (Matrix.fromArrays C rows) := by
  unfold Gen.Matrix.from_vec_of_arrays Matrix.fromArrays
  straight

theorem from_slice_of_arrays_bridge (C : Nat) (rows : List (List α)) :
    Gen.Matrix.from_slice_of_arrays C rows = .ok (Matrix.fromArrays C rows) := by
  unfold Gen.Matrix.from_slice_of_arrays Matrix.fromArrays
  straight

/-! ### the `TryFrom` conversions -/

-- after unfolding both sides: split the shared prefix (conversion of the shape, size, capacity check, allocation
-- — in this order), then compare the loop with `extendRows` (the premise of `forEachM_extendRows`: one run of the body)
set_option hygiene false in
macro "try_from_cases" es:ident rows:ident : tactic => `(tactic| (
  simp only [Gen.Shape.new, bind_assoc, pure_bind]
  generalize Gen.Shape.try_to_axis_shape _ _ = x
  rcases x with f | e | sh <;> try rfl
  simp only [ok_bind, error_bind, pure_bind, bind_assoc, bindErr]
  rcases Gen.AxisShape.size sh with f | n <;> try rfl
  simp only [ok_bind, error_bind, pure_bind, bind_assoc, bindErr]
  rcases Gen.Matrix.check_size $es n with f | e | size <;> try rfl
  simp only [ok_bind, error_bind, pure_bind, bind_assoc, bindErr]
  rcases Vec.reserveExact $es size with f | u <;> try rfl
  simp only [ok_bind, error_bind, pure_bind, bind_assoc, bindErr]
  rw [forEachM_extendRows (ncols := (Option.map List.length (List.head? $rows)).getD 0) (mk := Except.error)]
  · simp only [ok_bind, Array.toList_empty, List.toList_toArray]
    cases extendRows _ $rows [] <;> rfl
  · intro d row
    by_cases h : row.length = (Option.map List.length (List.head? $rows)).getD 0
    · have h' := h.symm
      first
        | (simp [h, pure, Except.pure]; done)
        | (simp [h', pure, Except.pure]; done)
    · have h' : ¬ (Option.map List.length (List.head? $rows)).getD 0 = row.length := fun e => h e.symm
      simp [h, h', pure, Except.pure]))

/-- `TryFrom<Vec<Vec<T>>>` (regenerated from src/convert.rs) = the model's `Matrix.tryFromRows` -/
theorem try_from_vec_of_vecs_bridge (es : Nat) (rows : List (List α)) :
    Gen.Matrix.try_from_vec_of_vecs es rows = Matrix.tryFromRows es rows := by
  unfold Gen.Matrix.try_from_vec_of_vecs Matrix.tryFromRows sizeDecision
  try_from_cases es rows

/-- `TryFrom<&[Vec<T>]>` (an effect-free `Clone`) = the model's `Matrix.tryFromRows` -/
theorem try_from_slice_of_vecs_bridge (es : Nat) (rows : List (List α)) :
    Gen.Matrix.try_from_slice_of_vecs es rows = Matrix.tryFromRows es rows := by
  unfold Gen.Matrix.try_from_slice_of_vecs Matrix.tryFromRows sizeDecision
  try_from_cases es rows

/-- `TryFrom<[Vec<T>; C]>`: the array has `C` rows -/
theorem try_from_array_of_vecs_bridge (es C : Nat) (rows : List (List α)) (hC : rows.length = C) :
    Gen.Matrix.try_from_array_of_vecs es C rows = Matrix.tryFromRows es rows := by
  subst hC
  unfold Gen.Matrix.try_from_array_of_vecs Matrix.tryFromRows sizeDecision
  try_from_cases es rows

/-! ### `FromIterator` -/

/-- `FromIterator::from_iter` (regenerated from src/convert.rs) = the model's `Matrix.fromIter`: zero rows
give `Matrix::new()`, otherwise the first row fixes the width and every further row is appended, measured,
counted — with the same panics -/
theorem from_iter_bridge (rows : List (List α)) : Gen.Matrix.from_iter rows = Matrix.fromIter rows := by
  unfold Gen.Matrix.from_iter Matrix.fromIter
  cases rows with
  | nil => first | rfl | simp [new_bridge, pure, Except.pure, bind, Except.bind]
  | cons first rest =>
    simp only [Gen.Shape.new, bind_assoc, pure_bind, List.size_toArray]
    rw [forEachM_iterRows (ncols := first.length)]
    · simp only [List.toList_toArray]
      rcases iterRowsLoop first.length rest first 1 first.length with f | ⟨data, nrows⟩
      · rfl
      · simp only [Except.map, ok_bind]
        straight
    · intro d n sz row
      have hc : uadd 1 n = uadd n 1 := by simp [uadd, Nat.add_comm]
      simp only [Array.size_append, List.size_toArray, hc]
      rcases usub (d.size + row.length) sz with f | k
      · rfl
      · simp only [ok_bind]
        by_cases h : k = first.length
        · have h' := h.symm
          first
            | (simp only [h, ne_eq, not_true_eq_false, decide_false, decide_true, Bool.false_eq_true, ↓reduceIte,
                Bool.not_true, Bool.not_false]
               rcases uadd n 1 with f | n' <;> rfl)
            | (simp only [h', ne_eq, not_true_eq_false, decide_false, decide_true, Bool.false_eq_true, ↓reduceIte,
                Bool.not_true, Bool.not_false]
               rcases uadd n 1 with f | n' <;> rfl)
        · have h' : ¬ first.length = k := fun e => h e.symm
          simp [h, h']
          try rfl

/-! ### the model functions are the source -/

/-- the conversions of `Model/Convert.lean`, which the C19 theorems are about, are the functions regenerated
from src/convert.rs -/
theorem conversions_are_the_source (es : Nat) (rows : List (List α)) (row : List α) (c : Nat) :
    Matrix.tryFromRows es rows = Gen.Matrix.try_from_vec_of_vecs es rows ∧
    Matrix.tryFromRows es rows = Gen.Matrix.try_from_slice_of_vecs es rows ∧
    Matrix.tryFromRows es rows = Gen.Matrix.try_from_array_of_vecs es rows.length rows ∧
    Matrix.fromIter rows = Gen.Matrix.from_iter rows ∧
    .ok (Matrix.fromArrays c rows) = Gen.Matrix.from_array_of_arrays rows.length c rows ∧
    .ok (Matrix.fromArrays c rows) = Gen.Matrix.from_vec_of_arrays c rows ∧
    .ok (Matrix.fromArrays c rows) = Gen.Matrix.from_slice_of_arrays c rows ∧
    .ok (Matrix.fromRow row) = Gen.Matrix.from_row row ∧
    .ok (Matrix.fromCol row) = Gen.Matrix.from_col row :=
  ⟨(try_from_vec_of_vecs_bridge es rows).symm, (try_from_slice_of_vecs_bridge es rows).symm,
   (try_from_array_of_vecs_bridge es rows.length rows rfl).symm, (from_iter_bridge rows).symm,
   (from_array_of_arrays_bridge rows.length c rows rfl).symm, (from_vec_of_arrays_bridge c rows).symm,
   (from_slice_of_arrays_bridge c rows).symm, (from_row_bridge row).symm, (from_col_bridge row).symm⟩

end Matreex.BridgeT13
