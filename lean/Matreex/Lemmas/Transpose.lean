/-
The cycle-following in-place permutation is correct for *every* injective self-map `p` of
`[0, n)`: it never leaves the buffer, never reads the bitmap out of range, never runs out of
fuel, and ends with `d'[p x] = d[x]`.  Two loop invariants; no reasoning about cycle lengths,
hence valid for every cycle structure.  Then: the transposition successor is such a map, and the
loop with the *regenerated* successor (`Model/Transpose.lean`) coincides with the pure one.
-/
import Matreex.Model.Transpose
import Matreex.Lemmas.Bridge
import Matreex.Lemmas.Arith

namespace Matreex
variable {α : Type}

/-- inner `loop { ... }` of transpose -/
def cycle {α : Type} (p : Nat → Nat) (index : Nat) :
    (fuel : Nat) → (current : Nat) → Array α → Array Bool → M (Array α × Array Bool)
  | 0, _, _, _ => .error .fuel
  | fuel + 1, current, d, v =>
    if h : current < v.size then
      if v[current] then .ok (d, v)
      else
        let v' := v.set current true
        let next := p current
        match ptrSwap d index next with
        | .error e => .error e
        | .ok d' => cycle p index fuel next d' v'
    else .error (.ub "visited.get_unchecked_mut: index out of bounds")

/-- outer `for index in 0..size` -/
def outer {α : Type} (p : Nat → Nat) (n : Nat) :
    (todo : Nat) → Array α → Array Bool → M (Array α × Array Bool)
  | 0, d, v => .ok (d, v)
  | todo + 1, d, v =>
    match cycle p (n - (todo + 1)) (n + 1) (n - (todo + 1)) d v with
    | .error e => .error e
    | .ok (d', v') => outer p n todo d' v'

def permuteInPlace {α : Type} (p : Nat → Nat) (d : Array α) : M (Array α) :=
  match outer p d.size d.size d (Array.replicate d.size false) with
  | .error e => .error e
  | .ok (d', _) => .ok d'

/-! ### proof -/

def countFalse (v : Array Bool) : Nat := (v.toList.filter (fun b => !b)).length

theorem countFalse_set_lt (v : Array Bool) (c : Nat) (h : c < v.size) (hv : v[c] = false) :
    countFalse (v.set c true) < countFalse v := by
  unfold countFalse
  rcases v with ⟨l⟩
  simp only [Array.set, List.getElem_toArray] at *
  induction l generalizing c with
  | nil => simp at h
  | cons a l ih =>
    cases c with
    | zero =>
      simp at hv; subst hv
      simp [List.set]
    | succ c =>
      simp only [List.set, List.filter_cons]
      have := ih c (by simpa using h) (by simpa using hv)
      split <;> simp <;> omega

section
variable {α : Type} (p : Nat → Nat) (n : Nat)

/-- state invariant between cycles (and at the very end) -/
structure OuterInv (d0 d : Array α) (v : Array Bool) : Prop where
  dsz : d.size = n
  d0sz : d0.size = n
  vsz : v.size = n
  A : ∀ x, x < n → v[x]? = some true → d[p x]? = d0[x]?
  C : ∀ y, y < n → v[y]? = some false → d[y]? = d0[y]?
  F : ∀ x, x < n → v[x]? = some true → v[p x]? = some true
  G : ∀ x, x < n → v[p x]? = some true → v[x]? = some true

/-- invariant at the top of the inner loop, inside the cycle started at `s` -/
structure InnerInv (d0 : Array α) (s c : Nat) (d : Array α) (v : Array Bool) : Prop where
  dsz : d.size = n
  d0sz : d0.size = n
  vsz : v.size = n
  hs : s < n
  hc : c < n
  A : ∀ x, x < n → v[x]? = some true → d[p x]? = d0[x]?
  B : v[c]? = some false → d[s]? = d0[c]?
  C : ∀ y, y < n → v[y]? = some false → y ≠ c → d[y]? = d0[y]?
  F : ∀ x, x < n → v[x]? = some true → v[p x]? = some true ∨ p x = c
  G : ∀ x, x < n → v[p x]? = some true → p x ≠ s → v[x]? = some true
  H : v[s]? = some true ∨ c = s
  L : v[c]? = some true → c = s
  M : (v[s]? = some false ∧ c = s) ∨ ∃ x, x < n ∧ v[x]? = some true ∧ p x = c
  N : ∀ x, x < n → v[x]? = some true → p x = s → c = s ∧ v[s]? = some true

variable (hp : ∀ x, x < n → p x < n)
variable (hinj : ∀ x y, x < n → y < n → p x = p y → x = y)

include hp hinj in
theorem inner_step (d0 : Array α) (s c : Nat) (d : Array α) (v : Array Bool)
    (inv : InnerInv p n d0 s c d v) (hv : v[c]? = some false) :
    ∃ d', ptrSwap d s (p c) = .ok d' ∧
      InnerInv p n d0 s (p c) d' (v.set c true (by have := inv.vsz; have := inv.hc; omega)) := by
  obtain ⟨dsz, d0sz, vsz, hs, hc, A, B, C, F, G, H, L, M, N⟩ := inv
  have hpc : p c < n := hp c hc
  have hsw : s < d.size ∧ p c < d.size := by omega
  refine ⟨d.swap s (p c) hsw.1 hsw.2, by simp [ptrSwap, hsw], ?_⟩
  have hcs : c < v.size := by omega
  constructor
  · simp [dsz]
  · exact d0sz
  · simp [vsz]
  · exact hs
  · exact hpc
  · intro x hx hvx
    rw [Array.getElem?_set] at hvx
    rw [Array.getElem?_swap]
    grind
  · intro hvx
    rw [Array.getElem?_set] at hvx
    rw [Array.getElem?_swap]
    grind
  · intro y hy hvy hne
    rw [Array.getElem?_set] at hvy
    rw [Array.getElem?_swap]
    grind
  · intro x hx hvx
    rw [Array.getElem?_set] at hvx
    rw [Array.getElem?_set]
    grind
  · intro x hx hvx hne
    rw [Array.getElem?_set] at hvx
    rw [Array.getElem?_set]
    by_cases h1 : c = p x
    · rcases M with ⟨_, h2⟩ | ⟨y, hy, hvy, hpy⟩
      · omega
      · have : y = x := hinj y x hy hx (by omega)
        subst this
        split
        · rfl
        · exact hvy
    · simp only [h1, ↓reduceIte] at hvx
      have := G x hx hvx hne
      split
      · rfl
      · exact this
  · rw [Array.getElem?_set]
    grind
  · intro hvx
    rw [Array.getElem?_set] at hvx
    grind
  · right
    refine ⟨c, hc, ?_, rfl⟩
    rw [Array.getElem?_set]; simp
  · intro x hx hvx hps
    rw [Array.getElem?_set] at hvx
    rw [Array.getElem?_set]
    grind


include hp hinj in
theorem cycle_spec (d0 : Array α) (s : Nat) : ∀ (fuel c : Nat) (d : Array α) (v : Array Bool),
    InnerInv p n d0 s c d v → countFalse v < fuel →
    ∃ d' v', cycle p s fuel c d v = .ok (d', v') ∧ InnerInv p n d0 s s d' v' ∧
      v'[s]? = some true ∧ (∀ x : Nat, v[x]? = some true → v'[x]? = some true) := by
  intro fuel
  induction fuel with
  | zero => intro c d v _ h; omega
  | succ fuel ih =>
    intro c d v inv hfuel
    have hcv : c < v.size := by have := inv.vsz; have := inv.hc; omega
    unfold cycle
    simp only [hcv, ↓reduceDIte]
    by_cases hvc : v[c] = true
    · simp only [hvc, ↓reduceIte]
      have hvc' : v[c]? = some true := by rw [Array.getElem?_eq_getElem hcv, hvc]
      have hcs : c = s := inv.L hvc'
      subst hcs
      exact ⟨d, v, rfl, inv, hvc', fun _ h => h⟩
    · simp only [hvc]
      have hvf : v[c] = false := by simpa using hvc
      have hvc' : v[c]? = some false := by rw [Array.getElem?_eq_getElem hcv, hvf]
      obtain ⟨d', hsw, inv'⟩ := inner_step p n hp hinj d0 s c d v inv hvc'
      simp only [hsw]
      have hlt := countFalse_set_lt v c hcv hvf
      obtain ⟨d'', v'', hcy, inv'', hs'', hmono⟩ := ih (p c) d' _ inv' (by omega)
      refine ⟨d'', v'', by simpa using hcy, inv'', hs'', ?_⟩
      intro x hx
      apply hmono
      rw [Array.getElem?_set]
      split
      · rfl
      · exact hx

theorem outerInv_to_inner (d0 d : Array α) (v : Array Bool) (s : Nat) (hs : s < n)
    (inv : OuterInv p n d0 d v) (hvs : v[s]? = some false) : InnerInv p n d0 s s d v := by
  obtain ⟨dsz, d0sz, vsz, A, C, F, G⟩ := inv
  refine ⟨dsz, d0sz, vsz, hs, hs, A, fun _ => C s hs hvs, fun y hy hvy _ => C y hy hvy,
    fun x hx hvx => Or.inl (F x hx hvx), fun x hx hvx _ => G x hx hvx, Or.inr rfl, ?_, Or.inl ⟨hvs, rfl⟩, ?_⟩
  · intro h; rw [hvs] at h
  · intro x hx hvx hps
    have := F x hx hvx
    rw [hps, hvs] at this; simp at this

include hinj in
theorem innerInv_to_outer (d0 d : Array α) (v : Array Bool) (s : Nat)
    (inv : InnerInv p n d0 s s d v) (hvs : v[s]? = some true) : OuterInv p n d0 d v := by
  obtain ⟨dsz, d0sz, vsz, hs, _, A, B, C, F, G, H, L, M, N⟩ := inv
  refine ⟨dsz, d0sz, vsz, A, ?_, ?_, ?_⟩
  · intro y hy hvy
    apply C y hy hvy
    intro h; subst h; rw [hvs] at hvy; simp at hvy
  · intro x hx hvx
    rcases F x hx hvx with h | h
    · exact h
    · rw [h]; exact hvs
  · intro x hx hvx
    by_cases h : p x = s
    · rcases M with ⟨h1, _⟩ | ⟨y, hy, hvy, hpy⟩
      · rw [hvs] at h1; simp at h1
      · have : y = x := hinj y x hy hx (by omega)
        subst this; exact hvy
    · exact G x hx hvx h

include hp hinj in
theorem outer_spec (d0 : Array α) : ∀ (todo : Nat) (d : Array α) (v : Array Bool), todo ≤ n →
    OuterInv p n d0 d v → (∀ x, x < n - todo → v[x]? = some true) →
    ∃ d' v', outer p n todo d v = .ok (d', v') ∧ OuterInv p n d0 d' v' ∧ (∀ x, x < n → v'[x]? = some true) := by
  intro todo
  induction todo with
  | zero =>
    intro d v _ inv hall
    exact ⟨d, v, rfl, inv, fun x hx => hall x (by omega)⟩
  | succ todo ih =>
    intro d v hle inv hall
    unfold outer
    have hs : n - (todo + 1) < n := by omega
    have hsv : n - (todo + 1) < v.size := by have := inv.vsz; omega
    have hcf : countFalse v < n + 1 := by
      have : countFalse v ≤ v.size := by
        unfold countFalse
        have := List.length_filter_le (fun b => !b) v.toList
        simpa using this
      have := inv.vsz; omega
    by_cases hvs : v[n - (todo + 1)] = true
    · -- already visited: inner loop breaks immediately
      have : cycle p (n - (todo + 1)) (n + 1) (n - (todo + 1)) d v = .ok (d, v) := by
        unfold cycle; simp [hsv, hvs]
      simp only [this]
      apply ih d v (by omega) inv
      intro x hx
      by_cases hxe : x = n - (todo + 1)
      · subst hxe; rw [Array.getElem?_eq_getElem hsv, hvs]
      · exact hall x (by omega)
    · have hvf : v[n - (todo + 1)] = false := by simpa using hvs
      have hvs' : v[n - (todo + 1)]? = some false := by rw [Array.getElem?_eq_getElem hsv, hvf]
      have inv1 := outerInv_to_inner p n d0 d v _ hs inv hvs'
      obtain ⟨d', v', hcy, inv', hs', hmono⟩ := cycle_spec p n hp hinj d0 _ (n + 1) _ d v inv1 hcf
      simp only [hcy]
      apply ih d' v' (by omega) (innerInv_to_outer p n hinj d0 d' v' _ inv' hs')
      intro x hx
      by_cases hxe : x = n - (todo + 1)
      · subst hxe; exact hs'
      · exact hmono x (hall x (by omega))

include hp hinj in
/-- The in-place cycle-following loop never hits UB, never runs out of fuel, and moves the
element at `x` to `p x`, for every bijection `p` of `[0, d.size)`. -/
theorem permuteInPlace_spec (d : Array α) (hn : d.size = n) :
    ∃ d', permuteInPlace p d = .ok d' ∧ d'.size = n ∧ ∀ x, x < n → d'[p x]? = d[x]? := by
  unfold permuteInPlace
  have inv0 : OuterInv p n d d (Array.replicate d.size false) := by
    refine ⟨hn, hn, by simp [hn], ?_, fun _ _ _ => rfl, ?_, ?_⟩
    · intro x hx h; rw [Array.getElem?_replicate] at h; split at h <;> simp at h
    · intro x hx h; rw [Array.getElem?_replicate] at h; split at h <;> simp at h
    · intro x hx h; rw [Array.getElem?_replicate] at h; split at h <;> simp at h
  obtain ⟨d', v', ho, inv', hall⟩ := outer_spec p n hp hinj d n d _ (Nat.le_refl _) inv0 (by intro x hx; omega)
  subst hn
  rw [ho]
  exact ⟨d', rfl, inv'.dsz, fun x hx => inv'.A x hx (hall x hx)⟩

end

/-! ### the transposition permutation -/

/-- `AxisIndex::from_flattened(x, old).swap().to_flattened(new)` with old = (major, minor) -/
def tperm (major minor : Nat) (x : Nat) : Nat := (x % minor) * major + x / minor

theorem tperm_lt (major minor x : Nat) (hx : x < major * minor) : tperm major minor x < major * minor := by
  unfold tperm
  have hm : 0 < minor := by
    rcases Nat.eq_zero_or_pos minor with h | h
    · subst h; simp at hx
    · exact h
  have h1 : x % minor < minor := Nat.mod_lt _ hm
  have h2 : x / minor < major := by
    apply Nat.div_lt_of_lt_mul; rw [Nat.mul_comm]; exact hx
  calc x % minor * major + x / minor < x % minor * major + major := by omega
    _ = (x % minor + 1) * major := by rw [Nat.add_mul]; simp
    _ ≤ minor * major := Nat.mul_le_mul_right _ h1
    _ = major * minor := Nat.mul_comm _ _

theorem tperm_inj (major minor x y : Nat) (hx : x < major * minor) (hy : y < major * minor)
    (h : tperm major minor x = tperm major minor y) : x = y := by
  unfold tperm at h
  have hm : 0 < minor := by
    rcases Nat.eq_zero_or_pos minor with h | h
    · subst h; simp at hx
    · exact h
  have hM : 0 < major := by
    rcases Nat.eq_zero_or_pos major with h | h
    · subst h; simp at hx
    · exact h
  have hx2 : x / minor < major := by
    apply Nat.div_lt_of_lt_mul; rw [Nat.mul_comm]; exact hx
  have hy2 : y / minor < major := by
    apply Nat.div_lt_of_lt_mul; rw [Nat.mul_comm]; exact hy
  have e1 : (x % minor * major + x / minor) / major = x % minor := by
    rw [Nat.mul_comm, Nat.mul_add_div hM, Nat.div_eq_of_lt hx2]; simp
  have e2 : (y % minor * major + y / minor) / major = y % minor := by
    rw [Nat.mul_comm, Nat.mul_add_div hM, Nat.div_eq_of_lt hy2]; simp
  have e3 : (x % minor * major + x / minor) % major = x / minor := by
    rw [Nat.mul_comm, Nat.mul_add_mod, Nat.mod_eq_of_lt hx2]
  have e4 : (y % minor * major + y / minor) % major = y / minor := by
    rw [Nat.mul_comm, Nat.mul_add_mod, Nat.mod_eq_of_lt hy2]
  have hmod : x % minor = y % minor := by rw [← e1, ← e2, h]
  have hdiv : x / minor = y / minor := by rw [← e3, ← e4, h]
  rw [← Nat.div_add_mod x minor, ← Nat.div_add_mod y minor, hmod, hdiv]

/-- C05 core: the in-place algorithm yields `new[j * major + i] = old[i * minor + j]`. -/
theorem transpose_data_spec {α : Type} (major minor : Nat) (d : Array α) (hsz : d.size = major * minor) :
    ∃ d', permuteInPlace (tperm major minor) d = .ok d' ∧ d'.size = major * minor ∧
      ∀ i j, i < major → j < minor → d'[j * major + i]? = d[i * minor + j]? := by
  obtain ⟨d', h1, h2, h3⟩ := permuteInPlace_spec (tperm major minor) (major * minor)
    (fun x hx => tperm_lt major minor x hx) (fun x y hx hy h => tperm_inj major minor x y hx hy h) d hsz
  refine ⟨d', h1, h2, ?_⟩
  intro i j hi hj
  have hx : i * minor + j < major * minor := by
    calc i * minor + j < i * minor + minor := by omega
      _ = (i + 1) * minor := by rw [Nat.add_mul]; simp
      _ ≤ major * minor := Nat.mul_le_mul_right _ hi
  have := h3 (i * minor + j) hx
  have e : tperm major minor (i * minor + j) = j * major + i := by
    unfold tperm
    rw [Nat.mul_comm i minor, Nat.mul_add_mod, Nat.mod_eq_of_lt hj, Nat.mul_add_div (by omega), Nat.div_eq_of_lt hj]
    simp
  rw [e] at this
  exact this



/-! ### the loop with the regenerated successor equals the pure loop -/

theorem cycle_size (p : Nat → Nat) (s : Nat) : ∀ (fuel c : Nat) (d : Array α) (v : Array Bool) d' v',
    cycle p s fuel c d v = .ok (d', v') → v'.size = v.size := by
  intro fuel
  induction fuel with
  | zero => intro c d v d' v' h; simp [cycle] at h
  | succ fuel ih =>
    intro c d v d' v' h
    unfold cycle at h
    by_cases hc : c < v.size
    · simp only [hc, ↓reduceDIte] at h
      by_cases hv : v[c] = true
      · simp only [hv, ↓reduceIte, Except.ok.injEq, Prod.mk.injEq] at h; rw [← h.2]
      · simp only [hv] at h
        cases hsw : ptrSwap d s (p c) with
        | error e => simp [hsw] at h
        | ok d1 =>
          simp only [hsw] at h
          have := ih _ _ _ _ _ h; simpa using this
    · simp [hc] at h

theorem cycleM_eq (succ : Nat → M Nat) (p : Nat → Nat) (n : Nat)
    (hs : ∀ x, x < n → succ x = .ok (p x)) (s : Nat) :
    ∀ (fuel c : Nat) (d : Array α) (v : Array Bool), v.size = n →
      cycleM succ s fuel c d v = cycle p s fuel c d v := by
  intro fuel
  induction fuel with
  | zero => intro c d v _; rfl
  | succ fuel ih =>
    intro c d v hv
    unfold cycleM cycle
    by_cases hc : c < v.size
    · simp only [hc, ↓reduceDIte]
      by_cases hvc : v[c] = true
      · simp [hvc]
      · simp only [hvc, hs c (by omega)]
        cases hsw : ptrSwap d s (p c) with
        | error e => simp
        | ok d1 => simp only; exact ih _ _ _ (by simp [hv])
    · simp [hc]

theorem outerM_eq (succ : Nat → M Nat) (p : Nat → Nat) (n : Nat)
    (hs : ∀ x, x < n → succ x = .ok (p x)) :
    ∀ (todo : Nat) (d : Array α) (v : Array Bool), v.size = n →
      outerM succ n todo d v = outer p n todo d v := by
  intro todo
  induction todo with
  | zero => intro d v _; rfl
  | succ todo ih =>
    intro d v hv
    unfold outerM outer
    rw [cycleM_eq succ p n hs _ _ _ _ _ hv]
    cases hcy : cycle p (n - (todo + 1)) (n + 1) (n - (todo + 1)) d v with
    | error e => rfl
    | ok r =>
      obtain ⟨d', v'⟩ := r
      have := cycle_size p _ _ _ _ _ _ _ hcy
      exact ih _ _ (by omega)

theorem permuteInPlaceM_eq (succ : Nat → M Nat) (p : Nat → Nat) (d : Array α)
    (hs : ∀ x, x < d.size → succ x = .ok (p x)) :
    permuteInPlaceM succ d = permuteInPlace p d := by
  unfold permuteInPlaceM permuteInPlace
  rw [outerM_eq succ p d.size hs _ _ _ (by simp)]
  cases outer p d.size d.size d (Array.replicate d.size false) <;> rfl

/-- the regenerated successor is `tperm`, without overflow or division by zero, on `[0, size)` -/
theorem transposeSucc_eq (sh : AxisShape) (x : Nat) (hx : x < sh.major * sh.minor)
    (hfit : sh.major * sh.minor ≤ usizeMax) :
    transposeSucc sh sh.transpose x = .ok (tperm sh.major sh.minor x) := by
  have hm : sh.minor ≠ 0 := by have := pos_of_lt_mul hx; omega
  have hlt := tperm_lt sh.major sh.minor x hx
  have hb := Bridge.from_flattened x sh hm
  have hf := Bridge.to_flattened (AxisIndex.ofFlat x sh).swap sh.transpose
    (by simp only [AxisIndex.swap, AxisIndex.ofFlat, AxisShape.transpose]; unfold tperm at hlt; omega)
  simp only [transposeSucc, hb, hf, bind, Except.bind]
  rfl

end Matreex
