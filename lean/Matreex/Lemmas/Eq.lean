/-
Helper lemmas for C07 (`PartialEq for Matrix<T>`): `Matrix.beq` never faults on coherent operands
and answers `true` exactly when the two matrices have the same logical shape and pairwise
`eqα`-related elements.  Both branches are reduced to the data path `ewData` of the elementwise
operations (with `op := eqα`), whose cross-order walk is the same code.
-/
import Matreex.Model.Eq
import Matreex.Model.Elementwise
import Matreex.Lemmas.Elementwise
import Matreex.Lemmas.Matrix

namespace Matreex
variable {α : Type}

/-- same logical shape and pairwise `eqα`-related elements -/
def Matrix.PEq (eqα : α → α → Bool) (a b : Matrix α) : Prop :=
  a.nrows = b.nrows ∧ a.ncols = b.ncols ∧ ∀ i, i < a.nrows → ∀ j, j < a.ncols →
    ∃ x y, a.at? i j = some x ∧ b.at? i j = some y ∧ eqα x y = true

/-- for conformable operands `beq` is "all true" over the list `ewData` computes with `eqα` -/
theorem beq_eq_ewData_aux (eqα : α → α → Bool) (a b : Matrix α) (ha : a.Coh) (hb : b.Coh)
    (hfitb : b.data.size ≤ usizeMax) (hr : a.nrows = b.nrows) (hc : a.ncols = b.ncols) :
    ∃ d, ewData a b eqα = .ok d ∧ a.beq eqα b = .ok (d.toList.all id) := by
  by_cases ho : a.order = b.order
  · have hs := shape_eq_of_same_order_aux a b ho hr hc
    have hsz : a.data.size = b.data.size := by rw [← ha.size_eq, ← hb.size_eq, hs]
    refine ⟨Array.zipWith eqα a.data b.data, by simp [ewData, ho], ?_⟩
    simp [Matrix.beq, ho, hs, vecEq, hsz, Array.toList_zipWith]
  · obtain ⟨hM, hm⟩ := shape_swap_of_diff_order_aux a b ho hr hc
    obtain ⟨d, h1, _, _⟩ := ewData_pos_aux a b eqα ha hb hfitb hr hc
    refine ⟨d, h1, ?_⟩
    simp only [ewData, ho, ↓reduceIte, bind, Except.bind, pure, Except.pure] at h1
    simp only [Matrix.beq, ho, ↓reduceIte, hM, hm, and_self, bind, Except.bind, pure, Except.pure]
    split at h1
    · cases h1
    · rename_i l hl
      cases h1
      first | rfl | simp

/-- non-conformable operands compare unequal, without touching the data -/
theorem beq_not_conformable_aux (eqα : α → α → Bool) (a b : Matrix α)
    (h : ¬ (a.nrows = b.nrows ∧ a.ncols = b.ncols)) : a.beq eqα b = .ok false := by
  obtain ⟨oa, ⟨Ma, ma⟩, da⟩ := a
  obtain ⟨ob, ⟨Mb, mb⟩, db⟩ := b
  cases oa <;> cases ob <;>
    simp only [Matrix.nrows, Matrix.ncols, AxisShape.nrows, AxisShape.ncols] at h <;>
    simp only [Matrix.beq, reduceCtorEq, ↓reduceIte, AxisShape.mk.injEq]
  · simp [h]
  · rw [if_neg (by omega)]
  · rw [if_neg (by omega)]
  · have : ¬ (Ma = Mb ∧ ma = mb) := by omega
    simp [this]

/-- "all true" over the `ewData` list is the pointwise relation -/
theorem all_ewData_iff_aux (eqα : α → α → Bool) (a b : Matrix α) (ha : a.Coh) (hb : b.Coh)
    (hr : a.nrows = b.nrows) (hc : a.ncols = b.ncols) (d : Array Bool)
    (hsz : d.size = a.data.size)
    (h3 : ∀ r c, r < a.nrows → c < a.ncols → ∀ x y, a.data[a.idx r c]? = some x →
        b.data[b.idx r c]? = some y → d[a.idx r c]? = some (eqα x y)) :
    d.toList.all id = true ↔ a.PEq eqα b := by
  constructor
  · intro hall
    refine ⟨hr, hc, ?_⟩
    intro i hi j hj
    have hla := a.idx_lt ha hi hj
    have hlb := b.idx_lt hb (hr ▸ hi) (hc ▸ hj)
    refine ⟨a.data[a.idx i j], b.data[b.idx i j], a.at?_eq_some ha hi hj,
      b.at?_eq_some hb (hr ▸ hi) (hc ▸ hj), ?_⟩
    have h := h3 i j hi hj _ _ (Array.getElem?_eq_getElem hla) (Array.getElem?_eq_getElem hlb)
    have hld : a.idx i j < d.size := by omega
    rw [Array.getElem?_eq_getElem hld] at h
    have hmem : d[a.idx i j] ∈ d.toList := by simp
    have := List.all_eq_true.mp hall _ hmem
    simp only [id] at this
    rw [this] at h
    exact (Option.some.inj h).symm
  · intro ⟨_, _, hp⟩
    rw [List.all_eq_true]
    intro v hv
    obtain ⟨k, hk, hkv⟩ := List.getElem_of_mem hv
    simp only [Array.length_toList] at hk
    obtain ⟨r, c, hr', hc', hi⟩ := a.idx_surj_aux ha k (by omega)
    obtain ⟨x, y, hx, hy, hxy⟩ := hp r hr' c hc'
    have hbr : r < b.nrows ∧ c < b.ncols := ⟨hr ▸ hr', hc ▸ hc'⟩
    simp only [Matrix.at?, hr', hc', and_self, ↓reduceIte] at hx
    simp only [Matrix.at?, hbr, and_self, ↓reduceIte] at hy
    have h := h3 r c hr' hc' x y hx hy
    rw [hi, Array.getElem?_eq_getElem hk, hxy] at h
    have h' := Option.some.inj h
    simp only [Array.getElem_toList] at hkv
    simp only [id]
    rw [← hkv, h']

/-- `beq` never faults on coherent operands and decides the pointwise relation -/
theorem beq_ok_iff_aux (eqα : α → α → Bool) (a b : Matrix α) (ha : a.Coh) (hb : b.Coh)
    (hfitb : b.data.size ≤ usizeMax) :
    ∃ v, a.beq eqα b = .ok v ∧ (v = true ↔ a.PEq eqα b) := by
  by_cases hconf : a.nrows = b.nrows ∧ a.ncols = b.ncols
  · obtain ⟨hr, hc⟩ := hconf
    obtain ⟨d, h1, h2⟩ := beq_eq_ewData_aux eqα a b ha hb hfitb hr hc
    obtain ⟨d', h1', hsz, h3⟩ := ewData_pos_aux a b eqα ha hb hfitb hr hc
    rw [h1] at h1'
    cases h1'
    exact ⟨_, h2, all_ewData_iff_aux eqα a b ha hb hr hc d hsz h3⟩
  · refine ⟨false, beq_not_conformable_aux eqα a b hconf, ?_⟩
    constructor
    · intro h; cases h
    · intro ⟨hr, hc, _⟩; exact absurd ⟨hr, hc⟩ hconf

end Matreex
