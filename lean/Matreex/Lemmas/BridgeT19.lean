/-
Bridge for the three `macro_rules!` definitions of src/macros.rs (`matrix!`, `row_vec!`, `col_vec!`): the functions
regenerated from the source on every run (`Gen/T19Gen.lean`, translator T19: one function per arm, built from the functions
T8 / T13 / T2 regenerate for `with_value`, `new`, `from_row`, `from_col`, the `From` conversions and `From<(usize, usize)> for
Shape`; one dispatch function per macro, the arm macro_rules' first-match rule selects for every form of input) compute
exactly the model's meaning of the macro form (`Matrix.ofMatrixMacro` / `Matrix.ofVecMacro` of `Model/MacroPrims.lean`, in
terms of `Matrix.empty`, `Matrix.withValue`, `Matrix.fromArrays`, `Matrix.fromRow`, `Matrix.fromCol`) — same matrix, same
panic (the displayed `Err` of `with_value`; the capacity-overflow panic of `vec![x; n]`), for all argument values.

Then the LOGICAL content, stated for the generated functions: the result is row-major with the extents as written and
element `(i, j)` = the `j`-th expression of the `i`-th row (`*_logical`), `matrix![[e; c]; r]` panics exactly when
`with_value((r, c), e)` is an `Err` (`matrix_fill_panics_iff`), and the closed forms of the panic conditions (`*_spec`).

Hypotheses: none for the equations with the model.  The logical statements about rows written as arrays assume what the Rust
TYPE `[T; C]` says: every row has `C` elements (`matrix_rows_logical`); the others only exclude the panics they do not
describe.  `es` is `size_of::<T>()`; `clone` is `T::clone`, an effect-free function (as everywhere in the model); T8's
`with_value` does not mark clones (`vec![value; size]` is `Array.replicate`), so `matrix_fill` does not depend on `clone`.

The proofs do not mention generated temporaries: both sides are unfolded, the calls are rewritten by the bridges of T8 / T13,
and what remains is closed by case-splitting the shared calls in the order they occur.
-/
import Matreex.Gen.T19Gen
import Matreex.Lemmas.BridgeT8
import Matreex.Lemmas.BridgeT13
import Matreex.Props.C08
import Matreex.Props.C19

namespace Matreex.BridgeT19
open Matreex
-- the simp sets below are meant for every harmless rewrite of the source, not only for today's text
set_option linter.unusedSimpArgs false
set_option linter.unusedVariables false
variable {α : Type}

/-! ### small facts -/

theorem ok_bind {β γ : Type} (a : β) (f : β → M γ) : (Except.ok a >>= f) = f a := rfl
theorem error_bind {β γ : Type} (e : Fault) (f : β → M γ) : ((Except.error e : M β) >>= f) = Except.error e := rfl

/-- `T2`'s `From<(usize, usize)> for Shape`: first component rows, second columns -/
theorem from_tuple (a b : Nat) : Gen.Shape.from_tuple (a, b) = ⟨a, b⟩ := rfl

/-! ### `vec![x; n]` -/

theorem vecFromElem_length {β : Type} (clone : β → β) (x : β) (n : Nat) : (vecFromElem clone x n).length = n := by
  simp [vecFromElem]

/-- slot `k` of `vec![x; n]`: a clone, except the last, which is the original -/
theorem vecFromElem_getElem? {β : Type} (clone : β → β) (x : β) (n k : Nat) (h : k < n) :
    (vecFromElem clone x n)[k]? = some (if k + 1 < n then clone x else x) := by
  simp [vecFromElem, h]

theorem vecFromElem_mem {β : Type} (clone : β → β) (x : β) (n : Nat) (y : β) (h : y ∈ vecFromElem clone x n) :
    y = clone x ∨ y = x := by
  simp only [vecFromElem, List.mem_map, List.mem_range] at h
  obtain ⟨k, _, hk⟩ := h
  by_cases c : k + 1 < n <;> simp [c] at hk <;> simp [hk]

/-- with a `Clone` that returns its argument (`Copy` types), `vec![x; n]` is `n` times `x` -/
theorem vecFromElem_id {β : Type} (x : β) (n : Nat) : vecFromElem id x n = List.replicate n x := by
  apply List.ext_getElem?
  intro k
  by_cases h : k < n
  · rw [vecFromElem_getElem? id x n k h]; simp [h]
  · simp [vecFromElem, h]

theorem vecFromElem_zero {β : Type} (clone : β → β) (x : β) : vecFromElem clone x 0 = [] := rfl

/-- `Vec.fromElem`: the capacity-overflow panic of the allocation, else the content -/
theorem fromElem_spec {β : Type} (es : Nat) (clone : β → β) (x : β) (n : Nat) :
    Vec.fromElem es clone x n =
      if es * n > isizeMax then .error (.panic "capacity overflow") else .ok (vecFromElem clone x n) := by
  unfold Vec.fromElem Vec.reserveExact
  by_cases h : es * n > isizeMax <;> simp [h, bind, Except.bind, pure, Except.pure]

/-! ### `matrix!`, arm by arm -/

/-- `matrix![]` = `Matrix::new()`: the empty matrix -/
theorem matrix_empty_bridge (es : Nat) (clone : α → α) :
    Gen.Macros.matrix_empty es clone = .ok (Matrix.empty : Matrix α) := by
  simp only [Gen.Macros.matrix_empty, BridgeT13.new_bridge, ok_bind, bind_pure, pure_bind]
  try (first | rfl | simp [Matrix.empty, pure, Except.pure])

/-- `matrix![[elem; ncols]; nrows]` = `with_value((nrows, ncols), elem)`, an `Err` displayed by a panic -/
theorem matrix_fill_bridge (es : Nat) (clone : α → α) (elem : α) (ncols nrows : Nat) :
    Gen.Macros.matrix_fill es clone elem ncols nrows = unwrapOrPanic (Matrix.withValue es ⟨nrows, ncols⟩ elem) := by
  simp only [Gen.Macros.matrix_fill, BridgeT8.with_value_bridge, from_tuple]
  unfold unwrapOrPanic
  generalize Matrix.withValue es _ elem = x
  cases x <;> first | rfl | (rename_i t; cases t <;> rfl)

/-- `matrix![[e₁, …, eₖ]; nrows]` = the conversion of `vec![[e₁, …, eₖ]; nrows]`: allocation of `nrows` arrays of `es * k`
bytes, `nrows - 1` element-wise clones of the row, then the row itself -/
theorem matrix_repeat_row_bridge (es : Nat) (clone : α → α) (elems : List α) (nrows : Nat) :
    Gen.Macros.matrix_repeat_row es clone elems nrows = Matrix.ofMatrixMacro es clone (.repeatRow elems nrows) := by
  simp only [Gen.Macros.matrix_repeat_row, Matrix.ofMatrixMacro, Vec.fromElem, BridgeT13.from_vec_of_arrays_bridge,
    bind_assoc, pure_bind, bind_pure]
  cases Vec.reserveExact (es * elems.length) nrows <;> rfl

/-- `matrix![row₁, …, rowₖ]` = the conversion of the array of the rows (`R` = the number of rows written) -/
theorem matrix_rows_bridge (es : Nat) (clone : α → α) (C : Nat) (rows : List (List α)) :
    Gen.Macros.matrix_rows es clone C rows = .ok (Matrix.fromArrays C rows) := by
  simp only [Gen.Macros.matrix_rows, BridgeT13.from_array_of_arrays_bridge rows.length C rows rfl, ok_bind, bind_pure,
    pure_bind]
  try (first | rfl | simp [pure, Except.pure])

/-! ### `row_vec!`, `col_vec!`, arm by arm -/

theorem row_vec_empty_bridge (es : Nat) (clone : α → α) :
    Gen.Macros.row_vec_empty es clone = .ok (Matrix.fromRow ([] : List α)) := by
  simp only [Gen.Macros.row_vec_empty, BridgeT13.from_row_bridge, ok_bind, bind_pure, pure_bind]
  try (first | rfl | simp [pure, Except.pure])

theorem row_vec_repeat_bridge (es : Nat) (clone : α → α) (elem : α) (n : Nat) :
    Gen.Macros.row_vec_repeat es clone elem n = Matrix.ofVecMacro es clone Matrix.fromRow (.repeat elem n) := by
  simp only [Gen.Macros.row_vec_repeat, Matrix.ofVecMacro, Vec.fromElem, BridgeT13.from_row_bridge, bind_assoc, pure_bind,
    bind_pure]
  cases Vec.reserveExact es n <;> rfl

theorem row_vec_list_bridge (es : Nat) (clone : α → α) (elems : List α) :
    Gen.Macros.row_vec_list es clone elems = .ok (Matrix.fromRow elems) := by
  simp only [Gen.Macros.row_vec_list, BridgeT13.from_row_bridge, ok_bind, bind_pure, pure_bind]
  try (first | rfl | simp [pure, Except.pure])

theorem col_vec_empty_bridge (es : Nat) (clone : α → α) :
    Gen.Macros.col_vec_empty es clone = .ok (Matrix.fromCol ([] : List α)) := by
  simp only [Gen.Macros.col_vec_empty, BridgeT13.from_col_bridge, ok_bind, bind_pure, pure_bind]
  try (first | rfl | simp [pure, Except.pure])

theorem col_vec_repeat_bridge (es : Nat) (clone : α → α) (elem : α) (n : Nat) :
    Gen.Macros.col_vec_repeat es clone elem n = Matrix.ofVecMacro es clone Matrix.fromCol (.repeat elem n) := by
  simp only [Gen.Macros.col_vec_repeat, Matrix.ofVecMacro, Vec.fromElem, BridgeT13.from_col_bridge, bind_assoc, pure_bind,
    bind_pure]
  cases Vec.reserveExact es n <;> rfl

theorem col_vec_list_bridge (es : Nat) (clone : α → α) (elems : List α) :
    Gen.Macros.col_vec_list es clone elems = .ok (Matrix.fromCol elems) := by
  simp only [Gen.Macros.col_vec_list, BridgeT13.from_col_bridge, ok_bind, bind_pure, pure_bind]
  try (first | rfl | simp [pure, Except.pure])

/-! ### the macros: every form of input, through the arm the first-match rule selects -/

/-- `matrix![…]` (regenerated from src/macros.rs, arm selection included) = the model's meaning of the form -/
theorem matrix_bridge (es : Nat) (clone : α → α) (inp : MatrixInput α) :
    Gen.Macros.matrix es clone inp = Matrix.ofMatrixMacro es clone inp := by
  cases inp with
  | empty => exact matrix_empty_bridge es clone
  | fill elem ncols nrows => exact matrix_fill_bridge es clone elem ncols nrows
  | repeatRow elems nrows => exact matrix_repeat_row_bridge es clone elems nrows
  | rows C rows => exact matrix_rows_bridge es clone C rows

/-- `row_vec![…]` = the model's meaning of the form, built with `Matrix.fromRow` -/
theorem row_vec_bridge (es : Nat) (clone : α → α) (inp : VecInput α) :
    Gen.Macros.row_vec es clone inp = Matrix.ofVecMacro es clone Matrix.fromRow inp := by
  cases inp with
  | empty => exact row_vec_empty_bridge es clone
  | «repeat» elem n => exact row_vec_repeat_bridge es clone elem n
  | list elems => exact row_vec_list_bridge es clone elems

/-- `col_vec![…]` = the model's meaning of the form, built with `Matrix.fromCol` -/
theorem col_vec_bridge (es : Nat) (clone : α → α) (inp : VecInput α) :
    Gen.Macros.col_vec es clone inp = Matrix.ofVecMacro es clone Matrix.fromCol inp := by
  cases inp with
  | empty => exact col_vec_empty_bridge es clone
  | «repeat» elem n => exact col_vec_repeat_bridge es clone elem n
  | list elems => exact col_vec_list_bridge es clone elems

/-! ### logical content: `matrix![[elem; ncols]; nrows]` -/

/-- closed form: the two panics (the displayed `SizeOverflow` / `CapacityOverflow` of `with_value`), else the
`nrows × ncols` row-major matrix filled with `elem`.  NOTE the argument order of the source: the OUTER count is the
number of rows. -/
theorem matrix_fill_spec (es : Nat) (clone : α → α) (elem : α) (ncols nrows : Nat) :
    Gen.Macros.matrix_fill es clone elem ncols nrows =
      if nrows * ncols > usizeMax then .error (.panic "SizeOverflow")
      else if es * (nrows * ncols) > isizeMax then .error (.panic "CapacityOverflow")
      else .ok ⟨.rowMajor, ⟨nrows, ncols⟩, Array.replicate (nrows * ncols) elem⟩ := by
  rw [matrix_fill_bridge, C08.withValue_spec]
  unfold unwrapOrPanic
  by_cases h1 : nrows * ncols > usizeMax
  · simp only [h1, ↓reduceIte]; rfl
  · by_cases h2 : es * (nrows * ncols) > isizeMax
    · simp only [h1, h2, ↓reduceIte]; rfl
    · simp only [h1, h2, ↓reduceIte]; rfl

/-- `matrix![[e; c]; r]` panics exactly when `with_value((r, c), e)` is an `Err`, displaying that error; it never faults
otherwise -/
theorem matrix_fill_panics_iff (es : Nat) (clone : α → α) (elem : α) (ncols nrows : Nat) (f : Fault) :
    Gen.Macros.matrix_fill es clone elem ncols nrows = .error f ↔
      ∃ e, Matrix.withValue es ⟨nrows, ncols⟩ elem = .ok (.error e) ∧ f = .panic e.name := by
  rw [matrix_fill_bridge, C08.withValue_spec]
  unfold unwrapOrPanic
  by_cases h1 : nrows * ncols > usizeMax
  · simp only [h1, ↓reduceIte]
    constructor
    · intro h; refine ⟨.sizeOverflow, rfl, ?_⟩; cases h; rfl
    · rintro ⟨e, he, rfl⟩; cases he; rfl
  · by_cases h2 : es * (nrows * ncols) > isizeMax
    · simp only [h1, h2, ↓reduceIte]
      constructor
      · intro h; refine ⟨.capacityOverflow, rfl, ?_⟩; cases h; rfl
      · rintro ⟨e, he, rfl⟩; cases he; rfl
    · simp only [h1, h2, ↓reduceIte]
      constructor
      · intro h; cases h
      · rintro ⟨e, he, _⟩; cases he

/-- … and otherwise yields the row-major `nrows × ncols` matrix whose every element is `elem` -/
theorem matrix_fill_logical (es : Nat) (clone : α → α) (elem : α) (ncols nrows : Nat)
    (h1 : nrows * ncols ≤ usizeMax) (h2 : es * (nrows * ncols) ≤ isizeMax) :
    ∃ m, Gen.Macros.matrix_fill es clone elem ncols nrows = .ok m ∧ m.order = .rowMajor ∧ m.Coh ∧
      m.nrows = nrows ∧ m.ncols = ncols ∧ ∀ i j, i < nrows → j < ncols → m.at? i j = some elem := by
  obtain ⟨m, hm, hr, hc, hat⟩ := C19.withValue_fill es nrows ncols elem h1 h2
  have n1 : ¬ nrows * ncols > usizeMax := by omega
  have n2 : ¬ es * (nrows * ncols) > isizeMax := by omega
  have hs := C08.withValue_spec es nrows ncols elem
  simp only [n1, n2, ↓reduceIte] at hs
  rw [hs] at hm
  cases hm
  refine ⟨_, ?_, rfl, ⟨by simp⟩, hr, hc, hat⟩
  rw [matrix_fill_spec]; simp only [n1, n2, ↓reduceIte]

/-! ### logical content: `matrix![[e₁, …, eₖ]; nrows]` -/

theorem matrix_repeat_row_spec (es : Nat) (clone : α → α) (elems : List α) (nrows : Nat) :
    Gen.Macros.matrix_repeat_row es clone elems nrows =
      if es * elems.length * nrows > isizeMax then .error (.panic "capacity overflow")
      else .ok (Matrix.fromArrays elems.length (vecFromElem (List.map clone) elems nrows)) := by
  rw [matrix_repeat_row_bridge]
  unfold Matrix.ofMatrixMacro Vec.reserveExact
  by_cases h : es * elems.length * nrows > isizeMax <;> simp [h, bind, Except.bind, pure, Except.pure]

/-- `nrows` rows, each the written row; all but the LAST are clones, element by element -/
theorem matrix_repeat_row_logical (es : Nat) (clone : α → α) (elems : List α) (nrows : Nat)
    (h : es * elems.length * nrows ≤ isizeMax) :
    ∃ m, Gen.Macros.matrix_repeat_row es clone elems nrows = .ok m ∧ m.order = .rowMajor ∧ m.Coh ∧
      m.nrows = nrows ∧ m.ncols = elems.length ∧
      ∀ i j, i < nrows → j < elems.length →
        m.at? i j = (elems[j]?).map fun x => if i + 1 < nrows then clone x else x := by
  have hn : ¬ es * elems.length * nrows > isizeMax := by omega
  have hu : ∀ r ∈ vecFromElem (List.map clone) elems nrows, r.length = elems.length := by
    intro r hr
    rcases vecFromElem_mem _ _ _ _ hr with rfl | rfl <;> simp
  obtain ⟨hcoh, hord, hr, hc, hat⟩ := C19.fromArrays_spec elems.length _ hu
  rw [vecFromElem_length] at hr hat
  refine ⟨_, by rw [matrix_repeat_row_spec]; simp only [hn, ↓reduceIte], hord, hcoh, hr, hc, ?_⟩
  intro i j hi hj
  rw [hat i j hi hj, vecFromElem_getElem? _ _ _ _ hi]
  by_cases c : i + 1 < nrows <;> simp [c]

/-! ### logical content: `matrix![row₁, …, rowₖ]` -/

/-- the rows in order: `k × C`, element `(i, j)` = the `j`-th element of the `i`-th row written (`hu`: what the type
`[T; C]` of a row says) -/
theorem matrix_rows_logical (es : Nat) (clone : α → α) (C : Nat) (rows : List (List α))
    (hu : ∀ r ∈ rows, r.length = C) :
    ∃ m, Gen.Macros.matrix_rows es clone C rows = .ok m ∧ m.order = .rowMajor ∧ m.Coh ∧
      m.nrows = rows.length ∧ m.ncols = C ∧
      ∀ i j, i < rows.length → j < C → m.at? i j = (rows[i]?).bind (·[j]?) := by
  obtain ⟨hcoh, hord, hr, hc, hat⟩ := C19.fromArrays_spec C rows hu
  exact ⟨_, matrix_rows_bridge es clone C rows, hord, hcoh, hr, hc, hat⟩

/-- `matrix![]`: `0 × 0`, no elements -/
theorem matrix_empty_logical (es : Nat) (clone : α → α) :
    ∃ m : Matrix α, Gen.Macros.matrix_empty es clone = .ok m ∧ m.order = .rowMajor ∧ m.Coh ∧ m.nrows = 0 ∧ m.ncols = 0 ∧
      m.data = #[] :=
  ⟨_, matrix_empty_bridge es clone, rfl, ⟨rfl⟩, rfl, rfl, rfl⟩

/-! ### logical content: `row_vec!`, `col_vec!` -/

theorem fromRow_order (row : List α) : (Matrix.fromRow row).order = .rowMajor := rfl
theorem fromCol_order (col : List α) : (Matrix.fromCol col).order = .rowMajor := rfl

/-- `row_vec![e₁, …, eₖ]`: `1 × k`, the elements in order -/
theorem row_vec_list_logical (es : Nat) (clone : α → α) (elems : List α) :
    ∃ m, Gen.Macros.row_vec_list es clone elems = .ok m ∧ m.order = .rowMajor ∧ m.Coh ∧ m.nrows = 1 ∧
      m.ncols = elems.length ∧ ∀ j, j < elems.length → m.at? 0 j = elems[j]? := by
  obtain ⟨hcoh, hr, hc, hat⟩ := C19.fromRow_spec elems
  exact ⟨_, row_vec_list_bridge es clone elems, rfl, hcoh, hr, hc, hat⟩

/-- `col_vec![e₁, …, eₖ]`: `k × 1`, the elements in order -/
theorem col_vec_list_logical (es : Nat) (clone : α → α) (elems : List α) :
    ∃ m, Gen.Macros.col_vec_list es clone elems = .ok m ∧ m.order = .rowMajor ∧ m.Coh ∧ m.nrows = elems.length ∧
      m.ncols = 1 ∧ ∀ i, i < elems.length → m.at? i 0 = elems[i]? := by
  obtain ⟨hcoh, hr, hc, hat⟩ := C19.fromCol_spec elems
  exact ⟨_, col_vec_list_bridge es clone elems, rfl, hcoh, hr, hc, hat⟩

theorem row_vec_repeat_spec (es : Nat) (clone : α → α) (elem : α) (n : Nat) :
    Gen.Macros.row_vec_repeat es clone elem n =
      if es * n > isizeMax then .error (.panic "capacity overflow")
      else .ok (Matrix.fromRow (vecFromElem clone elem n)) := by
  rw [row_vec_repeat_bridge]
  unfold Matrix.ofVecMacro Vec.reserveExact
  by_cases h : es * n > isizeMax <;> simp [h, bind, Except.bind, pure, Except.pure]

theorem col_vec_repeat_spec (es : Nat) (clone : α → α) (elem : α) (n : Nat) :
    Gen.Macros.col_vec_repeat es clone elem n =
      if es * n > isizeMax then .error (.panic "capacity overflow")
      else .ok (Matrix.fromCol (vecFromElem clone elem n)) := by
  rw [col_vec_repeat_bridge]
  unfold Matrix.ofVecMacro Vec.reserveExact
  by_cases h : es * n > isizeMax <;> simp [h, bind, Except.bind, pure, Except.pure]

/-- `row_vec![elem; n]`: `1 × n`; all slots but the LAST hold clones -/
theorem row_vec_repeat_logical (es : Nat) (clone : α → α) (elem : α) (n : Nat) (h : es * n ≤ isizeMax) :
    ∃ m, Gen.Macros.row_vec_repeat es clone elem n = .ok m ∧ m.order = .rowMajor ∧ m.Coh ∧ m.nrows = 1 ∧ m.ncols = n ∧
      ∀ j, j < n → m.at? 0 j = some (if j + 1 < n then clone elem else elem) := by
  have hn : ¬ es * n > isizeMax := by omega
  obtain ⟨hcoh, hr, hc, hat⟩ := C19.fromRow_spec (vecFromElem clone elem n)
  rw [vecFromElem_length] at hc hat
  refine ⟨_, by rw [row_vec_repeat_spec]; simp only [hn, ↓reduceIte], rfl, hcoh, hr, hc, ?_⟩
  intro j hj
  rw [hat j hj, vecFromElem_getElem? _ _ _ _ hj]

/-- `col_vec![elem; n]`: `n × 1`; all slots but the LAST hold clones -/
theorem col_vec_repeat_logical (es : Nat) (clone : α → α) (elem : α) (n : Nat) (h : es * n ≤ isizeMax) :
    ∃ m, Gen.Macros.col_vec_repeat es clone elem n = .ok m ∧ m.order = .rowMajor ∧ m.Coh ∧ m.nrows = n ∧ m.ncols = 1 ∧
      ∀ i, i < n → m.at? i 0 = some (if i + 1 < n then clone elem else elem) := by
  have hn : ¬ es * n > isizeMax := by omega
  obtain ⟨hcoh, hr, hc, hat⟩ := C19.fromCol_spec (vecFromElem clone elem n)
  rw [vecFromElem_length] at hr hat
  refine ⟨_, by rw [col_vec_repeat_spec]; simp only [hn, ↓reduceIte], rfl, hcoh, hr, hc, ?_⟩
  intro i hi
  rw [hat i hi, vecFromElem_getElem? _ _ _ _ hi]

/-- `row_vec![]` is `1 × 0`, `col_vec![]` is `0 × 1` (NOT the `0 × 0` of `matrix![]`) -/
theorem empty_vec_logical (es : Nat) (clone : α → α) :
    (∃ m : Matrix α, Gen.Macros.row_vec_empty es clone = .ok m ∧ m.Coh ∧ m.nrows = 1 ∧ m.ncols = 0 ∧ m.data = #[]) ∧
    (∃ m : Matrix α, Gen.Macros.col_vec_empty es clone = .ok m ∧ m.Coh ∧ m.nrows = 0 ∧ m.ncols = 1 ∧ m.data = #[]) :=
  ⟨⟨_, row_vec_empty_bridge es clone, ⟨rfl⟩, rfl, rfl, rfl⟩, ⟨_, col_vec_empty_bridge es clone, ⟨rfl⟩, rfl, rfl, rfl⟩⟩

end Matreex.BridgeT19

/-! ### the model's macro forms are the source -/

namespace Matreex.C19
open Matreex
variable {α : Type}

/-- C19, the macros: for every form a caller can write, `matrix!`, `row_vec!` and `col_vec!` — the arm macro_rules selects
for it and that arm's expansion, both regenerated from src/macros.rs — compute the model's meaning of the form (first three
conjuncts), and every arm taken by itself is the constructor / conversion the documentation describes, with the arguments
where the documentation puts them (the rest); all argument values, the panics included; no hypothesis -/
theorem macros_are_the_source (es : Nat) (clone : α → α) :
    (∀ inp, Gen.Macros.matrix es clone inp = Matrix.ofMatrixMacro es clone inp) ∧
    (∀ inp, Gen.Macros.row_vec es clone inp = Matrix.ofVecMacro es clone Matrix.fromRow inp) ∧
    (∀ inp, Gen.Macros.col_vec es clone inp = Matrix.ofVecMacro es clone Matrix.fromCol inp) ∧
    Gen.Macros.matrix_empty es clone = .ok (Matrix.empty : Matrix α) ∧
    (∀ elem ncols nrows, Gen.Macros.matrix_fill es clone elem ncols nrows =
      unwrapOrPanic (Matrix.withValue es ⟨nrows, ncols⟩ elem)) ∧
    (∀ elems nrows, Gen.Macros.matrix_repeat_row es clone elems nrows =
      (do Vec.reserveExact (es * elems.length) nrows
          pure (Matrix.fromArrays elems.length (vecFromElem (List.map clone) elems nrows)))) ∧
    (∀ C rows, Gen.Macros.matrix_rows es clone C rows = .ok (Matrix.fromArrays C rows)) ∧
    Gen.Macros.row_vec_empty es clone = .ok (Matrix.fromRow ([] : List α)) ∧
    (∀ elem n, Gen.Macros.row_vec_repeat es clone elem n =
      (do Vec.reserveExact es n
          pure (Matrix.fromRow (vecFromElem clone elem n)))) ∧
    (∀ elems, Gen.Macros.row_vec_list es clone elems = .ok (Matrix.fromRow elems)) ∧
    Gen.Macros.col_vec_empty es clone = .ok (Matrix.fromCol ([] : List α)) ∧
    (∀ elem n, Gen.Macros.col_vec_repeat es clone elem n =
      (do Vec.reserveExact es n
          pure (Matrix.fromCol (vecFromElem clone elem n)))) ∧
    (∀ elems, Gen.Macros.col_vec_list es clone elems = .ok (Matrix.fromCol elems)) :=
  ⟨BridgeT19.matrix_bridge es clone, BridgeT19.row_vec_bridge es clone, BridgeT19.col_vec_bridge es clone,
   BridgeT19.matrix_empty_bridge es clone, BridgeT19.matrix_fill_bridge es clone,
   BridgeT19.matrix_repeat_row_bridge es clone, BridgeT19.matrix_rows_bridge es clone,
   BridgeT19.row_vec_empty_bridge es clone, BridgeT19.row_vec_repeat_bridge es clone,
   BridgeT19.row_vec_list_bridge es clone,
   BridgeT19.col_vec_empty_bridge es clone, BridgeT19.col_vec_repeat_bridge es clone,
   BridgeT19.col_vec_list_bridge es clone⟩

/-! ### non-vacuity (`es = 4`; `id` is the `Clone` of a `Copy` type, `(· + 100)` a clone that marks its result) -/

-- matrix![[1, 2, 3], [4, 5, 6]]
example : Gen.Macros.matrix 4 id (.rows 3 [[1, 2, 3], [4, 5, 6]]) = .ok ⟨.rowMajor, ⟨2, 3⟩, #[1, 2, 3, 4, 5, 6]⟩ := by rfl
example : (Gen.Macros.matrix 4 id (.rows 3 [[1, 2, 3], [4, 5, 6]])).map (fun m => (m.nrows, m.ncols, m.at? 1 0, m.at? 0 2)) =
    .ok (2, 3, some 4, some 3) := by rfl
-- matrix![[7; 3]; 2]: 2 rows, 3 columns
example : Gen.Macros.matrix 4 id (.fill 7 3 2) = .ok ⟨.rowMajor, ⟨2, 3⟩, #[7, 7, 7, 7, 7, 7]⟩ := by rfl
example : (Gen.Macros.matrix 4 id (.fill 7 3 2)).map (fun m => (m.nrows, m.ncols)) = .ok (2, 3) := by rfl
-- matrix![[1, 2]; 3]: the first two rows are clones, the last one is the row written
example : Gen.Macros.matrix 4 (· + 100) (.repeatRow [1, 2] 3) = .ok ⟨.rowMajor, ⟨3, 2⟩, #[101, 102, 101, 102, 1, 2]⟩ := by rfl
example : Gen.Macros.matrix 4 id (.repeatRow [1, 2, 3] 2) = Gen.Macros.matrix 4 id (.rows 3 [[1, 2, 3], [1, 2, 3]]) := by rfl
-- row_vec![1, 2, 3], col_vec![0; 4], row_vec![0; 3] with a marking clone
example : Gen.Macros.row_vec 4 id (.list [1, 2, 3]) = .ok ⟨.rowMajor, ⟨1, 3⟩, #[1, 2, 3]⟩ := by rfl
example : Gen.Macros.col_vec 4 id (.list [1, 2, 3]) = .ok ⟨.rowMajor, ⟨3, 1⟩, #[1, 2, 3]⟩ := by rfl
example : Gen.Macros.col_vec 4 id (.repeat 0 4) = .ok ⟨.rowMajor, ⟨4, 1⟩, #[0, 0, 0, 0]⟩ := by rfl
example : Gen.Macros.row_vec 4 (· + 100) (.repeat 0 3) = .ok ⟨.rowMajor, ⟨1, 3⟩, #[100, 100, 0]⟩ := by rfl
-- the empty forms: 0 × 0, 1 × 0, 0 × 1
example : (Gen.Macros.matrix 4 id .empty : M (Matrix Nat)) = .ok ⟨.rowMajor, ⟨0, 0⟩, #[]⟩ := by rfl
example : (Gen.Macros.row_vec 4 id .empty : M (Matrix Nat)) = .ok ⟨.rowMajor, ⟨1, 0⟩, #[]⟩ := by rfl
example : (Gen.Macros.col_vec 4 id .empty : M (Matrix Nat)) = .ok ⟨.rowMajor, ⟨0, 1⟩, #[]⟩ := by rfl
example : (Gen.Macros.row_vec 4 id (.repeat 9 0) : M (Matrix Nat)) = .ok ⟨.rowMajor, ⟨1, 0⟩, #[]⟩ := by rfl
-- the panics: the displayed error of with_value, the allocation of vec![x; n]
example : Gen.Macros.matrix 1 id (.fill 0 usizeMax 2) = .error (.panic "SizeOverflow") := by rfl
example : Gen.Macros.matrix 4 id (.fill 0 (2 ^ 61) 1) = .error (.panic "CapacityOverflow") := by rfl
example : Gen.Macros.row_vec 4 id (.repeat 0 (2 ^ 61)) = .error (.panic "capacity overflow") := by rfl
example : Gen.Macros.matrix 4 id (.repeatRow [1, 2] (2 ^ 60)) = .error (.panic "capacity overflow") := by rfl

end Matreex.C19
