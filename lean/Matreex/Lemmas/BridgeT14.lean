/-
Bridge for `Matrix::resize`, `Matrix::clear`, `shrink_to_fit` / `shrink_to`, `map`, `map_ref`, `apply` of src/lib.rs and
`scalar_operation`, `scalar_operation_consume_self`, `scalar_operation_assign` of src/arithmetic.rs: the functions
regenerated from the source on every run (`Gen/T14Gen.lean`, translator T14) compute exactly what the hand-written
model computes — same result, same error decision, same faults, and under a fault schedule the same surviving world
and outcome:

* `resize_bridge`                 generated `resize`          = `Matrix.resize`           (effect-free `Default`)
* `resize_fx_bridge`              generated `resize_fx φ mk`  = `sizeDecision`, then `Effects.resizeFixed φ mk`
* `clear_fx_bridge`               generated `clear_fx φ`      = `Effects.clearF φ`
* `clear_bridge`                  generated `clear`           = the 0×0 matrix with no elements (what `History` / `Ledger` use)
* `shrink_to_fit_bridge`, `shrink_to_bridge`                  the matrix is unchanged
* `map_bridge`, `map_ref_bridge`                              = `Matrix.map`
* `apply_bridge`                                              = `.ok { m with data := m.data.map f }`
* `scalar_operation_bridge`, `scalar_operation_consume_self_bridge`   = `Matrix.scalarOperation`
* `scalar_operation_assign_bridge`                            = `.ok (Matrix.scalarAssign ..)`

No hypotheses anywhere.  The proofs do not mention generated temporaries or Rust locals: the calls both sides share
are case-split in the order they occur, the branch condition is decided once (`size ≤ len` or not, in whichever
spelling), the statement combinators (`fxThen`, `fxEff`, `fxGuarded`, `fxResizeWith`) are evaluated on the outcomes
of the model's primitives, and a walk `(List.range n).mapM f` is compared with `Array.map` position by position.
-/
import Matreex.Gen.T14Gen
import Matreex.Model.Construct
import Matreex.Model.Elementwise
import Matreex.Model.Effects
import Matreex.Lemmas.Bridge
import Matreex.Lemmas.BridgeT9

namespace Matreex.BridgeT14
open Matreex Matreex.Effects
open Matreex.BridgeT9 (ok_bind pure_bind' error_bind getUnchecked_ok reserve_ok append_rest)
set_option linter.unusedSimpArgs false
set_option linter.unusedVariables false
variable {α β γ σ : Type}

/-! ### walks -/

/-- a generated walk over every position of a buffer = `Array.map` -/
theorem map_walk (d : Array α) (g : α → β) (f : Nat → M β)
    (hf : ∀ k (h : k < d.size), f k = .ok (g d[k])) :
    (List.range d.size).mapM f = .ok (d.map g).toList := by
  obtain ⟨l, h1, h2, h3⟩ := mapM_range_ok_aux d.size f (fun k => (d.map g)[k]?) (by
      intro k hk
      exact ⟨g d[k], hf k hk, by simp [hk]⟩)
  rw [h1]
  congr 1
  apply List.ext_getElem?
  intro k
  by_cases hk : k < d.size
  · rw [h3 k hk, Array.getElem?_toList]
  · have e1 : l[k]? = none := by
      apply List.getElem?_eq_none; omega
    have e2 : (d.map g).toList[k]? = none := by
      apply List.getElem?_eq_none
      simp only [Array.length_toList, Array.size_map]; omega
    rw [e1, e2]

/-- one position of a generated walk: do the in-bounds read, then compare -/
macro "walk_step" : tactic => `(tactic| (
  intros
  simp only [getUnchecked_ok, ok_bind, pure_bind', *]
  try rfl))

theorem cap_of_check {es n k : Nat} (hc : checkSize es n = .ok k) : es * n ≤ isizeMax := by
  unfold checkSize at hc
  by_cases h : es * n > isizeMax
  · simp [h] at hc
  · omega

/-- the proof of the four by-value bridges: capacity check, the allocation `collect` makes, the walk -/
macro "map_new_bridge" f:ident m:ident g:term : tactic => `(tactic| (
  unfold $f:ident
  simp only [Matrix.map, Matrix.scalarOperation, mapDecision, Bridge.check_size, ok_bind, pure_bind', Matrix.hdr]
  cases hc : checkSize _ (Array.size (Matrix.data $m)) with
  | error e => rfl
  | ok n =>
    simp only [bindErr, reserve_ok (cap_of_check hc), ok_bind]
    rw [map_walk (Matrix.data $m) $g]
    · rfl
    · walk_step))

theorem map_bridge (esT esU : Nat) (m : Matrix α) (f : α → β) :
    Gen.Matrix.map esT esU m.hdr m.data f = m.map esU f := by
  map_new_bridge Gen.Matrix.map m f

theorem map_ref_bridge (esT esU : Nat) (m : Matrix α) (f : α → β) :
    Gen.Matrix.map_ref esT esU m.hdr m.data f = m.map esU f := by
  map_new_bridge Gen.Matrix.map_ref m f

/-- the scalar is the closure's *second* argument -/
theorem scalar_operation_bridge (esT esS esU : Nat) (m : Matrix α) (s : σ) (op : α → σ → γ) :
    Gen.Matrix.scalar_operation esT esS esU m.hdr m.data s op = m.scalarOperation esU s op := by
  map_new_bridge Gen.Matrix.scalar_operation m (fun x => op x s)

theorem scalar_operation_consume_self_bridge (esT esS esU : Nat) (m : Matrix α) (s : σ) (op : α → σ → γ) :
    Gen.Matrix.scalar_operation_consume_self esT esS esU m.hdr m.data s op = m.scalarOperation esU s op := by
  map_new_bridge Gen.Matrix.scalar_operation_consume_self m (fun x => op x s)

/-- the proof of the two in-place bridges: the walk reaches every position, nothing of the old buffer is left -/
macro "map_inplace_bridge" f:ident m:ident g:term : tactic => `(tactic| (
  unfold $f:ident
  simp only [Matrix.scalarAssign, Matrix.hdr]
  rw [map_walk (Matrix.data $m) $g]
  · simp only [ok_bind, pure_bind']
    rw [append_rest (Matrix.data $m) _ (by simp)]
    first | rfl | (simp only [Array.toArray_toList]; rfl) | simp [pure, Except.pure, ← Array.toList_map]
  · walk_step))

theorem scalar_operation_assign_bridge (esT esS : Nat) (m : Matrix α) (s : σ) (op : α → σ → α) :
    Gen.Matrix.scalar_operation_assign esT esS m.hdr m.data s op = .ok (m.scalarAssign s op) := by
  map_inplace_bridge Gen.Matrix.scalar_operation_assign m (fun x => op x s)

theorem apply_bridge (esT : Nat) (m : Matrix α) (f : α → α) :
    Gen.Matrix.apply esT m.hdr m.data f = .ok { m with data := m.data.map f } := by
  map_inplace_bridge Gen.Matrix.apply m f

/-- `apply` is `scalar_operation_assign` with a closure that ignores the scalar -/
theorem apply_is_scalarAssign (esT : Nat) (m : Matrix α) (f : α → α) :
    Gen.Matrix.apply esT m.hdr m.data f = .ok (m.scalarAssign () (fun x _ => f x)) := by
  rw [apply_bridge]; rfl

/-! ### `resize`, `clear`, `shrink_*` with an effect-free `Default` -/

theorem resize_bridge (es : Nat) (m : Matrix α) (s : Shape) (dflt : α) :
    Gen.Matrix.resize es m.hdr m.data s dflt = m.resize es s dflt := by
  unfold Gen.Matrix.resize Matrix.resize sizeDecision
  simp only [Matrix.hdr, bind_assoc, pure_bind]
  rcases Gen.Shape.try_to_axis_shape s m.order with f | e | sh
  · rfl
  · rfl
  · simp only [ok_bind, bindErr]
    rcases Gen.AxisShape.size sh with f | n
    · rfl
    · simp only [ok_bind]
      rcases Gen.Matrix.check_size es n with f | e | size
      · rfl
      · rfl
      · simp only [ok_bind, bindErr, pure_bind, bind_assoc]
        by_cases h : size ≤ m.data.size
        · have h1 : ¬ size > m.data.size := by omega
          have h2 : ¬ m.data.size < size := by omega
          simp [h, h1, h2, resizeData, pure, Except.pure, bind, Except.bind]
        · have h1 : size > m.data.size := by omega
          have h2 : m.data.size < size := by omega
          have h3 : ¬ size ≤ m.data.size := h
          simp only [h, h1, h2, h3, decide_true, decide_false, if_true, if_false, Bool.not_true, Bool.not_false,
            Bool.false_eq_true, not_true_eq_false, not_false_eq_true, ite_true, ite_false]
          cases Vec.reserveExact es size <;> simp [pure, Except.pure, bind, Except.bind]

theorem clear_bridge (es : Nat) (m : Matrix α) :
    Gen.Matrix.clear es m.hdr m.data = .ok { m with shape := ⟨0, 0⟩, data := #[] } := by
  unfold Gen.Matrix.clear
  simp [Matrix.hdr, pure, Except.pure]

theorem shrink_to_fit_bridge (es : Nat) (m : Matrix α) :
    Gen.Matrix.shrink_to_fit es m.hdr m.data = .ok m := by
  unfold Gen.Matrix.shrink_to_fit
  simp [Matrix.hdr, pure, Except.pure]

theorem shrink_to_bridge (es : Nat) (m : Matrix α) (k : Nat) :
    Gen.Matrix.shrink_to es m.hdr m.data k = .ok m := by
  unfold Gen.Matrix.shrink_to
  simp [Matrix.hdr, pure, Except.pure]

/-! ### under a fault schedule -/

theorem fxThen_pure_done (r : Gen.FxR α) :
    Gen.fxThen r (fun w => pure ((Except.ok (), (w, Outcome.done)) : Gen.FxR α)) = .ok r := by
  rcases r with ⟨_ | ⟨⟨⟩⟩, w, _ | _ | _⟩ <;> rfl

theorem fxThen_ok_done (r : Gen.FxR α) :
    Gen.fxThen r (fun w => Except.ok ((Except.ok (), (w, Outcome.done)) : Gen.FxR α)) = .ok r :=
  fxThen_pure_done r

theorem fxThen_done (w : World α) (k : World α → M (Gen.FxR α)) :
    Gen.fxThen (Except.ok (), (w, Outcome.done)) k = k w := rfl

theorem fxThen_eff_done (w : World α) (k : World α → M (Gen.FxR α)) :
    Gen.fxThen (Gen.fxEff (w, Outcome.done)) k = k w := rfl

theorem fxThen_eff_unwound (w : World α) (k : World α → M (Gen.FxR α)) :
    Gen.fxThen (Gen.fxEff (w, Outcome.unwound)) k = .ok (.ok (), (w, .unwound)) := rfl

theorem fxThen_eff_aborted (w : World α) (k : World α → M (Gen.FxR α)) :
    Gen.fxThen (Gen.fxEff (w, Outcome.aborted)) k = .ok (.ok (), (w, .aborted)) := rfl

theorem fxThen_unwound (w : World α) (k : World α → M (Gen.FxR α)) :
    Gen.fxThen (Except.ok (), (w, Outcome.unwound)) k = .ok (.ok (), (w, .unwound)) := rfl

theorem fxThen_aborted (w : World α) (k : World α → M (Gen.FxR α)) :
    Gen.fxThen (Except.ok (), (w, Outcome.aborted)) k = .ok (.ok (), (w, .aborted)) := rfl

/-- pushing `Default`s never aborts: there is no second panic -/
theorem growWith_not_aborted (φ : Nat → Bool) (mk : Nat → α) (k : Nat) (w : World α) :
    (growWith φ mk k w).2 ≠ .aborted := by
  induction k generalizing w with
  | zero => simp [growWith]
  | succ k ih =>
    unfold growWith
    by_cases h : φ w.tick
    · simp [h]
    · simp only [h, Bool.false_eq_true, if_false]; exact ih _

theorem axis_size_ok {sh : AxisShape} {n : Nat} (h : Gen.AxisShape.size sh = .ok n) : n = sh.major * sh.minor := by
  unfold Gen.AxisShape.size umul at h
  by_cases hov : sh.major * sh.minor ≤ usizeMax
  · simp [hov, bind, Except.bind, pure, Except.pure] at h; exact h.symm
  · simp [hov, bind, Except.bind] at h

theorem check_size_ok {es n size : Nat} (h : Gen.Matrix.check_size es n = .ok (.ok size)) :
    size = n ∧ es * n ≤ isizeMax := by
  rw [Bridge.check_size] at h
  have h' : checkSize es n = .ok size := by injection h
  refine ⟨?_, cap_of_check h'⟩
  unfold checkSize at h'
  by_cases hc : es * n > isizeMax
  · simp [hc] at h'
  · simp [hc] at h'; exact h'.symm

/-- `clear` under a fault schedule: the statements of the source, in their order, are `Effects.clearF` -/
theorem clear_fx_bridge (φ : Nat → Bool) (es : Nat) (o : Order) (w : World α) :
    Gen.Matrix.clear_fx φ es o w = .ok (.ok (), clearF φ w) := by
  unfold Gen.Matrix.clear_fx clearF
  simp only [fxThen_pure_done, Gen.fxEff]

/-- `resize` under a fault schedule: the shared size decision, then exactly `Effects.resizeFixed` on the world (the
first component is what the function returns when the outcome is `done`) -/
theorem resize_fx_bridge (φ : Nat → Bool) (mk : Nat → α) (es : Nat) (o : Order) (s : Shape) (w : World α) :
    Gen.Matrix.resize_fx φ mk es o s w =
      (do let d ← sizeDecision es s o
          match d with
          | .error e => pure (.error e, (w, Outcome.done))
          | .ok (sh, _) => pure (.ok (), resizeFixed φ mk sh w)) := by
  unfold Gen.Matrix.resize_fx sizeDecision
  simp only [bind_assoc, pure_bind]
  rcases Gen.Shape.try_to_axis_shape s o with f | e | sh
  · rfl
  · rfl
  · simp only [ok_bind, bindErr]
    rcases hn : Gen.AxisShape.size sh with f | n
    · rfl
    · simp only [ok_bind]
      rcases hs : Gen.Matrix.check_size es n with f | e | size
      · rfl
      · rfl
      · obtain ⟨e1, hcap⟩ := check_size_ok hs
        have e2 := axis_size_ok hn
        subst e1; subst e2
        simp only [ok_bind, bindErr, pure_bind, bind_assoc]
        by_cases h : sh.major * sh.minor ≤ w.mat.data.length
        · have h1 : ¬ sh.major * sh.minor > w.mat.data.length := by omega
          have h2 : ¬ w.mat.data.length < sh.major * sh.minor := by omega
          simp only [h, h1, h2, decide_true, decide_false, if_true, if_false, Bool.not_true, Bool.not_false,
            Bool.false_eq_true, not_true_eq_false, not_false_eq_true, ite_true, ite_false, fxThen_pure_done,
            fxThen_ok_done, ok_bind, resizeFixed, Gen.fxEff]
          first | rfl | simp [pure, Except.pure, fxThen_ok_done, bind, Except.bind]
        · have h1 : sh.major * sh.minor > w.mat.data.length := by omega
          have h2 : w.mat.data.length < sh.major * sh.minor := by omega
          have h3 : ¬ sh.major * sh.minor ≤ w.mat.data.length := h
          simp only [h, h1, h2, h3, decide_true, decide_false, if_true, if_false, Bool.not_true, Bool.not_false,
            Bool.false_eq_true, not_true_eq_false, not_false_eq_true, ite_true, ite_false, fxThen_pure_done,
            fxThen_ok_done, ok_bind, resizeFixed, Gen.fxResizeWith, reserve_ok hcap, Gen.fxGuarded]
          have hna := growWith_not_aborted φ mk (sh.major * sh.minor - w.mat.data.length) w
          rcases hg : growWith φ mk (sh.major * sh.minor - w.mat.data.length) w with ⟨w', _ | _ | _⟩
          · simp [Gen.fxEff, fxThen_done, fxThen_pure_done, fxThen_ok_done, ok_bind, pure, Except.pure, bind, Except.bind]
          · rcases ht : truncate φ w.mat.data.length w' with ⟨w'', _ | _ | _⟩ <;>
              simp [Gen.fxEff, ht, fxThen_unwound, fxThen_aborted, fxThen_pure_done, fxThen_ok_done, ok_bind, pure, Except.pure, bind,
                Except.bind]
          · rw [hg] at hna; exact absurd rfl hna

end Matreex.BridgeT14
