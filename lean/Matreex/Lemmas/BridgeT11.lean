/-
Bridge for the `MatrixIndex` machinery of src/index.rs and the element / vector swaps of src/swap.rs: the functions
regenerated from the source on every run (`Gen/T11Gen.lean`, translator T11; trait methods resolved on the text) compute
exactly what the hand-written model functions of `Model/Index.lean` / `Model/Swap.lean` compute — same value, same
error, same fault, same accessor calls in the same order, same buffer.  The C04 / C13 / C10 theorems are about the
model functions; through these equations they are about the source text.

No hypotheses: both sides use the same checked integer functions of `Gen/Core.lean` (`to_flattened`,
`from_wrapping_index`, `AxisIndex::is_out_of_bounds`), the same partial memory primitives (`refUnchecked`, `ptrSwap`)
and the same kernels of `Gen/Kernels.lean`, so the equations hold for every header, length, index and accessor.

The proofs do not mention generated temporaries: both sides are unfolded, the results of the calls they share are
case-split in the order the calls occur, and what remains is closed by evaluation (`m_auto`).
-/
import Matreex.Gen.T11Gen
import Matreex.Model.Swap
import Matreex.Lemmas.BridgeKernels

namespace Matreex.BridgeT11
open Matreex
-- the simp sets below are meant for every harmless rewrite of the source, not only for today's text
set_option linter.unusedSimpArgs false
set_option linter.unusedVariables false
variable {α σ : Type}

theorem bind_def {ε β γ : Type} (x : Except ε β) (f : β → Except ε γ) :
    Except.bind x f = (match x with | .error e => .error e | .ok a => f a) := by cases x <;> rfl
theorem map_def {ε β γ : Type} (x : Except ε β) (f : β → γ) :
    Except.map f x = (match x with | .error e => .error e | .ok a => .ok (f a)) := by cases x <;> rfl

/-- unfold the monad of both sides down to `match`es on the shared calls, split them in order, evaluate -/
macro "m_auto" : tactic => `(tactic| (
  try simp only [bind, pure, Except.pure, bind_def, map_def, bindErr, throw, throwThe, MonadExceptOf.throw]
  repeat' (first | rfl | split)
  all_goals (first | rfl | (subst_vars; first | rfl | simp_all) | simp_all)))

/-! ### `AxisIndex` (the trait's provided `get` / `get_mut` / `index` / `index_mut`, the impl's unchecked accessors) -/

theorem axis_get_unchecked (i : AxisIndex) (h : Hdr) (len : Nat) :
    Gen.MatrixIndex.AxisIndex.get_unchecked i h len = i.resolveUncheckedH h len := by
  simp only [Gen.MatrixIndex.AxisIndex.get_unchecked, AxisIndex.resolveUncheckedH]
  m_auto

theorem axis_get_unchecked_mut (i : AxisIndex) (h : Hdr) (len : Nat) :
    Gen.MatrixIndex.AxisIndex.get_unchecked_mut i h len = i.resolveUncheckedH h len := by
  simp only [Gen.MatrixIndex.AxisIndex.get_unchecked_mut, AxisIndex.resolveUncheckedH]
  m_auto

theorem axis_get (i : AxisIndex) (h : Hdr) (len : Nat) :
    Gen.MatrixIndex.AxisIndex.get i h len = i.resolveH h len := by
  simp only [Gen.MatrixIndex.AxisIndex.get, Gen.MatrixIndex.AxisIndex.ensure_in_bounds, AxisIndex.resolveH,
    axis_get_unchecked]
  m_auto

theorem axis_get_mut (i : AxisIndex) (h : Hdr) (len : Nat) :
    Gen.MatrixIndex.AxisIndex.get_mut i h len = i.resolveH h len := by
  simp only [Gen.MatrixIndex.AxisIndex.get_mut, Gen.MatrixIndex.AxisIndex.ensure_in_bounds, AxisIndex.resolveH,
    axis_get_unchecked_mut]
  m_auto

theorem axis_index (i : AxisIndex) (h : Hdr) (len : Nat) :
    Gen.MatrixIndex.AxisIndex.index i h len = indexOp (i.resolveH h len) := by
  simp only [Gen.MatrixIndex.AxisIndex.index, axis_get, indexOp]
  m_auto

theorem axis_index_mut (i : AxisIndex) (h : Hdr) (len : Nat) :
    Gen.MatrixIndex.AxisIndex.index_mut i h len = indexOp (i.resolveH h len) := by
  simp only [Gen.MatrixIndex.AxisIndex.index_mut, axis_get_mut, indexOp]
  m_auto

/-! ### `WrappingIndex` -/

theorem wrapping_get_unchecked (i : WrappingIndex) (h : Hdr) (len : Nat) :
    Gen.MatrixIndex.WrappingIndex.get_unchecked i h len = i.resolveUncheckedH h len := by
  simp only [Gen.MatrixIndex.WrappingIndex.get_unchecked, WrappingIndex.resolveUncheckedH, axis_get_unchecked]
  m_auto

theorem wrapping_get_unchecked_mut (i : WrappingIndex) (h : Hdr) (len : Nat) :
    Gen.MatrixIndex.WrappingIndex.get_unchecked_mut i h len = i.resolveUncheckedH h len := by
  simp only [Gen.MatrixIndex.WrappingIndex.get_unchecked_mut, WrappingIndex.resolveUncheckedH, axis_get_unchecked_mut]
  m_auto

theorem wrapping_get (i : WrappingIndex) (h : Hdr) (len : Nat) :
    Gen.MatrixIndex.WrappingIndex.get i h len = i.resolveH h len := by
  simp only [Gen.MatrixIndex.WrappingIndex.get, Gen.MatrixIndex.WrappingIndex.ensure_in_bounds,
    Gen.MatrixIndex.WrappingIndex.is_out_of_bounds, Gen.Matrix.is_empty, WrappingIndex.resolveH, wrapping_get_unchecked]
  m_auto

theorem wrapping_get_mut (i : WrappingIndex) (h : Hdr) (len : Nat) :
    Gen.MatrixIndex.WrappingIndex.get_mut i h len = i.resolveH h len := by
  simp only [Gen.MatrixIndex.WrappingIndex.get_mut, Gen.MatrixIndex.WrappingIndex.ensure_in_bounds,
    Gen.MatrixIndex.WrappingIndex.is_out_of_bounds, Gen.Matrix.is_empty, WrappingIndex.resolveH,
    wrapping_get_unchecked_mut]
  m_auto

theorem wrapping_index (i : WrappingIndex) (h : Hdr) (len : Nat) :
    Gen.MatrixIndex.WrappingIndex.index i h len = indexOp (i.resolveH h len) := by
  simp only [Gen.MatrixIndex.WrappingIndex.index, wrapping_get, indexOp]
  m_auto

theorem wrapping_index_mut (i : WrappingIndex) (h : Hdr) (len : Nat) :
    Gen.MatrixIndex.WrappingIndex.index_mut i h len = indexOp (i.resolveH h len) := by
  simp only [Gen.MatrixIndex.WrappingIndex.index_mut, wrapping_get_mut, indexOp]
  m_auto

/-! ### `I: AsIndex` — caller code: the accessor is read exactly where the text reads it -/

/-- `AxisIndex::from_index` on an accessor: the model's `readAccessor` (same answers, same final state, same calls in
the same order), appended to the calls made before -/
theorem from_index_acc (acc : Accessor σ) (s : σ) (c0 : List AccCall) (o : Order) :
    Gen.AxisIndex.from_index_acc acc (s, c0) o =
      .ok ((AxisIndex.readAccessor acc s o).1, (AxisIndex.readAccessor acc s o).2.1,
        c0 ++ (AxisIndex.readAccessor acc s o).2.2) := by
  cases o <;> simp only [Gen.AxisIndex.from_index_acc, Gen.accRow, Gen.accCol, AxisIndex.readAccessor] <;> m_auto

theorem asindex_get (h : Hdr) (len : Nat) (acc : Accessor σ) (s : σ) :
    Gen.MatrixIndex.AsIndex.get acc (s, []) h len = h.getAcc len acc s := by
  simp only [Gen.MatrixIndex.AsIndex.get, from_index_acc, Hdr.getAcc, axis_get, List.nil_append]
  m_auto

theorem asindex_get_mut (h : Hdr) (len : Nat) (acc : Accessor σ) (s : σ) :
    Gen.MatrixIndex.AsIndex.get_mut acc (s, []) h len = h.getAcc len acc s := by
  simp only [Gen.MatrixIndex.AsIndex.get_mut, from_index_acc, Hdr.getAcc, axis_get_mut, List.nil_append]
  m_auto

/-- the `[]` operators on caller code: the same reading of the accessor, then a panic on the error -/
theorem asindex_index (h : Hdr) (len : Nat) (acc : Accessor σ) (s : σ) :
    (Gen.MatrixIndex.AsIndex.index acc (s, []) h len).map (·.1) = indexOp ((h.getAcc len acc s).map (·.1)) := by
  simp only [Gen.MatrixIndex.AsIndex.index, asindex_get, indexOp]
  generalize h.getAcc len acc s = g
  rcases g with _ | ⟨_ | _, _, _⟩ <;> rfl

theorem asindex_index_mut (h : Hdr) (len : Nat) (acc : Accessor σ) (s : σ) :
    (Gen.MatrixIndex.AsIndex.index_mut acc (s, []) h len).map (·.1) = indexOp ((h.getAcc len acc s).map (·.1)) := by
  simp only [Gen.MatrixIndex.AsIndex.index_mut, asindex_get_mut, indexOp]
  generalize h.getAcc len acc s = g
  rcases g with _ | ⟨_ | _, _, _⟩ <;> rfl

/-- the plain indices `Index`, `(usize, usize)`, `[usize; 2]` -/
theorem getIdx_eq (h : Hdr) (len r c : Nat) :
    (h.getAcc len (Accessor.plain r c) ()).map (·.1) = h.getIdx len r c := by
  simp only [Hdr.getIdx]
  m_auto

/-! ### the generic `Matrix` wrappers and the `[]` operators: the index's own accessor, applied to the matrix -/

theorem matrix_get (h : Hdr) (len : Nat) (i : Gen.MIdx) : Gen.Matrix.get h len i = i.get h len := by
  simp only [Gen.Matrix.get]; m_auto
theorem matrix_get_mut (h : Hdr) (len : Nat) (i : Gen.MIdx) : Gen.Matrix.get_mut h len i = i.get_mut h len := by
  simp only [Gen.Matrix.get_mut]; m_auto
theorem matrix_get_unchecked (h : Hdr) (len : Nat) (i : Gen.MIdx) :
    Gen.Matrix.get_unchecked h len i = i.get_unchecked h len := by
  simp only [Gen.Matrix.get_unchecked]; m_auto
theorem matrix_get_unchecked_mut (h : Hdr) (len : Nat) (i : Gen.MIdx) :
    Gen.Matrix.get_unchecked_mut h len i = i.get_unchecked_mut h len := by
  simp only [Gen.Matrix.get_unchecked_mut]; m_auto
theorem matrix_index (h : Hdr) (len : Nat) (i : Gen.MIdx) : Gen.Matrix.index h len i = i.index h len := by
  simp only [Gen.Matrix.index]; m_auto
theorem matrix_index_mut (h : Hdr) (len : Nat) (i : Gen.MIdx) : Gen.Matrix.index_mut h len i = i.index_mut h len := by
  simp only [Gen.Matrix.index_mut]; m_auto

/-- `matrix.get(I)` / `get_mut(I)` / `matrix[I]` with a caller-defined index, all answers and calls included -/
theorem get_accessor (h : Hdr) (len : Nat) (acc : Accessor σ) (s : σ) :
    Gen.Matrix.get h len (Gen.MatrixIndex.AsIndex.ops acc s) = (h.getAcc len acc s).map (·.1) ∧
    Gen.Matrix.get_mut h len (Gen.MatrixIndex.AsIndex.ops acc s) = (h.getAcc len acc s).map (·.1) ∧
    Gen.Matrix.index h len (Gen.MatrixIndex.AsIndex.ops acc s) = indexOp ((h.getAcc len acc s).map (·.1)) ∧
    Gen.Matrix.index_mut h len (Gen.MatrixIndex.AsIndex.ops acc s) = indexOp ((h.getAcc len acc s).map (·.1)) := by
  simp only [matrix_get, matrix_get_mut, matrix_index, matrix_index_mut, Gen.MatrixIndex.AsIndex.ops, asindex_get,
    asindex_get_mut, asindex_index, asindex_index_mut, and_self]

/-- `matrix.get((r, c))`, `matrix.get_mut((r, c))`, `matrix[(r, c)]` are `Hdr.getIdx` (C04's subject) -/
theorem get_plain (h : Hdr) (len r c : Nat) :
    Gen.Matrix.get h len (Gen.MatrixIndex.AsIndex.ops (Accessor.plain r c) ()) = h.getIdx len r c ∧
    Gen.Matrix.get_mut h len (Gen.MatrixIndex.AsIndex.ops (Accessor.plain r c) ()) = h.getIdx len r c ∧
    Gen.Matrix.index h len (Gen.MatrixIndex.AsIndex.ops (Accessor.plain r c) ()) = indexOp (h.getIdx len r c) ∧
    Gen.Matrix.index_mut h len (Gen.MatrixIndex.AsIndex.ops (Accessor.plain r c) ()) = indexOp (h.getIdx len r c) := by
  have := get_accessor h len (Accessor.plain r c) ()
  simpa only [getIdx_eq] using this

/-- the same with a `WrappingIndex` (C13's subject), checked, unchecked and `[]` -/
theorem get_wrapping (h : Hdr) (len : Nat) (i : WrappingIndex) :
    Gen.Matrix.get h len (Gen.MatrixIndex.WrappingIndex.ops i) = i.resolveH h len ∧
    Gen.Matrix.get_mut h len (Gen.MatrixIndex.WrappingIndex.ops i) = i.resolveH h len ∧
    Gen.Matrix.get_unchecked h len (Gen.MatrixIndex.WrappingIndex.ops i) = i.resolveUncheckedH h len ∧
    Gen.Matrix.get_unchecked_mut h len (Gen.MatrixIndex.WrappingIndex.ops i) = i.resolveUncheckedH h len ∧
    Gen.Matrix.index h len (Gen.MatrixIndex.WrappingIndex.ops i) = indexOp (i.resolveH h len) ∧
    Gen.Matrix.index_mut h len (Gen.MatrixIndex.WrappingIndex.ops i) = indexOp (i.resolveH h len) := by
  simp only [matrix_get, matrix_get_mut, matrix_get_unchecked, matrix_get_unchecked_mut, matrix_index, matrix_index_mut,
    Gen.MatrixIndex.WrappingIndex.ops, wrapping_get, wrapping_get_mut, wrapping_get_unchecked,
    wrapping_get_unchecked_mut, wrapping_index, wrapping_index_mut, and_self]

/-- and with the crate-internal `AxisIndex` -/
theorem get_axis (h : Hdr) (len : Nat) (i : AxisIndex) :
    Gen.Matrix.get h len (Gen.MatrixIndex.AxisIndex.ops i) = i.resolveH h len ∧
    Gen.Matrix.get_mut h len (Gen.MatrixIndex.AxisIndex.ops i) = i.resolveH h len ∧
    Gen.Matrix.get_unchecked h len (Gen.MatrixIndex.AxisIndex.ops i) = i.resolveUncheckedH h len ∧
    Gen.Matrix.get_unchecked_mut h len (Gen.MatrixIndex.AxisIndex.ops i) = i.resolveUncheckedH h len ∧
    Gen.Matrix.index h len (Gen.MatrixIndex.AxisIndex.ops i) = indexOp (i.resolveH h len) ∧
    Gen.Matrix.index_mut h len (Gen.MatrixIndex.AxisIndex.ops i) = indexOp (i.resolveH h len) := by
  simp only [matrix_get, matrix_get_mut, matrix_get_unchecked, matrix_get_unchecked_mut, matrix_index, matrix_index_mut,
    Gen.MatrixIndex.AxisIndex.ops, axis_get, axis_get_mut, axis_get_unchecked, axis_get_unchecked_mut, axis_index,
    axis_index_mut, and_self]

/-! ### `swap`, `swap_rows`, `swap_cols` -/

/-- `Matrix::swap(i, j)` for any two index kinds: the model's `swapElems` on the two `get_mut` resolutions, both taken
against the matrix as it is before the exchange, the second only if the first succeeded -/
theorem swap_bridge (m : Matrix α) (i j : Gen.MIdx) :
    Gen.Matrix.swap m.hdr m.data i j =
      BridgeKernels.view (m.swapElems (i.get_mut m.hdr m.data.size) (j.get_mut m.hdr m.data.size)) := by
  simp only [Gen.Matrix.swap, matrix_get_mut, Matrix.swapElems, BridgeKernels.view]
  generalize i.get_mut m.hdr m.data.size = ri
  generalize j.get_mut m.hdr m.data.size = rj
  rcases ri with _ | _ | x <;> try rfl
  rcases rj with _ | _ | y <;> try rfl
  simp only [bind, pure, Except.pure, Except.bind, Except.map]
  cases ptrSwap m.data x y <;> rfl

/-- `matrix.swap((r1, c1), (r2, c2))`: the form the history model and C10 / C01 use -/
theorem swap_plain (m : Matrix α) (r1 c1 r2 c2 : Nat) :
    Gen.Matrix.swap m.hdr m.data (Gen.MatrixIndex.AsIndex.ops (Accessor.plain r1 c1) ())
        (Gen.MatrixIndex.AsIndex.ops (Accessor.plain r2 c2) ()) =
      BridgeKernels.view (m.swapElems (m.getIdx r1 c1) (m.getIdx r2 c2)) := by
  rw [swap_bridge]
  simp only [Gen.MatrixIndex.AsIndex.ops, asindex_get_mut, getIdx_eq, Matrix.getIdx]

/-- `matrix.swap(w1, w2)` with two wrapping indices, and the two mixed forms -/
theorem swap_wrapping (m : Matrix α) (w1 w2 : WrappingIndex) (r c : Nat) :
    Gen.Matrix.swap m.hdr m.data (Gen.MatrixIndex.WrappingIndex.ops w1) (Gen.MatrixIndex.WrappingIndex.ops w2) =
      BridgeKernels.view (m.swapElems (w1.resolve m) (w2.resolve m)) ∧
    Gen.Matrix.swap m.hdr m.data (Gen.MatrixIndex.AsIndex.ops (Accessor.plain r c) ()) (Gen.MatrixIndex.WrappingIndex.ops w2) =
      BridgeKernels.view (m.swapElems (m.getIdx r c) (w2.resolve m)) ∧
    Gen.Matrix.swap m.hdr m.data (Gen.MatrixIndex.WrappingIndex.ops w1) (Gen.MatrixIndex.AsIndex.ops (Accessor.plain r c) ()) =
      BridgeKernels.view (m.swapElems (w1.resolve m) (m.getIdx r c)) := by
  simp only [swap_bridge, Gen.MatrixIndex.AsIndex.ops, Gen.MatrixIndex.WrappingIndex.ops, asindex_get_mut, getIdx_eq,
    wrapping_get_mut, Matrix.getIdx, WrappingIndex.resolve, and_self]

theorem swap_rows_bridge (es : Nat) (m : Matrix α) (a b : Nat) :
    Gen.Matrix.swap_rows es m.hdr m.data a b = BridgeKernels.view (m.swapRows es a b) := by
  obtain ⟨o, sh, d⟩ := m
  have hM := BridgeKernels.swap_major_kernel es ⟨o, sh, d⟩ a b
  have hm := BridgeKernels.swap_minor_kernel es ⟨o, sh, d⟩ a b
  cases o <;> simp only [Gen.Matrix.swap_rows, Matrix.swapRows, Matrix.hdr] at hM hm ⊢ <;>
    simp only [hM, hm] <;> m_auto

theorem swap_cols_bridge (es : Nat) (m : Matrix α) (a b : Nat) :
    Gen.Matrix.swap_cols es m.hdr m.data a b = BridgeKernels.view (m.swapCols es a b) := by
  obtain ⟨o, sh, d⟩ := m
  have hM := BridgeKernels.swap_major_kernel es ⟨o, sh, d⟩ a b
  have hm := BridgeKernels.swap_minor_kernel es ⟨o, sh, d⟩ a b
  cases o <;> simp only [Gen.Matrix.swap_cols, Matrix.swapCols, Matrix.hdr] at hM hm ⊢ <;>
    simp only [hM, hm] <;> m_auto

end Matreex.BridgeT11
