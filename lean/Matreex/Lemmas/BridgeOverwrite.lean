/-
Bridge for `Matrix::overwrite` (src/lib.rs): the function regenerated from the source on every run
(`Gen/OverwriteGen.lean`, translator T6) computes exactly what the hand-written model function
`Matrix.overwrite` of `Model/Overwrite.lean` computes — same destination buffer, same faults — for
coherent operands whose buffers are live vectors (`size ≤ usize::MAX`).  The C14 theorems are about the
model functions (`rowsLoop`, `crossLoop`, `cloneFromSlice`, `crossRow`); through this equation they are
about the source text of `overwrite`.

The generated code uses checked machine arithmetic, the model plain `Nat`: the two hypotheses on the
buffer sizes (with coherence) make every product and sum the loops form representable.

The proof does not mention generated temporaries: the model loops are turned into folds over
`List.range`, the two folds are compared body by body, and inside a body every checked operation is
rewritten to its value by `umul_ok` / `uadd_ok` with the side condition discharged from the loop-index
bounds.  It survives renamed / inlined / introduced `let`s and commuted operands.
-/
import Matreex.Gen.OverwriteGen
import Matreex.Model.Overwrite

namespace Matreex.BridgeOverwrite
open Matreex
-- the simp sets below are meant for every harmless rewrite of the source, not only for today's text
set_option linter.unusedSimpArgs false
variable {α : Type}

/-! ### the model's loops as folds over the iteration numbers -/

/-- one iteration of the same-order loop of the model -/
def rowsStep (clone : α → α) (dsh ssh : AxisShape) (minor : Nat) (s : Array α) (d : Array α) (i : Nat) :
    M (Array α) :=
  cloneFromSlice clone d (i * dsh.minor) (i * dsh.minor + minor * 1) s (i * ssh.minor) (i * ssh.minor + minor * 1)

/-- one iteration of the cross-order loop of the model -/
def crossStep (clone : α → α) (dsh ssh : AxisShape) (minor : Nat) (s : Array α) (d : Array α) (i : Nat) :
    M (Array α) :=
  crossRow clone d (i * dsh.minor) (i * dsh.minor + minor * 1) s i ssh.minor

theorem rowsLoop_eq_foldlM (clone : α → α) (dsh ssh : AxisShape) (minor : Nat) (s : Array α) (todo : Nat) :
    ∀ (i : Nat) (d : Array α),
      rowsLoop clone dsh ssh minor s todo i d = (List.range' i todo).foldlM (rowsStep clone dsh ssh minor s) d := by
  induction todo with
  | zero => intro i d; rfl
  | succ todo ih =>
    intro i d
    simp only [rowsLoop, List.range'_succ, List.foldlM_cons, rowsStep, bind, Except.bind]
    cases cloneFromSlice clone d (i * dsh.minor) (i * dsh.minor + minor * 1) s (i * ssh.minor)
        (i * ssh.minor + minor * 1) with
    | error e => rfl
    | ok d' => exact ih (i + 1) d'

theorem crossLoop_eq_foldlM (clone : α → α) (dsh ssh : AxisShape) (minor : Nat) (s : Array α) (todo : Nat) :
    ∀ (i : Nat) (d : Array α),
      crossLoop clone dsh ssh minor s todo i d = (List.range' i todo).foldlM (crossStep clone dsh ssh minor s) d := by
  induction todo with
  | zero => intro i d; rfl
  | succ todo ih =>
    intro i d
    simp only [crossLoop, List.range'_succ, List.foldlM_cons, crossStep, bind, Except.bind]
    cases crossRow clone d (i * dsh.minor) (i * dsh.minor + minor * 1) s i ssh.minor with
    | error e => rfl
    | ok d' => exact ih (i + 1) d'

/-- the model function, seen as the buffer it leaves: a branch on the orders, then a fold -/
theorem overwrite_model (clone : α → α) (dst src : Matrix α) :
    (dst.overwrite clone src).map (·.data) =
      if dst.order = src.order then
        (List.range (min dst.shape.major src.shape.major)).foldlM
          (rowsStep clone dst.shape src.shape (min dst.shape.minor src.shape.minor) src.data) dst.data
      else
        (List.range (min dst.shape.major src.shape.minor)).foldlM
          (crossStep clone dst.shape src.shape (min dst.shape.minor src.shape.major) src.data) dst.data := by
  unfold Matrix.overwrite
  split
  · rw [rowsLoop_eq_foldlM, List.range_eq_range']
    generalize List.foldlM (rowsStep clone dst.shape src.shape (min dst.shape.minor src.shape.minor) src.data)
      dst.data (List.range' 0 (min dst.shape.major src.shape.major)) = r
    cases r <;> rfl
  · rw [crossLoop_eq_foldlM, List.range_eq_range']
    generalize List.foldlM (crossStep clone dst.shape src.shape (min dst.shape.minor src.shape.major) src.data)
      dst.data (List.range' 0 (min dst.shape.major src.shape.minor)) = r
    cases r <;> rfl

/-! ### comparing two folds -/

theorem ok_bind {β γ : Type} (a : β) (f : β → M γ) : (Except.ok a >>= f) = f a := rfl

/-- two folds over equal lists whose bodies agree on the members of the list -/
theorem foldlM_congr {β : Type} (F G : β → Nat → M β) (l l' : List Nat) (hl : l = l')
    (h : ∀ d i, i ∈ l → F d i = G d i) (d : β) : l.foldlM F d = l'.foldlM G d := by
  subst hl
  induction l generalizing d with
  | nil => rfl
  | cons a l ih =>
    simp only [List.foldlM_cons]
    rw [h d a List.mem_cons_self]
    congr 1
    funext d'
    exact ih (fun d i hi => h d i (List.mem_cons_of_mem _ hi)) d'

theorem row_le {M m i : Nat} (hi : i < M) : i * m + m ≤ M * m := by
  calc i * m + m = (i + 1) * m := by rw [Nat.add_mul]; simp
    _ ≤ M * m := Nat.mul_le_mul_right _ hi

/-- evaluate the branch condition once the orders are known to be equal / different, however the
source spells it (`==` / `!=`, either operand first, `!`); `$e1 $e2` decide the two orientations -/
macro "order_cond" e1:ident e2:ident : tactic => `(tactic|
  simp only [$e1:ident, $e2:ident, ne_eq, not_true_eq_false, not_false_eq_true, decide_true, decide_false,
    Bool.not_true, Bool.not_false, Bool.false_eq_true, if_true, if_false])

/-- close `prim … a b … = prim … a' b' …` where the arguments are equal integer expressions -/
macro "same_call" : tactic => `(tactic| first | rfl | (congr 1 <;> first | rfl | omega | grind))

/-- `Gen.Matrix.overwrite` (regenerated from src/lib.rs) = the model's `Matrix.overwrite`, as functions
to the destination buffer, including faults. -/
theorem overwrite_bridge (clone : α → α) (dst src : Matrix α)
    (hd : dst.Coh) (hs : src.Coh) (hfd : dst.data.size ≤ usizeMax) (hfs : src.data.size ≤ usizeMax) :
    Gen.Matrix.overwrite clone dst.hdr dst.data src.hdr src.data = (dst.overwrite clone src).map (·.data) := by
  rw [overwrite_model]
  have hdM := hd.size_eq
  have hsM := hs.size_eq
  simp only [Gen.Matrix.overwrite, Matrix.hdr, Gen.AxisShape.major_stride, Gen.AxisShape.minor_stride,
    bind_pure, pure_bind, decide_eq_true_eq]
  by_cases ho : dst.order = src.order
  · have e1 : (dst.order = src.order) = True := eq_true ho
    have e2 : (src.order = dst.order) = True := eq_true ho.symm
    order_cond e1 e2
    refine foldlM_congr _ _ _ _ (by first | rfl | (congr 1; omega)) (fun d i hi => ?_) _
    have hi := List.mem_range.mp hi
    have h1 : i * dst.shape.minor + dst.shape.minor ≤ dst.shape.major * dst.shape.minor := row_le (by omega)
    have h2 : i * src.shape.minor + src.shape.minor ≤ src.shape.major * src.shape.minor := row_le (by omega)
    have c1 : dst.shape.minor * i = i * dst.shape.minor := Nat.mul_comm _ _
    have c2 : src.shape.minor * i = i * src.shape.minor := Nat.mul_comm _ _
    simp (disch := omega) only [umul_ok, uadd_ok, ok_bind, pure_bind, bind_pure, rowsStep]
    all_goals same_call
  · have e1 : (dst.order = src.order) = False := eq_false ho
    have e2 : (src.order = dst.order) = False := eq_false (fun h => ho h.symm)
    order_cond e1 e2
    refine foldlM_congr _ _ _ _ (by first | rfl | (congr 1; omega)) (fun d i hi => ?_) _
    have hi := List.mem_range.mp hi
    have h1 : i * dst.shape.minor + dst.shape.minor ≤ dst.shape.major * dst.shape.minor := row_le (by omega)
    have c1 : dst.shape.minor * i = i * dst.shape.minor := Nat.mul_comm _ _
    simp (disch := omega) only [umul_ok, uadd_ok, ok_bind, pure_bind, bind_pure, crossStep]
    all_goals same_call

end Matreex.BridgeOverwrite
