/-
Threads with pairwise-disjoint write sets commute: every interleaving ends in the memory of the
sequential execution and logs a permutation of the sequential log.
-/
import Matreex.Model.Threads

namespace Matreex.Threads

theorem Shuffle.nil_right {S : Type} {xs l : List S} (h : Shuffle xs [] l) : l = xs := by
  generalize hys : ([] : List S) = ys at h
  induction h with
  | nil => rfl
  | left _ ih => rw [ih hys]
  | right _ _ => cases hys

theorem Shuffle.nil_left {S : Type} {ys l : List S} (h : Shuffle [] ys l) : l = ys := by
  generalize hxs : ([] : List S) = xs at h
  induction h with
  | nil => rfl
  | left _ _ => cases hxs
  | right _ ih => rw [ih hxs]

theorem Shuffle.filter {S : Type} (p : S → Bool) {xs ys l : List S} (h : Shuffle xs ys l) :
    Shuffle (xs.filter p) (ys.filter p) (l.filter p) := by
  induction h with
  | nil => exact .nil
  | @left x xs ys l _ ih =>
    simp only [List.filter_cons]
    cases p x
    · exact ih
    · exact .left ih
  | @right y xs ys l _ ih =>
    simp only [List.filter_cons]
    cases p y
    · exact ih
    · exact .right ih

theorem Shuffle.perm {S : Type} {xs ys l : List S} (h : Shuffle xs ys l) : l.Perm (xs ++ ys) := by
  induction h with
  | nil => exact .refl _
  | left _ ih => exact .cons _ ih
  | @right y xs ys l _ ih =>
    exact (List.Perm.cons y ih).trans (List.perm_middle.symm)

theorem Interleave.perm {S : Type} {ts : List (List S)} {l : List S} (h : Interleave ts l) :
    l.Perm ts.flatten := by
  induction h with
  | nil => exact .refl _
  | cons _ hs ih =>
    simp only [List.flatten_cons]
    exact hs.perm.trans (List.Perm.append_left _ ih)

/-- the value at `a` after a run depends only on the steps addressed to `a`, in order -/
theorem runAll_at {V : Type} (ss : List (Step V)) (m : Mem V) (a : Addr) :
    runAll ss m a = (ss.filter (fun s => s.addr == a)).foldl (fun v s => s.f v) (m a) := by
  induction ss generalizing m with
  | nil => rfl
  | cons s ss ih =>
    simp only [runAll, List.foldl_cons, List.filter_cons] at ih ⊢
    rw [ih]
    by_cases h : s.addr = a
    · simp [h, Step.run]
    · have : (s.addr == a) = false := by simpa using h
      simp only [this, Step.run]
      have : ¬ a = s.addr := fun e => h e.symm
      simp [this]

theorem interleave_filter {V : Type} (a : Addr) {ts : List (List (Step V))} {l : List (Step V)}
    (h : Interleave ts l) (hd : DisjointThreads ts) :
    l.filter (fun s => s.addr == a) = ts.flatten.filter (fun s => s.addr == a) := by
  induction h with
  | nil => rfl
  | @cons t ts l' l hi hs ih =>
    obtain ⟨hd1, hd2⟩ := hd
    have ih := ih hd2
    have hf := hs.filter (fun s => s.addr == a)
    simp only [List.flatten_cons, List.filter_append]
    by_cases hta : ∃ s ∈ t, s.addr = a
    · -- thread `t` owns `a`: nobody else writes it
      obtain ⟨s, hs1, hs2⟩ := hta
      have hnone : ts.flatten.filter (fun s => s.addr == a) = [] := by
        rw [List.filter_eq_nil_iff]
        intro u hu
        have := hd1 s hs1 u hu
        simp; intro e; exact this (hs2.trans e.symm)
      rw [ih, hnone] at hf
      rw [hnone, hf.nil_right]; simp
    · have hnone : t.filter (fun s => s.addr == a) = [] := by
        rw [List.filter_eq_nil_iff]
        intro u hu
        simp; intro e; exact hta ⟨u, hu, e⟩
      rw [hnone] at hf
      rw [hnone, hf.nil_left, ih]; simp

/-- **Main theorem**: with pairwise-disjoint write sets every interleaving ends in the same
memory as the sequential execution thread after thread. -/
theorem interleave_eq_seq {V : Type} {ts : List (List (Step V))} {l : List (Step V)}
    (h : Interleave ts l) (hd : DisjointThreads ts) (m : Mem V) :
    runAll l m = runAll ts.flatten m := by
  funext a
  rw [runAll_at, runAll_at, interleave_filter a h hd]


end Matreex.Threads
