/-
Bridge lemmas: every function of `Gen/Core.lean` (regenerated from `/repo/src` on every run, with
checked machine arithmetic) returns, without fault, the value of its clean twin in
`Model/Core.lean` — under the no-overflow / non-zero precondition the call sites establish.
A source edit that changes what one of these functions computes makes its lemma fail.
-/
import Matreex.Lemmas.BridgeSimple
import Matreex.Gen.Core
import Matreex.Model.Core

namespace Matreex.Bridge
open Matreex

/-- unfold the checked machine operations into their side conditions, split on every condition,
discharge the overflow branches with the precondition and the value branches by arithmetic.
Written to survive behaviour-preserving rewrites of the source (reordered or renamed `let`s,
commuted operands, `!(a < b)` for `a >= b`): the proof does not depend on the shape of the term -/
macro "bridge_arith" : tactic => `(tactic| (
  simp only [umul, uadd, usub, udiv, urem, checkedMul, saturatingMul, okOr, bind, Except.bind, pure, Except.pure]
  repeat' split
  all_goals first
    | rfl
    | omega
    | (simp_all <;> omega)
    | (congr 1 <;> omega)
    | (simp_all [Nat.mul_comm, Nat.add_comm] <;> done)
    | grind))

/-! ### shapes -/

theorem major_stride (s : AxisShape) : Gen.AxisShape.major_stride s = .ok s.minor := rfl
theorem minor_stride (s : AxisShape) : Gen.AxisShape.minor_stride s = .ok 1 := rfl

theorem axis_size (s : AxisShape) (h : s.major * s.minor ≤ usizeMax) :
    Gen.AxisShape.size s = .ok s.size := by
  simp [Gen.AxisShape.size, AxisShape.size, umul_ok h, bind, Except.bind, pure, Except.pure]

theorem axis_nrows (s : AxisShape) (o : Order) : Gen.AxisShape.nrows s o = .ok (s.nrows o) := by
  cases o <;> rfl
theorem axis_ncols (s : AxisShape) (o : Order) : Gen.AxisShape.ncols s o = .ok (s.ncols o) := by
  cases o <;> rfl
theorem axis_to_shape (s : AxisShape) (o : Order) :
    Gen.AxisShape.to_shape s o = .ok (s.toShape o) := by
  cases o <;> rfl

theorem shape_size (s : Shape) : Gen.Shape.size s = .ok s.size? := by
  simp only [Gen.Shape.size, Shape.size?]
  bridge_arith

theorem to_axis_shape_unchecked (s : Shape) (o : Order) :
    Gen.Shape.to_axis_shape_unchecked s o = .ok (s.toAxis o) := by
  cases o <;> rfl

/-- C08: the `SizeOverflow` decision of the regenerated code, for every shape. -/
theorem try_to_axis_shape (s : Shape) (o : Order) :
    Gen.Shape.try_to_axis_shape s o = .ok (s.tryToAxis o) := by
  simp only [Gen.Shape.try_to_axis_shape, shape_size, to_axis_shape_unchecked, bind, Except.bind,
    Shape.size?, Shape.tryToAxis]
  by_cases h : s.nrows * s.ncols ≤ usizeMax <;> simp [h, bindErr, pure, Except.pure, Except.bind]

/-- C08: the `CapacityOverflow` decision of the regenerated code, for every size and element
size (`saturating_mul` is exact for this comparison). -/
theorem check_size (es size : Nat) : Gen.Matrix.check_size es size = .ok (checkSize es size) := by
  simp only [Gen.Matrix.check_size, saturatingMul, checkSize, pure, Except.pure]
  have : (min (es * size) usizeMax > isizeMax) ↔ (es * size > isizeMax) := by
    simp only [usizeMax, isizeMax]; omega
  by_cases h : es * size > isizeMax <;> simp [h, this]

/-! ### indices -/

theorem from_index (i : Index) (o : Order) :
    Gen.AxisIndex.from_index i o = .ok (AxisIndex.ofIndex i o) := by
  cases o <;> rfl

theorem to_index (i : AxisIndex) (o : Order) :
    Gen.AxisIndex.to_index i o = .ok (i.toIndex o) := by
  cases o <;> rfl

theorem to_flattened (i : AxisIndex) (s : AxisShape) (h : i.major * s.minor + i.minor ≤ usizeMax) :
    Gen.AxisIndex.to_flattened i s = .ok (i.flat s) := by
  simp only [Gen.AxisIndex.to_flattened, Gen.AxisShape.major_stride, Gen.AxisShape.minor_stride, AxisIndex.flat]
  bridge_arith

theorem from_flattened (k : Nat) (s : AxisShape) (h : s.minor ≠ 0) :
    Gen.AxisIndex.from_flattened k s = .ok (AxisIndex.ofFlat k s) := by
  simp only [Gen.AxisIndex.from_flattened, Gen.AxisShape.major_stride, Gen.AxisShape.minor_stride, AxisIndex.ofFlat]
  bridge_arith

/-- with a zero minor extent the source divides by zero: a panic, before anything else -/
theorem from_flattened_zero (k : Nat) (s : AxisShape) (h : s.minor = 0) :
    ∃ msg, Gen.AxisIndex.from_flattened k s = .error (.panic msg) := by
  simp only [Gen.AxisIndex.from_flattened, Gen.AxisShape.major_stride, Gen.AxisShape.minor_stride]
  simp [udiv, urem, h, bind, Except.bind, pure, Except.pure]

theorem index_from_flattened (k : Nat) (o : Order) (s : AxisShape) (h : s.minor ≠ 0) :
    Gen.Index.from_flattened k o s = .ok (Index.ofFlat k o s) := by
  simp [Gen.Index.from_flattened, from_flattened k s h, to_index, Index.ofFlat, bind, Except.bind,
    pure, Except.pure]

theorem index_to_flattened (i : Index) (o : Order) (s : AxisShape)
    (h : (AxisIndex.ofIndex i o).major * s.minor + (AxisIndex.ofIndex i o).minor ≤ usizeMax) :
    Gen.Index.to_flattened i o s = .ok (i.flat o s) := by
  simp [Gen.Index.to_flattened, from_index, to_flattened _ s h, Index.flat, bind, Except.bind,
    pure, Except.pure]

theorem is_out_of_bounds (i : AxisIndex) (m : Hdr) :
    Gen.AxisIndex.is_out_of_bounds i m = .ok (i.oob m.shape) := by
  first
  | rfl
  | (simp only [Gen.AxisIndex.is_out_of_bounds, AxisIndex.oob, Hdr.major, Hdr.minor, pure, Except.pure]
     by_cases h1 : i.major < m.shape.major <;> by_cases h2 : i.minor < m.shape.minor <;> simp [h1, h2] <;> omega)

/-! ### wrapping indices (C13): Euclidean remainder -/

theorem wrap_neg (a n : Nat) (hn : 0 < n) :
    (((n - a % n) % n : Nat) : Int) = (-(a : Int)) % (n : Int) := by
  have hlt : a % n < n := Nat.mod_lt _ hn
  have key : (-(a : Int)) = ((n - a % n : Nat) : Int) + (n : Int) * (-((a / n : Nat) : Int) - 1) := by
    have := Nat.div_add_mod a n
    have h1 : ((n - a % n : Nat) : Int) = (n : Int) - ((a % n : Nat) : Int) := by omega
    rw [h1]
    have h2 : (a : Int) = (n : Int) * ((a / n : Nat) : Int) + ((a % n : Nat) : Int) := by
      exact_mod_cast this.symm
    rw [Int.mul_sub, Int.mul_neg, Int.mul_one]; omega
  rw [key, Int.add_mul_emod_self_left]; exact_mod_cast rfl

theorem one_axis (x : Int) (n : Nat) (hn : 0 < n) :
    (if (decide (x < 0)) then
        (do let t1 ← urem (Int.natAbs x) n; let t2 ← usub n t1; let t3 ← urem t2 n; pure t3)
      else (do let t4 ← urem (castUsize x) n; pure t4)) = (.ok (wrap x n) : M Nat) := by
  have hne : n ≠ 0 := by omega
  by_cases hx : x < 0
  · have hle : x.natAbs % n ≤ n := Nat.le_of_lt (Nat.mod_lt _ hn)
    simp only [hx, decide_true, ↓reduceIte, urem_ok hne, usub_ok hle, bind, Except.bind, pure,
      Except.pure]
    congr 1
    have := wrap_neg x.natAbs n hn
    have hx' : (-(x.natAbs : Int)) = x := by omega
    rw [hx'] at this
    unfold wrap; rw [← this]; omega
  · have hc : castUsize x = x.toNat := by simp [castUsize, hx]
    simp only [hx, decide_false, Bool.false_eq_true, ↓reduceIte, urem_ok hne, hc, bind,
      Except.bind, pure, Except.pure]
    congr 1
    unfold wrap
    have : x = (x.toNat : Int) := by omega
    have h2 : x % (n : Int) = ((x.toNat % n : Nat) : Int) := by
      conv => lhs; rw [this]
      norm_cast
    rw [h2]; omega

/-- C13, about the regenerated function: both components are the Euclidean remainders, no
subtraction underflows, for every `isize` pair (`unsigned_abs` of `isize::MIN` is `2^63`, which
`Int.natAbs` gives exactly). -/
theorem from_wrapping_index (index : WrappingIndex) (order : Order) (shape : AxisShape)
    (hM : 0 < shape.major) (hm : 0 < shape.minor) :
    Gen.AxisIndex.from_wrapping_index index order shape =
      .ok (AxisIndex.ofWrapping index order shape) := by
  have a1 := one_axis index.row shape.major hM
  have a2 := one_axis index.col shape.minor hm
  have a3 := one_axis index.col shape.major hM
  have a4 := one_axis index.row shape.minor hm
  unfold Gen.AxisIndex.from_wrapping_index AxisIndex.ofWrapping
  simp only [bind, Except.bind, pure, Except.pure] at a1 a2 a3 a4 ⊢
  cases order
  · simp only [a1, a2]
  · simp only [a3, a4]

theorem one_axis_zero (x : Int) (n : Nat) (hn : n = 0) :
    (if (decide (x < 0)) then
        (do let t1 ← urem (Int.natAbs x) n; let t2 ← usub n t1; let t3 ← urem t2 n; pure t3)
      else (do let t4 ← urem (castUsize x) n; pure t4)) =
      (.error (.panic "attempt to calculate the remainder with a divisor of zero") : M Nat) := by
  subst hn
  by_cases hx : x < 0 <;> simp [hx, urem, bind, Except.bind]

/-- a zero extent makes the wrapping computation panic (remainder by zero) -/
theorem from_wrapping_index_zero (index : WrappingIndex) (order : Order) (shape : AxisShape)
    (h : shape.major = 0 ∨ shape.minor = 0) :
    ∃ msg, Gen.AxisIndex.from_wrapping_index index order shape = .error (.panic msg) := by
  unfold Gen.AxisIndex.from_wrapping_index
  by_cases hM : shape.major = 0
  · have z1 := one_axis_zero index.row shape.major hM
    have z2 := one_axis_zero index.col shape.major hM
    simp only [bind, Except.bind, pure, Except.pure] at z1 z2 ⊢
    cases order
    · simp only [z1]; exact ⟨_, rfl⟩
    · simp only [z2]; exact ⟨_, rfl⟩
  · have hm : shape.minor = 0 := by omega
    have hM' : 0 < shape.major := by omega
    have a1 := one_axis index.row shape.major hM'
    have a3 := one_axis index.col shape.major hM'
    have z1 := one_axis_zero index.col shape.minor hm
    have z2 := one_axis_zero index.row shape.minor hm
    simp only [bind, Except.bind, pure, Except.pure] at a1 a3 z1 z2 ⊢
    cases order
    · simp only [a1, z1]; exact ⟨_, rfl⟩
    · simp only [a3, z2]; exact ⟨_, rfl⟩

/-! ### headers -/

theorem nrows (h : Hdr) : Gen.Matrix.nrows h = .ok h.nrows := by
  simp [Gen.Matrix.nrows, axis_nrows, Hdr.nrows, bind, Except.bind, pure, Except.pure]
theorem ncols (h : Hdr) : Gen.Matrix.ncols h = .ok h.ncols := by
  simp [Gen.Matrix.ncols, axis_ncols, Hdr.ncols, bind, Except.bind, pure, Except.pure]

theorem ew_conformable (a b : Hdr) :
    Gen.Matrix.is_elementwise_operation_conformable a b = .ok (a.ewConformable b) := by
  simp only [Gen.Matrix.is_elementwise_operation_conformable, Hdr.ewConformable, Hdr.major,
    Hdr.minor, pure, Except.pure]
  -- orientation of the equalities in the source does not matter
  have o1 : (b.shape.minor = a.shape.major) = (a.shape.major = b.shape.minor) := propext eq_comm
  have o2 : (b.shape.major = a.shape.minor) = (a.shape.minor = b.shape.major) := propext eq_comm
  have o3 : (b.shape = a.shape) = (a.shape = b.shape) := propext eq_comm
  try simp only [o1, o2, o3]
  by_cases h : a.order = b.order
  · simp [h]
  · by_cases h1 : a.shape.major = b.shape.minor <;> by_cases h2 : a.shape.minor = b.shape.major <;>
      simp [h, h1, h2]

theorem mul_conformable (a b : Hdr) :
    Gen.Matrix.is_multiplication_like_operation_conformable a b = .ok (a.mulConformable b) := by
  simp [Gen.Matrix.is_multiplication_like_operation_conformable, nrows, ncols, Hdr.mulConformable,
    bind, Except.bind, pure, Except.pure]

end Matreex.Bridge
