/-
Bridge for `src/fmt.rs`: the constants, the helper type `Lines` and the two functions `<Matrix<T> as fmt::Debug>::fmt`,
`<Matrix<T> as fmt::Display>::fmt`, regenerated from the Rust text on every run (`Gen/T15Gen.lean`, translator T15),
compute exactly what the hand-written model of `Model/Fmt.lean` computes: the same text and the same fault (an overflow
of the checked index arithmetic, `cache[index]` out of range).  The C20 theorems (`display_no_panic`,
`display_single_line`, `debug_single_line`, `row_lines_equal_width`, `display_order_transparent`, …) are about
`Fmt.display` / `Fmt.debug`; through these equations they are about what the source says now.

Hypotheses.  None about the matrix: no coherence, any shape, any order, any renderings.  The one hypothesis of
`display_is_the_source` / `debug_is_the_source` is `es * m.data.size ≤ isizeMax` (`es` = `size_of::<Lines>()`): the source
allocates the cache with `Vec::with_capacity(size)`, whose capacity-overflow panic the model does not represent.  The
hypothesis-free statements are `display_source_full` / `debug_source_full` (the generated function = that panic if the
matrix is non-empty and the cache would exceed `isize::MAX` bytes, else the model), and
`capacity_overflow_is_not_in_the_model` states the complement on its own.

How the proofs go.  The translator emits every `for` body as its own definition (`fmt_loop<k>`).  The four column loops are
shown equal to one function `cellStep` (flat index, `cell`, gap / label / text) by case-splitting the results of the calls
they share with the model, in the order the calls occur; a `List.foldlM` of `cellStep` over `col, col+1, …` is the model's
`rowLine` (`fold_cellStep`); a fold of a body that writes a prefix, such a line and a line break is `moreLines`
(`fold_moreLines`); a fold of a body that writes the first line and then the remaining lines is `rowsLoop` (`fold_rows`);
the header loop is `debugHeader` (`fold_header`); the cache-building loop computes the lines of every element and the two
running maxima (`fold_cache`).  The model's loops build each line from an empty accumulator and append it, the source
appends to the formatter as it goes: `rowLine_acc`, `moreLines_acc`, `rowsLoop_acc`, `debugHeader_cons` say that this is
the same.  `{SPACE:w$}` is `padRight SPACE w` in the generated code; `padRight_space` turns it into the model's `spaceW w`
using the value of `SPACE` read from the text.
-/
import Matreex.Gen.T15Gen
import Matreex.Model.Fmt
import Matreex.Model.FmtPrims
import Matreex.Lemmas.Bridge

namespace Matreex.BridgeT15
open Matreex Matreex.Fmt
set_option linter.unusedSimpArgs false
set_option linter.unusedVariables false
variable {α : Type}

/-! ### small facts -/

theorem ok_bind {β γ : Type} (a : β) (f : β → M γ) : (Except.ok a >>= f) = f a := rfl
theorem error_bind {β γ : Type} (e : Fault) (f : β → M γ) : ((Except.error e : M β) >>= f) = Except.error e := rfl
theorem pure_eq_ok {β : Type} (a : β) : (pure a : M β) = Except.ok a := rfl

/-- writing back the element that is already there changes nothing -/
theorem set!_same {β : Type} (a : Array β) (i : Nat) (x : β) (h : a[i]? = some x) : a.set! i x = a := by
  apply Array.ext_getElem?
  intro j
  simp only [Array.set!_eq_setIfInBounds, Array.getElem?_setIfInBounds]
  split
  · next hij => subst hij; split <;> simp_all
  · rfl

/-! ### the constants -/

theorem constants :
    Gen.Fmt.LEFT_DELIMITER = ['['] ∧ Gen.Fmt.RIGHT_DELIMITER = [']'] ∧ Gen.Fmt.SPACE = [' '] ∧
    Gen.Fmt.TAB_SIZE = Fmt.TAB_SIZE ∧ Gen.Fmt.OUTER_GAP = Fmt.OUTER_GAP ∧ Gen.Fmt.INTER_GAP = Fmt.INTER_GAP ∧
    Gen.Fmt.INNER_GAP = Fmt.INNER_GAP := ⟨rfl, rfl, rfl, rfl, rfl, rfl, rfl⟩

/-- `{SPACE:w$}`: the one-character string `SPACE` padded on the right to `w` characters is a run of `max w 1` spaces -/
theorem padRight_space (w : Nat) : padRight Gen.Fmt.SPACE w = spaceW w := by
  have h : max w 1 = (w - 1) + 1 := by omega
  simp only [padRight, spaceW, spaces, Gen.Fmt.SPACE, List.length_singleton, h, List.replicate_succ,
    List.singleton_append]

/-! ### `Lines` -/

theorem lines_from_debug {T : Type} (render : T → List Char) (e : T) :
    Gen.Fmt.Lines.from_debug render e = lines (render e) := rfl
theorem lines_from_display {T : Type} (render : T → List Char) (e : T) :
    Gen.Fmt.Lines.from_display render e = lines (render e) := rfl

theorem max?_getD (l : List Nat) : l.max?.getD 0 = maxOf l := by
  cases l with
  | nil => rfl
  | cons a l => simp [List.max?, maxOf, List.foldl_cons, Nat.zero_max]

theorem lines_width (ls : Lines) : Gen.Fmt.Lines.width ls = maxOf (ls.map List.length) := by
  unfold Gen.Fmt.Lines.width
  exact max?_getD _

theorem lines_height (ls : Lines) : Gen.Fmt.Lines.height ls = ls.length := rfl

theorem lines_next_nil : Gen.Fmt.Lines.next [] = (none, []) := rfl
theorem lines_next_cons (l : List Char) (rest : Lines) : Gen.Fmt.Lines.next (l :: rest) = (some l, rest) := rfl

/-! ### the model's loops do not look at the text written so far -/

theorem rowLine_acc (o : Order) (sh : AxisShape) (row ncols w : Nat) (label : Nat → List Char) (a : List Char) :
    ∀ (todo col : Nat) (cache : Array Lines) (b : List Char),
      rowLine o sh row ncols w label col todo cache (a ++ b) =
        (rowLine o sh row ncols w label col todo cache b >>= fun r => pure (a ++ r.1, r.2)) := by
  intro todo
  induction todo with
  | zero => intro col cache b; rfl
  | succ n ih =>
    intro col cache b
    simp only [rowLine]
    rcases Gen.Index.to_flattened ⟨row, col⟩ o sh with e | index
    · rfl
    · simp only [ok_bind]
      rcases cell cache index w with e | ⟨c, cache'⟩
      · rfl
      · simp only [ok_bind, List.append_assoc]
        exact ih _ _ _

theorem moreLines_acc (o : Order) (sh : AxisShape) (row ncols w : Nat) (pre : List Char) (label : Nat → List Char)
    (a : List Char) :
    ∀ (todo : Nat) (cache : Array Lines) (b : List Char),
      moreLines o sh row ncols w pre label todo cache (a ++ b) =
        (moreLines o sh row ncols w pre label todo cache b >>= fun r => pure (a ++ r.1, r.2)) := by
  intro todo
  induction todo with
  | zero => intro cache b; rfl
  | succ n ih =>
    intro cache b
    simp only [moreLines]
    rcases rowLine o sh row ncols w label 0 ncols cache pre with e | ⟨l, cache'⟩
    · rfl
    · simp only [ok_bind, List.append_assoc]
      exact ih _ _

theorem rowsLoop_acc (o : Order) (sh : AxisShape) (ncols w h : Nat) (firstPre : Nat → List Char) (morePre : List Char)
    (firstLabel moreLabel : Nat → List Char) (a : List Char) :
    ∀ (todo row : Nat) (cache : Array Lines) (b : List Char),
      rowsLoop o sh ncols w h firstPre morePre firstLabel moreLabel row todo cache (a ++ b) =
        (rowsLoop o sh ncols w h firstPre morePre firstLabel moreLabel row todo cache b >>= fun s => pure (a ++ s)) := by
  intro todo
  induction todo with
  | zero => intro row cache b; rfl
  | succ n ih =>
    intro row cache b
    simp only [rowsLoop]
    rcases rowLine o sh row ncols w firstLabel 0 ncols cache (firstPre row ++ ['[']) with e | ⟨l, c1⟩
    · rfl
    · simp only [ok_bind]
      rcases moreLines o sh row ncols w morePre moreLabel (h - 1) c1 [] with e | ⟨ls, c2⟩
      · rfl
      · simp only [ok_bind, List.append_assoc]
        exact ih _ _ _

/-! ### one column of one output line -/

/-- what one run of a column loop's body does, in the model's terms: the flat index (checked arithmetic), the cell
(`cache[index]`: a panic out of range; the front line is popped), then the gap (not before the first column), the label
and the cell text are appended -/
def cellStep (o : Order) (sh : AxisShape) (row w : Nat) (label : Nat → List Char)
    (st : List Char × Array Lines) (col : Nat) : M (List Char × Array Lines) := do
  let index ← Gen.Index.to_flattened ⟨row, col⟩ o sh
  let r ← cell st.2 index w
  pure (st.1 ++ (if col ≠ 0 then spaceW Fmt.INTER_GAP else []) ++ label index ++ r.1, r.2)

theorem fold_cellStep (o : Order) (sh : AxisShape) (row ncols w : Nat) (label : Nat → List Char) :
    ∀ (todo col : Nat) (cache : Array Lines) (acc : List Char),
      List.foldlM (cellStep o sh row w label) (acc, cache) (List.range' col todo) =
        rowLine o sh row ncols w label col todo cache acc := by
  intro todo
  induction todo with
  | zero => intro col cache acc; rfl
  | succ n ih =>
    intro col cache acc
    simp only [List.range'_succ, List.foldlM_cons, rowLine, cellStep]
    rcases Gen.Index.to_flattened ⟨row, col⟩ o sh with e | index
    · rfl
    · simp only [ok_bind]
      rcases cell cache index w with e | ⟨c, cache'⟩
      · rfl
      · simp only [ok_bind, pure_eq_ok]
        exact ih _ _ _

/-- the generated text of a cell: `cache[index]` checked, `Lines::next` on it, the deque written back, the `match` -/
theorem cell_text (cache : Array Lines) (index w : Nat) (out : List Char) {β : Type}
    (k : List Char × Array Lines → M β) :
    (do let t3 ← vecIndex cache index
        let out' ← (match (Gen.Fmt.Lines.next t3).1 with
          | none => (pure (out ++ padRight Gen.Fmt.SPACE w) : M (List Char))
          | some line => pure (out ++ padRight line w))
        k (out', cache.set! index (Gen.Fmt.Lines.next t3).2)) =
      (do let r ← cell cache index w
          k (out ++ r.1, r.2)) := by
  unfold vecIndex cell
  rcases h : cache[index]? with _ | ls
  · rfl
  · rcases ls with _ | ⟨l, rest⟩
    · simp only [ok_bind, lines_next_nil, set!_same cache index [] h, padRight_space, pure_eq_ok]
    · simp only [ok_bind, lines_next_cons, pure_eq_ok]

/-! ### the four column loops are `cellStep` -/

theorem display_cols_first (row : Nat) (self_ : Hdr) (w : Nat) :
    Gen.Fmt.Display.fmt_loop3 row self_ w = cellStep self_.order self_.shape row w (fun _ => []) := by
  funext st col
  obtain ⟨out, cache⟩ := st
  unfold Gen.Fmt.Display.fmt_loop3 cellStep
  simp only [Gen.Index.new]
  rcases Gen.Index.to_flattened ⟨row, col⟩ self_.order self_.shape with e | index
  · by_cases hc : col = 0 <;> simp [hc, Nat.pos_iff_ne_zero, error_bind, ok_bind, pure_eq_ok] <;> rfl
  · by_cases hc : col = 0 <;>
      simp only [hc, gt_iff_lt, Nat.pos_iff_ne_zero, Nat.lt_irrefl, ne_eq, not_true_eq_false, not_false_eq_true,
        decide_false, decide_true, Bool.false_eq_true, ↓reduceIte, pure_bind, ok_bind] <;>
      refine (cell_text cache index w _ _).trans ?_ <;>
      (try simp only [padRight_space]) <;>
      (try simp only [List.append_assoc, List.append_nil, List.nil_append, constants])

theorem display_cols_more (row : Nat) (self_ : Hdr) (w : Nat) :
    Gen.Fmt.Display.fmt_loop5 row self_ w = cellStep self_.order self_.shape row w (fun _ => []) := by
  funext st col
  obtain ⟨out, cache⟩ := st
  unfold Gen.Fmt.Display.fmt_loop5 cellStep
  simp only [Gen.Index.new]
  rcases Gen.Index.to_flattened ⟨row, col⟩ self_.order self_.shape with e | index
  · by_cases hc : col = 0 <;> simp [hc, Nat.pos_iff_ne_zero, error_bind, ok_bind, pure_eq_ok] <;> rfl
  · by_cases hc : col = 0 <;>
      simp only [hc, gt_iff_lt, Nat.pos_iff_ne_zero, Nat.lt_irrefl, ne_eq, not_true_eq_false, not_false_eq_true,
        decide_false, decide_true, Bool.false_eq_true, ↓reduceIte, pure_bind, ok_bind] <;>
      refine (cell_text cache index w _ _).trans ?_ <;>
      (try simp only [padRight_space]) <;>
      (try simp only [List.append_assoc, List.append_nil, List.nil_append, constants])

theorem debug_cols_first (row : Nat) (self_ : Hdr) (iw w : Nat) :
    Gen.Fmt.Debug.fmt_loop4 row self_ iw w =
      cellStep self_.order self_.shape row w (fun index => padLeftNat index iw ++ spaceW Fmt.INNER_GAP) := by
  funext st col
  obtain ⟨out, cache⟩ := st
  unfold Gen.Fmt.Debug.fmt_loop4 cellStep
  simp only [Gen.Index.new]
  rcases Gen.Index.to_flattened ⟨row, col⟩ self_.order self_.shape with e | index
  · by_cases hc : col = 0 <;> simp [hc, Nat.pos_iff_ne_zero, error_bind, ok_bind, pure_eq_ok] <;> rfl
  · by_cases hc : col = 0 <;>
      simp only [hc, gt_iff_lt, Nat.pos_iff_ne_zero, Nat.lt_irrefl, ne_eq, not_true_eq_false, not_false_eq_true,
        decide_false, decide_true, Bool.false_eq_true, ↓reduceIte, pure_bind, ok_bind] <;>
      refine (cell_text cache index w _ _).trans ?_ <;>
      (try simp only [padRight_space]) <;>
      (try simp only [List.append_assoc, List.append_nil, List.nil_append, constants])

theorem debug_cols_more (row : Nat) (self_ : Hdr) (iw w : Nat) :
    Gen.Fmt.Debug.fmt_loop6 row self_ iw w =
      cellStep self_.order self_.shape row w (fun _ => spaceW iw ++ spaceW Fmt.INNER_GAP) := by
  funext st col
  obtain ⟨out, cache⟩ := st
  unfold Gen.Fmt.Debug.fmt_loop6 cellStep
  simp only [Gen.Index.new]
  rcases Gen.Index.to_flattened ⟨row, col⟩ self_.order self_.shape with e | index
  · by_cases hc : col = 0 <;> simp [hc, Nat.pos_iff_ne_zero, error_bind, ok_bind, pure_eq_ok] <;> rfl
  · by_cases hc : col = 0 <;>
      simp only [hc, gt_iff_lt, Nat.pos_iff_ne_zero, Nat.lt_irrefl, ne_eq, not_true_eq_false, not_false_eq_true,
        decide_false, decide_true, Bool.false_eq_true, ↓reduceIte, pure_bind, ok_bind] <;>
      refine (cell_text cache index w _ _).trans ?_ <;>
      (try simp only [padRight_space]) <;>
      (try simp only [List.append_assoc, List.append_nil, List.nil_append, constants])

/-! ### the ranges -/

theorem range_zero (n : Nat) : range 0 n = List.range' 0 n := rfl
theorem range_one (n : Nat) : range 1 n = List.range' 1 (n - 1) := rfl

/-! ### the remaining lines of a row -/

/-- a loop over `1..h` whose body writes `pre`, one line of cells and a line break = the model's `moreLines` -/
theorem fold_moreLines (o : Order) (sh : AxisShape) (row ncols w : Nat) (pre : List Char) (label : Nat → List Char)
    (step : List Char × Array Lines → Nat → M (List Char × Array Lines))
    (hstep : ∀ st x, step st x =
      (rowLine o sh row ncols w label 0 ncols st.2 (st.1 ++ pre) >>= fun r => pure (r.1 ++ ['\n'], r.2))) :
    ∀ (xs : List Nat) (out : List Char) (cache : Array Lines),
      List.foldlM step (out, cache) xs =
        (moreLines o sh row ncols w pre label xs.length cache [] >>= fun r => pure (out ++ r.1, r.2)) := by
  intro xs
  induction xs with
  | nil => intro out cache; simp [moreLines, ok_bind, pure_eq_ok]
  | cons x xs ih =>
    intro out cache
    simp only [List.foldlM_cons, hstep, List.length_cons, moreLines]
    rw [rowLine_acc]
    rcases rowLine o sh row ncols w label 0 ncols cache pre with e | ⟨l, c'⟩
    · rfl
    · simp only [ok_bind, pure_eq_ok]
      rw [ih, show ([] ++ l ++ ['\n'] : List Char) = (l ++ ['\n']) ++ [] by simp, moreLines_acc]
      rcases moreLines o sh row ncols w pre label xs.length c' [] with e | ⟨ls, c2⟩
      · rfl
      · simp only [ok_bind, pure_eq_ok, List.append_assoc]

/-! ### the rows -/

/-- a loop over the rows whose body writes the first line of the row and then the remaining lines = the model's
`rowsLoop` (which forgets the cache at the end: `k` sees only the text) -/
theorem fold_rows (o : Order) (sh : AxisShape) (ncols w h : Nat) (firstPre : Nat → List Char) (morePre : List Char)
    (firstLabel moreLabel : Nat → List Char)
    (step : List Char × Array Lines → Nat → M (List Char × Array Lines))
    (hstep : ∀ st row, step st row =
      (rowLine o sh row ncols w firstLabel 0 ncols st.2 (st.1 ++ (firstPre row ++ ['['])) >>= fun r1 =>
        moreLines o sh row ncols w morePre moreLabel (h - 1) r1.2 [] >>= fun r2 =>
          pure (r1.1 ++ [']', '\n'] ++ r2.1, r2.2)))
    {β : Type} (k : List Char → M β) :
    ∀ (todo row : Nat) (out : List Char) (cache : Array Lines),
      (List.foldlM step (out, cache) (List.range' row todo) >>= fun st => k st.1) =
        (rowsLoop o sh ncols w h firstPre morePre firstLabel moreLabel row todo cache [] >>= fun s => k (out ++ s)) := by
  intro todo
  induction todo with
  | zero => intro row out cache; simp [rowsLoop, ok_bind, pure_eq_ok]
  | succ n ih =>
    intro row out cache
    simp only [List.range'_succ, List.foldlM_cons, hstep, rowsLoop]
    rw [rowLine_acc]
    rcases rowLine o sh row ncols w firstLabel 0 ncols cache (firstPre row ++ ['[']) with e | ⟨l, c1⟩
    · rfl
    · simp only [ok_bind, pure_eq_ok]
      rcases moreLines o sh row ncols w morePre moreLabel (h - 1) c1 [] with e | ⟨ls, c2⟩
      · rfl
      · simp only [ok_bind, pure_eq_ok]
        rw [ih, show ([] ++ l ++ [']', '\n'] ++ ls : List Char) = (l ++ [']', '\n'] ++ ls) ++ [] by simp, rowsLoop_acc]
        rcases rowsLoop o sh ncols w h firstPre morePre firstLabel moreLabel (row + 1) n c2 [] with e | s
        · rfl
        · simp only [ok_bind, pure_eq_ok, List.append_assoc]

/-! ### Display: the loops of the generated function -/

theorem display_more_step (ncols row : Nat) (self_ : Hdr) (w : Nat) (st : List Char × Array Lines) (x : Nat) :
    Gen.Fmt.Display.fmt_loop4 ncols row self_ w st x =
      (rowLine self_.order self_.shape row ncols w (fun _ => []) 0 ncols st.2 (st.1 ++ (spaceW Fmt.TAB_SIZE ++ [' ']))
        >>= fun r => pure (r.1 ++ ['\n'], r.2)) := by
  obtain ⟨out, cache⟩ := st
  unfold Gen.Fmt.Display.fmt_loop4
  simp only [display_cols_more, range_zero, fold_cellStep _ _ _ ncols, padRight_space]
  simp only [constants, List.append_assoc]

theorem display_row_step (ncols : Nat) (self_ : Hdr) (w h : Nat) (st : List Char × Array Lines) (row : Nat) :
    Gen.Fmt.Display.fmt_loop2 ncols self_ w h st row =
      (rowLine self_.order self_.shape row ncols w (fun _ => []) 0 ncols st.2 (st.1 ++ (spaceW Fmt.TAB_SIZE ++ ['['])) >>= fun r1 =>
        moreLines self_.order self_.shape row ncols w (spaceW Fmt.TAB_SIZE ++ [' ']) (fun _ => []) (h - 1) r1.2 [] >>= fun r2 =>
          pure (r1.1 ++ [']', '\n'] ++ r2.1, r2.2)) := by
  obtain ⟨out, cache⟩ := st
  unfold Gen.Fmt.Display.fmt_loop2
  simp only [display_cols_first, range_zero, range_one, fold_cellStep _ _ _ ncols, padRight_space,
    fold_moreLines _ _ _ _ _ _ _ _ (display_more_step ncols row self_ w), List.length_range']
  simp only [constants, List.append_assoc]
  simp only [bind_assoc, pure_bind, List.cons_append, List.nil_append, List.singleton_append]

/-! ### Debug: the loops of the generated function -/

theorem debug_more_step (iw ncols row : Nat) (self_ : Hdr) (w : Nat) (st : List Char × Array Lines) (x : Nat) :
    Gen.Fmt.Debug.fmt_loop5 iw ncols row self_ w st x =
      (rowLine self_.order self_.shape row ncols w (fun _ => spaceW iw ++ spaceW Fmt.INNER_GAP) 0 ncols st.2
          (st.1 ++ (spaceW Fmt.TAB_SIZE ++ spaceW iw ++ spaceW Fmt.OUTER_GAP ++ [' ']))
        >>= fun r => pure (r.1 ++ ['\n'], r.2)) := by
  obtain ⟨out, cache⟩ := st
  unfold Gen.Fmt.Debug.fmt_loop5
  simp only [debug_cols_more, range_zero, fold_cellStep _ _ _ ncols, padRight_space]
  simp only [constants, List.append_assoc]

theorem debug_row_step (iw ncols : Nat) (self_ : Hdr) (w h : Nat) (st : List Char × Array Lines) (row : Nat) :
    Gen.Fmt.Debug.fmt_loop3 iw ncols self_ w h st row =
      (rowLine self_.order self_.shape row ncols w (fun index => padLeftNat index iw ++ spaceW Fmt.INNER_GAP) 0 ncols st.2
          (st.1 ++ ((spaceW Fmt.TAB_SIZE ++ padLeftNat row iw ++ spaceW Fmt.OUTER_GAP) ++ ['['])) >>= fun r1 =>
        moreLines self_.order self_.shape row ncols w (spaceW Fmt.TAB_SIZE ++ spaceW iw ++ spaceW Fmt.OUTER_GAP ++ [' '])
          (fun _ => spaceW iw ++ spaceW Fmt.INNER_GAP) (h - 1) r1.2 [] >>= fun r2 =>
          pure (r1.1 ++ [']', '\n'] ++ r2.1, r2.2)) := by
  obtain ⟨out, cache⟩ := st
  unfold Gen.Fmt.Debug.fmt_loop3
  simp only [debug_cols_first, range_zero, range_one, fold_cellStep _ _ _ ncols, padRight_space,
    fold_moreLines _ _ _ _ _ _ _ _ (debug_more_step iw ncols row self_ w), List.length_range']
  simp only [constants, List.append_assoc]
  simp only [bind_assoc, pure_bind, List.cons_append, List.nil_append, List.singleton_append]

/-- the header loop = the model's `debugHeader` -/
theorem fold_header (ncols iw w : Nat) :
    ∀ (todo col : Nat) (acc : List Char),
      List.foldlM (Gen.Fmt.Debug.fmt_loop2 iw w) acc (List.range' col todo) = .ok (debugHeader ncols iw w col todo acc) := by
  intro todo
  induction todo with
  | zero => intro col acc; rfl
  | succ n ih =>
    intro col acc
    simp only [List.range'_succ, List.foldlM_cons, debugHeader]
    rw [← ih]
    unfold Gen.Fmt.Debug.fmt_loop2
    by_cases hc : col = 0 <;>
      simp only [hc, gt_iff_lt, Nat.pos_iff_ne_zero, Nat.lt_irrefl, ne_eq, not_true_eq_false, not_false_eq_true,
        decide_false, decide_true, Bool.false_eq_true, ↓reduceIte, pure_bind, ok_bind, padRight_space] <;>
      simp only [constants, List.append_assoc, List.append_nil, List.nil_append]

/-! ### the cache-building loop: the lines of every element, the running maxima -/

theorem max_step (a b : Nat) [inst : Decidable (b > a)] :
    (if @decide (b > a) inst = true then (do pure b : M Nat) else do pure a) = pure (max a b) := by
  by_cases h : b > a
  · have : max a b = b := by omega
    simp [h, this]
  · have : max a b = a := by omega
    simp [h, this]

theorem display_cache_step {T : Type} (render : T → List Char) (st : Nat × Nat × Array Lines) (e : T) :
    Gen.Fmt.Display.fmt_loop1 render st e =
      .ok (max st.1 (maxOf ((lines (render e)).map List.length)), max st.2.1 (lines (render e)).length,
        st.2.2.push (lines (render e))) := by
  obtain ⟨w0, h0, c⟩ := st
  unfold Gen.Fmt.Display.fmt_loop1
  simp only [max_step, pure_bind]
  simp only [lines_from_display, lines_width, lines_height]
  rfl

theorem debug_cache_step {T : Type} (render : T → List Char) (st : Nat × Nat × Array Lines) (e : T) :
    Gen.Fmt.Debug.fmt_loop1 render st e =
      .ok (max st.1 (maxOf ((lines (render e)).map List.length)), max st.2.1 (lines (render e)).length,
        st.2.2.push (lines (render e))) := by
  obtain ⟨w0, h0, c⟩ := st
  unfold Gen.Fmt.Debug.fmt_loop1
  simp only [max_step, pure_bind]
  simp only [lines_from_debug, lines_width, lines_height]
  rfl

theorem fold_cache {T : Type} (render : T → List Char)
    (step : Nat × Nat × Array Lines → T → M (Nat × Nat × Array Lines))
    (hstep : ∀ st e, step st e =
      .ok (max st.1 (maxOf ((lines (render e)).map List.length)), max st.2.1 (lines (render e)).length,
        st.2.2.push (lines (render e)))) :
    ∀ (l : List T) (w0 h0 : Nat) (c : Array Lines),
      List.foldlM step (w0, h0, c) l =
        .ok (((l.map fun e => lines (render e)).map fun ls => maxOf (ls.map List.length)).foldl max w0,
             ((l.map fun e => lines (render e)).map List.length).foldl max h0,
             c ++ (l.map fun e => lines (render e)).toArray) := by
  intro l
  induction l with
  | nil => intro w0 h0 c; simp [pure_eq_ok]
  | cons e l ih =>
    intro w0 h0 c
    simp only [List.foldlM_cons, hstep, ok_bind, ih, List.map_cons, List.foldl_cons]
    congr 3
    apply Array.ext'
    simp

/-! ### the two functions -/

theorem display_source_full (es : Nat) (render : α → List Char) (m : Matrix α) :
    Gen.Fmt.Display.fmt es render m.hdr m.data =
      if m.data.size ≠ 0 ∧ es * m.data.size > isizeMax then .error (.panic "capacity overflow")
      else Fmt.display render m := by
  unfold Gen.Fmt.Display.fmt display
  by_cases h0 : m.data.size = 0
  · simp [h0, constants, pure_eq_ok]
  · simp only [h0, decide_false, Bool.false_eq_true, ↓reduceIte, ne_eq, not_false_eq_true, true_and,
      Bridge.axis_to_shape, Bridge.nrows, Bridge.ncols, ok_bind, Vec.reserveExact]
    by_cases hcap : es * m.data.size > isizeMax
    · simp only [hcap, ↓reduceIte, error_bind]
    · simp only [hcap, ↓reduceIte, ok_bind, fold_cache render _ (display_cache_step render)]
      simp only [range_zero, Array.empty_append, List.nil_append, constants, Gen.Shape.nrows, Gen.Shape.ncols,
        AxisShape.toShape, Hdr.nrows, Hdr.ncols, Matrix.hdr, maxOf]
      refine (fold_rows _ _ _ _ _ _ _ _ _ _ (fun st row => display_row_step _ _ _ _ st row)
        (fun s => pure (s ++ [']'])) _ _ _ _).trans ?_
      rfl

theorem debugHeader_cons (ncols iw w : Nat) (c : Char) :
    ∀ (todo col : Nat) (acc : List Char),
      debugHeader ncols iw w col todo (c :: acc) = c :: debugHeader ncols iw w col todo acc := by
  intro todo
  induction todo with
  | zero => intro col acc; rfl
  | succ n ih => intro col acc; simp only [debugHeader, List.cons_append, ih]

theorem debug_source_full (es : Nat) (render : α → List Char) (m : Matrix α) :
    Gen.Fmt.Debug.fmt es render m.hdr m.data =
      if m.data.size ≠ 0 ∧ es * m.data.size > isizeMax then .error (.panic "capacity overflow")
      else Fmt.debug render m := by
  unfold Gen.Fmt.Debug.fmt debug
  by_cases h0 : m.data.size = 0
  · simp [h0, constants, pure_eq_ok]
  · simp only [h0, decide_false, Bool.false_eq_true, ↓reduceIte, ne_eq, not_false_eq_true, true_and,
      Bridge.axis_to_shape, Bridge.nrows, Bridge.ncols, ok_bind, Vec.reserveExact]
    by_cases hcap : es * m.data.size > isizeMax
    · simp only [hcap, ↓reduceIte, error_bind]
    · simp only [hcap, ↓reduceIte, ok_bind, fold_cache render _ (debug_cache_step render)]
      simp only [range_zero, fold_header m.ncols, ok_bind, padRight_space]
      simp only [Array.empty_append, List.nil_append, constants, Gen.Shape.nrows, Gen.Shape.ncols,
        AxisShape.toShape, Hdr.nrows, Hdr.ncols, Matrix.hdr, maxOf, List.append_assoc, List.cons_append, List.singleton_append,
        debugHeader_cons]
      refine (fold_rows _ _ _ _ _ _ _ _ _ _ (fun st row => debug_row_step _ _ _ _ _ st row)
        (fun s => pure (s ++ [']'])) _ _ _ _).trans ?_
      simp only [List.append_assoc, List.cons_append, List.singleton_append, List.nil_append]
      rfl

/-- `impl Display for Matrix<T>`, regenerated from the source, IS the model's `Fmt.display` — the same text, the same
fault (the checked index arithmetic, `cache[index]` out of range) — for EVERY matrix (no coherence needed), whenever the
allocation of the line cache does not overflow (`es` = `size_of::<Lines>()`) -/
theorem display_is_the_source (es : Nat) (render : α → List Char) (m : Matrix α)
    (hcap : es * m.data.size ≤ isizeMax) :
    Gen.Fmt.Display.fmt es render m.hdr m.data = Fmt.display render m := by
  rw [display_source_full, if_neg]
  omega

/-- the same for `impl Debug for Matrix<T>` (plain configuration: `write_index!` = `write!`) -/
theorem debug_is_the_source (es : Nat) (render : α → List Char) (m : Matrix α)
    (hcap : es * m.data.size ≤ isizeMax) :
    Gen.Fmt.Debug.fmt es render m.hdr m.data = Fmt.debug render m := by
  rw [debug_source_full, if_neg]
  omega

/-- where source and model part: the model does not represent the capacity check of `Vec::with_capacity(size)` for
the cache of `Lines`.  For a non-empty matrix whose cache would exceed `isize::MAX` bytes (only possible for a
zero-sized element type: e.g. `2^58` elements of `()` with 32-byte `Lines`) the source panics with "capacity overflow"
before anything is written; the model goes on to compute a text. -/
theorem capacity_overflow_is_not_in_the_model (es : Nat) (render : α → List Char) (m : Matrix α)
    (h0 : m.data.size ≠ 0) (hcap : es * m.data.size > isizeMax) :
    Gen.Fmt.Display.fmt es render m.hdr m.data = .error (.panic "capacity overflow") ∧
    Gen.Fmt.Debug.fmt es render m.hdr m.data = .error (.panic "capacity overflow") := by
  rw [display_source_full, debug_source_full, if_pos ⟨h0, hcap⟩, if_pos ⟨h0, hcap⟩]
  exact ⟨rfl, rfl⟩

end Matreex.BridgeT15

namespace Matreex.C20
open Matreex Matreex.Fmt

/-- C20 tie to the source: the constants, the `Lines` helpers and both `fmt` functions regenerated from `src/fmt.rs`
are the model's.  `es` is `size_of::<Lines>()`; the only hypothesis says that the cache allocation does not overflow
(see `BridgeT15.capacity_overflow_is_not_in_the_model` for the complement). -/
theorem fmt_is_the_source {α : Type} (es : Nat) (render : α → List Char) (m : Matrix α)
    (hcap : es * m.data.size ≤ isizeMax) :
    Gen.Fmt.Display.fmt es render m.hdr m.data = Fmt.display render m ∧
    Gen.Fmt.Debug.fmt es render m.hdr m.data = Fmt.debug render m ∧
    (∀ e, Gen.Fmt.Lines.from_display render e = lines (render e)) ∧
    (∀ e, Gen.Fmt.Lines.from_debug render e = lines (render e)) ∧
    (∀ ls, Gen.Fmt.Lines.width ls = maxOf (ls.map List.length)) ∧
    (∀ ls, Gen.Fmt.Lines.height ls = ls.length) ∧
    Gen.Fmt.Lines.next [] = (none, []) ∧ (∀ l rest, Gen.Fmt.Lines.next (l :: rest) = (some l, rest)) ∧
    Gen.Fmt.LEFT_DELIMITER = ['['] ∧ Gen.Fmt.RIGHT_DELIMITER = [']'] ∧ Gen.Fmt.SPACE = [' '] ∧
    Gen.Fmt.TAB_SIZE = Fmt.TAB_SIZE ∧ Gen.Fmt.OUTER_GAP = Fmt.OUTER_GAP ∧ Gen.Fmt.INTER_GAP = Fmt.INTER_GAP ∧
    Gen.Fmt.INNER_GAP = Fmt.INNER_GAP :=
  ⟨BridgeT15.display_is_the_source es render m hcap, BridgeT15.debug_is_the_source es render m hcap,
   fun _ => rfl, fun _ => rfl, BridgeT15.lines_width, fun _ => rfl, rfl, fun _ _ => rfl, BridgeT15.constants⟩

/-! ### non-vacuity: a 2×2 matrix (column-major storage) with multi-line, empty and `\r\n` elements -/
def m22 : Matrix (List Char) :=
  ⟨.colMajor, ⟨2, 2⟩, #[['a', '\n', 'b', 'c'], ['x'], [], ['1', '2', '3', '\r', '\n', '4', '\n', '5', '\n']]⟩

example : Gen.Fmt.Display.fmt 32 id m22.hdr m22.data = .ok
    (['[', '\n'] ++
     [' ', ' ', ' ', ' ', '[', 'a', ' ', ' ', ' ', ' ', ' ', ' ', ' ', ']', '\n'] ++
     [' ', ' ', ' ', ' ', ' ', 'b', 'c', ' ', ' ', ' ', ' ', ' ', ' ', '\n'] ++
     [' ', ' ', ' ', ' ', ' ', ' ', ' ', ' ', ' ', ' ', ' ', ' ', ' ', '\n'] ++
     [' ', ' ', ' ', ' ', '[', 'x', ' ', ' ', ' ', ' ', '1', '2', '3', ']', '\n'] ++
     [' ', ' ', ' ', ' ', ' ', ' ', ' ', ' ', ' ', ' ', '4', ' ', ' ', '\n'] ++
     [' ', ' ', ' ', ' ', ' ', ' ', ' ', ' ', ' ', ' ', '5', ' ', ' ', '\n'] ++
     [']']) := by rfl
example : Gen.Fmt.Debug.fmt 32 id m22.hdr m22.data = .ok
    (['[', '\n'] ++
     [' ', ' ', ' ', ' ', ' ', ' ', ' ', ' ', '0', ' ', ' ', ' ', ' ', ' ', ' ', '1', ' ', ' ', ' ', ' ', '\n'] ++
     [' ', ' ', ' ', ' ', '0', ' ', ' ', '[', '0', ' ', 'a', ' ', ' ', ' ', ' ', '2', ' ', ' ', ' ', ' ', ']', '\n'] ++
     [' ', ' ', ' ', ' ', ' ', ' ', ' ', ' ', ' ', ' ', 'b', 'c', ' ', ' ', ' ', ' ', ' ', ' ', ' ', ' ', '\n'] ++
     [' ', ' ', ' ', ' ', ' ', ' ', ' ', ' ', ' ', ' ', ' ', ' ', ' ', ' ', ' ', ' ', ' ', ' ', ' ', ' ', '\n'] ++
     [' ', ' ', ' ', ' ', '1', ' ', ' ', '[', '1', ' ', 'x', ' ', ' ', ' ', ' ', '3', ' ', '1', '2', '3', ']', '\n'] ++
     [' ', ' ', ' ', ' ', ' ', ' ', ' ', ' ', ' ', ' ', ' ', ' ', ' ', ' ', ' ', ' ', ' ', '4', ' ', ' ', '\n'] ++
     [' ', ' ', ' ', ' ', ' ', ' ', ' ', ' ', ' ', ' ', ' ', ' ', ' ', ' ', ' ', ' ', ' ', '5', ' ', ' ', '\n'] ++
     [']']) := by rfl
example : Gen.Fmt.Display.fmt 32 id m22.hdr m22.data = Fmt.display id m22 := by rfl
example : Gen.Fmt.Debug.fmt 32 id m22.hdr m22.data = Fmt.debug id m22 := by rfl
/-- the capacity check: `2^58` zero-sized elements with 32-byte `Lines` would need `2^63` bytes -/
example : Vec.reserveExact 32 (2 ^ 58) = .error (.panic "capacity overflow") := by rfl

end Matreex.C20
