/-
Bridge for the nine rayon wrappers of src/parallel.rs: the functions regenerated from the source on every run
(`Gen/T16Gen.lean`, translator T16), each with the extra argument `t : Par.Split` (how rayon happened to split the index
range), compute exactly what the hand-written split-tree model of `Props/C16.lean` computes — and therefore, by the C16
theorems, what their SEQUENTIAL twins compute, for EVERY split tree:

* `par_map_bridge`, `par_map_ref_bridge`           generated `par_map[_ref] .. t m f`   = `C16.parMapMatrix esU t m f`
* `par_apply_bridge`                                generated `par_apply .. t m f`       = `.ok (C16.parApplyMatrix t m f)`
* `par_iter_elements_bridge` (three functions)      generated plain iterators, driven along `t` = `.ok (C16.parIterElements t m)`
* `par_iter_elements_with_index_bridge`, `.._mut_..`, `into_..`                          = `C16.parIterWithIndex t m`

and the headline results stated directly on the generated functions:

* `par_map_source_eq_map`, `par_map_ref_source_eq_map_ref`     = T14's generated `map` / `map_ref`  (= the model's `Matrix.map`)
* `par_apply_source_eq_apply`                                  = T14's generated `apply`            (= `m.data.map f` in place)
* `par_iter_elements_source_eq_seq` etc.                       = T12's generated `iter_elements` …  (= `.ok m.iterElements`)
* `par_iter_elements_with_index_source_eq_seq` etc.            = T12's generated `iter_elements_with_index` … (= `m.iterWithIndex`)
* `C16.parallel_is_the_source`, `C16.parallel_is_the_model`    the conjunction of all nine, for every `t`
* `C16.par_apply_source_any_schedule`                          the matrix the regenerated `par_apply` returns is what the memory
                                                               holds after ANY interleaving of the leaves' writes

No hypotheses anywhere.  The proofs do not mention generated temporaries or Rust locals: the adaptor stack is unfolded
to its item function, `Par.parMapIdx` is commuted with the closure (`parMapIdx_comp`), and the rest is the C16 theorem.
-/
import Matreex.Gen.T16Gen
import Matreex.Props.C16
import Matreex.Lemmas.BridgeT12
import Matreex.Lemmas.BridgeT14

namespace Matreex.C16
open Matreex Matreex.Par
variable {α : Type}

/-- `par_apply` along any split tree: every slot is rewritten by the leaf that owns it -/
def parApplyMatrix (t : Split) (m : Matrix α) (f : α → α) : Matrix α :=
  { m with data := (parMapIdx (fun _ x => f x) t 0 m.data.toList).toArray }

/-- the three plain parallel element iterators along any split tree: the items in index order -/
def parIterElements (t : Split) (m : Matrix α) : List α :=
  parMapIdx (fun _ x => x) t 0 m.data.toList

/-- C16: `par_apply` (any tree) leaves exactly the matrix the sequential `apply` leaves -/
theorem par_apply_eq_apply (t : Split) (m : Matrix α) (f : α → α) :
    parApplyMatrix t m f = { m with data := m.data.map f } := by
  unfold parApplyMatrix
  rw [parMapIdx_eq_seq, seqMapIdx_eq_map]
  have : (m.data.toList.map f).toArray = m.data.map f := by
    apply Array.ext'
    simp
  rw [this]

/-- C16: the plain parallel element iterators (any tree) yield the memory-order sequence -/
theorem par_iter_elements_eq_seq (t : Split) (m : Matrix α) : parIterElements t m = m.iterElements := by
  unfold parIterElements Matrix.iterElements
  rw [parMapIdx_eq_seq, seqMapIdx_eq_map, List.map_id']

end Matreex.C16

namespace Matreex.BridgeT16
open Matreex Matreex.Par
set_option linter.unusedSimpArgs false
set_option linter.unusedVariables false
variable {α β γ σ : Type}

/-! ### the vocabulary of `Gen/T16Gen.lean` in terms of `Par.parMapIdx` -/

theorem seqMapIdx_comp (h : Nat → σ → β) (g : β → γ) (b : Nat) (xs : List σ) :
    seqMapIdx (fun i x => g (h i x)) b xs = (seqMapIdx h b xs).map g := by
  induction xs generalizing b with
  | nil => rfl
  | cons x xs ih => simp [seqMapIdx, ih]

/-- a closure applied on top of an item function commutes with the execution along any split tree -/
theorem parMapIdx_comp (h : Nat → σ → β) (g : β → γ) : ∀ (t : Split) (b : Nat) (xs : List σ),
    parMapIdx (fun i x => g (h i x)) t b xs = (parMapIdx h t b xs).map g := by
  intro t
  induction t with
  | leaf => intro b xs; exact seqMapIdx_comp h g b xs
  | node mid l r ihl ihr =>
    intro b xs
    simp only [parMapIdx, ihl, ihr, List.map_append]

theorem mapM_id_map (l : List β) (G : β → M γ) : (l.map G).mapM id = l.mapM G := by
  induction l with
  | nil => rfl
  | cons a l ih => simp only [List.map_cons, List.mapM_cons, ih, id]

theorem mapM_ok (l : List β) (g : β → γ) : l.mapM (fun x => (Except.ok (g x) : M γ)) = .ok (l.map g) := by
  induction l with
  | nil => rfl
  | cons a l ih =>
    simp only [List.mapM_cons, ih, List.map_cons]
    rfl

/-- one parallel execution of an adaptor stack whose item function is `G ∘ h` with `h` fault-free: run `h` along the
tree, then the closures in index order -/
theorem drive_comp (xs : List σ) (h : Nat → σ → β) (G : β → M γ) (t : Split) :
    Gen.ParIter.drive ⟨xs, fun i x => G (h i x)⟩ t = (parMapIdx h t 0 xs).mapM G := by
  unfold Gen.ParIter.drive
  simp only []
  rw [parMapIdx_comp h G, mapM_id_map]

/-- … and if the closures are fault-free too, the execution is `parMapIdx` itself -/
theorem drive_ok (xs : List σ) (h : Nat → σ → β) (t : Split) :
    Gen.ParIter.drive ⟨xs, fun i x => .ok (h i x)⟩ t = .ok (parMapIdx h t 0 xs) := by
  have := drive_comp xs h (fun y => (Except.ok y : M β)) t
  rw [this, mapM_ok, List.map_id']

/-- `P.map(|e| f(e))` on the source iterator, executed: the item function, as the translator's vocabulary builds it, is
`fun _ x => pure (f x)` -/
theorem drive_map_source (xs : List σ) (f : σ → β) (t : Split) :
    Gen.ParIter.drive (Gen.ParIter.map (Gen.parSource xs) (fun e => (pure (f e) : M β))) t
      = .ok (parMapIdx (fun _ x => f x) t 0 xs) :=
  drive_ok xs (fun _ x => f x) t

theorem drive_source (xs : List σ) (t : Split) :
    Gen.ParIter.drive (Gen.parSource xs) t = .ok (parMapIdx (fun _ x => x) t 0 xs) :=
  drive_ok xs (fun _ x => x) t

/-- `P.enumerate().map(F)` on the source iterator, executed: `F` sees the GLOBAL position -/
theorem drive_enumerate_map (xs : List σ) (F : Nat × σ → M γ) (t : Split) :
    Gen.ParIter.drive (Gen.ParIter.map (Gen.ParIter.enumerate (Gen.parSource xs)) F) t
      = (parMapIdx (fun k x => (k, x)) t 0 xs).mapM F :=
  drive_comp xs (fun k x => (k, x)) F t

theorem src_source (xs : List σ) : (Gen.parSource xs).src = xs := rfl
theorem src_map (p : Gen.ParIter σ β) (f : β → M γ) : (Gen.ParIter.map p f).src = p.src := rfl
theorem src_enumerate (p : Gen.ParIter σ β) : (Gen.ParIter.enumerate p).src = p.src := rfl

/-! ### `par_map`, `par_map_ref`, `par_apply` -/

/-- the proof of the two by-value bridges: the shared capacity check, the allocation `collect` makes, the execution -/
macro "par_map_new_bridge" f:ident : tactic => `(tactic| (
  unfold $f:ident C16.parMapMatrix mapDecision
  simp only [bind_assoc, pure_bind]
  cases Gen.Matrix.check_size _ _ with
  | error e => rfl
  | ok c =>
    cases c with
    | error e => rfl
    | ok n =>
      simp only [BridgeT9.ok_bind, bindErr, Gen.ParIter.collect, drive_map_source, src_source, src_map, src_enumerate,
        Array.length_toList, pure_bind, bind_assoc]
      try (cases Vec.reserveExact _ _ <;> rfl)))

theorem par_map_bridge (esT esU : Nat) (t : Split) (m : Matrix α) (f : α → β) :
    Gen.Matrix.par_map esT esU t m f = C16.parMapMatrix esU t m f := by
  par_map_new_bridge Gen.Matrix.par_map

theorem par_map_ref_bridge (esT esU : Nat) (t : Split) (m : Matrix α) (f : α → β) :
    Gen.Matrix.par_map_ref esT esU t m f = C16.parMapMatrix esU t m f := by
  par_map_new_bridge Gen.Matrix.par_map_ref

theorem par_apply_bridge (esT : Nat) (t : Split) (m : Matrix α) (f : α → α) :
    Gen.Matrix.par_apply esT t m f = .ok (C16.parApplyMatrix t m f) := by
  unfold Gen.Matrix.par_apply C16.parApplyMatrix
  simp only [Gen.ParIter.forEachMut, drive_map_source, BridgeT9.ok_bind, pure_bind, bind_assoc]
  rfl

/-! ### the plain and the indexed parallel element iterators (an iterator = the list of its items, driven along `t`) -/

theorem par_iter_elements_bridge (t : Split) (m : Matrix α) :
    Gen.Matrix.par_iter_elements t m = .ok (C16.parIterElements t m) ∧
      Gen.Matrix.par_iter_elements_mut t m = .ok (C16.parIterElements t m) ∧
      Gen.Matrix.into_par_iter_elements t m = .ok (C16.parIterElements t m) := by
  refine ⟨?_, ?_, ?_⟩
  · unfold Gen.Matrix.par_iter_elements C16.parIterElements
    exact drive_source _ t
  · unfold Gen.Matrix.par_iter_elements_mut C16.parIterElements
    exact drive_source _ t
  · unfold Gen.Matrix.into_par_iter_elements C16.parIterElements
    exact drive_source _ t

/-- the proof of the three indexed bridges: the execution sees global positions; the closure of the source, item by
item, is the model's -/
macro "par_with_index_bridge" f:ident : tactic => `(tactic| (
  unfold $f:ident C16.parIterWithIndex
  refine (drive_enumerate_map _ _ _).trans (BridgeT12.mapM_congr _ _ _ (fun p _ => ?_))
  obtain ⟨k, x⟩ := p
  first
  | rfl
  | (simp only [BridgeT9.ok_bind, bind_pure, pure_bind, bind_assoc]; done)
  | (simp only [BridgeT9.ok_bind, bind_pure, pure_bind, bind_assoc]; rfl)))

theorem par_iter_elements_with_index_bridge (t : Split) (m : Matrix α) :
    Gen.Matrix.par_iter_elements_with_index t m = C16.parIterWithIndex t m := by
  par_with_index_bridge Gen.Matrix.par_iter_elements_with_index

theorem par_iter_elements_mut_with_index_bridge (t : Split) (m : Matrix α) :
    Gen.Matrix.par_iter_elements_mut_with_index t m = C16.parIterWithIndex t m := by
  par_with_index_bridge Gen.Matrix.par_iter_elements_mut_with_index

theorem into_par_iter_elements_with_index_bridge (t : Split) (m : Matrix α) :
    Gen.Matrix.into_par_iter_elements_with_index t m = C16.parIterWithIndex t m := by
  par_with_index_bridge Gen.Matrix.into_par_iter_elements_with_index

/-! ### headline: the parallel source functions equal their sequential twins, for every split tree -/

/-- `par_map` as the source has it, along ANY split tree, is the source's sequential `map` (T14), which is the model's -/
theorem par_map_source_eq_map (esT esU : Nat) (t : Split) (m : Matrix α) (f : α → β) :
    Gen.Matrix.par_map esT esU t m f = Gen.Matrix.map esT esU m.hdr m.data f := by
  rw [par_map_bridge, C16.par_map_eq_map, BridgeT14.map_bridge]

theorem par_map_source_eq_model (esT esU : Nat) (t : Split) (m : Matrix α) (f : α → β) :
    Gen.Matrix.par_map esT esU t m f = m.map esU f := by
  rw [par_map_bridge, C16.par_map_eq_map]

theorem par_map_ref_source_eq_map_ref (esT esU : Nat) (t : Split) (m : Matrix α) (f : α → β) :
    Gen.Matrix.par_map_ref esT esU t m f = Gen.Matrix.map_ref esT esU m.hdr m.data f := by
  rw [par_map_ref_bridge, C16.par_map_eq_map, BridgeT14.map_ref_bridge]

theorem par_map_ref_source_eq_model (esT esU : Nat) (t : Split) (m : Matrix α) (f : α → β) :
    Gen.Matrix.par_map_ref esT esU t m f = m.map esU f := by
  rw [par_map_ref_bridge, C16.par_map_eq_map]

/-- `par_apply` as the source has it, along ANY split tree, is the source's sequential `apply` (T14) -/
theorem par_apply_source_eq_apply (esT : Nat) (t : Split) (m : Matrix α) (f : α → α) :
    Gen.Matrix.par_apply esT t m f = Gen.Matrix.apply esT m.hdr m.data f := by
  rw [par_apply_bridge, C16.par_apply_eq_apply, BridgeT14.apply_bridge]

theorem par_apply_source_eq_model (esT : Nat) (t : Split) (m : Matrix α) (f : α → α) :
    Gen.Matrix.par_apply esT t m f = .ok { m with data := m.data.map f } := by
  rw [par_apply_bridge, C16.par_apply_eq_apply]

/-- the three plain parallel iterators, driven along ANY split tree, yield the memory-order element list — the items of
the source's sequential `iter_elements` / `iter_elements_mut` / `into_iter_elements` (T12) -/
theorem par_iter_elements_source_eq_seq (t : Split) (m : Matrix α) :
    Gen.Matrix.par_iter_elements t m = Gen.Matrix.iter_elements m ∧
      Gen.Matrix.par_iter_elements_mut t m = Gen.Matrix.iter_elements_mut m ∧
      Gen.Matrix.into_par_iter_elements t m = Gen.Matrix.into_iter_elements m := by
  obtain ⟨h1, h2, h3⟩ := par_iter_elements_bridge t m
  obtain ⟨g1, g2, g3⟩ := BridgeT12.iter_elements_is_the_source m
  rw [h1, h2, h3, g1, g2, g3, C16.par_iter_elements_eq_seq]
  exact ⟨rfl, rfl, rfl⟩

theorem par_iter_elements_source_eq_model (t : Split) (m : Matrix α) :
    Gen.Matrix.par_iter_elements t m = .ok m.iterElements ∧
      Gen.Matrix.par_iter_elements_mut t m = .ok m.iterElements ∧
      Gen.Matrix.into_par_iter_elements t m = .ok m.iterElements := by
  obtain ⟨h1, h2, h3⟩ := par_iter_elements_bridge t m
  rw [h1, h2, h3, C16.par_iter_elements_eq_seq]
  exact ⟨rfl, rfl, rfl⟩

/-- the three indexed parallel iterators, driven along ANY split tree, yield the (index, element) items of the source's
sequential `*_with_index` iterators (T12), the same faults of the index arithmetic included -/
theorem par_iter_elements_with_index_source_eq_seq (t : Split) (m : Matrix α) :
    Gen.Matrix.par_iter_elements_with_index t m = Gen.Matrix.iter_elements_with_index m := by
  rw [par_iter_elements_with_index_bridge, C16.par_iter_with_index_eq_seq, BridgeT12.iter_elements_with_index_is_the_source]

theorem par_iter_elements_mut_with_index_source_eq_seq (t : Split) (m : Matrix α) :
    Gen.Matrix.par_iter_elements_mut_with_index t m = Gen.Matrix.iter_elements_mut_with_index m := by
  rw [par_iter_elements_mut_with_index_bridge, C16.par_iter_with_index_eq_seq,
    BridgeT12.iter_elements_mut_with_index_is_the_source]

theorem into_par_iter_elements_with_index_source_eq_seq (t : Split) (m : Matrix α) :
    Gen.Matrix.into_par_iter_elements_with_index t m = Gen.Matrix.into_iter_elements_with_index m := by
  rw [into_par_iter_elements_with_index_bridge, C16.par_iter_with_index_eq_seq,
    BridgeT12.into_iter_elements_with_index_is_the_source]

theorem par_with_index_source_eq_model (t : Split) (m : Matrix α) :
    Gen.Matrix.par_iter_elements_with_index t m = m.iterWithIndex ∧
      Gen.Matrix.par_iter_elements_mut_with_index t m = m.iterWithIndex ∧
      Gen.Matrix.into_par_iter_elements_with_index t m = m.iterWithIndex := by
  rw [par_iter_elements_with_index_bridge, par_iter_elements_mut_with_index_bridge,
    into_par_iter_elements_with_index_bridge, C16.par_iter_with_index_eq_seq]
  exact ⟨rfl, rfl, rfl⟩

end Matreex.BridgeT16

namespace Matreex.C16
open Matreex Matreex.Par
variable {α β : Type}

/-- C16 on the source text: each of the nine functions of src/parallel.rs, as regenerated from the Rust statements on
this run and executed along ANY split tree `t`, equals its sequential twin as regenerated from src/lib.rs (T14) and
src/iter.rs (T12) — same `CapacityOverflow` decisions, same contents, order and shape, same indices, same faults -/
theorem parallel_is_the_source (esT esU : Nat) (t : Split) (m : Matrix α) (f : α → β) (g : α → α) :
    Gen.Matrix.par_apply esT t m g = Gen.Matrix.apply esT m.hdr m.data g ∧
    Gen.Matrix.par_map esT esU t m f = Gen.Matrix.map esT esU m.hdr m.data f ∧
    Gen.Matrix.par_map_ref esT esU t m f = Gen.Matrix.map_ref esT esU m.hdr m.data f ∧
    Gen.Matrix.par_iter_elements t m = Gen.Matrix.iter_elements m ∧
    Gen.Matrix.par_iter_elements_mut t m = Gen.Matrix.iter_elements_mut m ∧
    Gen.Matrix.into_par_iter_elements t m = Gen.Matrix.into_iter_elements m ∧
    Gen.Matrix.par_iter_elements_with_index t m = Gen.Matrix.iter_elements_with_index m ∧
    Gen.Matrix.par_iter_elements_mut_with_index t m = Gen.Matrix.iter_elements_mut_with_index m ∧
    Gen.Matrix.into_par_iter_elements_with_index t m = Gen.Matrix.into_iter_elements_with_index m :=
  ⟨BridgeT16.par_apply_source_eq_apply esT t m g, BridgeT16.par_map_source_eq_map esT esU t m f,
   BridgeT16.par_map_ref_source_eq_map_ref esT esU t m f, (BridgeT16.par_iter_elements_source_eq_seq t m).1,
   (BridgeT16.par_iter_elements_source_eq_seq t m).2.1, (BridgeT16.par_iter_elements_source_eq_seq t m).2.2,
   BridgeT16.par_iter_elements_with_index_source_eq_seq t m, BridgeT16.par_iter_elements_mut_with_index_source_eq_seq t m,
   BridgeT16.into_par_iter_elements_with_index_source_eq_seq t m⟩

/-- … and the model's: what the C08 / C15 / C18 theorems are about -/
theorem parallel_is_the_model (esT esU : Nat) (t : Split) (m : Matrix α) (f : α → β) (g : α → α) :
    Gen.Matrix.par_apply esT t m g = .ok { m with data := m.data.map g } ∧
    Gen.Matrix.par_map esT esU t m f = m.map esU f ∧
    Gen.Matrix.par_map_ref esT esU t m f = m.map esU f ∧
    Gen.Matrix.par_iter_elements t m = .ok m.iterElements ∧
    Gen.Matrix.par_iter_elements_mut t m = .ok m.iterElements ∧
    Gen.Matrix.into_par_iter_elements t m = .ok m.iterElements ∧
    Gen.Matrix.par_iter_elements_with_index t m = m.iterWithIndex ∧
    Gen.Matrix.par_iter_elements_mut_with_index t m = m.iterWithIndex ∧
    Gen.Matrix.into_par_iter_elements_with_index t m = m.iterWithIndex :=
  ⟨BridgeT16.par_apply_source_eq_model esT t m g, BridgeT16.par_map_source_eq_model esT esU t m f,
   BridgeT16.par_map_ref_source_eq_model esT esU t m f, (BridgeT16.par_iter_elements_source_eq_model t m).1,
   (BridgeT16.par_iter_elements_source_eq_model t m).2.1, (BridgeT16.par_iter_elements_source_eq_model t m).2.2,
   (BridgeT16.par_with_index_source_eq_model t m).1, (BridgeT16.par_with_index_source_eq_model t m).2.1,
   (BridgeT16.par_with_index_source_eq_model t m).2.2⟩

/-! ### `par_apply` at the level of memory writes, on every schedule

`ParIter.forEachMut` reads `for_each` over `par_iter_mut()` as "slot `i` ends up holding what the closure leaves in it".
The theorem below says that this reading is what the memory holds after ANY interleaving of the leaves' writes. -/

theorem runAll_cons {V : Type} (s : Threads.Step V) (ss : List (Threads.Step V)) (mem : Threads.Mem V) :
    Threads.runAll (s :: ss) mem = Threads.runAll ss (s.run mem) := rfl

/-- the sequential list of writes `g` at the addresses `base .. base + len - 1`, once each -/
theorem runAll_seq {V : Type} (g : V → V) : ∀ (xs : List α) (base : Nat) (mem : Threads.Mem V) (a : Nat),
    Threads.runAll ((seqMapIdx (fun i x => (i, x)) base xs).map fun p => (⟨p.1, g⟩ : Threads.Step V)) mem a
      = if base ≤ a ∧ a < base + xs.length then g (mem a) else mem a := by
  intro xs
  induction xs with
  | nil =>
    intro base mem a
    simp only [seqMapIdx, Threads.runAll, List.map_nil, List.foldl_nil, List.length_nil]
    rw [if_neg (by omega)]
  | cons x xs ih =>
    intro base mem a
    simp only [seqMapIdx, List.map_cons, runAll_cons, ih, Threads.Step.run, List.length_cons]
    by_cases h : a = base
    · subst h
      have h1 : ¬ (a + 1 ≤ a ∧ a < a + 1 + xs.length) := by omega
      have h2 : a ≤ a ∧ a < a + (xs.length + 1) := by omega
      simp [h1, h2]
    · by_cases h' : base + 1 ≤ a ∧ a < base + 1 + xs.length
      · have h2 : base ≤ a ∧ a < base + (xs.length + 1) := by omega
        simp [h, h', h2]
      · have h2 : ¬ (base ≤ a ∧ a < base + (xs.length + 1)) := by omega
        simp [h, h', h2]

/-- `par_apply` as the source has it: for every split tree `t` and EVERY interleaving `log` of the leaves' writes (one
write of `g` per slot, issued by the leaf that owns the slot), the memory after the run, read back slot by slot, is the
matrix the regenerated `par_apply` returns; nothing outside the vector is written -/
theorem par_apply_source_any_schedule (esT : Nat) (g : α → α) (t : Split) (m : Matrix α)
    (log : List (Threads.Step α))
    (h : Threads.Interleave ((leaves t 0 m.data.toList).map fun leaf => leaf.map fun p => (⟨p.1, g⟩ : Threads.Step α)) log)
    (mem : Threads.Mem α) (hmem : ∀ k (hk : k < m.data.size), mem k = m.data[k]) :
    ∃ m' : Matrix α, Gen.Matrix.par_apply esT t m g = .ok m' ∧ m'.order = m.order ∧ m'.shape = m.shape ∧
      m'.data.size = m.data.size ∧ (∀ k (hk : k < m'.data.size), m'.data[k] = Threads.runAll log mem k) ∧
      (∀ k, m.data.size ≤ k → Threads.runAll log mem k = mem k) := by
  refine ⟨{ m with data := m.data.map g }, BridgeT16.par_apply_source_eq_model esT t m g, rfl, rfl, by simp, ?_, ?_⟩
  · intro k hk
    have hk' : k < m.data.size := by simpa using hk
    rw [par_apply_any_schedule g t m.data.toList log h mem, runAll_seq]
    have : 0 ≤ k ∧ k < 0 + m.data.toList.length := by simp [hk']
    simp only [this, and_self, if_true, Array.getElem_map, hmem k hk']
  · intro k hk
    rw [par_apply_any_schedule g t m.data.toList log h mem, runAll_seq]
    have : ¬ (0 ≤ k ∧ k < 0 + m.data.toList.length) := by simp; omega
    simp only [this, if_false]

/-! ### non-vacuity: a 2×3 column-major matrix (columns [1,2] [3,4] [5,6]) and an uneven three-level split tree -/

def exM : Matrix Nat := ⟨.colMajor, ⟨3, 2⟩, #[1, 2, 3, 4, 5, 6]⟩
def exT : Split := .node 4 (.node 1 .leaf (.node 2 .leaf .leaf)) (.node 1 .leaf .leaf)

example : leaves exT 0 exM.data.toList = [[(0, 1)], [(1, 2), (2, 3)], [(3, 4)], [(4, 5)], [(5, 6)]] := by rfl
example : Gen.Matrix.par_map 8 4 exT exM (fun x => x * 10) = .ok (.ok ⟨.colMajor, ⟨3, 2⟩, #[10, 20, 30, 40, 50, 60]⟩) := by rfl
example : Gen.Matrix.par_map_ref 8 4 exT exM (fun x => x + 1) = .ok (.ok ⟨.colMajor, ⟨3, 2⟩, #[2, 3, 4, 5, 6, 7]⟩) := by rfl
example : Gen.Matrix.par_map 8 (2 ^ 62) exT exM (fun x => x) = .ok (.error .capacityOverflow) := by rfl
example : Gen.Matrix.par_apply 8 exT exM (fun x => x + 2) = .ok ⟨.colMajor, ⟨3, 2⟩, #[3, 4, 5, 6, 7, 8]⟩ := by rfl
example : Gen.Matrix.par_iter_elements exT exM = .ok [1, 2, 3, 4, 5, 6] := by rfl
example : Gen.Matrix.par_iter_elements_mut exT exM = .ok [1, 2, 3, 4, 5, 6] := by rfl
example : Gen.Matrix.into_par_iter_elements exT exM = .ok [1, 2, 3, 4, 5, 6] := by rfl
/-- element `k` of the column-major buffer is reported at (row `k % 2`, column `k / 2`), also by the leaves that start
in the middle of the vector -/
example : Gen.Matrix.par_iter_elements_with_index exT exM =
    .ok [(⟨0, 0⟩, 1), (⟨1, 0⟩, 2), (⟨0, 1⟩, 3), (⟨1, 1⟩, 4), (⟨0, 2⟩, 5), (⟨1, 2⟩, 6)] := by rfl
example : Gen.Matrix.par_iter_elements_mut_with_index exT exM =
    .ok [(⟨0, 0⟩, 1), (⟨1, 0⟩, 2), (⟨0, 1⟩, 3), (⟨1, 1⟩, 4), (⟨0, 2⟩, 5), (⟨1, 2⟩, 6)] := by rfl
example : Gen.Matrix.into_par_iter_elements_with_index exT exM =
    .ok [(⟨0, 0⟩, 1), (⟨1, 0⟩, 2), (⟨0, 1⟩, 3), (⟨1, 1⟩, 4), (⟨0, 2⟩, 5), (⟨1, 2⟩, 6)] := by rfl
/-- the index arithmetic faults on an element-less minor extent, the same way on every tree -/
example : ∃ msg, Gen.Matrix.par_iter_elements_with_index exT (⟨.colMajor, ⟨3, 0⟩, #[1]⟩ : Matrix Nat) =
    .error (.panic msg) := ⟨_, rfl⟩

end Matreex.C16
