/-
Register-file lemmas for the operation histories of `Model/History.lean` (C01): the invariant
`Inv` is preserved by `World.set`, can be read back through `World.get`, and is re-established by
the three generic step shapes `inPlace`, `inPlace'`, `store` whenever the wrapped operation maps a
good matrix (coherent, element count within `usize`) to a non-faulting result holding a good matrix.
-/
import Matreex.Model.History

namespace Matreex.History
open Matreex
variable {α : Type}

/-- what `Inv` says about every live matrix -/
def Good (m : Matrix α) : Prop := m.Coh ∧ m.data.size ≤ usizeMax

theorem Inv_nil : Inv (⟨[]⟩ : World α) := by
  intro m hm
  cases hm

theorem get_inv {w : World α} (hw : Inv w) {r : Nat} {m : Matrix α} (h : w.get r = some m) :
    Good m := by
  apply hw
  unfold World.get at h
  cases hr : w.regs[r]? with
  | none => simp [hr] at h
  | some x =>
    simp only [hr, Option.join_some] at h
    subst h
    exact List.mem_of_getElem? hr

theorem Inv_set {w : World α} (hw : Inv w) (r : Nat) (x : Option (Matrix α))
    (hx : ∀ m, x = some m → Good m) : Inv (w.set r x) := by
  intro m hm
  unfold World.set at hm
  simp only at hm
  rcases List.mem_or_eq_of_mem_set hm with h | h
  · rcases List.mem_append.mp h with h | h
    · exact hw m h
    · have := List.eq_of_mem_replicate h
      cases this
  · exact hx m h.symm

theorem Inv_set_some {w : World α} (hw : Inv w) (r : Nat) {m : Matrix α} (hm : Good m) :
    Inv (w.set r (some m)) :=
  Inv_set hw r (some m) (fun m' h => by cases h; exact hm)

theorem Inv_set_none {w : World α} (hw : Inv w) (r : Nat) : Inv (w.set r none) :=
  Inv_set hw r none (fun m' h => by cases h)

/-- in-place fallible operation: no fault and a good resulting matrix (in both outcomes) -/
theorem inPlace_inv {w : World α} (hw : Inv w) (r : Nat)
    (f : Matrix α → M (Except Error Unit × Matrix α))
    (hf : ∀ m, Good m → ∃ e m', f m = .ok (e, m') ∧ Good m') :
    ∃ w', inPlace w r f = .ok w' ∧ Inv w' := by
  unfold inPlace
  cases hg : w.get r with
  | none => exact ⟨w, rfl, hw⟩
  | some m =>
    obtain ⟨e, m', h1, h2⟩ := hf m (get_inv hw hg)
    simp only [h1]
    exact ⟨_, rfl, Inv_set_some hw r h2⟩

/-- in-place infallible operation -/
theorem inPlace'_inv {w : World α} (hw : Inv w) (r : Nat) (f : Matrix α → M (Matrix α))
    (hf : ∀ m, Good m → ∃ m', f m = .ok m' ∧ Good m') :
    ∃ w', inPlace' w r f = .ok w' ∧ Inv w' := by
  unfold inPlace'
  cases hg : w.get r with
  | none => exact ⟨w, rfl, hw⟩
  | some m =>
    obtain ⟨m', h1, h2⟩ := hf m (get_inv hw hg)
    simp only [h1]
    exact ⟨_, rfl, Inv_set_some hw r h2⟩

/-- constructing operation: no fault, and a good matrix whenever it returns `Ok` -/
theorem store_inv {w : World α} (hw : Inv w) (dst : Nat) (res : M (Except Error (Matrix α)))
    (x : Except Error (Matrix α)) (h1 : res = .ok x) (h2 : ∀ m, x = .ok m → Good m) :
    ∃ w', store w dst res = .ok w' ∧ Inv w' := by
  subst h1
  unfold store
  cases x with
  | error e => exact ⟨w, rfl, hw⟩
  | ok m => exact ⟨_, rfl, Inv_set_some hw dst (h2 m rfl)⟩

end Matreex.History
