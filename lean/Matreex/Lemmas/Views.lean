/-
Row / column views (`iter().skip(a).step_by(s).take(t)`): what the n-th major-axis and minor-axis
vector of a coherent matrix yields, at the data level and in terms of logical coordinates.
-/
import Matreex.Model.Iter
import Matreex.Lemmas.Matrix
import Matreex.Lemmas.Elementwise

namespace Matreex
variable {α : Type}

theorem stepByAux_get (s : Nat) (hs : 0 < s) :
    ∀ (fuel : Nat) (l : List α) (i : Nat), l.length ≤ fuel →
      (stepByAux s fuel l)[i]? = l[i * s]? := by
  intro fuel
  induction fuel with
  | zero =>
    intro l i h
    have : l = [] := List.length_eq_zero_iff.mp (by omega)
    subst this; simp [stepByAux]
  | succ fuel ih =>
    intro l i h
    cases l with
    | nil => simp [stepByAux]
    | cons x xs =>
      cases i with
      | zero => simp [stepByAux]
      | succ i =>
        simp only [stepByAux, List.getElem?_cons_succ]
        rw [ih (xs.drop (s - 1)) i (by simp at h ⊢; omega), List.getElem?_drop]
        have : (i + 1) * s = (s - 1 + i * s) + 1 := by rw [Nat.add_mul]; omega
        rw [this, List.getElem?_cons_succ]

theorem view_get (l : List α) (a s t : Nat) (hs : 0 < s) :
    ∃ v, view l a s t = .ok v ∧ ∀ i, v[i]? = if i < t then l[a + i * s]? else none := by
  have hne : s ≠ 0 := by omega
  refine ⟨(stepByAux s (l.drop a).length (l.drop a)).take t, by simp [view, stepBy, hne], ?_⟩
  intro i
  rw [List.getElem?_take]
  split
  · rw [stepByAux_get s hs _ _ i (Nat.le_refl _), List.getElem?_drop]
  · rfl

/-- list with prescribed `getElem?` on `[0, n)` and `none` beyond has length `n` -/
theorem length_of_get {β : Type} (v : List β) (n : Nat)
    (h : ∀ i, (v[i]?).isSome = decide (i < n)) : v.length = n := by
  have h1 := h v.length
  have h2 : ∀ i, i < n → i < v.length := by
    intro i hi
    have := h i
    simp only [hi, decide_true] at this
    rcases Nat.lt_or_ge i v.length with h' | h'
    · exact h'
    · rw [List.getElem?_eq_none_iff.mpr h'] at this; simp at this
  simp at h1
  rcases Nat.lt_or_ge v.length n with h' | h'
  · have := h2 v.length h'; omega
  · rcases Nat.lt_or_ge n v.length with h'' | h''
    · have := h n
      rw [List.getElem?_eq_getElem h''] at this; simp at this
    · omega

theorem major_view (l : List α) (major minor n : Nat) (hl : l.length = major * minor)
    (hn : n < major) :
    ∃ v, view l (n * minor) 1 minor = .ok v ∧ v.length = minor ∧
      ∀ c, c < minor → v[c]? = l[n * minor + c]? ∧ (l[n * minor + c]?).isSome := by
  obtain ⟨v, h1, h2⟩ := view_get l (n * minor) 1 minor (by omega)
  have hin : ∀ c, c < minor → (l[n * minor + c]?).isSome := by
    intro c hc
    have : n * minor + c < l.length := by rw [hl]; exact flat_lt hn hc
    rw [List.getElem?_eq_getElem this]; rfl
  refine ⟨v, h1, ?_, ?_⟩
  · apply length_of_get
    intro i
    rw [h2 i]
    by_cases hi : i < minor
    · have := hin i hi
      simp only [hi, ↓reduceIte, Nat.mul_one, decide_true]; exact this
    · simp [hi]
  · intro c hc
    have := h2 c
    simp only [hc, ↓reduceIte, Nat.mul_one] at this
    exact ⟨this, hin c hc⟩

theorem minor_view (l : List α) (major minor n : Nat) (hl : l.length = major * minor)
    (hn : n < minor) :
    ∃ v, view l n minor major = .ok v ∧ v.length = major ∧
      ∀ r, r < major → v[r]? = l[r * minor + n]? ∧ (l[r * minor + n]?).isSome := by
  obtain ⟨v, h1, h2⟩ := view_get l n minor major (by omega)
  have hin : ∀ r, r < major → (l[r * minor + n]?).isSome := by
    intro r hr
    have : r * minor + n < l.length := by rw [hl]; exact flat_lt hr hn
    rw [List.getElem?_eq_getElem this]; rfl
  refine ⟨v, h1, ?_, ?_⟩
  · apply length_of_get
    intro i
    rw [h2 i]
    by_cases hi : i < major
    · have := hin i hi
      simp only [hi, ↓reduceIte, decide_true, Nat.add_comm n]; exact this
    · simp [hi]
  · intro r hr
    have := h2 r
    simp only [hr, ↓reduceIte, Nat.add_comm n] at this
    exact ⟨this, hin r hr⟩

/-! ### data level -/

theorem Matrix.nthMajorUnchecked_spec (m : Matrix α) (h : m.Coh) (hfit : m.data.size ≤ usizeMax)
    (n : Nat) (hn : n < m.shape.major) :
    ∃ l, m.nthMajorUnchecked n = .ok l ∧ l.length = m.shape.minor ∧
      ∀ k, k < m.shape.minor → l[k]? = m.data[n * m.shape.minor + k]? := by
  have hl : m.data.toList.length = m.shape.major * m.shape.minor := by
    rw [h.size_eq]; simp
  obtain ⟨v, h1, h2, h3⟩ := major_view m.data.toList m.shape.major m.shape.minor n hl hn
  have hov : n * m.shape.minor ≤ usizeMax := by
    have : n * m.shape.minor ≤ m.shape.major * m.shape.minor :=
      Nat.mul_le_mul_right _ (Nat.le_of_lt hn)
    rw [h.size_eq] at this
    omega
  refine ⟨v, ?_, h2, ?_⟩
  · simp only [Matrix.nthMajorUnchecked, umul_ok hov, bind, Except.bind]
    exact h1
  · intro k hk
    rw [(h3 k hk).1, Array.getElem?_toList]

theorem Matrix.nthMinorUnchecked_spec (m : Matrix α) (h : m.Coh)
    (n : Nat) (hn : n < m.shape.minor) (hnu : n ≤ usizeMax) :
    ∃ l, m.nthMinorUnchecked n = .ok l ∧ l.length = m.shape.major ∧
      ∀ k, k < m.shape.major → l[k]? = m.data[k * m.shape.minor + n]? := by
  have hl : m.data.toList.length = m.shape.major * m.shape.minor := by
    rw [h.size_eq]; simp
  obtain ⟨v, h1, h2, h3⟩ := minor_view m.data.toList m.shape.major m.shape.minor n hl hn
  have hov : n * 1 ≤ usizeMax := by omega
  refine ⟨v, ?_, h2, ?_⟩
  · simp only [Matrix.nthMinorUnchecked, umul_ok hov, bind, Except.bind, Nat.mul_one]
    exact h1
  · intro k hk
    rw [(h3 k hk).1, Array.getElem?_toList]

/-! ### logical level -/

theorem Matrix.at?_eq_data (m : Matrix α) {r c : Nat} (hr : r < m.nrows) (hc : c < m.ncols) :
    m.at? r c = m.data[m.idx r c]? := by
  simp [Matrix.at?, hr, hc]

/-- the body of `iter_rows` at row `n` -/
def Matrix.rowView (m : Matrix α) (n : Nat) : M (List α) :=
  match m.order with
  | .rowMajor => m.nthMajorUnchecked n
  | .colMajor => m.nthMinorUnchecked n

/-- the body of `iter_cols` at column `n` -/
def Matrix.colView (m : Matrix α) (n : Nat) : M (List α) :=
  match m.order with
  | .rowMajor => m.nthMinorUnchecked n
  | .colMajor => m.nthMajorUnchecked n

theorem Matrix.rowView_spec (m : Matrix α) (h : m.Coh) (hfit : m.data.size ≤ usizeMax)
    (n : Nat) (hn : n < m.nrows) (hnu : n ≤ usizeMax) :
    ∃ l, m.rowView n = .ok l ∧ l.length = m.ncols ∧
      ∀ c, c < m.ncols → l[c]? = m.data[m.idx n c]? := by
  obtain ⟨o, sh, d⟩ := m
  cases o
  · obtain ⟨l, h1, h2, h3⟩ := Matrix.nthMajorUnchecked_spec ⟨.rowMajor, sh, d⟩ h hfit n hn
    refine ⟨l, h1, h2, ?_⟩
    intro c hc
    rw [Matrix.idx_rowMajor _ rfl]
    exact h3 c hc
  · obtain ⟨l, h1, h2, h3⟩ := Matrix.nthMinorUnchecked_spec ⟨.colMajor, sh, d⟩ h n hn hnu
    refine ⟨l, h1, h2, ?_⟩
    intro c hc
    rw [Matrix.idx_colMajor _ rfl]
    exact h3 c hc

theorem Matrix.colView_spec (m : Matrix α) (h : m.Coh) (hfit : m.data.size ≤ usizeMax)
    (n : Nat) (hn : n < m.ncols) (hnu : n ≤ usizeMax) :
    ∃ l, m.colView n = .ok l ∧ l.length = m.nrows ∧
      ∀ r, r < m.nrows → l[r]? = m.data[m.idx r n]? := by
  obtain ⟨o, sh, d⟩ := m
  cases o
  · obtain ⟨l, h1, h2, h3⟩ := Matrix.nthMinorUnchecked_spec ⟨.rowMajor, sh, d⟩ h n hn hnu
    refine ⟨l, h1, h2, ?_⟩
    intro r hr
    rw [Matrix.idx_rowMajor _ rfl]
    exact h3 r hr
  · obtain ⟨l, h1, h2, h3⟩ := Matrix.nthMajorUnchecked_spec ⟨.colMajor, sh, d⟩ h hfit n hn
    refine ⟨l, h1, h2, ?_⟩
    intro r hr
    rw [Matrix.idx_colMajor _ rfl]
    exact h3 r hr

theorem Matrix.iterNthRow_eq (m : Matrix α) (n : Nat) :
    m.iterNthRow n = if n < m.nrows then (do let v ← m.rowView n; pure (.ok v))
      else .ok (.error .indexOutOfBounds) := by
  obtain ⟨o, sh, d⟩ := m
  cases o <;>
    simp only [Matrix.iterNthRow, Matrix.nthMajor, Matrix.nthMinor, Matrix.rowView, Matrix.nrows,
      AxisShape.nrows, ge_iff_le, ← Nat.not_lt, ite_not] <;> rfl

theorem Matrix.iterNthCol_eq (m : Matrix α) (n : Nat) :
    m.iterNthCol n = if n < m.ncols then (do let v ← m.colView n; pure (.ok v))
      else .ok (.error .indexOutOfBounds) := by
  obtain ⟨o, sh, d⟩ := m
  cases o <;>
    simp only [Matrix.iterNthCol, Matrix.nthMajor, Matrix.nthMinor, Matrix.colView, Matrix.ncols,
      AxisShape.ncols, ge_iff_le, ← Nat.not_lt, ite_not] <;> rfl

theorem Matrix.iterRows_eq (m : Matrix α) : m.iterRows = (List.range m.nrows).mapM m.rowView := rfl
theorem Matrix.iterCols_eq (m : Matrix α) : m.iterCols = (List.range m.ncols).mapM m.colView := rfl

theorem Matrix.nrows_le (m : Matrix α)
    (hext : m.shape.major ≤ usizeMax ∧ m.shape.minor ≤ usizeMax) : m.nrows ≤ usizeMax := by
  obtain ⟨o, sh, d⟩ := m
  cases o <;> simp only [Matrix.nrows, AxisShape.nrows] at * <;> omega

theorem Matrix.ncols_le (m : Matrix α)
    (hext : m.shape.major ≤ usizeMax ∧ m.shape.minor ≤ usizeMax) : m.ncols ≤ usizeMax := by
  obtain ⟨o, sh, d⟩ := m
  cases o <;> simp only [Matrix.ncols, AxisShape.ncols] at * <;> omega

end Matreex
