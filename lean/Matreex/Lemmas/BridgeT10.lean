/-
Bridge for `Matrix::multiply` (src/arithmetic/mul.rs) and `Matrix::multiplication_like_operation`
(src/arithmetic.rs): the functions regenerated from the source on every run (`Gen/T10Gen.lean`, translator
T10) compute exactly what the hand-written model functions `Matrix.multiply` / `Matrix.multiplicationLike`
of `Model/Mul.lean` compute — same result matrix, same `Error`, same faults — for EVERY pair of operands
(coherent or not), every element size and every `mul` / `add` / `dflt` / closure: no hypothesis.  The C08 /
C11 theorems are about the model functions (`mulDecision`, `mulLike`, `nestLoop`, `nthMajorVector`,
`dotProduct`); through these equations they are about the source text.

The helpers the two functions call are bridged on their own: `get_nth_major_axis_vector` = `nthMajorVector`
(all inputs, including overflow panics and the out-of-range slice), `dot_product` = `dotProduct`,
`ensure_multiplication_like_operation_conformable` = the conformability predicate followed by
`Ok(self)` / `Err(ShapeNotConformable)`.

The proofs do not mention generated temporaries.  The model's recursive loops are turned into folds over
`List.range` (`nestLoop_eq_foldlM`); then both sides are normalised by the monad laws, the `bindErr` laws and
commutativity of the checked operations, and coincide.  Renamed / inlined / introduced locals and commuted
operands do not change the normal form.  `Bridge.nrows` / `Bridge.ncols` (T2's `nrows` / `ncols` are total)
are used because the model asks for the extents twice and the source once.
-/
import Matreex.Gen.T10Gen
import Matreex.Model.Mul
import Matreex.Lemmas.Bridge

namespace Matreex.BridgeT10
open Matreex
-- the simp sets below are meant for every harmless rewrite of the source, not only for today's text
set_option linter.unusedSimpArgs false
variable {L R U : Type}

/-! ### normal forms -/

theorem ok_bind {β γ : Type} (a : β) (f : β → M γ) : (Except.ok a >>= f) = f a := rfl
theorem umul_comm (a b : Nat) : umul a b = umul b a := by simp only [umul, Nat.mul_comm]
theorem uadd_comm (a b : Nat) : uadd a b = uadd b a := by simp only [uadd, Nat.add_comm]
theorem zero_eq (n : Nat) : (0 = n) = (n = 0) := propext eq_comm
theorem zero_ne (n : Nat) : (0 ≠ n) = (n ≠ 0) := propext ne_comm

theorem bindErr_ok {α β : Type} (a : α) (f : α → M (Except Error β)) : bindErr (.ok a) f = f a := rfl
theorem bindErr_error {α β : Type} (e : Error) (f : α → M (Except Error β)) :
    bindErr (.error e) f = pure (.error e) := rfl

/-- `bindErr` followed by a continuation that is itself a `bindErr` -/
theorem bindErr_bind_bindErr {α β γ : Type} (x : Except Error α) (f : α → M (Except Error β))
    (h : β → M (Except Error γ)) :
    (bindErr x f >>= fun d => bindErr d h) = bindErr x (fun a => f a >>= fun d => bindErr d h) := by
  cases x <;> rfl

theorem ite_bind' {β γ : Type} (c : Prop) [Decidable c] (x y : M β) (f : β → M γ) :
    ((if c then x else y) >>= f) = if c then x >>= f else y >>= f := by
  split <;> rfl

theorem ite_not_bool {β : Type} (b : Bool) (x y : β) :
    (if (!b) = true then x else y) = if b = true then y else x := by
  cases b <;> rfl

theorem ite_not' {β : Type} (c : Prop) [Decidable c] (x y : β) : (if ¬c then x else y) = if c then y else x := by
  split <;> simp_all

/-! ### the model's loops as folds over the iteration numbers -/

/-- one `data.push(f i)` -/
def pushStep {α : Type} (f : Nat → M α) : Array α → Nat → M (Array α) :=
  fun d i => f i >>= fun x => pure (d.push x)

theorem pushStep_eq {α : Type} (f : Nat → M α) : pushStep f = fun d i => f i >>= fun x => pure (d.push x) := rfl

theorem pushLoop_eq_foldlM {α : Type} (f : Nat → M α) (todo : Nat) :
    ∀ (lo : Nat) (d : Array α), pushLoop f todo lo d = (List.range' lo todo).foldlM (pushStep f) d := by
  induction todo with
  | zero => intro lo d; rfl
  | succ todo ih =>
    intro lo d
    simp only [pushLoop, List.range'_succ, List.foldlM_cons, pushStep, bind, Except.bind]
    cases f lo with
    | error e => rfl
    | ok x => exact ih (lo + 1) (d.push x)

theorem nestLoop_eq_foldlM {α : Type} (f : Nat → Nat → M α) (inner todo : Nat) :
    ∀ (lo : Nat) (d : Array α), nestLoop f inner todo lo d =
      (List.range' lo todo).foldlM (fun d o => (List.range inner).foldlM (pushStep (f o)) d) d := by
  induction todo with
  | zero => intro lo d; rfl
  | succ todo ih =>
    intro lo d
    simp only [nestLoop, List.range'_succ, List.foldlM_cons, pushLoop_eq_foldlM, ← List.range_eq_range', bind,
      Except.bind]
    cases List.foldlM (pushStep (f lo)) d (List.range inner) with
    | error e => rfl
    | ok d' => exact ih (lo + 1) d'

/-- `resize_with(n, U::default)` on the fresh buffer -/
theorem resizeData_empty {α : Type} (n : Nat) (x : α) : resizeData #[] n x = Array.replicate n x := by
  unfold resizeData
  by_cases h : n = 0
  · subst h; rfl
  · have : ¬ n ≤ (#[] : Array α).size := by simpa using h
    simp [this]

/-! ### the helpers -/

/-- `get_nth_major_axis_vector` (regenerated from src/arithmetic.rs) = the model's `nthMajorVector`, for
every matrix and every `n`, including the overflow panics and the out-of-range slice. -/
theorem get_nth_is_the_source {α : Type} (m : Matrix α) (n : Nat) :
    Gen.Matrix.get_nth_major_axis_vector m n = nthMajorVector m n := by
  simp only [Gen.Matrix.get_nth_major_axis_vector, nthMajorVector, Bridge.major_stride, Bridge.minor_stride, ok_bind,
    pure_bind, bind_pure, bind_assoc, umul_comm, uadd_comm]
  try rfl

/-- `dot_product` (regenerated from src/arithmetic/mul.rs) = the model's `dotProduct`: it never faults, the
factors are `lhs[k] * rhs[k]` in this operand order, summed left to right, `None` on empty slices. -/
theorem dot_product_is_the_source (mul : L → R → U) (add : U → U → U) (dflt : U) (ls : List L) (rs : List R) :
    Gen.dot_product mul add dflt ls rs = .ok (dotProduct mul add ls rs) := by
  simp only [Gen.dot_product]
  try rfl

/-- `ensure_multiplication_like_operation_conformable` (regenerated from src/arithmetic.rs): `Ok(self)` when
`ncols(lhs) = nrows(rhs)`, `Err(ShapeNotConformable)` otherwise, never a fault. -/
theorem ensure_is_the_source (a b : Hdr) :
    Gen.Matrix.ensure_multiplication_like_operation_conformable a b =
      .ok (if a.mulConformable b = true then .ok a else .error .shapeNotConformable) := by
  simp only [Gen.Matrix.ensure_multiplication_like_operation_conformable, Bridge.mul_conformable, ok_bind, pure_bind,
    bind_pure]
  cases a.mulConformable b <;> rfl

/-! ### the two products -/

/-- both sides to their common normal form -/
macro "mul_normal_form" : tactic => `(tactic|
  simp only [Gen.Matrix.multiply, Gen.Matrix.multiplication_like_operation, Matrix.multiply, Matrix.multiplicationLike,
    mulLike, mulDecision, sizeDecision, Gen.Matrix.ensure_multiplication_like_operation_conformable,
    get_nth_is_the_source, dot_product_is_the_source, nestLoop_eq_foldlM, ← List.range_eq_range', pushStep_eq,
    resizeData_empty, Bridge.nrows, Bridge.ncols, Gen.Shape.new, Gen.Shape.from_tuple,
    ok_bind, pure_bind, bind_pure, bind_assoc, bindErr_ok, bindErr_error, bindErr_bind_bindErr, ite_bind', ite_not_bool,
    ite_not', Matrix.hdr, decide_eq_true_eq, decide_not, zero_eq, zero_ne, ne_eq, Nat.min_def])

/-- `Gen.Matrix.multiply` (regenerated from src/arithmetic/mul.rs) = the model's `Matrix.multiply`: the
conformability / size / capacity decision (`mulDecision`), the zero-inner-dimension result, the two
`set_order`s, the per-order loop nest, every slice and every `unwrap_unchecked` — results, errors and
faults.  `esL`, `esR` (the operands' element sizes) do not occur in the model: the source must not use them. -/
theorem multiply_is_the_source (zstL zstR : Bool) (esL esR esOut : Nat) (a : Matrix L) (b : Matrix R)
    (mul : L → R → U) (add : U → U → U) (dflt : U) :
    Gen.Matrix.multiply zstL zstR esL esR esOut a b mul add dflt = a.multiply zstL zstR esOut b mul add dflt := by
  obtain ⟨ao, ash, ad⟩ := a
  cases ao <;> mul_normal_form

/-- `Gen.Matrix.multiplication_like_operation` (regenerated from src/arithmetic.rs) = the model's
`Matrix.multiplicationLike`, in the same sense. -/
theorem multiplication_like_is_the_source (zstL zstR : Bool) (esL esR esOut : Nat) (a : Matrix L) (b : Matrix R)
    (op : List L → List R → U) (dflt : U) :
    Gen.Matrix.multiplication_like_operation zstL zstR esL esR esOut a b op dflt =
      a.multiplicationLike zstL zstR esOut b op dflt := by
  obtain ⟨ao, ash, ad⟩ := a
  cases ao <;> mul_normal_form

/-- the decision prefix on its own: a product the source text accepts is one `mulDecision` accepts, with the
shape and order the model says — read off the bridge and the model's definition -/
theorem multiply_decision (zstL zstR : Bool) (esL esR esOut : Nat) (a : Matrix L) (b : Matrix R)
    (mul : L → R → U) (add : U → U → U) (dflt : U) (c : Matrix U)
    (h : Gen.Matrix.multiply zstL zstR esL esR esOut a b mul add dflt = .ok (.ok c)) :
    ∃ size, mulDecision esOut a.hdr b.hdr = .ok (.ok (c.shape, size)) ∧ c.order = a.order := by
  rw [multiply_is_the_source] at h
  simp only [Matrix.multiply, mulLike, bind, Except.bind] at h
  cases hd : mulDecision esOut a.hdr b.hdr with
  | error e => simp [hd] at h
  | ok d =>
    cases d with
    | error e => simp [hd, bindErr] at h
    | ok p =>
      obtain ⟨sh, size⟩ := p
      refine ⟨size, ?_⟩
      simp only [hd, bindErr, Bridge.ncols, Bridge.nrows, pure, Except.pure] at h
      split at h
      · cases h; exact ⟨rfl, rfl⟩
      · cases h1 : a.setOrder zstL .rowMajor with
        | error e => simp [h1] at h
        | ok a' =>
          cases h2 : b.setOrder zstR .colMajor with
          | error e => simp [h1, h2] at h
          | ok b' =>
            simp only [h1, h2] at h
            split at h <;> split at h <;> first | (cases h; done) | (cases h; exact ⟨rfl, rfl⟩)

end Matreex.BridgeT10
