/-
Bridge for the shape-taking constructors of src/construct.rs (`with_default`, `with_value`,
`with_initializer`) and for `Matrix::reshape` / `Matrix::size` of src/lib.rs: the functions regenerated
from the source on every run (`Gen/T8Gen.lean`, translator T8) compute exactly what the hand-written
model functions of `Model/Construct.lean` compute — same result, same error, same fault, and for the
in-place `reshape` the same header in BOTH outcomes.  The C08 / C09 theorems are about the model
functions; through these equations they are about the source text.

No hypotheses: both sides use the same checked integer functions of `Gen/Core.lean`
(`try_to_axis_shape`, `AxisShape::size`, `check_size`, `Index::from_flattened`), so the equations hold
for every argument, including shapes whose size overflows and element counts no vector can reach.

The proofs do not mention generated temporaries: both sides are unfolded, the results of the calls
they share are case-split in the order the calls occur, and what remains is closed by evaluation.
The constructor loop (`for index in 0..size { … data.push(..) }`) is compared with the model's
`List.mapM` through `fold_push`, whose premise is checked pointwise by case-splitting the body's call.
-/
import Matreex.Gen.T8Gen
import Matreex.Model.Construct

namespace Matreex.BridgeT8
open Matreex
-- the simp sets below are meant for every harmless rewrite of the source, not only for today's text
set_option linter.unusedSimpArgs false
variable {α β : Type}

/-! ### small facts -/

theorem ok_bind {β γ : Type} (a : β) (f : β → M γ) : (Except.ok a >>= f) = f a := rfl
theorem error_bind {β γ : Type} (e : Fault) (f : β → M γ) : ((Except.error e : M β) >>= f) = Except.error e := rfl

/-- `Vec::resize_with` on a fresh vector is `vec![dflt; n]` -/
theorem resizeData_empty (n : Nat) (dflt : α) : resizeData (#[] : Array α) n dflt = Array.replicate n dflt := by
  unfold resizeData
  by_cases h : n = 0
  · subst h; simp
  · have : ¬ n ≤ 0 := by omega
    simp [this]

/-- a fold that pushes one computed element per iteration = `mapM` of the computation -/
theorem fold_push (F : Array β → Nat → M (Array β)) (g : Nat → M β)
    (h : ∀ d k, F d k = (g k >>= fun x => pure (d.push x))) (l : List Nat) (d0 : Array β) :
    l.foldlM F d0 = (l.mapM g >>= fun xs => pure (d0 ++ xs.toArray)) := by
  induction l generalizing d0 with
  | nil => simp [pure, Except.pure, bind, Except.bind]
  | cons a l ih =>
    simp only [List.foldlM_cons, List.mapM_cons, h]
    cases g a with
    | error e => rfl
    | ok x =>
      simp only [ok_bind, pure, Except.pure] at ih ⊢
      rw [ih]
      cases List.mapM g l with
      | error e => rfl
      | ok xs => simp [bind, Except.bind]

/-! ### `size`, `reshape` -/

theorem size_bridge (m : Matrix α) : Gen.Matrix.size m.hdr m.data.size = .ok m.size := by
  first | rfl | simp [Gen.Matrix.size, Matrix.size, pure, Except.pure]

/-- `Gen.Matrix.reshape` (regenerated from src/lib.rs) = the model's `Matrix.reshape`: same result and
same header afterwards, in both outcomes, for every matrix and every requested shape.  The generated
function is given the header and the element count only, so the buffer is not touched. -/
theorem reshape_bridge (m : Matrix α) (s : Shape) :
    Gen.Matrix.reshape m.hdr m.data.size s = (m.reshape s).map fun p => (p.1, p.2.hdr) := by
  unfold Gen.Matrix.reshape Matrix.reshape
  simp only [Gen.Matrix.size, Matrix.hdr, pure_bind, bind_pure]
  rcases Gen.Shape.try_to_axis_shape s m.order with f | e | sh
  · rfl
  · rfl
  · simp only [ok_bind]
    rcases Gen.AxisShape.size sh with f | n
    · rfl
    · by_cases h : m.data.size = n
      · have h' : n = m.data.size := h.symm
        first
          | (simp [h, Except.map, Matrix.hdr, pure, Except.pure, bind, Except.bind]; done)
          | (simp [h', Except.map, Matrix.hdr, pure, Except.pure, bind, Except.bind]; done)
      · have h' : ¬ n = m.data.size := fun e => h e.symm
        simp [h, h', Except.map, Matrix.hdr, pure, Except.pure, bind, Except.bind]

/-- the model's `reshape` is the generated decision with the buffer put back -/
theorem reshape_is_the_source (m : Matrix α) (s : Shape) :
    m.reshape s = (Gen.Matrix.reshape m.hdr m.data.size s).map
      fun r => (r.1, ⟨r.2.order, r.2.shape, m.data⟩) := by
  rw [reshape_bridge]
  unfold Matrix.reshape
  rcases Gen.Shape.try_to_axis_shape s m.order with f | e | sh
  · rfl
  · rfl
  · simp only [ok_bind]
    rcases Gen.AxisShape.size sh with f | n
    · rfl
    · by_cases h : m.data.size = n <;> simp [h, Except.map, Matrix.hdr, pure, Except.pure, bind, Except.bind]

/-- on the element count alone (matrices of zero-sized elements whose count no array can reach):
the generated function takes the decision `reshapeDecision`, for any header with the given order -/
theorem reshape_decision_bridge (o : Order) (sh0 : AxisShape) (size : Nat) (s : Shape) :
    (Gen.Matrix.reshape ⟨o, sh0⟩ size s).map (fun r => r.1.map fun _ => r.2.shape) =
      reshapeDecision size s o := by
  unfold Gen.Matrix.reshape reshapeDecision
  simp only [Gen.Matrix.size, pure_bind, bind_pure]
  rcases Gen.Shape.try_to_axis_shape s o with f | e | sh
  · rfl
  · rfl
  · simp only [ok_bind]
    rcases Gen.AxisShape.size sh with f | n
    · rfl
    · by_cases h : size = n
      · have h' : n = size := h.symm
        first
          | (simp [h, Except.map, pure, Except.pure, bind, Except.bind]; done)
          | (simp [h', Except.map, pure, Except.pure, bind, Except.bind]; done)
      · have h' : ¬ n = size := fun e => h e.symm
        simp [h, h', Except.map, pure, Except.pure, bind, Except.bind]

/-! ### the constructors -/

-- split the shared prefix: conversion, size, capacity check, allocation — in this order; the names
-- `sh`, `size`, `hres` are visible to the caller
set_option hygiene false in
macro "prefix_cases" es:ident s:ident : tactic => `(tactic| (
  all_goals try (rcases Gen.Shape.try_to_axis_shape $s Order.rowMajor with f | e | sh <;> try rfl)
  all_goals try simp only [ok_bind, error_bind, pure_bind, bind_assoc, bindErr]
  all_goals try (rcases Gen.AxisShape.size sh with f | n <;> try rfl)
  all_goals try simp only [ok_bind, error_bind, pure_bind, bind_assoc, bindErr]
  all_goals try (rcases Gen.Matrix.check_size $es n with f | e | size <;> try rfl)
  all_goals try simp only [ok_bind, error_bind, pure_bind, bind_assoc, bindErr]
  all_goals try (rcases hres : Vec.reserveExact $es size with f | u <;> try rfl)
  all_goals try simp only [ok_bind, error_bind, pure_bind, bind_assoc, bindErr]))

/-- `Gen.Matrix.with_value` (regenerated from src/construct.rs) = the model's `Matrix.withValue` -/
theorem with_value_bridge (es : Nat) (s : Shape) (v : α) :
    Gen.Matrix.with_value es s v = Matrix.withValue es s v := by
  unfold Gen.Matrix.with_value Matrix.withValue sizeDecision
  simp only [bind_assoc, pure_bind, Nat.min_self, Nat.max_self]
  prefix_cases es s
  all_goals rfl

/-- `Gen.Matrix.with_default` (regenerated from src/construct.rs) = the model's `Matrix.withDefault`
(`dflt` is the value of an effect-free `T::default()`) -/
theorem with_default_bridge (es : Nat) (s : Shape) (dflt : α) :
    Gen.Matrix.with_default es s dflt = Matrix.withDefault es s dflt := by
  unfold Gen.Matrix.with_default Matrix.withDefault sizeDecision
  simp only [bind_assoc, pure_bind, Nat.min_self, Nat.max_self]
  prefix_cases es s
  simp only [hres, resizeData_empty, ok_bind, pure_bind, bind_pure, ite_self, Array.size_empty, List.size_toArray,
    List.length_nil]
  first | rfl | (split <;> rfl) | simp [pure, Except.pure, bind, Except.bind, hres]

/-- `Gen.Matrix.with_initializer` (regenerated from src/construct.rs) = the model's
`Matrix.withInitializer` (`f` is an effect-free closure) -/
theorem with_initializer_bridge (es : Nat) (s : Shape) (g : Index → α) :
    Gen.Matrix.with_initializer es s g = Matrix.withInitializer es s g := by
  unfold Gen.Matrix.with_initializer Matrix.withInitializer sizeDecision
  simp only [bind_assoc, pure_bind, Nat.min_self, Nat.max_self]
  prefix_cases es s
  rw [fold_push _ (fun k => do
        let i ← Gen.Index.from_flattened k .rowMajor sh
        pure (g i))
      (fun d k => by cases Gen.Index.from_flattened k .rowMajor sh <;> rfl)]
  cases List.mapM (fun k => do
        let i ← Gen.Index.from_flattened k .rowMajor sh
        pure (g i)) (List.range size) with
  | error e => rfl
  | ok xs => simp [bind, Except.bind, pure, Except.pure]

end Matreex.BridgeT8
