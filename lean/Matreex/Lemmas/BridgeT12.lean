/-
Bridge for the outer views, the checked single views and the element iterators of src/iter.rs: the functions
regenerated from the source on every run (`Gen/T12Gen.lean`, translator T12) yield exactly the items of the
hand-written model functions of `Model/Iter.lean` — same lists, same error decision, same faults; no hypotheses:

* `iter_rows_is_the_source`, `iter_cols_is_the_source`            = `Matrix.iterRows` / `Matrix.iterCols`
* `iter_nth_row_is_the_source`, `iter_nth_col_is_the_source`,
  `iter_nth_row_mut_is_the_source`, `iter_nth_col_mut_is_the_source`   = `Matrix.iterNthRow` / `Matrix.iterNthCol`
* `iter_elements_is_the_source` (the three plain element iterators)  = `.ok Matrix.iterElements`
* `iter_elements_with_index_is_the_source`, `iter_elements_mut_with_index_is_the_source`,
  `into_iter_elements_with_index_is_the_source`                   = `Matrix.iterWithIndex`

The C06 / C15 theorems are about the model functions; through these equations they are about the source text.

The proofs do not mention generated temporaries or Rust locals.  The straight-line part of a body is
evaluated by `t12_norm` (T2's `nrows` / `ncols` bridge lemmas, pure binds, `List.range' 0 (n - 0)`); an outer
walk is compared with the model item by item (`mapM_congr`); the order is decided by `cases` and each arm is
closed by the lemmas "T2's parameter triple + `view` = the model's view" (`major_chain'`, `minor_chain'`,
`major_checked`, `minor_checked`, built on `Lemmas/BridgeViews.lean`); the `enumerate().map(..)` walk is
`enumerate_walk`, whose side goal "the closure pairs `from_flattened k order shape` with the element" is closed by
`rfl` / `simp` however the closure spells it.
-/
import Matreex.Gen.T12Gen
import Matreex.Model.Iter
import Matreex.Lemmas.Bridge
import Matreex.Lemmas.BridgeViews

namespace Matreex.BridgeT12
open Matreex
set_option linter.unusedSimpArgs false
variable {α : Type}

theorem ok_bind {σ τ : Type} (a : σ) (f : σ → M τ) : (Except.ok a >>= f) = f a := rfl
theorem error_bind {σ τ : Type} (e : Fault) (f : σ → M τ) : ((Except.error e : M σ) >>= f) = .error e := rfl
theorem hdr_order (m : Matrix α) : m.hdr.order = m.order := rfl
theorem hdr_shape (m : Matrix α) : m.hdr.shape = m.shape := rfl
theorem hdr_nrows (m : Matrix α) : m.hdr.nrows = m.nrows := rfl
theorem hdr_ncols (m : Matrix α) : m.hdr.ncols = m.ncols := rfl

theorem mapM_congr {σ τ : Type} (l : List σ) (f g : σ → M τ) (h : ∀ a ∈ l, f a = g a) :
    l.mapM f = l.mapM g := by
  induction l with
  | nil => rfl
  | cons a l ih =>
    simp only [List.mapM_cons]
    rw [h a (by simp), ih (fun a' ha' => h a' (by simp [ha']))]

theorem major_chain (m : Matrix α) (n : Nat) :
    (Gen.Matrix.iter_nth_major_axis_vector_unchecked m.hdr n >>= Gen.chainView m.data.toList)
      = m.nthMajorUnchecked n := by
  rw [BridgeViews.nthMajorUnchecked_params]
  cases Gen.Matrix.iter_nth_major_axis_vector_unchecked m.hdr n with
  | error e => rfl
  | ok p => obtain ⟨a, b, c⟩ := p; rfl

theorem minor_chain (m : Matrix α) (n : Nat) :
    (Gen.Matrix.iter_nth_minor_axis_vector_unchecked m.hdr n >>= Gen.chainView m.data.toList)
      = m.nthMinorUnchecked n := by
  rw [BridgeViews.nthMinorUnchecked_params]
  cases Gen.Matrix.iter_nth_minor_axis_vector_unchecked m.hdr n with
  | error e => rfl
  | ok p => obtain ⟨a, b, c⟩ := p; rfl

theorem major_chain' (m : Matrix α) (n : Nat) :
    (do let p ← Gen.Matrix.iter_nth_major_axis_vector_unchecked m.hdr n; Gen.chainView m.data.toList p)
      = m.nthMajorUnchecked n := major_chain m n
theorem minor_chain' (m : Matrix α) (n : Nat) :
    (do let p ← Gen.Matrix.iter_nth_minor_axis_vector_unchecked m.hdr n; Gen.chainView m.data.toList p)
      = m.nthMinorUnchecked n := minor_chain m n

/-- the same two facts once the matrix has been taken apart (`rcases m with ⟨o, s, d⟩`) -/
theorem major_chain_mk (o : Order) (s : AxisShape) (d : Array α) (n : Nat) :
    (do let p ← Gen.Matrix.iter_nth_major_axis_vector_unchecked (Matrix.hdr ⟨o, s, d⟩) n; Gen.chainView d.toList p)
      = (⟨o, s, d⟩ : Matrix α).nthMajorUnchecked n := major_chain ⟨o, s, d⟩ n
theorem minor_chain_mk (o : Order) (s : AxisShape) (d : Array α) (n : Nat) :
    (do let p ← Gen.Matrix.iter_nth_minor_axis_vector_unchecked (Matrix.hdr ⟨o, s, d⟩) n; Gen.chainView d.toList p)
      = (⟨o, s, d⟩ : Matrix α).nthMinorUnchecked n := minor_chain ⟨o, s, d⟩ n

/-- evaluate the straight-line part of a generated body: T2's header functions, pure binds, the range -/
macro "t12_norm" : tactic => `(tactic|
  simp only [Bridge.nrows, Bridge.ncols, ok_bind, bind_pure, pure_bind, Nat.sub_zero, ← List.range_eq_range',
    hdr_nrows, hdr_ncols, hdr_order, hdr_shape])

/-- decide the order (however the source tests it: `match`, `==`, `!=`) and compare the two sides arm by arm -/
macro "t12_arms" m:ident : tactic => `(tactic|
  (rcases $m:ident with ⟨o, s, d⟩
   cases o <;>
    first
    | rfl
    | (simp only [major_chain', minor_chain', major_chain_mk, minor_chain_mk, reduceCtorEq, decide_true, decide_false, if_true, if_false,
        Bool.false_eq_true, Bool.not_true, Bool.not_false, ite_true, ite_false, ↓reduceIte, ok_bind, bind_pure, pure_bind,
        ne_eq, not_true_eq_false, not_false_eq_true, decide_not]; done)
    | simp [major_chain', minor_chain', major_chain_mk, minor_chain_mk]))

theorem iter_rows_is_the_source (m : Matrix α) : Gen.Matrix.iter_rows m = m.iterRows := by
  unfold Gen.Matrix.iter_rows Matrix.iterRows
  t12_norm
  refine mapM_congr _ _ _ (fun n _ => ?_)
  t12_arms m

theorem iter_cols_is_the_source (m : Matrix α) : Gen.Matrix.iter_cols m = m.iterCols := by
  unfold Gen.Matrix.iter_cols Matrix.iterCols
  t12_norm
  refine mapM_congr _ _ _ (fun n _ => ?_)
  t12_arms m

/-! ### the checked single views -/

theorem major_checked (m : Matrix α) (n : Nat) :
    (do let r ← Gen.Matrix.iter_nth_major_axis_vector m.hdr n; Gen.chainViewResult m.data.toList r)
      = m.nthMajor n := by
  rw [BridgeViews.nthMajor_params]
  cases Gen.Matrix.iter_nth_major_axis_vector m.hdr n with
  | error e => rfl
  | ok r =>
    cases r with
    | error e => rfl
    | ok p =>
      obtain ⟨a, b, c⟩ := p
      simp only [ok_bind, Gen.chainViewResult, Gen.chainView, BridgeViews.viaParams]
      cases view m.data.toList a b c <;> rfl

theorem minor_checked (m : Matrix α) (n : Nat) :
    (do let r ← Gen.Matrix.iter_nth_minor_axis_vector m.hdr n; Gen.chainViewResult m.data.toList r)
      = m.nthMinor n := by
  rw [BridgeViews.nthMinor_params]
  cases Gen.Matrix.iter_nth_minor_axis_vector m.hdr n with
  | error e => rfl
  | ok r =>
    cases r with
    | error e => rfl
    | ok p =>
      obtain ⟨a, b, c⟩ := p
      simp only [ok_bind, Gen.chainViewResult, Gen.chainView, BridgeViews.viaParams]
      cases view m.data.toList a b c <;> rfl

theorem major_checked_mk (o : Order) (s : AxisShape) (d : Array α) (n : Nat) :
    (do let r ← Gen.Matrix.iter_nth_major_axis_vector (Matrix.hdr ⟨o, s, d⟩) n; Gen.chainViewResult d.toList r)
      = (⟨o, s, d⟩ : Matrix α).nthMajor n := major_checked ⟨o, s, d⟩ n
theorem minor_checked_mk (o : Order) (s : AxisShape) (d : Array α) (n : Nat) :
    (do let r ← Gen.Matrix.iter_nth_minor_axis_vector (Matrix.hdr ⟨o, s, d⟩) n; Gen.chainViewResult d.toList r)
      = (⟨o, s, d⟩ : Matrix α).nthMinor n := minor_checked ⟨o, s, d⟩ n

macro "t12_checked" m:ident : tactic => `(tactic|
  (rcases $m:ident with ⟨o, s, d⟩
   cases o <;>
    first
    | (simp only [(BridgeViews.guarded_mut_agree _ _).1, (BridgeViews.guarded_mut_agree _ _).2, major_checked,
        minor_checked, major_checked_mk, minor_checked_mk, reduceCtorEq, decide_true, decide_false, if_true, if_false, Bool.false_eq_true, Bool.not_true,
        Bool.not_false, ite_true, ite_false, ↓reduceIte, ok_bind, bind_pure, pure_bind,
        ne_eq, not_true_eq_false, not_false_eq_true, decide_not]; done)
    | simp [(BridgeViews.guarded_mut_agree _ _).1, (BridgeViews.guarded_mut_agree _ _).2, major_checked,
        minor_checked, major_checked_mk, minor_checked_mk]))

theorem iter_nth_row_is_the_source (m : Matrix α) (n : Nat) : Gen.Matrix.iter_nth_row m n = m.iterNthRow n := by
  unfold Gen.Matrix.iter_nth_row Matrix.iterNthRow
  t12_norm
  t12_checked m

theorem iter_nth_col_is_the_source (m : Matrix α) (n : Nat) : Gen.Matrix.iter_nth_col m n = m.iterNthCol n := by
  unfold Gen.Matrix.iter_nth_col Matrix.iterNthCol
  t12_norm
  t12_checked m

theorem iter_nth_row_mut_is_the_source (m : Matrix α) (n : Nat) :
    Gen.Matrix.iter_nth_row_mut m n = m.iterNthRow n := by
  unfold Gen.Matrix.iter_nth_row_mut Matrix.iterNthRow
  t12_norm
  t12_checked m

theorem iter_nth_col_mut_is_the_source (m : Matrix α) (n : Nat) :
    Gen.Matrix.iter_nth_col_mut m n = m.iterNthCol n := by
  unfold Gen.Matrix.iter_nth_col_mut Matrix.iterNthCol
  t12_norm
  t12_checked m

/-! ### the element iterators -/

theorem iter_elements_is_the_source (m : Matrix α) :
    Gen.Matrix.iter_elements m = .ok m.iterElements ∧ Gen.Matrix.iter_elements_mut m = .ok m.iterElements ∧
      Gen.Matrix.into_iter_elements m = .ok m.iterElements := by
  refine ⟨?_, ?_, ?_⟩
  · unfold Gen.Matrix.iter_elements Matrix.iterElements
    first | rfl | (t12_norm; rfl) | simp
  · unfold Gen.Matrix.iter_elements_mut Matrix.iterElements
    first | rfl | (t12_norm; rfl) | simp
  · unfold Gen.Matrix.into_iter_elements Matrix.iterElements
    first | rfl | (t12_norm; rfl) | simp

theorem zip_mapM_aux (ff : Nat → M Index) : ∀ (xs pre : List α),
    ((List.range' pre.length xs.length).zip xs).mapM (fun p => do let i ← ff p.1; pure (i, p.2))
    = (List.range' pre.length xs.length).mapM (fun k => do
        let i ← ff k
        match (pre ++ xs)[k]? with
        | some x => pure (i, x)
        | none => (.error (.ub "enumerate yielded a position outside the vector") : M (Index × α))) := by
  intro xs
  induction xs with
  | nil => intro pre; rfl
  | cons x xs ih =>
    intro pre
    have h := ih (pre ++ [x])
    simp only [List.length_append, List.length_cons, List.length_nil, List.append_assoc, List.cons_append,
      List.nil_append] at h
    simp only [List.length_cons, List.range'_succ, List.zip_cons_cons, List.mapM_cons]
    rw [h]
    have : (pre ++ x :: xs)[pre.length]? = some x := by simp
    rw [this]

/-- `enumerate().map(|(k, e)| (f(k), e))` over the buffer is the model's walk over the positions -/
theorem enumerate_walk (m : Matrix α) (F : Nat × α → M (Index × α))
    (hF : ∀ k x, F (k, x) = (do let i ← Gen.Index.from_flattened k m.order m.shape; pure (i, x))) :
    (Gen.enumerateW m.data.toList).mapM F = m.iterWithIndex := by
  have h := zip_mapM_aux (fun k => Gen.Index.from_flattened k m.order m.shape) m.data.toList []
  simp only [List.length_nil, List.nil_append, Array.length_toList, ← List.range_eq_range',
    Array.getElem?_toList] at h
  unfold Matrix.iterWithIndex Gen.enumerateW
  rw [Array.length_toList]
  exact (mapM_congr _ _ _ (fun p _ => hF p.1 p.2)).trans h

/-- the closure of the source, item by item -/
macro "t12_item" : tactic => `(tactic|
  (intro k x
   first
   | rfl
   | (simp only [hdr_order, hdr_shape, ok_bind, bind_pure, pure_bind]; done)
   | (simp only [hdr_order, hdr_shape, ok_bind, bind_pure, pure_bind]; rfl)
   | simp [hdr_order, hdr_shape]))

theorem iter_elements_with_index_is_the_source (m : Matrix α) :
    Gen.Matrix.iter_elements_with_index m = m.iterWithIndex := by
  unfold Gen.Matrix.iter_elements_with_index
  t12_norm
  exact enumerate_walk m _ (by t12_item)

theorem iter_elements_mut_with_index_is_the_source (m : Matrix α) :
    Gen.Matrix.iter_elements_mut_with_index m = m.iterWithIndex := by
  unfold Gen.Matrix.iter_elements_mut_with_index
  t12_norm
  exact enumerate_walk m _ (by t12_item)

theorem into_iter_elements_with_index_is_the_source (m : Matrix α) :
    Gen.Matrix.into_iter_elements_with_index m = m.iterWithIndex := by
  unfold Gen.Matrix.into_iter_elements_with_index
  t12_norm
  exact enumerate_walk m _ (by t12_item)

end Matreex.BridgeT12
