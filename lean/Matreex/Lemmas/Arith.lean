/-
Arithmetic facts about the flat offset `i * m + j` shared by every property.
-/
namespace Matreex

theorem flat_lt {M m i j : Nat} (hi : i < M) (hj : j < m) : i * m + j < M * m := by
  calc i * m + j < i * m + m := by omega
    _ = (i + 1) * m := by rw [Nat.add_mul]; simp
    _ ≤ M * m := Nat.mul_le_mul_right _ hi

theorem row_le {M m i : Nat} (hi : i < M) : i * m + m ≤ M * m := by
  calc i * m + m = (i + 1) * m := by rw [Nat.add_mul]; simp
    _ ≤ M * m := Nat.mul_le_mul_right _ hi

theorem flat_div {m i j : Nat} (hj : j < m) : (i * m + j) / m = i := by
  rw [Nat.mul_comm, Nat.mul_add_div (by omega), Nat.div_eq_of_lt hj]; simp

theorem flat_mod {m i j : Nat} (hj : j < m) : (i * m + j) % m = j := by
  rw [Nat.mul_comm, Nat.mul_add_mod, Nat.mod_eq_of_lt hj]

theorem flat_inj {m i j i' j' : Nat} (hj : j < m) (hj' : j' < m)
    (h : i * m + j = i' * m + j') : i = i' ∧ j = j' := by
  have h1 := flat_div (i := i) hj
  have h2 := flat_div (i := i') hj'
  have h3 := flat_mod (i := i) hj
  have h4 := flat_mod (i := i') hj'
  rw [h] at h1 h3
  exact ⟨by omega, by omega⟩

theorem pos_of_lt_mul {M m x : Nat} (hx : x < M * m) : 0 < m := by
  rcases Nat.eq_zero_or_pos m with h | h
  · subst h; simp at hx
  · exact h

theorem unflat_lt {M m x : Nat} (hx : x < M * m) : x / m < M ∧ x % m < m := by
  have hm : 0 < m := pos_of_lt_mul hx
  exact ⟨Nat.div_lt_of_lt_mul (by rw [Nat.mul_comm]; exact hx), Nat.mod_lt _ hm⟩

theorem flat_unflat (m x : Nat) : (x / m) * m + x % m = x := by
  rw [Nat.mul_comm]; exact Nat.div_add_mod x m

end Matreex
