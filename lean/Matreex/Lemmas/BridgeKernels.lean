/-
Bridge for the unsafe kernels of src/swap.rs: the functions regenerated from the source on every
run (`Gen/Kernels.lean`, translator T3) compute exactly what the hand-written model functions of
`Model/Swap.lean` compute — same result, same buffer, same faults.  The C10 theorems are about the
model functions; through these equations they are about the source text of the kernels.
-/
import Matreex.Gen.Kernels
import Matreex.Model.Swap
import Matreex.Lemmas.Bridge

namespace Matreex.BridgeKernels
open Matreex
variable {α : Type}

/-- what a kernel returns: (result of the call, buffer) -/
def view (r : M (Except Error Unit × Matrix α)) : M (Except Error Unit × Array α) :=
  r.map fun p => (p.1, p.2.data)

theorem swap_major_kernel (es : Nat) (m : Matrix α) (a b : Nat) :
    Gen.Matrix.swap_major_axis_vectors es m.hdr m.data a b = view (m.swapMajor es a b) := by
  simp only [Gen.Matrix.swap_major_axis_vectors, Matrix.swapMajor, view, Gen.AxisShape.major_stride,
    Matrix.hdr, bind, Except.bind, pure, Except.pure, Except.map]
  by_cases h1 : a ≥ m.shape.major <;> by_cases h2 : b ≥ m.shape.major <;> simp [h1, h2] <;>
  by_cases h3 : a = b <;> simp [h3] <;>
  (cases umul a m.shape.minor <;> simp) <;>
  (cases umul b m.shape.minor <;> simp) <;>
  (split <;> simp_all)

/-- one iteration of the strided kernel -/
def minorStep (sh : AxisShape) (a b : Nat) (data : Array α) (i : Nat) : M (Array α) := do
  let offset ← umul i sh.minor
  let x ← uadd offset a
  let y ← uadd offset b
  ptrSwap data x y

/-- the loop of the strided kernel as a fold over the iteration numbers `s, s+1, …` -/
theorem swapMinorLoop_eq_foldlM (sh : AxisShape) (a b : Nat) (todo : Nat) :
    ∀ (s : Nat) (d : Array α), s + todo = sh.major →
      swapMinorLoop sh a b todo d = (List.range' s todo).foldlM (minorStep sh a b) d := by
  induction todo with
  | zero => intro s d _; simp [swapMinorLoop, pure, Except.pure]
  | succ todo ih =>
    intro s d h
    have hs : sh.major - (todo + 1) = s := by omega
    simp only [swapMinorLoop, List.range'_succ, List.foldlM_cons, minorStep, hs]
    simp only [bind, Except.bind]
    cases umul s sh.minor with
    | error e => rfl
    | ok offset =>
      simp only []
      cases uadd offset a with
      | error e => rfl
      | ok x =>
        simp only []
        cases uadd offset b with
        | error e => rfl
        | ok y =>
          simp only []
          cases ptrSwap d x y with
          | error e => rfl
          | ok d' =>
            simp only []
            have := ih (s + 1) d' (by omega)
            simpa [minorStep, bind, Except.bind] using this

theorem bind_ok {β γ : Type} (a : β) (f : β → M γ) : Except.bind (Except.ok a) f = f a := rfl
theorem bind_error {β γ : Type} (e : Fault) (f : β → M γ) : Except.bind (Except.error e) f = Except.error e := rfl
theorem bind_ok_id {β : Type} (x : M β) : Except.bind x Except.ok = x := by cases x <;> rfl

/-- two folds with pointwise equal bodies, followed by continuations that agree up to `φ` -/
theorem fold_finish {β γ : Type} (F G : Array α → Nat → M (Array α)) (h : ∀ d i, F d i = G d i)
    (d : Array α) (l : List Nat) (k1 : Array α → M β) (k2 : Array α → M γ) (φ : γ → β)
    (hk : ∀ v, k1 v = Except.map φ (k2 v)) :
    Except.bind (List.foldlM F d l) k1 = Except.map φ (Except.bind (List.foldlM G d l) k2) := by
  have : F = G := funext fun d => funext (h d)
  subst this
  cases List.foldlM F d l with
  | error e => rfl
  | ok v => simp only [bind_ok, hk]

theorem swap_minor_kernel (es : Nat) (m : Matrix α) (a b : Nat) :
    Gen.Matrix.swap_minor_axis_vectors es m.hdr m.data a b = view (m.swapMinor a b) := by
  simp only [Gen.Matrix.swap_minor_axis_vectors, Matrix.swapMinor, view, Gen.AxisShape.minor_stride,
    Matrix.hdr, bind, pure, Except.pure]
  by_cases h1 : a ≥ m.shape.minor
  · simp [h1, Except.map]
  by_cases h2 : b ≥ m.shape.minor
  · simp [h2, Except.map]
  simp only [h1, h2, decide_false, Bool.or_self, Bool.false_eq_true, if_false, or_self, bind_ok]
  cases hx : umul a 1 with
  | error e => simp [bind_error, Except.map]
  | ok x =>
    cases hy : umul b 1 with
    | error e => simp [bind_error, bind_ok, Except.map]
    | ok y =>
      simp only [bind_ok]
      rw [swapMinorLoop_eq_foldlM m.shape _ _ m.shape.major 0 m.data (by omega), List.range_eq_range']
      refine fold_finish _ _ (fun d i => ?_) _ _ _ _ _ (fun v => rfl)
      simp only [minorStep, Gen.AxisShape.major_stride, bind, pure, Except.pure, bind_ok, bind_ok_id]

end Matreex.BridgeKernels
