/-
Helper lemmas for C12 (elementwise operations): evaluation of the data path `ewData` in both the
same-order (`zip`) and the cross-order (`from_flattened(..).swap().to_flattened(..)` +
`get_unchecked`) branches.
-/
import Matreex.Model.Elementwise
import Matreex.Lemmas.Bridge
import Matreex.Lemmas.Matrix
import Matreex.Lemmas.Except

namespace Matreex
variable {α β γ : Type}

/-- `mapM` succeeds when every step does; the results are described by an `Option`-valued
function (so that no default element of the result type is needed). -/
theorem mapM_ok_some_aux {ε σ τ : Type} (g : σ → Except ε τ) (f : σ → Option τ) (l : List σ)
    (H : ∀ a ∈ l, ∃ y, g a = .ok y ∧ f a = some y) :
    ∃ l', l.mapM g = .ok l' ∧ l'.map some = l.map f := by
  induction l with
  | nil => exact ⟨[], rfl, rfl⟩
  | cons a l ih =>
    obtain ⟨y, hy, hf⟩ := H a (by simp)
    obtain ⟨l', h1, h2⟩ := ih (fun a' ha' => H a' (by simp [ha']))
    refine ⟨y :: l', ?_, ?_⟩
    · simp [List.mapM_cons, hy, h1, bind, Except.bind, pure, Except.pure]
    · simp [hf, h2]

/-- the same over `List.range n`, read back position by position -/
theorem mapM_range_ok_aux {ε τ : Type} (n : Nat) (g : Nat → Except ε τ) (f : Nat → Option τ)
    (H : ∀ k, k < n → ∃ y, g k = .ok y ∧ f k = some y) :
    ∃ l, (List.range n).mapM g = .ok l ∧ l.length = n ∧ ∀ k, k < n → l[k]? = f k := by
  obtain ⟨l, h1, h2⟩ := mapM_ok_some_aux g f (List.range n)
    (fun a ha => H a (List.mem_range.mp ha))
  refine ⟨l, h1, ?_, ?_⟩
  · have := congrArg List.length h2
    simpa using this
  · intro k hk
    have := congrArg (fun x => x[k]?) h2
    simp only [List.getElem?_map, List.getElem?_range hk, Option.map_some] at this
    cases hl : l[k]? with
    | none => rw [hl] at this; simp at this
    | some y => rw [hl] at this; simp at this; rw [← this]

/-- every offset of a coherent matrix is the offset of an in-bounds coordinate -/
theorem Matrix.idx_surj_aux (m : Matrix α) (h : m.Coh) (k : Nat) (hk : k < m.data.size) :
    ∃ r c, r < m.nrows ∧ c < m.ncols ∧ m.idx r c = k := by
  rw [← h.size_eq] at hk
  obtain ⟨h1, h2⟩ := unflat_lt hk
  have hfu := flat_unflat m.shape.minor k
  obtain ⟨o, sh, d⟩ := m
  cases o
  · refine ⟨k / sh.minor, k % sh.minor, ?_⟩
    simp only [Matrix.nrows, Matrix.ncols, Matrix.idx, Index.flat, AxisIndex.flat, AxisIndex.ofIndex,
      AxisShape.nrows, AxisShape.ncols] at *
    exact ⟨h1, h2, hfu⟩
  · refine ⟨k % sh.minor, k / sh.minor, ?_⟩
    simp only [Matrix.nrows, Matrix.ncols, Matrix.idx, Index.flat, AxisIndex.flat, AxisIndex.ofIndex,
      AxisShape.nrows, AxisShape.ncols] at *
    exact ⟨h2, h1, hfu⟩

/-- `remap_spec` for operands of different element types (offsets only depend on the header) -/
theorem remap_spec_hetero_aux (a : Matrix α) (b : Matrix β) (ha : a.Coh) (hb : b.Coh)
    (ho : a.order ≠ b.order)
    (hM : a.shape.major = b.shape.minor) (hm : a.shape.minor = b.shape.major)
    (k : Nat) (hk : k < a.data.size) :
    ∃ r c, r < a.nrows ∧ c < a.ncols ∧ r < b.nrows ∧ c < b.ncols ∧
      a.idx r c = k ∧ b.idx r c = remap a.shape b.shape k ∧
      remap a.shape b.shape k < b.data.size := by
  have ha' : (Matrix.mk a.order a.shape (a.data.map fun _ => ())).Coh :=
    ⟨by simpa using ha.size_eq⟩
  have hb' : (Matrix.mk b.order b.shape (b.data.map fun _ => ())).Coh :=
    ⟨by simpa using hb.size_eq⟩
  obtain ⟨r, c, h1, h2, h3, h4, h5, h6, h7⟩ :=
    remap_spec (α := Unit) ⟨a.order, a.shape, a.data.map fun _ => ()⟩
      ⟨b.order, b.shape, b.data.map fun _ => ()⟩ ha' hb' ho hM hm k (by simpa using hk)
  exact ⟨r, c, h1, h2, h3, h4, h5, h6, by simpa using h7⟩

/-- equal logical shapes, in terms of the axis shapes: same order -/
theorem shape_eq_of_same_order_aux (a : Matrix α) (b : Matrix β) (ho : a.order = b.order)
    (hr : a.nrows = b.nrows) (hc : a.ncols = b.ncols) : a.shape = b.shape := by
  obtain ⟨oa, ⟨Ma, ma⟩, da⟩ := a
  obtain ⟨ob, ⟨Mb, mb⟩, db⟩ := b
  cases oa <;> cases ob <;>
    simp_all [Matrix.nrows, Matrix.ncols, AxisShape.nrows, AxisShape.ncols]

/-- equal logical shapes, in terms of the axis shapes: different orders -/
theorem shape_swap_of_diff_order_aux (a : Matrix α) (b : Matrix β) (ho : a.order ≠ b.order)
    (hr : a.nrows = b.nrows) (hc : a.ncols = b.ncols) :
    a.shape.major = b.shape.minor ∧ a.shape.minor = b.shape.major := by
  obtain ⟨oa, ⟨Ma, ma⟩, da⟩ := a
  obtain ⟨ob, ⟨Mb, mb⟩, db⟩ := b
  cases oa <;> cases ob <;>
    simp_all [Matrix.nrows, Matrix.ncols, AxisShape.nrows, AxisShape.ncols]

/-- one iteration of the cross-order walk: no division by zero, no overflow, both
`get_unchecked` reads in bounds -/
theorem ew_step_aux (a : Matrix α) (b : Matrix β) (op : α → β → γ) (k : Nat)
    (hk : k < a.data.size) (hmin : a.shape.minor ≠ 0)
    (hj : remap a.shape b.shape k < b.data.size) (hfitb : b.data.size ≤ usizeMax) :
    (do
      let i ← Gen.AxisIndex.from_flattened k a.shape
      let j ← Gen.AxisIndex.to_flattened i.swap b.shape
      let right ← getUnchecked b.data j
      let left ← getUnchecked a.data k
      pure (op left right) : M γ) = .ok (op a.data[k] b.data[remap a.shape b.shape k]) := by
  have h1 := Bridge.from_flattened k a.shape hmin
  have hle : (AxisIndex.ofFlat k a.shape).swap.major * b.shape.minor +
      (AxisIndex.ofFlat k a.shape).swap.minor ≤ usizeMax := by
    have : remap a.shape b.shape k ≤ usizeMax := by omega
    exact this
  have h2 := Bridge.to_flattened (AxisIndex.ofFlat k a.shape).swap b.shape hle
  have h3 : (AxisIndex.ofFlat k a.shape).swap.flat b.shape = remap a.shape b.shape k := rfl
  simp only [bind, Except.bind, pure, Except.pure, h1, h2, h3, getUnchecked, hk, hj, ↓reduceDIte]

/-- the data path, position by position: for conformable coherent operands no fault occurs, the
result has one element per position of `a`, and the element at the offset of logical `(r, c)` in
`a`'s layout combines the elements of `a` and `b` at `(r, c)`. -/
theorem ewData_pos_aux (a : Matrix α) (b : Matrix β) (op : α → β → γ) (ha : a.Coh) (hb : b.Coh)
    (hfitb : b.data.size ≤ usizeMax)
    (hr : a.nrows = b.nrows) (hc : a.ncols = b.ncols) :
    ∃ d, ewData a b op = .ok d ∧ d.size = a.data.size ∧
      ∀ r c, r < a.nrows → c < a.ncols → ∀ x y, a.data[a.idx r c]? = some x →
        b.data[b.idx r c]? = some y → d[a.idx r c]? = some (op x y) := by
  by_cases ho : a.order = b.order
  · have hs := shape_eq_of_same_order_aux a b ho hr hc
    have hsz : a.data.size = b.data.size := by rw [← ha.size_eq, ← hb.size_eq, hs]
    refine ⟨Array.zipWith op a.data b.data, by simp [ewData, ho], ?_, ?_⟩
    · rw [Array.size_zipWith]; omega
    · intro r c _ _ x y hx hy
      have hidx : b.idx r c = a.idx r c := by
        simp only [Matrix.idx, ho, hs]
      rw [hidx] at hy
      rw [Array.getElem?_zipWith, hx, hy]
  · obtain ⟨hM, hm⟩ := shape_swap_of_diff_order_aux a b ho hr hc
    have hstep : ∀ k, k < a.data.size → ∃ y,
        (do
          let i ← Gen.AxisIndex.from_flattened k a.shape
          let j ← Gen.AxisIndex.to_flattened i.swap b.shape
          let right ← getUnchecked b.data j
          let left ← getUnchecked a.data k
          pure (op left right) : M γ) = .ok y ∧
        (match a.data[k]?, b.data[remap a.shape b.shape k]? with
          | some x, some y => some (op x y)
          | _, _ => none) = some y := by
      intro k hk
      obtain ⟨r, c, _, _, _, _, _, _, hj⟩ := remap_spec_hetero_aux a b ha hb ho hM hm k hk
      have hmin : a.shape.minor ≠ 0 := by
        have hk' := hk
        rw [← ha.size_eq] at hk'
        have := pos_of_lt_mul hk'
        omega
      refine ⟨_, ew_step_aux a b op k hk hmin hj hfitb, ?_⟩
      rw [Array.getElem?_eq_getElem hk, Array.getElem?_eq_getElem hj]
    obtain ⟨l, h1, h2, h3⟩ := mapM_range_ok_aux a.data.size _ _ hstep
    refine ⟨l.toArray, ?_, by simpa using h2, ?_⟩
    · simp only [ewData, ho, ↓reduceIte, bind, Except.bind, pure, Except.pure] at h1 ⊢
      rw [h1]
    · intro r c hr' hc' x y hx hy
      have hlt := a.idx_lt ha hr' hc'
      obtain ⟨r', c', hr1, hc1, _, _, hi, hbi, _⟩ :=
        remap_spec_hetero_aux a b ha hb ho hM hm (a.idx r c) hlt
      obtain ⟨e1, e2⟩ := a.idx_inj hr1 hc1 hr' hc' hi
      subst e1; subst e2
      rw [List.getElem?_toArray, h3 _ hlt, ← hbi, hx, hy]

end Matreex
