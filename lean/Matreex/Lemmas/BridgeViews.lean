/-
Bridge for the row / column view functions of src/iter.rs: the (skip, step, take) parameters of the
`iter().skip(..).step_by(..).take(..)` chains and the bounds guards of the checked wrappers are
regenerated from the source on every run (`Gen.Matrix.iter_nth_*`); the model's view functions
(`Model/Iter.lean`) are exactly `view data skip step take` with those parameters.
-/
import Matreex.Gen.Core
import Matreex.Model.Iter
import Matreex.Lemmas.Bridge

namespace Matreex.BridgeViews
open Matreex Matreex.Bridge
variable {α : Type}

/-- run a view with the parameters the regenerated function returns -/
def viaParams (l : List α) (p : M (Nat × Nat × Nat)) : M (List α) :=
  match p with
  | .error e => .error e
  | .ok (skip, step, take) => view l skip step take

/-- the major-axis view of the model is the source's chain: skip = n · major_stride, step =
minor_stride, take = minor -/
theorem nthMajorUnchecked_params (m : Matrix α) (n : Nat) :
    m.nthMajorUnchecked n = viaParams m.data.toList (Gen.Matrix.iter_nth_major_axis_vector_unchecked m.hdr n) := by
  simp only [Matrix.nthMajorUnchecked, viaParams, Gen.Matrix.iter_nth_major_axis_vector_unchecked,
    Gen.AxisShape.major_stride, Gen.AxisShape.minor_stride, Matrix.hdr, Hdr.minor, umul, bind, Except.bind,
    pure, Except.pure]
  split <;> simp_all

theorem nthMinorUnchecked_params (m : Matrix α) (n : Nat) :
    m.nthMinorUnchecked n = viaParams m.data.toList (Gen.Matrix.iter_nth_minor_axis_vector_unchecked m.hdr n) := by
  simp only [Matrix.nthMinorUnchecked, viaParams, Gen.Matrix.iter_nth_minor_axis_vector_unchecked,
    Gen.AxisShape.major_stride, Gen.AxisShape.minor_stride, Matrix.hdr, Hdr.major, umul, bind, Except.bind,
    pure, Except.pure]
  split <;> simp_all

/-- the `_mut` functions use the same parameters as the shared ones -/
theorem mut_params_agree (h : Hdr) (n : Nat) :
    Gen.Matrix.iter_nth_major_axis_vector_unchecked_mut h n = Gen.Matrix.iter_nth_major_axis_vector_unchecked h n ∧
    Gen.Matrix.iter_nth_minor_axis_vector_unchecked_mut h n = Gen.Matrix.iter_nth_minor_axis_vector_unchecked h n := by
  constructor <;>
  simp only [Gen.Matrix.iter_nth_major_axis_vector_unchecked_mut, Gen.Matrix.iter_nth_major_axis_vector_unchecked,
    Gen.Matrix.iter_nth_minor_axis_vector_unchecked_mut, Gen.Matrix.iter_nth_minor_axis_vector_unchecked,
    Gen.AxisShape.major_stride, Gen.AxisShape.minor_stride, umul, bind, Except.bind, pure, Except.pure] <;>
  (first | rfl | (split <;> simp_all))

/-- the checked wrappers: `IndexOutOfBounds` exactly when `n` is not smaller than the extent of the
axis, otherwise the unchecked parameters -/
theorem guarded_major (h : Hdr) (n : Nat) :
    Gen.Matrix.iter_nth_major_axis_vector h n =
      if n ≥ h.shape.major then .ok (.error .indexOutOfBounds)
      else (Gen.Matrix.iter_nth_major_axis_vector_unchecked h n).map .ok := by
  simp only [Gen.Matrix.iter_nth_major_axis_vector, Hdr.major, bind, Except.bind, pure, Except.pure]
  by_cases hn : n ≥ h.shape.major <;> simp [hn] <;>
    (cases Gen.Matrix.iter_nth_major_axis_vector_unchecked h n <;> rfl)

theorem guarded_minor (h : Hdr) (n : Nat) :
    Gen.Matrix.iter_nth_minor_axis_vector h n =
      if n ≥ h.shape.minor then .ok (.error .indexOutOfBounds)
      else (Gen.Matrix.iter_nth_minor_axis_vector_unchecked h n).map .ok := by
  simp only [Gen.Matrix.iter_nth_minor_axis_vector, Hdr.minor, bind, Except.bind, pure, Except.pure]
  by_cases hn : n ≥ h.shape.minor <;> simp [hn] <;>
    (cases Gen.Matrix.iter_nth_minor_axis_vector_unchecked h n <;> rfl)

theorem guarded_mut_agree (h : Hdr) (n : Nat) :
    Gen.Matrix.iter_nth_major_axis_vector_mut h n = Gen.Matrix.iter_nth_major_axis_vector h n ∧
    Gen.Matrix.iter_nth_minor_axis_vector_mut h n = Gen.Matrix.iter_nth_minor_axis_vector h n := by
  simp only [Gen.Matrix.iter_nth_major_axis_vector_mut, Gen.Matrix.iter_nth_major_axis_vector,
    Gen.Matrix.iter_nth_minor_axis_vector_mut, Gen.Matrix.iter_nth_minor_axis_vector, (mut_params_agree h n).1,
    (mut_params_agree h n).2, and_self]

/-- the checked model views are the source's wrappers -/
theorem nthMajor_params (m : Matrix α) (n : Nat) :
    m.nthMajor n = (match Gen.Matrix.iter_nth_major_axis_vector m.hdr n with
      | .error e => .error e
      | .ok (.error e) => .ok (.error e)
      | .ok (.ok p) => (viaParams m.data.toList (.ok p)).map .ok) := by
  rw [guarded_major]
  simp only [Matrix.nthMajor, Matrix.hdr]
  by_cases hn : n ≥ m.shape.major
  · simp [hn]
  · simp only [hn, ↓reduceIte]
    rw [nthMajorUnchecked_params]
    simp only [Matrix.hdr]
    cases Gen.Matrix.iter_nth_major_axis_vector_unchecked ⟨m.order, m.shape⟩ n with
    | error e => rfl
    | ok p => simp [viaParams, Except.map, bind, Except.bind, pure, Except.pure]

theorem nthMinor_params (m : Matrix α) (n : Nat) :
    m.nthMinor n = (match Gen.Matrix.iter_nth_minor_axis_vector m.hdr n with
      | .error e => .error e
      | .ok (.error e) => .ok (.error e)
      | .ok (.ok p) => (viaParams m.data.toList (.ok p)).map .ok) := by
  rw [guarded_minor]
  simp only [Matrix.nthMinor, Matrix.hdr]
  by_cases hn : n ≥ m.shape.minor
  · simp [hn]
  · simp only [hn, ↓reduceIte]
    rw [nthMinorUnchecked_params]
    simp only [Matrix.hdr]
    cases Gen.Matrix.iter_nth_minor_axis_vector_unchecked ⟨m.order, m.shape⟩ n with
    | error e => rfl
    | ok p => simp [viaParams, Except.map, bind, Except.bind, pure, Except.pure]

end Matreex.BridgeViews
