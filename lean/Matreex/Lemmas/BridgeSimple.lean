/-
Bridge for the simple forms (constructors, `From` conversions, field getters, in-place swaps and
`Order::switch`) regenerated from /repo/src into `Gen/Simple.lean` on every run: each is the
function the hand-written model uses (structure literals `⟨r, c⟩`, `AxisShape.transpose`,
`AxisIndex.swap`, `Order.switch`).  A swapped destructuring, a swap that copies one field twice or
a `switch` that maps an order to itself breaks the corresponding lemma.
-/
import Matreex.Gen.Simple
import Matreex.Model.Core

namespace Matreex.BridgeSimple
open Matreex

theorem shape_new (r c : Nat) : Gen.Shape.new r c = ⟨r, c⟩ := rfl
theorem shape_nrows (s : Shape) : Gen.Shape.nrows s = s.nrows := rfl
theorem shape_ncols (s : Shape) : Gen.Shape.ncols s = s.ncols := rfl
theorem shape_transpose (s : Shape) : Gen.Shape.transpose s = ⟨s.ncols, s.nrows⟩ := rfl
/-- every spelling of a shape argument (`(r, c)`, `[r, c]`, `Shape::new(r, c)`) is the shape r × c -/
theorem shape_from_tuple (r c : Nat) : Gen.Shape.from_tuple (r, c) = ⟨r, c⟩ := rfl
theorem shape_from_array (r c : Nat) : Gen.Shape.from_array (r, c) = ⟨r, c⟩ := rfl
theorem axisShape_major (s : AxisShape) : Gen.AxisShape.major_get s = s.major := rfl
theorem axisShape_minor (s : AxisShape) : Gen.AxisShape.minor_get s = s.minor := rfl
theorem axisShape_transpose (s : AxisShape) : Gen.AxisShape.transpose s = s.transpose := rfl
theorem order_switch (o : Order) : Gen.Order.switch o = o.switch := by cases o <;> rfl
theorem index_new (r c : Nat) : Gen.Index.new r c = ⟨r, c⟩ := rfl
theorem index_swap (i : Index) : Gen.Index.swap i = ⟨i.col, i.row⟩ := rfl
theorem index_from_tuple (r c : Nat) : Gen.Index.from_tuple (r, c) = ⟨r, c⟩ := rfl
theorem index_from_array (r c : Nat) : Gen.Index.from_array (r, c) = ⟨r, c⟩ := rfl
theorem wrappingIndex_new (r c : Int) : Gen.WrappingIndex.new r c = ⟨r, c⟩ := rfl
theorem wrappingIndex_swap (i : WrappingIndex) : Gen.WrappingIndex.swap i = ⟨i.col, i.row⟩ := rfl
theorem axisIndex_swap (i : AxisIndex) : Gen.AxisIndex.swap i = i.swap := rfl

theorem matrix_order (h : Hdr) : Gen.Matrix.order h = h.order := rfl
theorem matrix_major (h : Hdr) : Gen.Matrix.major h = h.major := rfl
theorem matrix_minor (h : Hdr) : Gen.Matrix.minor h = h.minor := rfl
/-- the private stride helpers of `Matrix` delegate to the axis shape: (minor, 1) -/
theorem matrix_major_stride (h : Hdr) : Gen.Matrix.major_stride h = h.shape.minor := rfl
theorem matrix_minor_stride (h : Hdr) : Gen.Matrix.minor_stride h = 1 := rfl

/-- the order switch is an involution without fixed points; the swaps are involutions -/
theorem order_switch_involutive (o : Order) : Gen.Order.switch (Gen.Order.switch o) = o ∧ Gen.Order.switch o ≠ o := by
  cases o <;> exact ⟨rfl, by decide⟩
theorem axisShape_transpose_involutive (s : AxisShape) : Gen.AxisShape.transpose (Gen.AxisShape.transpose s) = s := rfl
theorem axisIndex_swap_involutive (i : AxisIndex) : Gen.AxisIndex.swap (Gen.AxisIndex.swap i) = i := rfl

end Matreex.BridgeSimple
