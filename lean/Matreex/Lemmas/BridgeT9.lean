/-
Bridge for the generic elementwise operations of src/arithmetic.rs: the functions regenerated from the
source on every run (`Gen/T9Gen.lean`, translator T9) compute exactly what the hand-written model
functions of `Model/Elementwise.lean` compute — same result, same error decision, same faults:

* `ensure_elementwise`                          the guard = "the predicate, else ShapeNotConformable"
* `elementwise_operation_bridge`                no hypothesis
* `elementwise_operation_consume_self_bridge`   no hypothesis
* `elementwise_operation_assign_bridge`         `a.Coh`, `b.Coh` (the source's `zip` stops at the shorter
                                                buffer and leaves the rest of `self.data` alone, the model
                                                truncates; for coherent conformable operands both are the
                                                whole buffer)

The C12 theorems are about the model functions; through these equations they are about the source text
(`Props/C12Source.lean`).

The proofs do not mention generated temporaries or Rust locals.  Guards and checks are rewritten with the
bridge lemmas of `Lemmas/Bridge.lean`; the branch condition is evaluated by `order_cond` however the
source spells it; a generated walk `(List.range n).mapM f` is compared with the model position by
position (`same_walk`, `cross_walk`): the side goal `∀ k < n, f k = …` is closed by `walk_step`, which
performs the in-bounds reads and lets `simp` / `rfl` see through renamed, inlined or introduced `let`s.
-/
import Matreex.Gen.T9Gen
import Matreex.Model.Elementwise
import Matreex.Lemmas.Bridge
import Matreex.Lemmas.BridgeSimple
import Matreex.Lemmas.Elementwise

namespace Matreex.BridgeT9
open Matreex
set_option linter.unusedSimpArgs false
set_option linter.unusedVariables false
variable {α β γ : Type}

/-! ### small facts about the fault monad and the primitives -/

theorem ok_bind {σ τ : Type} (a : σ) (f : σ → M τ) : (Except.ok a >>= f) = f a := rfl
theorem pure_bind' {σ τ : Type} (a : σ) (f : σ → M τ) : ((pure a : M σ) >>= f) = f a := rfl
theorem error_bind {σ τ : Type} (e : Fault) (f : σ → M τ) : ((Except.error e : M σ) >>= f) = .error e := rfl

theorem getUnchecked_ok {d : Array α} {i : Nat} (h : i < d.size) : getUnchecked d i = .ok d[i] := by
  simp [getUnchecked, h]

theorem reserve_ok {es n : Nat} (h : es * n ≤ isizeMax) : Vec.reserveExact es n = .ok () := by
  have : ¬ es * n > isizeMax := by omega
  simp [Vec.reserveExact, this]

theorem mapM_congr' {σ τ : Type} (l : List σ) (f g : σ → M τ) (h : ∀ a ∈ l, f a = g a) :
    l.mapM f = l.mapM g := by
  induction l with
  | nil => rfl
  | cons a l ih =>
    simp only [List.mapM_cons]
    rw [h a (by simp), ih (fun a' ha' => h a' (by simp [ha']))]

/-- the lockstep walk over two buffers (`zip`), position by position, is `Array.zipWith` -/
theorem zip_walk (a : Array α) (b : Array β) (op : α → β → γ) :
    (List.range (min a.size b.size)).mapM (fun k =>
        (if h : k < a.size ∧ k < b.size then .ok (op a[k] b[k]) else .error .fuel : M γ)) =
      .ok (Array.zipWith op a b).toList := by
  obtain ⟨l, h1, h2, h3⟩ := mapM_range_ok_aux (min a.size b.size)
    (fun k => (if h : k < a.size ∧ k < b.size then .ok (op a[k] b[k]) else .error .fuel : M γ))
    (fun k => (Array.zipWith op a b)[k]?) (by
      intro k hk
      have hka : k < a.size := by omega
      have hkb : k < b.size := by omega
      refine ⟨op a[k] b[k], by simp [hka, hkb], ?_⟩
      rw [Array.getElem?_zipWith, Array.getElem?_eq_getElem hka, Array.getElem?_eq_getElem hkb])
  rw [h1]
  congr 1
  apply List.ext_getElem?
  intro k
  by_cases hk : k < min a.size b.size
  · rw [h3 k hk, Array.getElem?_toList]
  · have e1 : l[k]? = none := by
      apply List.getElem?_eq_none; omega
    have e2 : (Array.zipWith op a b).toList[k]? = none := by
      apply List.getElem?_eq_none
      simp only [Array.length_toList, Array.size_zipWith]; omega
    rw [e1, e2]


/-! ### the guards -/

theorem ensure_elementwise (a b : Hdr) :
    Gen.Matrix.ensure_elementwise_operation_conformable a b =
      .ok (if a.ewConformable b then .ok a else .error .shapeNotConformable) := by
  simp only [Gen.Matrix.ensure_elementwise_operation_conformable, Bridge.ew_conformable, ok_bind, pure_bind']
  cases a.ewConformable b <;> simp [pure, Except.pure]

/-! ### the data walks -/

/-- same-order walk of the generated code = `Array.zipWith` -/
theorem same_walk (a : Array α) (b : Array β) (op : α → β → γ) (f : Nat → M γ)
    (hf : ∀ k (ha : k < a.size) (hb : k < b.size), f k = .ok (op a[k] b[k])) :
    (List.range (min a.size b.size)).mapM f = .ok (Array.zipWith op a b).toList := by
  rw [← zip_walk]
  refine mapM_congr' _ _ _ (fun k hk => ?_)
  have hk := List.mem_range.mp hk
  have hka : k < a.size := by omega
  have hkb : k < b.size := by omega
  rw [hf k hka hkb]
  simp [hka, hkb]

/-- one position of the model's cross-order walk -/
def crossStep (a : Matrix α) (b : Matrix β) (op : α → β → γ) (k : Nat) : M γ := do
  let i ← Gen.AxisIndex.from_flattened k a.shape
  let j ← Gen.AxisIndex.to_flattened i.swap b.shape
  let right ← getUnchecked b.data j
  let left ← getUnchecked a.data k
  pure (op left right)

/-- the model's cross-order walk -/
def modelCross (a : Matrix α) (b : Matrix β) (op : α → β → γ) : M (Array γ) := do
  let l ← (List.range a.data.size).mapM (crossStep a b op)
  pure l.toArray

theorem ewData_eq (a : Matrix α) (b : Matrix β) (op : α → β → γ) :
    ewData a b op =
      if a.order = b.order then .ok (Array.zipWith op a.data b.data) else modelCross a b op := rfl

/-- inside the walk the left operand is in bounds: the position's value with the left read done -/
theorem crossStep_eval (a : Matrix α) (b : Matrix β) (op : α → β → γ) (k : Nat) (hk : k < a.data.size) :
    crossStep a b op k = (do
      let i ← Gen.AxisIndex.from_flattened k a.shape
      let j ← Gen.AxisIndex.to_flattened i.swap b.shape
      let right ← getUnchecked b.data j
      pure (op a.data[k] right)) := by
  simp only [crossStep, getUnchecked_ok hk, ok_bind]

theorem cross_walk (a : Matrix α) (b : Matrix β) (op : α → β → γ) (f : Nat → M γ)
    (hf : ∀ k (hk : k < a.data.size), f k = crossStep a b op k) :
    (List.range a.data.size).mapM f = (List.range a.data.size).mapM (crossStep a b op) :=
  mapM_congr' _ _ _ (fun k hk => hf k (List.mem_range.mp hk))

/-- evaluate the branch condition once the orders are known to be equal / different, however the
source spells it (`==` / `!=`, either operand first, `!`) -/
macro "order_cond" e1:ident e2:ident : tactic => `(tactic|
  simp only [$e1:ident, $e2:ident, ne_eq, not_true_eq_false, not_false_eq_true, decide_true, decide_false,
    Bool.not_true, Bool.not_false, Bool.false_eq_true, if_true, if_false])

/-- one position of a generated walk: do the in-bounds reads, then compare with the model's position -/
macro "walk_step" : tactic => `(tactic| (
  intros
  simp only [crossStep_eval, getUnchecked_ok, ok_bind, pure_bind', BridgeSimple.axisIndex_swap, *]
  try rfl))

/-- the proof of the two by-value bridges (`$f` = the generated function): guard, capacity check, the
allocation `collect` makes, then the walk of the branch the orders select -/
macro "ew_new_bridge" f:ident a:ident b:ident op:ident esOut:ident : tactic => `(tactic| (
  unfold $f:ident Matrix.elementwiseOperation
  simp only [ensure_elementwise, Bridge.ew_conformable, Bridge.check_size, ok_bind, pure_bind']
  cases hconf : Hdr.ewConformable (Matrix.hdr $a) (Matrix.hdr $b)
  · simp [bindErr, pure, Except.pure]
  · simp only [if_true, bindErr, Bool.not_true, Bool.false_eq_true, if_false]
    cases hc : checkSize $esOut (Array.size (Matrix.data $a)) with
    | error e => rfl
    | ok n =>
      have hcap : $esOut * (Array.size (Matrix.data $a)) ≤ isizeMax := by
        unfold checkSize at hc
        by_cases h : $esOut * (Array.size (Matrix.data $a)) > isizeMax
        · simp [h] at hc
        · omega
      have hmin : $esOut * min (Array.size (Matrix.data $a)) (Array.size (Matrix.data $b)) ≤ isizeMax :=
        Nat.le_trans (Nat.mul_le_mul_left _ (Nat.min_le_left _ _)) hcap
      simp only [reserve_ok hcap, reserve_ok hmin, ok_bind, Matrix.hdr, ewData_eq]
      by_cases ho : Matrix.order $a = Matrix.order $b
      · have e1 : (Matrix.order $a = Matrix.order $b) = True := eq_true ho
        have e2 : (Matrix.order $b = Matrix.order $a) = True := eq_true ho.symm
        order_cond e1 e2
        rw [same_walk (Matrix.data $a) (Matrix.data $b) $op]
        · rfl
        · walk_step
      · have e1 : (Matrix.order $a = Matrix.order $b) = False := eq_false ho
        have e2 : (Matrix.order $b = Matrix.order $a) = False := eq_false (fun h => ho h.symm)
        order_cond e1 e2
        rw [cross_walk $a $b $op]
        · rfl
        · walk_step))

/-- `elementwise_operation` as regenerated from src/arithmetic.rs = the model's `Matrix.elementwiseOperation`,
including the error decisions and every fault; no hypothesis; whatever `size_of::<L>()`, `size_of::<R>()` -/
theorem elementwise_operation_bridge (esL esR esOut : Nat) (a : Matrix α) (b : Matrix β) (op : α → β → γ) :
    Gen.Matrix.elementwise_operation esL esR esOut a.hdr a.data b.hdr b.data op =
      a.elementwiseOperation esOut b op := by
  ew_new_bridge Gen.Matrix.elementwise_operation a b op esOut

/-- the consuming variant is the same model function -/
theorem elementwise_operation_consume_self_bridge (esL esR esOut : Nat) (a : Matrix α) (b : Matrix β)
    (op : α → β → γ) :
    Gen.Matrix.elementwise_operation_consume_self esL esR esOut a.hdr a.data b.hdr b.data op =
      a.elementwiseOperation esOut b op := by
  ew_new_bridge Gen.Matrix.elementwise_operation_consume_self a b op esOut

/-! ### the in-place variant: positions the walk does not reach keep their value -/

theorem mapM_length {σ τ : Type} (f : σ → M τ) : ∀ (l : List σ) (r : List τ), l.mapM f = .ok r → r.length = l.length := by
  intro l
  induction l with
  | nil => intro r h; simp [List.mapM_nil, pure, Except.pure] at h; subst h; rfl
  | cons x l ih =>
    intro r h
    simp only [List.mapM_cons, bind, Except.bind] at h
    cases hx : f x with
    | error e => simp [hx] at h
    | ok y =>
      cases hl : l.mapM f with
      | error e => simp [hx, hl] at h
      | ok r' =>
        simp [hx, hl, pure, Except.pure] at h
        subst h
        simp [ih r' hl]

/-- a walk that reaches every position leaves nothing of the old buffer -/
theorem append_rest (d : Array α) (l : List α) (h : d.size ≤ l.length) :
    l.toArray ++ d.extract l.length d.size = l.toArray := by
  have : d.extract l.length d.size = #[] := by
    apply Array.eq_empty_of_size_eq_zero
    simp only [Array.size_extract]; omega
  rw [this, Array.append_empty]

/-- finish an in-place walk over `n ≥ d.size` positions -/
theorem walk_rest {τ : Type} (d : Array α) (n : Nat) (w : M (List α)) (hw : ∀ l, w = .ok l → l.length = n)
    (hn : d.size ≤ n) (K : Array α → M τ) :
    ((do let items ← w; pure (items.toArray ++ d.extract items.length d.size)) >>= K) =
      ((do let l ← w; pure l.toArray) >>= K) := by
  cases h : w with
  | error e => rfl
  | ok l =>
    have := hw l h
    simp only [ok_bind, pure_bind', append_rest d l (by omega)]

theorem elementwise_operation_assign_bridge (esL esR : Nat) (a : Matrix α) (b : Matrix β) (op : α → β → α)
    (ha : a.Coh) (hb : b.Coh) :
    Gen.Matrix.elementwise_operation_assign esL esR a.hdr a.data b.hdr b.data op =
      a.elementwiseAssign b op := by
  unfold Gen.Matrix.elementwise_operation_assign Matrix.elementwiseAssign
  simp only [ensure_elementwise, Bridge.ew_conformable, ok_bind, pure_bind']
  cases hconf : a.hdr.ewConformable b.hdr
  · simp [Gen.bindErrSt, pure, Except.pure, Matrix.hdr]
  · simp only [if_true, Gen.bindErrSt, Bool.not_true, Bool.false_eq_true, if_false, Matrix.hdr, ewData_eq]
    by_cases ho : a.order = b.order
    · have e1 : (a.order = b.order) = True := eq_true ho
      have e2 : (b.order = a.order) = True := eq_true ho.symm
      have hsh : a.shape = b.shape := by
        simpa [Hdr.ewConformable, Matrix.hdr, ho] using hconf
      have hsz : a.data.size ≤ min a.data.size b.data.size := by
        have := ha.size_eq; have := hb.size_eq; rw [hsh] at *; omega
      order_cond e1 e2
      rw [same_walk a.data b.data op]
      · rw [walk_rest a.data (min a.data.size b.data.size) _ (by intro l h; cases h; simp) hsz]
        rfl
      · walk_step
    · have e1 : (a.order = b.order) = False := eq_false ho
      have e2 : (b.order = a.order) = False := eq_false (fun h => ho h.symm)
      order_cond e1 e2
      rw [cross_walk a b op]
      · rw [walk_rest a.data a.data.size _ (fun l h => by simpa using mapM_length _ _ l h) (Nat.le_refl _)]
        rfl
      · walk_step

end Matreex.BridgeT9
