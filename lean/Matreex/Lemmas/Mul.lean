/-
Lemmas about the loop nests and slices of the matrix product (`Model/Mul.lean`): `pushLoop`,
`nestLoop`, `nthMajorVector`, the product list of `dotProduct`, and the flat layout of a nest's
output.
-/
import Matreex.Model.Mul
import Matreex.Lemmas.Matrix
import Matreex.Lemmas.Arith

namespace Matreex
variable {L R U : Type}

/-! ### loops -/

theorem pushLoop_spec {α : Type} (f : Nat → M α) (g : Nat → Option α) :
    ∀ (todo lo : Nat) (d : Array α),
      (∀ x, lo ≤ x → x < lo + todo → ∃ u, f x = .ok u ∧ some u = g x) →
      ∃ d', pushLoop f todo lo d = .ok d' ∧
        d'.toList.map some = d.toList.map some ++ (List.range' lo todo).map g := by
  intro todo
  induction todo with
  | zero => intro lo d _; exact ⟨d, rfl, by simp⟩
  | succ todo ih =>
    intro lo d h
    obtain ⟨u, hu1, hu2⟩ := h lo (Nat.le_refl _) (by omega)
    simp only [pushLoop, hu1]
    obtain ⟨d', h1, h2⟩ := ih (lo + 1) (d.push u) (fun x h1 h2 => h x (by omega) (by omega))
    exact ⟨d', h1, by rw [h2]; simp [List.range'_succ, hu2]⟩

theorem nestLoop_loop {α : Type} (f : Nat → Nat → M α) (g : Nat → Nat → Option α) (inner : Nat) :
    ∀ (todo lo : Nat) (d : Array α),
      (∀ o i, lo ≤ o → o < lo + todo → i < inner → ∃ u, f o i = .ok u ∧ some u = g o i) →
      ∃ d', nestLoop f inner todo lo d = .ok d' ∧
        d'.toList.map some = d.toList.map some ++
          (List.range' lo todo).flatMap fun r => (List.range inner).map (g r) := by
  intro todo
  induction todo with
  | zero => intro lo d _; exact ⟨d, rfl, by simp⟩
  | succ todo ih =>
    intro lo d h
    obtain ⟨d1, h1, h2⟩ := pushLoop_spec (f lo) (g lo) inner 0 d
      (fun x _ hx => h lo x (Nat.le_refl _) (by omega) (by omega))
    obtain ⟨d2, h3, h4⟩ := ih (lo + 1) d1 (fun o i h1 h2 h3 => h o i (by omega) (by omega) h3)
    refine ⟨d2, by simp only [nestLoop, h1, h3], ?_⟩
    rw [h4, h2, List.range'_succ, List.flatMap_cons, List.range_eq_range']
    simp

theorem flatMap_rows_length {β : Type} (e : Nat → Nat → β) (n m : Nat) :
    ((List.range n).flatMap fun r => (List.range m).map (e r)).length = n * m := by
  induction n with
  | zero => simp
  | succ n ih => rw [List.range_succ, List.flatMap_append]; simp [ih, Nat.add_mul]

theorem getElem?_flatMap_rows {β : Type} (e : Nat → Nat → β) (n m row col : Nat) (hr : row < n)
    (hc : col < m) :
    ((List.range n).flatMap fun r => (List.range m).map (e r))[row * m + col]? = some (e row col) := by
  induction n with
  | zero => omega
  | succ n ih =>
    rw [List.range_succ, List.flatMap_append]
    have hlen := flatMap_rows_length e n m
    by_cases h : row < n
    · have : row * m + col < n * m := flat_lt h hc
      rw [List.getElem?_append_left (by omega)]
      exact ih h
    · have hrn : row = n := by omega
      subst hrn
      rw [List.getElem?_append_right (by omega), hlen]
      simp [hc]

/-- the whole nest from an empty vector: `outerN * inner` elements, element `(o, i)` at flat
position `o * inner + i` -/
theorem nestLoop_spec {α : Type} (f : Nat → Nat → M α) (g : Nat → Nat → Option α)
    (inner outerN : Nat)
    (h : ∀ o i, o < outerN → i < inner → ∃ u, f o i = .ok u ∧ some u = g o i) :
    ∃ d', nestLoop f inner outerN 0 #[] = .ok d' ∧ d'.size = outerN * inner ∧
      ∀ o i, o < outerN → i < inner → d'[o * inner + i]? = g o i := by
  obtain ⟨d', h1, h2⟩ := nestLoop_loop f g inner outerN 0 #[]
    (fun o i _ ho hi => h o i (by omega) hi)
  simp only [List.map_nil, List.nil_append] at h2
  rw [← List.range_eq_range'] at h2
  refine ⟨d', h1, ?_, ?_⟩
  · have := congrArg List.length h2
    rw [flatMap_rows_length] at this
    simpa using this
  · intro o i ho hi
    have := getElem?_flatMap_rows g outerN inner o i ho hi
    rw [← h2] at this
    simp only [List.getElem?_map] at this
    rw [← Array.getElem?_toList]
    cases hd : d'.toList[o * inner + i]? with
    | none => rw [hd] at this; simp at this
    | some u => rw [hd] at this; simpa using this

/-- relational form: whatever holds of each successfully computed cell holds of the stored one -/
theorem nestLoop_rel {α : Type} (f : Nat → Nat → M α) (P : Nat → Nat → α → Prop)
    (inner outerN : Nat)
    (h : ∀ o i, o < outerN → i < inner → ∃ u, f o i = .ok u ∧ P o i u) :
    ∃ d', nestLoop f inner outerN 0 #[] = .ok d' ∧ d'.size = outerN * inner ∧
      ∀ o i, o < outerN → i < inner → ∃ u, d'[o * inner + i]? = some u ∧ P o i u := by
  obtain ⟨d', h1, h2, h3⟩ := nestLoop_spec f
    (fun o i => match f o i with | .ok u => some u | .error _ => none) inner outerN
    (fun o i ho hi => by obtain ⟨u, hu, _⟩ := h o i ho hi; exact ⟨u, hu, by simp [hu]⟩)
  refine ⟨d', h1, h2, fun o i ho hi => ?_⟩
  obtain ⟨u, hu, hp⟩ := h o i ho hi
  exact ⟨u, by rw [h3 o i ho hi]; simp [hu], hp⟩

/-! ### slices -/

/-- `get_nth_major_axis_vector(n)` of a coherent matrix, `n` in range: no overflow in the offset
arithmetic, the unchecked range is in bounds, and the slice is the `n`-th major vector -/
theorem nthMajorVector_spec {α : Type} (m : Matrix α) (h : m.Coh) (hfit : m.data.size ≤ usizeMax)
    (n : Nat) (hn : n < m.shape.major) :
    ∃ l, nthMajorVector m n = .ok l ∧ l.length = m.shape.minor ∧
      ∀ k, k < m.shape.minor → l[k]? = m.data[n * m.shape.minor + k]? := by
  have hle : n * m.shape.minor + m.shape.minor ≤ m.data.size := by
    rw [← h.size_eq]; exact row_le hn
  have h1 : n * m.shape.minor ≤ usizeMax := by omega
  have h2 : n * m.shape.minor + m.shape.minor ≤ usizeMax := by omega
  refine ⟨(m.data.extract (n * m.shape.minor) (n * m.shape.minor + m.shape.minor)).toList, ?_, ?_, ?_⟩
  · simp [nthMajorVector, umul_ok h1, uadd_ok h2, sliceUnchecked, hle, bind, Except.bind, pure,
      Except.pure]
  · simp; omega
  · intro k hk
    rw [Array.getElem?_toList, Array.getElem?_extract]
    simp
    omega

/-! ### one cell -/

/-- zipping two length-`K` slices and multiplying gives the `K` products in order -/
theorem products_spec (mul : L → R → U) (ls : List L) (rs : List R) (K : Nat)
    (a : Nat → Option L) (b : Nat → Option R) (hl : ls.length = K) (hr : rs.length = K)
    (hla : ∀ k, k < K → ls[k]? = a k) (hrb : ∀ k, k < K → rs[k]? = b k) :
    List.zipWith mul ls rs =
      (List.range K).filterMap fun k => (a k).bind fun x => (b k).map fun y => mul x y := by
  induction K generalizing ls rs a b with
  | zero =>
    have : ls = [] := List.length_eq_zero_iff.mp hl
    subst this; simp
  | succ K ih =>
    cases ls with
    | nil => simp at hl
    | cons x xs =>
      cases rs with
      | nil => simp at hr
      | cons y ys =>
        have h0a := hla 0 (by omega)
        have h0b := hrb 0 (by omega)
        simp only [List.getElem?_cons_zero] at h0a h0b
        rw [List.range_succ_eq_map, List.filterMap_cons, List.filterMap_map, ← h0a, ← h0b]
        simp only [Option.bind_some, Option.map_some, List.zipWith_cons_cons]
        congr 1
        exact ih xs ys (fun k => a (k + 1)) (fun k => b (k + 1)) (by simpa using hl) (by simpa using hr)
          (fun k hk => by have := hla (k + 1) (by omega); simpa using this)
          (fun k hk => by have := hrb (k + 1) (by omega); simpa using this)

/-- `dot_product(..).unwrap_unchecked()` on two slices of equal length `K ≥ 1` never sees `None` -/
theorem dotProduct_ok (mul : L → R → U) (add : U → U → U) (ls : List L) (rs : List R) (K : Nat)
    (hK : K ≠ 0) (hl : ls.length = K) (hr : rs.length = K) :
    ∃ u, unwrapUnchecked (dotProduct mul add ls rs) = .ok u ∧ dotProduct mul add ls rs = some u := by
  cases ls with
  | nil => simp at hl; omega
  | cons x xs =>
    cases rs with
    | nil => simp at hr; omega
    | cons y ys => exact ⟨_, rfl, rfl⟩

/-- a list whose entries are given by `f` on `0..K` -/
theorem map_some_eq_range {α : Type} (l : List α) (K : Nat) (f : Nat → Option α) (hl : l.length = K)
    (h : ∀ k, k < K → l[k]? = f k) : l.map some = (List.range K).map f := by
  apply List.ext_getElem?
  intro k
  by_cases hk : k < K
  · have hk' : k < l.length := by omega
    have := h k hk
    rw [List.getElem?_eq_getElem hk'] at this
    simp [hk, hk', ← this]
  · simp [List.getElem?_map, hk]
    omega

/-! ### layouts -/

/-- in a row-major matrix, row `i` is major vector `i` -/
theorem Matrix.rowMajor_layout {α : Type} (m : Matrix α) (ho : m.order = .rowMajor) :
    m.shape.major = m.nrows ∧ m.shape.minor = m.ncols ∧
      ∀ i k, i < m.nrows → k < m.ncols → m.data[i * m.shape.minor + k]? = m.at? i k := by
  obtain ⟨o, sh, d⟩ := m
  subst ho
  refine ⟨rfl, rfl, ?_⟩
  intro i k hi hk
  simp only [Matrix.at?, hi, hk, and_self, ↓reduceIte, Matrix.idx, Index.flat, AxisIndex.flat,
    AxisIndex.ofIndex]

/-- in a column-major matrix, column `j` is major vector `j` -/
theorem Matrix.colMajor_layout {α : Type} (m : Matrix α) (ho : m.order = .colMajor) :
    m.shape.major = m.ncols ∧ m.shape.minor = m.nrows ∧
      ∀ k j, k < m.nrows → j < m.ncols → m.data[j * m.shape.minor + k]? = m.at? k j := by
  obtain ⟨o, sh, d⟩ := m
  subst ho
  refine ⟨rfl, rfl, ?_⟩
  intro k j hk hj
  simp only [Matrix.at?, hk, hj, and_self, ↓reduceIte, Matrix.idx, Index.flat, AxisIndex.flat,
    AxisIndex.ofIndex]

/-- the product's result matrix, row-major: `(i, j)` is at `i * ncols + j` -/
theorem result_at?_rowMajor (nr nc : Nat) (d : Array U) (i j : Nat) (hi : i < nr) (hj : j < nc) :
    (Matrix.mk .rowMajor ((Shape.mk nr nc).toAxis .rowMajor) d).at? i j = d[i * nc + j]? := by
  simp [Matrix.at?, Matrix.nrows, Matrix.ncols, AxisShape.nrows, AxisShape.ncols, Shape.toAxis, hi,
    hj, Matrix.idx, Index.flat, AxisIndex.flat, AxisIndex.ofIndex]

/-- the product's result matrix, column-major: `(i, j)` is at `j * nrows + i` -/
theorem result_at?_colMajor (nr nc : Nat) (d : Array U) (i j : Nat) (hi : i < nr) (hj : j < nc) :
    (Matrix.mk .colMajor ((Shape.mk nr nc).toAxis .colMajor) d).at? i j = d[j * nr + i]? := by
  simp [Matrix.at?, Matrix.nrows, Matrix.ncols, AxisShape.nrows, AxisShape.ncols, Shape.toAxis, hi,
    hj, Matrix.idx, Index.flat, AxisIndex.flat, AxisIndex.ofIndex]

/-- shape facts of the result matrix -/
theorem result_shape (o : Order) (nr nc : Nat) (d : Array U) (hd : d.size = nr * nc) :
    (Matrix.mk o ((Shape.mk nr nc).toAxis o) d).nrows = nr ∧
    (Matrix.mk o ((Shape.mk nr nc).toAxis o) d).ncols = nc ∧
    (Matrix.mk o ((Shape.mk nr nc).toAxis o) d).Coh := by
  cases o
  · exact ⟨rfl, rfl, ⟨by simp [Shape.toAxis, hd]⟩⟩
  · exact ⟨rfl, rfl, ⟨by simp [Shape.toAxis, hd, Nat.mul_comm]⟩⟩

/-- one cell of the nest: row `i` of the row-major lhs and column `j` of the column-major rhs are
fetched without fault and handed to `cell` -/
theorem cellAt_spec (a' : Matrix L) (b' : Matrix R) (cell : List L → List R → M U) (K : Nat)
    (ha : a'.Coh) (hb : b'.Coh) (hfa : a'.data.size ≤ usizeMax) (hfb : b'.data.size ≤ usizeMax)
    (hoa : a'.order = .rowMajor) (hob : b'.order = .colMajor)
    (hKa : a'.ncols = K) (hKb : b'.nrows = K)
    (hcell : ∀ ls rs, ls.length = K → rs.length = K → ∃ u, cell ls rs = .ok u)
    (i j : Nat) (hi : i < a'.nrows) (hj : j < b'.ncols) :
    ∃ u, (do let ls ← nthMajorVector a' i; let rs ← nthMajorVector b' j; cell ls rs) = .ok u ∧
      ∃ ls rs, cell ls rs = .ok u ∧ ls.length = K ∧ rs.length = K ∧
      (∀ k, k < K → ls[k]? = a'.at? i k) ∧ (∀ k, k < K → rs[k]? = b'.at? k j) := by
  obtain ⟨a1, a2, a3⟩ := a'.rowMajor_layout hoa
  obtain ⟨b1, b2, b3⟩ := b'.colMajor_layout hob
  obtain ⟨ls, l1, l2, l3⟩ := nthMajorVector_spec a' ha hfa i (by omega)
  obtain ⟨rs, r1, r2, r3⟩ := nthMajorVector_spec b' hb hfb j (by omega)
  obtain ⟨u, hu⟩ := hcell ls rs (by omega) (by omega)
  refine ⟨u, ?_, ls, rs, hu, by omega, by omega, ?_, ?_⟩
  · simp only [l1, r1, hu, bind, Except.bind]
  · intro k hk; rw [l3 k (by omega)]; exact a3 i k hi (by omega)
  · intro k hk; rw [r3 k (by omega)]; exact b3 k j (by omega) hj

end Matreex
