/-
Bridge for `Matrix::transpose` (src/lib.rs): the function regenerated from the source on every run
(`Gen/TransposeGen.lean`, translator T5) computes exactly what the hand-written model
`Matrix.transpose` of `Model/Transpose.lean` computes — same header, same buffer, same faults, for
every matrix (coherent or not), with no hypothesis.  The C05 theorems are about the model function;
through this equation they are about the source text of `transpose`.
-/
import Matreex.Gen.TransposeGen
import Matreex.Model.Transpose
import Matreex.Lemmas.BridgeSimple

set_option linter.unusedSimpArgs false

namespace Matreex.BridgeTranspose
open Matreex
variable {α : Type}

/-- one run of the body of the model's `cycleM`, as a loop body for `loopFuel`: the state is
(current, buffer, visited) -/
def cycleStep (succ : Nat → M Nat) (index : Nat) (s : Nat × Array α × Array Bool) :
    M (LoopStep (Nat × Array α × Array Bool) (Array α × Array Bool)) :=
  if h : s.1 < s.2.2.size then
    if s.2.2[s.1] then .ok (.done (s.2.1, s.2.2))
    else
      match succ s.1 with
      | .error e => .error e
      | .ok next =>
        match ptrSwap s.2.1 index next with
        | .error e => .error e
        | .ok d' => .ok (.next (next, d', s.2.2.set s.1 true))
  else .error (.ub "visited.get_unchecked_mut: index out of bounds")

/-- the model's `cycleM` is `loopFuel` of its own body (induction on the fuel) -/
theorem loopFuel_cycleStep (succ : Nat → M Nat) (index : Nat) :
    ∀ (fuel current : Nat) (d : Array α) (v : Array Bool),
      loopFuel (cycleStep succ index) fuel (current, d, v) = cycleM succ index fuel current d v := by
  intro fuel
  induction fuel with
  | zero => intro current d v; rfl
  | succ fuel ih =>
    intro current d v
    simp only [loopFuel, cycleM, cycleStep]
    by_cases h : current < v.size
    · simp only [dif_pos h]
      by_cases hv : v[current] = true
      · simp only [if_pos hv]
      · simp only [if_neg hv]
        cases succ current with
        | error e => rfl
        | ok next =>
          simp only []
          cases ptrSwap d index next with
          | error e => rfl
          | ok d' => simp only [ih]
    · simp only [dif_neg h]

/-- a loop whose body is (pointwise) the model's body is the model's `cycleM` -/
theorem loop_bridge (succ : Nat → M Nat) (index : Nat)
    (body : Nat × Array α × Array Bool → M (LoopStep (Nat × Array α × Array Bool) (Array α × Array Bool)))
    (fuel current : Nat) (d : Array α) (v : Array Bool)
    (h : ∀ s, body s = cycleStep succ index s) :
    loopFuel body fuel (current, d, v) = cycleM succ index fuel current d v := by
  have : body = cycleStep succ index := funext h
  subst this
  exact loopFuel_cycleStep succ index fuel current d v

/-- the model's `outerM` as a fold over the iteration numbers `s, s+1, …` -/
theorem outerM_eq_foldlM (succ : Nat → M Nat) (n : Nat) (todo : Nat) :
    ∀ (s : Nat) (d : Array α) (v : Array Bool), s + todo = n →
      outerM succ n todo d v
        = (List.range' s todo).foldlM
            (fun (r : Array α × Array Bool) (i : Nat) => cycleM succ i (n + 1) i r.1 r.2) (d, v) := by
  induction todo with
  | zero => intro s d v _; rfl
  | succ todo ih =>
    intro s d v h
    have hs : n - (todo + 1) = s := by omega
    simp only [outerM, List.range'_succ, List.foldlM_cons, hs, bind, Except.bind]
    cases cycleM succ s (n + 1) s d v with
    | error e => rfl
    | ok r => exact ih (s + 1) r.1 r.2 (by omega)

theorem bind_ok {β γ : Type} (a : β) (f : β → M γ) : Except.bind (Except.ok a) f = f a := rfl
theorem bind_error {β γ : Type} (e : Fault) (f : β → M γ) :
    Except.bind (Except.error e) f = Except.error e := rfl
theorem bind_ok_eta {β γ : Type} (x : M (β × γ)) :
    Except.bind x (fun r => Except.ok (r.1, r.2)) = x := by cases x <;> rfl

/-- two folds with pointwise equal bodies, followed by continuations that agree -/
theorem fold_finish {σ β : Type} (F G : σ → Nat → M σ) (h : ∀ r i, F r i = G r i)
    (r : σ) (l : List Nat) (k1 k2 : σ → M β) (hk : ∀ r, k1 r = k2 r) :
    Except.bind (List.foldlM F r l) k1 = Except.bind (List.foldlM G r l) k2 := by
  have : F = G := funext fun r => funext (h r)
  subst this
  have : k1 = k2 := funext hk
  subst this
  rfl

/-- the regenerated successor is the model's -/
theorem succ_bridge (old new : AxisShape) (current : Nat) (k : Nat → M β) :
    Except.bind (Gen.AxisIndex.from_flattened current old)
        (fun i => Except.bind (Gen.AxisIndex.to_flattened (Gen.AxisIndex.swap i) new) k)
      = Except.bind (transposeSucc old new current) k := by
  simp only [transposeSucc, BridgeSimple.axisIndex_swap, bind]
  cases Gen.AxisIndex.from_flattened current old <;> rfl

/-- the model side, for a sized element type: a fold over `0, 1, …, size-1` of `cycleM`, then the
header with the transposed shape and the buffer -/
theorem model_sized (m : Matrix α) :
    (m.transpose false).map (fun r => (r.hdr, r.data))
      = Except.bind
          ((List.range m.data.size).foldlM
            (fun (r : Array α × Array Bool) (i : Nat) =>
              cycleM (transposeSucc m.shape m.shape.transpose) i (m.data.size + 1) i r.1 r.2)
            (m.data, Array.replicate m.data.size false))
          (fun r => Except.ok (({ order := m.order, shape := m.shape.transpose } : Hdr), r.1)) := by
  simp only [Matrix.transpose, Bool.false_eq_true, if_false, permuteInPlaceM]
  rw [outerM_eq_foldlM _ _ _ 0 _ _ (by omega), ← List.range_eq_range']
  generalize List.foldlM (m := M) _ _ _ = X
  cases X <;> rfl

theorem transpose_bridge (zst : Bool) (m : Matrix α) :
    Gen.Matrix.transpose zst m.hdr m.data = (m.transpose zst).map fun r => (r.hdr, r.data) := by
  cases zst
  · rw [model_sized]
    simp only [Gen.Matrix.transpose, Bool.false_eq_true, if_false, bind, pure, Except.pure,
      BridgeSimple.axisShape_transpose, Matrix.hdr]
    refine fold_finish _ _ (fun r i => ?_) _ _ _ _ (fun r => rfl)
    rw [bind_ok_eta]
    refine loop_bridge _ _ _ _ _ _ _ (fun s => ?_)
    -- one run of the loop body: split on the two facts the source tests (the bound of
    -- `get_unchecked_mut`, the visited flag), then on the results of the successor and the swap
    simp only [cycleStep, vecRefUncheckedMut, refRead, refWrite]
    by_cases h : s.1 < s.2.2.size
    · by_cases hv : s.2.2[s.1] = true
      · simp only [h, hv, if_true, if_false, dite_true, bind_ok, Bool.not_true, Bool.not_false,
          Bool.false_eq_true, Bool.true_eq_false]
      · have hv' : s.2.2[s.1] = false := Bool.eq_false_iff.mpr hv
        simp only [h, hv', if_true, if_false, dite_true, bind_ok, Bool.not_true, Bool.not_false,
          Bool.false_eq_true, Bool.true_eq_false]
        rw [succ_bridge]
        cases transposeSucc m.shape m.shape.transpose s.1 with
        | error e => rfl
        | ok next =>
          simp only [bind_ok]
          cases ptrSwap s.2.1 i next <;> rfl
    · simp only [h, if_false, dite_false, bind_error]
  · rfl

end Matreex.BridgeTranspose
