/-
Small facts about `Except` used to evaluate monadic model code in proofs.
-/
namespace Matreex

theorem mapM_ok {ε α β : Type} (g : α → Except ε β) (h : α → β) (l : List α)
    (H : ∀ a ∈ l, g a = .ok (h a)) : l.mapM g = .ok (l.map h) := by
  induction l with
  | nil => rfl
  | cons a l ih =>
    have h1 := H a (by simp)
    have h2 := ih (fun a' ha' => H a' (by simp [ha']))
    simp [List.mapM_cons, h1, h2, bind, Except.bind, pure, Except.pure]

end Matreex
