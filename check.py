#!/usr/bin/env python3
"""Entry point of the matreex verification machinery.

    ./check.py <Cxx> [--tier quick|thorough]      decide one property on /repo's working tree
    ./check.py <Cxx> --replay <path>              re-run one stored case, show impl / model / oracle
    ./check.py --setup                            build everything once (MANIFEST.setup_cmd)

Pipeline per run (DESIGN.md section 4): translate (regenerate lean/Matreex/Gen from /repo/src) ->
prove (lake build of the property module, axiom audit, forbidden-token scan) -> build the harness
against /repo's working tree -> correspond (harness on the real crate, driver on the model, diff;
the property's own oracle is evaluated by the harness on the implementation) -> verdict ->
evidence/<id>.json.
"""
import argparse, fcntl, hashlib, json, os, re, subprocess, sys, time

ROOT = os.path.dirname(os.path.abspath(__file__))
LEAN = os.path.join(ROOT, "lean")
HARNESS = os.path.join(ROOT, "harness")
RUNS = os.path.join(ROOT, "runs")          # scratch output of the harness / driver (git-ignored)
REPLAYS = os.path.join(ROOT, "replays")    # replay files of reported violations (git-ignored)
# the implementation under verification; MATREEX_REPO is for background runs in a snapshot of /verif against a snapshot of
# /repo only (vp run --with-repo): the registered commands never set it
REPO = os.environ.get("MATREEX_REPO", "/repo")
ALLOWED_AXIOMS = {"propext", "Classical.choice", "Quot.sound"}
FORBIDDEN = re.compile(r"\bsorry\b|\badmit\b|^\s*axiom\s|native_decide|bv_decide|implemented_by|\bunsafe\s|maxHeartbeats\s+0", re.M)
PARTIAL = re.compile(r"\bpartial\s+def\b")

sys.path.insert(0, os.path.join(ROOT, "translate"))
from props import PROPS, TRUSTED_COMMON  # noqa: E402


def sh(cmd, cwd=None, timeout=None, env=None, stdin=None, stdout=subprocess.PIPE):
    e = dict(os.environ)
    e.update({"CARGO_NET_OFFLINE": "true"})
    if env:
        e.update(env)
    try:
        p = subprocess.run(cmd, cwd=cwd, stdin=stdin, stdout=stdout, stderr=subprocess.STDOUT, env=e,
                           timeout=timeout)
    except subprocess.TimeoutExpired as ex:
        # the child has been killed; what it printed so far is kept
        so_far = ex.stdout.decode(errors="replace") if isinstance(ex.stdout, bytes) else ""
        return -9, so_far + f"\nTIMEOUT after {timeout} s"
    return p.returncode, (p.stdout.decode(errors="replace") if stdout == subprocess.PIPE else "")


class Lock:
    """serialise lake / cargo builds between concurrently running checks"""
    def __enter__(self):
        self.f = open(os.path.join(ROOT, ".build.lock"), "w")
        fcntl.flock(self.f, fcntl.LOCK_EX)
        return self
    def __exit__(self, *a):
        fcntl.flock(self.f, fcntl.LOCK_UN)
        self.f.close()


# ----------------------------------------------------------------------------- translate
def retarget():
    """the three cargo manifests must point at the implementation under verification: /repo for every registered command;
    MATREEX_REPO only for background runs in a scratch copy of /verif (the manifests are rewritten in place, so this
    also repairs a manifest that a scratch run left pointing elsewhere)"""
    for d in ("harness", "probes", "fmtcfg"):
        f = os.path.join(ROOT, d, "Cargo.toml")
        if os.path.exists(f):
            t = open(f).read()
            t2 = re.sub(r'matreex = \{ path = "[^"]*"', 'matreex = { path = "%s"' % REPO, t)
            if t2 != t:
                open(f, "w").write(t2)


def translate():
    """run every translator; returns dict name -> report"""
    retarget()
    rep = {}
    rc, out = sh([sys.executable, os.path.join(ROOT, "translate", "t2.py"), REPO + "/src",
                  os.path.join(LEAN, "Matreex", "Gen", "Core.lean")])
    try:
        rep["t2"] = json.loads(out)
    except Exception:
        rep["t2"] = {"error": out[-2000:], "translated": [], "untranslated": [["*", "translator crashed"]]}
    t1 = os.path.join(ROOT, "translate", "t1.py")
    if os.path.exists(t1):
        rc, out = sh([sys.executable, t1, REPO + "/src", os.path.join(LEAN, "Matreex", "Gen")])
        try:
            rep["t1"] = json.loads(out)
        except Exception:
            rep["t1"] = {"error": out[-2000:]}
    return rep


# ----------------------------------------------------------------------------- prove
def strip_comments(src):
    src = re.sub(r"/-.*?-/", "", src, flags=re.S)
    return re.sub(r"--[^\n]*", "", src)


def theorem_names(path):
    """fully qualified names of the `theorem`s of a Lean file (namespaces tracked)"""
    src = strip_comments(open(path).read())
    ns, names = [], []
    for line in src.splitlines():
        m = re.match(r"\s*namespace\s+(\S+)", line)
        if m:
            ns.append(m.group(1)); continue
        m = re.match(r"\s*end\s+(\S+)", line)
        if m and ns and ns[-1] == m.group(1):
            ns.pop(); continue
        m = re.match(r"\s*(?:private\s+|protected\s+)?theorem\s+([^\s:({\[]+)", line)
        if m:
            names.append(".".join(ns + [m.group(1)]))
    return names


def enclosing_decl(path, line):
    """`theorem foo` / `def foo` / `example` enclosing the given line of a Lean file"""
    try:
        lines = open(path).read().splitlines()
    except OSError:
        return None
    for i in range(min(line, len(lines)) - 1, -1, -1):
        m = re.match(r"\s*(?:private\s+|protected\s+)?(theorem|def|example|instance|abbrev|structure|inductive)\b\s*([^\s:({\[]*)", lines[i])
        if m:
            return (m.group(1) + " " + m.group(2)).strip()
    return None


def module_files(module):
    """source files of a module and of everything of ours it imports (transitively)"""
    seen, todo = [], [module]
    while todo:
        mod = todo.pop()
        path = os.path.join(LEAN, *mod.split(".")) + ".lean"
        if mod in seen or not os.path.exists(path):
            continue
        seen.append(mod)
        for m in re.finditer(r"^import\s+(\S+)", open(path).read(), re.M):
            if m.group(1).split(".")[0] in ("Matreex", "Driver"):
                todo.append(m.group(1))
    return [os.path.join(LEAN, *m.split(".")) + ".lean" for m in seen]


def prove(pid, spec, thorough):
    """returns dict(ok, obligations, discharged, failures[list of str], axioms{thm: [..]}, log)"""
    res = {"ok": False, "obligations": 0, "discharged": 0, "failures": [], "axioms": {}, "log": ""}
    module = spec["module"]
    modules = [module] + spec.get("extra_modules", [])
    names = []
    for mod in modules:
        names += theorem_names(os.path.join(LEAN, *mod.split(".")) + ".lean")
    res["obligations"] = len(names)
    res["theorems"] = names
    rc, out = sh(["lake", "build"] + modules + ["driver"], cwd=LEAN, timeout=3000)
    res["log"] = out[-6000:]
    if rc != 0:
        i = out.find("error:")
        res["log"] = out[max(0, i - 300):][:6000] if i >= 0 else out[-6000:]
        errs = re.findall(r"error: ([^\n]*)", out)
        res["failures"] = [f"lake build {module} failed: " + "; ".join(errs[:6])]
        # name the declarations that no longer check (error positions -> enclosing declaration)
        for fpath, line in sorted(set(re.findall(r"error: (\S+?\.lean):(\d+):\d+", out)))[:12]:
            full = fpath if os.path.isabs(fpath) else os.path.join(LEAN, fpath)
            decl = enclosing_decl(full, int(line))
            if decl:
                res["failures"].append(f"{os.path.relpath(full, ROOT)}:{line}: {decl} no longer checks")
        # which of the other theorems still check is unknown when the module does not build
        return res
    # forbidden tokens in every source file the property depends on
    for f in sum([module_files(mod) for mod in modules], []) + module_files("Main"):
        text = strip_comments(open(f).read())
        hit = FORBIDDEN.search(text) or (PARTIAL.search(text) if os.sep + "Matreex" + os.sep in f else None)
        if hit:
            res["failures"].append(f"forbidden token {hit.group(0).strip()!r} in {os.path.relpath(f, ROOT)}")
    # axiom audit
    audit_dir = os.path.join(LEAN, ".lake", "audit")
    os.makedirs(audit_dir, exist_ok=True)
    audit = os.path.join(audit_dir, pid + ".lean")
    with open(audit, "w") as fh:
        fh.write("".join(f"import {mod}\n" for mod in modules) + "".join(f"#print axioms {n}\n" for n in names))
    rc, out = sh(["lake", "env", "lean", audit], cwd=LEAN, timeout=1200)
    if rc != 0:
        res["failures"].append("axiom audit failed: " + out[-800:])
        return res
    for m in re.finditer(r"'(\S+)' (does not depend on any axioms|depends on axioms: \[([^\]]*)\])", out):
        ax = [a.strip() for a in (m.group(3) or "").replace("\n", " ").split(",") if a.strip()]
        res["axioms"][m.group(1)] = ax
    for n in names:
        if n not in res["axioms"]:
            res["failures"].append(f"no axiom report for {n}")
        elif set(res["axioms"][n]) - ALLOWED_AXIOMS:
            res["failures"].append(f"{n} depends on non-standard axioms {sorted(set(res['axioms'][n]) - ALLOWED_AXIOMS)}")
        else:
            res["discharged"] += 1
    if thorough and not res["failures"]:
        # independent re-check of the compiled module by the toolchain's checker; --fresh replays every
        # declaration the module depends on (core library included) instead of trusting imported .olean files
        rc, out = sh(["lake", "env", "leanchecker", "--fresh", module], cwd=LEAN, timeout=3000)
        res["leanchecker"] = "ok (--fresh)" if rc == 0 else out[-800:]
        if rc != 0:
            res["failures"].append("leanchecker rejected " + module)
    res["ok"] = not res["failures"] and res["discharged"] == res["obligations"] and res["obligations"] > 0
    return res


# ----------------------------------------------------------------------------- correspond
def build_harness(release=False):
    cmd = ["cargo", "build", "--offline", "--quiet"] + (["--release"] if release else [])
    rc, out = sh(cmd, cwd=HARNESS, timeout=3000)
    return rc == 0, out[-4000:]


def split_cases(lines):
    """group a stream into cases: list of (header, [lines])"""
    cases, cur = [], None
    for ln in lines:
        if ln.startswith("# case"):
            cur = (ln, []); cases.append(cur)
        elif cur is not None:
            cur[1].append(ln)
    return cases


def rd(path):
    """read a file written by the harness / driver; the implementation under test may have printed
    arbitrary bytes (e.g. the payload of an element it had already dropped)"""
    with open(path, errors="replace") as f:
        return f.read()


def correspond(pid, spec, tier, seed, release=False, tag=""):
    """run harness + driver; returns dict with meta, diffs, crash info"""
    rundir = os.path.join(RUNS, f"{pid}-{tier}" + ("-release" if release else "") + tag)
    os.makedirs(rundir, exist_ok=True)
    for f in ("ops.txt", "impl.txt", "model.txt", "meta.json", "oracle.txt"):
        try: os.remove(os.path.join(rundir, f))
        except FileNotFoundError: pass
    res = {"rundir": rundir, "crashed": None, "diffs": [], "meta": {}, "model_faults": 0}
    exe = os.path.join(HARNESS, "target", "release" if release else "debug", "harness")
    t0 = time.time()
    env = {"NO_COLOR": "1", "RAYON_NUM_THREADS": os.environ.get("RAYON_NUM_THREADS", "")}
    env = {k: v for k, v in env.items() if v}
    # the whole generator takes seconds to a few minutes on the unchanged tree: an implementation
    # that does not come back within the limit (e.g. a loop over usize::MAX zero-sized elements)
    # is reported like a crash, with the last announced operation as the replay
    limit = spec.get("timeout", 600 if tier == "quick" else 3000)
    rc, out = sh([exe, spec["harness"], tier, str(seed), rundir], timeout=limit, env=env)
    res["harness_s"] = round(time.time() - t0, 2)
    ops = rd(os.path.join(rundir, "ops.txt")).splitlines() if os.path.exists(os.path.join(rundir, "ops.txt")) else []
    if rc != 0 or "HARNESS-DONE" not in out:
        # the implementation aborted (UB check, double panic, allocation failure): the last
        # announced operation is the culprit
        cases = split_cases(ops)
        last = cases[-1] if cases else ("# case ?", [])
        res["crashed"] = {"rc": rc, "tail": out[-1500:], "case": last[0], "ops": last[1][-40:]}
        opath = os.path.join(rundir, "oracle.txt")
        if os.path.exists(opath):
            res["meta"] = {"oracle_failures": rd(opath).splitlines()[:50]}
        return res
    res["meta"] = json.loads(rd(os.path.join(rundir, "meta.json")))
    t0 = time.time()
    with open(os.path.join(rundir, "ops.txt"), "rb") as fin, open(os.path.join(rundir, "model.txt"), "wb") as fout:
        p = subprocess.run([os.path.join(LEAN, ".lake", "build", "bin", "driver")], stdin=fin, stdout=fout,
                           stderr=subprocess.PIPE, timeout=3000)
    res["driver_s"] = round(time.time() - t0, 2)
    mm = re.search(r"history-mirror: (\d+) lines", p.stderr.decode(errors="replace"))
    res["history_mirror_lines"] = int(mm.group(1)) if mm else 0
    if p.returncode != 0:
        res["diffs"].append({"case": "driver", "op": "", "impl": "", "model": "driver exited with %d: %s" % (p.returncode, p.stderr.decode(errors="replace")[-400:])})
        return res
    impl = rd(os.path.join(rundir, "impl.txt")).splitlines()
    model = rd(os.path.join(rundir, "model.txt")).splitlines()
    res["lines_compared"] = min(len(impl), len(model))
    if len(impl) != len(model) or len(ops) != len(impl):
        res["diffs"].append({"case": "stream", "op": "", "impl": f"{len(impl)} lines", "model": f"{len(model)} lines (ops: {len(ops)})"})
    header = ""
    for op, a, b in zip(ops, impl, model):
        if op.startswith("# case"):
            header = op
        if b.startswith("ub(") or b == "fuel" or b == "bad-op":
            res["model_faults"] += 1
        if a != b:
            if len(res["diffs"]) < 20:
                res["diffs"].append({"case": header, "op": op, "impl": a, "model": b})
            res["ndiffs"] = res.get("ndiffs", 0) + 1
    return res


def case_text(rundir, header):
    """ops / impl / model lines of one case, for a replay file"""
    out = {}
    for name in ("ops", "impl", "model"):
        p = os.path.join(rundir, name + ".txt")
        if not os.path.exists(p):
            continue
        for h, lines in split_cases(rd(p).splitlines()):
            if h == header:
                out[name] = lines[:400]
    return out



def post_fmtcfg(rundir):
    """C20: recompute the formatting observations of this run against /repo built without features and with the
    crate's default features (the harness links `full`), and compare with the harness's observations"""
    d = os.path.join(ROOT, "fmtcfg")
    res = {"configs": {}, "failures": []}
    ops = os.path.join(rundir, "ops.txt")
    impl = rd(os.path.join(rundir, "impl.txt")).splitlines()
    opl = rd(ops).splitlines()
    for name, args in (("no-default-features", []), ("crate-default", ["--features", "crate-default"])):
        tdir = os.path.join(d, "target", name)
        rc, out = sh(["cargo", "build", "--offline", "--quiet", "--target-dir", tdir] + args, cwd=d, timeout=1200)
        if rc != 0:
            res["failures"].append(f"case 0: fmtcfg does not build in configuration {name}: {out[-300:]}")
            continue
        p = subprocess.run([os.path.join(tdir, "debug", "fmtcfg"), ops], stdout=subprocess.PIPE, stderr=subprocess.PIPE,
                           timeout=1200, env={**os.environ, "NO_COLOR": "1"})
        got = p.stdout.decode("utf-8", "replace").splitlines()
        nd, case = 0, "0"
        if p.returncode != 0 or len(got) != len(impl):
            res["failures"].append(f"case 0: fmtcfg ({name}) exited {p.returncode} with {len(got)} lines for {len(impl)} operations")
        for op, a, b in zip(opl, impl, got):
            if op.startswith("# case "):
                case = op.split()[2]
            elif a != b:
                nd += 1
                if nd <= 3:
                    res["failures"].append(f"case {case}: {op}: built with {name} the crate prints `{b[:200]}`, built with `full` (colours unsupported) it prints `{a[:200]}`")
        res["configs"][name] = {"lines_compared": min(len(got), len(impl)), "differences": nd}
    return res

# ----------------------------------------------------------------------------- known findings
def load_known():
    p = os.path.join(ROOT, "known_findings.json")
    if not os.path.exists(p):
        return []
    return [e for e in json.load(open(p)).get("findings", []) if e.get("status") == "known"]


def match_known(pid, text, known):
    for e in known:
        if e["property"] == pid and re.search(e["signature"], text):
            return e
    return None


# ----------------------------------------------------------------------------- main
def write_replay(pid, name, payload):
    os.makedirs(REPLAYS, exist_ok=True)
    path = os.path.join(REPLAYS, f"{pid}-{name}.json")
    json.dump(payload, open(path, "w"), indent=1)
    return os.path.relpath(path, ROOT)


def run_check(pid, tier, seed):
    t_start = time.time()
    spec = PROPS[pid]
    thorough = tier == "thorough"
    known = load_known()
    violations, known_hits, notes = [], [], []
    with Lock():
        tr = translate()
        pr = prove(pid, spec, thorough)
        hb_ok, hb_log = build_harness(False)
        if thorough and hb_ok and spec.get("release", True):
            hb_ok2, hb_log2 = build_harness(True)
        else:
            hb_ok2 = False
    untranslated = tr.get("t2", {}).get("untranslated", [])
    # an overridden provided method of the mutable iterators concerns the properties that quantify over every way of consuming
    # them (C03 speaks about next, next_back and len only)
    untranslated = [u for u in untranslated
                    if not str(u[0]).startswith("IterMut.override:") or pid in ("C01", "C06", "C17")]
    corr_runs = []
    if not hb_ok:
        notes.append("harness does not build against /repo: " + hb_log[-600:])
    else:
        corr_runs.append(("debug", correspond(pid, spec, tier, seed, False)))
        if hb_ok2:
            corr_runs.append(("release", correspond(pid, spec, tier, seed, True)))

    oracle_failures, diffs, crashed = [], [], None
    meta = {}
    post = None
    if spec.get("post") == "fmtcfg" and corr_runs and not corr_runs[0][1]["crashed"]:
        with Lock():
            post = post_fmtcfg(corr_runs[0][1]["rundir"])
        for f in post["failures"]:
            oracle_failures.append(("debug", corr_runs[0][1], f))
    for prof, cr in corr_runs:
        if cr["crashed"]:
            crashed = crashed or (prof, cr)
        if prof == "debug" or not meta:
            meta = cr["meta"] or meta
        for f in cr["meta"].get("oracle_failures", []):
            oracle_failures.append((prof, cr, f))
        for d in cr["diffs"]:
            diffs.append((prof, cr, d))

    # ---- verdict
    # 1. concrete failing inputs: oracle failures and crashes of the implementation
    for prof, cr, f in oracle_failures:
        k = match_known(pid, f, known)
        if k:
            if k["id"] not in [x["id"] for x in known_hits]:
                known_hits.append(k)
            continue
        m = re.match(r"case (\d+):", f)
        header = None
        if m:
            for h, _ in split_cases(rd(os.path.join(cr["rundir"], "ops.txt")).splitlines()):
                if h.startswith(f"# case {m.group(1)} "):
                    header = h
        payload = {"property": pid, "kind": "oracle-failure", "profile": prof, "tier": tier, "seed": seed,
                   "what": f, "case": header, **(case_text(cr["rundir"], header) if header else {})}
        if pr["failures"]:
            payload["no_longer_checks"] = pr["failures"]
        violations.append((write_replay(pid, hashlib.sha1(f.encode()).hexdigest()[:10], payload), ""))
        break   # one replay per run is enough; the rest are in meta.json
    if crashed:
        prof, cr = crashed
        text = " ".join(cr["crashed"]["ops"][-1:]) + " " + cr["crashed"]["tail"]
        k = match_known(pid, text, known)
        if k:
            known_hits.append(k)
        else:
            payload = {"property": pid, "kind": "implementation-crashed", "profile": prof, "tier": tier, "seed": seed,
                       "what": ("the implementation did not come back from the last listed operation within the time limit of the whole run (a loop over a huge extent?)"
                                if cr["crashed"]["rc"] == -9 and "TIMEOUT after" in cr["crashed"]["tail"] else
                                "the harness process died while executing the last listed operation (abort on an unsafe-precondition check, double panic, or allocation failure)"),
                       **cr["crashed"]}
            violations.append((write_replay(pid, "crash", payload), ""))
    # 2. broken obligations without a concrete failing input
    if not violations:
        broken = []
        if not pr["ok"]:
            broken += pr["failures"] or ["property module did not check"]
        if untranslated:
            broken.append("translator T2 could not read: " + ", ".join(f"{n} ({why})" for n, why in untranslated))
        if not hb_ok:
            broken.append("correspondence harness does not build against the current /repo")
        if diffs:
            broken.append(f"correspondence impl-vs-model differs ({sum(cr.get('ndiffs', 0) for _, cr in corr_runs)} lines)")
        searched = [f"{tier} generator, seed {seed}"]
        if broken and not (crashed and known_hits) and hb_ok:
            # search for a concrete failing input beyond this tier's own run: the thorough generator, further seeds
            plan = ([("thorough", seed)] if tier == "quick" else []) + [(tier, seed + 1), (tier, seed + 2)]
            for t, sd in plan:
                if time.time() - t_start > 900:
                    break
                cr = correspond(pid, spec, t, sd, False, tag="-search")
                searched.append(f"{t} generator, seed {sd}")
                fs = [f for f in (cr["meta"] or {}).get("oracle_failures", []) if not match_known(pid, f, known)]
                if cr["crashed"] and not fs:
                    text = " ".join(cr["crashed"]["ops"][-1:]) + " " + cr["crashed"]["tail"]
                    if not match_known(pid, text, known):
                        payload = {"property": pid, "kind": "implementation-crashed", "profile": "debug", "tier": t, "seed": sd,
                                   "found_by": "search after a broken obligation", "no_longer_checks": broken, **cr["crashed"]}
                        violations.append((write_replay(pid, "crash", payload), ""))
                        break
                if fs:
                    f = fs[0]
                    m = re.match(r"case (\d+):", f)
                    header = None
                    if m and os.path.exists(os.path.join(cr["rundir"], "ops.txt")):
                        for h, _ in split_cases(rd(os.path.join(cr["rundir"], "ops.txt")).splitlines()):
                            if h.startswith(f"# case {m.group(1)} "):
                                header = h
                    payload = {"property": pid, "kind": "oracle-failure", "profile": "debug", "tier": t, "seed": sd,
                               "found_by": "search after a broken obligation", "no_longer_checks": broken,
                               "what": f, "case": header, **(case_text(cr["rundir"], header) if header else {})}
                    violations.append((write_replay(pid, hashlib.sha1(f.encode()).hexdigest()[:10], payload), ""))
                    oracle_failures.append(("debug", cr, f))
                    break
        if broken and not violations and not (crashed and known_hits):
            payload = {"property": pid, "kind": "obligation-broken", "tier": tier, "seed": seed,
                       "no_longer_checks": broken, "searched": "no input found on which the implementation violates the property's oracle; searched: " + "; ".join(searched),
                       "first_differences": [d for _, _, d in diffs[:10]], "lake_log_tail": pr["log"][-3000:] if not pr["ok"] else ""}
            violations.append((write_replay(pid, "unproved", payload), " no-failing-input-found"))

    # ---- evidence
    wall = round(time.time() - t_start, 2)
    cov = {
        "obligations": pr["obligations"], "discharged": pr["discharged"],
        "checker_cmd": f"cd lean && lake build {spec['module']} && lake env lean .lake/audit/{pid}.lean  (#print axioms on every theorem)"
                       + ("; lake env leanchecker --fresh " + spec["module"] if thorough else ""),
        "trusted_base": TRUSTED_COMMON + spec.get("trusted", []),
        "theorems": pr.get("theorems", []),
        "axioms_used": sorted({a for v in pr["axioms"].values() for a in v}),
        "proof_failures": pr["failures"],
        "t2_translated": tr.get("t2", {}).get("translated", []), "t2_untranslated": untranslated,
        "gen_files_changed": bool(tr.get("t2", {}).get("changed")) or bool(tr.get("t1", {}).get("changed")),
        "t1": {k: v for k, v in tr.get("t1", {}).items() if k != "changed"},
        "evaluations": meta.get("evaluations", 0), "distinct_nontrivial": meta.get("distinct_nontrivial", 0),
        "rule": meta.get("rule", ""), "samples": meta.get("samples", [])[:4] or pr.get("theorems", [])[:4],
        "exhaustive": bool(meta.get("exhaustive", False)),
        "traces_validated_against_impl": sum(cr.get("lines_compared", 0) for _, cr in corr_runs),
        "distribution": meta.get("distribution", {}),
        "correspondence": [{"profile": p, "lines_compared": cr.get("lines_compared", 0), "differences": cr.get("ndiffs", 0),
                            "model_faults": cr.get("model_faults", 0), "harness_s": cr.get("harness_s"), "driver_s": cr.get("driver_s"),
                            "history_mirror_lines": cr.get("history_mirror_lines", 0),
                            "crashed": bool(cr["crashed"])} for p, cr in corr_runs],
        "oracle_failures": [f for _, _, f in oracle_failures][:20],
        "known_findings_matched": [k["id"] for k in known_hits],
        "notes": notes,
    }
    if post is not None:
        cov["feature_configurations"] = post["configs"]
    if thorough:
        cov["leanchecker"] = pr.get("leanchecker", "not run")
    ev = {"property_id": pid, "tier": tier, "seed": seed, "level": "proof", "coverage": cov,
          "assumptions": spec.get("assumptions", []), "wall_s": wall, "violations": len(violations)}
    os.makedirs(os.path.join(ROOT, "evidence"), exist_ok=True)
    json.dump(ev, open(os.path.join(ROOT, "evidence", pid + ".json"), "w"), indent=1)

    for k in known_hits:
        print(f"KNOWN-FINDING: property={pid} {k['what']}")
    print(f"[{pid}] tier={tier} theorems {pr['discharged']}/{pr['obligations']} checked; "
          f"correspondence {cov['traces_validated_against_impl']} lines, "
          f"{sum(c['differences'] for c in cov['correspondence'])} differences; "
          f"oracle failures {len(oracle_failures)}; {wall}s")
    for path, suffix in violations:
        print(f"VIOLATION property={pid} replay={path}{suffix}")
    return 1 if violations else 0


def replay(pid, path):
    r = json.load(open(path if os.path.isabs(path) else os.path.join(ROOT, path)))
    print(json.dumps({k: v for k, v in r.items() if k not in ("ops", "impl", "model")}, indent=1))
    if "ops" in r:
        # re-run the same generator run and show the stored case next to what happens now
        spec = PROPS[pid]
        with Lock():
            translate(); sh(["lake", "build", "driver"], cwd=LEAN); build_harness(r.get("profile") == "release")
        cr = correspond(pid, spec, r["tier"], r["seed"], r.get("profile") == "release")
        now = case_text(cr["rundir"], r.get("case")) if r.get("case") else {}
        print(f"{'operation':60} | {'impl (stored)':28} | {'impl (now)':28} | model (now)")
        for i, op in enumerate(r["ops"]):
            g = lambda d, k: (d.get(k) or [])[i] if i < len(d.get(k) or []) else "-"
            print(f"{op[:60]:60} | {g(r, 'impl')[:28]:28} | {g(now, 'impl')[:28]:28} | {g(now, 'model')}")
        for f in cr["meta"].get("oracle_failures", []) if cr["meta"] else []:
            print("oracle:", f)
    return 0


def setup():
    with Lock():
        tr = translate()
        print(json.dumps({k: (v if k != "t2" else {"untranslated": v.get("untranslated")}) for k, v in tr.items()})[:600])
        rc, out = sh(["lake", "build", "Matreex", "driver"], cwd=LEAN, timeout=6000)
        print(out[-1500:])
        if rc != 0:
            return 1
        ok, log = build_harness(False)
        if not ok:
            print(log); return 1
        ok, log = build_harness(True)
        if not ok:
            print(log); return 1
        # C20's other feature configurations of /repo
        for name, args in (("no-default-features", []), ("crate-default", ["--features", "crate-default"])):
            rc, out = sh(["cargo", "build", "--offline", "--quiet", "--target-dir", os.path.join(ROOT, "fmtcfg", "target", name)] + args,
                         cwd=os.path.join(ROOT, "fmtcfg"), timeout=1200)
            if rc != 0:
                print(out[-1500:]); return 1
    print("setup ok")
    return 0


if __name__ == "__main__":
    ap = argparse.ArgumentParser()
    ap.add_argument("property", nargs="?")
    ap.add_argument("--tier", default=os.environ.get("VERIF_TIER", "quick"))
    ap.add_argument("--replay")
    ap.add_argument("--setup", action="store_true")
    a = ap.parse_args()
    if a.setup:
        sys.exit(setup())
    if a.property not in PROPS:
        print("unknown property", a.property); sys.exit(2)
    if a.replay:
        sys.exit(replay(a.property, a.replay))
    seed = int(os.environ.get("VERIF_SEED", "1") or 1)
    sys.exit(run_check(a.property, a.tier if a.tier in ("quick", "thorough") else "quick", seed))
