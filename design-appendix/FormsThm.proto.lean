import ScalarForms
open Matreex.Gen

/-- what C18 demands of one row -/
def Matreex.Gen.ScalarForm.ok (f : ScalarForm) : Bool :=
  -- operand order: matrix on the left ⇒ element op scalar; matrix on the right ⇒ scalar op element
  (if f.matrixOnLeft then f.lhs == .element && f.rhs == .scalar else f.lhs == .scalar && f.rhs == .element)
  -- the matrix is the receiver, the scalar is the other operand, passed by reference
  && (f.receiver == (if f.matrixOnLeft then "self" else "rhs"))
  && (f.scalarArg == (if f.matrixOnLeft then "&rhs" else "&self"))
  -- delegate: owned matrix ⇒ consuming variant, borrowed ⇒ by-reference variant, assign ⇒ assign variant
  && (f.method == (if f.assign then "scalar_operation_assign"
                   else if f.matrixOwned then "scalar_operation_consume_self" else "scalar_operation"))
  -- the operator symbol belongs to the module's trait
  && ((f.module, f.op) ∈ [("add", "+"), ("sub", "-"), ("mul", "*"), ("div", "/"), ("rem", "%")])

theorem forms_correct : ∀ f ∈ scalarForms, f.ok = true := by decide

def the14 : List String := ["u8", "u16", "u32", "u64", "u128", "usize", "i8", "i16", "i32", "i64", "i128", "isize", "f32", "f64"]

theorem forms_complete :
    primTypes_add = the14 ∧ primTypes_sub = the14 ∧ primTypes_mul = the14 ∧ primTypes_div = the14 ∧ primTypes_rem = the14 ∧
    -- per operator: matrix∘scalar and scalar∘matrix, owned and borrowed matrix, 4 element/scalar reference forms each, + 2 assign forms
    ∀ m ∈ ["add", "sub", "mul", "div", "rem"],
      ((scalarForms.filter fun f => f.module == m && !f.assign).map fun f => (f.matrixOnLeft, f.matrixOwned, f.nElemForms))
        = [(true, true, 4), (true, false, 4), (false, true, 4), (false, false, 4)] ∧
      (scalarForms.filter fun f => f.module == m && f.assign).length = 2 := by decide
