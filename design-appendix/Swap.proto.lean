/-
Prototype (C10): `swap_major_axis_vectors` (ptr::swap_nonoverlapping on two contiguous vectors)
and `swap_minor_axis_vectors` (strided loop of ptr::swap) — src/swap.rs:96-129 — with the
unchecked primitives as fault-returning operations, including the REPAIRED early return for
`m == n` and the refutation of the pinned behaviour.
-/
namespace Swp

inductive Fault where
  | ub (s : String)
  deriving Repr, DecidableEq

inductive Error | indexOutOfBounds deriving Repr, DecidableEq

variable {α : Type}

/-- `ptr::swap(base.add i, base.add j)` (overlap allowed) -/
def ptrSwap (d : Array α) (i j : Nat) : Except Fault (Array α) :=
  if h : i < d.size ∧ j < d.size then .ok (d.swap i j h.1 h.2) else .error (.ub "ptr::swap out of bounds")

/-- `ptr::swap_nonoverlapping(base.add i, base.add j, n)` for elements of `es` bytes:
UB if either range leaves the buffer, or if the ranges overlap while `n * es > 0` -/
def swapNonoverlapping (es : Nat) (d : Array α) (i j n : Nat) : Except Fault (Array α) :=
  if ¬ (i + n ≤ d.size ∧ j + n ≤ d.size) then .error (.ub "swap_nonoverlapping out of bounds")
  else if n * es ≠ 0 ∧ (i < j + n ∧ j < i + n) then .error (.ub "swap_nonoverlapping: ranges overlap")
  else .ok (Array.ofFn fun (k : Fin d.size) =>
    if i ≤ k.val ∧ k.val < i + n then d[j + (k.val - i)]?.getD d[k]
    else if j ≤ k.val ∧ k.val < j + n then d[i + (k.val - j)]?.getD d[k] else d[k])

structure AxisShape where
  major : Nat
  minor : Nat

/-- as on the pinned tree -/
def swapMajorPinned (es : Nat) (sh : AxisShape) (d : Array α) (m n : Nat) : Except Error Unit × Except Fault (Array α) :=
  if m ≥ sh.major ∨ n ≥ sh.major then (.error .indexOutOfBounds, .ok d)
  else (.ok (), swapNonoverlapping es d (m * sh.minor) (n * sh.minor) sh.minor)

/-- with the planned repair -/
def swapMajor (es : Nat) (sh : AxisShape) (d : Array α) (m n : Nat) : Except Error Unit × Except Fault (Array α) :=
  if m ≥ sh.major ∨ n ≥ sh.major then (.error .indexOutOfBounds, .ok d)
  else if m = n then (.ok (), .ok d)
  else (.ok (), swapNonoverlapping es d (m * sh.minor) (n * sh.minor) sh.minor)

theorem row_le {M m i : Nat} (hi : i < M) : i * m + m ≤ M * m := by
  calc i * m + m = (i + 1) * m := by rw [Nat.add_mul]; simp
    _ ≤ M * m := Nat.mul_le_mul_right _ hi

/-- C10 (contiguous axis, repaired): for every valid pair, equal or not, no UB; the two vectors
are exchanged element by element and everything else stays; invalid index ⇒ error, unchanged. -/
theorem swapMajor_spec (es : Nat) (sh : AxisShape) (d : Array α) (hd : sh.major * sh.minor = d.size) (m n : Nat) :
    (m < sh.major ∧ n < sh.major →
      ∃ d', swapMajor es sh d m n = (.ok (), .ok d') ∧ d'.size = d.size ∧
        ∀ r c, r < sh.major → c < sh.minor →
          d'[r * sh.minor + c]? = d[(if r = m then n else if r = n then m else r) * sh.minor + c]?) ∧
    (¬ (m < sh.major ∧ n < sh.major) → swapMajor es sh d m n = (.error .indexOutOfBounds, .ok d)) := by
  constructor
  · rintro ⟨hm, hn⟩
    have hb : ¬ (m ≥ sh.major ∨ n ≥ sh.major) := by omega
    by_cases hmn : m = n
    · subst hmn
      refine ⟨d, by unfold swapMajor; rw [if_neg hb, if_pos rfl], rfl, ?_⟩
      intro r c _ _
      by_cases hr : r = m <;> simp [hr]
    · have hmU := row_le (m := sh.minor) hm
      have hnU := row_le (m := sh.minor) hn
      have hin : m * sh.minor + sh.minor ≤ d.size ∧ n * sh.minor + sh.minor ≤ d.size := by omega
      -- different rows never overlap
      have hdis : ¬ (m * sh.minor < n * sh.minor + sh.minor ∧ n * sh.minor < m * sh.minor + sh.minor) := by
        rintro ⟨h1, h2⟩
        rcases Nat.lt_or_gt_of_ne hmn with h | h
        · have : (m + 1) * sh.minor ≤ n * sh.minor := Nat.mul_le_mul_right _ h
          rw [Nat.add_mul] at this; omega
        · have : (n + 1) * sh.minor ≤ m * sh.minor := Nat.mul_le_mul_right _ h
          rw [Nat.add_mul] at this; omega
      refine ⟨_, by unfold swapMajor swapNonoverlapping
                    rw [if_neg hb, if_neg hmn, if_neg (fun h => h hin), if_neg (fun h => hdis h.2)], by simp, ?_⟩
      intro r c hr hc
      have hk : r * sh.minor + c < d.size := by
        rw [← hd]
        calc r * sh.minor + c < r * sh.minor + sh.minor := by omega
          _ ≤ sh.major * sh.minor := row_le hr
      rw [Array.getElem?_ofFn]
      simp only [hk, ↓reduceDIte]
      -- which window does position (r, c) fall into?
      have win : ∀ (i : Nat), (i * sh.minor ≤ r * sh.minor + c ∧ r * sh.minor + c < i * sh.minor + sh.minor) ↔ r = i := by
        intro i
        constructor
        · rintro ⟨h1, h2⟩
          rcases Nat.lt_trichotomy r i with h | h | h
          · have : (r + 1) * sh.minor ≤ i * sh.minor := Nat.mul_le_mul_right _ h
            rw [Nat.add_mul] at this; omega
          · exact h
          · have : (i + 1) * sh.minor ≤ r * sh.minor := Nat.mul_le_mul_right _ h
            rw [Nat.add_mul] at this; omega
        · rintro rfl; omega
      by_cases h1 : r = m
      · subst h1
        have w := (win r).mpr rfl
        simp only [w, and_self, ↓reduceIte]
        have e : n * sh.minor + (r * sh.minor + c - r * sh.minor) = n * sh.minor + c := by omega
        have hlt : n * sh.minor + c < d.size := by omega
        rw [e, Array.getElem?_eq_getElem hlt]; simp
      · have w1 : ¬ (m * sh.minor ≤ r * sh.minor + c ∧ r * sh.minor + c < m * sh.minor + sh.minor) :=
          fun h => h1 ((win m).mp h)
        simp only [w1, ↓reduceIte, h1]
        by_cases h2 : r = n
        · subst h2
          have w := (win r).mpr rfl
          simp only [w, and_self, ↓reduceIte]
          have e : m * sh.minor + (r * sh.minor + c - r * sh.minor) = m * sh.minor + c := by omega
          have hlt : m * sh.minor + c < d.size := by omega
          rw [e, Array.getElem?_eq_getElem hlt]; simp
        · have w2 : ¬ (n * sh.minor ≤ r * sh.minor + c ∧ r * sh.minor + c < n * sh.minor + sh.minor) :=
            fun h => h2 ((win n).mp h)
          simp only [w2, ↓reduceIte, h2]
          rw [Array.getElem?_eq_getElem hk]
          rfl
  · intro h
    have : m ≥ sh.major ∨ n ≥ sh.major := by omega
    simp [swapMajor, this]

/-- The pinned code is UB for `m = n` on a non-empty vector of sized elements
(witness: 2×3, 4-byte elements, `swap_rows(1, 1)`). -/
theorem swapMajorPinned_self_ub :
    (swapMajorPinned 4 ⟨2, 3⟩ #[1, 2, 3, 4, 5, 6] 1 1).2 = .error (.ub "swap_nonoverlapping: ranges overlap") := by
  rfl

/-- …while the repaired code returns the matrix unchanged on the same input. -/
example : (swapMajor 4 ⟨2, 3⟩ #[1, 2, 3, 4, 5, 6] 1 1) = (.ok (), .ok #[1, 2, 3, 4, 5, 6]) := by rfl
example : (swapMajor 4 ⟨2, 3⟩ #[1, 2, 3, 4, 5, 6] 0 1).2.map Array.toList = .ok [4, 5, 6, 1, 2, 3] := by rfl

end Swp
