import IterNth
/-
Prototype (C03): the OUTER iterator `IterVectorsMut` on top of IterNth.proto.lean, and the
composition: every inner iterator it hands out is a valid deque over its own vector, so the
addresses handed out by different inner iterators are pairwise distinct.
-/
namespace Proto.IterMut

structure Layout where
  axisStride : Nat
  vectorStride : Nat
  vectorLength : Nat
  deriving Repr

structure Vecs where
  lower : Nat
  upper : Nat
  layout : Option Layout
  deriving Repr

def Vecs.assemble (cfg : Cfg) (lower0 axisStride axisLength vectorStride vectorLength : Nat) : Except Fault Vecs :=
  match advance cfg lower0 (axisStride * (axisLength - 1)) with
  | .error e => .error e
  | .ok upper => .ok ⟨lower0, upper, some ⟨axisStride, vectorStride, vectorLength⟩⟩

def Vecs.next (cfg : Cfg) (it : Vecs) : Except Fault (Option Nth × Vecs) :=
  match it.layout with
  | none => .ok (none, it)
  | some L =>
    match Nth.assemble cfg it.lower L.vectorStride L.vectorLength with
    | .error e => .error e
    | .ok r =>
      if it.lower = it.upper then .ok (some r, { it with layout := none })
      else match advance cfg it.lower L.axisStride with
        | .error e => .error e
        | .ok l => .ok (some r, { it with lower := l })

def Vecs.len (cfg : Cfg) (it : Vecs) : Nat :=
  match it.layout with
  | none => 0
  | some L => 1 + (it.upper - it.lower) / (L.axisStride * if cfg.es = 0 then 1 else cfg.es)

/-- the whole matrix lies inside the buffer (sized) / the address space (zero-sized) -/
structure MValid (cfg : Cfg) (lower0 AS AL VS VL : Nat) : Prop where
  hAS : 0 < AS
  hAL : 0 < AL
  hVS : 0 < VS
  hVL : 0 < VL
  nz : cfg.es ≠ 0 → ∃ off0, lower0 = cfg.base + off0 * cfg.es ∧ off0 + (AL - 1) * AS + (VL - 1) * VS < cfg.len
  z : cfg.es = 0 → 0 < lower0 ∧ lower0 + (AL - 1) * AS + (VL - 1) * VS ≤ usizeMax

/-- the heads of the vectors form a valid "vector" of stride `AS` and length `AL` -/
theorem MValid.heads {cfg : Cfg} {lower0 AS AL VS VL : Nat} (h : MValid cfg lower0 AS AL VS VL) :
    Valid cfg lower0 AS AL := by
  refine ⟨h.hAS, h.hAL, ?_, ?_⟩
  · intro hz; obtain ⟨off0, h1, h2⟩ := h.nz hz; exact ⟨off0, h1, by omega⟩
  · intro hz; obtain ⟨h1, h2⟩ := h.z hz; exact ⟨h1, by omega⟩

/-- vector `k` is a valid vector starting at the `k`-th head -/
theorem MValid.vector {cfg : Cfg} {lower0 AS AL VS VL : Nat} (h : MValid cfg lower0 AS AL VS VL)
    (k : Nat) (hk : k < AL) : Valid cfg (A cfg lower0 AS k) VS VL := by
  have hle : k * AS ≤ (AL - 1) * AS := Nat.mul_le_mul_right _ (by omega)
  refine ⟨h.hVS, h.hVL, ?_, ?_⟩
  · intro hz
    obtain ⟨off0, h1, h2⟩ := h.nz hz
    refine ⟨off0 + k * AS, ?_, by omega⟩
    simp [A, hz, h1, Nat.add_mul, Nat.add_assoc]
  · intro hz
    obtain ⟨h1, h2⟩ := h.z hz
    simp only [A, hz, ↓reduceIte, Nat.mul_one]
    exact ⟨by omega, by omega⟩

/-- moving a cursor from position `t` to `t+1` inside a valid vector is a legal `add` -/
theorem advance_A (cfg : Cfg) (lower0 stride length : Nat) (hv : Valid cfg lower0 stride length)
    (t : Nat) (ht : t + 1 < length) :
    advance cfg (A cfg lower0 stride t) stride = .ok (A cfg lower0 stride (t + 1)) := by
  have hv' := hv
  obtain ⟨hs, hl, nz, z⟩ := hv
  unfold advance
  have hle := A_le cfg lower0 stride (t + 1) (length - 1) (by omega)
  have e := A_succ cfg lower0 stride t
  by_cases hz : cfg.es = 0
  · obtain ⟨_, h2⟩ := z hz
    simp only [hz, ↓reduceIte, Nat.mul_one] at e ⊢
    have : A cfg lower0 stride (length - 1) ≤ usizeMax := by simpa [A, hz] using h2
    have : A cfg lower0 stride t + stride ≤ usizeMax := by omega
    simp [this, e]
  · simp only [hz, ↓reduceIte] at e ⊢
    have hd := deref_A cfg lower0 stride length hv' (length - 1) (by omega)
    unfold deref at hd
    simp only [hz, ↓reduceIte] at hd
    split at hd
    · rename_i hh
      have : A cfg lower0 stride t + stride * cfg.es ≤ cfg.base + cfg.len * cfg.es := by omega
      simp [this, e]
    · cases hd

/-- refinement relation of the outer iterator: `F` vectors taken from the front, `B` from the back -/
def RV (cfg : Cfg) (lower0 AS AL VS VL : Nat) (it : Vecs) (F B : Nat) : Prop :=
  (F + B < AL ∧ it.layout = some ⟨AS, VS, VL⟩ ∧ it.lower = A cfg lower0 AS F ∧
      it.upper = A cfg lower0 AS (AL - 1 - B)) ∨
  (F + B = AL ∧ it.layout = none)

theorem vecs_assemble_RV (cfg : Cfg) (lower0 AS AL VS VL : Nat) (hv : MValid cfg lower0 AS AL VS VL) :
    ∃ it, Vecs.assemble cfg lower0 AS AL VS VL = .ok it ∧ RV cfg lower0 AS AL VS VL it 0 0 := by
  obtain ⟨nth, h1, h2⟩ := assemble_R cfg lower0 AS AL hv.heads
  -- `Nth.assemble` and `Vecs.assemble` compute the same `upper`
  unfold Nth.assemble at h1
  unfold Vecs.assemble
  rw [Nat.mul_comm AS (AL - 1)]
  split at h1
  · cases h1
  · rename_i upper hup
    simp only [hup]
    cases h1
    rcases h2 with ⟨hlt, _, hlo, hupper⟩ | ⟨heq, _⟩
    · exact ⟨_, rfl, Or.inl ⟨hlt, rfl, hlo, hupper⟩⟩
    · have := hv.hAL; omega

/-- one `next()` of the outer iterator: hands out a fresh inner iterator that is a valid, untouched
deque over vector `F`, and moves on to `F + 1`; no fault. -/
theorem vecs_next_refines (cfg : Cfg) (lower0 AS AL VS VL : Nat) (hv : MValid cfg lower0 AS AL VS VL)
    (it : Vecs) (F B : Nat) (hR : RV cfg lower0 AS AL VS VL it F B) :
    (F + B < AL → ∃ nth it', Vecs.next cfg it = .ok (some nth, it') ∧
        RV cfg lower0 AS AL VS VL it' (F + 1) B ∧
        R cfg (A cfg lower0 AS F) VS VL nth 0 0) ∧
    (F + B = AL → Vecs.next cfg it = .ok (none, it)) := by
  constructor
  · intro hlt
    rcases hR with ⟨_, hlay, hlo, hup⟩ | ⟨h, _⟩
    · obtain ⟨nth, hn1, hn2⟩ := assemble_R cfg (A cfg lower0 AS F) VS VL (hv.vector F (by omega))
      unfold Vecs.next
      simp only [hlay, hlo, hn1, hup, A_mono cfg lower0 AS hv.hAS]
      by_cases hlast : F = AL - 1 - B
      · simp only [hlast, ↓reduceIte]
        refine ⟨nth, _, rfl, Or.inr ⟨by omega, rfl⟩, ?_⟩
        rw [← hlast]; exact hn2
      · simp only [hlast, ↓reduceIte, advance_A cfg lower0 AS AL hv.heads F (by omega)]
        exact ⟨nth, _, rfl, Or.inl ⟨by omega, rfl, rfl, rfl⟩, hn2⟩
    · omega
  · intro heq
    rcases hR with ⟨h, _⟩ | ⟨_, hlay⟩
    · omega
    · unfold Vecs.next; simp [hlay]

theorem vecs_len_refines (cfg : Cfg) (lower0 AS AL VS VL : Nat) (hv : MValid cfg lower0 AS AL VS VL)
    (it : Vecs) (F B : Nat) (hR : RV cfg lower0 AS AL VS VL it F B) : Vecs.len cfg it = AL - F - B := by
  rcases hR with ⟨h, hlay, hlo, hup⟩ | ⟨h, hlay⟩
  · have := len_refines cfg lower0 AS AL hv.heads ⟨A cfg lower0 AS F, A cfg lower0 AS (AL - 1 - B), some AS⟩ F B
      (Or.inl ⟨h, rfl, rfl, rfl⟩)
    simpa [Vecs.len, Nth.len, hlay, hlo, hup] using this
  · simp [Vecs.len, hlay]; omega

/-- distinct (vector, position) pairs have distinct addresses: the element handed out for
position `t` of vector `k` is at flat offset `k·AS + t·VS` from the first one -/
theorem addr_eq (cfg : Cfg) (lower0 AS VS k t : Nat) :
    A cfg (A cfg lower0 AS k) VS t = lower0 + (k * AS + t * VS) * (if cfg.es = 0 then 1 else cfg.es) := by
  simp [A, Nat.add_mul, Nat.add_assoc]

theorem flat_inj' {m i j i' j' : Nat} (hj : j < m) (hj' : j' < m) (h : i * m + j = i' * m + j') : i = i' ∧ j = j' := by
  have hm : 0 < m := by omega
  have d1 : (i * m + j) / m = i := by rw [Nat.mul_comm, Nat.mul_add_div hm, Nat.div_eq_of_lt hj]; simp
  have d2 : (i' * m + j') / m = i' := by rw [Nat.mul_comm, Nat.mul_add_div hm, Nat.div_eq_of_lt hj']; simp
  have m1 : (i * m + j) % m = j := by rw [Nat.mul_comm, Nat.mul_add_mod, Nat.mod_eq_of_lt hj]
  have m2 : (i' * m + j') % m = j' := by rw [Nat.mul_comm, Nat.mul_add_mod, Nat.mod_eq_of_lt hj']
  rw [h] at d1 m1
  exact ⟨by omega, by omega⟩

/-- The two ways the crate instantiates the strides (over the major axis: `AS = VL, VS = 1`; over
the minor axis: `AS = 1, VS = AL`) make `(vector, position) ↦ element offset` injective. -/
theorem offset_inj {AS AL VS VL k t k' t' : Nat}
    (hlay : (AS = VL ∧ VS = 1) ∨ (AS = 1 ∧ VS = AL))
    (hk : k < AL) (ht : t < VL) (hk' : k' < AL) (ht' : t' < VL)
    (h : k * AS + t * VS = k' * AS + t' * VS) : k = k' ∧ t = t' := by
  rcases hlay with ⟨rfl, rfl⟩ | ⟨rfl, rfl⟩
  · simp only [Nat.mul_one] at h
    exact flat_inj' ht ht' h
  · simp only [Nat.mul_one] at h
    have := flat_inj' (m := VS) (i := t) (j := k) (i' := t') (j' := k') hk hk' (by omega)
    exact ⟨this.2, this.1⟩

/-- C03 (no aliasing): for sized elements, the references handed out for two different
(vector, position) pairs — by whichever inner iterators, in whatever order — are different. -/
theorem yielded_distinct (cfg : Cfg) (lower0 AS AL VS VL : Nat) (hes : cfg.es ≠ 0)
    (hlay : (AS = VL ∧ VS = 1) ∨ (AS = 1 ∧ VS = AL))
    {k t k' t' : Nat} (hk : k < AL) (ht : t < VL) (hk' : k' < AL) (ht' : t' < VL)
    (h : Y cfg (A cfg lower0 AS k) VS t = Y cfg (A cfg lower0 AS k') VS t') : k = k' ∧ t = t' := by
  simp only [Y, hes, ↓reduceIte, addr_eq] at h
  have hpos : 0 < cfg.es := Nat.pos_of_ne_zero hes
  have : k * AS + t * VS = k' * AS + t' * VS := Nat.eq_of_mul_eq_mul_right hpos (by omega)
  exact offset_inj hlay hk ht hk' ht' this

end Proto.IterMut
