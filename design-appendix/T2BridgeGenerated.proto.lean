import GenCore
open T2

/-- checked ops reduce when their side condition holds (the uniform script) -/
theorem umul_ok {a b : Nat} (h : a * b ≤ usizeMax) : umul a b = .ok (a * b) := by simp [umul, h]
theorem uadd_ok {a b : Nat} (h : a + b ≤ usizeMax) : uadd a b = .ok (a + b) := by simp [uadd, h]
theorem udiv_ok {a b : Nat} (h : b ≠ 0) : udiv a b = .ok (a / b) := by simp [udiv, h]
theorem urem_ok {a b : Nat} (h : b ≠ 0) : urem a b = .ok (a % b) := by simp [urem, h]
theorem usub_ok {a b : Nat} (h : b ≤ a) : usub a b = .ok (a - b) := by simp [usub, h]

theorem bridge_to_flattened (i : AxisIndex) (s : AxisShape) (h : i.major * s.minor + i.minor ≤ usizeMax) :
    Gen.AxisIndex.to_flattened i s = .ok (i.major * s.minor + i.minor) := by
  have h1 : i.major * s.minor ≤ usizeMax := by omega
  have h2 : i.minor * 1 ≤ usizeMax := by omega
  simp [Gen.AxisIndex.to_flattened, Gen.AxisShape.major_stride, Gen.AxisShape.minor_stride,
    umul_ok h1, umul_ok h2, uadd_ok h, bind, Except.bind, pure, Except.pure]

theorem bridge_from_flattened (k : Nat) (s : AxisShape) (h : s.minor ≠ 0) :
    Gen.AxisIndex.from_flattened k s = .ok { major := k / s.minor, minor := k % s.minor } := by
  simp [Gen.AxisIndex.from_flattened, Gen.AxisShape.major_stride, Gen.AxisShape.minor_stride,
    udiv_ok h, urem_ok h, udiv_ok (by omega : (1 : Nat) ≠ 0), bind, Except.bind, pure, Except.pure]

/-- C08: the capacity decision, for every size and element size -/
theorem bridge_check_size (es size : Nat) :
    Gen.Matrix.check_size es size =
      .ok (if es * size > isizeMax then .error .capacityOverflow else .ok size) := by
  simp only [Gen.Matrix.check_size, saturatingMul, bind, Except.bind, pure, Except.pure]
  have : (min (es * size) usizeMax > isizeMax) ↔ (es * size > isizeMax) := by
    simp only [usizeMax, isizeMax]; omega
  by_cases h : es * size > isizeMax <;> simp [h, this]

theorem wrap_neg (a n : Nat) (hn : 0 < n) : (((n - a % n) % n : Nat) : Int) = (-(a : Int)) % (n : Int) := by
  have hlt : a % n < n := Nat.mod_lt _ hn
  have key : (-(a : Int)) = ((n - a % n : Nat) : Int) + (n : Int) * (-((a / n : Nat) : Int) - 1) := by
    have := Nat.div_add_mod a n
    have h1 : ((n - a % n : Nat) : Int) = (n : Int) - ((a % n : Nat) : Int) := by omega
    rw [h1]
    have h2 : (a : Int) = (n : Int) * ((a / n : Nat) : Int) + ((a % n : Nat) : Int) := by exact_mod_cast this.symm
    rw [Int.mul_sub, Int.mul_neg, Int.mul_one]; omega
  rw [key, Int.add_mul_emod_self_left]; exact_mod_cast rfl

def wrapSpec (x : Int) (n : Nat) : Nat := (x % (n : Int)).toNat

theorem one_axis (x : Int) (n : Nat) (hn : 0 < n) :
    (if (decide (x < 0)) then (do let t1 ← urem (Int.natAbs x) n; let t2 ← usub n t1; let t3 ← urem t2 n; pure t3)
      else (do let t4 ← urem (castUsize x) n; pure t4)) = (.ok (wrapSpec x n) : M Nat) := by
  have hne : n ≠ 0 := by omega
  by_cases hx : x < 0
  · have hle : x.natAbs % n ≤ n := Nat.le_of_lt (Nat.mod_lt _ hn)
    simp only [hx, decide_true, ↓reduceIte, urem_ok hne, usub_ok hle, bind, Except.bind, pure, Except.pure]
    congr 1
    have := wrap_neg x.natAbs n hn
    have hx' : (-(x.natAbs : Int)) = x := by omega
    rw [hx'] at this
    unfold wrapSpec; rw [← this]; omega
  · have hc : castUsize x = x.toNat := by simp [castUsize, hx]
    simp only [hx, decide_false, Bool.false_eq_true, ↓reduceIte, urem_ok hne, hc, bind, Except.bind, pure, Except.pure]
    congr 1
    unfold wrapSpec
    have : x = (x.toNat : Int) := by omega
    have h2 : x % (n : Int) = ((x.toNat % n : Nat) : Int) := by
      conv => lhs; rw [this]
      norm_cast
    rw [h2]; omega

/-- C13 arithmetic, about the GENERATED function: Euclidean remainder on both axes -/
theorem bridge_from_wrapping (index : WrappingIndex) (order : Order) (shape : AxisShape)
    (hM : 0 < shape.major) (hm : 0 < shape.minor) :
    Gen.AxisIndex.from_wrapping_index index order shape =
      .ok (match order with
        | .rowMajor => { major := wrapSpec index.row shape.major, minor := wrapSpec index.col shape.minor }
        | .colMajor => { major := wrapSpec index.col shape.major, minor := wrapSpec index.row shape.minor }) := by
  have a1 := one_axis index.row shape.major hM
  have a2 := one_axis index.col shape.minor hm
  have a3 := one_axis index.col shape.major hM
  have a4 := one_axis index.row shape.minor hm
  unfold Gen.AxisIndex.from_wrapping_index
  simp only [bind, Except.bind, pure, Except.pure] at a1 a2 a3 a4 ⊢
  cases order
  · simp only [a1, a2]
  · simp only [a3, a4]
