/-
Prototype of the foundation: flat index arithmetic, Matrix, at?, Coh, abs, extensionality,
and the cross-order remap used by `eq` / elementwise operations.
-/
namespace Fnd

/-! ### arithmetic -/

theorem flat_lt {M m i j : Nat} (hi : i < M) (hj : j < m) : i * m + j < M * m := by
  calc i * m + j < i * m + m := by omega
    _ = (i + 1) * m := by rw [Nat.add_mul]; simp
    _ ≤ M * m := Nat.mul_le_mul_right _ hi

theorem flat_div {m i j : Nat} (hj : j < m) : (i * m + j) / m = i := by
  rw [Nat.mul_comm, Nat.mul_add_div (by omega), Nat.div_eq_of_lt hj]; simp

theorem flat_mod {m i j : Nat} (hj : j < m) : (i * m + j) % m = j := by
  rw [Nat.mul_comm, Nat.mul_add_mod, Nat.mod_eq_of_lt hj]

theorem flat_inj {m i j i' j' : Nat} (hj : j < m) (hj' : j' < m)
    (h : i * m + j = i' * m + j') : i = i' ∧ j = j' := by
  have h1 := flat_div (i := i) hj
  have h2 := flat_div (i := i') hj'
  have h3 := flat_mod (i := i) hj
  have h4 := flat_mod (i := i') hj'
  rw [h] at h1 h3
  exact ⟨by omega, by omega⟩

theorem unflat_lt {M m x : Nat} (hx : x < M * m) : x / m < M ∧ x % m < m := by
  have hm : 0 < m := by
    rcases Nat.eq_zero_or_pos m with h | h
    · subst h; simp at hx
    · exact h
  exact ⟨Nat.div_lt_of_lt_mul (by rw [Nat.mul_comm]; exact hx), Nat.mod_lt _ hm⟩

theorem flat_unflat (m x : Nat) : (x / m) * m + x % m = x := by
  rw [Nat.mul_comm]; exact Nat.div_add_mod x m

/-! ### matrix -/

inductive Order | rowMajor | colMajor deriving Repr, DecidableEq

structure AxisShape where
  major : Nat
  minor : Nat
  deriving Repr, DecidableEq

structure Matrix (α : Type) where
  order : Order
  shape : AxisShape
  data : Array α

variable {α : Type}

def Matrix.nrows (m : Matrix α) : Nat := match m.order with | .rowMajor => m.shape.major | .colMajor => m.shape.minor
def Matrix.ncols (m : Matrix α) : Nat := match m.order with | .rowMajor => m.shape.minor | .colMajor => m.shape.major

/-- flat offset of logical `(r, c)` -/
def Matrix.idx (m : Matrix α) (r c : Nat) : Nat :=
  match m.order with
  | .rowMajor => r * m.shape.minor + c
  | .colMajor => c * m.shape.minor + r

def Matrix.at? (m : Matrix α) (r c : Nat) : Option α :=
  if r < m.nrows ∧ c < m.ncols then m.data[m.idx r c]? else none

structure Matrix.Coh (m : Matrix α) : Prop where
  size_eq : m.shape.major * m.shape.minor = m.data.size

theorem Matrix.idx_lt (m : Matrix α) (h : m.Coh) {r c : Nat} (hr : r < m.nrows) (hc : c < m.ncols) :
    m.idx r c < m.data.size := by
  rw [← h.size_eq]
  unfold Matrix.idx Matrix.nrows Matrix.ncols at *
  cases ho : m.order <;> simp only [ho] at hr hc ⊢
  · exact flat_lt hr hc
  · exact flat_lt hc hr

theorem Matrix.idx_inj (m : Matrix α) {r c r' c' : Nat} (hr : r < m.nrows) (hc : c < m.ncols)
    (hr' : r' < m.nrows) (hc' : c' < m.ncols) (h : m.idx r c = m.idx r' c') : r = r' ∧ c = c' := by
  unfold Matrix.idx Matrix.nrows Matrix.ncols at *
  cases ho : m.order <;> simp only [ho] at hr hc hr' hc' h
  · exact flat_inj hc hc' h
  · have := flat_inj hr hr' h; exact ⟨this.2, this.1⟩

theorem Matrix.at?_isSome (m : Matrix α) (h : m.Coh) {r c : Nat} (hr : r < m.nrows) (hc : c < m.ncols) :
    ∃ x, m.at? r c = some x := by
  have := m.idx_lt h hr hc
  exact ⟨m.data[m.idx r c], by simp [Matrix.at?, hr, hc, this]⟩

/-- logical view -/
structure Rows (β : Type) where
  nrows : Nat
  ncols : Nat
  rows : List (List β)
  deriving Repr, DecidableEq

def Matrix.abs (m : Matrix α) : Rows (Option α) :=
  { nrows := m.nrows, ncols := m.ncols,
    rows := (List.range m.nrows).map fun r => (List.range m.ncols).map fun c => m.at? r c }

theorem Matrix.abs_ext (m m' : Matrix α) (hr : m.nrows = m'.nrows) (hc : m.ncols = m'.ncols)
    (h : ∀ r c, r < m.nrows → c < m.ncols → m.at? r c = m'.at? r c) : m.abs = m'.abs := by
  unfold Matrix.abs
  rw [← hr, ← hc]
  congr 1
  apply List.map_congr_left
  intro r hr'
  apply List.map_congr_left
  intro c hc'
  exact h r c (List.mem_range.mp hr') (List.mem_range.mp hc')

/-! ### the cross-order remap of `eq.rs` / `arithmetic.rs`
`AxisIndex::from_flattened(k, self.shape).swap().to_flattened(other.shape)` -/

def remap (selfShape otherShape : AxisShape) (k : Nat) : Nat :=
  (k % selfShape.minor) * otherShape.minor + k / selfShape.minor

/-- For operands of different orders with equal logical shapes, position `k` of `a` and position
`remap k` of `b` are the same logical coordinate, and `remap k` is in bounds. -/
theorem remap_spec (a b : Matrix α) (ha : a.Coh) (hb : b.Coh) (ho : a.order ≠ b.order)
    (hM : a.shape.major = b.shape.minor) (hm : a.shape.minor = b.shape.major)
    (k : Nat) (hk : k < a.data.size) :
    ∃ r c, r < a.nrows ∧ c < a.ncols ∧ r < b.nrows ∧ c < b.ncols ∧
      a.idx r c = k ∧ b.idx r c = remap a.shape b.shape k ∧ remap a.shape b.shape k < b.data.size := by
  rw [← ha.size_eq] at hk
  obtain ⟨h1, h2⟩ := unflat_lt hk
  have hfu := flat_unflat a.shape.minor k
  have hb' : remap a.shape b.shape k < b.data.size := by
    rw [← hb.size_eq]; unfold remap
    exact flat_lt (by omega) (by omega)
  cases hoa : a.order <;> cases hob : b.order
  · exact absurd (hoa.trans hob.symm) ho
  · -- a row-major, b col-major: r = k / minor, c = k % minor
    refine ⟨k / a.shape.minor, k % a.shape.minor, ?_⟩
    simp only [Matrix.nrows, Matrix.ncols, Matrix.idx, hoa, hob]
    exact ⟨h1, h2, by omega, by omega, hfu, rfl, hb'⟩
  · -- a col-major, b row-major: c = k / minor, r = k % minor
    refine ⟨k % a.shape.minor, k / a.shape.minor, ?_⟩
    simp only [Matrix.nrows, Matrix.ncols, Matrix.idx, hoa, hob]
    exact ⟨h2, h1, by omega, by omega, hfu, rfl, hb'⟩
  · exact absurd (hoa.trans hob.symm) ho

end Fnd
