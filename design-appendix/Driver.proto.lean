-- Prototype of the line-protocol driver (design appendix; not part of any check).
-- In the scratch project it imported the module that is now Transpose.proto.lean (`import Proto.Transpose`)
-- and was built with `[[lean_exe]] name = "driver" root = "Main"`.
import Proto.Transpose
open Proto
def step (line : String) : String :=
  match line.trimAscii.toString.splitOn " " with
  | "transpose" :: maj :: min :: rest =>
    match maj.toNat?, min.toNat? with
    | some a, some b =>
      let d := (rest.filterMap String.toNat?).toArray
      match permuteInPlace (tperm a b) d with
      | .ok d' => s!"ok {d'.toList}"
      | .error e => s!"fault {repr e}"
    | _, _ => "bad-op"
  | _ => "bad-op"
partial def loop (h : IO.FS.Stream) : IO Unit := do
  let line ← h.getLine
  if line.isEmpty then return ()
  IO.println (step line)
  loop h
def main : IO Unit := do loop (← IO.getStdin)
