/-
Prototype: fault schedules and unwinding for `Matrix::resize` (src/lib.rs:487-497).
World = (callback counter, matrix state, ledger); a callback panics when the schedule says so.
-/
namespace Eff

structure AxisShape where
  major : Nat
  minor : Nat
  deriving Repr, DecidableEq

structure Mat (α : Type) where
  shape : AxisShape
  data : List α          -- memory order
  deriving Repr

def Mat.Coh (m : Mat α) : Prop := m.shape.major * m.shape.minor = m.data.length

instance (m : Mat α) : Decidable m.Coh := by unfold Mat.Coh; infer_instance

/-- the part of the world that survives an unwind -/
structure World (α : Type) where
  tick : Nat             -- number of user callbacks made so far
  mat : Mat α
  dropped : List α       -- drop ledger
  deriving Repr

inductive Outcome where
  | done
  | unwound            -- a user callback panicked; the unwind was caught by the client
  | aborted            -- panic while panicking
  deriving Repr, DecidableEq

/-- `Vec::truncate(n)`: the length is set first, then the tail is dropped in order; a panicking
`Drop` does not stop the remaining drops (second panic = abort). `dropPanics k` says whether
the callback number `k` (a `Drop::drop` call) panics. -/
def dropTail (φ : Nat → Bool) : List α → Nat → List α → Bool → (Nat × List α × Outcome)
  | [], tick, dropped, panicked => (tick, dropped, if panicked then .unwound else .done)
  | x :: xs, tick, dropped, panicked =>
    if φ tick then
      if panicked then (tick + 1, dropped ++ [x], .aborted)
      else dropTail φ xs (tick + 1) (dropped ++ [x]) true
    else dropTail φ xs (tick + 1) (dropped ++ [x]) panicked

def truncate (φ : Nat → Bool) (n : Nat) (w : World α) : World α × Outcome :=
  let keep := w.mat.data.take n
  let tail := w.mat.data.drop n
  let (tick, dropped, out) := dropTail φ tail w.tick w.dropped false
  ({ tick := tick, mat := { w.mat with data := keep }, dropped := dropped }, out)

/-- `Vec::resize_with(n, f)` growing part: push `f()` until the length is `n`; if `f` panics the
length reflects the pushes completed so far (SetLenOnDrop). -/
def growWith (φ : Nat → Bool) (mk : Nat → α) : Nat → World α → World α × Outcome
  | 0, w => (w, .done)
  | k + 1, w =>
    if φ w.tick then ({ w with tick := w.tick + 1 }, .unwound)
    else growWith φ mk k { w with tick := w.tick + 1, mat := { w.mat with data := w.mat.data ++ [mk w.tick] } }

/-- `resize` as on the pinned tree: shape first, then `resize_with`. -/
def resizePinned (φ : Nat → Bool) (mk : Nat → α) (shape : AxisShape) (w : World α) : World α × Outcome :=
  let size := shape.major * shape.minor
  let w := { w with mat := { w.mat with shape := shape } }
  if size ≤ w.mat.data.length then truncate φ size w
  else growWith φ mk (size - w.mat.data.length) w

/-- `resize` as repaired: shrink = shape then truncate; grow = fill, then shape; on unwind the
guard truncates back to the old length (which may itself run `Drop`s). -/
def resizeFixed (φ : Nat → Bool) (mk : Nat → α) (shape : AxisShape) (w : World α) : World α × Outcome :=
  let size := shape.major * shape.minor
  let old := w.mat.data.length
  if size ≤ old then truncate φ size { w with mat := { w.mat with shape := shape } }
  else
    match growWith φ mk (size - old) w with
    | (w', .done) => ({ w' with mat := { w'.mat with shape := shape } }, .done)
    | (w', _) =>
      -- Guard::drop during unwinding: truncate(old); a panic in there is a second panic
      match truncate φ old w' with
      | (w'', .done) => (w'', .unwound)
      | (w'', _) => (w'', .aborted)

/-! ### theorems -/

theorem dropTail_out (φ : Nat → Bool) (xs : List α) (t : Nat) (d : List α) (p : Bool) :
    (dropTail φ xs t d p).2.2 = .done → p = false := by
  induction xs generalizing t d p with
  | nil => simp only [dropTail]; cases p <;> simp
  | cons x xs ih =>
    simp only [dropTail]
    split
    · split
      · simp
      · intro h; have := ih _ _ _ h; simp at this
    · exact ih _ _ _

theorem growWith_len (φ : Nat → Bool) (mk : Nat → α) (k : Nat) (w : World α) :
    (growWith φ mk k w).1.mat.shape = w.mat.shape ∧
    ((growWith φ mk k w).2 = .done → (growWith φ mk k w).1.mat.data.length = w.mat.data.length + k) ∧
    (growWith φ mk k w).2 ≠ .aborted ∧
    (growWith φ mk k w).1.mat.data.take w.mat.data.length = w.mat.data ∧
    w.mat.data.length ≤ (growWith φ mk k w).1.mat.data.length := by
  induction k generalizing w with
  | zero => simp [growWith]
  | succ k ih =>
    simp only [growWith]
    split
    · simp
    · obtain ⟨h1, h2, h3, h4, h5⟩ := ih { w with tick := w.tick + 1, mat := { w.mat with data := w.mat.data ++ [mk w.tick] } }
      refine ⟨by simpa using h1, ?_, h3, ?_, ?_⟩
      · intro h; have := h2 h; simp at this; omega
      · simp only [List.length_append, List.length_cons, List.length_nil] at h4 h5
        have : List.take w.mat.data.length
            (growWith φ mk k { w with tick := w.tick + 1, mat := { w.mat with data := w.mat.data ++ [mk w.tick] } }).1.mat.data
            = List.take w.mat.data.length (List.take (w.mat.data.length + 0 + 1) (growWith φ mk k { w with tick := w.tick + 1, mat := { w.mat with data := w.mat.data ++ [mk w.tick] } }).1.mat.data) := by
          rw [List.take_take]; congr 1; omega
        rw [this, h4]; simp
      · simp at h5; omega

/-- C02 for `resize`, repaired ordering: whatever callback panics (any schedule φ), the
surviving matrix is coherent. -/
theorem resizeFixed_coh (φ : Nat → Bool) (mk : Nat → α) (shape : AxisShape) (w : World α)
    (h : w.mat.Coh) : (resizeFixed φ mk shape w).2 ≠ .aborted → (resizeFixed φ mk shape w).1.mat.Coh := by
  unfold resizeFixed
  simp only
  split
  · -- shrink
    rename_i hle
    intro _
    simp only [truncate, Mat.Coh]
    simp [List.length_take, Nat.min_eq_left hle]
  · rename_i hgt
    obtain ⟨h1, h2, h3, h4, h5⟩ := growWith_len φ mk (shape.major * shape.minor - w.mat.data.length) w
    split
    next w' heq =>
      intro _
      have e1 : (growWith φ mk (shape.major * shape.minor - w.mat.data.length) w).2 = .done := by rw [heq]
      have e2 := h2 e1
      rw [heq] at e2
      simp only [Mat.Coh]; simp at e2 ⊢; omega
    next w' o hne heq =>
      have e5 : w.mat.data.length ≤ w'.mat.data.length := by rw [heq] at h5; exact h5
      have e1 : w'.mat.shape = w.mat.shape := by rw [heq] at h1; exact h1
      split
      next w'' heq2 =>
        intro _
        have : w''.mat = { w'.mat with data := w'.mat.data.take w.mat.data.length } := by
          have := congrArg Prod.fst heq2
          simp only [truncate] at this
          rw [← this]
        rw [this]
        simp only [Mat.Coh, e1, List.length_take, Nat.min_eq_left e5]
        exact h
      next => intro hab; exact absurd rfl hab

/-- The pinned ordering is *not* safe: witness 1×1 → 2×2 with the first `default()` panicking. -/
theorem resizePinned_incoherent :
    let w0 : World Nat := { tick := 0, mat := { shape := ⟨1, 1⟩, data := [7] }, dropped := [] }
    let r := resizePinned (fun k => k == 0) (fun _ => 0) ⟨2, 2⟩ w0
    w0.mat.Coh ∧ r.2 = .unwound ∧ ¬ r.1.mat.Coh ∧ r.1.mat.shape.major * r.1.mat.shape.minor > r.1.mat.data.length := by
  intro w0 r
  decide

end Eff
