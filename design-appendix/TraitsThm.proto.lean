import AutoTraits
open Matreex.Gen
/-
Prototype (C17, first half): a miniature of rustc's auto-trait rule applied to the table that
the translator re-reads from src/iter/iter_mut.rs on every run.
-/
/-- what is known about the element type `T` -/
structure Caps where
  send : Bool
  sync : Bool

/-- auto-trait status of one field given `T`'s: `NonNull<T>` is neither `Send` nor `Sync`;
`PhantomData<&mut T>` follows `&mut T` (`Send` iff `T: Send`, `Sync` iff `T: Sync`) -/
def fieldHas (T : Caps) : Auto → FieldKind → Bool
  | _, .nonNull => false
  | .send, .phantomMutRef => T.send
  | .sync, .phantomMutRef => T.sync
  | _, .plain => true

/-- a struct has the auto trait iff an explicit impl applies under its bounds, or — when there is
no explicit impl at all — every field has it -/
def has (T : Caps) (tr : Auto) (name : String) : Bool :=
  match autoImpls.filter (fun r => r.ty == name && r.trait == tr) with
  | [] => match iterStructs.find? (·.name == name) with
          | some s => s.fields.all (fieldHas T tr)
          | none => false
  | rows => rows.any fun r => (!r.needsSend || T.send) && (!r.needsSync || T.sync)

/-- C17: each iterator can be moved to another thread iff `T: Send` and shared iff `T: Sync`. -/
theorem send_sync_iff : ∀ (s y : Bool),
    has ⟨s, y⟩ .send "IterVectorsMut" = s ∧ has ⟨s, y⟩ .sync "IterVectorsMut" = y ∧
    has ⟨s, y⟩ .send "IterNthVectorMut" = s ∧ has ⟨s, y⟩ .sync "IterNthVectorMut" = y := by decide

/-- …and neither can be duplicated -/
theorem not_clone : ∀ s ∈ iterStructs, "Clone" ∉ s.derives ∧ "Copy" ∉ s.derives := by decide

/-- without the hand-written impls the raw pointers would (soundly but uselessly) forbid both -/
example : (iterStructs.find? (·.name == "IterVectorsMut")).map (fun s => s.fields.all (fieldHas ⟨true, true⟩ .send)) = some false := by decide
