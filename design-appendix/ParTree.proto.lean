/-
Prototype (C16): an indexed parallel iterator executed by an ARBITRARY split tree gives the same
enumerated result as the sequential iterator (rayon's `Producer::split_at` contract: the right
half's `enumerate` offset is the left half's length).
-/
namespace Par

variable {α β : Type}

/-- how the scheduler happened to split the index range -/
inductive Split where
  | leaf
  | node (mid : Nat) (l r : Split)

/-- sequential `iter().enumerate().map(f)` starting at global position `base` -/
def seqMapIdx (f : Nat → α → β) (base : Nat) : List α → List β
  | [] => []
  | x :: xs => f base x :: seqMapIdx f (base + 1) xs

/-- parallel execution along a split tree; results are concatenated in index order (`collect`) -/
def parMapIdx (f : Nat → α → β) : Split → Nat → List α → List β
  | .leaf, base, xs => seqMapIdx f base xs
  | .node mid l r, base, xs =>
    parMapIdx f l base (xs.take mid) ++ parMapIdx f r (base + (xs.take mid).length) (xs.drop mid)

theorem seqMapIdx_append (f : Nat → α → β) (base : Nat) (xs ys : List α) :
    seqMapIdx f base (xs ++ ys) = seqMapIdx f base xs ++ seqMapIdx f (base + xs.length) ys := by
  induction xs generalizing base with
  | nil => simp [seqMapIdx]
  | cons x xs ih => simp [seqMapIdx, ih, Nat.add_assoc, Nat.add_comm 1]

/-- C16: whatever the split tree (any thread-pool size, any work-stealing outcome), the result —
values and the indices passed to the closure — is the sequential one. -/
theorem parMapIdx_eq_seq (f : Nat → α → β) : ∀ (t : Split) (base : Nat) (xs : List α),
    parMapIdx f t base xs = seqMapIdx f base xs := by
  intro t
  induction t with
  | leaf => intro base xs; rfl
  | node mid l r ihl ihr =>
    intro base xs
    simp only [parMapIdx, ihl, ihr]
    rw [← seqMapIdx_append, List.take_append_drop]

example : parMapIdx (fun i (x : Nat) => (i, x * 10)) (.node 1 .leaf (.node 2 .leaf .leaf)) 0 [7, 8, 9, 10]
    = [(0, 70), (1, 80), (2, 90), (3, 100)] := by rfl

end Par
