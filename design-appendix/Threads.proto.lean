/-
Prototype (C16 / C17): threads that write to pairwise-disjoint address sets commute —
every program-order-preserving interleaving of their step lists yields the same final memory
as running the threads one after another, and logs the same steps (a permutation).
-/
namespace Thr

abbrev Addr := Nat

structure Step (V : Type) where
  addr : Addr
  f : V → V

abbrev Mem (V : Type) := Addr → V

def Step.run {V : Type} (s : Step V) (m : Mem V) : Mem V :=
  fun a => if a = s.addr then s.f (m a) else m a

def runAll {V : Type} (ss : List (Step V)) (m : Mem V) : Mem V := ss.foldl (fun m s => s.run m) m

/-- `l` is a shuffle of `xs` and `ys` preserving the order inside each -/
inductive Shuffle {S : Type} : List S → List S → List S → Prop
  | nil : Shuffle [] [] []
  | left {x xs ys l} : Shuffle xs ys l → Shuffle (x :: xs) ys (x :: l)
  | right {y xs ys l} : Shuffle xs ys l → Shuffle xs (y :: ys) (y :: l)

/-- `l` is an interleaving of all the threads in `ts`, preserving each thread's program order -/
inductive Interleave {S : Type} : List (List S) → List S → Prop
  | nil : Interleave [] []
  | cons {t ts l' l} : Interleave ts l' → Shuffle t l' l → Interleave (t :: ts) l

theorem Shuffle.nil_right {S : Type} {xs l : List S} (h : Shuffle xs [] l) : l = xs := by
  generalize hys : ([] : List S) = ys at h
  induction h with
  | nil => rfl
  | left _ ih => rw [ih hys]
  | right _ _ => cases hys

theorem Shuffle.nil_left {S : Type} {ys l : List S} (h : Shuffle [] ys l) : l = ys := by
  generalize hxs : ([] : List S) = xs at h
  induction h with
  | nil => rfl
  | left _ _ => cases hxs
  | right _ ih => rw [ih hxs]

theorem Shuffle.filter {S : Type} (p : S → Bool) {xs ys l : List S} (h : Shuffle xs ys l) :
    Shuffle (xs.filter p) (ys.filter p) (l.filter p) := by
  induction h with
  | nil => exact .nil
  | @left x xs ys l _ ih =>
    simp only [List.filter_cons]
    cases p x
    · exact ih
    · exact .left ih
  | @right y xs ys l _ ih =>
    simp only [List.filter_cons]
    cases p y
    · exact ih
    · exact .right ih

theorem Shuffle.perm {S : Type} {xs ys l : List S} (h : Shuffle xs ys l) : l.Perm (xs ++ ys) := by
  induction h with
  | nil => exact .refl _
  | left _ ih => exact .cons _ ih
  | @right y xs ys l _ ih =>
    exact (List.Perm.cons y ih).trans (List.perm_middle.symm)

theorem Interleave.perm {S : Type} {ts : List (List S)} {l : List S} (h : Interleave ts l) :
    l.Perm ts.flatten := by
  induction h with
  | nil => exact .refl _
  | cons _ hs ih =>
    simp only [List.flatten_cons]
    exact hs.perm.trans (List.Perm.append_left _ ih)

/-- the value at `a` after a run depends only on the steps addressed to `a`, in order -/
theorem runAll_at {V : Type} (ss : List (Step V)) (m : Mem V) (a : Addr) :
    runAll ss m a = (ss.filter (fun s => s.addr == a)).foldl (fun v s => s.f v) (m a) := by
  induction ss generalizing m with
  | nil => rfl
  | cons s ss ih =>
    simp only [runAll, List.foldl_cons, List.filter_cons] at ih ⊢
    rw [ih]
    by_cases h : s.addr = a
    · simp [h, Step.run]
    · have : (s.addr == a) = false := by simpa using h
      simp only [this, Step.run]
      have : ¬ a = s.addr := fun e => h e.symm
      simp [this]

/-- no address is written by two different threads -/
def DisjointThreads {V : Type} : List (List (Step V)) → Prop
  | [] => True
  | t :: ts => (∀ s ∈ t, ∀ u ∈ ts.flatten, s.addr ≠ u.addr) ∧ DisjointThreads ts

theorem interleave_filter {V : Type} (a : Addr) {ts : List (List (Step V))} {l : List (Step V)}
    (h : Interleave ts l) (hd : DisjointThreads ts) :
    l.filter (fun s => s.addr == a) = ts.flatten.filter (fun s => s.addr == a) := by
  induction h with
  | nil => rfl
  | @cons t ts l' l hi hs ih =>
    obtain ⟨hd1, hd2⟩ := hd
    have ih := ih hd2
    have hf := hs.filter (fun s => s.addr == a)
    simp only [List.flatten_cons, List.filter_append]
    by_cases hta : ∃ s ∈ t, s.addr = a
    · -- thread `t` owns `a`: nobody else writes it
      obtain ⟨s, hs1, hs2⟩ := hta
      have hnone : ts.flatten.filter (fun s => s.addr == a) = [] := by
        rw [List.filter_eq_nil_iff]
        intro u hu
        have := hd1 s hs1 u hu
        simp; intro e; exact this (hs2.trans e.symm)
      rw [ih, hnone] at hf
      rw [hnone, hf.nil_right]; simp
    · have hnone : t.filter (fun s => s.addr == a) = [] := by
        rw [List.filter_eq_nil_iff]
        intro u hu
        simp; intro e; exact hta ⟨u, hu, e⟩
      rw [hnone] at hf
      rw [hnone, hf.nil_left, ih]; simp

/-- **Main theorem**: with pairwise-disjoint write sets every interleaving ends in the same
memory as the sequential execution thread after thread. -/
theorem interleave_eq_seq {V : Type} {ts : List (List (Step V))} {l : List (Step V)}
    (h : Interleave ts l) (hd : DisjointThreads ts) (m : Mem V) :
    runAll l m = runAll ts.flatten m := by
  funext a
  rw [runAll_at, runAll_at, interleave_filter a h hd]

/-- non-vacuity: two threads, three steps, one genuine interleaving -/
example : Interleave [[(⟨0, (· + 1)⟩ : Step Nat), ⟨0, (· * 2)⟩], [⟨1, (· + 5)⟩]]
    [⟨0, (· + 1)⟩, ⟨1, (· + 5)⟩, ⟨0, (· * 2)⟩] :=
  .cons (.cons .nil (.left .nil)) (.left (.right (.left .nil)))

end Thr
