#!/usr/bin/env python3
"""Prototype of translator T2: a small, closed subset of Rust (loop-free pure integer functions of
matreex: index.rs / shape.rs / order.rs / lib.rs::check_size / arithmetic.rs predicates) -> Lean 4
definitions in a checked-arithmetic monad (`M = Except Fault`): `+ - *` panic on overflow,
`/ %` panic on a zero divisor (debug-build semantics).  Anything outside the subset is reported,
never guessed."""
import re, sys, json

class Untranslatable(Exception):
    pass

# ------------------------------------------------------------------ lexer
TOK = re.compile(r"""
    (?P<ws>\s+|//[^\n]*|/\*.*?\*/)
  | (?P<num>\d[\d_]*)
  | (?P<id>[A-Za-z_][A-Za-z0-9_]*)
  | (?P<op>::|->|=>|==|!=|>=|<=|&&|\|\||\.\.|[-+*/%<>=!&|.,;:(){}\[\]?'#])
""", re.X | re.S)

def lex(src):
    out, i = [], 0
    while i < len(src):
        m = TOK.match(src, i)
        if not m:
            raise Untranslatable(f"lexer: unexpected {src[i:i+20]!r}")
        i = m.end()
        if m.lastgroup != "ws":
            out.append((m.lastgroup, m.group(m.lastgroup)))
    return out

# ------------------------------------------------------------------ locate items
def find_fn(src, impl_hint, name):
    """text of `fn name(...) -> ... { ... }`; impl_hint (regex or None) narrows to one impl block"""
    start = 0
    if impl_hint:
        m = re.search(impl_hint, src)
        if not m:
            raise Untranslatable(f"impl block {impl_hint!r} not found")
        start = m.end()
    m = re.compile(r"fn\s+" + re.escape(name) + r"\s*(<[^>]*>)?\s*\(").search(src, start)
    if not m:
        raise Untranslatable(f"fn {name} not found")
    i = src.index("{", m.end())
    depth, j = 1, i + 1
    while depth:
        depth += (src[j] == "{") - (src[j] == "}")
        j += 1
    return src[m.start():j]

# ------------------------------------------------------------------ parser (Pratt)
class P:
    def __init__(self, toks):
        self.t, self.i = toks, 0
    def peek(self, k=0):
        return self.t[self.i + k] if self.i + k < len(self.t) else ("eof", "")
    def next(self):
        tok = self.peek(); self.i += 1; return tok
    def eat(self, v):
        if self.peek()[1] != v:
            raise Untranslatable(f"expected {v!r}, got {self.peek()[1]!r}")
        self.i += 1
    def at(self, v):
        return self.peek()[1] == v

    # fn name<..>(params) -> ret { block }
    def fn(self):
        self.eat("fn"); name = self.next()[1]
        if self.at("<"):
            while not self.at(">"): self.next()
            self.eat(">")
        self.eat("("); params = []
        while not self.at(")"):
            if self.at("&"): self.next()
            if self.at("mut"): self.next()
            pname = self.next()[1]
            ty = None
            if self.at(":"):
                self.eat(":"); ty = self.ty()
            params.append((pname, ty))
            if self.at(","): self.next()
        self.eat(")")
        ret = None
        if self.at("->"):
            self.eat("->"); ret = self.ty()
        body = self.block()
        return {"name": name, "params": params, "ret": ret, "body": body}

    def ty(self):
        if self.at("&"):
            self.next()
            if self.at("mut"): self.next()
            return self.ty()
        if self.at("("):
            self.eat("("); xs = []
            while not self.at(")"):
                xs.append(self.ty())
                if self.at(","): self.next()
            self.eat(")"); return ("tuple", xs)
        name = self.next()[1]
        while self.at("::"):
            self.next(); name = self.next()[1]
        args = []
        if self.at("<"):
            self.eat("<")
            while not self.at(">"):
                args.append(self.ty())
                if self.at(","): self.next()
            self.eat(">")
        return ("ty", name, args)

    def block(self):
        self.eat("{"); stmts = []; tail = None
        while not self.at("}"):
            if self.at("let"):
                self.next(); pat = self.pat()
                if self.at(":"):
                    self.next(); self.ty()
                self.eat("="); e = self.expr(); self.eat(";")
                stmts.append(("let", pat, e))
            else:
                e = self.expr()
                if self.at(";"):
                    self.next(); stmts.append(("expr", e))
                else:
                    tail = e
        self.eat("}")
        return ("block", stmts, tail)

    def pat(self):
        if self.at("("):
            self.eat("("); xs = []
            while not self.at(")"):
                xs.append(self.pat())
                if self.at(","): self.next()
            self.eat(")"); return ("ptuple", xs)
        if self.at("mut"): self.next()
        return ("pvar", self.next()[1])

    PREC = {"||": 1, "&&": 2, "==": 3, "!=": 3, "<": 3, ">": 3, "<=": 3, ">=": 3,
            "+": 5, "-": 5, "*": 6, "/": 6, "%": 6}

    def expr(self, minp=0, nostruct=False):
        lhs = self.unary(nostruct)
        while True:
            k, v = self.peek()
            if v == "as":
                self.next(); lhs = ("cast", lhs, self.ty()); continue
            p = self.PREC.get(v)
            if k != "op" or p is None or p < minp: break
            self.next()
            rhs = self.expr(p + 1, nostruct)
            lhs = ("bin", v, lhs, rhs)
        return lhs

    def unary(self, nostruct):
        if self.at("-"): self.next(); return ("neg", self.unary(nostruct))
        if self.at("!"): self.next(); return ("not", self.unary(nostruct))
        if self.at("*"): self.next(); return self.unary(nostruct)          # deref: erased
        if self.at("&"):
            self.next()
            if self.at("mut"): self.next()
            return self.unary(nostruct)                                    # borrow: erased
        return self.postfix(self.atom(nostruct))

    def postfix(self, e):
        while True:
            if self.at("."):
                self.next(); name = self.next()[1]
                if self.at("("):
                    e = ("mcall", e, name, self.args())
                else:
                    e = ("field", e, name)
            elif self.at("?"):
                self.next(); e = ("try", e)
            else:
                return e

    def args(self):
        self.eat("("); xs = []
        while not self.at(")"):
            xs.append(self.expr())
            if self.at(","): self.next()
        self.eat(")"); return xs

    def atom(self, nostruct):
        k, v = self.peek()
        if k == "num": self.next(); return ("num", int(v.replace("_", "")))
        if v == "(":
            self.next(); xs = []
            while not self.at(")"):
                xs.append(self.expr())
                if self.at(","): self.next()
            self.eat(")")
            return xs[0] if len(xs) == 1 else ("tuple", xs)
        if v == "if":
            self.next(); c = self.expr(0, True); t = self.block()
            self.eat("else")
            f = ("block", [], self.atom(nostruct)) if self.at("if") else self.block()
            return ("if", c, t, f)
        if v == "match":
            self.next(); scrut = self.expr(0, True); self.eat("{"); arms = []
            while not self.at("}"):
                path = [self.next()[1]]
                while self.at("::"):
                    self.next(); path.append(self.next()[1])
                self.eat("=>"); arms.append((path, self.expr()))
                if self.at(","): self.next()
            self.eat("}")
            return ("match", scrut, arms)
        if v == "{":
            return self.block()
        if k == "id":
            path = [self.next()[1]]
            while self.at("::"):
                self.next()
                if self.at("<"):                       # turbofish, e.g. size_of::<T>()
                    self.next(); targs = []
                    while not self.at(">"):
                        targs.append(self.ty())
                        if self.at(","): self.next()
                    self.eat(">"); path.append(("targs", targs))
                else:
                    path.append(self.next()[1])
            if self.at("("):
                return ("call", path, self.args())
            if self.at("{") and not nostruct and path[-1][0].isupper():
                self.eat("{"); fields = []
                while not self.at("}"):
                    fname = self.next()[1]
                    if self.at(":"):
                        self.next(); fields.append((fname, self.expr()))
                    else:
                        fields.append((fname, ("path", [fname])))
                    if self.at(","): self.next()
                self.eat("}")
                return ("struct", path, fields)
            return ("path", path)
        raise Untranslatable(f"unexpected token {v!r}")

# ------------------------------------------------------------------ emitter
# what the translator knows about the crate's vocabulary (names only; bodies come from the source)
STRUCT_OF_SELF = {}            # filled per function
KNOWN_FNS = {                  # Rust path/method -> (lean name, is_monadic)
    "major_stride": ("AxisShape.major_stride", True), "minor_stride": ("AxisShape.minor_stride", True),
    "major": ("major", False), "minor": ("minor", False),
}

class Emit:
    def __init__(self, fnname, self_ty, table):
        self.n = 0; self.fnname = fnname; self.self_ty = self_ty; self.table = table
    def fresh(self):
        self.n += 1; return f"t{self.n}"

    # returns (list of "let x ← e" / "let x := e" lines, atom-string)
    def ex(self, e, lines):
        k = e[0]
        if k == "num": return str(e[1])
        if k == "path":
            p = e[1]
            if len(p) == 1: return "self_" if p[0] == "self" else p[0]
            if p[0] == "Order": return ".rowMajor" if p[1] == "RowMajor" else ".colMajor"
            if p[0] == "Error": return "Error." + p[1][0].lower() + p[1][1:]
            if p == ["isize", "MAX"]: return "isizeMax"
            if p == ["usize", "MAX"]: return "usizeMax"
            raise Untranslatable(f"path {'::'.join(map(str, p))}")
        if k == "field":
            return f"{self.ex(e[1], lines)}.{e[2]}"
        if k == "tuple":
            return "(" + ", ".join(self.ex(x, lines) for x in e[1]) + ")"
        if k == "struct":
            name = e[1][-1]
            if name == "Self": name = self.self_ty
            return "({ " + ", ".join(f"{f} := {self.ex(v, lines)}" for f, v in e[2]) + f" }} : {name})"
        if k == "cast":
            inner = self.ex(e[1], lines); ty = e[2][1]
            if ty == "usize":
                # `x as usize`: identity on usize constants, two's-complement reinterpretation on isize
                return inner if inner in ("isizeMax", "usizeMax") else f"(castUsize {inner})"
            raise Untranslatable(f"cast to {ty}")
        if k == "neg": raise Untranslatable("unary minus")
        if k == "not": return f"(!{self.ex(e[1], lines)})"
        if k == "bin":
            op, a, b = e[1], self.ex(e[2], lines), self.ex(e[3], lines)
            if op in ("+", "-", "*", "/", "%"):
                f = {"+": "uadd", "-": "usub", "*": "umul", "/": "udiv", "%": "urem"}[op]
                t = self.fresh(); lines.append(f"let {t} ← {f} {a} {b}"); return t
            if op in ("==", "!="):
                return f"(decide ({a} {'=' if op == '==' else '≠'} {b}))"
            if op in ("<", ">", "<=", ">="):
                return f"(decide ({a} {op.replace('<=', '≤').replace('>=', '≥')} {b}))"
            if op == "&&": return f"({a} && {b})"
            if op == "||": return f"({a} || {b})"
        if k == "try":
            t = self.fresh(); lines.append(f"let {t} ← liftErr {self.ex_m(e[1], lines)}"); return t
        if k == "mcall":
            recv, name, args = e[1], e[2], [self.ex(a, lines) for a in e[3]]
            r = self.ex(recv, lines)
            if name == "unsigned_abs": return f"(Int.natAbs {r})"
            if name == "checked_mul": return f"(checkedMul {r} {args[0]})"
            if name == "saturating_mul": return f"(saturatingMul {r} {args[0]})"
            if name == "wrapping_mul": return f"(wrappingMul {r} {args[0]})"
            if name == "ok_or": return f"(okOr {r} {args[0]})"
            if name in ("major", "minor") and not args: return f"{r}.{name}"
            if name in self.table:                       # another translated function, monadic
                t = self.fresh(); lines.append(f"let {t} ← {self.table[name]} {r} {' '.join(args)}".rstrip()); return t
            raise Untranslatable(f"method {name}")
        if k == "call":
            p = e[1]; args = [self.ex(a, lines) for a in e[2]]
            if p[0] == "size_of": return "es"
            if p[0] in ("Ok", "Some") : return f"(.ok {args[0]})" if p[0] == "Ok" else f"(some {args[0]})"
            if p[0] == "Err": return f"(.error {args[0]})"
            name = p[-1]
            if name in self.table:
                t = self.fresh(); lines.append(f"let {t} ← {self.table[name]} {' '.join(args)}"); return t
            raise Untranslatable(f"call {'::'.join(map(str, p))}")
        if k in ("if", "match", "block"):
            t = self.fresh(); lines.append(f"let {t} ← {self.ex_m(e, lines)}"); return t
        raise Untranslatable(f"expression kind {k}")

    # monadic rendering of an expression (a `do` block when it needs binds)
    def ex_m(self, e, outer):
        k = e[0]
        if k == "block": return self.block(e)
        if k == "if":
            c = self.ex(e[1], outer)
            return f"(if {c} then {self.block(e[2])} else {self.block(e[3])})"
        if k == "match":
            s = self.ex(e[1], outer); arms = []
            for path, body in e[2]:
                pat = ".rowMajor" if path[-1] == "RowMajor" else ".colMajor" if path[-1] == "ColMajor" else None
                if pat is None: raise Untranslatable(f"match arm {path}")
                arms.append(f"| {pat} => {self.block(('block', [], body))}")
            return f"(match {s} with {' '.join(arms)})"
        lines = []; a = self.ex(e, lines)
        return "(do " + "; ".join(lines + [f"pure {a}"]) + ")"

    def pat(self, p):
        return p[1] if p[0] == "pvar" else "(" + ", ".join(self.pat(x) for x in p[1]) + ")"

    def block(self, b):
        lines = []
        for st in b[1]:
            if st[0] == "let":
                if st[2][0] in ("if", "match", "block"):
                    lines.append(f"let {self.pat(st[1])} ← {self.ex_m(st[2], lines)}")
                else:
                    a = self.ex(st[2], lines); lines.append(f"let {self.pat(st[1])} := {a}")
            else:
                self.ex(st[1], lines)
        if b[2] is None: raise Untranslatable("block without tail expression")
        if b[2][0] in ("if", "match", "block"):
            tail = self.ex_m(b[2], lines)
        else:
            a = self.ex(b[2], lines); tail = f"pure {a}"
        return "(do " + "; ".join(lines + [tail]) + ")"

LEAN_TY = {"usize": "Nat", "isize": "Int", "bool": "Bool", "Self": None, "AxisShape": "AxisShape", "Shape": "Shape",
           "Order": "Order", "AxisIndex": "AxisIndex", "Index": "Index", "WrappingIndex": "WrappingIndex"}

def lean_ty(t, self_ty):
    if t is None: return self_ty
    if t[0] == "tuple": return " × ".join(lean_ty(x, self_ty) for x in t[1])
    name = t[1]
    if name == "Result": return "Except Error " + lean_ty(t[2][0], self_ty)
    if name == "Self": return self_ty
    if name not in LEAN_TY: raise Untranslatable(f"type {name}")
    return LEAN_TY[name]

def translate(src, impl_hint, name, self_ty, lean_name, table, generic_es=False):
    text = find_fn(src, impl_hint, name)
    ast = P(lex(text)).fn()
    em = Emit(name, self_ty, table)
    params = []
    if generic_es: params.append("(es : Nat)")
    for pn, pt in ast["params"]:
        if pn == "self": params.append(f"(self_ : {self_ty})")
        else: params.append(f"({pn} : {lean_ty(pt, self_ty)})")
    ret = lean_ty(ast["ret"], self_ty)
    body = em.block(ast["body"])
    return f"def {lean_name} {' '.join(params)} : M ({ret}) :=\n  {body}\n"

JOBS = [  # (file, impl hint, rust fn, Self type, lean name, generic over size_of::<T>)
    ("shape.rs", r"impl AxisShape", "major_stride", "AxisShape", "AxisShape.major_stride", False),
    ("shape.rs", r"impl AxisShape", "minor_stride", "AxisShape", "AxisShape.minor_stride", False),
    ("shape.rs", r"impl AxisShape", "size", "AxisShape", "AxisShape.size", False),
    ("index.rs", r"impl AxisIndex", "from_flattened", "AxisIndex", "AxisIndex.from_flattened", False),
    ("index.rs", r"impl AxisIndex", "to_flattened", "AxisIndex", "AxisIndex.to_flattened", False),
    ("index.rs", r"impl AxisIndex", "from_wrapping_index", "AxisIndex", "AxisIndex.from_wrapping_index", False),
    ("lib.rs", r"fn check_size", None, None, None, None),
]

if __name__ == "__main__":
    root = sys.argv[1] if len(sys.argv) > 1 else "/repo/src"
    table = {"major_stride": "AxisShape.major_stride", "minor_stride": "AxisShape.minor_stride"}
    out, done, failed = [], [], []
    jobs = [
        ("shape.rs", r"impl AxisShape\s*\{", "major_stride", "AxisShape", "AxisShape.major_stride", False),
        ("shape.rs", r"impl AxisShape\s*\{", "minor_stride", "AxisShape", "AxisShape.minor_stride", False),
        ("shape.rs", r"impl AxisShape\s*\{", "size", "AxisShape", "AxisShape.size", False),
        ("index.rs", r"impl AxisIndex\s*\{", "from_flattened", "AxisIndex", "AxisIndex.from_flattened", False),
        ("index.rs", r"impl AxisIndex\s*\{", "to_flattened", "AxisIndex", "AxisIndex.to_flattened", False),
        ("index.rs", r"impl AxisIndex\s*\{", "from_wrapping_index", "AxisIndex", "AxisIndex.from_wrapping_index", False),
        ("lib.rs", None, "check_size", "Matrix", "Matrix.check_size", True),
    ]
    for f, hint, name, self_ty, lean_name, es in jobs:
        try:
            out.append(translate(open(f"{root}/{f}").read(), hint, name, self_ty, lean_name, table, es))
            done.append(lean_name)
        except Untranslatable as ex:
            failed.append((lean_name, str(ex)))
    open("GenCore.lean", "w").write(
        "-- GENERATED by translate/t2_translate.py from /repo/src — do not edit\nimport Prelude2\nopen T2\nnamespace T2.Gen\n\n"
        + "\n".join(out) + "\nend T2.Gen\n")
    print(json.dumps({"translated": done, "untranslated": failed}, indent=1))
