namespace T2
def usizeMax : Nat := 2 ^ 64 - 1
def isizeMax : Nat := 2 ^ 63 - 1
inductive Fault where
  | panic (s : String)
  | err (e : String)
  deriving Repr, DecidableEq
inductive Error | sizeOverflow | capacityOverflow deriving Repr, DecidableEq
abbrev M := Except Fault
def uadd (a b : Nat) : M Nat := if a + b ≤ usizeMax then .ok (a + b) else .error (.panic "attempt to add with overflow")
def usub (a b : Nat) : M Nat := if b ≤ a then .ok (a - b) else .error (.panic "attempt to subtract with overflow")
def umul (a b : Nat) : M Nat := if a * b ≤ usizeMax then .ok (a * b) else .error (.panic "attempt to multiply with overflow")
def udiv (a b : Nat) : M Nat := if b = 0 then .error (.panic "attempt to divide by zero") else .ok (a / b)
def urem (a b : Nat) : M Nat := if b = 0 then .error (.panic "attempt to calculate the remainder with a divisor of zero") else .ok (a % b)
def saturatingMul (a b : Nat) : Nat := min (a * b) usizeMax
def wrappingMul (a b : Nat) : Nat := (a * b) % 2 ^ 64
/-- `x as usize` for `x : isize` -/
def castUsize (x : Int) : Nat := if x < 0 then (x + 2 ^ 64).toNat else x.toNat
inductive Order | rowMajor | colMajor deriving Repr, DecidableEq
structure AxisShape where
  major : Nat
  minor : Nat
  deriving Repr, DecidableEq
structure AxisIndex where
  major : Nat
  minor : Nat
  deriving Repr, DecidableEq
structure WrappingIndex where
  row : Int
  col : Int
  deriving Repr, DecidableEq
structure Matrix where
  dummy : Unit := ()
end T2
