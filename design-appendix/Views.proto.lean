/-
Prototype (C06): the immutable row/column views
    self.data.iter().skip(skip).step_by(step).take(take)        (src/iter.rs:476-514)
as list functions, and what they yield for the n-th major-axis and minor-axis vector.
-/
namespace Views

variable {α : Type}

inductive Fault where
  | panic (s : String)
  deriving Repr

/-- `Iterator::step_by(s)`: first item, then every `s`-th; `step_by(0)` panics -/
def stepByAux (s : Nat) : Nat → List α → List α
  | 0, _ => []
  | _ + 1, [] => []
  | fuel + 1, x :: xs => x :: stepByAux s fuel (xs.drop (s - 1))

def stepBy (s : Nat) (l : List α) : Except Fault (List α) :=
  if s = 0 then .error (.panic "assertion failed: step != 0") else .ok (stepByAux s l.length l)

/-- `iter().skip(a).step_by(s).take(t)` collected -/
def view (l : List α) (a s t : Nat) : Except Fault (List α) :=
  match stepBy s (l.drop a) with
  | .error e => .error e
  | .ok xs => .ok (xs.take t)

theorem stepByAux_get (s : Nat) (hs : 0 < s) :
    ∀ (fuel : Nat) (l : List α) (i : Nat), l.length ≤ fuel → (stepByAux s fuel l)[i]? = l[i * s]? := by
  intro fuel
  induction fuel with
  | zero =>
    intro l i h
    have : l = [] := List.length_eq_zero_iff.mp (by omega)
    subst this; simp [stepByAux]
  | succ fuel ih =>
    intro l i h
    cases l with
    | nil => simp [stepByAux]
    | cons x xs =>
      cases i with
      | zero => simp [stepByAux]
      | succ i =>
        simp only [stepByAux, List.getElem?_cons_succ]
        rw [ih (xs.drop (s - 1)) i (by simp at h ⊢; omega), List.getElem?_drop]
        have : (i + 1) * s = (s - 1 + i * s) + 1 := by rw [Nat.add_mul]; omega
        rw [this, List.getElem?_cons_succ]

theorem view_get (l : List α) (a s t : Nat) (hs : 0 < s) :
    ∃ v, view l a s t = .ok v ∧ ∀ i, v[i]? = if i < t then l[a + i * s]? else none := by
  have hne : s ≠ 0 := by omega
  refine ⟨(stepByAux s (l.drop a).length (l.drop a)).take t, by simp [view, stepBy, hne], ?_⟩
  intro i
  rw [List.getElem?_take]
  split
  · rw [stepByAux_get s hs _ _ i (Nat.le_refl _), List.getElem?_drop]
  · rfl

theorem flat_lt {M m i j : Nat} (hi : i < M) (hj : j < m) : i * m + j < M * m := by
  calc i * m + j < i * m + m := by omega
    _ = (i + 1) * m := by rw [Nat.add_mul]; simp
    _ ≤ M * m := Nat.mul_le_mul_right _ hi

/-- list with prescribed `getElem?` on `[0, n)` and `none` beyond has length `n` -/
theorem length_of_get {β : Type} (v : List β) (n : Nat) (h : ∀ i, (v[i]?).isSome = decide (i < n)) : v.length = n := by
  have h1 := h v.length
  have h2 : ∀ i, i < n → i < v.length := by
    intro i hi
    have := h i
    simp only [hi, decide_true] at this
    rcases Nat.lt_or_ge i v.length with h' | h'
    · exact h'
    · rw [List.getElem?_eq_none_iff.mpr h'] at this; simp at this
  simp at h1
  rcases Nat.lt_or_ge v.length n with h' | h'
  · have := h2 v.length h'; omega
  · rcases Nat.lt_or_ge n v.length with h'' | h''
    · have := h n
      rw [List.getElem?_eq_getElem h''] at this; simp at this
    · omega

/-- C06: the n-th **major**-axis vector (skip = n·minor, step = 1, take = minor) is exactly the
`minor` elements at offsets `n·minor + 0 … n·minor + (minor−1)`, with exact length. -/
theorem major_view (l : List α) (major minor n : Nat) (hl : l.length = major * minor) (hn : n < major) :
    ∃ v, view l (n * minor) 1 minor = .ok v ∧ v.length = minor ∧
      ∀ c, c < minor → v[c]? = l[n * minor + c]? ∧ (l[n * minor + c]?).isSome := by
  obtain ⟨v, h1, h2⟩ := view_get l (n * minor) 1 minor (by omega)
  have hin : ∀ c, c < minor → (l[n * minor + c]?).isSome := by
    intro c hc
    have : n * minor + c < l.length := by rw [hl]; exact flat_lt hn hc
    rw [List.getElem?_eq_getElem this]; rfl
  refine ⟨v, h1, ?_, ?_⟩
  · apply length_of_get
    intro i
    rw [h2 i]
    by_cases hi : i < minor
    · have := hin i hi
      simp only [hi, ↓reduceIte, Nat.mul_one, decide_true]; exact this
    · simp [hi]
  · intro c hc
    have := h2 c
    simp only [hc, ↓reduceIte, Nat.mul_one] at this
    exact ⟨this, hin c hc⟩

/-- C06: the n-th **minor**-axis vector (skip = n, step = minor, take = major) is exactly the
`major` elements at offsets `r·minor + n`; `step_by(0)` is unreachable because `n < minor`. -/
theorem minor_view (l : List α) (major minor n : Nat) (hl : l.length = major * minor) (hn : n < minor) :
    ∃ v, view l n minor major = .ok v ∧ v.length = major ∧
      ∀ r, r < major → v[r]? = l[r * minor + n]? ∧ (l[r * minor + n]?).isSome := by
  obtain ⟨v, h1, h2⟩ := view_get l n minor major (by omega)
  have hin : ∀ r, r < major → (l[r * minor + n]?).isSome := by
    intro r hr
    have : r * minor + n < l.length := by rw [hl]; exact flat_lt hr hn
    rw [List.getElem?_eq_getElem this]; rfl
  refine ⟨v, h1, ?_, ?_⟩
  · apply length_of_get
    intro i
    rw [h2 i]
    by_cases hi : i < major
    · have := hin i hi
      simp only [hi, ↓reduceIte, decide_true, Nat.add_comm n]; exact this
    · simp [hi]
  · intro r hr
    have := h2 r
    simp only [hr, ↓reduceIte, Nat.add_comm n] at this
    exact ⟨this, hin r hr⟩

/-- non-vacuity: 2×3 row-major data, column 1 and row 1; and a 3×0 matrix has three empty rows -/
example : view [1, 2, 3, 4, 5, 6] 1 3 2 = .ok [2, 5] := by rfl
example : view [1, 2, 3, 4, 5, 6] 3 1 3 = .ok [4, 5, 6] := by rfl
example : (List.range 3).map (fun n => view ([] : List Nat) (n * 0) 1 0) = [.ok [], .ok [], .ok []] := by rfl

end Views
