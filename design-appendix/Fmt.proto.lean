/-
Prototype (C20): the per-row first line of `Display for Matrix<T>` (src/fmt.rs:133-190) over
`List Char`, and the equal-width theorem for single-line renderings.
-/
namespace Fmt

abbrev Str := List Char

/-- `{line:<w$}` : pad on the right with spaces up to `w` characters -/
def padRight (s : Str) (w : Nat) : Str := s ++ List.replicate (w - s.length) ' '

/-- `{SPACE:w$}` : the one-character string " " padded to `w` -/
def spaces (w : Nat) : Str := padRight [' '] w

/-- `str::lines` for renderings without line breaks: "" has no line, anything else has one -/
def linesOf (s : Str) : List Str := if s = [] then [] else [s]

def width (ls : List Str) : Nat := (ls.map List.length).foldl max 0

/-- `match cache[index].next() { None => {SPACE:w$}, Some(line) => {line:<w$} }` on the first line -/
def cell (rendering : Str) (w : Nat) : Str :=
  match (linesOf rendering)[0]? with
  | none => spaces w
  | some l => padRight l w

/-- first line of one row: TAB, "[", cells separated by INTER_GAP, "]" -/
def rowLine (cells : List Str) : Str :=
  spaces 4 ++ ['['] ++ ([' ', ' '].intercalate cells) ++ [']']

/-- common element width: maximum over *all* elements of the matrix -/
def elementWidth (renderings : List Str) : Nat := (renderings.map fun r => width (linesOf r)).foldl max 0

theorem padRight_length (s : Str) (w : Nat) : (padRight s w).length = max s.length w := by
  simp [padRight]; omega

theorem foldl_max_ge (l : List Nat) (a : Nat) : a ≤ l.foldl max a ∧ ∀ x ∈ l, x ≤ l.foldl max a := by
  induction l generalizing a with
  | nil => simp
  | cons y ys ih =>
    obtain ⟨h1, h2⟩ := ih (max a y)
    simp only [List.foldl_cons]
    refine ⟨by omega, ?_⟩
    intro x hx
    rcases List.mem_cons.mp hx with rfl | hx
    · omega
    · exact h2 x hx

/-- every cell of the matrix has the same length `max 1 w`, whatever its own rendering is -/
theorem cell_length (renderings : List Str) (r : Str) (hr : r ∈ renderings) :
    (cell r (elementWidth renderings)).length = max 1 (elementWidth renderings) := by
  unfold cell linesOf
  by_cases he : r = []
  · simp [he, spaces, padRight_length]
  · simp only [he, ↓reduceIte, List.getElem?_cons_zero, padRight_length]
    have hw : r.length ≤ elementWidth renderings := by
      unfold elementWidth
      apply (foldl_max_ge _ 0).2
      refine List.mem_map.mpr ⟨r, hr, ?_⟩
      simp [width, linesOf, he]
    have : 0 < r.length := List.length_pos_iff.mpr he
    omega

theorem intercalate_length (sep : Str) (n : Nat) (c : Str) (cs : List Str) (h : ∀ x ∈ c :: cs, x.length = n) :
    (sep.intercalate (c :: cs)).length = n + cs.length * (sep.length + n) := by
  induction cs generalizing c with
  | nil => simp [List.intercalate, h c (by simp)]
  | cons c' cs' ih =>
    have ih' := ih c' (fun x hx => h x (List.mem_cons_of_mem _ hx))
    simp only [List.intercalate, List.intersperse_cons_cons, List.flatten_cons, List.length_append,
      List.length_cons] at ih' ⊢
    rw [ih', h c (by simp), Nat.add_mul (cs'.length) 1]
    omega

/-- C20 width clause: with single-line renderings, the first lines of any two rows of the same
matrix (same number of columns, common element width) have the same number of characters. -/
theorem rowLine_equal_width (renderings : List Str) (row row' : List Str)
    (h : ∀ r ∈ row, r ∈ renderings) (h' : ∀ r ∈ row', r ∈ renderings) (hlen : row.length = row'.length) :
    (rowLine (row.map fun r => cell r (elementWidth renderings))).length =
      (rowLine (row'.map fun r => cell r (elementWidth renderings))).length := by
  have key : ∀ (rw : List Str), (∀ r ∈ rw, r ∈ renderings) →
      (([' ', ' '] : Str).intercalate (rw.map fun r => cell r (elementWidth renderings))).length =
        match rw.length with
        | 0 => 0
        | k + 1 => max 1 (elementWidth renderings) + k * (2 + max 1 (elementWidth renderings)) := by
    intro rw hrw
    cases rw with
    | nil => simp [List.intercalate]
    | cons r rs =>
      simp only [List.map_cons, List.length_cons]
      rw [intercalate_length [' ', ' '] (max 1 (elementWidth renderings))]
      · simp
      · intro x hx
        rcases List.mem_cons.mp hx with rfl | hx
        · exact cell_length _ r (hrw r (by simp))
        · obtain ⟨r', hr', rfl⟩ := List.mem_map.mp hx
          exact cell_length _ r' (hrw r' (by simp [hr']))
  simp only [rowLine, List.length_append, key row h, key row' h', hlen]

/-- non-vacuity, including an empty and a multi-byte rendering -/
example : rowLine (["ab".toList, "".toList].map fun r => cell r 2) = "    [ab    ]".toList := by decide
example : (rowLine (["é".toList, "xyz".toList].map fun r => cell r 3)).length = 14 := by decide

end Fmt
