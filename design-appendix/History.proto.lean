/-
Prototype (C01): a register file of matrices of tokens, an operation language, and ONE ledger
invariant:  live ids ++ dropped ids ++ moved-out ids  is a permutation of  [0, nextId).
It says at once: no token is duplicated, none is dropped twice, none is lost.
-/
namespace Hist

structure Tok where
  id : Nat
  val : Int
  deriving DecidableEq, Repr

structure Mat where
  major : Nat
  minor : Nat
  data : List Tok
  deriving Repr

def Mat.ids (m : Mat) : List Nat := m.data.map (·.id)
def Mat.Coh (m : Mat) : Prop := m.major * m.minor = m.data.length

structure World where
  regs : List Mat
  nextId : Nat
  dropped : List Nat
  out : List Nat
  deriving Repr

def liveIds (regs : List Mat) : List Nat := (regs.map Mat.ids).flatten
def World.ledger (w : World) : List Nat := liveIds w.regs ++ w.dropped ++ w.out

structure Inv (w : World) : Prop where
  coh : ∀ m ∈ w.regs, m.Coh
  led : w.ledger.Perm (List.range w.nextId)

/-- `k` fresh tokens with ids `n, n+1, …` (what `T::default()` / `Clone::clone` produce) -/
def fresh (n k : Nat) (val : Nat → Int) : List Tok := (List.range' n k).map fun i => ⟨i, val i⟩

theorem fresh_ids (n k : Nat) (val : Nat → Int) : (fresh n k val).map (·.id) = List.range' n k := by
  simp [fresh, List.map_map, Function.comp_def]

theorem fresh_length (n k : Nat) (val : Nat → Int) : (fresh n k val).length = k := by simp [fresh]

inductive Op where
  | resize (r R C : Nat)
  | clear (r : Nat)
  | clone (r : Nat)                -- pushes the clone as a new register
  | mapFresh (r : Nat)             -- consuming map: closure drops its argument, returns a fresh token
  | swapElems (r i j : Nat)
  | intoIter (r : Nat)             -- consuming iteration: every element is moved out to the caller
  | dropReg (r : Nat)

def swapList (l : List Tok) (i j : Nat) : List Tok :=
  if h : i < l.length ∧ j < l.length then
    (l.toArray.swap i j (by simpa using h.1) (by simpa using h.2)).toList
  else l

def step (w : World) : Op → World
  | .resize r R C =>
    match w.regs[r]? with
    | none => w
    | some m =>
      let n := R * C
      if n ≤ m.data.length then
        { w with regs := w.regs.set r { major := R, minor := C, data := m.data.take n },
                 dropped := w.dropped ++ (m.data.drop n).map (·.id) }
      else
        let k := n - m.data.length
        { w with regs := w.regs.set r { major := R, minor := C, data := m.data ++ fresh w.nextId k (fun _ => 0) },
                 nextId := w.nextId + k }
  | .clear r =>
    match w.regs[r]? with
    | none => w
    | some m => { w with regs := w.regs.set r { major := 0, minor := 0, data := [] },
                         dropped := w.dropped ++ m.ids }
  | .clone r =>
    match w.regs[r]? with
    | none => w
    | some m =>
      let k := m.data.length
      { w with regs := w.regs ++ [{ m with data := (m.data.zip (List.range' w.nextId k)).map fun (t, i) => ⟨i, t.val⟩ }],
               nextId := w.nextId + k }
  | .mapFresh r =>
    match w.regs[r]? with
    | none => w
    | some m =>
      let k := m.data.length
      { w with regs := w.regs.set r { m with data := (m.data.zip (List.range' w.nextId k)).map fun (t, i) => ⟨i, t.val + 1⟩ },
               nextId := w.nextId + k, dropped := w.dropped ++ m.ids }
  | .swapElems r i j =>
    match w.regs[r]? with
    | none => w
    | some m => { w with regs := w.regs.set r { m with data := swapList m.data i j } }
  | .intoIter r =>
    match w.regs[r]? with
    | none => w
    | some m => { w with regs := w.regs.set r { major := 0, minor := 0, data := [] }, out := w.out ++ m.ids }
  | .dropReg r =>
    match w.regs[r]? with
    | none => w
    | some m => { w with regs := w.regs.set r { major := 0, minor := 0, data := [] }, dropped := w.dropped ++ m.ids }

def run (w : World) (ops : List Op) : World := ops.foldl step w

/-! ### counting lemmas: all ledger reasoning goes through `count` + `omega` -/

theorem count_liveIds_set (regs : List Mat) (r : Nat) (m m' : Mat) (h : regs[r]? = some m) (a : Nat) :
    (liveIds (regs.set r m')).count a + m.ids.count a = (liveIds regs).count a + m'.ids.count a := by
  induction regs generalizing r with
  | nil => simp at h
  | cons x xs ih =>
    cases r with
    | zero =>
      simp at h; subst h
      simp [liveIds, List.count_append]; omega
    | succ r =>
      simp at h
      have := ih r h
      simp only [liveIds, List.set_cons_succ, List.map_cons, List.flatten_cons, List.count_append] at this ⊢
      omega

theorem count_range_add (n k a : Nat) :
    (List.range (n + k)).count a = (List.range n).count a + (List.range' n k).count a := by
  rw [List.range_eq_range', List.range_eq_range']
  have : List.range' 0 (n + k) = List.range' 0 n ++ List.range' (0 + n) k := by
    rw [List.range'_append_1]
  rw [this, List.count_append]; simp

theorem zip_map_ids (l : List Tok) (n : Nat) (g : Tok → Nat → Tok) (hg : ∀ t i, (g t i).id = i) :
    ((l.zip (List.range' n l.length)).map fun (t, i) => g t i).map (·.id) = List.range' n l.length := by
  induction l generalizing n with
  | nil => simp
  | cons x xs ih =>
    simp only [List.length_cons, List.range'_succ, List.zip_cons_cons, List.map_cons, hg]
    rw [ih]

theorem swapList_perm (l : List Tok) (i j : Nat) : (swapList l i j).Perm l := by
  unfold swapList
  split
  · rename_i h
    have := Array.swap_perm (xs := l.toArray) (i := i) (j := j) (by simpa using h.1) (by simpa using h.2)
    simpa [Array.perm_iff_toList_perm] using this
  · exact .refl _

theorem swapList_length (l : List Tok) (i j : Nat) : (swapList l i j).length = l.length :=
  (swapList_perm l i j).length_eq


theorem mem_set_cases {β : Type} {l : List β} {r : Nat} {x y : β} (h : y ∈ l.set r x) : y ∈ l ∨ y = x := by
  rcases List.mem_or_eq_of_mem_set h with h | h
  · exact .inl h
  · exact .inr h

theorem take_drop_count (l : List Tok) (n a : Nat) :
    ((l.take n).map (·.id)).count a + ((l.drop n).map (·.id)).count a = (l.map (·.id)).count a := by
  rw [← List.count_append, ← List.map_append, List.take_append_drop]

/-- every operation preserves coherence and the ledger permutation -/
theorem step_inv (w : World) (op : Op) (h : Inv w) : Inv (step w op) := by
  have hled := fun a => (List.perm_iff_count.mp h.led) a
  cases op with
  | resize r R C =>
    simp only [step]
    split
    · exact h
    · rename_i m hm
      split
      · rename_i hle
        constructor
        · intro m' hm'
          rcases mem_set_cases hm' with h1 | h1
          · exact h.coh _ h1
          · subst h1; simp only [Mat.Coh, List.length_take]; omega
        · rw [List.perm_iff_count]; intro a
          have hc := count_liveIds_set w.regs r m { major := R, minor := C, data := m.data.take (R * C) } hm a
          have ht := take_drop_count m.data (R * C) a
          have hl := hled a
          simp only [World.ledger, List.count_append, Mat.ids] at hc hl ⊢
          omega
      · rename_i hgt
        constructor
        · intro m' hm'
          rcases mem_set_cases hm' with h1 | h1
          · exact h.coh _ h1
          · subst h1; simp only [Mat.Coh, List.length_append, fresh_length]; omega
        · rw [List.perm_iff_count]; intro a
          have hc := count_liveIds_set w.regs r m
            { major := R, minor := C, data := m.data ++ fresh w.nextId (R * C - m.data.length) (fun _ => 0) } hm a
          have hl := hled a
          have hr := count_range_add w.nextId (R * C - m.data.length) a
          simp only [World.ledger, List.count_append, Mat.ids, List.map_append, fresh_ids] at hc hl ⊢
          omega
  | clear r =>
    simp only [step]
    split
    · exact h
    · rename_i m hm
      constructor
      · intro m' hm'
        rcases mem_set_cases hm' with h1 | h1
        · exact h.coh _ h1
        · subst h1; simp [Mat.Coh]
      · rw [List.perm_iff_count]; intro a
        have hc := count_liveIds_set w.regs r m { major := 0, minor := 0, data := [] } hm a
        have hl := hled a
        simp only [World.ledger, List.count_append, Mat.ids, List.map_nil, List.count_nil] at hc hl ⊢
        omega
  | clone r =>
    simp only [step]
    split
    · exact h
    · rename_i m hm
      have hmem : m ∈ w.regs := List.mem_of_getElem? hm
      constructor
      · intro m' hm'
        rcases List.mem_append.mp hm' with h1 | h1
        · exact h.coh _ h1
        · simp at h1; subst h1
          have := h.coh m hmem
          simp only [Mat.Coh, List.length_map, List.length_zip, List.length_range'] at this ⊢
          omega
      · rw [List.perm_iff_count]; intro a
        have hl := hled a
        have hr := count_range_add w.nextId m.data.length a
        have hz := zip_map_ids m.data w.nextId (fun t i => ⟨i, t.val⟩) (fun _ _ => rfl)
        simp only [World.ledger, List.count_append, liveIds, List.map_append, List.flatten_append,
          List.map_cons, List.map_nil, List.flatten_cons, List.flatten_nil, List.append_nil, Mat.ids, hz] at hl ⊢
        omega
  | mapFresh r =>
    simp only [step]
    split
    · exact h
    · rename_i m hm
      have hmem : m ∈ w.regs := List.mem_of_getElem? hm
      constructor
      · intro m' hm'
        rcases mem_set_cases hm' with h1 | h1
        · exact h.coh _ h1
        · subst h1
          have := h.coh m hmem
          simp only [Mat.Coh, List.length_map, List.length_zip, List.length_range'] at this ⊢
          omega
      · rw [List.perm_iff_count]; intro a
        have hc := count_liveIds_set w.regs r m
          { m with data := (m.data.zip (List.range' w.nextId m.data.length)).map fun (t, i) => ⟨i, t.val + 1⟩ } hm a
        have hl := hled a
        have hr := count_range_add w.nextId m.data.length a
        have hz := zip_map_ids m.data w.nextId (fun t i => ⟨i, t.val + 1⟩) (fun _ _ => rfl)
        simp only [World.ledger, List.count_append, Mat.ids, hz] at hc hl ⊢
        omega
  | swapElems r i j =>
    simp only [step]
    split
    · exact h
    · rename_i m hm
      have hmem : m ∈ w.regs := List.mem_of_getElem? hm
      constructor
      · intro m' hm'
        rcases mem_set_cases hm' with h1 | h1
        · exact h.coh _ h1
        · subst h1
          have := h.coh m hmem
          simp only [Mat.Coh, swapList_length] at this ⊢
          exact this
      · rw [List.perm_iff_count]; intro a
        have hc := count_liveIds_set w.regs r m { m with data := swapList m.data i j } hm a
        have hp : ((swapList m.data i j).map (·.id)).count a = (m.data.map (·.id)).count a :=
          ((swapList_perm m.data i j).map _).count_eq a
        have hl := hled a
        simp only [World.ledger, List.count_append, Mat.ids] at hc hl ⊢
        omega
  | intoIter r =>
    simp only [step]
    split
    · exact h
    · rename_i m hm
      constructor
      · intro m' hm'
        rcases mem_set_cases hm' with h1 | h1
        · exact h.coh _ h1
        · subst h1; simp [Mat.Coh]
      · rw [List.perm_iff_count]; intro a
        have hc := count_liveIds_set w.regs r m { major := 0, minor := 0, data := [] } hm a
        have hl := hled a
        simp only [World.ledger, List.count_append, Mat.ids, List.map_nil, List.count_nil] at hc hl ⊢
        omega
  | dropReg r =>
    simp only [step]
    split
    · exact h
    · rename_i m hm
      constructor
      · intro m' hm'
        rcases mem_set_cases hm' with h1 | h1
        · exact h.coh _ h1
        · subst h1; simp [Mat.Coh]
      · rw [List.perm_iff_count]; intro a
        have hc := count_liveIds_set w.regs r m { major := 0, minor := 0, data := [] } hm a
        have hl := hled a
        simp only [World.ledger, List.count_append, Mat.ids, List.map_nil, List.count_nil] at hc hl ⊢
        omega

/-- C01 (ledger and coherence part): the invariant holds after every finite history. -/
theorem run_inv (w : World) (ops : List Op) (h : Inv w) : Inv (run w ops) := by
  induction ops generalizing w with
  | nil => exact h
  | cons op ops ih => exact ih _ (step_inv w op h)

theorem init_inv : Inv { regs := [], nextId := 0, dropped := [], out := [] } :=
  ⟨by simp, by simp [World.ledger, liveIds]⟩

/-- consequences: live ids are pairwise distinct, nothing is dropped twice, and once every
register is empty each id ever created has been dropped or moved out exactly once -/
theorem inv_nodup (w : World) (h : Inv w) : w.ledger.Nodup :=
  h.led.nodup_iff.mpr List.nodup_range

theorem all_accounted (w : World) (h : Inv w) (hempty : liveIds w.regs = []) :
    (w.dropped ++ w.out).Perm (List.range w.nextId) := by
  have := h.led; simpa [World.ledger, hempty] using this

end Hist

namespace Hist
/-- non-vacuity: a history that grows, clones, swaps, maps, shrinks, consumes and drops. Twelve
tokens were created; every id is accounted for exactly once (ten dropped, two moved out). -/
example :
    run { regs := [{ major := 0, minor := 0, data := [] }], nextId := 0, dropped := [], out := [] }
      [.resize 0 2 2, .clone 0, .swapElems 0 0 3, .mapFresh 1, .resize 0 1 2, .intoIter 0, .dropReg 1]
    = { regs := [{ major := 0, minor := 0, data := [] }, { major := 0, minor := 0, data := [] }],
        nextId := 12, dropped := [4, 5, 6, 7, 2, 0, 8, 9, 10, 11], out := [3, 1] } := by
  rfl
end Hist
