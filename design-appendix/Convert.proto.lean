/-
Prototype (C19 / C08): `TryFrom<Vec<Vec<T>>>` and `FromIterator` (src/convert.rs:184-299):
shape from (row count, first row length), every row length compared before extending.
-/
namespace Conv

def usizeMax : Nat := 2 ^ 64 - 1
def isizeMax : Nat := 2 ^ 63 - 1

inductive Error | sizeOverflow | capacityOverflow | lengthInconsistent deriving Repr, DecidableEq

variable {α : Type}

structure Mat (α : Type) where
  nrows : Nat
  ncols : Nat
  data : List α            -- row-major
  deriving Repr, DecidableEq

/-- the `for row in value { if row.len() != ncols { return Err } data.extend(row) }` loop -/
def extendRows (ncols : Nat) : List (List α) → List α → Except Error (List α)
  | [], acc => .ok acc
  | row :: rest, acc => if row.length ≠ ncols then .error .lengthInconsistent else extendRows ncols rest (acc ++ row)

def tryFromRows (es : Nat) (rows : List (List α)) : Except Error (Mat α) :=
  let nrows := rows.length
  let ncols := (rows.head?.map List.length).getD 0          -- value.first().map_or(0, |row| row.len())
  if nrows * ncols > usizeMax then .error .sizeOverflow                           -- try_to_axis_shape
  else if min (es * (nrows * ncols)) usizeMax > isizeMax then .error .capacityOverflow   -- check_size
  else match extendRows ncols rows [] with
    | .error e => .error e
    | .ok data => .ok { nrows := nrows, ncols := ncols, data := data }

theorem extendRows_ok (ncols : Nat) : ∀ (rows : List (List α)) (acc : List α),
    (∀ r ∈ rows, r.length = ncols) → extendRows ncols rows acc = .ok (acc ++ rows.flatten) := by
  intro rows
  induction rows with
  | nil => intro acc _; simp [extendRows]
  | cons r rs ih =>
    intro acc h
    have hr : r.length = ncols := h r (by simp)
    simp only [extendRows, hr, ne_eq, not_true_eq_false, ↓reduceIte, List.flatten_cons]
    rw [ih _ (fun x hx => h x (by simp [hx]))]; simp

theorem extendRows_err (ncols : Nat) : ∀ (rows : List (List α)) (acc : List α),
    (∃ r ∈ rows, r.length ≠ ncols) → extendRows ncols rows acc = .error .lengthInconsistent := by
  intro rows
  induction rows with
  | nil => intro acc h; obtain ⟨r, hr, _⟩ := h; simp at hr
  | cons r rs ih =>
    intro acc h
    simp only [extendRows]
    by_cases hr : r.length = ncols
    · simp only [hr, ne_eq, not_true_eq_false, ↓reduceIte]
      apply ih
      obtain ⟨x, hx, hne⟩ := h
      rcases List.mem_cons.mp hx with rfl | hx
      · exact absurd hr hne
      · exact ⟨x, hx, hne⟩
    · simp [hr]

/-- C19: the conversion succeeds exactly on uniform input (when the size checks pass) and then
yields the matrix whose logical rows are the given rows in order; any deviating row — at any
position, shorter or longer, even when the total happens to match — is rejected. -/
theorem tryFromRows_spec (es : Nat) (rows : List (List α))
    (hsz : rows.length * ((rows.head?.map List.length).getD 0) ≤ usizeMax)
    (hcap : es * (rows.length * ((rows.head?.map List.length).getD 0)) ≤ isizeMax) :
    (if ∀ r ∈ rows, r.length = (rows.head?.map List.length).getD 0
     then tryFromRows es rows = .ok { nrows := rows.length, ncols := (rows.head?.map List.length).getD 0, data := rows.flatten }
     else tryFromRows es rows = .error .lengthInconsistent) := by
  have h1 : ¬ rows.length * ((rows.head?.map List.length).getD 0) > usizeMax := by omega
  have h2 : ¬ min (es * (rows.length * ((rows.head?.map List.length).getD 0))) usizeMax > isizeMax := by
    have : isizeMax ≤ usizeMax := by decide
    omega
  split
  · rename_i hu
    simp only [tryFromRows, h1, h2, ↓reduceIte, extendRows_ok _ rows [] hu, List.nil_append]
  · rename_i hu
    have : ∃ r ∈ rows, r.length ≠ (rows.head?.map List.length).getD 0 := by
      apply Classical.byContradiction
      intro hc; apply hu; intro r hr
      apply Classical.byContradiction
      intro hne; exact hc ⟨r, hr, hne⟩
    simp only [tryFromRows, h1, h2, ↓reduceIte, extendRows_err _ rows [] this]

/-- a ragged input whose total length matches 2×2 is still rejected; zero rows and zero-length rows are fine -/
example : tryFromRows 4 [[1, 2, 3], [4]] = .error .lengthInconsistent := by rfl
example : tryFromRows 4 [[1], [2, 3, 4]] = .error .lengthInconsistent := by rfl
example : tryFromRows 4 ([] : List (List Nat)) = .ok ⟨0, 0, []⟩ := by rfl
example : tryFromRows 4 ([[], [], []] : List (List Nat)) = .ok ⟨3, 0, []⟩ := by rfl

end Conv
