/-
Prototype (C11): the data path of `Matrix::multiply` (src/arithmetic/mul.rs:192-254) after both
operands have been re-laid out (lhs row-major n×K, rhs column-major K×m):
    for row in 0..n { for col in 0..m { data.push(dot(lhs[row*K .. row*K+K], rhs[col*K .. col*K+K]).unwrap_unchecked()) } }
over ABSTRACT `mul : L → R → U`, `add : U → U → U` (no algebraic laws: operand order and
association are pinned).
-/
namespace Mul

inductive Fault where
  | ub (s : String)
  deriving Repr

variable {L R U : Type}

/-- `data.get_unchecked(lower..upper)` -/
def sliceUnchecked {α : Type} (d : Array α) (lo hi : Nat) : Except Fault (List α) :=
  if lo ≤ hi ∧ hi ≤ d.size then .ok ((d.toList.drop lo).take (hi - lo))
  else .error (.ub "get_unchecked: range out of bounds")

/-- `lhs.iter().zip(rhs).map(|(l, r)| l * r).reduce(|acc, p| acc + p)` -/
def dotProduct (mul : L → R → U) (add : U → U → U) (ls : List L) (rs : List R) : Option U :=
  match List.zipWith mul ls rs with          -- zip + map
  | [] => none
  | p :: ps => some (ps.foldl add p)       -- reduce: first product is the seed

def unwrapUnchecked {α : Type} : Option α → Except Fault α
  | some x => .ok x
  | none => .error (.ub "unwrap_unchecked on None")

/-- one output element -/
def element (mul : L → R → U) (add : U → U → U) (K : Nat) (lhs : Array L) (rhs : Array R) (row col : Nat) :
    Except Fault U :=
  match sliceUnchecked lhs (row * K) (row * K + K) with
  | .error e => .error e
  | .ok ls =>
    match sliceUnchecked rhs (col * K) (col * K + K) with
    | .error e => .error e
    | .ok rs => unwrapUnchecked (dotProduct mul add ls rs)

/-- `for x in lo..lo+todo { data.push(f x)? }` -/
def pushLoop {α : Type} (f : Nat → Except Fault α) : (todo lo : Nat) → Array α → Except Fault (Array α)
  | 0, _, d => .ok d
  | todo + 1, lo, d =>
    match f lo with
    | .error e => .error e
    | .ok x => pushLoop f todo (lo + 1) (d.push x)

/-- row-major result: outer loop over rows, inner over columns -/
def multiplyRowMajor (mul : L → R → U) (add : U → U → U) (n K m : Nat) (lhs : Array L) (rhs : Array R) :
    (todo row : Nat) → Array U → Except Fault (Array U)
  | 0, _, d => .ok d
  | todo + 1, row, d =>
    match pushLoop (fun col => element mul add K lhs rhs row col) m 0 d with
    | .error e => .error e
    | .ok d' => multiplyRowMajor mul add n K m lhs rhs todo (row + 1) d'

/-! ### specification -/

/-- left-nested sum of a list of terms, `none` for the empty list -/
def sumLeft (add : U → U → U) : List U → Option U
  | [] => none
  | p :: ps => some (ps.foldl add p)

/-- textbook entry `(i, j)`: terms `lhs[i][k] * rhs[k][j]` for k = 0, 1, …, K-1 in this order,
lhs factor on the left, summed left to right -/
def entry (mul : L → R → U) (add : U → U → U) (a : Nat → Nat → Option L) (b : Nat → Nat → Option R)
    (K i j : Nat) : Option U :=
  sumLeft add ((List.range K).filterMap fun k => (a i k).bind fun x => (b k j).map fun y => mul x y)

theorem pushLoop_spec {α : Type} (f : Nat → Except Fault α) (g : Nat → Option α) :
    ∀ (todo lo : Nat) (d : Array α), (∀ x, lo ≤ x → x < lo + todo → ∃ u, f x = .ok u ∧ some u = g x) →
      ∃ d', pushLoop f todo lo d = .ok d' ∧
        d'.toList.map some = d.toList.map some ++ (List.range' lo todo).map g := by
  intro todo
  induction todo with
  | zero => intro lo d _; exact ⟨d, rfl, by simp⟩
  | succ todo ih =>
    intro lo d h
    obtain ⟨u, hu1, hu2⟩ := h lo (Nat.le_refl _) (by omega)
    simp only [pushLoop, hu1]
    obtain ⟨d', h1, h2⟩ := ih (lo + 1) (d.push u) (fun x h1 h2 => h x (by omega) (by omega))
    exact ⟨d', h1, by rw [h2]; simp [List.range'_succ, hu2]⟩

theorem slice_row {α : Type} (d : Array α) (K i : Nat) (M : Nat) (hsz : d.size = M * K) (hi : i < M) :
    ∃ l, sliceUnchecked d (i * K) (i * K + K) = .ok l ∧ l.length = K ∧
      ∀ k, k < K → l[k]? = d[i * K + k]? := by
  have hle : i * K + K ≤ d.size := by
    rw [hsz]
    calc i * K + K = (i + 1) * K := by rw [Nat.add_mul]; simp
      _ ≤ M * K := Nat.mul_le_mul_right _ hi
  refine ⟨(d.toList.drop (i * K)).take K, ?_, ?_, ?_⟩
  · simp [sliceUnchecked, hle]
  · simp [List.length_take, List.length_drop]; omega
  · intro k hk
    simp [hk, List.getElem?_drop]

/-- zipping two length-`K` slices and multiplying gives the `K` products in order -/
theorem products_spec (mul : L → R → U) (ls : List L) (rs : List R) (K : Nat)
    (a : Nat → Option L) (b : Nat → Option R) (hl : ls.length = K) (hr : rs.length = K)
    (hla : ∀ k, k < K → ls[k]? = a k) (hrb : ∀ k, k < K → rs[k]? = b k) :
    List.zipWith mul ls rs = (List.range K).filterMap fun k => (a k).bind fun x => (b k).map fun y => mul x y := by
  induction K generalizing ls rs a b with
  | zero =>
    have : ls = [] := List.length_eq_zero_iff.mp hl
    subst this; simp
  | succ K ih =>
    cases ls with
    | nil => simp at hl
    | cons x xs =>
      cases rs with
      | nil => simp at hr
      | cons y ys =>
        have h0a := hla 0 (by omega)
        have h0b := hrb 0 (by omega)
        simp only [List.getElem?_cons_zero] at h0a h0b
        rw [List.range_succ_eq_map, List.filterMap_cons, List.filterMap_map, ← h0a, ← h0b]
        simp only [Option.bind_some, Option.map_some, List.zipWith_cons_cons]
        congr 1
        exact ih xs ys (fun k => a (k + 1)) (fun k => b (k + 1)) (by simpa using hl) (by simpa using hr)
          (fun k hk => by have := hla (k + 1) (by omega); simpa using this)
          (fun k hk => by have := hrb (k + 1) (by omega); simpa using this)

/-- one element: both unchecked slices are in range, `unwrap_unchecked` never sees `None`
(because `0 < K`), and the value is the textbook entry -/
theorem element_spec (mul : L → R → U) (add : U → U → U) (n K m : Nat) (lhs : Array L) (rhs : Array R)
    (hl : lhs.size = n * K) (hr : rhs.size = m * K) (hK : 0 < K) (row col : Nat) (hrow : row < n) (hcol : col < m) :
    ∃ u, element mul add K lhs rhs row col = .ok u ∧
      some u = entry mul add (fun i k => lhs[i * K + k]?) (fun k j => rhs[j * K + k]?) K row col := by
  obtain ⟨ls, hs1, hs2, hs3⟩ := slice_row lhs K row n hl hrow
  obtain ⟨rs, ht1, ht2, ht3⟩ := slice_row rhs K col m hr hcol
  have hp := products_spec mul ls rs K (fun k => lhs[row * K + k]?) (fun k => rhs[col * K + k]?) hs2 ht2 hs3 ht3
  simp only [element, hs1, ht1, dotProduct, entry, hp]
  -- the product list is non-empty because K > 0
  cases hlist : ((List.range K).filterMap fun k => (lhs[row * K + k]?).bind fun x => (rhs[col * K + k]?).map fun y => mul x y) with
  | nil =>
    exfalso
    have : (List.zipWith mul ls rs).length = K := by simp [hs2, ht2]
    rw [hp, hlist] at this; simp at this; omega
  | cons p ps => exact ⟨ps.foldl add p, rfl, rfl⟩


theorem flatMap_rows_length {β : Type} (e : Nat → Nat → β) (n m : Nat) :
    ((List.range n).flatMap fun r => (List.range m).map (e r)).length = n * m := by
  induction n with
  | zero => simp
  | succ n ih => rw [List.range_succ, List.flatMap_append]; simp [ih, Nat.add_mul]

theorem getElem?_flatMap_rows {β : Type} (e : Nat → Nat → β) (n m row col : Nat) (hr : row < n) (hc : col < m) :
    ((List.range n).flatMap fun r => (List.range m).map (e r))[row * m + col]? = some (e row col) := by
  induction n with
  | zero => omega
  | succ n ih =>
    rw [List.range_succ, List.flatMap_append]
    have hlen := flatMap_rows_length e n m
    by_cases h : row < n
    · have : row * m + col < n * m := by
        calc row * m + col < row * m + m := by omega
          _ = (row + 1) * m := by rw [Nat.add_mul]; simp
          _ ≤ n * m := Nat.mul_le_mul_right _ h
      rw [List.getElem?_append_left (by omega)]
      exact ih h
    · have hrn : row = n := by omega
      subst hrn
      rw [List.getElem?_append_right (by omega), hlen]
      simp [hc]

/-- outer loop -/
theorem multiplyRowMajor_loop (mul : L → R → U) (add : U → U → U) (n K m : Nat) (lhs : Array L) (rhs : Array R)
    (hl : lhs.size = n * K) (hr : rhs.size = m * K) (hK : 0 < K) :
    ∀ (todo row : Nat) (d : Array U), row + todo ≤ n →
      ∃ d', multiplyRowMajor mul add n K m lhs rhs todo row d = .ok d' ∧
        d'.toList.map some = d.toList.map some ++
          (List.range' row todo).flatMap fun r => (List.range m).map fun c =>
            entry mul add (fun i k => lhs[i * K + k]?) (fun k j => rhs[j * K + k]?) K r c := by
  intro todo
  induction todo with
  | zero => intro row d _; exact ⟨d, rfl, by simp⟩
  | succ todo ih =>
    intro row d h
    obtain ⟨d1, h1, h2⟩ := pushLoop_spec (fun col => element mul add K lhs rhs row col)
      (fun c => entry mul add (fun i k => lhs[i * K + k]?) (fun k j => rhs[j * K + k]?) K row c) m 0 d
      (fun x _ hx => element_spec mul add n K m lhs rhs hl hr hK row x (by omega) (by omega))
    obtain ⟨d2, h3, h4⟩ := ih (row + 1) d1 (by omega)
    refine ⟨d2, by simp only [multiplyRowMajor, h1, h3], ?_⟩
    rw [h4, h2, List.range'_succ, List.flatMap_cons, List.range_eq_range']
    simp

/-- C11 (row-major result, K > 0): every unchecked slice is in range, `unwrap_unchecked` is never
applied to `None`, the result has `n * m` elements, and element `(i, j)` — at flat position
`i * m + j` — is the textbook entry. -/
theorem multiplyRowMajor_spec (mul : L → R → U) (add : U → U → U) (n K m : Nat) (lhs : Array L) (rhs : Array R)
    (hl : lhs.size = n * K) (hr : rhs.size = m * K) (hK : 0 < K) :
    ∃ d', multiplyRowMajor mul add n K m lhs rhs n 0 #[] = .ok d' ∧ d'.size = n * m ∧
      ∀ i j, i < n → j < m →
        d'[i * m + j]? = entry mul add (fun i k => lhs[i * K + k]?) (fun k j => rhs[j * K + k]?) K i j := by
  obtain ⟨d', h1, h2⟩ := multiplyRowMajor_loop mul add n K m lhs rhs hl hr hK n 0 #[] (by omega)
  simp only [List.map_nil, List.nil_append] at h2
  rw [← List.range_eq_range'] at h2
  refine ⟨d', h1, ?_, ?_⟩
  · have := congrArg List.length h2
    rw [flatMap_rows_length] at this
    simpa using this
  · intro i j hi hj
    have := getElem?_flatMap_rows
      (fun r c => entry mul add (fun i k => lhs[i * K + k]?) (fun k j => rhs[j * K + k]?) K r c) n m i j hi hj
    rw [← h2] at this
    simp only [List.getElem?_map] at this
    rw [← Array.getElem?_toList]
    cases hd : d'.toList[i * m + j]? with
    | none => rw [hd] at this; simp at this
    | some u => rw [hd] at this; simpa using this

/-- free terms: no law identifies `a*c` with `c*a` or re-associates sums -/
inductive T where
  | var (n : Nat)
  | mul (a b : T)
  | add (a b : T)
  deriving DecidableEq, Repr

/-- non-vacuity over free terms: [[x0, x1]] · [[x2], [x3]] = [[(x0*x2) + (x1*x3)]] -/
example :
    multiplyRowMajor T.mul T.add 1 2 1 #[T.var 0, T.var 1] #[T.var 2, T.var 3] 1 0 #[]
      = .ok #[T.add (T.mul (T.var 0) (T.var 2)) (T.mul (T.var 1) (T.var 3))] := by
  rfl

end Mul
