import Transpose
/-
Prototype (C05): lifting the array-level theorem of Transpose.proto.lean to the matrix level:
`transpose`, `switch_order`, `switch_order_without_rearrangement` against the logical view `at?`.
-/
namespace Proto

inductive Order | rowMajor | colMajor deriving Repr, DecidableEq
def Order.switch : Order → Order | .rowMajor => .colMajor | .colMajor => .rowMajor

structure AxisShape where
  major : Nat
  minor : Nat
  deriving Repr, DecidableEq

structure Matrix (α : Type) where
  order : Order
  shape : AxisShape
  data : Array α

variable {α : Type}

def Matrix.nrows (m : Matrix α) : Nat := match m.order with | .rowMajor => m.shape.major | .colMajor => m.shape.minor
def Matrix.ncols (m : Matrix α) : Nat := match m.order with | .rowMajor => m.shape.minor | .colMajor => m.shape.major
def Matrix.idx (m : Matrix α) (r c : Nat) : Nat :=
  match m.order with | .rowMajor => r * m.shape.minor + c | .colMajor => c * m.shape.minor + r
def Matrix.at? (m : Matrix α) (r c : Nat) : Option α :=
  if r < m.nrows ∧ c < m.ncols then m.data[m.idx r c]? else none
def Matrix.Coh (m : Matrix α) : Prop := m.shape.major * m.shape.minor = m.data.size

/-- `Matrix::transpose` for non-zero-sized elements (src/lib.rs:272-299) -/
def Matrix.transpose (m : Matrix α) : Except Fault (Matrix α) :=
  match permuteInPlace (tperm m.shape.major m.shape.minor) m.data with
  | .error e => .error e
  | .ok d => .ok { m with shape := ⟨m.shape.minor, m.shape.major⟩, data := d }

/-- `switch_order`: transpose, then flip the tag -/
def Matrix.switchOrder (m : Matrix α) : Except Fault (Matrix α) :=
  match m.transpose with
  | .error e => .error e
  | .ok m' => .ok { m' with order := m'.order.switch }

def Matrix.switchOrderWithoutRearrangement (m : Matrix α) : Matrix α := { m with order := m.order.switch }

theorem ite_congr_opt {A B : Prop} [Decidable A] [Decidable B] (h : A ↔ B) {x y : Option α}
    (hxy : B → x = y) : (if A then x else none) = (if B then y else none) := by
  by_cases hb : B
  · rw [if_pos hb, if_pos (h.mpr hb)]; exact hxy hb
  · rw [if_neg hb, if_neg (fun a => hb (h.mp a))]

/-- C05: transpose never faults, keeps the order tag, swaps the logical extents, and
`result[j][i] = original[i][j]` for every in-bounds `(i, j)`. -/
theorem Matrix.transpose_spec (m : Matrix α) (h : m.Coh) :
    ∃ m', m.transpose = .ok m' ∧ m'.Coh ∧ m'.order = m.order ∧ m'.nrows = m.ncols ∧ m'.ncols = m.nrows ∧
      ∀ i j, m'.at? j i = m.at? i j := by
  obtain ⟨o, ⟨M, mn⟩, d⟩ := m
  simp only [Matrix.Coh] at h
  obtain ⟨d', h1, h2, h3⟩ := transpose_data_spec M mn d h.symm
  refine ⟨{ order := o, shape := ⟨mn, M⟩, data := d' }, by simp [Matrix.transpose, h1], ?_, rfl, ?_, ?_, ?_⟩
  · simp only [Matrix.Coh]; rw [h2, Nat.mul_comm]
  · cases o <;> rfl
  · cases o <;> rfl
  · intro i j
    cases o <;> simp only [Matrix.at?, Matrix.nrows, Matrix.ncols, Matrix.idx]
    · exact ite_congr_opt ⟨fun x => ⟨x.2, x.1⟩, fun x => ⟨x.2, x.1⟩⟩ (fun hb => h3 i j hb.1 hb.2)
    · exact ite_congr_opt ⟨fun x => ⟨x.2, x.1⟩, fun x => ⟨x.2, x.1⟩⟩ (fun hb => h3 j i hb.2 hb.1)

/-- C05: `switch_order` flips the tag and leaves shape and every logical element unchanged. -/
theorem Matrix.switchOrder_spec (m : Matrix α) (h : m.Coh) :
    ∃ m', m.switchOrder = .ok m' ∧ m'.Coh ∧ m'.order = m.order.switch ∧ m'.nrows = m.nrows ∧ m'.ncols = m.ncols ∧
      ∀ i j, m'.at? i j = m.at? i j := by
  obtain ⟨o, ⟨M, mn⟩, d⟩ := m
  simp only [Matrix.Coh] at h
  obtain ⟨d', h1, h2, h3⟩ := transpose_data_spec M mn d h.symm
  refine ⟨{ order := o.switch, shape := ⟨mn, M⟩, data := d' },
    by simp [Matrix.switchOrder, Matrix.transpose, h1], ?_, rfl, ?_, ?_, ?_⟩
  · simp only [Matrix.Coh]; rw [h2, Nat.mul_comm]
  · cases o <;> rfl
  · cases o <;> rfl
  · intro i j
    cases o <;> simp only [Matrix.at?, Matrix.nrows, Matrix.ncols, Matrix.idx, Order.switch]
    · exact ite_congr_opt Iff.rfl (fun hb => h3 i j hb.1 hb.2)
    · exact ite_congr_opt Iff.rfl (fun hb => h3 j i hb.2 hb.1)

/-- C05: the `_without_rearrangement` variant leaves the memory-order sequence alone and presents
the transposed matrix. -/
theorem Matrix.switchOrderWithoutRearrangement_spec (m : Matrix α) :
    (m.switchOrderWithoutRearrangement).data = m.data ∧
    (m.switchOrderWithoutRearrangement).order = m.order.switch ∧
    (m.switchOrderWithoutRearrangement).nrows = m.ncols ∧ (m.switchOrderWithoutRearrangement).ncols = m.nrows ∧
      ∀ i j, (m.switchOrderWithoutRearrangement).at? j i = m.at? i j := by
  obtain ⟨o, ⟨M, mn⟩, d⟩ := m
  refine ⟨rfl, rfl, ?_, ?_, ?_⟩
  · cases o <;> rfl
  · cases o <;> rfl
  · intro i j
    cases o <;> simp only [Matrix.switchOrderWithoutRearrangement, Matrix.at?, Matrix.nrows, Matrix.ncols,
      Matrix.idx, Order.switch]
    · exact ite_congr_opt ⟨fun x => ⟨x.2, x.1⟩, fun x => ⟨x.2, x.1⟩⟩ (fun _ => rfl)
    · exact ite_congr_opt ⟨fun x => ⟨x.2, x.1⟩, fun x => ⟨x.2, x.1⟩⟩ (fun _ => rfl)

/-- C05: applied twice, `transpose` restores the original triple — order, shape and the very
same memory-order sequence. -/
theorem Matrix.transpose_involutive (m : Matrix α) (h : m.Coh) :
    ∃ m', m.transpose = .ok m' ∧ m'.transpose = .ok m := by
  obtain ⟨o, ⟨M, mn⟩, d⟩ := m
  simp only [Matrix.Coh] at h
  obtain ⟨d', h1, h2, h3⟩ := transpose_data_spec M mn d h.symm
  obtain ⟨d'', k1, k2, k3⟩ := transpose_data_spec mn M d' (by rw [h2, Nat.mul_comm])
  refine ⟨{ order := o, shape := ⟨mn, M⟩, data := d' }, by simp [Matrix.transpose, h1], ?_⟩
  have hdd : d'' = d := by
    apply Array.ext_getElem?
    intro k
    by_cases hk : k < M * mn
    · have hmn : 0 < mn := by
        rcases Nat.eq_zero_or_pos mn with e | e
        · subst e; simp at hk
        · exact e
      have hi : k / mn < M := Nat.div_lt_of_lt_mul (by rw [Nat.mul_comm]; exact hk)
      have hj : k % mn < mn := Nat.mod_lt _ hmn
      have e : k / mn * mn + k % mn = k := by rw [Nat.mul_comm]; exact Nat.div_add_mod k mn
      have := k3 (k % mn) (k / mn) hj hi
      rw [e, h3 (k / mn) (k % mn) hi hj, e] at this
      exact this
    · rw [Array.getElem?_eq_none (by rw [k2, Nat.mul_comm]; omega), Array.getElem?_eq_none (by omega)]
  simp [Matrix.transpose, k1, hdd]

end Proto
