namespace T2

def usizeMax : Nat := 2 ^ 64 - 1
def isizeMax : Nat := 2 ^ 63 - 1

inductive Fault where
  | panic (s : String)
  | ub (s : String)
  deriving Repr, DecidableEq

abbrev M := Except Fault

-- checked machine operations (debug-build semantics)
def uadd (a b : Nat) : M Nat := if a + b ≤ usizeMax then .ok (a + b) else .error (.panic "attempt to add with overflow")
def usub (a b : Nat) : M Nat := if b ≤ a then .ok (a - b) else .error (.panic "attempt to subtract with overflow")
def umul (a b : Nat) : M Nat := if a * b ≤ usizeMax then .ok (a * b) else .error (.panic "attempt to multiply with overflow")
def udiv (a b : Nat) : M Nat := if b = 0 then .error (.panic "attempt to divide by zero") else .ok (a / b)
def urem (a b : Nat) : M Nat := if b = 0 then .error (.panic "attempt to calculate the remainder with a divisor of zero") else .ok (a % b)

inductive Order | rowMajor | colMajor deriving Repr, DecidableEq
structure AxisShape where
  major : Nat
  minor : Nat
  deriving Repr, DecidableEq
structure AxisIndex where
  major : Nat
  minor : Nat
  deriving Repr, DecidableEq
structure WrappingIndex where
  row : Int
  col : Int
  deriving Repr, DecidableEq

/-! ## what the translator would emit (Gen) -/
namespace Gen

def AxisShape.major_stride (self : AxisShape) : M Nat := pure self.minor
def AxisShape.minor_stride (_self : AxisShape) : M Nat := pure 1

-- pub(crate) fn to_flattened(self, shape: AxisShape) -> usize {
--     self.major * shape.major_stride() + self.minor * shape.minor_stride() }
def AxisIndex.to_flattened (self : AxisIndex) (shape : AxisShape) : M Nat := do
  let t1 ← AxisShape.major_stride shape
  let t2 ← umul self.major t1
  let t3 ← AxisShape.minor_stride shape
  let t4 ← umul self.minor t3
  uadd t2 t4

-- pub(crate) fn from_flattened(index: usize, shape: AxisShape) -> Self {
--     let major = index / shape.major_stride();
--     let minor = (index % shape.major_stride()) / shape.minor_stride();
--     Self { major, minor } }
def AxisIndex.from_flattened (index : Nat) (shape : AxisShape) : M AxisIndex := do
  let t1 ← AxisShape.major_stride shape
  let major ← udiv index t1
  let t2 ← AxisShape.major_stride shape
  let t3 ← urem index t2
  let t4 ← AxisShape.minor_stride shape
  let minor ← udiv t3 t4
  pure { major := major, minor := minor }

-- from_wrapping_index
def AxisIndex.from_wrapping_index (index : WrappingIndex) (order : Order) (shape : AxisShape) : M AxisIndex := do
  let (major, minor) := match order with
    | .rowMajor => (index.row, index.col)
    | .colMajor => (index.col, index.row)
  let major ← (if major < 0 then do
      let t1 ← urem major.natAbs shape.major
      let t2 ← usub shape.major t1
      urem t2 shape.major
    else urem major.toNat shape.major)
  let minor ← (if minor < 0 then do
      let t1 ← urem minor.natAbs shape.minor
      let t2 ← usub shape.minor t1
      urem t2 shape.minor
    else urem minor.toNat shape.minor)
  pure { major := major, minor := minor }

end Gen

/-! ## hand-written model twin + bridge -/

def toFlattened (i : AxisIndex) (s : AxisShape) : Nat := i.major * s.minor + i.minor

theorem bridge_to_flattened (i : AxisIndex) (s : AxisShape) (h : i.major * s.minor + i.minor ≤ usizeMax) :
    Gen.AxisIndex.to_flattened i s = .ok (toFlattened i s) := by
  simp only [Gen.AxisIndex.to_flattened, Gen.AxisShape.major_stride, Gen.AxisShape.minor_stride,
    umul, uadd, toFlattened, bind, Except.bind, pure, Except.pure, Nat.mul_one]
  have h1 : i.major * s.minor ≤ usizeMax := by omega
  have h2 : i.minor ≤ usizeMax := by omega
  simp [h1, h2, h]

/-- C13 arithmetic core: the double reduction is the Euclidean remainder. -/
theorem wrap_neg (a M : Nat) (hM : 0 < M) :
    (((M - a % M) % M : Nat) : Int) = (-(a : Int)) % (M : Int) := by
  have hlt : a % M < M := Nat.mod_lt _ hM
  have key : (-(a : Int)) = ((M - a % M : Nat) : Int) + (M : Int) * (-((a / M : Nat) : Int) - 1) := by
    have := Nat.div_add_mod a M
    have h1 : ((M - a % M : Nat) : Int) = (M : Int) - ((a % M : Nat) : Int) := by omega
    rw [h1]
    have h2 : (a : Int) = (M : Int) * ((a / M : Nat) : Int) + ((a % M : Nat) : Int) := by
      exact_mod_cast this.symm
    rw [Int.mul_sub, Int.mul_neg, Int.mul_one]
    omega
  rw [key, Int.add_mul_emod_self_left]
  exact_mod_cast rfl

def wrapSpec (x : Int) (M : Nat) : Nat := (x % (M : Int)).toNat

theorem bridge_from_wrapping (index : WrappingIndex) (order : Order) (shape : AxisShape)
    (hM : 0 < shape.major) (hm : 0 < shape.minor) :
    Gen.AxisIndex.from_wrapping_index index order shape =
      .ok (match order with
        | .rowMajor => { major := wrapSpec index.row shape.major, minor := wrapSpec index.col shape.minor }
        | .colMajor => { major := wrapSpec index.col shape.major, minor := wrapSpec index.row shape.minor }) := by
  have one : ∀ (x : Int) (n : Nat), 0 < n →
      (if x < 0 then (do
          let t1 ← urem x.natAbs n
          let t2 ← usub n t1
          urem t2 n)
        else urem x.toNat n) = (.ok (wrapSpec x n) : M Nat) := by
    intro x n hM
    have hne : n ≠ 0 := by omega
    by_cases hx : x < 0
    · have hlt : x.natAbs % n < n := Nat.mod_lt _ hM
      have hle : x.natAbs % n ≤ n := by omega
      simp only [hx, ↓reduceIte, urem, hne, usub, hle, bind, Except.bind]
      congr 1
      unfold wrapSpec
      have := wrap_neg x.natAbs n hM
      have hx' : (-(x.natAbs : Int)) = x := by omega
      rw [hx'] at this
      rw [← this]; omega
    · simp only [hx, ↓reduceIte, urem, hne]
      congr 1
      unfold wrapSpec
      have hx0 : 0 ≤ x := by omega
      have : x = (x.toNat : Int) := by omega
      have h2 : x % (n : Int) = ((x.toNat % n : Nat) : Int) := by
        conv => lhs; rw [this]
        norm_cast
      rw [h2]; omega
  unfold Gen.AxisIndex.from_wrapping_index
  cases order <;> dsimp only <;> rw [one _ _ hM, one _ _ hm] <;> rfl

end T2
