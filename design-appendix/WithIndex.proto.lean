import Fnd
/-
Prototype (C15): `Index::from_flattened(k, order, shape)` (src/index.rs:293-295, 590-594) pairs
memory position `k` with the unique in-bounds `(row, col)` whose element `get` returns.
-/
namespace Fnd

variable {α : Type}

/-- `AxisIndex::from_flattened(k, shape).to_index(order)` on a shape with `minor > 0` -/
def Matrix.rc (m : Matrix α) (k : Nat) : Nat × Nat :=
  match m.order with
  | .rowMajor => (k / m.shape.minor, k % m.shape.minor)
  | .colMajor => (k % m.shape.minor, k / m.shape.minor)

/-- C15: for every memory position `k` of a coherent matrix, the reported index is in bounds,
flattens back to `k` (so `get` returns the very element at position `k`), and no division by zero
can occur (`k < size` forces `minor > 0`). Together with `idx_inj` this makes `k ↦ (row, col)` a
bijection between memory positions and in-bounds coordinates. -/
theorem Matrix.rc_spec (m : Matrix α) (h : m.Coh) (k : Nat) (hk : k < m.data.size) :
    0 < m.shape.minor ∧ (m.rc k).1 < m.nrows ∧ (m.rc k).2 < m.ncols ∧ m.idx (m.rc k).1 (m.rc k).2 = k ∧
      m.at? (m.rc k).1 (m.rc k).2 = m.data[k]? := by
  rw [← h.size_eq] at hk
  obtain ⟨h1, h2⟩ := unflat_lt hk
  have hfu := flat_unflat m.shape.minor k
  have hpos : 0 < m.shape.minor := by omega
  obtain ⟨o, sh, d⟩ := m
  cases o <;> simp only [Matrix.rc, Matrix.nrows, Matrix.ncols, Matrix.idx, Matrix.at?] at *
  · exact ⟨hpos, h1, h2, hfu, by simp [h1, h2, hfu]⟩
  · exact ⟨hpos, h2, h1, hfu, by simp [h1, h2, hfu]⟩

/-- every in-bounds coordinate is reported for exactly one memory position -/
theorem Matrix.rc_idx (m : Matrix α) {r c : Nat} (hr : r < m.nrows) (hc : c < m.ncols) :
    m.rc (m.idx r c) = (r, c) := by
  obtain ⟨o, sh, d⟩ := m
  cases o <;> simp only [Matrix.rc, Matrix.nrows, Matrix.ncols, Matrix.idx] at *
  · rw [flat_div hc, flat_mod hc]
  · rw [flat_div hr, flat_mod hr]

end Fnd
