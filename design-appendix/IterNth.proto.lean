/-
Prototype: `IterNthVectorMut` (src/iter/iter_mut.rs:233-421) as an address-level state machine,
refined to a double-ended queue of logical positions.
-/
namespace Proto.IterMut

def usizeMax : Nat := 2 ^ 64 - 1

structure Cfg where
  base : Nat      -- address of `data.as_mut_ptr()`
  es : Nat        -- size_of::<T>()
  len : Nat       -- data.len()
  dangling : Nat  -- align_of::<T>()

inductive Fault where
  | ub (s : String)
  | panic (s : String)
  deriving Repr

/-- `NonNull::add(n)` (non-ZST) / `without_provenance_mut(addr + n)` (ZST) -/
def advance (cfg : Cfg) (addr n : Nat) : Except Fault Nat :=
  if cfg.es = 0 then
    if addr + n ≤ usizeMax then .ok (addr + n) else .error (.panic "attempt to add with overflow")
  else if addr + n * cfg.es ≤ cfg.base + cfg.len * cfg.es then .ok (addr + n * cfg.es)
  else .error (.ub "ptr::add leaves the allocation")

def retreat (cfg : Cfg) (addr n : Nat) : Except Fault Nat :=
  if cfg.es = 0 then
    if n < addr then .ok (addr - n)
    else if n = addr then .error (.ub "NonNull::new_unchecked(null)")
    else .error (.panic "attempt to subtract with overflow")
  else if cfg.base + n * cfg.es ≤ addr then .ok (addr - n * cfg.es)
  else .error (.ub "ptr::sub leaves the allocation")

/-- `lower.as_mut()`: must point at a live, aligned element; ZST: always the dangling reference -/
def deref (cfg : Cfg) (addr : Nat) : Except Fault Nat :=
  if cfg.es = 0 then .ok cfg.dangling
  else if cfg.base ≤ addr ∧ addr + cfg.es ≤ cfg.base + cfg.len * cfg.es ∧ (addr - cfg.base) % cfg.es = 0
  then .ok addr else .error (.ub "reference to memory outside the buffer")

structure Nth where
  lower : Nat
  upper : Nat
  stride : Option Nat
  deriving Repr

def Nth.assemble (cfg : Cfg) (lower stride length : Nat) : Except Fault Nth :=
  match advance cfg lower ((length - 1) * stride) with
  | .error e => .error e
  | .ok upper => .ok ⟨lower, upper, some stride⟩

def Nth.next (cfg : Cfg) (it : Nth) : Except Fault (Option Nat × Nth) :=
  match it.stride with
  | none => .ok (none, it)
  | some stride =>
    match deref cfg it.lower with
    | .error e => .error e
    | .ok r =>
      if it.lower = it.upper then .ok (some r, { it with stride := none })
      else match advance cfg it.lower stride with
        | .error e => .error e
        | .ok l => .ok (some r, { it with lower := l })

def Nth.nextBack (cfg : Cfg) (it : Nth) : Except Fault (Option Nat × Nth) :=
  match it.stride with
  | none => .ok (none, it)
  | some stride =>
    match deref cfg it.upper with
    | .error e => .error e
    | .ok r =>
      if it.lower = it.upper then .ok (some r, { it with stride := none })
      else match retreat cfg it.upper stride with
        | .error e => .error e
        | .ok u => .ok (some r, { it with upper := u })

def Nth.len (cfg : Cfg) (it : Nth) : Nat :=
  match it.stride with
  | none => 0
  | some stride => 1 + (it.upper - it.lower) / (stride * if cfg.es = 0 then 1 else cfg.es)

/-! ### refinement to a deque of positions `f, f+1, ..., length-1-b` -/

/-- address the iterator holds for the `t`-th element of its vector -/
def A (cfg : Cfg) (lower0 stride t : Nat) : Nat :=
  lower0 + t * stride * (if cfg.es = 0 then 1 else cfg.es)

/-- what `next` hands to the caller for position `t` -/
def Y (cfg : Cfg) (lower0 stride t : Nat) : Nat :=
  if cfg.es = 0 then cfg.dangling else A cfg lower0 stride t

/-- the vector lies inside the buffer (non-ZST) / inside the address space (ZST) -/
structure Valid (cfg : Cfg) (lower0 stride length : Nat) : Prop where
  hstride : 0 < stride
  hlength : 0 < length
  nz : cfg.es ≠ 0 → ∃ off0, lower0 = cfg.base + off0 * cfg.es ∧ off0 + (length - 1) * stride < cfg.len
  z : cfg.es = 0 → 0 < lower0 ∧ lower0 + (length - 1) * stride ≤ usizeMax

/-- refinement relation: `f` taken from the front, `b` from the back -/
def R (cfg : Cfg) (lower0 stride length : Nat) (it : Nth) (f b : Nat) : Prop :=
  (f + b < length ∧ it.stride = some stride ∧ it.lower = A cfg lower0 stride f ∧
      it.upper = A cfg lower0 stride (length - 1 - b)) ∨
  (f + b = length ∧ it.stride = none)

theorem A_mono (cfg : Cfg) (lower0 stride : Nat) (hs : 0 < stride) (t u : Nat) :
    A cfg lower0 stride t = A cfg lower0 stride u ↔ t = u := by
  unfold A
  have hu : 0 < stride * (if cfg.es = 0 then 1 else cfg.es) := by
    apply Nat.mul_pos hs; split <;> omega
  constructor
  · intro h
    have : t * (stride * if cfg.es = 0 then 1 else cfg.es) = u * (stride * if cfg.es = 0 then 1 else cfg.es) := by
      rw [← Nat.mul_assoc, ← Nat.mul_assoc]; omega
    exact Nat.eq_of_mul_eq_mul_right hu this
  · intro h; rw [h]

theorem assemble_R (cfg : Cfg) (lower0 stride length : Nat) (hv : Valid cfg lower0 stride length) :
    ∃ it, Nth.assemble cfg lower0 stride length = .ok it ∧ R cfg lower0 stride length it 0 0 := by
  obtain ⟨hs, hl, nz, z⟩ := hv
  unfold Nth.assemble advance
  by_cases hz : cfg.es = 0
  · obtain ⟨h1, h2⟩ := z hz
    simp only [hz, ↓reduceIte, h2]
    refine ⟨_, rfl, Or.inl ⟨by omega, rfl, by simp [A], ?_⟩⟩
    simp [A, hz]
  · obtain ⟨off0, h1, h2⟩ := nz hz
    simp only [hz, ↓reduceIte]
    have hb : lower0 + (length - 1) * stride * cfg.es ≤ cfg.base + cfg.len * cfg.es := by
      rw [h1, Nat.add_assoc, ← Nat.add_mul]
      apply Nat.add_le_add_left
      apply Nat.mul_le_mul_right
      omega
    simp only [hb, ↓reduceIte]
    refine ⟨_, rfl, Or.inl ⟨by omega, rfl, by simp [A], ?_⟩⟩
    simp [A, hz]


theorem A_succ (cfg : Cfg) (lower0 stride t : Nat) :
    A cfg lower0 stride (t + 1) = A cfg lower0 stride t + stride * (if cfg.es = 0 then 1 else cfg.es) := by
  unfold A; rw [Nat.add_mul, Nat.add_mul]; simp [Nat.add_assoc]

theorem A_le (cfg : Cfg) (lower0 stride t u : Nat) (h : t ≤ u) :
    A cfg lower0 stride t ≤ A cfg lower0 stride u := by
  unfold A
  apply Nat.add_le_add_left
  apply Nat.mul_le_mul_right
  exact Nat.mul_le_mul_right _ h

/-- every position of a valid vector dereferences fine and gives the expected address -/
theorem deref_A (cfg : Cfg) (lower0 stride length : Nat) (hv : Valid cfg lower0 stride length)
    (t : Nat) (ht : t < length) : deref cfg (A cfg lower0 stride t) = .ok (Y cfg lower0 stride t) := by
  obtain ⟨hs, hl, nz, z⟩ := hv
  unfold deref Y
  by_cases hz : cfg.es = 0
  · simp [hz]
  · obtain ⟨off0, h1, h2⟩ := nz hz
    simp only [hz, ↓reduceIte]
    have hA : A cfg lower0 stride t = cfg.base + (off0 + t * stride) * cfg.es := by
      simp [A, hz, h1, Nat.add_mul, Nat.add_assoc]
    have hle : off0 + t * stride + 1 ≤ cfg.len := by
      have : t * stride ≤ (length - 1) * stride := Nat.mul_le_mul_right _ (by omega)
      omega
    have hb : A cfg lower0 stride t + cfg.es ≤ cfg.base + cfg.len * cfg.es := by
      rw [hA, Nat.add_assoc]
      apply Nat.add_le_add_left
      calc (off0 + t * stride) * cfg.es + cfg.es = (off0 + t * stride + 1) * cfg.es := by
            rw [Nat.add_mul (off0 + t * stride) 1]; simp
        _ ≤ cfg.len * cfg.es := Nat.mul_le_mul_right _ hle
    have hmod : (A cfg lower0 stride t - cfg.base) % cfg.es = 0 := by
      rw [hA]; simp
    have hge : cfg.base ≤ A cfg lower0 stride t := by rw [hA]; omega
    simp [hge, hb, hmod]

theorem next_refines (cfg : Cfg) (lower0 stride length : Nat) (hv : Valid cfg lower0 stride length)
    (it : Nth) (f b : Nat) (hR : R cfg lower0 stride length it f b) :
    (f + b < length → ∃ it', Nth.next cfg it = .ok (some (Y cfg lower0 stride f), it') ∧
        R cfg lower0 stride length it' (f + 1) b) ∧
    (f + b = length → Nth.next cfg it = .ok (none, it)) := by
  have hv' := hv
  obtain ⟨hs, hl, nz, z⟩ := hv
  constructor
  · intro hlt
    rcases hR with ⟨_, hst, hlo, hup⟩ | ⟨h, _⟩
    · unfold Nth.next
      simp only [hst, hlo, deref_A cfg lower0 stride length hv' f (by omega), hup, A_mono cfg lower0 stride hs]
      by_cases hlast : f = length - 1 - b
      · simp only [hlast, ↓reduceIte]
        exact ⟨_, rfl, Or.inr ⟨by omega, rfl⟩⟩
      · simp only [hlast, ↓reduceIte]
        have hadv : advance cfg (A cfg lower0 stride f) stride = .ok (A cfg lower0 stride (f + 1)) := by
          unfold advance
          have hle := A_le cfg lower0 stride (f + 1) (length - 1) (by omega)
          by_cases hz : cfg.es = 0
          · obtain ⟨_, h2⟩ := z hz
            have e := A_succ cfg lower0 stride f
            simp only [hz, ↓reduceIte, Nat.mul_one] at e ⊢
            have : A cfg lower0 stride (length - 1) ≤ usizeMax := by simpa [A, hz] using h2
            have : A cfg lower0 stride f + stride ≤ usizeMax := by omega
            simp [this, e]
          · have e := A_succ cfg lower0 stride f
            simp only [hz, ↓reduceIte] at e ⊢
            have hd := deref_A cfg lower0 stride length hv' (length - 1) (by omega)
            unfold deref at hd
            simp only [hz, ↓reduceIte] at hd
            split at hd
            · rename_i hh
              have : A cfg lower0 stride f + stride * cfg.es ≤ cfg.base + cfg.len * cfg.es := by omega
              simp [this, e]
            · cases hd
        simp only [hadv]
        exact ⟨_, rfl, Or.inl ⟨by omega, rfl, rfl, rfl⟩⟩
    · omega
  · intro heq
    rcases hR with ⟨h, _⟩ | ⟨_, hst⟩
    · omega
    · unfold Nth.next; simp [hst]

theorem len_refines (cfg : Cfg) (lower0 stride length : Nat) (hv : Valid cfg lower0 stride length)
    (it : Nth) (f b : Nat) (hR : R cfg lower0 stride length it f b) :
    Nth.len cfg it = length - f - b := by
  obtain ⟨hs, hl, nz, z⟩ := hv
  rcases hR with ⟨h, hst, hlo, hup⟩ | ⟨h, hst⟩
  · unfold Nth.len
    simp only [hst, hlo, hup]
    have hu : 0 < stride * (if cfg.es = 0 then 1 else cfg.es) := by
      apply Nat.mul_pos hs; split <;> omega
    have : A cfg lower0 stride (length - 1 - b) - A cfg lower0 stride f
        = (length - 1 - b - f) * (stride * (if cfg.es = 0 then 1 else cfg.es)) := by
      unfold A
      rw [Nat.mul_assoc, Nat.mul_assoc, Nat.add_sub_add_left, ← Nat.sub_mul]
    rw [this, Nat.mul_div_cancel _ hu]
    omega
  · unfold Nth.len; simp [hst]; omega

end Proto.IterMut
