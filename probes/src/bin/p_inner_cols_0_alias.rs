#![allow(unused)]
use matreex::Matrix;

#[derive(Default)]
struct SyncNotSend(u8, std::marker::PhantomData<std::sync::MutexGuard<'static, u8>>);

fn need_send<X: Send>(_: &X) {}
fn need_sync<X: Sync>(_: &X) {}

fn main() {
    let mut m: Matrix<u64> = Matrix::new();
    let mut outer = m.iter_cols_mut();
    let it = outer.next().unwrap();
    drop(outer);
    m.clear();
    let _ = it.len();
}
