#![allow(unused)]
use matreex::Matrix;

#[derive(Default)]
struct SyncNotSend(u8, std::marker::PhantomData<std::sync::MutexGuard<'static, u8>>);

fn need_send<X: Send>(_: &X) {}
fn need_sync<X: Sync>(_: &X) {}

fn main() {
    let mut m: Matrix<u64> = Matrix::new();
    let it = m.iter_cols_mut();
    let second = m.iter_cols_mut().len();
    let _ = (it.len(), second);
}
