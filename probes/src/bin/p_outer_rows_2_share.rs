#![allow(unused)]
use matreex::Matrix;

#[derive(Default)]
struct SyncNotSend(u8, std::marker::PhantomData<std::sync::MutexGuard<'static, u8>>);

fn need_send<X: Send>(_: &X) {}
fn need_sync<X: Sync>(_: &X) {}

fn main() {
    let mut m: Matrix<SyncNotSend> = Matrix::new();
    let it = m.iter_rows_mut();
    std::thread::scope(|s| {
        s.spawn(|| {
            let _ = it.len();
        });
    });
}
