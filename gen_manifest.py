#!/usr/bin/env python3
"""Regenerates MANIFEST.json from translate/props.py (claimed properties) + the fixed parts."""
import json, os, sys, subprocess
ROOT = os.path.dirname(os.path.abspath(__file__))
sys.path.insert(0, os.path.join(ROOT, "translate"))
from props import PROPS, NOT_APPLICABLE, LEVEL_TEXT

hook_commits = subprocess.run(["git", "-C", "/repo", "log", "--format=%H %s", "--grep=^verif-hooks"], capture_output=True, text=True).stdout.strip().splitlines()
m = {
    "version": 1,
    "setup_cmd": "./setup.sh",
    "hooks": {
        "guard": "verif-hooks",
        "enable": "cargo feature: the harness depends on /repo with features = [\"full\", \"verif-hooks\"] (harness/Cargo.toml)",
        "baseline_off_cmd": "cd /repo && cargo test --workspace --no-fail-fast --offline",
        "source_commits": [c.split()[0] for c in hook_commits],
        "add_only": True,
    },
    "engines": [
        {"name": "lean-proof", "path": "lean/", "serves_properties": sorted(PROPS),
         "kind_free_text": "Lean 4 model (lean/Matreex/Model), code regenerated from /repo/src by translate/ (lean/Matreex/Gen), property theorems (lean/Matreex/Props), axiom audit"},
        {"name": "correspondence", "path": "harness/", "serves_properties": sorted(PROPS),
         "kind_free_text": "Rust harness running the real crate + compiled Lean driver running the model on the same operation lines; diff; per-property oracle on the implementation"},
        {"name": "translators", "path": "translate/", "serves_properties": sorted(PROPS),
         "kind_free_text": "t2.py: pure integer functions of /repo/src -> lean/Matreex/Gen/Core.lean; t1.py: tables (allocation order, scalar / elementwise / negation / parallel / conformability-guard forms, macro arms, auto-trait impls) -> lean/Matreex/Gen/*.lean; run first in every check"},
        {"name": "compile-probes", "path": "probes/", "serves_properties": ["C17"],
         "kind_free_text": "72 generated client programs type-checked with cargo check against /repo; accept / reject verdict and diagnostic code compared with the Lean auto-trait model"},
        {"name": "feature-configurations", "path": "fmtcfg/", "serves_properties": ["C20"],
         "kind_free_text": "the formatting operations of a C20 run recomputed against /repo built with no default features and with its default features; text compared with the full-feature harness"},
    ],
    "checks": [],
    "not_applicable": [{"property_id": k, "reason": v} for k, v in sorted(NOT_APPLICABLE.items()) if k not in PROPS],
    "notes": "One entry point: ./check.py <id> --tier quick|thorough. See DESIGN.md.",
}
for pid in sorted(PROPS):
    spec = PROPS[pid]
    m["checks"].append({
        "property_id": pid,
        "quick_cmd": f"./check.py {pid} --tier quick",
        "thorough_cmd": f"./check.py {pid} --tier thorough",
        "evidence_file": f"evidence/{pid}.json",
        "replay_cmd_template": f"./check.py {pid} --replay {{path}}",
        "engine": "lean-proof",
        "level_claimed": {"category": "proof", "text": spec.get("level_text", LEVEL_TEXT), "design_ref": spec.get("design_ref", "DESIGN.md sections 0.2 (as built) and 6 (plan), " + pid)},
        "level_note": "; ".join(spec.get("trusted", []) + spec.get("assumptions", [])) or "see DESIGN.md section 5",
        "technique": spec.get("technique", "Lean 4 theorems over a model tied to /repo by translation (T2) and differential correspondence"),
    })
json.dump(m, open(os.path.join(ROOT, "MANIFEST.json"), "w"), indent=1)
print("MANIFEST.json:", len(m["checks"]), "checks,", len(m["not_applicable"]), "not applicable")
