#!/usr/bin/env python3
"""Maintenance tool (not a registered check): verify a seeded change and run checks against it.

    seedtest.py verify <worktree> <patch> <demo.rs>     suite passes with patch; demo fails with / passes without
    seedtest.py run <patch> <Cxx> [<Cxx> ...]           apply to /repo, run the quick checks, undo; prints verdicts
"""
import subprocess, sys, os, re

def sh(cmd, cwd=None, timeout=3000):
    p = subprocess.run(cmd, cwd=cwd, shell=isinstance(cmd, str), stdout=subprocess.PIPE, stderr=subprocess.STDOUT, text=True, timeout=timeout)
    return p.returncode, p.stdout

def verify(wt, patch, demo):
    env = "CARGO_NET_OFFLINE=true "
    sh("git checkout -- . && rm -rf tests", cwd=wt)
    rc, out = sh(f"git apply {patch}", cwd=wt)
    if rc: return {"ok": False, "why": "patch does not apply: " + out}
    rc, out = sh(env + "cargo test --offline --lib 2>&1 | grep -E '^test result'", cwd=wt)
    suite = out.strip()
    os.makedirs(os.path.join(wt, "tests"), exist_ok=True)
    sh(f"cp {demo} {wt}/tests/demo.rs")
    rc1, out1 = sh(env + "cargo test --offline --test demo 2>&1 | tail -5", cwd=wt)
    with_patch = "test result: ok" in out1 and "FAILED" not in out1
    sh("git checkout -- .", cwd=wt)
    rc2, out2 = sh(env + "cargo test --offline --test demo 2>&1 | tail -5", cwd=wt)
    without = "test result: ok" in out2 and "FAILED" not in out2
    sh("rm -rf tests", cwd=wt)
    ok = ("132 passed; 0 failed" in suite) and (not with_patch) and without
    return {"ok": ok, "suite_with_patch": suite, "demo_with_patch_passes": with_patch, "demo_without_patch_passes": without,
            "demo_tail_with_patch": out1[-400:]}

def run(patch, props):
    rc, out = sh(f"git -C /repo apply {patch}")
    if rc:
        print("patch does not apply:", out); return
    res = {}
    # evidence files are rewritten by every run: keep the ones of the unchanged tree
    import shutil, tempfile
    evdir = os.path.join(os.path.dirname(os.path.abspath(__file__)), "evidence")
    backup = tempfile.mkdtemp(prefix="evidence-backup-")
    for f in os.listdir(evdir):
        shutil.copy(os.path.join(evdir, f), backup)
    try:
        for p in props:
            rc, out = sh([os.path.join(os.path.dirname(os.path.abspath(__file__)), "check.py"), p, "--tier", "quick"])
            lines = [l for l in out.splitlines() if l.startswith(("VIOLATION", "KNOWN", "["))]
            res[p] = (rc, lines)
            print(p, "rc=%d" % rc, " || ".join(lines)[:600])
    finally:
        sh("git -C /repo checkout -- .")
        # bring the regenerated Lean files back in line with the restored tree
        sh([sys.executable, "/verif/translate/t2.py"]); sh([sys.executable, "/verif/translate/t1.py"])
        for f in os.listdir(backup):
            shutil.copy(os.path.join(backup, f), evdir)
        shutil.rmtree(backup)
    return res

MUT_ROOT = os.environ.get("MUT_ROOT", "/tmp/mut")


def full(prop, k, props):
    """verify mutant k of property prop (agent output in /tmp/mut/<prop>.out), run checks, store under seeded/"""
    import json, shutil
    src = f"{MUT_ROOT}/{prop}.out"
    v = verify(f"{MUT_ROOT}/{prop}", f"{src}/patch{k}.diff", f"{src}/demo{k}.rs")
    print("verify:", v["ok"], v["suite_with_patch"][:60], "| demo with patch passes:", v["demo_with_patch_passes"], "| without:", v["demo_without_patch_passes"])
    if not v["ok"]:
        print("NOT KEPT"); return
    res = run(f"{src}/patch{k}.diff", props) or {}
    d = os.path.join(os.path.dirname(os.path.abspath(__file__)), "seeded", f"{prop}-{k}")
    os.makedirs(d, exist_ok=True)
    shutil.copy(f"{src}/patch{k}.diff", f"{d}/patch.diff"); shutil.copy(f"{src}/demo{k}.rs", f"{d}/demo.rs")
    notes = open(f"{src}/notes.md").read() if os.path.exists(f"{src}/notes.md") else ""
    open(f"{d}/notes.md", "w").write(notes)
    meta = {"property": prop, "mutant": k, "origin": "independent sub-agent given only the property text and a scratch worktree",
            "needs_to_manifest": "see notes.md (section for mutant %s)" % k,
            "confirmed": {"how": "seedtest.py verify in scratch worktree %s/%s: cargo test --offline --lib with patch; cargo test --offline --test demo with and without patch" % (MUT_ROOT, prop), **v},
            "checks_run": {p: {"exit": rc, "lines": lines} for p, (rc, lines) in res.items()},
            "detected": any(rc == 1 for rc, _ in res.values())}
    json.dump(meta, open(f"{d}/meta.json", "w"), indent=1)
    print("stored", d, "detected =", meta["detected"])

if __name__ == "__main__":
    if sys.argv[1] == "full":
        full(sys.argv[2], sys.argv[3], sys.argv[4:])
    elif sys.argv[1] == "verify":
        print(verify(*sys.argv[2:5]))
    else:
        run(sys.argv[2], sys.argv[3:])
