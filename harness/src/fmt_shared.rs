// shared by the harness (c20.rs) and by /verif/fmtcfg: the palette of element renderings (must
// match lean/Driver/Fmt.lean), the element type, and the observation text

pub const PALETTE: [&str; 24] = [
    "", "a", "ab", "äöü", "x\ny", "\n", "p\r\nq", "a longer rendering", "日本", "a\n\nb", "tail\n", "\r",
    "7", "-12", "3.25", "wide\nw\nlonger line", " ", "\n\n", "é", "tab\there",
    // wider than any fixed-size padding buffer one might think of (70 ASCII, 65 two-byte characters)
    "wwwwwwwwwwwwwwwwwwwwwwwwwwwwwwwwwwwwwwwwwwwwwwwwwwwwwwwwwwwwwwwwwwwwww",
    "ééééééééééééééééééééééééééééééééééééééééééééééééééééééééééééééééé",
    // CR LF line breaks between multi-byte characters (a byte-offset slip lands inside a character)
    "é\r\nü\r\n日本", "日\r\n\r\n本x",
];

#[derive(Clone)]
pub struct P(pub usize);
impl std::fmt::Display for P {
    fn fmt(&self, f: &mut std::fmt::Formatter<'_>) -> std::fmt::Result { f.write_str(PALETTE[self.0]) }
}
impl std::fmt::Debug for P {
    fn fmt(&self, f: &mut std::fmt::Formatter<'_>) -> std::fmt::Result { f.write_str(PALETTE[self.0]) }
}

pub fn escape(s: &str) -> String {
    s.replace('\\', "\\\\").replace('\n', "\\n").replace('\r', "\\r").replace('\t', "\\t")
}
