//! C20: Display / Debug text of matrices whose elements render as palette strings (empty,
//! multi-byte, multi-line, CR/LF variants), all shapes, both orders.

use crate::common::*;
use matreex::{Matrix, Order};

#[path = "fmt_shared.rs"]
mod fmt_shared;
pub use fmt_shared::*;

fn single_line(i: usize) -> bool { !PALETTE[i].contains('\n') }

/// logical rows -> memory-order palette indices for the given order
fn mem(order: Order, nr: usize, nc: usize, logical: &[Vec<usize>]) -> Vec<usize> {
    match order {
        Order::RowMajor => logical.iter().flatten().copied().collect(),
        Order::ColMajor => (0..nc).flat_map(|c| (0..nr).map(move |r| (r, c))).map(|(r, c)| logical[r][c]).collect(),
    }
}

pub fn one(out: &mut Out, nr: usize, nc: usize, logical: &[Vec<usize>]) {
    let all_single = logical.iter().flatten().all(|&i| single_line(i));
    let mut display_texts = Vec::new();
    for order in ORDERS {
        let idx = mem(order, nr, nc, logical);
        let m: Matrix<P> = mk_from(order, nr, nc, idx.iter().map(|&i| P(i)).collect());
        let idx_s = if idx.is_empty() { "-".to_string() } else { idx.iter().map(|i| i.to_string()).collect::<Vec<_>>().join(",") };
        for kind in ["display", "debug"] {
            let op = format!("fmt {kind} {} {nr} {nc} {idx_s}", ord_ch(order));
            out.announce(&op);
            let res = catch(|| if kind == "display" { format!("{m}") } else { format!("{m:?}") });
            let obs = match res {
                None => { out.oracle_fail(&format!("{op}: formatting panicked")); "panic".to_string() }
                Some(text) => {
                    if kind == "display" {
                        display_texts.push(text.clone());
                        if all_single && nr * nc > 0 {
                            // one bracketed line per logical row, elements in column order, equal widths
                            let lines: Vec<&str> = text.split('\n').collect();
                            if lines.len() != nr + 2 || lines[0] != "[" || lines[nr + 1] != "]" {
                                out.oracle_fail(&format!("{op}: {} lines for {nr} rows: {:?}", lines.len(), text));
                            } else {
                                let widths: Vec<usize> = lines[1..=nr].iter().map(|l| l.chars().count()).collect();
                                if widths.iter().any(|w| *w != widths[0]) {
                                    out.oracle_fail(&format!("{op}: row lines have widths {:?}", widths));
                                }
                                let w = logical.iter().flatten().map(|&i| PALETTE[i].chars().count()).max().unwrap_or(0).max(1);
                                for (r, l) in lines[1..=nr].iter().enumerate() {
                                    let want: String = format!("    [{}]", (0..nc).map(|c| {
                                        let s = PALETTE[logical[r][c]];
                                        let pad = w - s.chars().count().min(w);
                                        if s.is_empty() { " ".repeat(w) } else { format!("{s}{}", " ".repeat(pad)) }
                                    }).collect::<Vec<_>>().join("  "));
                                    if *l != want {
                                        out.oracle_fail(&format!("{op}: row {r} is {:?}, expected {:?}", l, want));
                                    }
                                }
                            }
                        }
                        if nr * nc == 0 && text != "[]" {
                            out.oracle_fail(&format!("{op}: an element-less matrix printed as {:?}", text));
                        }
                    }
                    if kind == "debug" {
                        if nr * nc == 0 && text != "[]" {
                            out.oracle_fail(&format!("{op}: an element-less matrix printed as {:?}", text));
                        }
                        if all_single && nr * nc > 0 {
                            // `[`, a header of column numbers, one bracketed line per logical row (labelled with its
                            // number; every element labelled with its position in memory order), `]`; row lines equally wide
                            let lines: Vec<&str> = text.split('\n').collect();
                            if lines.len() != nr + 3 || lines[0] != "[" || lines[nr + 2] != "]" {
                                out.oracle_fail(&format!("{op}: {} lines for {nr} rows: {:?}", lines.len(), text.chars().take(300).collect::<String>()));
                            } else {
                                let widths: Vec<usize> = lines[2..nr + 2].iter().map(|l| l.chars().count()).collect();
                                if widths.iter().any(|w| *w != widths[0]) {
                                    out.oracle_fail(&format!("{op}: Debug row lines have widths {:?}", widths));
                                }
                                let iw = (nr * nc).to_string().len();
                                let w = logical.iter().flatten().map(|&i| PALETTE[i].chars().count()).max().unwrap_or(0).max(1);
                                for (r, l) in lines[2..nr + 2].iter().enumerate() {
                                    let cells: Vec<String> = (0..nc).map(|c| {
                                        let pos = if order == Order::RowMajor { r * nc + c } else { c * nr + r };
                                        let s = PALETTE[logical[r][c]];
                                        let body = if s.is_empty() { " ".repeat(w) } else { format!("{s}{}", " ".repeat(w - s.chars().count().min(w))) };
                                        format!("{pos:>iw$} {body}")
                                    }).collect();
                                    let want = format!("    {r:>iw$}  [{}]", cells.join("  "));
                                    if *l != want {
                                        out.oracle_fail(&format!("{op}: Debug row {r} is {:?}, expected {:?}", l, want));
                                    }
                                }
                            }
                        }
                    }
                    format!("ok {}", escape(&text))
                }
            };
            out.count(&format!("kind:{kind}"));
            out.observe(&obs);
        }
    }
    if display_texts.len() == 2 && display_texts[0] != display_texts[1] {
        out.oracle_fail(&format!("Display of equal {nr}x{nc} matrices differs between storage orders: {:?} vs {:?}", display_texts[0], display_texts[1]));
    }
    out.count(if all_single { "renderings:single-line" } else { "renderings:multi-line" });
}

/// an element that counts how often it is rendered (and whose text would change with every call)
struct Cnt { calls: std::cell::Cell<usize>, text: &'static str }
impl std::fmt::Display for Cnt {
    fn fmt(&self, f: &mut std::fmt::Formatter<'_>) -> std::fmt::Result { self.calls.set(self.calls.get() + 1); f.write_str(self.text) }
}
impl std::fmt::Debug for Cnt {
    fn fmt(&self, f: &mut std::fmt::Formatter<'_>) -> std::fmt::Result { self.calls.set(self.calls.get() + 1); f.write_str(self.text) }
}

/// an element whose own rendering formats a matrix (what a block matrix does implicitly)
struct Wrap(Matrix<P>);
impl std::fmt::Display for Wrap {
    fn fmt(&self, f: &mut std::fmt::Formatter<'_>) -> std::fmt::Result { f.write_str(&self.0.to_string()) }
}
impl std::fmt::Debug for Wrap {
    fn fmt(&self, f: &mut std::fmt::Formatter<'_>) -> std::fmt::Result { f.write_str(&format!("{:?}", self.0)) }
}

/// every element is rendered exactly once per formatting call; elements whose rendering formats a
/// matrix themselves (block matrices) never make formatting panic, and Display stays order-independent
fn rendering_discipline(out: &mut Out) {
    out.case("fmt rendering discipline: call counts, nested matrices");
    out.nontrivial();
    for (nr, nc) in [(1usize, 1usize), (2, 3), (3, 2), (1, 4), (4, 1), (3, 3), (0, 2)] {
        for order in ORDERS {
            for kind in ["display", "debug"] {
                let op = format!("oracle fmt-call-counts {kind} {nr} {nc} {}", ord_ch(order));
                out.announce(&op);
                let texts = ["7", "x\ny", "", "long one", "é"];
                let m: Matrix<Cnt> = mk_from(order, nr, nc, (0..nr * nc).map(|k| Cnt { calls: std::cell::Cell::new(0), text: texts[k % texts.len()] }).collect());
                let res = catch(|| if kind == "display" { format!("{m}") } else { format!("{m:?}") });
                if res.is_none() { out.oracle_fail(&format!("{op}: formatting panicked")); }
                let counts: Vec<usize> = m.iter_elements().map(|e| e.calls.get()).collect();
                if counts.iter().any(|&c| c != 1) {
                    out.oracle_fail(&format!("{op}: the elements were rendered {:?} times (memory order), expected once each", counts));
                }
                out.observe("ok");
            }
        }
    }
    for (nr, nc) in [(1usize, 1usize), (2, 2), (1, 3), (2, 1)] {
        for kind in ["display", "debug"] {
            let op = format!("oracle fmt-nested {kind} {nr} {nc}");
            out.announce(&op);
            let inner = |k: usize, o: Order| -> Matrix<P> { mk_from(o, 2, 2, vec![P(1 + k % 3), P(12), P(3), P(2)]) };
            let mut texts = Vec::new();
            for order in ORDERS {
                let blocks: Matrix<Matrix<P>> = mk_from(order, nr, nc, (0..nr * nc).map(|k| inner(k, order)).collect());
                let wrapped: Matrix<Wrap> = mk_from(order, nr, nc, (0..nr * nc).map(|k| Wrap(inner(k, Order::RowMajor))).collect());
                let r1 = catch(|| if kind == "display" { format!("{blocks}") } else { format!("{blocks:?}") });
                let r2 = catch(|| if kind == "display" { format!("{wrapped}") } else { format!("{wrapped:?}") });
                if r1.is_none() { out.oracle_fail(&format!("{op}: formatting a matrix of matrices panicked ({:?})", order)); }
                if r2.is_none() { out.oracle_fail(&format!("{op}: formatting a matrix whose elements format a matrix panicked ({:?})", order)); }
                texts.push(r2);
            }
            // same logical contents (row-major inner blocks, position-independent) in both orders
            if kind == "display" && nr * nc == 1 && texts[0] != texts[1] {
                out.oracle_fail(&format!("{op}: Display differs between storage orders"));
            }
            out.observe("ok");
        }
    }
}

/// zero-sized elements with a one-character rendering
#[derive(Clone, Copy, Debug)]
struct Zs;
impl std::fmt::Display for Zs {
    fn fmt(&self, f: &mut std::fmt::Formatter<'_>) -> std::fmt::Result { f.write_str("z") }
}

/// `format!` of a 1 x n / n x 1 matrix of a zero-sized type, n from 2^58 (the first count whose 32-byte line queues exceed
/// isize::MAX bytes) upwards; counts just below are not run: the request would be granted or kill the process
fn huge_zst(out: &mut Out) {
    let es = std::mem::size_of::<std::collections::VecDeque<String>>();
    for n in [1usize << 58, (1usize << 58) + 1, 1usize << 63, usize::MAX] {
        for which in ["debug", "display"] {
            for col in [false, true] {
                out.case(&format!("fmt huge-zst {which} n={n} col={col}"));
                let op = format!("zfmt {which} {n} {es}");
                out.announce(&op);
                let mut v: Vec<Zs> = Vec::new();
                unsafe { v.set_len(n) };
                let m = if col { Matrix::from_col(v) } else { Matrix::from_row(v) };
                let res = catch(|| if which == "debug" { format!("{:?}", m).len() } else { format!("{}", m).len() });
                match res {
                    None => {
                        out.oracle_fail(&format!("{op}: formatting a matrix of {n} zero-sized elements panicked (the line cache is requested with Vec::with_capacity(size))"));
                        out.observe("panic");
                    }
                    Some(_) => out.observe("ok"),
                }
            }
        }
    }
}

pub fn run_c20(out: &mut Out, rng: &mut Rng, tier: Tier) -> String {
    rendering_discipline(out);
    let bound = 4;
    let per_shape = if tier == Tier::Quick { 6 } else { 40 };
    for nr in 0..=bound {
        for nc in 0..=bound {
            for k in 0..per_shape {
                out.case(&format!("fmt class={} shape={nr}x{nc}", shape_class(nr, nc)));
                // renderings: k = 0 all empty, k = 1 all equal, then single-line palettes, then mixed
                let pick = |rng: &mut Rng| -> usize {
                    match k {
                        0 => 0,
                        1 => 2,
                        2 | 3 => *rng.pick(&[0usize, 1, 2, 3, 7, 8, 11, 12, 13, 14, 16, 18, 19, 20, 21, 0, 0]),
                        _ => rng.below(PALETTE.len()),
                    }
                };
                let logical: Vec<Vec<usize>> = (0..nr).map(|_| (0..nc).map(|_| pick(rng)).collect()).collect();
                one(out, nr, nc, &logical);
                if nr * nc > 1 { out.nontrivial(); }
            }
        }
    }
    // beyond 1024 / 4096 elements (4-digit labels)
    for (nr, nc) in [(64usize, 65usize), (3, 1400), (257, 300)] {
        out.case(&format!("fmt large shape={nr}x{nc}"));
        let logical: Vec<Vec<usize>> = (0..nr).map(|r| (0..nc).map(|c| [12usize, 13, 1, 0, 3, 2][(r * 7 + c) % 6]).collect()).collect();
        one(out, nr, nc, &logical);
        out.nontrivial();
    }
    // zero-sized matrices whose cache of line queues (`Vec::with_capacity(size)` of `VecDeque<String>`) cannot be requested
    huge_zst(out);
    // larger index widths in Debug (size with 2 and 3 digits)
    for (nr, nc) in [(3usize, 4usize), (10, 11), (1, 101)] {
        out.case(&format!("fmt wide-index shape={nr}x{nc}"));
        let logical: Vec<Vec<usize>> = (0..nr).map(|r| (0..nc).map(|c| [12usize, 13, 1, 0, 3][(r + c) % 5]).collect()).collect();
        one(out, nr, nc, &logical);
        out.nontrivial();
    }
    format!(
        "every shape 0..={bound} x 0..={bound} x {per_shape} assignments of element renderings from a 24-entry palette (empty string, ASCII, multi-byte, blank, tab, bare CR, renderings with LF / CRLF (also between multi-byte characters) / trailing and doubled line breaks): all-empty, all-equal, single-line mixes, arbitrary mixes; \
         each logical matrix is built in both storage orders and formatted with Display and Debug (crate features full = parallel + pretty-debug, NO_COLOR set); plus 3x4, 10x11 and 1x101 for 2- and 3-digit index labels; plus Display / Debug of 1 x n and n x 1 matrices of a zero-sized type for n = 2^58, 2^58 + 1, 2^63, usize::MAX (known finding F-C20-huge-zst-capacity). \
         Oracle: never a panic; element-less => `[]` (both impls); Debug for single-line renderings: header line, one bracketed line per logical row with its number and every element labelled with its memory-order position, all row lines equally wide; for single-line renderings exactly one bracketed line per logical row with the row's elements in column order, padded to the common width, all lines equally wide in characters; Display text identical for both orders. A case = one logical matrix"
    )
}
