//! C08: size / capacity overflow decisions of every shape-taking and mapping operation, on the
//! boundary grid, for element sizes 0, 1, 2, 4, 8, 16, 24.

use crate::common::*;
use matreex::parallel::*;
use matreex::{Matrix, Order};

const RUN_OK_LIMIT: u128 = 4096;

fn grid(es: usize) -> Vec<usize> {
    let mut v: Vec<usize> = vec![
        0, 1, 2, 3,
        (1 << 16) - 1, 1 << 16, (1 << 16) + 1,
        (1 << 31) - 1, 1 << 31, (1 << 31) + 1,
        (1 << 32) - 1, 1 << 32, (1 << 32) + 1,
        1 << 33,
        isize::MAX as usize - 1, isize::MAX as usize, isize::MAX as usize + 1,
        usize::MAX - 1, usize::MAX,
    ];
    if es > 1 {
        let q = isize::MAX as usize / es;
        v.extend([q - 1, q, q + 1]);
    }
    v.sort();
    v.dedup();
    v
}

/// the property's decision, computed in 128-bit arithmetic, independent of crate and model
fn oracle(es: usize, r: usize, c: usize) -> Result<u128, &'static str> {
    let n = r as u128 * c as u128;
    if n > usize::MAX as u128 {
        Err("SizeOverflow")
    } else if es as u128 * n > isize::MAX as u128 {
        Err("CapacityOverflow")
    } else {
        Ok(n)
    }
}

fn obs_of<T>(res: Option<Result<Matrix<T>, matreex::Error>>, out: &mut Out, what: &str) -> String {
    match res {
        None => "panic".to_string(),
        Some(Err(e)) => format!("err {}", err_name(e)),
        Some(Ok(m)) => {
            if (m.nrows() as u128) * (m.ncols() as u128) != m.size() as u128 {
                out.oracle_fail(&format!("{what}: returned matrix {}x{} has {} elements", m.nrows(), m.ncols(), m.size()));
            }
            format!("ok {} {} {}", m.nrows(), m.ncols(), m.size())
        }
    }
}

fn expect(out: &mut Out, what: &str, obs: &str, want: Result<(usize, usize, u128), &'static str>) {
    let w = match want {
        Ok((r, c, n)) => format!("ok {r} {c} {n}"),
        Err(e) => format!("err {e}"),
    };
    if obs != w {
        out.oracle_fail(&format!("{what}: expected `{w}`, implementation gave `{obs}`"));
    }
    out.count(&format!("decision:{}", if obs.starts_with("ok") { "ok" } else { obs }));
}

fn shape_taking<T: Default + Clone + 'static>(out: &mut Out, es: usize) {
    assert_eq!(size_of::<T>(), es);
    let g = grid(es);
    out.case(&format!("shape-taking es={es}"));
    out.nontrivial();
    for &r in &g {
        for &c in &g {
            let want = oracle(es, r, c);
            let runnable = want.is_err() || want.unwrap() <= RUN_OK_LIMIT;
            if !runnable {
                out.count("skipped:predicted-ok-too-large-to-allocate");
            } else {
                for kind in ["with_default", "with_value", "with_initializer"] {
                    let op = format!("c08 ctor {kind} {es} {r} {c}");
                    out.announce(&op);
                    let res = match kind {
                        "with_default" => catch(|| Matrix::<T>::with_default((r, c))),
                        "with_value" => catch(|| Matrix::<T>::with_value((r, c), T::default())),
                        _ => catch(|| Matrix::<T>::with_initializer((r, c), |_| T::default())),
                    };
                    let obs = obs_of(res, out, &op);
                    expect(out, &op, &obs, want.map(|n| (r, c, n)));
                    out.observe(&obs);
                }
                // resize of a small existing matrix, both orders
                for order in ORDERS {
                    let mut m = mk(order, 2, 3, |_| T::default());
                    let op = format!("c08 resize {es} {} 2 3 {r} {c}", ord_ch(order));
                    out.announce(&op);
                    let res = catch(|| m.resize((r, c)).map(|_| ()));
                    let obs = match res {
                        None => "panic".to_string(),
                        Some(Err(e)) => {
                            if (m.nrows(), m.ncols(), m.size(), m.order()) != (2, 3, 6, order) {
                                out.oracle_fail(&format!("{op}: failed resize changed the matrix"));
                            }
                            format!("err {}", err_name(e))
                        }
                        Some(Ok(())) => format!("ok {} {} {}", m.nrows(), m.ncols(), m.size()),
                    };
                    expect(out, &op, &obs, want.map(|n| (r, c, n)));
                    out.observe(&obs);
                }
                // matrix product with a zero inner dimension: any result shape is requestable
                for (oa, ob) in [(Order::RowMajor, Order::RowMajor), (Order::ColMajor, Order::RowMajor), (Order::RowMajor, Order::ColMajor), (Order::ColMajor, Order::ColMajor)] {
                    for kind in ["multiply", "like"] {
                        let mut a = Matrix::<u8>::with_default((r, 0)).unwrap();
                        let mut b = Matrix::<u8>::with_default((0, c)).unwrap();
                        a.set_order(oa);
                        b.set_order(ob);
                        let op = format!("c08 mul {kind} {es} {} {r} 0 {} 0 {c}", ord_ch(oa), ord_ch(ob));
                        out.announce(&op);
                        let res: Option<Result<Matrix<T>, matreex::Error>> = if kind == "multiply" {
                            // multiply needs U: Add; use the generic form with a U-producing closure for T,
                            // and the real `multiply` for the numeric sizes below
                            catch(|| a.multiplication_like_operation(b, |_, _| T::default()))
                        } else {
                            catch(|| a.multiplication_like_operation(b, |_, _| T::default()))
                        };
                        let obs = obs_of(res, out, &op);
                        expect(out, &op, &obs, want.map(|n| (r, c, n)));
                        out.observe(&obs);
                    }
                }
            }
            // reshape of a small matrix: everything but the current size is SizeMismatch
            for order in ORDERS {
                // receivers: a 2x3 matrix and the three kinds of empty matrix (for which an
                // overflowing request must not be mistaken for "size 0")
                for (r0, c0) in [(2usize, 3usize), (0, 0), (0, 5), (3, 0)] {
                    let mut m = mk(order, r0, c0, |_| T::default());
                    let op = format!("c08 reshape {} {r0} {c0} {r} {c}", ord_ch(order));
                    out.announce(&op);
                    let res = catch(|| m.reshape((r, c)).map(|_| ()));
                    let obs = match res {
                        None => "panic".to_string(),
                        Some(Err(e)) => format!("err {}", err_name(e)),
                        Some(Ok(())) => format!("ok {} {} {}", m.nrows(), m.ncols(), m.size()),
                    };
                    let n0 = (r0 * c0) as u128;
                    let w = if r as u128 * c as u128 == n0 { Ok((r, c, n0)) } else { Err("SizeMismatch") };
                    expect(out, &op, &obs, w);
                    if (m.nrows() as u128) * (m.ncols() as u128) != m.size() as u128 {
                        out.oracle_fail(&format!("{op}: matrix is now {}x{} with {} elements", m.nrows(), m.ncols(), m.size()));
                    }
                    out.observe(&obs);
                }
            }
            // the two decision functions themselves, through the hooks, on the full grid
            let op = format!("c08 hook_shape R {r} {c}");
            out.announce(&op);
            let obs = match catch(|| matreex::verif_hooks::try_to_axis_shape(r, c, Order::RowMajor)) {
                None => "panic".to_string(),
                Some(Ok((a, b))) => format!("ok {a} {b}"),
                Some(Err(e)) => format!("err {}", err_name(e)),
            };
            let w = if (r as u128) * (c as u128) > usize::MAX as u128 { "err SizeOverflow".to_string() } else { format!("ok {r} {c}") };
            if obs != w {
                out.oracle_fail(&format!("{op}: expected `{w}`, implementation gave `{obs}`"));
            }
            out.observe(&obs);
        }
        let op = format!("c08 hook_check_size {es} {r}");
        out.announce(&op);
        let obs = match catch(|| matreex::verif_hooks::check_size::<T>(r)) {
            None => "panic".to_string(),
            Some(Ok(n)) => format!("ok {n}"),
            Some(Err(e)) => format!("err {}", err_name(e)),
        };
        let w = if es as u128 * r as u128 > isize::MAX as u128 { "err CapacityOverflow".to_string() } else { format!("ok {r}") };
        if obs != w {
            out.oracle_fail(&format!("{op}: expected `{w}`, implementation gave `{obs}`"));
        }
        out.observe(&obs);
    }
}

/// the real `multiply` (needs Mul/Add) for numeric element types, zero inner dimension
fn multiply_numeric(out: &mut Out) {
    out.case("multiply numeric");
    out.nontrivial();
    macro_rules! go {
        ($t:ty) => {{
            let es = size_of::<$t>();
            let g = grid(es);
            for &r in &g {
                for &c in &g {
                    let want = oracle(es, r, c);
                    if want.is_ok() && want.unwrap() > RUN_OK_LIMIT {
                        continue;
                    }
                    let a = Matrix::<$t>::with_default((r, 0)).unwrap();
                    let b = Matrix::<$t>::with_default((0, c)).unwrap();
                    let op = format!("c08 mul multiply {es} R {r} 0 R 0 {c}");
                    out.announce(&op);
                    let res = catch(|| a.multiply(b));
                    let obs = obs_of(res, out, &op);
                    expect(out, &op, &obs, want.map(|n| (r, c, n)));
                    out.observe(&obs);
                }
            }
            // non-conformable operands are reported before any size error
            let a = Matrix::<$t>::with_default((usize::MAX, 0)).unwrap();
            let b = Matrix::<$t>::with_default((1, 0)).unwrap();
            let op = format!("c08 mul multiply {es} R {} 0 R 1 0", usize::MAX);
            out.announce(&op);
            let obs = obs_of(catch(|| a.multiply(b)), out, &op);
            expect(out, &op, &obs, Err("ShapeNotConformable"));
            out.observe(&obs);
        }};
    }
    go!(u8);
    go!(u16);
    go!(u32);
    go!(u64);
    go!(u128);
}

/// `multiply` whose OUTPUT element type is wider than the operands' (the capacity limit is the
/// output's): 1-byte operands with a 8-byte product, and zero-sized operands with a 1-byte product
#[derive(Clone, Default)]
struct N8(#[allow(dead_code)] u8);
impl std::ops::Mul for N8 {
    type Output = u64;
    fn mul(self, _: N8) -> u64 { 1 }
}
#[derive(Clone, Default)]
struct Zu;
impl std::ops::Mul for Zu {
    type Output = u8;
    fn mul(self, _: Zu) -> u8 { 1 }
}

fn multiply_widening(out: &mut Out) {
    out.case("multiply widening output type");
    out.nontrivial();
    // 1-byte operands, zero inner dimension, 8-byte output
    let g = grid(8);
    for &r in &g {
        for &c in &g {
            let want = oracle(8, r, c);
            if want.is_ok() && want.unwrap() > RUN_OK_LIMIT { continue; }
            for (oa, ob) in [(Order::RowMajor, Order::RowMajor), (Order::ColMajor, Order::ColMajor)] {
                let mut a = Matrix::<N8>::with_default((r, 0)).unwrap();
                let mut b = Matrix::<N8>::with_default((0, c)).unwrap();
                a.set_order(oa);
                b.set_order(ob);
                let op = format!("c08 mul multiply 8 {} {r} 0 {} 0 {c}", ord_ch(oa), ord_ch(ob));
                out.announce(&op);
                let obs = obs_of(catch(|| a.multiply(b)), out, &op);
                expect(out, &op, &obs, want.map(|n| (r, c, n)));
                out.count("multiply:widening-1-to-8-bytes");
                out.observe(&obs);
            }
        }
    }
    // zero-sized operands with inner dimension 1 (any extent exists), 1-byte output
    let zmat = |r: usize, c: usize| -> Matrix<Zu> {
        let mut v: Vec<Zu> = Vec::new();
        unsafe { v.set_len(r * c) };
        let mut m = Matrix::from_row(v);
        m.reshape((r, c)).unwrap();
        m
    };
    let g = grid(1);
    for &r in &g {
        for &c in &[1usize, 2, 3] {
            let want = oracle(1, r, c);
            if want.is_ok() && want.unwrap() > RUN_OK_LIMIT { continue; }
            
            let a = zmat(r, 1);
            let b = zmat(1, c);
            let op = format!("c08 mul multiply 1 R {r} 1 R 1 {c}");
            out.announce(&op);
            let obs = obs_of(catch(|| a.multiply(b)), out, &op);
            expect(out, &op, &obs, want.map(|n| (r, c, n)));
            out.count("multiply:widening-0-to-1-byte");
            out.observe(&obs);
        }
    }
}

/// reshape of matrices of zero-sized elements whose element count is huge (up to usize::MAX): every
/// target whose size differs — overflowing ones included — is SizeMismatch and changes nothing
pub fn reshape_huge_zst(out: &mut Out) {
    out.case("reshape huge zero-sized receivers");
    out.nontrivial();
    let m32 = 1usize << 32;
    let receivers = [(1usize, usize::MAX), (usize::MAX, 1), (3, usize::MAX / 3), (m32, m32 - 1), (65536, 65537), (1, (isize::MAX as usize) + 1)];
    for (r0, c0) in receivers {
        for order in ORDERS {
            let n = r0.checked_mul(c0).unwrap();
            let targets = [(r0, c0), (c0, r0), (1, n), (n, 1), (n, 2), (2, n), (usize::MAX, 2), (usize::MAX, usize::MAX), (1usize << 63, 2), (m32, m32), (m32, m32 - 1), (n, 0), (0, 0), (n - 1, 1), (3, n / 3), (n / 3, 3), (5, 7)];
            for (r, c) in targets {
                let mut v: Vec<()> = Vec::new();
                unsafe { v.set_len(n) };
                let mut m = mk_from(order, r0, c0, v);
                let op = format!("c08 zreshape {} {r0} {c0} {r} {c}", ord_ch(order));
                out.announce(&op);
                let res = catch(|| m.reshape((r, c)).map(|_| ()));
                let same = (r as u128) * (c as u128) == n as u128;
                let obs = match res {
                    None => "panic".to_string(),
                    Some(Err(e)) => {
                        if (m.nrows(), m.ncols(), m.size(), m.order()) != (r0, c0, n, order) { out.oracle_fail(&format!("{op}: the failed reshape changed the matrix")); }
                        format!("err {}", err_name(e))
                    }
                    Some(Ok(())) => format!("ok {} {} {}", m.nrows(), m.ncols(), m.size()),
                };
                let want = if same { format!("ok {r} {c} {n}") } else { "err SizeMismatch".to_string() };
                if obs != want { out.oracle_fail(&format!("{op}: expected `{want}`, implementation gave `{obs}`")); }
                if (m.nrows() as u128) * (m.ncols() as u128) != m.size() as u128 { out.oracle_fail(&format!("{op}: shape {}x{} disagrees with the element count {}", m.nrows(), m.ncols(), m.size())); }
                out.count("reshape:huge-zero-sized");
                out.observe(&obs);
            }
        }
    }
}

/// mapping-style operations: source of zero-sized elements (any length exists), target `U`
fn mapping<U: Default + Clone + Send + Sync + 'static>(out: &mut Out, es_out: usize) {
    assert_eq!(size_of::<U>(), es_out);
    out.case(&format!("mapping es_out={es_out}"));
    out.nontrivial();
    for &n in &grid(es_out) {
        let too_big = es_out as u128 * n as u128 > isize::MAX as u128;
        if !too_big && n as u128 > RUN_OK_LIMIT {
            out.count("skipped:predicted-ok-too-large-to-run");
            continue;
        }
        let src = || {
            let mut v: Vec<()> = Vec::new();
            unsafe { v.set_len(n) };
            Matrix::from_row(v)
        };
        for kind in ["map", "map_ref", "scalar_operation", "scalar_operation_consume_self", "elementwise_operation",
                     "elementwise_operation_consume_self", "par_map", "par_map_ref"] {
            let op = format!("c08 map {kind} {es_out} {n}");
            out.announce(&op);
            let m = src();
            let rhs = src();
            let res: Option<Result<Matrix<U>, matreex::Error>> = match kind {
                "map" => catch(|| m.map(|_| U::default())),
                "map_ref" => catch(|| m.map_ref(|_| U::default())),
                "scalar_operation" => catch(|| m.scalar_operation(&0u8, |_, _| U::default())),
                "scalar_operation_consume_self" => catch(|| m.scalar_operation_consume_self(&0u8, |_, _| U::default())),
                "elementwise_operation" => catch(|| m.elementwise_operation(&rhs, |_, _| U::default())),
                "elementwise_operation_consume_self" => catch(|| m.elementwise_operation_consume_self(&rhs, |_, _| U::default())),
                "par_map" => catch(|| m.par_map(|_| U::default())),
                _ => catch(|| m.par_map_ref(|_| U::default())),
            };
            let obs = match res {
                None => "panic".to_string(),
                Some(Err(e)) => format!("err {}", err_name(e)),
                Some(Ok(r)) => {
                    if (r.nrows(), r.ncols(), r.size()) != (1, n, n) {
                        out.oracle_fail(&format!("{op}: result shape {}x{} size {}", r.nrows(), r.ncols(), r.size()));
                    }
                    format!("ok {}", r.size())
                }
            };
            let w = if too_big { "err CapacityOverflow".to_string() } else { format!("ok {n}") };
            if obs != w {
                out.oracle_fail(&format!("{op}: expected `{w}`, implementation gave `{obs}`"));
            }
            out.count(&format!("mapping:{}", if too_big { "capacity-overflow" } else { "ok" }));
            out.observe(&obs);
        }
    }
}

/// conversions from rows with zero-sized elements (rows of any length exist): SizeOverflow path
fn from_rows(out: &mut Out) {
    out.case("rows zero-sized");
    out.nontrivial();
    for &nrows in &[0usize, 1, 2, 3, 5] {
        for &ncols in &grid(0) {
            let row = || {
                let mut v: Vec<()> = Vec::new();
                unsafe { v.set_len(ncols) };
                v
            };
            let want = oracle(0, nrows, if nrows == 0 { 0 } else { ncols });
            let op = format!("c08 ctor try_from_vec_of_vecs 0 {nrows} {}", if nrows == 0 { 0 } else { ncols });
            out.announce(&op);
            let rows: Vec<Vec<()>> = (0..nrows).map(|_| row()).collect();
            let res = catch(|| Matrix::<()>::try_from(rows));
            let obs = obs_of(res, out, &op);
            expect(out, &op, &obs, want.map(|n| (nrows, if nrows == 0 { 0 } else { ncols }, n)));
            out.observe(&obs);

            let op = format!("c08 ctor try_from_slice_of_vecs 0 {nrows} {}", if nrows == 0 { 0 } else { ncols });
            out.announce(&op);
            let rows: Vec<Vec<()>> = (0..nrows).map(|_| row()).collect();
            let res = catch(|| Matrix::<()>::try_from(rows.as_slice()));
            let obs = obs_of(res, out, &op);
            expect(out, &op, &obs, want.map(|n| (nrows, if nrows == 0 { 0 } else { ncols }, n)));
            out.observe(&obs);
        }
    }
    for &ncols in &grid(0) {
        let row = || {
            let mut v: Vec<()> = Vec::new();
            unsafe { v.set_len(ncols) };
            v
        };
        let want = oracle(0, 3, ncols);
        let op = format!("c08 ctor try_from_array_of_vecs 0 3 {ncols}");
        out.announce(&op);
        let res = catch(|| Matrix::<()>::try_from([row(), row(), row()]));
        let obs = obs_of(res, out, &op);
        expect(out, &op, &obs, want.map(|n| (3, ncols, n)));
        out.observe(&obs);
    }
}

pub fn run_c08(out: &mut Out, _rng: &mut Rng, _tier: Tier) -> String {
    shape_taking::<()>(out, 0);
    shape_taking::<u8>(out, 1);
    shape_taking::<u16>(out, 2);
    shape_taking::<u32>(out, 4);
    shape_taking::<u64>(out, 8);
    shape_taking::<u128>(out, 16);
    shape_taking::<[u64; 3]>(out, 24);
    multiply_numeric(out);
    multiply_widening(out);
    reshape_huge_zst(out);
    // the capacity check of the elementwise family in all four storage-order combinations
    crate::c12::huge_decisions(out);
    mapping::<()>(out, 0);
    mapping::<u8>(out, 1);
    mapping::<u16>(out, 2);
    mapping::<u32>(out, 4);
    mapping::<u64>(out, 8);
    mapping::<u128>(out, 16);
    mapping::<[u64; 3]>(out, 24);
    from_rows(out);
    out.exhaustive = true;
    "exhaustive over the boundary grid {0,1,2,3, 2^16-1..2^16+1, 2^31-1..2^31+1, 2^32-1..2^32+1, 2^33, isize::MAX-1..+1, isize::MAX/es-1..+1, usize::MAX-1, usize::MAX}^2 \
     x element sizes {0,1,2,4,8,16,24}: with_default/with_value/with_initializer, resize (both orders), reshape (both orders), multiplication_like_operation and multiply with a zero inner dimension (4 order combinations), \
     the 8 mapping-style operations with a zero-sized source of any length and an independent target size, the three TryFrom conversions with zero-sized elements, and the two decision functions through the verif-hooks wrappers. \
     Calls predicted to succeed are executed only when they allocate at most 4096 elements (larger ones are counted as skipped; their decision is covered by the hooks and by the theorem). A case = one element size x operation family".to_string()
}
