//! C12: elementwise operations — all pairs of shapes (equal, transposed, one dimension off,
//! degenerate) x four order combinations x three ownership variants x named methods / generic
//! operation with a recording closure / operator forms.

use crate::common::*;
use crate::hist::*;
use crate::tok::*;

/// operands of zero-sized elements with extents no allocation can reach: the guard prefix
/// (conformability first, then the capacity of the output) of all three ownership variants
pub fn huge_decisions(out: &mut Out) {
    use matreex::{Matrix, Order};
    out.case("ew guard decisions on huge zero-sized operands");
    out.nontrivial();
    let zmat = |o: Order, r: usize, c: usize| -> Matrix<()> {
        let mut v: Vec<()> = Vec::new();
        unsafe { v.set_len(r * c) };
        let mut m = Matrix::from_row(v);
        match o {
            Order::RowMajor => { m.reshape((r, c)).unwrap(); }
            Order::ColMajor => { m.reshape((c, r)).unwrap(); m.switch_order_without_rearrangement(); }
        }
        assert_eq!((m.nrows(), m.ncols(), m.order()), (r, c, o));
        m
    };
    let h = usize::MAX;
    let q = (isize::MAX as usize) / 8 + 1;
    // (lhs shape, rhs shape)
    let pairs = [((1usize, h), (1usize, 1usize)), ((1, h), (h, 1)), ((h, 1), (1, h)), ((1, h), (1, h)), ((1, q), (1, q)), ((1, q), (q, 1)), ((1, q - 1), (1, q - 1)), ((0, h), (0, 3)), ((h, 0), (h, 0)), ((3, 5), (3, 5))];
    for ((ra, ca), (rb, cb)) in pairs {
        for (oa, ob) in [(Order::RowMajor, Order::RowMajor), (Order::ColMajor, Order::RowMajor), (Order::RowMajor, Order::ColMajor), (Order::ColMajor, Order::ColMajor)] {
            for variant in ["ref", "consume", "assign"] {
                let n = ra as u128 * ca as u128;
                let conformable = (ra, ca) == (rb, cb);
                // the output element type has 8 bytes (ref / consume); assign produces no new matrix
                let es_out = if variant == "assign" { 0 } else { 8 };
                let want = if !conformable { "err ShapeNotConformable".to_string() } else if es_out as u128 * n > isize::MAX as u128 { "err CapacityOverflow".to_string() } else { format!("ok {}", n) };
                // a successful run would loop over (or allocate for) every element: only short ones are executed
                if want.starts_with("ok") && n > 4096 { continue; }
                let op = format!("c08 ew {variant} {es_out} {} {ra} {ca} {} {rb} {cb}", ord_ch(oa), ord_ch(ob));
                out.announce(&op);
                let a = zmat(oa, ra, ca);
                let b = zmat(ob, rb, cb);
                let res: Option<Result<usize, matreex::Error>> = match variant {
                    "ref" => catch(|| a.elementwise_operation(&b, |_, _| 0u64).map(|m| m.size())),
                    "consume" => catch(|| a.elementwise_operation_consume_self(&b, |_, _| 0u64).map(|m| m.size())),
                    _ => {
                        let mut a = a;
                        catch(|| a.elementwise_operation_assign(&b, |_, _| ()).map(|m| m.size()))
                    }
                };
                let obs = match res { None => "panic".to_string(), Some(Ok(k)) => format!("ok {k}"), Some(Err(e)) => format!("err {}", err_name(e)) };
                if obs != want { out.oracle_fail(&format!("{op}: expected `{want}`, implementation gave `{obs}`")); }
                out.count("shapes:huge-zero-sized");
                out.observe(&obs);
            }
        }
    }
}

pub fn run_c12(out: &mut Out, _rng: &mut Rng, tier: Tier) -> String {
    ledger_reset();
    let bound = if tier == Tier::Quick { 2 } else { 3 };
    let ops = ["gen", "add", "sub", "mul", "div", "rem"];
    let mut rot = 0usize;
    for ar in 0..=bound {
        for ac in 0..=bound {
            for br in 0..=bound {
                for bc in 0..=bound {
                    let rel = if (ar, ac) == (br, bc) { "equal" } else if (ar, ac) == (bc, br) { "transposed" } else if ar == br || ac == bc { "one-dimension-off" } else { "different" };
                    for ao in ORDERS {
                        for bo in ORDERS {
                            out.case(&format!("ew a={ar}x{ac}{} b={br}x{bc}{} shapes:{rel}", ord_ch(ao), ord_ch(bo)));
                            out.count(&format!("shapes:{rel}"));
                            out.count(&format!("orders:{}{}", ord_ch(ao), ord_ch(bo)));
                            let mut w = World::<Tok>::new(out);
                            for variant in ["ref", "consume", "assign"] {
                                // quick: every variant with the recording closure and one named method in rotation;
                                // thorough: all six
                                let names: Vec<&str> = if tier == Tier::Thorough { ops.to_vec() } else { rot += 1; vec!["gen", ops[1 + rot % 5]] };
                                for name in names {
                                    w.new_matrix(out, 0, ao, ar, ac, 100);
                                    w.new_matrix(out, 1, bo, br, bc, 500);
                                    w.ew(out, 2, 0, 1, variant, name);
                                    out.count(&format!("variant:{variant}"));
                                    out.count(&format!("op:{name}"));
                                }
                            }
                            // operator forms
                            for sym in ['+', '-'] {
                                for form in ["oo", "ob", "bo", "bb"] {
                                    if tier == Tier::Quick { rot += 1; if rot % 2 == 0 { continue; } }
                                    w.new_matrix(out, 0, ao, ar, ac, 100);
                                    w.new_matrix(out, 1, bo, br, bc, 500);
                                    w.ewop(out, 2, 0, 1, sym, form);
                                }
                                for form in ["o", "b"] {
                                    w.new_matrix(out, 0, ao, ar, ac, 100);
                                    w.new_matrix(out, 1, bo, br, bc, 500);
                                    w.ewopassign(out, 0, 1, sym, form);
                                }
                            }
                            for r in 0..3 {
                                if w.regs[r].is_some() { w.drop_reg(out, r); }
                            }
                            if ar * ac > 1 || br * bc > 1 {
                                out.nontrivial();
                            }
                        }
                    }
                }
            }
        }
    }
    // conformable pairs of larger shapes (the interesting data path), all variants and operations
    let big = if tier == Tier::Quick { 4 } else { 6 };
    for ar in 1..=big {
        for ac in 1..=big {
            for ao in ORDERS {
                for bo in ORDERS {
                    out.case(&format!("ew-conformable a=b={ar}x{ac} orders={}{} class={}", ord_ch(ao), ord_ch(bo), shape_class(ar, ac)));
                    out.count("shapes:equal-larger");
                    let mut w = World::<Tok>::new(out);
                    for variant in ["ref", "consume", "assign"] {
                        for name in ops {
                            w.new_matrix(out, 0, ao, ar, ac, 100);
                            w.new_matrix(out, 1, bo, ar, ac, 500);
                            w.ew(out, 2, 0, 1, variant, name);
                        }
                    }
                    for form in ["oo", "ob", "bo", "bb"] {
                        w.new_matrix(out, 0, ao, ar, ac, 100);
                        w.new_matrix(out, 1, bo, ar, ac, 500);
                        w.ewop(out, 2, 0, 1, if (ar + ac) % 2 == 0 { '+' } else { '-' }, form);
                    }
                    for r in 0..3 {
                        if w.regs[r].is_some() { w.drop_reg(out, r); }
                    }
                    out.nontrivial();
                }
            }
        }
    }
    huge_decisions(out);
    for &(nr, nc) in LARGE[..3].iter().chain(VERY_LARGE.iter()) {
        for ao in ORDERS {
            for bo in ORDERS {
                out.case(&format!("ew-large a=b={nr}x{nc} orders={}{}", ord_ch(ao), ord_ch(bo)));
                out.nontrivial();
                let mut w = World::<Tok>::new(out);
                for (variant, name) in [("ref", "gen"), ("consume", "add"), ("assign", "sub"), ("consume", "gen"), ("assign", "gen")] {
                    w.new_matrix(out, 0, ao, nr, nc, 100);
                    w.new_matrix(out, 1, bo, nr, nc, 500000);
                    w.ew(out, 2, 0, 1, variant, name);
                }
                w.new_matrix(out, 0, ao, nr, nc, 100);
                w.new_matrix(out, 1, bo, nr, nc, 500000);
                w.ewop(out, 2, 0, 1, '-', "bb");
                for r in 0..3 { if w.regs[r].is_some() { w.drop_reg(out, r); } }
            }
        }
    }
    let s = snapshot();
    if s.double_drops > 0 || s.live != 0 {
        out.oracle_fail(&format!("ledger at the end of the run: {} tokens still live, {} double drops", s.live, s.double_drops));
    }
    out.exhaustive = tier == Tier::Thorough;
    format!(
        "every pair of shapes 0..={bound} x 0..={bound} plus all conformable pairs up to {big}x{big} (equal, transposed, one dimension off, different, degenerate) x four storage-order combinations x three ownership variants \
         x (generic operation with a recording closure + named add/sub/mul/div/rem methods: all in thorough, one in rotation in quick) and the + - += -= operator forms (owned/borrowed on either side). \
         Guard decisions (conformability before capacity) of the three variants on zero-sized operands with extents up to usize::MAX and 8-byte outputs. Elements are symbolic tokens: results are terms such as (a'+b'), so operand order, clone placement and one-call-per-position are visible. \
         Oracle: Ok iff logical shapes agree else ShapeNotConformable (operators: panic), independent row-of-rows reference for the result in lhs order, operands unchanged, closure call count = positions. \
         A case = one operand pair with all variants; non-trivial when an operand has more than one element"
    )
}
