//! C12: elementwise operations — all pairs of shapes (equal, transposed, one dimension off,
//! degenerate) x four order combinations x three ownership variants x named methods / generic
//! operation with a recording closure / operator forms.

use crate::common::*;
use crate::hist::*;
use crate::tok::*;

pub fn run_c12(out: &mut Out, _rng: &mut Rng, tier: Tier) -> String {
    ledger_reset();
    let bound = if tier == Tier::Quick { 2 } else { 3 };
    let ops = ["gen", "add", "sub", "mul", "div", "rem"];
    let mut rot = 0usize;
    for ar in 0..=bound {
        for ac in 0..=bound {
            for br in 0..=bound {
                for bc in 0..=bound {
                    let rel = if (ar, ac) == (br, bc) { "equal" } else if (ar, ac) == (bc, br) { "transposed" } else if ar == br || ac == bc { "one-dimension-off" } else { "different" };
                    for ao in ORDERS {
                        for bo in ORDERS {
                            out.case(&format!("ew a={ar}x{ac}{} b={br}x{bc}{} shapes:{rel}", ord_ch(ao), ord_ch(bo)));
                            out.count(&format!("shapes:{rel}"));
                            out.count(&format!("orders:{}{}", ord_ch(ao), ord_ch(bo)));
                            let mut w = World::<Tok>::new(out);
                            for variant in ["ref", "consume", "assign"] {
                                // quick: every variant with the recording closure and one named method in rotation;
                                // thorough: all six
                                let names: Vec<&str> = if tier == Tier::Thorough { ops.to_vec() } else { rot += 1; vec!["gen", ops[1 + rot % 5]] };
                                for name in names {
                                    w.new_matrix(out, 0, ao, ar, ac, 100);
                                    w.new_matrix(out, 1, bo, br, bc, 500);
                                    w.ew(out, 2, 0, 1, variant, name);
                                    out.count(&format!("variant:{variant}"));
                                    out.count(&format!("op:{name}"));
                                }
                            }
                            // operator forms
                            for sym in ['+', '-'] {
                                for form in ["oo", "ob", "bo", "bb"] {
                                    if tier == Tier::Quick { rot += 1; if rot % 2 == 0 { continue; } }
                                    w.new_matrix(out, 0, ao, ar, ac, 100);
                                    w.new_matrix(out, 1, bo, br, bc, 500);
                                    w.ewop(out, 2, 0, 1, sym, form);
                                }
                                for form in ["o", "b"] {
                                    w.new_matrix(out, 0, ao, ar, ac, 100);
                                    w.new_matrix(out, 1, bo, br, bc, 500);
                                    w.ewopassign(out, 0, 1, sym, form);
                                }
                            }
                            for r in 0..3 {
                                if w.regs[r].is_some() { w.drop_reg(out, r); }
                            }
                            if ar * ac > 1 || br * bc > 1 {
                                out.nontrivial();
                            }
                        }
                    }
                }
            }
        }
    }
    // conformable pairs of larger shapes (the interesting data path), all variants and operations
    let big = if tier == Tier::Quick { 4 } else { 6 };
    for ar in 1..=big {
        for ac in 1..=big {
            for ao in ORDERS {
                for bo in ORDERS {
                    out.case(&format!("ew-conformable a=b={ar}x{ac} orders={}{} class={}", ord_ch(ao), ord_ch(bo), shape_class(ar, ac)));
                    out.count("shapes:equal-larger");
                    let mut w = World::<Tok>::new(out);
                    for variant in ["ref", "consume", "assign"] {
                        for name in ops {
                            w.new_matrix(out, 0, ao, ar, ac, 100);
                            w.new_matrix(out, 1, bo, ar, ac, 500);
                            w.ew(out, 2, 0, 1, variant, name);
                        }
                    }
                    for form in ["oo", "ob", "bo", "bb"] {
                        w.new_matrix(out, 0, ao, ar, ac, 100);
                        w.new_matrix(out, 1, bo, ar, ac, 500);
                        w.ewop(out, 2, 0, 1, if (ar + ac) % 2 == 0 { '+' } else { '-' }, form);
                    }
                    for r in 0..3 {
                        if w.regs[r].is_some() { w.drop_reg(out, r); }
                    }
                    out.nontrivial();
                }
            }
        }
    }
    let s = snapshot();
    if s.double_drops > 0 || s.live != 0 {
        out.oracle_fail(&format!("ledger at the end of the run: {} tokens still live, {} double drops", s.live, s.double_drops));
    }
    out.exhaustive = tier == Tier::Thorough;
    format!(
        "every pair of shapes 0..={bound} x 0..={bound} plus all conformable pairs up to {big}x{big} (equal, transposed, one dimension off, different, degenerate) x four storage-order combinations x three ownership variants \
         x (generic operation with a recording closure + named add/sub/mul/div/rem methods: all in thorough, one in rotation in quick) and the + - += -= operator forms (owned/borrowed on either side). \
         Elements are symbolic tokens: results are terms such as (a'+b'), so operand order, clone placement and one-call-per-position are visible. \
         Oracle: Ok iff logical shapes agree else ShapeNotConformable (operators: panic), independent row-of-rows reference for the result in lhs order, operands unchanged, closure call count = positions. \
         A case = one operand pair with all variants; non-trivial when an operand has more than one element"
    )
}
