//! C15: element iteration order and reported indices — all shapes, both orders, after
//! order/shape-changing prefixes, consumed from front / back / both, sequential and parallel.

use crate::common::*;
use crate::hist::*;
use crate::tok::*;

const SEQ: [&str; 6] = ["elems", "elems_mut", "into", "wi", "wi_mut", "into_wi"];
const PAR: [&str; 6] = ["par", "par_mut", "into_par", "par_wi", "par_wi_mut", "into_par_wi"];

fn patterns(rng: &mut Rng, size: usize) -> Vec<String> {
    let mut v = vec!["-".to_string(), "B".repeat(size.max(1)), "FB".repeat(size / 2 + 1), "BF".repeat(size / 2 + 1)];
    // a random mix, and "front stopped mid-vector, then the rest from the back"
    v.push((0..size.max(1)).map(|_| if rng.coin() { 'F' } else { 'B' }).collect());
    v.push(format!("{}{}", "F".repeat(size / 3 + 1), "B".repeat(size)));
    v
}

fn prefix(w: &mut World<Tok>, out: &mut Out, rng: &mut Rng) {
    for _ in 0..rng.below(4) {
        let (nr, nc) = { let m = w.regs[0].as_ref().unwrap(); (m.nrows(), m.ncols()) };
        match rng.below(5) {
            0 => w.order_op(out, 0, "transpose", None),
            1 => w.order_op(out, 0, "switch_wr", None),
            2 => w.order_op(out, 0, "switch", None),
            3 => {
                let size = nr * nc;
                let ds: Vec<(usize, usize)> = (1..=size.max(1)).filter(|d| size % d == 0).map(|d| (d, size / d)).collect();
                let (a, b) = if size == 0 { (0, rng.below(3)) } else { *rng.pick(&ds) };
                w.reshape(out, 0, a, b);
            }
            _ => w.resize(out, 0, rng.below(5), rng.below(5)),
        }
    }
}

/// the sequential `*_with_index` iterators on matrices of more than 2^32 (zero-sized) elements,
/// entered from the back and from the front: the reported index of the item at memory position p
/// is the one `get` accepts for it
fn huge_zero_sized_with_index(out: &mut Out) {
    use matreex::{Index, Matrix, Order};
    out.case("with_index on huge zero-sized matrices");
    out.nontrivial();
    let b32 = 1usize << 32;
    for (r, c) in [(b32, 3usize), (3, b32), (b32 + 1, 2), (2, b32 + 1), (b32 - 1, 1usize << 31), (1, usize::MAX), (usize::MAX, 1)] {
        for order in [Order::RowMajor, Order::ColMajor] {
            let n = r * c;
            let expect = |p: usize| -> (usize, usize) {
                let (maj, min) = if order == Order::RowMajor { (r, c) } else { (c, r) };
                let _ = maj;
                let (a, b) = (p / min, p % min);
                if order == Order::RowMajor { (a, b) } else { (b, a) }
            };
            let mk = || { let mut v: Vec<()> = Vec::new(); unsafe { v.set_len(n) }; crate::common::mk_from(order, r, c, v) };
            for variant in ["wi", "wi_mut", "into_wi"] {
                let op = format!("oracle zst-with-index {variant} {r} {c} {}", ord_ch(order));
                out.announce(&op);
                // (the adaptors step one item at a time: only positions near the two ends can be reached)
                let backs: Vec<usize> = [0usize, 1, 2, 3, 5, c, r, c.saturating_mul(2), r.saturating_mul(2), 1000].into_iter().filter(|&k| k <= 1000).collect();
                let got: Option<Vec<(usize, Option<Index>)>> = catch(|| {
                    let mut res = Vec::new();
                    for &k in &backs {
                        let mut m: Matrix<()> = mk();
                        let i = match variant {
                            "wi" => m.iter_elements_with_index().nth_back(k).map(|x| x.0),
                            "wi_mut" => m.iter_elements_mut_with_index().nth_back(k).map(|x| x.0),
                            _ => m.into_iter_elements_with_index().nth_back(k).map(|x| x.0),
                        };
                        res.push((n - 1 - k, i));
                    }
                    // from the front: a few single steps
                    let m: Matrix<()> = mk();
                    for (p, (i, _)) in m.iter_elements_with_index().take(5).enumerate() { res.push((p, Some(i))); }
                    res
                });
                match got {
                    None => out.oracle_fail(&format!("{op}: panicked")),
                    Some(items) => for (p, i) in items {
                        let (er, ec) = expect(p);
                        match i {
                            Some(i) if (i.row, i.col) == (er, ec) => {}
                            other => out.oracle_fail(&format!("{op}: the item at memory position {p} was reported at {:?}, expected ({er}, {ec})", other.map(|i| (i.row, i.col)))),
                        }
                    }
                }
                out.observe("ok");
            }
        }
    }
}

pub fn run_c15(out: &mut Out, rng: &mut Rng, tier: Tier) -> String {
    ledger_reset();
    huge_zero_sized_with_index(out);
    let bound = if tier == Tier::Quick { 4 } else { 5 };
    for nr in 0..=bound {
        for nc in 0..=bound {
            for order in ORDERS {
                out.case(&format!("iter class={} shape={nr}x{nc}{}", shape_class(nr, nc), ord_ch(order)));
                out.count(&format!("shape-class:{}", shape_class(nr, nc)));
                let mut w = World::<Tok>::new(out);
                for variant in SEQ {
                    for pat in patterns(rng, nr * nc) {
                        w.new_matrix(out, 0, order, nr, nc, 1);
                        w.iter(out, 0, variant, &pat);
                        out.count(&format!("variant:{variant}"));
                    }
                }
                for variant in PAR {
                    w.new_matrix(out, 0, order, nr, nc, 1);
                    w.iter(out, 0, variant, "-");
                    out.count(&format!("variant:{variant}"));
                }
                // consumption through iterator adaptors instead of next / next_back
                // (jumps within one vector of the major axis, across several of them, to the last item and past the end)
                let (n, minor) = (nr * nc, if order == matreex::Order::RowMajor { nc } else { nr });
                let mut adaptors: Vec<String> = ["n1", "nb1", "ss", "tr", "rs", "last", "count", "fold"].iter().map(|a| a.to_string()).collect();
                if n > 0 {
                    for k in [2 * minor, 2 * minor + 1, n - 1, n] {
                        adaptors.push(format!("n{k}"));
                        adaptors.push(format!("nb{k}"));
                    }
                    adaptors.push(format!("nn{}x{}", minor, minor + 1));
                    adaptors.push(format!("nn{}x{}", 0, 2 * minor));
                    adaptors.push(format!("ss{}x{}", minor + 1, 2 * minor + 1));
                    adaptors.push(format!("ss{}x{}", 0, minor + 1));
                }
                for variant in SEQ {
                    for adaptor in &adaptors {
                        w.new_matrix(out, 0, order, nr, nc, 1);
                        w.iter_adapt(out, 0, variant, adaptor);
                    }
                }
                if w.regs[0].is_some() { w.drop_reg(out, 0); }
                if nr * nc > 1 { out.nontrivial(); }
            }
        }
    }
    // element types without identity: the unit type and a zero-sized type with counted construction / destruction
    fn anon<E: Elem + Send + Sync>(out: &mut Out, rng: &mut Rng) {
        for nr in 0..=3usize {
            for nc in 0..=3usize {
                for order in ORDERS {
                    out.case(&format!("iter elem={} zero-sized={} shape={nr}x{nc}{}", E::KIND, E::ZST, ord_ch(order)));
                    let mut w = World::<E>::new(out);
                    for variant in SEQ {
                        for pat in patterns(rng, nr * nc).into_iter().take(2) {
                            w.new_matrix(out, 0, order, nr, nc, 1);
                            w.iter_anon(out, 0, variant, &pat);
                            if w.regs[0].is_some() { w.drop_reg(out, 0); }
                        }
                    }
                    for variant in PAR {
                        w.new_matrix(out, 0, order, nr, nc, 1);
                        w.iter_anon(out, 0, variant, "-");
                        if w.regs[0].is_some() { w.drop_reg(out, 0); }
                    }
                    if nr * nc > 1 { out.nontrivial(); }
                }
            }
        }
    }
    anon::<()>(out, rng);
    anon::<Zd>(out, rng);
    let z = snapshot();
    if z.zst_live != 0 || z.zst_overdrops != 0 {
        out.oracle_fail(&format!("zero-sized elements with drop glue: created - dropped = {}, drops beyond creations = {}", z.zst_live, z.zst_overdrops));
    }
    // after order/shape-changing histories
    let n = if tier == Tier::Quick { 150 } else { 1500 };
    for _ in 0..n {
        out.case("iter after history");
        let mut w = World::<Tok>::new(out);
        w.new_matrix(out, 0, *rng.pick(&ORDERS), rng.below(5), rng.below(5), 1);
        prefix(&mut w, out, rng);
        let size = w.regs[0].as_ref().unwrap().size();
        let variant = *rng.pick(&["elems", "elems_mut", "into", "wi", "wi_mut", "into_wi", "par_wi", "par_wi_mut", "into_par_wi"]);
        let pats = patterns(rng, size);
        let pat = rng.pick(&pats).clone();
        w.iter(out, 0, variant, if variant.contains("par") { "-" } else { &pat });
        if w.regs[0].is_some() { w.drop_reg(out, 0); }
        out.nontrivial();
    }
    // sizes beyond any plausible block / threshold size (not multiples of 1024 or 4096)
    for (nr, nc) in [(40usize, 50usize), (1, 4099), (97, 101), (3, 1366), (257, 300)] {
        for order in ORDERS {
            out.case(&format!("iter large shape={nr}x{nc}{}", ord_ch(order)));
            out.count("shape-class:large");
            let mut w = World::<Tok>::new(out);
            for variant in ["wi", "wi_mut", "into_wi", "par_wi", "par_wi_mut", "into_par_wi", "par", "into_par"] {
                w.new_matrix(out, 0, order, nr, nc, 1);
                let pat = if variant.contains("par") { "-".to_string() } else { format!("FFF{}", "B".repeat(7)) };
                w.iter(out, 0, variant, &pat);
            }
            if w.regs[0].is_some() { w.drop_reg(out, 0); }
            out.nontrivial();
        }
    }
    // the index computation itself on shapes only zero-sized elements can reach (hook wrapper)
    out.case("index_from_flattened on huge shapes (verif-hooks)");
    out.nontrivial();
    for (nr, nc) in [(1usize << 20, 1usize << 20), (1 << 31, 1 << 31), ((1 << 32) - 1, (1 << 32) - 1), (3, 1 << 62), (usize::MAX, 1), (1 << 33, 5), (7, (1 << 40) + 3)] {
        let size = nr as u128 * nc as u128;
        for order in ORDERS {
            let mut ks: Vec<u128> = vec![0, 1, 2, size / 2, size / 3, size - 2, size - 1, 1 << 32, (1 << 32) + 1, (1 << 32) - 1, (1u128 << 33) + 12345];
            ks.retain(|&k| k < size && k <= usize::MAX as u128);
            for k in ks {
                let k = k as usize;
                let op = format!("ifhook {} {nr} {nc} {k}", ord_ch(order));
                out.announce(&op);
                let obs = match catch(|| matreex::verif_hooks::index_from_flattened(k, order, (nr, nc))) {
                    None => "panic".to_string(),
                    Some(i) => {
                        let back = match order {
                            matreex::Order::RowMajor => i.row as u128 * nc as u128 + i.col as u128,
                            matreex::Order::ColMajor => i.col as u128 * nr as u128 + i.row as u128,
                        };
                        if i.row >= nr || i.col >= nc || back != k as u128 {
                            out.oracle_fail(&format!("{op}: reported index ({}, {}) is not the coordinate of memory position {k}", i.row, i.col));
                        }
                        format!("ok {} {}", i.row, i.col)
                    }
                };
                out.observe(&obs);
            }
        }
    }
    let s = snapshot();
    if s.double_drops > 0 || s.live != 0 {
        out.oracle_fail(&format!("ledger at the end of the run: {} tokens still live, {} double drops", s.live, s.double_drops));
    }
    format!(
        "every shape 0..={bound} x 0..={bound} x both orders x the six sequential iterators (iter_elements, _mut, into_, and their _with_index forms) x six consumption patterns (front, back, alternating both ways, random mix, front-stopped-mid-vector-then-back) \
         and the six parallel forms; each sequential variant also through iterator adaptors on fresh iterators (nth, nth_back, skip + step_by, take + rev, rev + skip, last, count, fold); {n} random order/shape-changing histories (transpose, switch with and without rearrangement, reshape, resize) followed by one iterator; four large shapes (2000-10000 elements, not multiples of 1024/4096) for the indexed and parallel forms. \
         Elements are tokens with destructors. Oracle: every element exactly once, len() before every call, every reported index is in bounds and get(index) returns the very same element (address equality for borrowing variants), ledger balanced for consuming variants. \
         A case is non-trivial when the matrix has more than one element"
    )
}
