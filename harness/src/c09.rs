//! C09: reshape / resize on the memory-order sequence; failed fallible in-place operations
//! change nothing — exhaustive single calls and random histories with mostly-valid and
//! malformed arguments.

use crate::common::*;
use crate::hist::*;
use crate::tok::*;
use matreex::Order;

const HUGE: [usize; 6] = [1 << 31, 1 << 32, (1 << 32) + 1, isize::MAX as usize, usize::MAX - 1, usize::MAX];

fn single_calls<E: Elem>(out: &mut Out, sb: usize, tb: usize) {
    for sr in 0..=sb {
        for sc in 0..=sb {
            for order in ORDERS {
                out.case(&format!("single elem={} source={sr}x{sc}{} class={}", E::KIND, ord_ch(order), shape_class(sr, sc)));
                out.count(&format!("source-class:{}", shape_class(sr, sc)));
                let mut w = World::<E>::new(out);
                let mut targets: Vec<usize> = (0..=tb).collect();
                targets.extend(HUGE);
                for &tr in &targets {
                    for &tc in &targets {
                        w.new_matrix(out, 0, order, sr, sc, 1);
                        w.reshape(out, 0, tr, tc);
                        w.resize(out, 0, tr, tc);
                        w.drop_reg(out, 0);
                    }
                }
                out.nontrivial();
            }
        }
    }
}

fn divisors(n: usize) -> Vec<(usize, usize)> {
    (1..=n.max(1)).filter(|d| n % d == 0).map(|d| (d, n / d)).collect()
}

fn histories(out: &mut Out, rng: &mut Rng, n: usize, len: usize) {
    for _ in 0..n {
        out.case("history");
        let mut w = World::<Tok>::new(out);
        for r in 0..2 {
            let (nr, nc) = (rng.below(5), rng.below(5));
            w.new_matrix(out, r, *rng.pick(&ORDERS), nr, nc, 100 * (r + 1));
        }
        let steps = 2 + rng.below(len);
        for _ in 0..steps {
            let r = rng.below(2);
            let q = 1 - r;
            let (nr, nc) = { let m = w.regs[r].as_ref().unwrap(); (m.nrows(), m.ncols()) };
            let size = nr * nc;
            match rng.below(13) {
                0 => w.order_op(out, r, "transpose", None),
                1 => w.order_op(out, r, "switch", None),
                2 => w.order_op(out, r, "switch_wr", None),
                3 => {
                    // reshape: mostly valid (a divisor pair), sometimes off by one / overflowing
                    let (a, b) = if size == 0 { (rng.below(4), 0) } else { *rng.pick(&divisors(size)) };
                    match rng.below(5) {
                        0 => w.reshape(out, r, a + 1, b),
                        1 => w.reshape(out, r, *rng.pick(&HUGE), *rng.pick(&HUGE)),
                        _ => w.reshape(out, r, a, b),
                    }
                }
                4 => {
                    match rng.below(5) {
                        0 => w.resize(out, r, *rng.pick(&HUGE), 1 + rng.below(4)),
                        1 => w.resize(out, r, *rng.pick(&HUGE), *rng.pick(&HUGE)),
                        _ => w.resize(out, r, rng.below(6), rng.below(6)),
                    }
                }
                5 => w.swap_vecs(out, r, "swap_rows", rng.below(nr + 2), rng.below(nr + 2)),
                6 => w.swap_vecs(out, r, "swap_cols", rng.below(nc + 2), rng.below(nc + 2)),
                7 => {
                    let i = ('p', rng.below(nr + 1) as isize, rng.below(nc + 1) as isize);
                    let j = if rng.coin() { ('p', rng.below(nr + 1) as isize, rng.below(nc + 1) as isize) } else { ('w', rng.below(9) as isize - 4, rng.below(9) as isize - 4) };
                    w.swap_elems(out, r, i, j);
                }
                8 | 9 => {
                    // make the other operand conformable half of the time (possibly in the other order)
                    if rng.coin() {
                        let o = *rng.pick(&ORDERS);
                        w.new_matrix(out, q, o, nr, nc, 500);
                    }
                    let name = *rng.pick(&["gen", "add", "sub", "mul", "div", "rem"]);
                    w.ew(out, r, r, q, "assign", name);
                }
                10 => {
                    if rng.coin() {
                        let o = *rng.pick(&ORDERS);
                        w.new_matrix(out, q, o, nr, nc, 500);
                    }
                    w.ewopassign(out, r, q, *rng.pick(&['+', '-']), "b");
                }
                11 => {
                    let o = *rng.pick(&ORDERS);
                    w.order_op(out, r, "set_order", Some(o));
                }
                _ => {
                    let o: Order = *rng.pick(&ORDERS);
                    w.order_op(out, r, "set_order_wr", Some(o));
                }
            }
        }
        for r in 0..2 {
            w.drop_reg(out, r);
        }
        out.nontrivial();
    }
}

/// resize of matrices of zero-sized elements holding more than isize::MAX elements (legal: the
/// capacity limit is in bytes): shrinking, same size, growing by a few elements, overflowing targets
fn resize_huge_zst(out: &mut Out) {
    out.case("resize huge zero-sized receivers");
    out.nontrivial();
    let h = usize::MAX;
    let im = isize::MAX as usize;
    for (r0, c0) in [(1usize, h), (h, 1), (2, im), (1, im + 1), (1, h - 3), (3, h / 3)] {
        for order in ORDERS {
            let n = r0 * c0;
            for (r, c) in [(1usize, 5usize), (0, 0), (7, 0), (1, im), (1, im + 1), (im + 1, 1), (1, n), (n, 1), (c0, r0), (1, n - 1), (1, n.saturating_add(3)), (h, 2), (1usize << 32, 1usize << 32)] {
                // a growing resize constructs the new elements one by one: only short growths are run
                let target = (r as u128) * (c as u128);
                if target <= h as u128 && target > n as u128 && target - n as u128 > 1000 { continue; }
                let op = format!("oracle zst-resize {} {r0} {c0} {r} {c}", ord_ch(order));
                out.announce(&op);
                let mut v: Vec<()> = Vec::new();
                unsafe { v.set_len(n) };
                let mut m = mk_from(order, r0, c0, v);
                let res = catch(|| m.resize((r, c)).map(|_| ()));
                let want_ok = target <= h as u128;
                match res {
                    None => out.oracle_fail(&format!("{op}: panicked")),
                    Some(Ok(())) => {
                        if !want_ok { out.oracle_fail(&format!("{op}: an overflowing target was accepted")); }
                        if (m.nrows(), m.ncols(), m.order()) != (r, c, order) || m.size() as u128 != target {
                            out.oracle_fail(&format!("{op}: got {}x{} over {} elements", m.nrows(), m.ncols(), m.size()));
                        }
                    }
                    Some(Err(e)) => {
                        if want_ok || err_name(e) != "SizeOverflow" { out.oracle_fail(&format!("{op}: failed with {}", err_name(e))); }
                        if (m.nrows(), m.ncols(), m.size(), m.order()) != (r0, c0, n, order) { out.oracle_fail(&format!("{op}: the failed resize changed the matrix")); }
                    }
                }
                out.count("resize:huge-zero-sized");
                out.observe("ok");
            }
        }
    }
}

pub fn run_c09(out: &mut Out, rng: &mut Rng, tier: Tier) -> String {
    ledger_reset();
    resize_huge_zst(out);
    let (sb, tb, n, len) = if tier == Tier::Quick { (3, 4, 600, 10) } else { (5, 6, 6000, 30) };
    single_calls::<Tok>(out, sb, tb);
    single_calls::<u32>(out, 2, 3);
    single_calls::<()>(out, 2, 3);
    // zero-sized elements with drop glue and a counting Default: resize must still drop / create them
    single_calls::<Zd>(out, 2, 3);
    let z = snapshot();
    if z.zst_live != 0 || z.zst_overdrops != 0 {
        out.oracle_fail(&format!("zero-sized elements with drop glue: created - dropped = {} after all matrices were dropped, drops beyond creations = {}", z.zst_live, z.zst_overdrops));
    }
    histories(out, rng, n, len);
    crate::c08::reshape_huge_zst(out);
    // a resize that fails by unwinding (the k-th `T::default` of a growing resize panics): the matrix
    // is exactly as before; a panic in the destructor of a tail element does not undo the shrink
    for (r0, c0) in [(0usize, 0usize), (1, 1), (2, 2), (2, 3), (3, 1), (0, 3)] {
        for order in ORDERS {
            for (r1, c1) in [(3usize, 3usize), (1, 2), (4, 2), (2, 0), (2, 3)] {
                out.case(&format!("resize unwinding {r0}x{c0}{} -> {r1}x{c1}", ord_ch(order)));
                out.nontrivial();
                let callbacks = (r1 * c1).abs_diff(r0 * c0) as u64;
                for k in 0..=callbacks {
                    let mut w = World::<Tok>::new(out);
                    w.new_matrix(out, 0, order, r0, c0, 1);
                    w.fresize(out, 0, k, r1, c1);
                    // the survivor is a normal matrix: it can be resized again
                    w.resize(out, 0, r0 + 1, c0 + 1);
                    w.drop_reg(out, 0);
                }
            }
        }
    }
    for &(nr, nc) in LARGE[..3].iter().chain(VERY_LARGE.iter()) {
        for order in ORDERS {
            out.case(&format!("large reshape / resize shape={nr}x{nc} order={}", ord_ch(order)));
            out.nontrivial();
            let mut w = World::<Tok>::new(out);
            w.new_matrix(out, 0, order, nr, nc, 1);
            w.reshape(out, 0, nc, nr);
            w.reshape(out, 0, 1, nr * nc);
            w.reshape(out, 0, nr, nc + 1);
            w.reshape(out, 0, nr, nc);
            w.resize(out, 0, nr - 1, nc);
            w.resize(out, 0, nr + 1, nc + 1);
            w.resize(out, 0, nc, nr);
            w.resize(out, 0, 2, 3);
            w.drop_reg(out, 0);
        }
    }
    let s = snapshot();
    if s.double_drops > 0 || s.live != 0 {
        out.oracle_fail(&format!("ledger at the end of the run: {} tokens still live, {} double drops", s.live, s.double_drops));
    }
    format!(
        "single calls: every source shape 0..={sb} x 0..={sb} x both orders x reshape and resize to every target in (0..={tb} and 2^31, 2^32, 2^32+1, isize::MAX, usize::MAX-1, usize::MAX)^2 (tokens with destructors; smaller bounds for 4-byte and zero-sized elements); \
         {n} random histories (length <= {len}) over two registers mixing transpose/order changes with the fallible in-place operations reshape, resize, swap_rows, swap_cols, swap, elementwise *_assign (named and generic) and += / -=, \
         arguments mostly valid with a malformed stream (off-by-one shapes, overflowing shapes, out-of-range indices, non-conformable or cross-order operands). \
         Oracle: independent reference acting on the memory-order sequence; Ok/Err exactly as the property states; after any Err or panic the matrix (order, shape, memory sequence) is identical to before; drop/default counts of resize. All cases non-trivial"
    )
}
