//! C04 (checked indexing, all index types, stateful accessors) and C13 (wrapping indices).

use crate::common::*;
use matreex::index::AsIndex;
use matreex::{Index, Matrix, Order, WrappingIndex};
use std::cell::Cell;

/// caller-defined index whose accessors answer from a script and count their calls
struct Scripted {
    rows: Vec<usize>,
    cols: Vec<usize>,
    nrow: Cell<usize>,
    ncol: Cell<usize>,
}

impl AsIndex for &Scripted {
    fn row(&self) -> usize {
        let k = self.nrow.get();
        self.nrow.set(k + 1);
        *self.rows.get(k).unwrap_or_else(|| self.rows.last().unwrap())
    }
    fn col(&self) -> usize {
        let k = self.ncol.get();
        self.ncol.set(k + 1);
        *self.cols.get(k).unwrap_or_else(|| self.cols.last().unwrap())
    }
}

fn offset_of<T>(m: &Matrix<T>, p: *const T) -> usize {
    let base = m.iter_elements().next().map(|r| r as *const T).unwrap();
    (p as usize - base as usize) / size_of::<T>()
}

const ACCS: [&str; 4] = ["get", "get_mut", "index", "index_mut"];

/// run one access through the given access path; returns the canonical observation
fn access<I: matreex::index::MatrixIndex<u32, Output = u32>>(
    m: &mut Matrix<u32>,
    acc: &str,
    ix: I,
    out: &mut Out,
    what: &str,
) -> String {
    let res: Option<Result<(usize, u32), matreex::Error>> = match acc {
        "get" => catch(|| m.get(ix).map(|r| (r as *const u32, *r))).map(|x| x.map(|(p, v)| (offset_of(m, p), v))),
        "get_mut" => {
            let r = catch(|| m.get_mut(ix).map(|r| (r as *mut u32 as *const u32, *r)));
            r.map(|x| x.map(|(p, v)| (offset_of(m, p), v)))
        }
        "index" => catch(|| {
            let r = &m[ix];
            (r as *const u32, *r)
        })
        .map(|(p, v)| Ok((offset_of(m, p), v))),
        "index_mut" => catch(|| {
            let r = &mut m[ix];
            (r as *mut u32 as *const u32, *r)
        })
        .map(|(p, v)| Ok((offset_of(m, p), v))),
        _ => unreachable!(),
    };
    match res {
        None => "panic".to_string(),
        Some(Err(e)) => format!("err {}", err_name(e)),
        Some(Ok((off, v))) => {
            if v as usize != off {
                out.oracle_fail(&format!("{what}: reference at offset {off} reads value {v}"));
            }
            format!("ok {off}")
        }
    }
}

fn special_values(extent: usize) -> Vec<usize> {
    let mut v: Vec<usize> = (0..=extent + 1).collect();
    v.extend([1usize << 31, 1usize << 32, (1usize << 63) - 1, 1usize << 63, usize::MAX - 1, usize::MAX]);
    v
}

/// expected result of a checked access, computed independently of the crate and of the model
fn oracle_checked(order: Order, nr: usize, nc: usize, r: usize, c: usize) -> Option<usize> {
    if r < nr && c < nc {
        Some(match order {
            Order::RowMajor => r * nc + c,
            Order::ColMajor => c * nr + r,
        })
    } else {
        None
    }
}

fn check_oracle(out: &mut Out, acc: &str, obs: &str, expect: Option<usize>, what: &str) {
    let want = match expect {
        Some(off) => format!("ok {off}"),
        None => {
            if acc.starts_with("index") { "panic".to_string() } else { "err IndexOutOfBounds".to_string() }
        }
    };
    if !obs.starts_with(&want) || (obs.len() > want.len() && !obs[want.len()..].starts_with(' ')) {
        out.oracle_fail(&format!("{what}: expected `{want}`, implementation gave `{obs}`"));
    }
}

/// one access through a caller-defined index type whose accessors answer `r1`, `c1` on the first
/// call and `r2`, `c2` on later calls
#[allow(clippy::too_many_arguments)]
pub fn getacc_one(out: &mut Out, m: &mut Matrix<u32>, order: Order, nr: usize, nc: usize, acc: &str, (r1, r2): (usize, usize), (c1, c2): (usize, usize)) {
    let s = Scripted { rows: vec![r1, r2], cols: vec![c1, c2], nrow: Cell::new(0), ncol: Cell::new(0) };
    let op = format!("getacc {acc} {} {nr} {nc} {r1},{r2} {c1},{c2}", ord_ch(order));
    out.announce(&op);
    let base = access(m, acc, &s, out, &op);
    let obs = format!("{base} row={} col={}", s.nrow.get(), s.ncol.get());
    // oracle: exactly one call each, result exact at the first answers
    if s.nrow.get() != 1 || s.ncol.get() != 1 {
        out.oracle_fail(&format!("{op}: accessor called row={} col={} times", s.nrow.get(), s.ncol.get()));
    }
    check_oracle(out, acc, &obs, oracle_checked(order, nr, nc, r1, c1), &op);
    out.count(if r1 != r2 || c1 != c2 { "accessor:inconsistent" } else { "accessor:consistent" });
    out.observe(&obs);
}

/// a small fixed set of accesses through inconsistent accessors (used by C01: "every in-bounds
/// (row, col) resolves to its own element" must hold for every index type)
pub fn stateful_small(out: &mut Out) {
    for order in ORDERS {
        for (nr, nc) in [(2usize, 3usize), (1, 1), (3, 1)] {
            out.case(&format!("index resolution through caller-defined accessors shape={nr}x{nc} order={}", ord_ch(order)));
            out.nontrivial();
            let mut m = mk(order, nr, nc, |k| k as u32);
            for acc in ACCS {
                for (r1, r2) in [(0usize, nr), (nr - 1, 0), (0, 0), (nr, 0), (0, usize::MAX)] {
                    for (c1, c2) in [(0usize, nc), (nc - 1, 0), (0, 0), (nc, 0)] {
                        getacc_one(out, &mut m, order, nr, nc, acc, (r1, r2), (c1, c2));
                    }
                }
            }
        }
    }
}

/// matrices collected from row iterators that misreport their length (an exact-looking `size_hint`
/// equal to the first row's length): ragged input must still be refused; whatever comes back must
/// describe its elements, and every in-shape index must resolve inside the buffer
fn lying_rows(out: &mut Out) {
    out.case("matrices collected from row iterators with a wrong size_hint");
    out.nontrivial();
    for lens in [vec![2usize, 1, 3], vec![3, 2], vec![1, 2], vec![2, 3, 1], vec![2, 2, 2], vec![3, 3], vec![2, 4], vec![0, 1]] {
        let op = format!("oracle collect-lying-rows {:?}", lens).replace(' ', "");
        let op = op.replacen("oracle", "oracle ", 1);
        out.announce(&op);
        let ncols = lens[0];
        let uniform = lens.iter().all(|&l| l == ncols);
        let mut k = 0u32;
        let rows: Vec<Vec<u32>> = lens.iter().map(|&n| (0..n).map(|_| { k += 1; k }).collect()).collect();
        let flat: Vec<u32> = rows.iter().flatten().copied().collect();
        let res = catch(|| rows.into_iter().map(|r| crate::hist::Liar { it: r.into_iter(), claim: ncols }).collect::<Matrix<u32>>());
        match res {
            None => { if uniform { out.oracle_fail(&format!("{op}: uniform rows were refused")); } }
            Some(m) => {
                if !uniform { out.oracle_fail(&format!("{op}: ragged rows were accepted as a {}x{} matrix", m.nrows(), m.ncols())); }
                if m.nrows() * m.ncols() != m.size() {
                    out.oracle_fail(&format!("{op}: a {}x{} matrix over {} elements: in-shape indices would resolve outside the buffer", m.nrows(), m.ncols(), m.size()));
                } else {
                    for r in 0..m.nrows() { for c in 0..m.ncols() {
                        match m.get((r, c)) {
                            Ok(v) if uniform && *v != flat[r * ncols + c] => out.oracle_fail(&format!("{op}: get(({r},{c})) = {v}")),
                            Ok(_) => {}
                            Err(_) => out.oracle_fail(&format!("{op}: get(({r},{c})) failed inside the shape")),
                        }
                    } }
                }
            }
        }
        out.observe("ok");
    }
}

pub fn run_c04(out: &mut Out, rng: &mut Rng, tier: Tier) -> String {
    lying_rows(out);
    let bound = if tier == Tier::Quick { 4 } else { 5 };
    let mut kind_rot = 0usize;
    // exhaustive core: all shapes up to the bound (degenerate included), both orders, all
    // coordinates from the boundary set, access paths and plain index types in rotation
    for nr in 0..=bound {
        for nc in 0..=bound {
            for order in ORDERS {
                let mut m = mk(order, nr, nc, |k| k as u32);
                out.case(&format!("plain class={} order={}", shape_class(nr, nc), ord_ch(order)));
                out.count(&format!("shape-class:{}", shape_class(nr, nc)));
                for &r in &special_values(nr) {
                    for &c in &special_values(nc) {
                        let accs: Vec<&str> = if tier == Tier::Thorough || (r <= nr + 1 && c <= nc + 1) {
                            ACCS.to_vec()
                        } else {
                            vec![ACCS[kind_rot % 4]]
                        };
                        for acc in accs {
                            kind_rot += 1;
                            let kind = ["tuple", "array", "Index"][kind_rot % 3];
                            let op = format!("get {acc} {kind} {} {nr} {nc} {r} {c}", ord_ch(order));
                            out.announce(&op);
                            let obs = match kind {
                                "tuple" => access(&mut m, acc, (r, c), out, &op),
                                "array" => access(&mut m, acc, [r, c], out, &op),
                                _ => access(&mut m, acc, Index::new(r, c), out, &op),
                            };
                            check_oracle(out, acc, &obs, oracle_checked(order, nr, nc, r, c), &op);
                            out.count(if obs.starts_with("ok") { "result:ok" } else { "result:out-of-bounds" });
                            out.count(&format!("path:{acc}"));
                            out.count(&format!("index-type:{kind}"));
                            out.observe(&obs);
                            out.nontrivial();
                        }
                    }
                }
            }
        }
    }
    // stateful / inconsistent accessors: every (first answer, later answer) pair from the
    // boundary set, for row and column independently
    let sb = if tier == Tier::Quick { 3 } else { 4 };
    for nr in 0..=sb {
        for nc in 0..=sb {
            for order in ORDERS {
                let mut m = mk(order, nr, nc, |k| k as u32);
                out.case(&format!("stateful class={} order={}", shape_class(nr, nc), ord_ch(order)));
                let rv: Vec<usize> = (0..=nr + 1).chain([usize::MAX]).collect();
                let cv: Vec<usize> = (0..=nc + 1).chain([usize::MAX]).collect();
                for &r1 in &rv {
                    for &r2 in &rv {
                        for &c1 in &cv {
                            for &c2 in &cv {
                                if tier == Tier::Quick && rng.below(4) != 0 && !(r1 < nr && c1 < nc && (r2 >= nr || c2 >= nc)) {
                                    continue;
                                }
                                kind_rot += 1;
                                let acc = ACCS[kind_rot % 4];
                                getacc_one(out, &mut m, order, nr, nc, acc, (r1, r2), (c1, c2));
                                out.nontrivial();
                            }
                        }
                    }
                }
            }
        }
    }
    // zero-sized elements: shapes up to usize::MAX elements (vector built without allocation)
    let big = [1usize, 2, 3, 1 << 16, 1 << 32, (1 << 32) + 1, usize::MAX / 2, usize::MAX];
    for &a in &big {
        for &b in &big {
            let Some(n) = a.checked_mul(b) else { continue };
            for order in ORDERS {
                let mut v: Vec<()> = Vec::new();
                unsafe { v.set_len(n) };
                let mut m = mk_from(order, a, b, v);
                out.case(&format!("zst shape={a}x{b} order={}", ord_ch(order)));
                out.count("shape-class:zst-huge");
                for &r in &[0usize, 1, a.wrapping_sub(1), a, usize::MAX] {
                    for &c in &[0usize, 1, b.wrapping_sub(1), b, usize::MAX] {
                        kind_rot += 1;
                        let acc = ACCS[kind_rot % 4];
                        let op = format!("zget {acc} {} {a} {b} {r} {c}", ord_ch(order));
                        out.announce(&op);
                        let res: Option<Result<(), matreex::Error>> = match acc {
                            "get" => catch(|| m.get((r, c)).map(|_| ())),
                            "get_mut" => catch(|| m.get_mut((r, c)).map(|_| ())),
                            "index" => catch(|| { let _ = &m[(r, c)]; }).map(Ok),
                            _ => catch(|| { let _ = &mut m[(r, c)]; }).map(Ok),
                        };
                        let obs = match res {
                            None => "panic".to_string(),
                            Some(Err(e)) => format!("err {}", err_name(e)),
                            Some(Ok(())) => "ok".to_string(),
                        };
                        let inb = r < a && c < b;
                        let want = if inb { "ok" } else if acc.starts_with("index") { "panic" } else { "err IndexOutOfBounds" };
                        if obs != want {
                            out.oracle_fail(&format!("{op}: expected `{want}`, implementation gave `{obs}`"));
                        }
                        out.observe(&obs);
                        out.nontrivial();
                    }
                }
            }
        }
    }
    out.exhaustive = true;
    format!(
        "exhaustive: all shapes 0..={bound} x 0..={bound}, both orders, coordinates from {{0..=extent+1, 2^31, 2^32, 2^63-1, 2^63, usize::MAX-1, usize::MAX}}^2, \
         access paths get/get_mut/index/index_mut and index types tuple/array/Index (all paths near the bounds, rotating elsewhere in quick tier); \
         scripted accessors with every (first, later) answer pair from {{0..=extent+1, usize::MAX}} for shapes up to {sb}x{sb} (quick: 1/4 sample plus all in-bounds-then-out-of-bounds pairs); \
         zero-sized-element matrices with extents up to usize::MAX. A case = one matrix with all its accesses; every case is non-trivial (has both in-bounds and out-of-bounds accesses)"
    )
}

pub fn run_c13(out: &mut Out, rng: &mut Rng, tier: Tier) -> String {
    let bound = if tier == Tier::Quick { 4 } else { 5 };
    let long = if tier == Tier::Quick { 17 } else { 64 };
    let mut shapes: Vec<(usize, usize)> = Vec::new();
    for nr in 0..=bound {
        for nc in 0..=bound {
            shapes.push((nr, nc));
        }
    }
    shapes.push((1, long));
    shapes.push((long, 1));
    let ext = [isize::MIN, isize::MIN + 1, -1, 0, 1, isize::MAX - 1, isize::MAX];
    let mut rot = 0usize;
    for &(nr, nc) in &shapes {
        for order in ORDERS {
            let mut m = mk(order, nr, nc, |k| k as u32);
            out.case(&format!("wrap class={} order={}", shape_class(nr, nc), ord_ch(order)));
            out.count(&format!("shape-class:{}", shape_class(nr, nc)));
            let wr = (3 * nr + 2) as isize;
            let wc = (3 * nc + 2) as isize;
            let mut coords: Vec<(isize, isize)> = Vec::new();
            if nr <= bound && nc <= bound {
                for r in -wr..=wr {
                    for c in -wc..=wc {
                        coords.push((r, c));
                    }
                }
            } else {
                for _ in 0..400 {
                    coords.push((rng.below((2 * wr + 1) as usize) as isize - wr, rng.below((2 * wc + 1) as usize) as isize - wc));
                }
            }
            for &r in &ext {
                for &c in &ext {
                    coords.push((r, c));
                }
            }
            for (r, c) in coords {
                rot += 1;
                let empty = nr * nc == 0;
                // unchecked forms only where the property speaks about them: on empty matrices
                // (must panic) and, rotating, on non-empty ones
                let acc = match rot % 6 {
                    0 => "get",
                    1 => "get_mut",
                    2 => "index",
                    3 => "index_mut",
                    4 => "get_unchecked",
                    _ => "get_unchecked_mut",
                };
                let ix = WrappingIndex::new(r, c);
                let op = format!("wget {acc} {} {nr} {nc} {r} {c}", ord_ch(order));
                out.announce(&op);
                let obs = if acc.starts_with("get_unchecked") {
                    let res = if acc == "get_unchecked" {
                        catch(|| unsafe { let p = m.get_unchecked(ix); (p as *const u32, *p) })
                    } else {
                        catch(|| unsafe { let p = m.get_unchecked_mut(ix); (p as *mut u32 as *const u32, *p) })
                    };
                    match res {
                        None => "panic".to_string(),
                        Some((p, v)) => {
                            let off = offset_of(&m, p);
                            if v as usize != off {
                                out.oracle_fail(&format!("{op}: reference at offset {off} reads value {v}"));
                            }
                            format!("ok {off}")
                        }
                    }
                } else {
                    access(&mut m, acc, ix, out, &op)
                };
                // oracle: Euclidean remainder in i128
                let want = if empty {
                    if acc.starts_with("get_unchecked") || acc.starts_with("index") { "panic".to_string() } else { "err IndexOutOfBounds".to_string() }
                } else {
                    let rr = (r as i128).rem_euclid(nr as i128) as usize;
                    let cc = (c as i128).rem_euclid(nc as i128) as usize;
                    format!("ok {}", oracle_checked(order, nr, nc, rr, cc).unwrap())
                };
                if obs != want {
                    out.oracle_fail(&format!("{op}: expected `{want}`, implementation gave `{obs}`"));
                }
                out.count(if empty { "matrix:empty" } else if r < 0 || c < 0 { "index:negative" } else { "index:non-negative" });
                out.count(&format!("path:{acc}"));
                out.observe(&obs);
                out.nontrivial();
            }
        }
    }
    // extents that only zero-sized element types can reach (beyond isize::MAX): the index
    // computation itself through the verif-hooks wrapper, and real `Matrix<()>` accesses
    let big = [1usize, 2, 3, 7, (1 << 63) - 1, 1 << 63, (1 << 63) + 1, usize::MAX - 1, usize::MAX];
    out.case("wrap huge extents (zero-sized elements / hooks)");
    out.nontrivial();
    for &a in &big {
        for &b in &big {
            for order in ORDERS {
                for &r in &ext {
                    for &c in &ext {
                        let op = format!("whook {} {a} {b} {r} {c}", ord_ch(order));
                        out.announce(&op);
                        let res = catch(|| matreex::verif_hooks::from_wrapping_index(WrappingIndex::new(r, c), order, (a, b)));
                        let obs = match res {
                            None => "panic".to_string(),
                            Some((mj, mn)) => format!("ok {mj} {mn}"),
                        };
                        let rr = (r as i128).rem_euclid(a as i128) as usize;
                        let cc = (c as i128).rem_euclid(b as i128) as usize;
                        let want = match order {
                            Order::RowMajor => format!("ok {rr} {cc}"),
                            Order::ColMajor => format!("ok {cc} {rr}"),
                        };
                        if obs != want {
                            out.oracle_fail(&format!("{op}: expected `{want}`, implementation gave `{obs}`"));
                        }
                        out.count("index:huge-extent");
                        out.observe(&obs);
                    }
                }
            }
            // a real matrix of zero-sized elements with that shape, when the size fits usize
            if let Some(n) = a.checked_mul(b) {
                let mut v: Vec<()> = Vec::new();
                unsafe { v.set_len(n) };
                let m = mk_from(Order::RowMajor, a, b, v);
                for &r in &ext {
                    for &c in &ext {
                        let op = format!("wzget R {a} {b} {r} {c}");
                        out.announce(&op);
                        let obs = match catch(|| m.get(WrappingIndex::new(r, c)).map(|_| ())) {
                            None => "panic".to_string(),
                            Some(Ok(())) => "ok".to_string(),
                            Some(Err(e)) => format!("err {}", err_name(e)),
                        };
                        if obs != "ok" {
                            out.oracle_fail(&format!("{op}: expected `ok`, implementation gave `{obs}`"));
                        }
                        out.observe(&obs);
                    }
                }
            }
        }
    }
    out.exhaustive = true;
    format!(
        "exhaustive: all shapes 0..={bound} x 0..={bound} (empty ones included) plus 1x{long} and {long}x1, both orders, all (row, col) in [-3*extent-2, 3*extent+2]^2 \
         (400 random pairs from that window for the long shapes) plus all 49 pairs of {{isize::MIN, MIN+1, -1, 0, 1, MAX-1, MAX}}; access paths get/get_mut/index/index_mut/get_unchecked/get_unchecked_mut in rotation. \
         Plus extents {{1,2,3,7, 2^63-1, 2^63, 2^63+1, usize::MAX-1, usize::MAX}}^2 x the 49 extreme pairs through the from_wrapping_index hook and on real zero-sized-element matrices. \
         A case = one matrix with all its accesses; every case is non-trivial (several periods in both directions)"
    )
}
